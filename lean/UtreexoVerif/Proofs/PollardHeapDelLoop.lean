/-
  Pointer forest, heap model: the loop of `remove` along a sequence of deletable positions.

  `DelSeq D F ps F'`: the positions `ps` can be deleted one after the other — each one is, in
  the forest reached so far, the position of a node all of whose leaves are in `D` — and the
  forest reached at the end is `F'`.  `removeLoop_absD`: along such a sequence `removeLoop`
  succeeds and the heap follows the forests.
-/
import UtreexoVerif.Proofs.PollardHeapDelForest
set_option linter.unusedSectionVars false
set_option linter.unusedVariables false
set_option linter.unusedSimpArgs false

namespace UtreexoVerif.Proofs.PollardHeap
open UtreexoVerif UtreexoVerif.GoInt UtreexoVerif.Model UtreexoVerif.Model.PollardHeap UtreexoVerif.Spec Hasher
open UtreexoVerif.Model.PollardAbs UtreexoVerif.Proofs.SpecNodes UtreexoVerif.Proofs.SpecSubs
open UtreexoVerif.Proofs.PollardLookup UtreexoVerif.Proofs.SpecView

variable {H : Type} [DecidableEq H] [Hasher H]

/-- a sequence of positions that can be deleted one after the other -/
inductive DelSeq (D : List H) : Forest H → List U64 → Forest H → Prop
  | nil (F : Forest H) : DelSeq D F [] F
  | cons {F F' : Forest H} {R : Nat} {q : Pos} {a : CTree H} {rest : List U64} :
      SubAtT F R q a → (∀ x ∈ a.leaves, x ∈ D) → DelSeq D (F.delLeaves a.leaves) rest F' →
      DelSeq D F (encU F.rows q.1 q.2 :: rest) F'

theorem mem_liveLeaves_delLeaves {F : Forest H} {R : List H} {x : H}
    (h : x ∈ (F.delLeaves R).liveLeaves) : x ∈ F.liveLeaves := by
  unfold Forest.liveLeaves at h ⊢
  rw [delLeaves_slots] at h
  simp only [List.mem_filterMap, List.mem_map, id] at h ⊢
  obtain ⟨s, ⟨s0, hs0, e⟩, hsx⟩ := h
  subst hsx
  cases s0 with
  | none => simp [kill] at e
  | some y =>
    simp only [kill] at e
    split at e
    · cases e
    · cases e; exact ⟨_, hs0, rfl⟩

/-- **the loop of `remove`** -/
theorem removeLoop_absD {D : List H} : ∀ (ps : List U64) (p : Pollard H) (F F' : Forest H),
    AbsD p F D → F.numLeaves < 2 ^ 63 → (∀ x ∈ F.liveLeaves, ∀ u v : H, x ≠ ph u v) →
    DelSeq D F ps F' →
    ∃ hp' nm', removeLoop ps p = (.ok (), { p with heap := hp', nodeMap := nm' }) ∧
      AbsD { p with heap := hp', nodeMap := nm' } F' D := by
  intro ps
  induction ps with
  | nil =>
    intro p F F' hA hn hsep hseq
    cases hseq
    exact ⟨p.heap, p.nodeMap, rfl, hA⟩
  | cons del rest ih =>
    intro p F F' hA hn hsep hseq
    cases hseq with
    | @cons _ _ R q a _ hs hD hrest =>
      have htr : F.rows ≤ 63 := forestRows_le_63 hn
      have hb := hs.bit
      obtain ⟨hrR, hoff⟩ := hs.under
      obtain ⟨hrr, hoo⟩ : q.1 ≤ F.rows ∧ q.2 < 2 ^ (F.rows - q.1) := under_valid hb hrR hoff
      have hnl := hA.numLeaves
      have hN : p.numLeaves = BitVec.ofNat 64 F.numLeaves := by rw [← hnl]; simp
      have hT : TreeRows p.numLeaves = H8 F.rows := by rw [hN]; exact treeRows_eq hn
      have hisroot : isRootPosition (encU F.rows q.1 q.2) p.numLeaves = isRootPos F.numLeaves q := by
        rw [Props.C16.isRootPosition_enc p.numLeaves hT htr hrr hoo, hnl]
      have hn' : (F.delLeaves a.leaves).numLeaves < 2 ^ 63 := by rw [numLeaves_delLeaves]; exact hn
      have hsep' : ∀ x ∈ (F.delLeaves a.leaves).liveLeaves, ∀ u v : H, x ≠ ph u v :=
        fun x hx => hsep x (mem_liveLeaves_delLeaves hx)
      cases hroot : isRootPos F.numLeaves q with
      | true =>
        -- a root position
        have hq1 : q.1 = R := hs.root_iff.1 hroot
        have hq : q = rootPos F.numLeaves R := by
          rw [hq1, Nat.sub_self, Nat.pow_zero, Nat.div_one] at hoff
          rw [show q = (q.1, q.2) from rfl, hq1, hoff]; rfl
        rw [hq] at hs
        obtain ⟨hp1, nm1, e1, a1⟩ := deleteRoot_absD hA hn hs hD hsep
        obtain ⟨hp2, nm2, e2, a2⟩ := ih _ _ _ a1 hn' hsep' hrest
        refine ⟨hp2, nm2, ?_, a2⟩
        unfold removeLoop
        simp only [bind_apply, getNumLeaves_apply, hisroot, hroot, if_true]
        have : encU F.rows q.1 q.2 = encU F.rows R (rootPos F.numLeaves R).2 := by rw [hq]; rfl
        rw [this, e1]
        exact e2
      | false =>
        obtain ⟨hp1, nm1, e1, a1⟩ := deleteSingle_absD hA hn hs hroot hD hsep
        obtain ⟨hp2, nm2, e2, a2⟩ := ih _ _ _ a1 hn' hsep' hrest
        refine ⟨hp2, nm2, ?_, a2⟩
        unfold removeLoop
        simp only [bind_apply, getNumLeaves_apply, hisroot, hroot, Bool.false_eq_true, if_false]
        rw [e1]
        exact e2

end UtreexoVerif.Proofs.PollardHeap
