/-
  `ProofPositions`, step 3: for strictly sorted targets (nested or not) the (row, offset)
  algorithm `refPP` computes the canonical proof positions of the specification.
  Pure `Nat` / `List` reasoning, no bit vectors.
-/
import UtreexoVerif.Proofs.ProofPosRef

namespace UtreexoVerif.Proofs
open UtreexoVerif Spec Spec.Forest

/-! ### the order on positions -/

/-- `posLt` as a proposition -/
abbrev PLt (a b : Pos) : Prop := posLt a b = true

theorem PLt_iff {a b : Pos} : PLt a b ↔ a.1 < b.1 ∨ (a.1 = b.1 ∧ a.2 < b.2) := by
  simp [PLt, posLt]

theorem PLt_irrefl (a : Pos) : ¬ PLt a a := by rw [PLt_iff]; omega

theorem PLt_trans {a b c : Pos} (h1 : PLt a b) (h2 : PLt b c) : PLt a c := by
  rw [PLt_iff] at *; omega

theorem PLt_asymm {a b : Pos} (h1 : PLt a b) : ¬ PLt b a := by
  rw [PLt_iff] at *; omega

theorem PLt_total (a b : Pos) : PLt a b ∨ a = b ∨ PLt b a := by
  rw [PLt_iff, PLt_iff]
  obtain ⟨a1, a2⟩ := a
  obtain ⟨b1, b2⟩ := b
  simp only [Prod.mk.injEq]
  omega

/-- strictly sorted -/
abbrev SSorted (l : List Pos) : Prop := l.Pairwise PLt

/-- two strictly sorted lists with the same members are equal -/
theorem eq_of_ssorted : ∀ {l l' : List Pos}, SSorted l → SSorted l' → (∀ a, a ∈ l ↔ a ∈ l') → l = l'
  | [], [], _, _, _ => rfl
  | [], b :: l', _, _, h => by have := (h b).2 (by simp); simp at this
  | a :: l, [], _, _, h => by have := (h a).1 (by simp); simp at this
  | a :: l, b :: l', hl, hl', h => by
    have hl := List.pairwise_cons.1 hl
    have hl' := List.pairwise_cons.1 hl'
    have hab : a = b := by
      have h1 : a ∈ b :: l' := (h a).1 (by simp)
      have h2 : b ∈ a :: l := (h b).2 (by simp)
      rcases List.mem_cons.1 h1 with e | h1
      · exact e
      · rcases List.mem_cons.1 h2 with e | h2
        · exact e.symm
        · exact absurd (hl.1 b h2) (PLt_asymm (hl'.1 a h1))
    subst hab
    congr 1
    apply eq_of_ssorted hl.2 hl'.2
    intro x
    constructor
    · intro hx
      rcases List.mem_cons.1 ((h x).1 (List.mem_cons_of_mem _ hx)) with e | h1
      · subst e; exact absurd (hl.1 x hx) (PLt_irrefl x)
      · exact h1
    · intro hx
      rcases List.mem_cons.1 ((h x).2 (List.mem_cons_of_mem _ hx)) with e | h1
      · subst e; exact absurd (hl'.1 x hx) (PLt_irrefl x)
      · exact h1


theorem SSorted.nodup {l : List Pos} (h : SSorted l) : l.Nodup :=
  List.Pairwise.imp (fun {a b} hab e => by subst e; exact PLt_irrefl a hab) h

/-! ### `sortPos` -/

theorem insertPos_ssorted {x : Pos} : ∀ {l : List Pos}, SSorted l → x ∉ l → SSorted (insertPos x l)
  | [], _, _ => by simp [insertPos, SSorted]
  | y :: ys, hl, hx => by
    have hl' := List.pairwise_cons.1 hl
    rw [insertPos]
    split
    · rename_i hlt
      refine List.pairwise_cons.2 ⟨?_, hl⟩
      intro z hz
      rcases List.mem_cons.1 hz with rfl | hz
      · exact hlt
      · exact PLt_trans hlt (hl'.1 z hz)
    · rename_i hlt
      have hyx : PLt y x := by
        rcases PLt_total x y with h | h | h
        · exact absurd h hlt
        · subst h; simp at hx
        · exact h
      refine List.pairwise_cons.2 ⟨?_, insertPos_ssorted hl'.2 (fun h => hx (List.mem_cons_of_mem _ h))⟩
      intro z hz
      rcases mem_insertPos.1 hz with rfl | hz
      · exact hyx
      · exact hl'.1 z hz

theorem foldl_insertPos_ssorted : ∀ (l acc : List Pos), SSorted acc → l.Nodup →
    (∀ x ∈ l, x ∉ acc) → SSorted (l.foldl (fun a x => insertPos x a) acc)
  | [], acc, h, _, _ => h
  | x :: l, acc, h, hnd, hdis => by
    have hnd' := List.nodup_cons.1 hnd
    rw [List.foldl_cons]
    apply foldl_insertPos_ssorted l _ (insertPos_ssorted h (hdis x (by simp))) hnd'.2
    intro y hy hc
    rcases mem_insertPos.1 hc with rfl | hc
    · exact hnd'.1 hy
    · exact hdis y (List.mem_cons_of_mem _ hy) hc

theorem sortPos_ssorted {l : List Pos} (h : l.Nodup) : SSorted (sortPos l) :=
  foldl_insertPos_ssorted l [] List.Pairwise.nil h (by simp)

/-- sorting an already strictly sorted list changes nothing -/
theorem sortPos_of_ssorted {l : List Pos} (h : SSorted l) : sortPos l = l :=
  eq_of_ssorted (sortPos_ssorted h.nodup) h (fun _ => mem_sortPos)

/-! ### `compactPos ∘ sortPos`: strictly sorted, whatever the list -/

/-- `a` is not after `b` -/
abbrev PLe (a b : Pos) : Prop := ¬ PLt b a

theorem PLe_iff {a b : Pos} : PLe a b ↔ a.1 < b.1 ∨ (a.1 = b.1 ∧ a.2 ≤ b.2) := by
  rw [PLe, PLt_iff]; omega

theorem PLt_of_PLe_ne {a b : Pos} (h : PLe a b) (hne : a ≠ b) : PLt a b := by
  rcases PLt_total a b with h1 | h1 | h1
  · exact h1
  · exact absurd h1 hne
  · exact absurd h1 h

theorem PLt_of_PLt_PLe {a b c : Pos} (h1 : PLt a b) (h2 : PLe b c) : PLt a c := by
  rw [PLe_iff] at h2; rw [PLt_iff] at *; omega

/-- weakly sorted -/
abbrev WSorted (l : List Pos) : Prop := l.Pairwise PLe

theorem insertPos_wsorted {x : Pos} : ∀ {l : List Pos}, WSorted l → WSorted (insertPos x l)
  | [], _ => by simp [insertPos, WSorted]
  | y :: ys, hl => by
    have hl' := List.pairwise_cons.1 hl
    rw [insertPos]
    split
    · rename_i hlt
      refine List.pairwise_cons.2 ⟨?_, hl⟩
      intro z hz
      rcases List.mem_cons.1 hz with rfl | hz
      · exact PLt_asymm hlt
      · exact PLt_asymm (PLt_of_PLt_PLe hlt (hl'.1 z hz))
    · rename_i hlt
      refine List.pairwise_cons.2 ⟨?_, insertPos_wsorted hl'.2⟩
      intro z hz
      rcases mem_insertPos.1 hz with rfl | hz
      · exact hlt
      · exact hl'.1 z hz

theorem foldl_insertPos_wsorted : ∀ (l acc : List Pos), WSorted acc →
    WSorted (l.foldl (fun a x => insertPos x a) acc)
  | [], _, h => h
  | x :: l, acc, h => by
    rw [List.foldl_cons]
    exact foldl_insertPos_wsorted l _ (insertPos_wsorted h)

theorem sortPos_wsorted (l : List Pos) : WSorted (sortPos l) :=
  foldl_insertPos_wsorted l [] List.Pairwise.nil

theorem compactPosAux_ssorted : ∀ (l : List Pos) (prev : Pos), WSorted (prev :: l) →
    SSorted (prev :: compactPosAux prev l)
  | [], _, _ => by simp [compactPosAux, SSorted]
  | x :: xs, prev, h => by
    have h1 := List.pairwise_cons.1 h
    have h2 := List.pairwise_cons.1 h1.2
    rw [compactPosAux]
    by_cases e : (x == prev) = true
    · rw [if_pos e]
      exact compactPosAux_ssorted xs prev
        (List.pairwise_cons.2 ⟨fun z hz => h1.1 z (List.mem_cons_of_mem _ hz), h2.2⟩)
    · rw [if_neg e]
      have hne : prev ≠ x := fun hc => e (by rw [hc]; simp)
      have hlt : PLt prev x := PLt_of_PLe_ne (h1.1 x (by simp)) hne
      have ih := compactPosAux_ssorted xs x h1.2
      refine List.pairwise_cons.2 ⟨?_, ih⟩
      intro z hz
      rcases List.mem_cons.1 ((mem_cons_compactPosAux xs x).1 hz) with rfl | hz
      · exact hlt
      · exact PLt_of_PLt_PLe hlt (h2.1 z hz)

theorem compactPos_ssorted {l : List Pos} (h : WSorted l) : SSorted (compactPos l) := by
  cases l with
  | nil => exact List.Pairwise.nil
  | cons x xs => rw [compactPos]; exact compactPosAux_ssorted xs x h

/-- sorting and compacting ANY list yields a strictly sorted list -/
theorem compact_sortPos_ssorted (l : List Pos) : SSorted (compactPos (sortPos l)) :=
  compactPos_ssorted (sortPos_wsorted l)

theorem mem_compact_sortPos {y : Pos} {l : List Pos} : y ∈ compactPos (sortPos l) ↔ y ∈ l := by
  rw [mem_compactPos, mem_sortPos]

/-- a strictly sorted list is a fixed point of compaction -/
theorem compactPos_of_ssorted {l : List Pos} (h : SSorted l) : compactPos l = l :=
  eq_of_ssorted (compactPos_ssorted (List.Pairwise.imp (fun hab => PLt_asymm hab) h)) h
    (fun _ => mem_compactPos)

/-- insertion below a row threshold only touches the low part -/
theorem insertPos_append_low {k : Nat} {x : Pos} (hx : x.1 < k) :
    ∀ (A B : List Pos), (∀ b ∈ B, k ≤ b.1) → insertPos x (A ++ B) = insertPos x A ++ B
  | [], [], _ => rfl
  | [], b :: B, hB => by
    have := hB b (by simp)
    have hlt : posLt x b = true := PLt_iff.2 (Or.inl (by omega))
    simp [insertPos, hlt]
  | a :: A, B, hB => by
    rw [List.cons_append, insertPos, insertPos]
    split
    · rfl
    · rw [insertPos_append_low hx A B hB]; rfl

theorem insertPos_append_high {k : Nat} {x : Pos} (hx : k ≤ x.1) :
    ∀ (A B : List Pos), (∀ a ∈ A, a.1 < k) → insertPos x (A ++ B) = A ++ insertPos x B
  | [], B, _ => rfl
  | a :: A, B, hA => by
    have := hA a (by simp)
    have hlt : ¬ posLt x a = true := by
      intro hc; have := PLt_iff.1 hc; omega
    rw [List.cons_append, insertPos, if_neg hlt,
      insertPos_append_high hx A B (fun a' h => hA a' (List.mem_cons_of_mem _ h))]
    rfl

theorem foldl_insertPos_split (k : Nat) : ∀ (l A B : List Pos), (∀ a ∈ A, a.1 < k) →
    (∀ b ∈ B, k ≤ b.1) →
    l.foldl (fun a x => insertPos x a) (A ++ B) =
      (l.filter (fun p => decide (p.1 < k))).foldl (fun a x => insertPos x a) A ++
        (l.filter (fun p => !decide (p.1 < k))).foldl (fun a x => insertPos x a) B
  | [], A, B, _, _ => rfl
  | x :: l, A, B, hA, hB => by
    rw [List.foldl_cons]
    by_cases hx : x.1 < k
    · rw [insertPos_append_low hx A B hB, foldl_insertPos_split k l (insertPos x A) B
        (by intro a ha; rcases mem_insertPos.1 ha with rfl | ha; exact hx; exact hA a ha) hB]
      simp [hx]
    · rw [insertPos_append_high (by omega) A B hA, foldl_insertPos_split k l A (insertPos x B) hA
        (by intro b hb; rcases mem_insertPos.1 hb with rfl | hb; omega; exact hB b hb)]
      simp [hx]

/-- sorting separates the rows below `k` from the rows at and above `k` -/
theorem sortPos_split (k : Nat) (l : List Pos) :
    sortPos l = sortPos (l.filter (fun p => decide (p.1 < k))) ++
      sortPos (l.filter (fun p => !decide (p.1 < k))) := by
  unfold sortPos
  exact foldl_insertPos_split k l [] [] (by simp) (by simp)


/-! ### structure of a row scan -/

/-- the scan's `continue` test -/
abbrev skipP (n ρ : Nat) (t : Pos) : Bool := t.1 != ρ || isRootPos n t

theorem scanPos_cons_skip {n ρ : Nat} {t : Pos} (rest : List Pos) (h : skipP n ρ t = true) :
    scanPos n ρ (t :: rest) =
      (t :: (scanPos n ρ rest).1, (scanPos n ρ rest).2.1, (scanPos n ρ rest).2.2) := by
  cases rest with
  | nil => simp only [skipP] at h; simp [scanPos, h]
  | cons nxt rest => simp only [skipP] at h; simp [scanPos, h]

theorem scanPos_skip_prefix {n ρ : Nat} : ∀ (A X : List Pos), (∀ a ∈ A, skipP n ρ a = true) →
    scanPos n ρ (A ++ X) =
      (A ++ (scanPos n ρ X).1, (scanPos n ρ X).2.1, (scanPos n ρ X).2.2)
  | [], X, _ => rfl
  | a :: A, X, hA => by
    rw [List.cons_append, scanPos_cons_skip _ (hA a (by simp)),
      scanPos_skip_prefix A X (fun a' h => hA a' (List.mem_cons_of_mem _ h))]
    rfl

theorem scanPos_all_skip {n ρ : Nat} (A : List Pos) (hA : ∀ a ∈ A, skipP n ρ a = true) :
    scanPos n ρ A = (A, [], []) := by
  have := scanPos_skip_prefix A [] hA
  simpa [scanPos] using this

theorem scanPos_skip_suffix {n ρ : Nat} (C : List Pos) (hC : ∀ c ∈ C, c.1 ≠ ρ) :
    ∀ (X : List Pos), scanPos n ρ (X ++ C) =
      ((scanPos n ρ X).1 ++ C, (scanPos n ρ X).2.1, (scanPos n ρ X).2.2)
  | [] => by
    rw [List.nil_append, scanPos_all_skip C (fun c hc => by simp [skipP, hC c hc])]
    rfl
  | [t] => by
    by_cases hs : skipP n ρ t = true
    · rw [List.singleton_append, scanPos_cons_skip _ hs, scanPos_cons_skip _ hs,
        scanPos_all_skip C (fun c hc => by simp [skipP, hC c hc])]
      rfl
    · cases C with
      | nil => simp
      | cons c C =>
        have hc : (c == (ρ, 2 * (t.2 / 2) + 1)) = false := by
          apply beq_false_of_ne
          intro e
          have := hC c (by simp)
          rw [e] at this
          exact this rfl
        have hall := scanPos_all_skip (n := n) (ρ := ρ) (c :: C) (fun c' hc' => by simp [skipP, hC c' hc'])
        simp only [skipP] at hs
        have e1 : scanPos n ρ [t] = ([parent t], [parent t], [sib t]) := by simp [scanPos, hs]
        have e2 : scanPos n ρ (t :: c :: C) = (parent t :: (scanPos n ρ (c :: C)).1,
            parent t :: (scanPos n ρ (c :: C)).2.1, sib t :: (scanPos n ρ (c :: C)).2.2) := by
          rw [scanPos]; simp [hs, hc]
        rw [List.singleton_append, e1, e2, hall]
        rfl
  | t :: nxt :: rest => by
    have ih1 := scanPos_skip_suffix (n := n) C hC (nxt :: rest)
    have ih2 := scanPos_skip_suffix (n := n) C hC rest
    simp only [List.cons_append] at ih1 ⊢
    rw [scanPos, scanPos]
    by_cases hs : skipP n ρ t = true
    · simp only [skipP] at hs
      simp only [hs, if_true, ih1, List.cons_append]
    · simp only [skipP] at hs
      simp only [hs, Bool.false_eq_true, if_false]
      by_cases hsib : (nxt == (ρ, 2 * (t.2 / 2) + 1)) = true
      · simp only [hsib, if_true, ih2, List.cons_append]
      · simp only [hsib, Bool.false_eq_true, if_false, ih1, List.cons_append]


/-! ### a row scan over the nodes of one row -/

def OnRow (ρ : Nat) (L : List Pos) : Prop := ∀ p ∈ L, p.1 = ρ

/-- a non-root node's sibling, if present, is not a root either -/
def SibClosed (n : Nat) (L : List Pos) : Prop :=
  ∀ t ∈ L, isRootPos n t = false → sib t ∈ L → isRootPos n (sib t) = false

theorem sib_fst (p : Pos) : (sib p).1 = p.1 := rfl

theorem sib_snd_div (p : Pos) : (sib p).2 / 2 = p.2 / 2 := by
  show (if p.2 % 2 = 0 then p.2 + 1 else p.2 - 1) / 2 = p.2 / 2
  split <;> omega

theorem sib_ne (p : Pos) : sib p ≠ p := by
  intro e
  have : (sib p).2 = p.2 := by rw [e]
  have h2 : (sib p).2 = if p.2 % 2 = 0 then p.2 + 1 else p.2 - 1 := rfl
  rw [h2] at this
  split at this <;> omega

theorem sib_sib (p : Pos) : sib (sib p) = p := by
  obtain ⟨r, o⟩ := p
  show (r, _) = (r, o)
  congr 1
  show (if (if o % 2 = 0 then o + 1 else o - 1) % 2 = 0 then (if o % 2 = 0 then o + 1 else o - 1) + 1
    else (if o % 2 = 0 then o + 1 else o - 1) - 1) = o
  split <;> split <;> omega

theorem parent_sib (p : Pos) : parent (sib p) = parent p := by
  show ((sib p).1 + 1, (sib p).2 / 2) = (p.1 + 1, p.2 / 2)
  rw [sib_fst, sib_snd_div]

theorem SibClosed.tail {n : Nat} {t : Pos} {L : List Pos} (h : SibClosed n (t :: L)) : SibClosed n L :=
  fun x hx hr hs => h x (List.mem_cons_of_mem _ hx) hr (List.mem_cons_of_mem _ hs)

/-- facts about a strictly sorted row: every later node has a bigger offset -/
theorem ssorted_row_cons {ρ : Nat} {t : Pos} {L : List Pos} (hrow : OnRow ρ (t :: L))
    (hs : SSorted (t :: L)) :
    t.1 = ρ ∧ OnRow ρ L ∧ SSorted L ∧ ∀ x ∈ L, x.1 = ρ ∧ t.2 < x.2 := by
  have hs' := List.pairwise_cons.1 hs
  refine ⟨hrow t (by simp), fun p hp => hrow p (List.mem_cons_of_mem _ hp), hs'.2, ?_⟩
  intro x hx
  have h1 := hrow x (List.mem_cons_of_mem _ hx)
  have h2 := hrow t (by simp)
  have := PLt_iff.1 (hs'.1 x hx)
  exact ⟨h1, by omega⟩

/-- the processed, unpaired head: what is appended and why it is in order -/
theorem scan_unpaired_step {n ρ : Nat} {t : Pos} {L : List Pos} {P S : List Pos}
    (ht : t.1 = ρ) (hroot : isRootPos n t = false)
    (hfar : ∀ x ∈ L, x.1 = ρ ∧ t.2 / 2 < x.2 / 2)
    (hP : ∀ q, q ∈ P ↔ ∃ x ∈ L, isRootPos n x = false ∧ q = parent x)
    (hS : ∀ q, q ∈ S ↔ ∃ x ∈ L, isRootPos n x = false ∧ q = sib x ∧ sib x ∉ L)
    (hPs : SSorted P) (hSs : SSorted S) :
    (∀ q, q ∈ parent t :: P ↔ ∃ x ∈ t :: L, isRootPos n x = false ∧ q = parent x) ∧
    (∀ q, q ∈ sib t :: S ↔ ∃ x ∈ t :: L, isRootPos n x = false ∧ q = sib x ∧ sib x ∉ t :: L) ∧
    SSorted (parent t :: P) ∧ SSorted (sib t :: S) := by
  have hsibt : sib t ∉ L := by
    intro hc
    have := (hfar _ hc).2
    rw [sib_snd_div] at this
    omega
  have hsibx : ∀ x ∈ L, sib x ≠ t := by
    intro x hx e
    have := (hfar x hx).2
    rw [← e, sib_snd_div] at this
    omega
  refine ⟨?_, ?_, ?_, ?_⟩
  · intro q
    rw [List.mem_cons, hP]
    constructor
    · rintro (rfl | ⟨x, hx, h1, h2⟩)
      · exact ⟨t, by simp, hroot, rfl⟩
      · exact ⟨x, List.mem_cons_of_mem _ hx, h1, h2⟩
    · rintro ⟨x, hx, h1, h2⟩
      rcases List.mem_cons.1 hx with rfl | hx
      · exact Or.inl h2
      · exact Or.inr ⟨x, hx, h1, h2⟩
  · intro q
    rw [List.mem_cons, hS]
    constructor
    · rintro (rfl | ⟨x, hx, h1, h2, h3⟩)
      · refine ⟨t, by simp, hroot, rfl, ?_⟩
        intro hc
        rcases List.mem_cons.1 hc with e | hc
        · exact sib_ne t e
        · exact hsibt hc
      · refine ⟨x, List.mem_cons_of_mem _ hx, h1, h2, ?_⟩
        intro hc
        rcases List.mem_cons.1 hc with e | hc
        · exact hsibx x hx e
        · exact h3 hc
    · rintro ⟨x, hx, h1, h2, h3⟩
      rcases List.mem_cons.1 hx with rfl | hx
      · exact Or.inl h2
      · exact Or.inr ⟨x, hx, h1, h2, fun hc => h3 (List.mem_cons_of_mem _ hc)⟩
  · refine List.pairwise_cons.2 ⟨?_, hPs⟩
    intro q hq
    obtain ⟨x, hx, _, rfl⟩ := (hP q).1 hq
    have := hfar x hx
    rw [PLt_iff]
    show t.1 + 1 < x.1 + 1 ∨ (t.1 + 1 = x.1 + 1 ∧ t.2 / 2 < x.2 / 2)
    omega
  · refine List.pairwise_cons.2 ⟨?_, hSs⟩
    intro q hq
    obtain ⟨x, hx, _, rfl, _⟩ := (hS q).1 hq
    have h1 := hfar x hx
    have h2 := sib_snd_div t
    have h3 := sib_snd_div x
    rw [PLt_iff, sib_fst, sib_fst]
    omega


/-- what a row scan appends, for a strictly sorted list of nodes of that row -/
def FrontSpec (n ρ : Nat) (L : List Pos) : Prop :=
  (∀ q, q ∈ (scanPos n ρ L).2.1 ↔ ∃ x ∈ L, isRootPos n x = false ∧ q = parent x) ∧
  (∀ q, q ∈ (scanPos n ρ L).2.2 ↔ ∃ x ∈ L, isRootPos n x = false ∧ q = sib x ∧ sib x ∉ L) ∧
  SSorted (scanPos n ρ L).2.1 ∧ SSorted (scanPos n ρ L).2.2

theorem frontSpec_skip {n ρ : Nat} {t : Pos} {L : List Pos} (hroot : isRootPos n t = true)
    (hsc : SibClosed n (t :: L)) (ih : FrontSpec n ρ L) : FrontSpec n ρ (t :: L) := by
  obtain ⟨hP, hS, hPs, hSs⟩ := ih
  have hsk : skipP n ρ t = true := by simp [skipP, hroot]
  rw [FrontSpec, scanPos_cons_skip L hsk]
  refine ⟨?_, ?_, hPs, hSs⟩
  · intro q
    rw [hP]
    constructor
    · rintro ⟨x, hx, h1, h2⟩; exact ⟨x, List.mem_cons_of_mem _ hx, h1, h2⟩
    · rintro ⟨x, hx, h1, h2⟩
      rcases List.mem_cons.1 hx with rfl | hx
      · rw [hroot] at h1; exact absurd h1 (by decide)
      · exact ⟨x, hx, h1, h2⟩
  · intro q
    rw [hS]
    constructor
    · rintro ⟨x, hx, h1, h2, h3⟩
      refine ⟨x, List.mem_cons_of_mem _ hx, h1, h2, ?_⟩
      intro hc
      rcases List.mem_cons.1 hc with e | hc
      · have := hsc x (List.mem_cons_of_mem _ hx) h1 (by rw [e]; simp)
        rw [e, hroot] at this
        exact absurd this (by decide)
      · exact h3 hc
    · rintro ⟨x, hx, h1, h2, h3⟩
      rcases List.mem_cons.1 hx with rfl | hx
      · rw [hroot] at h1; exact absurd h1 (by decide)
      · exact ⟨x, hx, h1, h2, fun hc => h3 (List.mem_cons_of_mem _ hc)⟩

theorem scanPos_front {n ρ : Nat} : ∀ (L : List Pos), OnRow ρ L → SSorted L → SibClosed n L →
    FrontSpec n ρ L
  | [], _, _, _ => by
    refine ⟨?_, ?_, ?_, ?_⟩ <;> simp [scanPos, SSorted]
  | [t], hrow, hs, hsc => by
    have ih := scanPos_front (n := n) (ρ := ρ) [] (fun _ h => by simp at h) List.Pairwise.nil
      (fun _ h => by simp at h)
    have ht : t.1 = ρ := hrow t (by simp)
    cases hroot : isRootPos n t
    · obtain ⟨hP, hS, hPs, hSs⟩ := ih
      have e : scanPos n ρ [t] = ([parent t], [parent t], [sib t]) := by
        simp [scanPos, hroot, ht]
      have e0 : scanPos n ρ [] = ([], [], []) := rfl
      rw [e0] at hP hS hPs hSs
      have := scan_unpaired_step (L := []) ht hroot (fun _ h => by simp at h) hP hS hPs hSs
      rw [FrontSpec, e]
      exact this
    · exact frontSpec_skip hroot hsc ih
  | t :: nxt :: rest, hrow, hs, hsc => by
    obtain ⟨ht, hrow1, hs1, hgt1⟩ := ssorted_row_cons hrow hs
    obtain ⟨hnx, hrow2, hs2, hgt2⟩ := ssorted_row_cons hrow1 hs1
    have ih1 := scanPos_front (n := n) (nxt :: rest) hrow1 hs1 hsc.tail
    have ih2 := scanPos_front (n := n) rest hrow2 hs2 hsc.tail.tail
    cases hroot : isRootPos n t
    · have hsk : ¬ ((t.1 != ρ || isRootPos n t) = true) := by simp [hroot, ht]
      by_cases hsib : (nxt == (ρ, 2 * (t.2 / 2) + 1)) = true
      · -- paired
        have hnxt : nxt = (ρ, 2 * (t.2 / 2) + 1) := by simpa using hsib
        have hlt := (hgt1 nxt (by simp)).2
        have ho : t.2 % 2 = 0 ∧ nxt.2 = t.2 + 1 := by
          rw [hnxt] at hlt ⊢; simp only at hlt ⊢; omega
        have hsibt : sib t = nxt := by
          rw [hnxt]
          obtain ⟨r, o⟩ := t
          simp only at ht ho ⊢
          subst ht
          show (r, if o % 2 = 0 then o + 1 else o - 1) = _
          rw [if_pos ho.1]; congr 1; omega
        have hsibn : sib nxt = t := by rw [← hsibt, sib_sib]
        have hfar : ∀ x ∈ rest, x.1 = ρ ∧ t.2 / 2 < x.2 / 2 := by
          intro x hx
          have := hgt2 x hx
          refine ⟨this.1, ?_⟩
          omega
        obtain ⟨hP, hS, hPs, hSs⟩ := ih2
        have e : scanPos n ρ (t :: nxt :: rest) =
            (parent t :: nxt :: (scanPos n ρ rest).1, parent t :: (scanPos n ρ rest).2.1,
              (scanPos n ρ rest).2.2) := by
          rw [scanPos]; simp [hsk, hsib]
        have hnr : isRootPos n nxt = false := by
          have := hsc t (by simp) hroot (by rw [hsibt]; simp)
          rwa [hsibt] at this
        have hnotin : ∀ x ∈ rest, sib x ≠ t ∧ sib x ≠ nxt := by
          intro x hx
          have h1 := (hfar x hx).2
          have h2 := sib_snd_div x
          constructor
          · intro e'; rw [e'] at h2; omega
          · intro e'; rw [e'] at h2; omega
        rw [FrontSpec, e]
        refine ⟨?_, ?_, ?_, hSs⟩
        · intro q
          rw [List.mem_cons, hP]
          constructor
          · rintro (rfl | ⟨x, hx, h1, h2⟩)
            · exact ⟨t, by simp, hroot, rfl⟩
            · exact ⟨x, by simp [hx], h1, h2⟩
          · rintro ⟨x, hx, h1, h2⟩
            rcases List.mem_cons.1 hx with rfl | hx
            · exact Or.inl h2
            · rcases List.mem_cons.1 hx with rfl | hx
              · left; rw [h2, ← hsibt, parent_sib]
              · exact Or.inr ⟨x, hx, h1, h2⟩
        · intro q
          rw [hS]
          constructor
          · rintro ⟨x, hx, h1, h2, h3⟩
            refine ⟨x, by simp [hx], h1, h2, ?_⟩
            intro hc
            rcases List.mem_cons.1 hc with e' | hc
            · exact (hnotin x hx).1 e'
            · rcases List.mem_cons.1 hc with e' | hc
              · exact (hnotin x hx).2 e'
              · exact h3 hc
          · rintro ⟨x, hx, h1, h2, h3⟩
            rcases List.mem_cons.1 hx with rfl | hx
            · exact absurd (by rw [hsibt]; simp) h3
            · rcases List.mem_cons.1 hx with rfl | hx
              · exact absurd (by rw [hsibn]; simp) h3
              · exact ⟨x, hx, h1, h2, fun hc => h3 (by simp [hc])⟩
        · refine List.pairwise_cons.2 ⟨?_, hPs⟩
          intro q hq
          obtain ⟨x, hx, _, rfl⟩ := (hP q).1 hq
          have := hfar x hx
          rw [PLt_iff]
          show t.1 + 1 < x.1 + 1 ∨ (t.1 + 1 = x.1 + 1 ∧ t.2 / 2 < x.2 / 2)
          omega
      · -- unpaired
        have hfar : ∀ x ∈ nxt :: rest, x.1 = ρ ∧ t.2 / 2 < x.2 / 2 := by
          have hn1 := hgt1 nxt (by simp)
          have hne : nxt.2 ≠ 2 * (t.2 / 2) + 1 := by
            intro e'
            apply hsib
            rw [beq_iff_eq]
            obtain ⟨a, b⟩ := nxt
            simp only at hn1 e' ⊢
            rw [hn1.1, e']
          intro x hx
          rcases List.mem_cons.1 hx with rfl | hx
          · exact ⟨hn1.1, by omega⟩
          · have := hgt2 x hx
            exact ⟨this.1, by omega⟩
        obtain ⟨hP, hS, hPs, hSs⟩ := ih1
        have e : scanPos n ρ (t :: nxt :: rest) =
            (parent t :: (scanPos n ρ (nxt :: rest)).1, parent t :: (scanPos n ρ (nxt :: rest)).2.1,
              sib t :: (scanPos n ρ (nxt :: rest)).2.2) := by
          rw [scanPos]; simp [hsk, hsib]
        rw [FrontSpec, e]
        exact scan_unpaired_step ht hroot hfar hP hS hPs hSs
    · exact frontSpec_skip hroot hsc ih1


/-- of the new target entries of a scanned row only the parents lie above that row -/
theorem scanPos_front_filter {n ρ : Nat} : ∀ (L : List Pos), OnRow ρ L →
    (scanPos n ρ L).1.filter (fun p => !decide (p.1 < ρ + 1)) = (scanPos n ρ L).2.1 ∧
    ∀ p ∈ (scanPos n ρ L).1.filter (fun p => decide (p.1 < ρ + 1)), p.1 = ρ
  | [], _ => by simp [scanPos]
  | [t], hrow => by
    have ht : t.1 = ρ := hrow t (by simp)
    have hp : (parent t).1 = ρ + 1 := by show t.1 + 1 = ρ + 1; omega
    rw [scanPos]
    split
    · simp [ht]
    · simp [hp]
  | t :: nxt :: rest, hrow => by
    have ht : t.1 = ρ := hrow t (by simp)
    have hn : nxt.1 = ρ := hrow nxt (by simp)
    have hp : (parent t).1 = ρ + 1 := by show t.1 + 1 = ρ + 1; omega
    obtain ⟨a1, a2⟩ := scanPos_front_filter (n := n) (nxt :: rest)
      (fun p hp => hrow p (List.mem_cons_of_mem _ hp))
    obtain ⟨b1, b2⟩ := scanPos_front_filter (n := n) rest
      (fun p hp => hrow p (List.mem_cons_of_mem _ (List.mem_cons_of_mem _ hp)))
    rw [scanPos]
    split
    · simp only [List.filter_cons, ht, Nat.lt_succ_self, decide_true, Bool.not_true,
        Bool.false_eq_true, if_false, if_true, a1, true_and]
      intro p hp
      rcases List.mem_cons.1 hp with rfl | hp
      · exact ht
      · exact a2 p hp
    · split
      · simp only [List.filter_cons, hp, hn, Nat.lt_irrefl, decide_false, Bool.not_false, if_true,
          Nat.lt_succ_self, decide_true, Bool.not_true, Bool.false_eq_true, if_false, b1, true_and]
        intro p hp
        rcases List.mem_cons.1 hp with rfl | hp
        · exact hn
        · exact b2 p hp
      · simp only [List.filter_cons, hp, Nat.lt_irrefl, decide_false, Bool.not_false, if_true,
          Bool.false_eq_true, if_false, a1, true_and]
        exact a2

end UtreexoVerif.Proofs
