/-
  `remap` of the map-forest model (`Model/MapPollard.lean`) on the abstract state of
  `Proofs/MapRep.lean`: when `TotalRows` has to grow from `T` to `T+1`, every node is moved from
  its `T`-row encoding to its `(T+1)`-row encoding and the cache is translated, i.e.
  `Rep m T A C` becomes `Rep m' (T+1) A C`.
-/
import UtreexoVerif.Proofs.MapRep

namespace UtreexoVerif.Proofs.MapRemap
open UtreexoVerif Model Spec Spec.Forest Proofs MapAL MapInv MapRep
set_option linter.unusedSectionVars false

variable {H : Type} [DecidableEq H] [Hasher H]

/-! ### geometry -/

/-- old keys are small -/
theorem encP_old_lt {T : Nat} (hT : T ≤ 63) {q : Pos} (hq : Valid T q) :
    (encP T q).toNat < 2 ^ (T + 1) - 1 := by
  show (encU T q.1 q.2).toNat < _
  rw [toNat_encU hT hq.1 hq.2]
  exact enc_lt_aux hq.1 hq.2

/-- new keys of rows `≥ 1` are large -/
theorem encP_new_ge {T : Nat} (hT : T + 1 ≤ 63) {q : Pos} (hq : Valid T q) (h1 : 1 ≤ q.1) :
    2 ^ (T + 1) ≤ (encP (T + 1) q).toNat := by
  have hq' : Valid (T + 1) q := hq.mono (by omega)
  show _ ≤ (encU (T + 1) q.1 q.2).toNat
  rw [toNat_encU hT hq'.1 hq'.2, enc_val]
  have h2 : 2 ^ (T + 1 + 1 - q.1) ≤ 2 ^ (T + 1) := two_pow_le_of_le (by omega)
  have h3 : 2 ^ (T + 1 + 1) = 2 * 2 ^ (T + 1) := by rw [Nat.pow_succ]; omega
  omega

theorem encP_new_ne_old {T : Nat} (hT : T + 1 ≤ 63) {q q' : Pos} (hq : Valid T q) (h1 : 1 ≤ q.1)
    (hq' : Valid T q') : encP (T + 1) q ≠ encP T q' := by
  intro e
  have a := encP_new_ge hT hq h1
  have b := encP_old_lt (by omega) hq'
  rw [e] at a
  omega

/-- row 0 has the same encoding for every allocation -/
theorem encP_row0 (T T' : Nat) {q : Pos} (h0 : q.1 = 0) : encP T q = encP T' q := by
  show encU T q.1 q.2 = encU T' q.1 q.2
  unfold encU
  rw [h0, enc_val, enc_val]
  simp

theorem encP_succ (T : Nat) (h k : Nat) : encP T (h, k) + 1#64 = encP T (h, k + 1) := by
  show encU T h k + 1#64 = encU T h (k + 1)
  unfold encU
  rw [enc_add T h k, enc_add T h (k + 1), ← Nat.add_assoc]
  exact (BitVec.ofNat_add _ _).symm

/-! ### the loop invariant -/

/-- where the entry of position `q` lives while `remap` is running: `M q` = already moved -/
def keyOf (T : Nat) (M : Pos → Bool) (q : Pos) : U64 := if M q then encP (T + 1) q else encP T q

/-- state of the node map in the middle of `remap`: the positions in `M` (all of rows `≥ 1`)
have been moved to their `(T+1)`-row encoding -/
structure Mid (m : MapPollard H) (T : Nat) (A : Pos → Option (Leaf H)) (M : Pos → Bool) : Prop where
  rows1 : ∀ q, M q = true → 1 ≤ q.1
  keys : ∀ p l, m.getNode p = some l → ∃ q, Valid T q ∧ p = keyOf T M q
  node : ∀ q, Valid T q → m.getNode (keyOf T M q) = A q

theorem keyOf_inj {T : Nat} (hT : T + 1 ≤ 63) {M : Pos → Bool} (hM : ∀ q, M q = true → 1 ≤ q.1)
    {q q' : Pos} (hq : Valid T q) (hq' : Valid T q') (e : keyOf T M q = keyOf T M q') : q = q' := by
  unfold keyOf at e
  by_cases a : M q = true <;> by_cases b : M q' = true
  · rw [if_pos a, if_pos b] at e
    exact encP_inj' hT (hq.mono (by omega)) (hq'.mono (by omega)) e
  · rw [if_pos a, if_neg b] at e
    exact absurd e (encP_new_ne_old hT hq (hM q a) hq')
  · rw [if_neg a, if_pos b] at e
    exact absurd e.symm (encP_new_ne_old hT hq' (hM q' b) hq)
  · rw [if_neg a, if_neg b] at e
    exact encP_inj' (by omega) hq hq' e

/-- `Mid` only depends on `M` extensionally -/
theorem Mid.congr {m : MapPollard H} {T : Nat} {A : Pos → Option (Leaf H)} {M M' : Pos → Bool}
    (mid : Mid m T A M) (h : ∀ q, M' q = M q) : Mid m T A M' := by
  have : M' = M := funext h
  rw [this]; exact mid

/-- the body of the inner loop -/
def moveOne (m : MapPollard H) (i j : U64) : MapPollard H :=
  match m.getNode i with
  | some leaf => (m.delNode i).putNode j leaf
  | none => m

theorem getNode_moveOne (m : MapPollard H) (i j p : U64) :
    (moveOne m i j).getNode p =
      if m.getNode i = none then m.getNode p
      else if p = j then m.getNode i else if p = i then none else m.getNode p := by
  unfold moveOne
  cases h : m.getNode i with
  | none => simp
  | some l => simp

/-- one step: the entry of the not yet moved position `q` (row `≥ 1`) is moved -/
theorem Mid.step {m : MapPollard H} {T : Nat} {A : Pos → Option (Leaf H)} {M : Pos → Bool}
    (hT : T + 1 ≤ 63) (mid : Mid m T A M) {q : Pos} (hq : Valid T q) (h1 : 1 ≤ q.1) (hM : M q = false) :
    Mid (moveOne m (encP T q) (encP (T + 1) q)) T A (fun x => decide (x = q) || M x) := by
  have hkq : keyOf T M q = encP T q := by simp [keyOf, hM]
  have hAq : m.getNode (encP T q) = A q := by rw [← hkq]; exact mid.node q hq
  have hM' : ∀ x, (decide (x = q) || M x) = true → 1 ≤ x.1 := by
    intro x hx
    simp only [Bool.or_eq_true, decide_eq_true_eq] at hx
    rcases hx with rfl | hx
    · exact h1
    · exact mid.rows1 x hx
  -- the new key of `q` is free
  have hfree : m.getNode (encP (T + 1) q) = none := by
    cases h : m.getNode (encP (T + 1) q) with
    | none => rfl
    | some l =>
      exfalso
      obtain ⟨q', hq', e⟩ := mid.keys _ l h
      unfold keyOf at e
      split at e
      · rename_i hm
        have := encP_inj' hT (hq.mono (by omega)) (hq'.mono (by omega)) e
        rw [← this, hM] at hm; cases hm
      · exact encP_new_ne_old hT hq h1 hq' e
  have hkey' : ∀ x, x ≠ q → keyOf T (fun x => decide (x = q) || M x) x = keyOf T M x := by
    intro x hx; simp [keyOf, hx]
  have hkeyq : keyOf T (fun x => decide (x = q) || M x) q = encP (T + 1) q := by simp [keyOf]
  refine ⟨hM', ?_, ?_⟩
  · intro p l hp
    rw [getNode_moveOne, hAq] at hp
    by_cases hA : A q = none
    · rw [if_pos hA] at hp
      obtain ⟨q', hq', e⟩ := mid.keys p l hp
      refine ⟨q', hq', ?_⟩
      rw [hkey' q' ?_]; exact e
      rintro rfl
      rw [e, hkq, hAq, hA] at hp; cases hp
    · rw [if_neg hA] at hp
      split at hp
      · rename_i e; exact ⟨q, hq, by rw [hkeyq]; exact e⟩
      · split at hp
        · cases hp
        · rename_i hne2
          obtain ⟨q', hq', e⟩ := mid.keys p l hp
          refine ⟨q', hq', ?_⟩
          rw [hkey' q' ?_]; exact e
          rintro rfl
          exact hne2 (e.trans hkq)
  · intro x hx
    rw [getNode_moveOne, hAq]
    by_cases hxq : x = q
    · subst hxq
      rw [hkeyq]
      by_cases hA : A x = none
      · rw [if_pos hA, hfree, hA]
      · rw [if_neg hA, if_pos rfl]
    · rw [hkey' x hxq]
      have n1 : keyOf T M x ≠ encP T q := by
        intro e; rw [← hkq] at e
        exact hxq (keyOf_inj hT mid.rows1 hx hq e)
      have n2 : keyOf T M x ≠ encP (T + 1) q := by
        intro e
        unfold keyOf at e
        split at e
        · rename_i hm
          have := encP_inj' hT (hx.mono (by omega)) (hq.mono (by omega)) e
          exact hxq this
        · exact encP_new_ne_old hT hq h1 hx e.symm
      by_cases hA : A q = none
      · rw [if_pos hA]; exact mid.node x hx
      · rw [if_neg hA, if_neg n2, if_neg n1]; exact mid.node x hx

/-! ### the inner loop -/

/-- rows `1 .. h-1` and the first `k` offsets of row `h` have been moved -/
def rowM (h k : Nat) : Pos → Bool := fun q =>
  (decide (1 ≤ q.1) && decide (q.1 < h)) || (decide (q.1 = h) && decide (q.2 < k))

theorem remapRow_succ (cnt : Nat) (i j : U64) (m : MapPollard H) :
    MapPollard.remapRow (cnt + 1) i j m = MapPollard.remapRow cnt (i + 1#64) (j + 1#64) (moveOne m i j) := rfl

theorem remapRow_frame (cnt : Nat) (i j : U64) (m : MapPollard H) :
    (MapPollard.remapRow cnt i j m).cached = m.cached ∧
    (MapPollard.remapRow cnt i j m).totalRows = m.totalRows ∧
    (MapPollard.remapRow cnt i j m).numLeaves = m.numLeaves ∧
    (MapPollard.remapRow cnt i j m).full = m.full := by
  induction cnt generalizing i j m with
  | zero => exact ⟨rfl, rfl, rfl, rfl⟩
  | succ cnt ih =>
    rw [remapRow_succ]
    obtain ⟨a, b, c, d⟩ := ih (i + 1#64) (j + 1#64) (moveOne m i j)
    have e : (moveOne m i j).cached = m.cached ∧ (moveOne m i j).totalRows = m.totalRows ∧
        (moveOne m i j).numLeaves = m.numLeaves ∧ (moveOne m i j).full = m.full := by
      unfold moveOne
      cases m.getNode i <;> exact ⟨rfl, rfl, rfl, rfl⟩
    exact ⟨a.trans e.1, b.trans e.2.1, c.trans e.2.2.1, d.trans e.2.2.2⟩

theorem remapRow_mid {T : Nat} {A : Pos → Option (Leaf H)} (hT : T + 1 ≤ 63) {h : Nat} (h1 : 1 ≤ h) (hh : h ≤ T)
    (cnt : Nat) : ∀ (k : Nat) (m : MapPollard H), k + cnt ≤ 2 ^ (T - h) → Mid m T A (rowM h k) →
      Mid (MapPollard.remapRow cnt (encP T (h, k)) (encP (T + 1) (h, k)) m) T A (rowM h (k + cnt)) := by
  induction cnt with
  | zero => intro k m _ mid; exact mid
  | succ cnt ih =>
    intro k m hk mid
    rw [remapRow_succ, encP_succ, encP_succ]
    have hq : Valid T (h, k) := ⟨hh, by show k < 2 ^ (T - h); omega⟩
    have hM : rowM h k (h, k) = false := by simp [rowM]
    have st := mid.step hT hq h1 hM
    have st' : Mid (moveOne m (encP T (h, k)) (encP (T + 1) (h, k))) T A (rowM h (k + 1)) := by
      refine st.congr ?_
      intro q
      obtain ⟨r, o⟩ := q
      simp only [rowM, Prod.mk.injEq]
      by_cases hr : r = h
      · subst hr
        by_cases ho : o = k
        · subst ho; simp
        · have : (o < k + 1) = (o < k) := by apply propext; omega
          simp [ho, this]
      · simp [hr]
    have := ih (k + 1) _ (by omega) st'
    rw [show k + 1 + cnt = k + (cnt + 1) by omega] at this
    exact this

/-! ### the outer loop -/

theorem cnt_eq {T h d : Nat} (hT : T ≤ 63) (hh : h ≤ T) (hd : d < 2 ^ (T - h)) :
    (if encU T h 0 ≤ encU T h d then (encU T h d - encU T h 0).toNat + 1 else 0) = d + 1 := by
  have a := toNat_encU hT hh hd
  have b := toNat_encU hT hh (Nat.two_pow_pos (T - h))
  have c := enc_add T h d
  have l := enc_lt_64 hT hh hd
  have hle : encU T h 0 ≤ encU T h d := by
    rw [BitVec.le_def, a, b]; omega
  rw [if_pos hle, BitVec.toNat_sub, a, b]
  omega

theorem remapRows_step {T h : Nat} (hT : T + 1 ≤ 63) (hh : h ≤ T) (k : Nat) (m : MapPollard H)
    (hrows : m.totalRows = H8 T) (hn : m.numLeaves = BitVec.ofNat 64 (2 ^ T)) :
    MapPollard.remapRows (H8 (T + 1)) (k + 1) (H8 h) m =
      MapPollard.remapRows (H8 (T + 1)) k (H8 (h + 1))
        (MapPollard.remapRow (2 ^ (T - h)) (encP T (h, 0)) (encP (T + 1) (h, 0)) m) := by
  have hpow : 2 ^ T < 2 ^ 64 := Nat.pow_lt_pow_right (by omega) (by omega)
  have hnat : (BitVec.ofNat 64 (2 ^ T)).toNat = 2 ^ T := toNat_ofNat64_of_lt hpow
  have hmax := Props.C16.maxPositionAtRow_enc' (h := T) (row := h) (by omega) hh (BitVec.ofNat 64 (2 ^ T))
    (by rw [hnat]; exact Nat.pow_lt_pow_right (by omega) (by omega))
    (by rw [hnat]; exact two_pow_le_of_le hh)
  rw [hnat, Nat.pow_div hh (by omega)] at hmax
  have hpos := Nat.two_pow_pos (T - h)
  show (let startPos := startPositionAtRow (H8 h) m.totalRows
        match maxPositionAtRow (H8 h) m.totalRows m.numLeaves with
        | (maxPos, err) =>
          if err then (m, Except.error Fail.err)
          else
            let j := startPositionAtRow (H8 h) (H8 (T + 1))
            let cnt := if startPos ≤ maxPos then (maxPos - startPos).toNat + 1 else 0
            MapPollard.remapRows (H8 (T + 1)) k (H8 h + 1) (MapPollard.remapRow cnt startPos j m)) = _
  rw [hrows, hn, hmax]
  simp only [Bool.false_eq_true, if_false]
  rw [Props.C16.startPositionAtRow_enc (by omega) hh, Props.C16.startPositionAtRow_enc hT (by omega),
    cnt_eq (by omega) hh (by omega), show (H8 h + 1 : U8) = H8 (h + 1) from H8_add_one,
    Nat.sub_add_cancel hpos]
  rfl

/-- `Mid` only depends on `M` on the valid positions -/
theorem Mid.congrV {m : MapPollard H} {T : Nat} {A : Pos → Option (Leaf H)} {M M' : Pos → Bool}
    (mid : Mid m T A M) (h1 : ∀ q, M' q = true → 1 ≤ q.1) (h : ∀ q, Valid T q → M' q = M q) :
    Mid m T A M' := by
  have hk : ∀ q, Valid T q → keyOf T M' q = keyOf T M q := by
    intro q hq; unfold keyOf; rw [h q hq]
  refine ⟨h1, ?_, ?_⟩
  · intro p l hp
    obtain ⟨q, hq, e⟩ := mid.keys p l hp
    exact ⟨q, hq, by rw [hk q hq]; exact e⟩
  · intro q hq
    rw [hk q hq]; exact mid.node q hq

theorem rowM_rows1 (h k : Nat) (h1 : 1 ≤ h) : ∀ q, rowM h k q = true → 1 ≤ q.1 := by
  intro q hq
  simp only [rowM, Bool.or_eq_true, Bool.and_eq_true, decide_eq_true_eq] at hq
  omega

theorem remapRows_mid {T : Nat} {A : Pos → Option (Leaf H)} (hT : T + 1 ≤ 63) (k : Nat) :
    ∀ (h : Nat) (m : MapPollard H), 1 ≤ h → h + k = T + 1 → m.totalRows = H8 T →
      m.numLeaves = BitVec.ofNat 64 (2 ^ T) → Mid m T A (rowM h 0) →
      ∃ m', MapPollard.remapRows (H8 (T + 1)) k (H8 h) m = (m', .ok ()) ∧ Mid m' T A (rowM (T + 1) 0) ∧
        m'.cached = m.cached ∧ m'.totalRows = m.totalRows ∧ m'.numLeaves = m.numLeaves ∧ m'.full = m.full := by
  induction k with
  | zero =>
    intro h m _ hk _ _ mid
    have : h = T + 1 := by omega
    subst this
    exact ⟨m, rfl, mid, rfl, rfl, rfl, rfl⟩
  | succ k ih =>
    intro h m h1 hk hrows hn mid
    have hh : h ≤ T := by omega
    rw [remapRows_step hT hh k m hrows hn]
    obtain ⟨f1, f2, f3, f4⟩ := remapRow_frame (2 ^ (T - h)) (encP T (h, 0)) (encP (T + 1) (h, 0)) m
    have mid1 := remapRow_mid hT h1 hh (2 ^ (T - h)) 0 m (by omega) mid
    rw [Nat.zero_add] at mid1
    have mid2 : Mid (MapPollard.remapRow (2 ^ (T - h)) (encP T (h, 0)) (encP (T + 1) (h, 0)) m) T A
        (rowM (h + 1) 0) := by
      refine mid1.congrV (rowM_rows1 _ _ (by omega)) ?_
      intro q hq
      obtain ⟨r, o⟩ := q
      have ho : o < 2 ^ (T - r) := hq.2
      simp only [rowM]
      by_cases hr : r = h
      · subst hr; simp [ho]; omega
      · have : (r < h + 1) = (r < h) := by apply propext; omega
        simp [hr, this]
    obtain ⟨m', e, mid', g1, g2, g3, g4⟩ := ih (h + 1) _ (by omega) (by omega) (f2.trans hrows) (f3.trans hn) mid2
    exact ⟨m', e, mid', g1.trans f1, g2.trans f2, g3.trans f3, g4.trans f4⟩

/-! ### `remap` -/

theorem numLeaves_succ {m : MapPollard H} {n : Nat} (hn : m.numLeaves = BitVec.ofNat 64 n) :
    m.numLeaves + 1 = BitVec.ofNat 64 (n + 1) := by
  rw [hn]; exact (BitVec.ofNat_add _ _).symm

theorem remap_eq (m : MapPollard H) :
    MapPollard.remap m =
      if TreeRows (m.numLeaves + 1) ≤ m.totalRows then (m, .ok m.totalRows)
      else
        match MapPollard.remapRows (TreeRows (m.numLeaves + 1)) (MapPollard.rowIters 1#8 m.totalRows) 1#8 m with
        | (m', .error e) => (m', .error e)
        | (m', .ok ()) =>
          ({ m' with cached := m'.cached.map (fun (k, v) => (k, translatePos v m'.totalRows (TreeRows (m.numLeaves + 1)))),
                     totalRows := TreeRows (m.numLeaves + 1) }, .ok (TreeRows (m.numLeaves + 1))) := rfl

/-- no growth needed: `remap` does nothing -/
theorem remap_noop {m : MapPollard H} {T n : Nat} (hrows : m.totalRows = H8 T) (hT : T ≤ 63)
    (hn : m.numLeaves = BitVec.ofNat 64 n) (hn63 : n + 1 < 2 ^ 63) (hfit : forestRows (n + 1) ≤ T) :
    MapPollard.remap m = (m, .ok (H8 T)) := by
  rw [remap_eq, numLeaves_succ hn, SpecView.treeRows_eq hn63, hrows]
  have : H8 (forestRows (n + 1)) ≤ H8 T := by
    rw [BitVec.le_def, toNat_H8 hT, toNat_H8 (by omega)]; exact hfit
  rw [if_pos this]

theorem get?_map_val {κ ν : Type} [DecidableEq κ] (f : ν → ν) (l : List (κ × ν)) (k : κ) :
    AL.get? (l.map (fun (e : κ × ν) => (e.1, f e.2))) k = (AL.get? l k).map f := by
  induction l with
  | nil => rfl
  | cons e t ih =>
    obtain ⟨a, v⟩ := e
    simp only [List.map_cons, get?_cons]
    split
    · rfl
    · exact ih

/-- `forestRows n ≤ T < forestRows (n+1)` pins `n` down -/
theorem n_eq_pow {T n : Nat} (hfitOld : forestRows n ≤ T) (hgrow : T < forestRows (n + 1)) :
    n = 2 ^ T ∧ forestRows (n + 1) = T + 1 := by
  have a : n ≤ 2 ^ T := Nat.le_trans (SpecView.le_two_pow_forestRows n) (two_pow_le_of_le hfitOld)
  have b : ¬ n + 1 ≤ 2 ^ T := fun h => by have := SpecView.forestRows_le h; omega
  have e : n = 2 ^ T := by omega
  refine ⟨e, ?_⟩
  have : n + 1 ≤ 2 ^ (T + 1) := by rw [Nat.pow_succ]; have := Nat.two_pow_pos T; omega
  have := SpecView.forestRows_le this
  omega

theorem Mid.init {m : MapPollard H} {T : Nat} {A : Pos → Option (Leaf H)} {C : H → Option Pos}
    (rep : Rep m T A C) : Mid m T A (rowM 1 0) := by
  have hM : ∀ q, rowM 1 0 q = false := by
    intro q; simp [rowM]; omega
  have hk : ∀ q, keyOf T (rowM 1 0) q = encP T q := by
    intro q; simp [keyOf, hM]
  refine ⟨fun q h => (by rw [hM] at h; cases h), ?_, ?_⟩
  · intro p l hp
    obtain ⟨q, hq, e⟩ := rep.keys p l hp
    exact ⟨q, hq, by rw [hk]; exact e⟩
  · intro q hq; rw [hk]; exact rep.node q hq

/-- after all rows `1..T` have been moved every key is a `(T+1)`-row encoding -/
theorem keyOf_final {T : Nat} {q : Pos} (hq : Valid T q) : keyOf T (rowM (T + 1) 0) q = encP (T + 1) q := by
  unfold keyOf
  split
  · rfl
  · rename_i h
    have h0 : q.1 = 0 := by
      have := hq.1
      simp only [rowM, Bool.or_eq_true, Bool.and_eq_true, decide_eq_true_eq] at h
      omega
    exact encP_row0 T (T + 1) h0

/-- growth, without the (redundant) bound on the stored nodes -/
theorem remap_grow' {m : MapPollard H} {T n : Nat} {A : Pos → Option (Leaf H)} {C : H → Option Pos}
    (rep : Rep m T A C) (hn : m.numLeaves = BitVec.ofNat 64 n) (hn63 : n + 1 < 2 ^ 63)
    (hfitOld : forestRows n ≤ T) (hgrow : T < forestRows (n + 1)) :
    ∃ m', MapPollard.remap m = (m', .ok (H8 (T + 1))) ∧ Rep m' (T + 1) A C ∧
      m'.numLeaves = m.numLeaves ∧ m'.full = m.full := by
  obtain ⟨en, efr⟩ := n_eq_pow hfitOld hgrow
  have hT : T + 1 ≤ 63 := by rw [← efr]; exact SpecView.forestRows_le_63 hn63
  have hnot : ¬ H8 (T + 1) ≤ H8 T := by
    rw [BitVec.le_def, toNat_H8 hT, toNat_H8 rep.T_le]; omega
  have hit : MapPollard.rowIters 1#8 (H8 T) = T := by
    unfold MapPollard.rowIters
    rw [toNat_H8 rep.T_le]; rfl
  obtain ⟨m1, e1, mid, f1, f2, f3, f4⟩ :=
    remapRows_mid (A := A) hT T 1 m (by omega) (by omega) rep.rows (by rw [hn, en]) (Mid.init rep)
  rw [remap_eq, numLeaves_succ hn, SpecView.treeRows_eq hn63, efr, rep.rows, if_neg hnot, hit,
    show (1#8 : U8) = H8 1 from rfl, e1]
  refine ⟨_, rfl, ?_, f3, f4⟩
  have hrows1 : m1.totalRows = H8 T := f2.trans rep.rows
  refine { T_le := hT, rows := rfl, keys := ?_, node := ?_, dom := ?_, cache := ?_, cdom := ?_ }
  · intro p l hp
    have hp' : m1.getNode p = some l := hp
    obtain ⟨q, hq, e⟩ := mid.keys p l hp'
    exact ⟨q, hq.mono (by omega), by rw [e, keyOf_final hq]⟩
  · intro q hq
    show m1.getNode (encP (T + 1) q) = A q
    by_cases hv : Valid T q
    · rw [← keyOf_final hv]; exact mid.node q hv
    · have hA : A q = none := by
        cases h : A q with
        | none => rfl
        | some l => exact absurd (rep.dom q l h) hv
      rw [hA]
      cases h : m1.getNode (encP (T + 1) q) with
      | none => rfl
      | some l =>
        exfalso
        obtain ⟨q', hq', e⟩ := mid.keys _ l h
        rw [keyOf_final hq'] at e
        have := encP_inj' hT hq (hq'.mono (by omega)) e
        rw [this] at hv
        exact hv hq'
  · intro q l h; exact (rep.dom q l h).mono (by omega)
  · intro x
    show AL.get? (m1.cached.map (fun (e : H × U64) => (e.1, translatePos e.2 m1.totalRows (H8 (T + 1))))) x = _
    rw [get?_map_val (fun v => translatePos v m1.totalRows (H8 (T + 1))), f1, hrows1]
    have hc : AL.get? m.cached x = (C x).map (encP T) := rep.cache x
    rw [hc]
    cases h : C x with
    | none => rfl
    | some t =>
      have ht := rep.cdom x t h
      have ht' : Valid (T + 1) t := ht.mono (by omega)
      simp only [Option.map_some]
      congr 1
      exact Props.C16.translatePos_enc rep.T_le ht.1 ht.2 hT ht'.1 ht'.2
  · intro x t h; exact (rep.cdom x t h).mono (by omega)

set_option linter.unusedVariables false in
/-- growth: every node is re-encoded for `T+1` rows, the cache is translated -/
theorem remap_grow {m : MapPollard H} {T n : Nat} {A : Pos → Option (Leaf H)} {C : H → Option Pos}
    (rep : Rep m T A C) (hn : m.numLeaves = BitVec.ofNat 64 n) (hn63 : n + 1 < 2 ^ 63)
    (hfitOld : forestRows n ≤ T) (hgrow : T < forestRows (n + 1))
    -- every stored node lies inside the forest of `n` leaves
    (hbound : ∀ q l, A q = some l → (q.2 + 1) * 2 ^ q.1 ≤ n) :
    ∃ m', MapPollard.remap m = (m', .ok (H8 (T + 1))) ∧ Rep m' (T + 1) A C ∧
      m'.numLeaves = m.numLeaves ∧ m'.full = m.full :=
  remap_grow' rep hn hn63 hfitOld hgrow

/-! ### non-vacuity: a full 4-leaf forest allocated for 2 rows grows to 3 rows -/

section Example

local instance instHasherNat : Hasher Nat := ⟨fun a b => a + b + 1, 0⟩

/-- 4 leaves, allocated for exactly 2 rows (positions 0..3 | 4 5 | 6); two cached leaves, one of
them (hash 11) sitting on row 1 (as happens after a deletion) -/
def mEx : MapPollard Nat :=
  { nodes := [(0#64, ⟨10, true⟩), (1#64, ⟨20, false⟩), (2#64, ⟨30, false⟩), (3#64, ⟨40, false⟩),
              (4#64, ⟨31, false⟩), (5#64, ⟨11, true⟩), (6#64, ⟨43, false⟩)],
    cached := [(10, 0#64), (11, 5#64)], numLeaves := 4#64, totalRows := 2#8, full := false }

/-- the concrete run: rows 1 and 2 move to `8 9 | 12`, the cached position `5` becomes `9` -/
example : (match (MapPollard.remap mEx).2 with | .ok r => r == 3#8 | .error _ => false) = true ∧
    (MapPollard.remap mEx).1.nodes =
      [(12#64, ⟨43, false⟩), (9#64, ⟨11, true⟩), (8#64, ⟨31, false⟩), (0#64, ⟨10, true⟩),
       (1#64, ⟨20, false⟩), (2#64, ⟨30, false⟩), (3#64, ⟨40, false⟩)] ∧
    (MapPollard.remap mEx).1.cached = [(10, 0#64), (11, 9#64)] ∧
    (MapPollard.remap mEx).1.totalRows = 3#8 := by decide +kernel

theorem mEx_rep : Rep mEx 2 (absA mEx 2) (absC mEx 2) := by
  refine rep_abs (by decide) rfl ?_ ?_
  · intro p l h
    have hm := get?_some_mem (l := mEx.nodes) h
    simp only [mEx, List.mem_cons, Prod.mk.injEq, List.not_mem_nil, or_false] at hm
    rcases hm with ⟨rfl, _⟩ | ⟨rfl, _⟩ | ⟨rfl, _⟩ | ⟨rfl, _⟩ | ⟨rfl, _⟩ | ⟨rfl, _⟩ | ⟨rfl, _⟩
    · exact ⟨(0, 0), by decide, by decide⟩
    · exact ⟨(0, 1), by decide, by decide⟩
    · exact ⟨(0, 2), by decide, by decide⟩
    · exact ⟨(0, 3), by decide, by decide⟩
    · exact ⟨(1, 0), by decide, by decide⟩
    · exact ⟨(1, 1), by decide, by decide⟩
    · exact ⟨(2, 0), by decide, by decide⟩
  · intro x p h
    have hm := get?_some_mem (l := mEx.cached) h
    simp only [mEx, List.mem_cons, Prod.mk.injEq, List.not_mem_nil, or_false] at hm
    rcases hm with ⟨_, rfl⟩ | ⟨_, rfl⟩
    · exact ⟨(0, 0), by decide, by decide⟩
    · exact ⟨(1, 1), by decide, by decide⟩

/-- the hypotheses of `remap_grow` are satisfiable (`T = 2`, `n = 4`) -/
example : ∃ m', MapPollard.remap mEx = (m', .ok (H8 3)) ∧ Rep m' 3 (absA mEx 2) (absC mEx 2) ∧
    m'.numLeaves = mEx.numLeaves ∧ m'.full = mEx.full := by
  refine remap_grow (n := 4) mEx_rep rfl (by decide) (SpecView.forestRows_le (by decide)) ?_ ?_
  · show 2 < forestRows 5
    have : ¬ forestRows 5 ≤ 2 := by
      intro h
      have a := SpecView.le_two_pow_forestRows 5
      have b : 2 ^ forestRows 5 ≤ 2 ^ 2 := two_pow_le_of_le h
      omega
    omega
  · intro q l h
    obtain ⟨h1, h2⟩ := mEx_rep.dom q l h
    obtain ⟨r, o⟩ := q
    simp only at h1 h2 ⊢
    have : r = 0 ∨ r = 1 ∨ r = 2 := by omega
    rcases this with rfl | rfl | rfl <;> simp at h2 ⊢ <;> omega

/-- the hypotheses of `remap_noop` are satisfiable: 3 leaves in a 2-row allocation -/
example : MapPollard.remap { mEx with numLeaves := 3#64 } = ({ mEx with numLeaves := 3#64 }, .ok (H8 2)) :=
  remap_noop (n := 3) rfl (by decide) rfl (by decide) (SpecView.forestRows_le (by decide))

end Example

end UtreexoVerif.Proofs.MapRemap

section Axioms
open UtreexoVerif.Proofs.MapRemap
#print axioms remap_noop
#print axioms remap_grow
#print axioms remap_grow'
end Axioms
