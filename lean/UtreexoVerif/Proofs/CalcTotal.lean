/-
  Totality of `calculateHashes` and of the three verifiers (helper lemmas for Props/C04).

  * `rowCursor_total`: the row cursor never hangs (the row strictly increases and the cursor
    errs once it passes `totalRows < 255`);
  * `sibSel_total`: the "unreachable" panic branch of the sibling selection is unreachable;
  * measure `wt`: a queued position on row `r` weighs `rows + 2 - r`; every continuing step
    of `calcStep` lowers the total weight of the two queues (`calcStep_decr`), so the main
    loop needs at most `|targets|·(rows+2) + 1` units of fuel, which is below `calcFuel`;
  * the two output lists of the loop have the same length, so `matchRoots` cannot panic.
-/
import UtreexoVerif.Props.C04_statement
import UtreexoVerif.Proofs.CalcSound

namespace UtreexoVerif.Proofs.CalcTotal
open UtreexoVerif Model Hasher GoInt
open UtreexoVerif.Proofs.CalcSound
open UtreexoVerif.Props.C04 (Total RowFacts)

/-! ### `Total` -/

theorem total_ok {α} (a : α) : Total (Out.ok a) := ⟨by simp, by simp⟩
theorem total_err {α} : Total (Out.err : Out α) := ⟨by simp, by simp⟩

theorem total_bind {α β} {x : Out α} {f : α → Out β} (hx : Total x)
    (hf : ∀ a, x = .ok a → Total (f a)) : Total (x.bind f) := by
  cases x with
  | ok a => exact hf a rfl
  | err => exact total_err
  | panic => exact absurd rfl hx.2
  | hang => exact absurd rfl hx.1

/-! ### the row cursor -/

theorem rowCursor_total (n : U64) (tr : U8) (p : U64) (htr : tr.toNat < 255) :
    ∀ (fuel : Nat) (row : U8), row ≤ tr → tr.toNat - row.toNat < fuel →
      Total (rowCursor n tr p fuel row) := by
  intro fuel
  induction fuel with
  | zero => intro row _ h; omega
  | succ fuel ih =>
    intro row hle hf
    unfold rowCursor
    split
    · simp only
      split
      · exact total_err
      · rename_i hnot
        have hle' : row + 1 ≤ tr := BitVec.not_lt.mp hnot
        apply ih _ hle'
        have h1 : row.toNat ≤ tr.toNat := BitVec.le_def.mp hle
        have h2 : (row + 1).toNat = row.toNat + 1 := by
          rw [BitVec.toNat_add]; simp; omega
        have h3 : (row + 1).toNat ≤ tr.toNat := BitVec.le_def.mp hle'
        omega
    · exact total_ok _

section
variable {H : Type} [DecidableEq H] [Hasher H]

/-! ### the sibling selection -/

theorem sibSel_none_total (tp nx dn : HP H) (pr : List H) : Total (sibSel none tp nx dn pr) := by
  cases pr with
  | nil => exact total_err
  | cons a pr =>
    simp only [sibSel]
    split
    · exact total_err
    · exact total_ok _

theorem sibSel_total (p : U64) (tp nx dn : HP H) (pr : List H) :
    Total (sibSel (sibFrom p tp nx) tp nx dn pr) := by
  have hF : ∀ (a : U64 × H) (tp nx : HP H),
      Total (sibSel (if (p != a.1 && rightSib p == a.1) = true then some false else none)
        (a :: tp) nx dn pr) := by
    intro a tp nx
    split
    · rw [sibSel_false]; exact total_ok _
    · exact sibSel_none_total _ _ _ _
  have hT : ∀ (b : U64 × H) (tp nx : HP H),
      Total (sibSel (if (p != b.1 && rightSib p == b.1) = true then some true else none)
        tp (b :: nx) dn pr) := by
    intro b tp nx
    split
    · rw [sibSel_true]; exact total_ok _
    · exact sibSel_none_total _ _ _ _
  rcases tp with _ | ⟨a, tp⟩ <;> rcases nx with _ | ⟨b, nx⟩
  · exact sibSel_none_total _ _ _ _
  · exact hT b _ _
  · exact hF a _ _
  · by_cases hab : a.1 < b.1
    · have : sibFrom p (a :: tp) (b :: nx) =
          if (p != a.1 && rightSib p == a.1) = true then some false else none := by
        simp [sibFrom, nextLeast, hab]
      rw [this]
      exact hF a _ _
    · have : sibFrom p (a :: tp) (b :: nx) =
          if (p != b.1 && rightSib p == b.1) = true then some true else none := by
        simp [sibFrom, nextLeast, hab]
      rw [this]
      exact hT b _ _

/-! ### one step never hangs or panics -/

theorem calcStep_total (n : U64) (tr : U8) (htr : tr.toNat < 255) (s : CalcSt H) :
    Total (calcStep n tr s) := by
  rw [calcStep_eq]
  unfold calcStep'
  split
  · exact total_ok _
  rename_i hrow
  split
  · exact total_ok _
  apply total_bind
  · exact rowCursor_total n tr _ htr 257 s.row (BitVec.not_lt.mp hrow) (by omega)
  · intro row _
    split
    · exact total_ok _
    · apply total_bind (sibSel_total _ _ _ _ _)
      intro r _
      exact total_ok _

/-! ### the measure -/

/-- weight of a queued position: `rows + 2 - row` -/
def wt (tr : U8) (p : U64) : Nat := tr.toNat + 2 - (DetectRow p tr).toNat

omit [DecidableEq H] [Hasher H] in
/-- total weight of a queue -/
def W (tr : U8) (l : HP H) : Nat := (l.map (fun e => wt tr e.1)).sum

omit [DecidableEq H] [Hasher H] in
theorem W_cons (tr : U8) (x : U64 × H) (l : HP H) : W tr (x :: l) = wt tr x.1 + W tr l := by
  simp [W]

omit [DecidableEq H] [Hasher H] in
theorem W_snoc (tr : U8) (x : U64 × H) (l : HP H) : W tr (l ++ [x]) = W tr l + wt tr x.1 := by
  simp [W]

omit [DecidableEq H] [Hasher H] in
theorem W_le (tr : U8) (l : HP H) : W tr l ≤ l.length * (tr.toNat + 2) := by
  induction l with
  | nil => simp [W]
  | cons x l ih =>
    rw [W_cons, List.length_cons, Nat.succ_mul]
    have : wt tr x.1 ≤ tr.toNat + 2 := by unfold wt; omega
    omega

omit [DecidableEq H] [Hasher H] in
theorem pop_W_eq {tr : U8} {tp nx tp' nx' : HP H} {x : U64 × H} (h : Pop tp nx x tp' nx') :
    W tr tp + W tr nx = wt tr x.1 + (W tr tp' + W tr nx') := by
  rcases h with ⟨rfl, rfl⟩ | ⟨rfl, rfl⟩
  · rw [W_cons]; omega
  · rw [W_cons]; omega

omit [DecidableEq H] in
theorem sibOK_W_le {tr : U8} {p : U64} {tp nx tp' nx' : HP H} {sib : H}
    (h : SibOK p tp nx sib tp' nx') : W tr tp' + W tr nx' ≤ W tr tp + W tr nx := by
  rcases h with ⟨y, hP, _, _, _⟩ | ⟨rfl, rfl, _⟩
  · have := pop_W_eq (tr := tr) hP; omega
  · exact Nat.le_refl _

/-- every continuing step lowers the total weight of the two queues -/
theorem calcStep_decr {n : U64} (rf : RowFacts n) {s s' : CalcSt H}
    (h : calcStep n (TreeRows n) s = .ok (.cont s')) :
    W (TreeRows n) s'.toProve + W (TreeRows n) s'.next <
      W (TreeRows n) s.toProve + W (TreeRows n) s.next := by
  have hrow : s.row ≤ TreeRows n := by
    apply BitVec.not_lt.mp
    intro hgt
    rw [calcStep_eq] at h
    unfold calcStep' at h
    rw [if_pos hgt] at h
    simp at h
  obtain ⟨x, tp, nx, hP, hcur, hcase⟩ := calcStep_cont h
  have hc := rowCursor_ok _ _ _ hcur hrow
  have hd := rf.detectRow_le x.1 s'.row hc.1 hc.2
  have hpar := rf.detectRow_parent x.1 hd
  have hd' : (DetectRow x.1 (TreeRows n)).toNat ≤ (TreeRows n).toNat := BitVec.le_def.mp hd
  have hW := pop_W_eq (tr := TreeRows n) hP
  rcases hcase with ⟨_, h1, h2, _, _⟩ | ⟨sib, tp', nx', hsib, h1, h2, _, _⟩
  · rw [h1, h2]
    have : 2 ≤ wt (TreeRows n) x.1 := by unfold wt; omega
    omega
  · have hsn : W (TreeRows n) (nx' ++ [(Parent x.1 (TreeRows n), getNextHash x.1 x.2 sib)]) =
        W (TreeRows n) nx' + wt (TreeRows n) (Parent x.1 (TreeRows n)) := W_snoc _ _ _
    rw [h1, h2, hsn]
    have hs := sibOK_W_le (tr := TreeRows n) hsib
    have h3 : wt (TreeRows n) (Parent x.1 (TreeRows n)) + 1 = wt (TreeRows n) x.1 := by
      unfold wt; omega
    omega

/-! ### the loop -/

theorem calcLoop_total {n : U64} (rf : RowFacts n) (htr : (TreeRows n).toNat < 255) :
    ∀ (fuel : Nat) (s : CalcSt H),
      W (TreeRows n) s.toProve + W (TreeRows n) s.next < fuel →
      Total (calcLoop n (TreeRows n) fuel s) := by
  intro fuel
  induction fuel with
  | zero => intro s h; omega
  | succ fuel ih =>
    intro s hW
    unfold calcLoop
    simp only [bind]
    apply total_bind (calcStep_total n _ htr s)
    intro so hso
    cases so with
    | stop s1 => exact total_ok _
    | cont s1 =>
      simp only
      apply ih
      have := calcStep_decr rf hso
      omega

/-- the two result lists grow together -/
theorem calcLoop_len {n : U64} {tr : U8} :
    ∀ (fuel : Nat) (s sf : CalcSt H), calcLoop n tr fuel s = .ok sf →
      s.roots.length = s.rootRows.length → sf.roots.length = sf.rootRows.length := by
  intro fuel
  induction fuel with
  | zero => intro s sf h; simp [calcLoop] at h
  | succ fuel ih =>
    intro s sf h hlen
    unfold calcLoop at h
    simp only [bind] at h
    rw [bind_eq_ok] at h
    obtain ⟨so, hstep, h⟩ := h
    cases so with
    | cont s1 =>
      simp only at h
      apply ih s1 sf h
      obtain ⟨x, tp, nx, _, _, hcase⟩ := calcStep_cont hstep
      rcases hcase with ⟨_, _, _, h3, h4⟩ | ⟨_, _, _, _, _, _, h3, h4⟩
      · rw [h3, h4]; simp [hlen]
      · rw [h3, h4]; exact hlen
    | stop s1 =>
      simp only [pure] at h
      injection h with h
      obtain ⟨rfl, _⟩ := calcStep_stop hstep
      subst h
      exact hlen

/-! ### `toHashAndPos`, `TreeRows` -/

omit [DecidableEq H] [Hasher H] in
theorem length_insertBy {α} (key : α → U64) (x : α) (l : List α) :
    (insertBy key x l).length = l.length + 1 := by
  induction l with
  | nil => simp [insertBy]
  | cons a l ih =>
    unfold insertBy
    split
    · simp
    · simp [ih]

omit [DecidableEq H] [Hasher H] in
theorem length_foldl_insertBy {α} (key : α → U64) (l : List α) :
    ∀ acc, (l.foldl (fun acc x => insertBy key x acc) acc).length = acc.length + l.length := by
  induction l with
  | nil => simp
  | cons a l ih =>
    intro acc
    simp only [List.foldl_cons, ih, length_insertBy, List.length_cons]
    omega

omit [DecidableEq H] [Hasher H] in
theorem length_sortHP (l : HP H) : (sortHP l).length = l.length := by
  unfold sortHP sortBy
  rw [length_foldl_insertBy]
  simp

theorem treeRows_le_64 (n : U64) : (TreeRows n).toNat ≤ 64 := by
  unfold TreeRows
  split
  · simp
  · unfold len64 ofInt
    split
    · simp
    · rename_i hne
      have hlog : (n - 1#64).toNat.log2 < 64 := by
        by_cases h0 : (n - 1#64).toNat = 0
        · exact absurd (BitVec.eq_of_toNat_eq (by simpa using h0)) hne
        · exact (Nat.log2_lt h0).2 (n - 1#64).isLt
      rw [BitVec.ofInt_natCast, BitVec.toNat_ofNat]
      omega

/-! ### `calculateHashes` -/

theorem calc_core_total {n : U64} (rf : RowFacts n) (hashes : List H)
    (ts : List U64) (ps : List H) (hl : ts.length = hashes.length) :
    Total ((toHashAndPos ts hashes).bind fun toProve =>
      (calcLoop n (TreeRows n) (calcFuel ts.length (TreeRows n))
        { toProve := toProve, next := [], done := [], proof := ps, row := 0#8,
          roots := [], rootRows := [] }).bind fun s =>
      (Out.ok { nodes := mergeHP (s.done ++ s.next) toProve, roots := s.roots,
                rootRows := s.rootRows } : Out (CalcResult H))) := by
  have htr := treeRows_le_64 n
  apply total_bind
  · unfold toHashAndPos
    rw [if_pos hl]
    exact total_ok _
  intro tp htp
  have htp' : tp.length ≤ ts.length := by
    unfold toHashAndPos at htp
    rw [if_pos hl] at htp
    injection htp with htp
    rw [← htp, length_sortHP, List.length_zip]
    omega
  apply total_bind
  · apply calcLoop_total rf (by omega)
    show W (TreeRows n) tp + W (TreeRows n) [] < _
    have h1 := W_le (TreeRows n) tp
    have h2 : tp.length * ((TreeRows n).toNat + 2) ≤ ts.length * ((TreeRows n).toNat + 2) :=
      Nat.mul_le_mul_right _ htp'
    unfold calcFuel
    rw [Nat.succ_mul]
    simp only [W, List.map_nil, List.sum_nil] at h1 ⊢
    omega
  · intro s _
    exact total_ok _

theorem calculateHashes_total {n : U64} (rf : RowFacts n) (hs : Option (List H))
    (ts : List U64) (ps : List H) (hlen : ∀ l, hs = some l → l.length = ts.length) :
    Total (calculateHashes n hs ts ps) := by
  cases hs with
  | none => exact calc_core_total rf _ ts ps (by simp)
  | some l => exact calc_core_total rf l ts ps (hlen l rfl).symm

/-- the candidate roots and their rows have the same length -/
theorem calculateHashes_len {n : U64} {hs : Option (List H)} {ts : List U64} {ps : List H}
    {r : CalcResult H} (h : calculateHashes n hs ts ps = .ok r) :
    r.roots.length = r.rootRows.length := by
  unfold calculateHashes at h
  simp only [bind, pure] at h
  rw [bind_eq_ok] at h
  obtain ⟨tp, _, h⟩ := h
  rw [bind_eq_ok] at h
  obtain ⟨sf, hloop, h⟩ := h
  injection h with h
  subst h
  exact calcLoop_len _ _ _ hloop rfl

/-! ### root matching and the verifiers -/

omit [Hasher H] in
theorem matchRoots_total (n : U64) (roots : List H) :
    ∀ (cs : List H) (rs : List U8) (prev : Option U8), cs.length = rs.length →
      Total (matchRoots n roots cs rs prev) := by
  intro cs
  induction cs with
  | nil => intro rs prev _; cases rs <;> exact total_ok _
  | cons c cs ih =>
    intro rs prev hlen
    cases rs with
    | nil => simp at hlen
    | cons r rs =>
      unfold matchRoots
      simp only
      split
      · exact total_err
      split
      · split
        · apply total_bind (ih rs _ (by simpa using hlen))
          intro l _
          exact total_ok _
        · exact total_err
      · exact total_err

theorem verify_total' {n : U64} (rf : RowFacts n) (roots hs : List H) (ts : List U64)
    (ps : List H) : Total (verify n roots hs ts ps) := by
  unfold verify
  split
  · exact total_err
  · rename_i hlen
    simp only [bind]
    apply total_bind (calculateHashes_total rf _ _ _ ?_)
    · intro r hr
      exact matchRoots_total _ _ _ _ _ (calculateHashes_len hr)
    · intro l hl
      injection hl with hl
      subst hl
      exact Decidable.not_not.mp hlen

theorem pollardVerify_total' {n : U64} (rf : RowFacts n) (roots hs : List H) (ts : List U64)
    (ps : List H) : Total (pollardVerify n roots hs ts ps) := by
  unfold pollardVerify
  split
  · exact total_ok _
  split
  · exact total_err
  · rename_i hlen
    simp only [bind]
    apply total_bind (calculateHashes_total rf _ _ _ ?_)
    · intro r hr
      split
      · exact total_err
      · apply total_bind (matchRoots_total _ _ _ _ _ (calculateHashes_len hr))
        intro _ _
        exact total_ok _
    · intro l hl
      injection hl with hl
      subst hl
      exact Decidable.not_not.mp hlen

end
end UtreexoVerif.Proofs.CalcTotal
