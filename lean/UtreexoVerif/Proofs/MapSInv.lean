/-
  The strong storage invariant `SInv m F` of a map forest: the model state `m`, seen as the
  abstract pair `(A, C)` of `Proofs/MapRep.lean`, satisfies the abstract invariant `AInv` of
  `Proofs/MapAInv.lean` relative to the node list of the specification forest `F` (with leaf
  hygiene `Hyg F`).

  Bridge to the storage invariant `Inv` of `Proofs/MapInv.lean`:

      SInv m F  →  Inv m F ∧ RootFlags m F                                  (`SInv.inv`, `SInv.rootFlags`)
      Inv m F ∧ m.full = false ∧ Hyg F ∧ RootFlags m F  →  SInv m F         (`SInv.of_inv`)

  `RootFlags` (the remember flags of the stored non-empty roots, about which `Inv` is silent)
  has an executable check `rootFlagsCheck` with a soundness theorem.
-/
import UtreexoVerif.Proofs.MapRep
import UtreexoVerif.Proofs.MapAInv
import UtreexoVerif.Proofs.PForestSpec
import UtreexoVerif.Props.C09

namespace UtreexoVerif.Proofs.MapSInv
open UtreexoVerif Model Spec Spec.Forest Proofs MapAL MapInv MapPrune MapRep MapLiftGeo PForest MapAInv
  PForestSpec Hasher
set_option linter.unusedSectionVars false

variable {H : Type} [DecidableEq H] [Hasher H]

/-- the strong storage invariant: `Inv` + the remember flags of non-empty ROOTS + leaf hygiene -/
structure SInv (m : MapPollard H) (F : Forest H) : Prop where
  n_lt : F.numLeaves < 2 ^ 63
  n_eq : m.numLeaves = BitVec.ofNat 64 F.numLeaves
  rows_le : F.rows ≤ m.totalRows.toNat
  total_le : m.totalRows.toNat ≤ 63
  full : m.full = false
  hyg : Hyg F
  abs : ∃ A C, Rep m m.totalRows.toNat A C ∧
    AInv A C F.nodes (FRoot F) (fun x => (C x).isSome = true) (fun _ => False)

/-- remember flags of stored non-empty roots: set iff the root is a cached leaf -/
def RootFlags (m : MapPollard H) (F : Forest H) : Prop :=
  ∀ q l, Valid m.totalRows.toNat q → isRootPos F.numLeaves q = true →
    m.getNode (encP m.totalRows.toNat q) = some l → l.hash ≠ Hasher.zero →
    (l.remember = true ↔ ∃ x, m.getCached x = some (encP m.totalRows.toNat q))

/-! ### geometry glue: `BelowRoot` as `Anc` below a root position -/

theorem anc_rootPos_of_belowRoot {n R : Nat} {z : Pos} (hb : BelowRoot n z.1 z.2 R) :
    Anc (rootPos n R) z := ⟨hb.1, hb.2.2.symm⟩

theorem nonroot_row_ne {n R : Nat} {z : Pos} (hb : BelowRoot n z.1 z.2 R)
    (hnr : isRootPos n z = false) : z.1 ≠ R := by
  intro e
  have := belowRoot_isRootPos hb
  rw [show (z.1, z.2) = z from rfl, hnr] at this
  simp [e] at this

theorem not_froot_iff {F : Forest H} {q : Pos} : ¬ FRoot F q ↔ isRootPos F.numLeaves q = false := by
  unfold FRoot
  cases isRootPos F.numLeaves q <;> simp


/-! ### cached leaves: `KLeaf` in terms of the model's cache -/

section abstract
variable {m : MapPollard H} {F : Forest H} {T : Nat} {A : Pos → Option (Leaf H)} {C : H → Option Pos}

/-- under a representation whose cache points at leaf entries of `F`: a position is the
position of a cached leaf iff the model's cache maps some hash to its encoding -/
theorem kleaf_cached_iff (L : Laws F.nodes (FRoot F)) (rep : Rep m T A C)
    (hcp : ∀ x t, C x = some t → (t, x, true) ∈ F.nodes) {q : Pos} (hq : Valid T q) :
    KLeaf F.nodes (fun x => (C x).isSome = true) q ↔ ∃ x, m.getCached x = some (encP T q) := by
  constructor
  · rintro ⟨x, hk, hm⟩
    cases hC : C x with
    | none => rw [hC] at hk; cases hk
    | some t' =>
      have := L.leaf_hash q x t' true hm (hcp x t' hC)
      subst this
      exact ⟨x, by rw [rep.cache x, hC]; rfl⟩
  · rintro ⟨x, hx⟩
    rw [rep.cache x] at hx
    cases hC : C x with
    | none => rw [hC] at hx; cases hx
    | some t =>
      rw [hC] at hx
      simp only [Option.map_some, Option.some.injEq] at hx
      have : t = q := encP_inj' rep.T_le (rep.cdom x t hC) hq hx
      subst this
      exact ⟨x, by show (C x).isSome = true; rw [hC]; rfl, hcp x t hC⟩

/-- `KLeaf` for the cached set of the model, in terms of `posOf` -/
theorem kleaf_iff (nz : NZ H) (hn : F.numLeaves < 2 ^ 64) (hy : Hyg F) (rep : Rep m T A C) {t : Pos} :
    KLeaf F.nodes (fun x => (C x).isSome = true) t ↔ ∃ x, m.hasCached x = true ∧ F.posOf x = some t := by
  constructor
  · rintro ⟨x, hk, hm⟩
    exact ⟨x, by rw [rep.hasCached x]; exact hk, (posOf_iff F hn hy nz).2 hm⟩
  · rintro ⟨x, hk, hp⟩
    exact ⟨x, by show (C x).isSome = true; rw [← rep.hasCached x]; exact hk, posOf_mem hp⟩

end abstract


/-! ### `SInv → Inv`, `SInv → RootFlags` -/

theorem SInv.n_lt64 {m : MapPollard H} {F : Forest H} (s : SInv m F) : F.numLeaves < 2 ^ 64 := by
  have := s.n_lt; omega

theorem SInv.laws (nz : NZ H) {m : MapPollard H} {F : Forest H} (s : SInv m F) : Laws F.nodes (FRoot F) :=
  laws_forest nz F s.n_lt64 s.hyg

/-- the remember flag of every stored node with a non-zero hash (root or not): set iff the
node is the position of a cached leaf -/
theorem SInv.flags_all (nz : NZ H) {m : MapPollard H} {F : Forest H} (s : SInv m F) :
    ∀ q l, Valid m.totalRows.toNat q → m.getNode (encP m.totalRows.toNat q) = some l →
      l.hash ≠ Hasher.zero →
      (l.remember = true ↔ ∃ x, m.getCached x = some (encP m.totalRows.toNat q)) := by
  obtain ⟨A, C, rep, ainv⟩ := s.abs
  intro q l hv hg hnz
  have hA : A q = some l := by rw [← rep.node q hv]; exact hg
  rw [ainv.flags q l hA hnz]
  exact kleaf_cached_iff (s.laws nz) rep ainv.cached_pos hv

theorem SInv.rootFlags (nz : NZ H) {m : MapPollard H} {F : Forest H} (s : SInv m F) : RootFlags m F :=
  fun q l hv _ hg hnz => s.flags_all nz q l hv hg hnz

theorem SInv.inv (nz : NZ H) {m : MapPollard H} {F : Forest H} (s : SInv m F) : Inv m F := by
  have L := s.laws nz
  have hn := s.n_lt64
  obtain ⟨A, C, rep, ainv⟩ := s.abs
  -- a stored node is a node of `F`
  have stored_node : ∀ q l, Valid m.totalRows.toNat q → m.getNode (encP m.totalRows.toNat q) = some l →
      A q = some l ∧ ∃ b, (q, l.hash, b) ∈ F.nodes := by
    intro q l hv hg
    have hA : A q = some l := by rw [← rep.node q hv]; exact hg
    exact ⟨hA, ainv.true_hash q l hA⟩
  have hkl : ∀ t, KLeaf F.nodes (fun x => (C x).isSome = true) t ↔
      ∃ x, m.hasCached x = true ∧ F.posOf x = some t := fun t => kleaf_iff nz hn s.hyg rep
  refine { n_lt := s.n_lt, n_eq := s.n_eq, rows_le := s.rows_le, total_le := s.total_le, true_hash := ?_,
           cached_pos := ?_, only_needed := ?_, has_needed := ?_, flags := ?_ }
  · -- true_hash
    intro p l hg
    obtain ⟨q, hv, rfl⟩ := rep.keys p l hg
    obtain ⟨_, b, hb⟩ := stored_node q l hv hg
    exact ⟨q, hv, rfl, SpecNodes.nodeAt_of_mem hb⟩
  · -- cached_pos
    intro x p hc
    rw [rep.cache x] at hc
    cases hC : C x with
    | none => rw [hC] at hc; cases hc
    | some t =>
      rw [hC] at hc
      simp only [Option.map_some, Option.some.injEq] at hc
      exact ⟨t, (posOf_iff F hn s.hyg nz).2 (ainv.cached_pos x t hC), hc.symm⟩
  · -- only_needed
    intro q l hv hg
    obtain ⟨hA, b, hb⟩ := stored_node q l hv hg
    cases hr : isRootPos F.numLeaves q with
    | true => exact Or.inl hr
    | false =>
      obtain ⟨R, hbr⟩ := belowRoot_of_mem_nodes hb
      have hne : q.1 ≠ R := nonroot_row_ne hbr hr
      obtain ⟨t, hk, hle, hanc⟩ := ainv.only_needed q l hA (not_froot_iff.2 hr) (fun h => h)
      obtain ⟨x, hx, hp⟩ := (hkl t).1 hk
      exact (allowed_nonroot_iff hbr hne).2 ⟨x, t, hx, hp, hle, hanc⟩
  · -- has_needed
    intro q hreq
    obtain ⟨R, hbr⟩ := required_belowRoot hreq
    have hv : Valid m.totalRows.toNat q := belowRoot_valid' s.rows_le hbr
    rw [rep.hasNode hv]
    have conv : ∀ {o : Option (Leaf H)}, o ≠ none → o.isSome = true := by
      intro o ho; cases o with
      | none => exact absurd rfl ho
      | some _ => rfl
    cases hr : isRootPos F.numLeaves q with
    | true => exact conv (ainv.roots_stored q hr)
    | false =>
      have hne : q.1 ≠ R := nonroot_row_ne hbr hr
      have hnr : ¬ FRoot F q := not_froot_iff.2 hr
      obtain ⟨x, t, hx, hp, h⟩ := (required_nonroot_iff hbr hne).1 hreq
      have hkt : KLeaf F.nodes (fun x => (C x).isSome = true) t := (hkl t).2 ⟨x, hx, hp⟩
      have htm : (t, x, true) ∈ F.nodes := posOf_mem hp
      rcases h with rfl | hanc
      · exact conv (ainv.has_needed q x true htm hnr (Or.inl hkt))
      · -- `sib q` lies between the root and the node `t`, hence is a node; so is `q`
        have hs : BelowRoot F.numLeaves (sib q).1 (sib q).2 R := by rw [sib_fst]; exact belowRoot_sib hbr hne
        have hsnr : ¬ FRoot F (sib q) :=
          not_froot_iff.2 (nonroot_of_belowRoot hs (by rw [sib_fst]; exact hne))
        have hρ : FRoot F (rootPos F.numLeaves R) := isRootPos_rootPos hs.2.1
        obtain ⟨hρh, hρb, hρm⟩ := L.root_node _ hρ
        have h1 : Anc (rootPos F.numLeaves R) (sib q) := anc_rootPos_of_belowRoot hs
        have h2 : Anc (rootPos F.numLeaves R) t := Anc.trans h1 hanc
        obtain ⟨hs', bs', hsm⟩ := L.path_nodes ((rootPos F.numLeaves R).1 - t.1) hρm htm h2
          (by have := h2.1; omega) (sib q) h1 hanc
        obtain ⟨hq', bq', hqm⟩ := L.sib_node (sib q) hs' bs' hsm hsnr
        rw [sib_sib] at hqm
        exact conv (ainv.has_needed q hq' bq' hqm hnr (Or.inr ⟨t, hkt, hanc⟩))
  · -- flags
    intro _ q l hv hr hg
    obtain ⟨_, b, hb⟩ := stored_node q l hv hg
    exact s.flags_all nz q l hv hg (L.nonzero_of_nonroot hb (not_froot_iff.2 hr))


/-! ### `Inv + RootFlags + Hyg → SInv` -/

/-- the canonical representation of a state satisfying `Inv` -/
theorem rep_of_inv {m : MapPollard H} {F : Forest H} (inv : Inv m F) :
    Rep m m.totalRows.toNat (absA m m.totalRows.toNat) (absC m m.totalRows.toNat) := by
  refine rep_abs inv.total_le (totalRows_eq_H8 m) ?_ ?_
  · intro p l hg
    obtain ⟨q, hv, he, _⟩ := inv.true_hash p l hg
    exact ⟨q, hv, he⟩
  · intro x p hc
    obtain ⟨t, hp, he⟩ := inv.cached_pos x p hc
    exact ⟨t, posOf_valid inv.rows_le hp, he⟩

theorem SInv.of_inv (nz : NZ H) {m : MapPollard H} {F : Forest H} (inv : Inv m F) (hfull : m.full = false)
    (hy : Hyg F) (hrf : RootFlags m F) : SInv m F := by
  have hn : F.numLeaves < 2 ^ 64 := by have := inv.n_lt; omega
  have L := laws_forest nz F hn hy
  have rep := rep_of_inv inv
  generalize hA : absA m m.totalRows.toNat = A at rep
  generalize hC : absC m m.totalRows.toNat = C at rep
  have hT := inv.total_le
  -- a stored node of the abstract state is a stored node of the model, and a node of `F`
  have stored : ∀ q l, A q = some l → Valid m.totalRows.toNat q ∧
      m.getNode (encP m.totalRows.toNat q) = some l ∧ ∃ b, (q, l.hash, b) ∈ F.nodes := by
    intro q l h
    have hv := rep.dom q l h
    have hg : m.getNode (encP m.totalRows.toNat q) = some l := by rw [rep.node q hv]; exact h
    exact ⟨hv, hg, mem_nodes_of_nodeAt (getNode_true inv hv hg)⟩
  have hcp : ∀ x t, C x = some t → (t, x, true) ∈ F.nodes := by
    intro x t h
    have hc : m.getCached x = some (encP m.totalRows.toNat t) := by rw [rep.cache x, h]; rfl
    obtain ⟨t', hp, he⟩ := inv.cached_pos x _ hc
    have : t = t' := encP_inj' hT (rep.cdom x t h) (posOf_valid inv.rows_le hp) he
    rw [this]; exact posOf_mem hp
  have hkl : ∀ t, KLeaf F.nodes (fun x => (C x).isSome = true) t ↔
      ∃ x, m.hasCached x = true ∧ F.posOf x = some t := fun t => kleaf_iff nz hn hy rep
  have conv : ∀ {o : Option (Leaf H)}, o.isSome = true → o ≠ none := by
    intro o ho e; rw [e] at ho; cases ho
  refine { n_lt := inv.n_lt, n_eq := inv.n_eq, rows_le := inv.rows_le, total_le := hT, full := hfull,
           hyg := hy, abs := ⟨A, C, rep, ?_⟩ }
  refine { true_hash := ?_, cache_sub := ?_, cached_pos := hcp, roots_stored := ?_, only_needed := ?_,
           has_needed := ?_, flags := ?_ }
  · intro q l h; exact (stored q l h).2.2
  · intro x t h; show (C x).isSome = true; rw [h]; rfl
  · -- roots_stored
    intro ρ hρ
    have hv : Valid m.totalRows.toNat ρ := belowRoot_valid' inv.rows_le (isRootPos_belowRoot hρ)
    have := inv.has_needed ρ (Or.inl hρ)
    rw [rep.hasNode hv] at this
    exact conv this
  · -- only_needed
    intro q l h hnr _
    obtain ⟨hv, hg, b, hb⟩ := stored q l h
    obtain ⟨R, hbr⟩ := belowRoot_of_mem_nodes hb
    have hne : q.1 ≠ R := nonroot_row_ne hbr (not_froot_iff.1 hnr)
    obtain ⟨x, t, hx, hp, hle, hanc⟩ := (allowed_nonroot_iff hbr hne).1 (inv.only_needed q l hv hg)
    exact ⟨t, (hkl t).2 ⟨x, hx, hp⟩, hle, hanc⟩
  · -- has_needed
    intro q h b hq hnr hreq
    obtain ⟨R, hbr⟩ := belowRoot_of_mem_nodes hq
    have hne : q.1 ≠ R := nonroot_row_ne hbr (not_froot_iff.1 hnr)
    have hv : Valid m.totalRows.toNat q := belowRoot_valid' inv.rows_le hbr
    have hR : Required F (fun x => m.hasCached x = true) q := by
      apply (required_nonroot_iff hbr hne).2
      rcases hreq with hk | ⟨t, hk, hanc⟩
      · obtain ⟨x, hx, hp⟩ := (hkl q).1 hk
        exact ⟨x, q, hx, hp, Or.inl rfl⟩
      · obtain ⟨x, hx, hp⟩ := (hkl t).1 hk
        exact ⟨x, t, hx, hp, Or.inr hanc⟩
    have := inv.has_needed q hR
    rw [rep.hasNode hv] at this
    exact conv this
  · -- flags
    intro q l h hnz
    obtain ⟨hv, hg, _⟩ := stored q l h
    rw [kleaf_cached_iff L rep hcp hv]
    cases hr : isRootPos F.numLeaves q with
    | true => exact hrf q l hv hr hg hnz
    | false => exact inv.flags hfull q l hv hr hg


/-! ### the executable root-flag check -/

/-- every stored entry whose key decodes to a root position of `F` and whose hash is not the
empty hash carries the remember flag iff some cached hash points at its key -/
def rootFlagsCheck (m : MapPollard H) (F : Forest H) : Bool :=
  m.nodes.all fun e => match decRO m.totalRows.toNat e.1.toNat with
    | some q => !isRootPos F.numLeaves q || (e.2.hash == (Hasher.zero : H)) ||
        (e.2.remember == m.cached.any fun c => AL.get? m.cached c.1 == some e.1)
    | none => true

theorem rootFlagsCheck_sound {m : MapPollard H} {F : Forest H} (h : rootFlagsCheck m F = true)
    (hT : m.totalRows.toNat ≤ 63) : RootFlags m F := by
  intro q l hv hr hg hnz
  unfold rootFlagsCheck at h
  have hmem := get?_some_mem hg
  have := List.all_eq_true.1 h _ hmem
  have hz : (l.hash == (Hasher.zero : H)) = false := by
    cases hb : (l.hash == (Hasher.zero : H)) with
    | false => rfl
    | true => exact absurd (beq_iff_eq.1 hb) hnz
  simp only [MapInvCheck.dec_encP hT hv, hr, hz, Bool.not_true, Bool.false_or, beq_iff_eq] at this
  rw [this]
  constructor
  · intro hany
    obtain ⟨c, hc, hcc⟩ := List.any_eq_true.1 hany
    exact ⟨c.1, by simpa [MapPollard.getCached] using hcc⟩
  · rintro ⟨x, hx⟩
    apply List.any_eq_true.2
    exact ⟨(x, _), get?_some_mem hx, by simpa [MapPollard.getCached] using hx⟩


/-! ### non-vacuity: the concrete state `m5` / `F5` of `Props/C09.lean` -/

namespace Example
open Props.C09.Example

/-- the term algebra of `Props/C09.lean` is a collision-free hasher -/
theorem crT : CR T where
  inj := by
    intro a b c d h
    simp only [Hasher.ph] at h
    cases h
    exact ⟨rfl, rfl⟩
  nonzero := by
    intro a b h
    simp only [Hasher.ph, Hasher.zero] at h
    cases h

theorem F5_live : ∀ x ∈ F5.liveLeaves, x = .leaf 0 ∨ x = .leaf 1 ∨ x = .leaf 2 ∨ x = .leaf 3 ∨ x = .leaf 4 := by
  intro x hx
  simpa [F5, Forest.liveLeaves] using hx

theorem F5_hyg : Hyg F5 where
  nodup := by decide
  nz := by
    intro x hx
    rcases F5_live x hx with rfl | rfl | rfl | rfl | rfl <;>
      (simp only [Hasher.zero]; intro h; cases h)
  nph := by
    intro x hx a b
    rcases F5_live x hx with rfl | rfl | rfl | rfl | rfl <;>
      (simp only [Hasher.ph]; intro h; cases h)

theorem m5_rootFlagsCheck : rootFlagsCheck m5 F5 = true := by decide +kernel

theorem m5_total : m5.totalRows.toNat ≤ 63 := m5_inv.total_le

/-- `rootFlagsCheck_sound`: its hypotheses hold of `m5` / `F5` -/
theorem m5_rootFlags : RootFlags m5 F5 := rootFlagsCheck_sound m5_rootFlagsCheck m5_total

/-- `SInv.of_inv`: its hypotheses hold of `m5` / `F5` -/
theorem m5_sinv : SInv m5 F5 := SInv.of_inv crT.toNZ m5_inv m5_partial F5_hyg m5_rootFlags

/-- `SInv.inv`, `SInv.rootFlags`: their hypothesis holds of `m5` / `F5` -/
example : Inv m5 F5 ∧ RootFlags m5 F5 := ⟨m5_sinv.inv crT.toNZ, m5_sinv.rootFlags crT.toNZ⟩

/-- the instance is not trivial: `F5` has a root that is a cached leaf (row 0, offset 4: the
flag is set) and a root that is not (row 2, offset 0: the flag is clear), both stored with
non-zero hashes -/
example : isRootPos F5.numLeaves (0, 4) = true ∧ isRootPos F5.numLeaves (2, 0) = true ∧
    (m5.getNode (encP 63 (0, 4))).map (·.remember) = some true ∧
    (m5.getNode (encP 63 (2, 0))).map (·.remember) = some false ∧
    m5.getCached (.leaf 4) = some (encP 63 (0, 4)) := by decide +kernel

/-- `RootFlags` is independent of `Inv`: clearing the flag of the cached root leaf keeps
`invCheck` (hence `Inv`) but violates the root-flag check -/
example : invCheck (m5.putNode (encP 63 (0, 4)) ⟨.leaf 4, false⟩) F5 = true ∧
    rootFlagsCheck (m5.putNode (encP 63 (0, 4)) ⟨.leaf 4, false⟩) F5 = false ∧
    rootFlagsCheck (m5.putNode (encP 63 (2, 0)) ⟨(m5.getNodeD (encP 63 (2, 0))).hash, true⟩) F5 = false := by
  decide +kernel

/-- … and indeed that state satisfies `Inv` but not `RootFlags`, hence (by `SInv.rootFlags`) not
`SInv`: the hypothesis `hrf` of `SInv.of_inv` cannot be dropped -/
example : Inv (m5.putNode (encP 63 (0, 4)) ⟨.leaf 4, false⟩) F5 ∧
    ¬ RootFlags (m5.putNode (encP 63 (0, 4)) ⟨.leaf 4, false⟩) F5 ∧
    ¬ SInv (m5.putNode (encP 63 (0, 4)) ⟨.leaf 4, false⟩) F5 := by
  have hnot : ¬ RootFlags (m5.putNode (encP 63 (0, 4)) ⟨.leaf 4, false⟩) F5 := by
    intro hrf
    have h := hrf (0, 4) ⟨.leaf 4, false⟩ (by decide +kernel) (by decide +kernel) (by decide +kernel)
      (by simp only [Hasher.zero]; intro h; cases h)
    have h2 := h.2 ⟨.leaf 4, by decide +kernel⟩
    cases h2
  exact ⟨Props.C09.invCheck_sound (by decide +kernel), hnot, fun s => hnot (s.rootFlags crT.toNZ)⟩

end Example

end UtreexoVerif.Proofs.MapSInv
