/-
  Pointer forest, heap model, `Undo`, third phase (`undoDels`): shared definitions.

  `undoDels` first allocates one node per deleted leaf, merges sibling nodes into detached trees
  (`deTwinPolNode`) and then re-inserts the detached trees from the highest position down.  In
  between, the heap holds, next to the represented roots, a list of DETACHED represented trees
  waiting to be re-inserted: `PItem` (node, position, tree, footprint, leaves).
-/
import UtreexoVerif.Proofs.PollardHeapUndoDel
import UtreexoVerif.Proofs.PollardHeapModify
set_option linter.unusedSectionVars false
set_option linter.unusedVariables false
set_option linter.unusedSimpArgs false

namespace UtreexoVerif.Proofs.PollardHeap
open UtreexoVerif UtreexoVerif.GoInt UtreexoVerif.Model UtreexoVerif.Model.PollardHeap UtreexoVerif.Spec Hasher
open UtreexoVerif.Model.PollardAbs UtreexoVerif.Proofs.CalcGeo

variable {H : Type} [DecidableEq H] [Hasher H]

/-- a detached represented tree waiting to be re-inserted: its top node `nd` (a root-like node:
no aunt, pointing to its own children), the position `pos` of that node in the forest before the
block, the collapsed tree `t` it carries, its footprint `fp` (descendants, `nd` excluded) and
its leaves `lv` with their heap indexes -/
structure PItem (H : Type) where
  nd : Nat
  pos : Pos
  t : CTree H
  fp : List Nat
  lv : List (H × Nat)

/-- every heap node of the item -/
def PItem.owned (it : PItem H) : List Nat := it.nd :: it.fp

/-- the `nodeAndPos` of the Go code (`rows` = rows of the forest) -/
def PItem.np (rows : Nat) (it : PItem H) : NP := (it.nd, E rows it.pos)

/-- every item is a detached represented tree -/
def Pend (hp : Heap H) (its : List (PItem H)) : Prop :=
  ∀ it ∈ its, RootRepr hp it.nd it.t it.fp it.lv

def pendOwned (its : List (PItem H)) : List Nat := its.flatMap PItem.owned
def pendLeaves (its : List (PItem H)) : List (H × Nat) := its.flatMap (·.lv)

theorem Pend.frame {hp hp' : Heap H} {its : List (PItem H)} (h : Pend hp its)
    (e : ∀ i ∈ pendOwned its, hp'[i]? = hp[i]?) : Pend hp' its := by
  intro it hit
  have hR : ReprRoot hp it.nd (some it.t) it.fp it.lv := h it hit
  have := hR.frame (hp' := hp') (by
    intro i hi
    apply e
    unfold pendOwned
    rw [List.mem_flatMap]
    exact ⟨it, hit, hi⟩)
  exact this

theorem Pend.lt {hp : Heap H} {its : List (PItem H)} (h : Pend hp its) :
    ∀ i ∈ pendOwned its, i < hp.size := by
  intro i hi
  unfold pendOwned at hi
  rw [List.mem_flatMap] at hi
  obtain ⟨it, hit, hi⟩ := hi
  have hR : ReprRoot hp it.nd (some it.t) it.fp it.lv := h it hit
  exact hR.lt i hi

theorem pendOwned_append (a b : List (PItem H)) : pendOwned (a ++ b) = pendOwned a ++ pendOwned b := by
  unfold pendOwned; simp

theorem pendLeaves_append (a b : List (PItem H)) : pendLeaves (a ++ b) = pendLeaves a ++ pendLeaves b := by
  unfold pendLeaves; simp

theorem pendOwned_cons (a : PItem H) (b : List (PItem H)) :
    pendOwned (a :: b) = a.nd :: a.fp ++ pendOwned b := by
  unfold pendOwned PItem.owned; simp

theorem pendLeaves_cons (a : PItem H) (b : List (PItem H)) :
    pendLeaves (a :: b) = a.lv ++ pendLeaves b := by
  unfold pendLeaves; simp

theorem Pend.append {hp : Heap H} {a b : List (PItem H)} (h1 : Pend hp a) (h2 : Pend hp b) :
    Pend hp (a ++ b) := by
  intro it hit
  rcases List.mem_append.1 hit with h | h
  · exact h1 it h
  · exact h2 it h

end UtreexoVerif.Proofs.PollardHeap
