/-
  What `buildH` / `buildRoots` (the heap `readOne` / `RestorePollardFrom` build from the parse
  tree, `Proofs/PollardHeapSerialR.lean`) look like: `LShape hp n t fp ents` — node `n` of heap
  `hp` carries the record tree `t` in its NIECE pointers (data, both nieces or none, nieces
  point back with their aunt pointer, `remember = false` everywhere), `fp` = the nodes below
  `n`, `ents` = the `NodeMap` insertions (hash, node) in stream order.
-/
import UtreexoVerif.Proofs.PollardHeapSerialR
import UtreexoVerif.Proofs.PollardHeap
set_option linter.unusedSectionVars false
set_option linter.unusedVariables false
set_option linter.unusedSimpArgs false

namespace UtreexoVerif.Proofs.PollardHeapSerial
open UtreexoVerif UtreexoVerif.Model UtreexoVerif.Model.PollardHeap UtreexoVerif.Spec Hasher
open UtreexoVerif.Model.Serial UtreexoVerif.Proofs.Serial UtreexoVerif.Proofs.PollardHeap

variable {H : Type} [DecidableEq H] [Hasher H] [HashBytes H]

/-- the `NodeMap` insertion a record causes -/
def entH (hb : List Byte) (lf : Bool) (n : Nat) : List (H × Nat) :=
  if lf && ((ofBytes hb : H) != zero) then [(ofBytes hb, n)] else []

/-- `p.NodeMap[k] = v` for a list of entries, in order -/
def mapSetAll (m : List (H × Nat)) (es : List (H × Nat)) : List (H × Nat) :=
  es.foldl (fun m e => mapSet m e.1 e.2) m

theorem mapSetAll_append (m : List (H × Nat)) (a b : List (H × Nat)) :
    mapSetAll m (a ++ b) = mapSetAll (mapSetAll m a) b := by
  simp [mapSetAll, List.foldl_append]

/-- node `n` carries the record tree `t` in its niece pointers -/
inductive LShape (hp : Heap H) : Nat → LNode → List Nat → List (H × Nat) → Prop
  | dead {n : Nat} {nn : PolNode H} {hb : List Byte} {lf : Bool} :
      hp[n]? = some nn → nn.data = ofBytes hb → nn.lNiece = none → nn.rNiece = none →
      nn.remember = false → LShape hp n (.dead hb lf) [] (entH hb lf n)
  | fork {n l r : Nat} {nn ln rn : PolNode H} {hb : List Byte} {lf : Bool} {tl tr : LNode}
      {fl fr : List Nat} {el er : List (H × Nat)} :
      hp[n]? = some nn → nn.data = ofBytes hb → nn.lNiece = some l → nn.rNiece = some r →
      nn.remember = false → hp[l]? = some ln → hp[r]? = some rn →
      ln.aunt = some n → rn.aunt = some n →
      LShape hp l tl fl el → LShape hp r tr fr er →
      LShape hp n (.fork hb lf tl tr) (l :: r :: (fl ++ fr)) (entH hb lf n ++ (el ++ er))

theorem LShape.frame {hp hp' : Heap H} {n : Nat} {t : LNode} {fp : List Nat} {ents : List (H × Nat)}
    (h : LShape hp n t fp ents) (hf : ∀ i ∈ n :: fp, hp'[i]? = hp[i]?) : LShape hp' n t fp ents := by
  induction h with
  | dead h1 h2 h3 h4 h5 => exact LShape.dead ((hf _ (by simp)).trans h1) h2 h3 h4 h5
  | @fork n l r nn ln rn hb lf tl tr fl fr el er h1 h2 h3 h4 h5 h6 h7 h8 h9 sl sr ihl ihr =>
    refine LShape.fork ((hf _ (by simp)).trans h1) h2 h3 h4 h5 ((hf _ (by simp)).trans h6)
      ((hf _ (by simp)).trans h7) h8 h9 ?_ ?_
    · apply ihl
      intro i hi
      apply hf
      simp only [List.mem_cons, List.mem_append] at hi ⊢
      rcases hi with rfl | hi
      · simp
      · simp [hi]
    · apply ihr
      intro i hi
      apply hf
      simp only [List.mem_cons, List.mem_append] at hi ⊢
      rcases hi with rfl | hi
      · simp
      · simp [hi]

/-! ### the single steps -/

theorem fillH_heap (hb : List Byte) (lf : Bool) (n : Nat) (p : Pollard H) :
    (fillH hb lf n p).heap = p.heap.modify n (fun x => { x with data := ofBytes hb }) := by
  unfold fillH
  cases lf <;> simp
  split <;> rfl

theorem fillH_nodeMap (hb : List Byte) (lf : Bool) (n : Nat) (p : Pollard H) :
    (fillH hb lf n p).nodeMap = mapSetAll p.nodeMap (entH hb lf n) := by
  unfold fillH entH mapSetAll
  cases lf <;> simp
  by_cases h : (ofBytes hb : H) = zero <;> simp [h]

theorem fillH_rest (hb : List Byte) (lf : Bool) (n : Nat) (p : Pollard H) :
    (fillH hb lf n p).roots = p.roots ∧ (fillH hb lf n p).numLeaves = p.numLeaves ∧
    (fillH hb lf n p).numDels = p.numDels ∧ (fillH hb lf n p).full = p.full := by
  unfold fillH
  cases lf <;> simp
  split <;> simp

theorem fillH_size (hb : List Byte) (lf : Bool) (n : Nat) (p : Pollard H) :
    (fillH hb lf n p).heap.size = p.heap.size := by
  rw [fillH_heap]; simp

theorem fillH_get_self (hb : List Byte) (lf : Bool) (n : Nat) (p : Pollard H) {x : PolNode H}
    (h : p.heap[n]? = some x) :
    (fillH hb lf n p).heap[n]? = some { x with data := ofBytes hb } := by
  rw [fillH_heap, Array.getElem?_modify]; simp [h]

theorem fillH_get_other (hb : List Byte) (lf : Bool) (n : Nat) (p : Pollard H) {j : Nat} (h : j ≠ n) :
    (fillH hb lf n p).heap[j]? = p.heap[j]? := by
  rw [fillH_heap, Array.getElem?_modify]; simp [Ne.symm h]

/-- the fresh niece -/
def freshNiece (n : Nat) : PolNode H := { data := zero, aunt := some n }

theorem allocL_size (n : Nat) (p : Pollard H) : (allocL n p).heap.size = p.heap.size + 1 := by
  simp [allocL]
theorem allocR_size (n : Nat) (p : Pollard H) : (allocR n p).heap.size = p.heap.size + 1 := by
  simp [allocR]

theorem allocL_get_self (n : Nat) (p : Pollard H) {x : PolNode H} (h : p.heap[n]? = some x) :
    (allocL n p).heap[n]? = some { x with lNiece := some p.heap.size } := by
  have hn := lt_of_get h
  simp only [allocL]
  rw [Array.getElem?_modify, Array.getElem?_push]
  simp [h, Nat.ne_of_lt hn]

theorem allocR_get_self (n : Nat) (p : Pollard H) {x : PolNode H} (h : p.heap[n]? = some x) :
    (allocR n p).heap[n]? = some { x with rNiece := some p.heap.size } := by
  have hn := lt_of_get h
  simp only [allocR]
  rw [Array.getElem?_modify, Array.getElem?_push]
  simp [h, Nat.ne_of_lt hn]

theorem allocL_get_new (n : Nat) (p : Pollard H) (hn : n < p.heap.size) :
    (allocL n p).heap[p.heap.size]? = some (freshNiece n) := by
  simp only [allocL]
  rw [Array.getElem?_modify, Array.getElem?_push]
  simp [Nat.ne_of_lt hn, freshNiece]

theorem allocR_get_new (n : Nat) (p : Pollard H) (hn : n < p.heap.size) :
    (allocR n p).heap[p.heap.size]? = some (freshNiece n) := by
  simp only [allocR]
  rw [Array.getElem?_modify, Array.getElem?_push]
  simp [Nat.ne_of_lt hn, freshNiece]

theorem allocL_get_other (n : Nat) (p : Pollard H) {j : Nat} (h : j ≠ n) (hj : j < p.heap.size) :
    (allocL n p).heap[j]? = p.heap[j]? := by
  simp only [allocL]
  rw [Array.getElem?_modify, Array.getElem?_push]
  simp [Ne.symm h, Nat.ne_of_lt hj]

theorem allocR_get_other (n : Nat) (p : Pollard H) {j : Nat} (h : j ≠ n) (hj : j < p.heap.size) :
    (allocR n p).heap[j]? = p.heap[j]? := by
  simp only [allocR]
  rw [Array.getElem?_modify, Array.getElem?_push]
  simp [Ne.symm h, Nat.ne_of_lt hj]

/-- everything `buildH` leaves alone -/
theorem buildH_rest : ∀ (t : LNode) (n : Nat) (p : Pollard H),
    (buildH t n p).roots = p.roots ∧ (buildH t n p).numLeaves = p.numLeaves ∧
    (buildH t n p).numDels = p.numDels ∧ (buildH t n p).full = p.full := by
  intro t
  induction t with
  | dead hb lf => intro n p; exact fillH_rest hb lf n p
  | fork hb lf l r ihl ihr =>
    intro n p
    simp only [buildH]
    obtain ⟨a1, a2, a3, a4⟩ := fillH_rest hb lf n p
    obtain ⟨b1, b2, b3, b4⟩ := ihl (fillH hb lf n p).heap.size (allocL n (fillH hb lf n p))
    obtain ⟨c1, c2, c3, c4⟩ := ihr (buildH l (fillH hb lf n p).heap.size (allocL n (fillH hb lf n p))).heap.size
      (allocR n (buildH l (fillH hb lf n p).heap.size (allocL n (fillH hb lf n p))))
    refine ⟨?_, ?_, ?_, ?_⟩
    · rw [c1]; show (buildH l _ _).roots = _; rw [b1]; exact a1
    · rw [c2]; show (buildH l _ _).numLeaves = _; rw [b2]; exact a2
    · rw [c3]; show (buildH l _ _).numDels = _; rw [b3]; exact a3
    · rw [c4]; show (buildH l _ _).full = _; rw [b4]; exact a4

/-- **what `buildH` builds**: on a fresh node `n` (no nieces, `remember = false`) of the
heap, `buildH t n` leaves a heap in which `n` carries `t`; every other old node is untouched,
the new nodes are exactly `fp` (allocated after the old ones), `n` keeps its aunt pointer,
and `NodeMap` received exactly the insertions `ents`. -/
theorem buildH_spec : ∀ (t : LNode) (n : Nat) (p : Pollard H) (x : PolNode H),
    p.heap[n]? = some x → x.lNiece = none → x.rNiece = none → x.remember = false →
    ∃ fp ents x',
      LShape (buildH t n p).heap n t fp ents ∧
      (∀ i ∈ fp, p.heap.size ≤ i ∧ i < (buildH t n p).heap.size) ∧
      (buildH t n p).heap.size = p.heap.size + fp.length ∧
      (∀ j, j < p.heap.size → j ≠ n → (buildH t n p).heap[j]? = p.heap[j]?) ∧
      (buildH t n p).heap[n]? = some x' ∧ x'.aunt = x.aunt ∧
      fp.Nodup ∧
      (buildH t n p).nodeMap = mapSetAll p.nodeMap ents ∧
      (∀ e ∈ ents, e.2 = n ∨ e.2 ∈ fp) := by
  intro t
  induction t with
  | dead hb lf =>
    intro n p x hx h1 h2 h3
    refine ⟨[], entH hb lf n, { x with data := ofBytes hb }, ?_, by simp, ?_, ?_, ?_, rfl, by simp, ?_, ?_⟩
    · exact LShape.dead (fillH_get_self hb lf n p hx) rfl h1 h2 h3
    · simp [buildH, fillH_size]
    · intro j _ hj; exact fillH_get_other hb lf n p hj
    · exact fillH_get_self hb lf n p hx
    · exact fillH_nodeMap hb lf n p
    · intro e he
      unfold entH at he
      split at he
      · simp at he; subst he; exact Or.inl rfl
      · cases he
  | fork hb lf l r ihl ihr =>
    intro n p x hx h1 h2 h3
    have hn := lt_of_get hx
    -- step 1: the header
    obtain ⟨p1, hp1⟩ : ∃ p1, p1 = fillH hb lf n p := ⟨_, rfl⟩
    have s1 : p1.heap.size = p.heap.size := by rw [hp1, fillH_size]
    have g1 : p1.heap[n]? = some { x with data := ofBytes hb } := by rw [hp1]; exact fillH_get_self hb lf n p hx
    have o1 : ∀ j, j ≠ n → p1.heap[j]? = p.heap[j]? := by intro j hj; rw [hp1]; exact fillH_get_other hb lf n p hj
    -- step 2: the left niece
    obtain ⟨p2, hp2⟩ : ∃ p2, p2 = allocL n p1 := ⟨_, rfl⟩
    have s2 : p2.heap.size = p.heap.size + 1 := by rw [hp2, allocL_size, s1]
    have g2 : p2.heap[n]? = some { x with data := ofBytes hb, lNiece := some p.heap.size } := by
      rw [hp2, allocL_get_self n p1 g1, s1]
    have n2 : p2.heap[p.heap.size]? = some (freshNiece n) := by
      rw [hp2, ← s1]; exact allocL_get_new n p1 (by omega)
    have o2 : ∀ j, j ≠ n → j < p.heap.size → p2.heap[j]? = p.heap[j]? := by
      intro j hj hl; rw [hp2, allocL_get_other n p1 hj (by omega)]; exact o1 j hj
    -- step 3: the left subtree
    obtain ⟨fl, el, xl, L1, L2, L3, L4, L5, L6, L7, L8, L9⟩ :=
      ihl p.heap.size p2 (freshNiece n) n2 rfl rfl rfl
    obtain ⟨p3, hp3⟩ : ∃ p3, p3 = buildH l p.heap.size p2 := ⟨_, rfl⟩
    rw [← hp3] at L1 L2 L3 L4 L5 L8
    rw [s2] at L2 L3 L4
    have g3 : p3.heap[n]? = some { x with data := ofBytes hb, lNiece := some p.heap.size } := by
      rw [L4 n (by omega) (by omega)]; exact g2
    have o3 : ∀ j, j ≠ n → j < p.heap.size → p3.heap[j]? = p.heap[j]? := by
      intro j hj hl; rw [L4 j (by omega) (by omega)]; exact o2 j hj hl
    -- step 4: the right niece
    obtain ⟨p4, hp4⟩ : ∃ p4, p4 = allocR n p3 := ⟨_, rfl⟩
    have s4 : p4.heap.size = p3.heap.size + 1 := by rw [hp4, allocR_size]
    have g4 : p4.heap[n]? = some { x with data := ofBytes hb, lNiece := some p.heap.size, rNiece := some p3.heap.size } := by
      rw [hp4, allocR_get_self n p3 g3]
    have n4 : p4.heap[p3.heap.size]? = some (freshNiece n) := by
      rw [hp4]; exact allocR_get_new n p3 (by omega)
    have o4 : ∀ j, j ≠ n → j < p3.heap.size → p4.heap[j]? = p3.heap[j]? := by
      intro j hj hl; rw [hp4]; exact allocR_get_other n p3 hj hl
    -- step 5: the right subtree
    obtain ⟨fr, er, xr, R1, R2, R3, R4, R5, R6, R7, R8, R9⟩ :=
      ihr p3.heap.size p4 (freshNiece n) n4 rfl rfl rfl
    obtain ⟨p5, hp5⟩ : ∃ p5, p5 = buildH r p3.heap.size p4 := ⟨_, rfl⟩
    rw [← hp5] at R1 R2 R3 R4 R5 R8
    rw [s4] at R2 R3 R4
    have hfin : buildH (.fork hb lf l r) n p = p5 := by
      rw [hp5, hp4, hp3, hp2, hp1]
      simp only [buildH, fillH_size]
    rw [hfin]
    have g5 : p5.heap[n]? = some { x with data := ofBytes hb, lNiece := some p.heap.size, rNiece := some p3.heap.size } := by
      rw [R4 n (by omega) (by omega)]; exact g4
    have gl5 : p5.heap[p.heap.size]? = some xl := by
      rw [R4 _ (by omega) (by omega), o4 _ (by omega) (by omega)]; exact L5
    have hfl5 : ∀ i ∈ p.heap.size :: fl, p5.heap[i]? = p3.heap[i]? := by
      intro i hi
      have hi' : p.heap.size ≤ i ∧ i < p3.heap.size := by
        simp only [List.mem_cons] at hi
        rcases hi with rfl | hi
        · omega
        · have := L2 i hi; omega
      rw [R4 i (by omega) (by omega), o4 i (by omega) (by omega)]
    refine ⟨p.heap.size :: p3.heap.size :: (fl ++ fr), entH hb lf n ++ (el ++ er), _, ?_, ?_, ?_, ?_, g5, rfl, ?_, ?_, ?_⟩
    · exact LShape.fork g5 rfl rfl rfl h3 gl5 R5 L6 R6 (L1.frame hfl5) R1
    · intro i hi
      simp only [List.mem_cons, List.mem_append] at hi
      rcases hi with rfl | rfl | hi | hi
      · omega
      · omega
      · have := L2 i hi; omega
      · have := R2 i hi; omega
    · simp only [List.length_cons, List.length_append]; omega
    · intro j hj hjn
      rw [R4 j (by omega) (by omega), o4 j hjn (by omega)]
      exact o3 j hjn hj
    · simp only [List.nodup_cons, List.mem_cons, List.mem_append, not_or, List.nodup_append]
      refine ⟨⟨by omega, ?_, ?_⟩, ⟨?_, ?_⟩, L7, R7, ?_⟩
      · intro h; have := L2 _ h; omega
      · intro h; have := R2 _ h; omega
      · intro h; have := L2 _ h; omega
      · intro h; have := R2 _ h; omega
      · intro a ha b hb hab
        have := L2 a ha
        have := R2 b hb
        omega
    · rw [R8, hp4]
      show mapSetAll p3.nodeMap er = _
      rw [L8, hp2]
      show mapSetAll (mapSetAll p1.nodeMap el) er = _
      rw [hp1, fillH_nodeMap, mapSetAll_append, mapSetAll_append]
    · intro e he
      simp only [List.mem_append] at he
      rcases he with he | he | he
      · unfold entH at he
        split at he
        · simp at he; subst he; exact Or.inl rfl
        · cases he
      · rcases L9 e he with h | h
        · right; simp [h]
        · right; simp [h]
      · rcases R9 e he with h | h
        · right; simp [h]
        · right; simp [h]

/-! ### the roots -/

/-- the roots `rs` (no aunt) carry the record trees `ts`; `owned` = every node, `ents` = every
`NodeMap` insertion, in stream order -/
inductive LRoots (hp : Heap H) : List Nat → List LNode → List Nat → List (H × Nat) → Prop
  | nil : LRoots hp [] [] [] []
  | cons {r : Nat} {rn : PolNode H} {t : LNode} {fp : List Nat} {e : List (H × Nat)} {rs : List Nat}
      {ts : List LNode} {owned : List Nat} {es : List (H × Nat)} :
      hp[r]? = some rn → rn.aunt = none → LShape hp r t fp e → LRoots hp rs ts owned es →
      LRoots hp (r :: rs) (t :: ts) (r :: fp ++ owned) (e ++ es)

theorem allocRoot_size (p : Pollard H) : (allocRoot p).heap.size = p.heap.size + 1 := by
  simp [allocRoot]

theorem allocRoot_get_new (p : Pollard H) :
    (allocRoot p).heap[p.heap.size]? = some ({ data := zero } : PolNode H) := by
  simp [allocRoot]

theorem allocRoot_get_old (p : Pollard H) {j : Nat} (hj : j < p.heap.size) :
    (allocRoot p).heap[j]? = p.heap[j]? := by
  simp only [allocRoot]
  rw [Array.getElem?_push]
  simp [Nat.ne_of_lt hj]

theorem buildRoots_rest : ∀ (ts : List LNode) (p : Pollard H),
    (buildRoots ts p).numLeaves = p.numLeaves ∧ (buildRoots ts p).numDels = p.numDels ∧
    (buildRoots ts p).full = p.full := by
  intro ts
  induction ts with
  | nil => intro p; exact ⟨rfl, rfl, rfl⟩
  | cons t ts ih =>
    intro p
    simp only [buildRoots]
    obtain ⟨a1, a2, a3⟩ := ih (buildH t p.heap.size (allocRoot p))
    obtain ⟨_, b1, b2, b3⟩ := buildH_rest t p.heap.size (allocRoot p)
    exact ⟨a1.trans b1, a2.trans b2, a3.trans b3⟩

/-- **what the root loop builds** -/
theorem buildRoots_spec : ∀ (ts : List LNode) (p : Pollard H),
    ∃ rs owned ents,
      (buildRoots ts p).roots = p.roots ++ rs ∧
      LRoots (buildRoots ts p).heap rs ts owned ents ∧
      (∀ i ∈ owned, p.heap.size ≤ i ∧ i < (buildRoots ts p).heap.size) ∧
      (buildRoots ts p).heap.size = p.heap.size + owned.length ∧
      (∀ j, j < p.heap.size → (buildRoots ts p).heap[j]? = p.heap[j]?) ∧
      owned.Nodup ∧
      (buildRoots ts p).nodeMap = mapSetAll p.nodeMap ents ∧
      (∀ e ∈ ents, e.2 ∈ owned) := by
  intro ts
  induction ts with
  | nil =>
    intro p
    exact ⟨[], [], [], by simp [buildRoots], LRoots.nil, by simp, by simp [buildRoots],
      fun _ _ => rfl, by simp, rfl, by simp⟩
  | cons t ts ih =>
    intro p
    obtain ⟨p1, hp1⟩ : ∃ p1, p1 = allocRoot p := ⟨_, rfl⟩
    have s1 : p1.heap.size = p.heap.size + 1 := by rw [hp1, allocRoot_size]
    have n1 : p1.heap[p.heap.size]? = some ({ data := zero } : PolNode H) := by
      rw [hp1]; exact allocRoot_get_new p
    obtain ⟨fp, e, x', B1, B2, B3, B4, B5, B6, B7, B8, B9⟩ :=
      buildH_spec t p.heap.size p1 _ n1 rfl rfl rfl
    obtain ⟨_, _, _, _⟩ := buildH_rest t p.heap.size p1
    obtain ⟨p2, hp2⟩ : ∃ p2, p2 = buildH t p.heap.size p1 := ⟨_, rfl⟩
    have hroots2 : p2.roots = p.roots ++ [p.heap.size] := by
      rw [hp2, (buildH_rest t p.heap.size p1).1, hp1]; rfl
    rw [← hp2] at B1 B2 B3 B4 B5 B8
    rw [s1] at B2 B3 B4
    obtain ⟨rs, owned, es, R1, R2, R3, R4, R5, R6, R7, R8⟩ := ih p2
    have hfin : buildRoots (t :: ts) p = buildRoots ts p2 := by
      rw [hp2, hp1]; rfl
    rw [hfin]
    refine ⟨p.heap.size :: rs, p.heap.size :: fp ++ owned, e ++ es, ?_, ?_, ?_, ?_, ?_, ?_, ?_, ?_⟩
    · rw [R1, hroots2]; simp
    · have hroot : (buildRoots ts p2).heap[p.heap.size]? = some x' := by
        rw [R5 p.heap.size (by omega)]; exact B5
      refine LRoots.cons hroot B6 (B1.frame ?_) R2
      intro i hi
      apply R5
      simp only [List.mem_cons] at hi
      rcases hi with rfl | hi
      · omega
      · exact (B2 i hi).2
    · intro i hi
      simp only [List.cons_append, List.mem_cons, List.mem_append] at hi
      rcases hi with rfl | hi | hi
      · omega
      · have := B2 i hi; omega
      · have := R3 i hi; omega
    · simp only [List.cons_append, List.length_cons, List.length_append]; omega
    · intro j hj
      rw [R5 j (by omega), B4 j (by omega) (by omega), hp1, allocRoot_get_old p hj]
    · simp only [List.cons_append, List.nodup_cons, List.mem_append, not_or, List.nodup_append]
      refine ⟨⟨?_, ?_⟩, B7, R6, ?_⟩
      · intro h; have := B2 _ h; omega
      · intro h; have := R3 _ h; omega
      · intro a ha b hb hab
        have := B2 a ha
        have := R3 b hb
        omega
    · rw [R7, B8, hp1, mapSetAll_append]; rfl
    · intro e' he
      simp only [List.mem_append] at he
      simp only [List.cons_append, List.mem_cons, List.mem_append]
      rcases he with he | he
      · rcases B9 e' he with h | h
        · exact Or.inl h
        · exact Or.inr (Or.inl h)
      · exact Or.inr (Or.inr (R8 e' he))

end UtreexoVerif.Proofs.PollardHeapSerial
