/-
  The model of mappollard.go respects `Equiv` — part 3: `Prove`, `Ingest`, `Verify`,
  `VerifyPartialProof`, `GetMissingPositions`, `Prune`, the look-ups; and the summary `sim_all`.
  See `Proofs/MapSim.lean`.
-/
import UtreexoVerif.Proofs.MapSimUndo

namespace UtreexoVerif.Proofs.MapSim
open UtreexoVerif Model Proofs MapAL Hasher Proofs.SerialMapInv
set_option linter.unusedSectionVars false
set_option linter.unusedVariables false

variable {H : Type} [DecidableEq H] [Hasher H]

/-! ### pure queries -/

theorem equiv_getNode_fn {m m' : MapPollard H} (h : Equiv m m') : m.getNode = m'.getNode := funext h.node
theorem equiv_getCached_fn {m m' : MapPollard H} (h : Equiv m m') : m.getCached = m'.getCached := funext h.cache
theorem equiv_hasNode_fn {m m' : MapPollard H} (h : Equiv m m') : m.hasNode = m'.hasNode := funext h.hasNode

/-- **`Prove` respects `Equiv`**: the same proof or the same refusal, for EVERY request -/
theorem equiv_prove {m m' : MapPollard H} (h : Equiv m m') (L : List H) : m.prove L = m'.prove L := by
  unfold MapPollard.prove
  simp only [equiv_allCached h, h.cache, h.node, h.numLeaves, h.totalRows]

theorem equiv_getHash {m m' : MapPollard H} (h : Equiv m m') (pos : U64) : m.getHash pos = m'.getHash pos := by
  unfold MapPollard.getHash
  simp only [h.totalRows, h.numLeaves, h.getNodeD]

theorem equiv_getLeafPosition {m m' : MapPollard H} (h : Equiv m m') (x : H) :
    m.getLeafPosition x = m'.getLeafPosition x := by
  unfold MapPollard.getLeafPosition
  simp only [h.totalRows, h.numLeaves, h.cache]

theorem equiv_roots {m m' : MapPollard H} (h : Equiv m m') : m.roots = m'.roots := by
  unfold MapPollard.roots; rw [equiv_getRoots h]

theorem equiv_getMissingPositions {m m' : MapPollard H} (h : Equiv m m') (ts : List U64) :
    m.getMissingPositions ts = m'.getMissingPositions ts := by
  unfold MapPollard.getMissingPositions
  simp only [h.totalRows, h.numLeaves, h.hasNode]

/-! ### `Ingest`, `Verify` -/

theorem sim_ingest_store (proofHashes : List H) : ∀ (ps : List U64) (i : Nat) {m m' : MapPollard H}, Equiv m m' →
    SimR (MapPollard.ingest.store proofHashes ps i m) (MapPollard.ingest.store proofHashes ps i m')
  | [], _, _, _, h => SimR.mk_ok h _
  | pos :: ps, i, m, m', h => by
    simp only [MapPollard.ingest.store, h.hasNode, h.full]
    apply SimR.ite
    · intro _; exact sim_ingest_store proofHashes ps _ h
    · intro _
      split
      · exact sim_ingest_store proofHashes ps _ (h.putNode _ _)
      · exact SimR.mk_err h _

theorem sim_ingest_tail {X X' : MapPollard H} (hX : Equiv X X') (proofHashes delHashes : List H) (pp targets : List U64)
    (tr : U8) (isT : U64 → Bool) :
    SimR
      (match MapPollard.ingest.store proofHashes pp 0 X with
      | (m, .error e) => (m, .error e)
      | (m, .ok ()) =>
        match calculateHashes m.numLeaves (some delHashes) targets proofHashes with
        | .err => (m, .error .err)
        | .panic => (m, .error .panic)
        | .hang => (m, .error .hang)
        | .ok r =>
          (MapPollard.putCalculated isT
            (if m.totalRows ≠ tr then sortHP (r.nodes.map (fun x => (translatePos x.fst tr m.totalRows, x.snd)))
              else r.nodes) m, (.ok () : Except Fail Unit)))
      (match MapPollard.ingest.store proofHashes pp 0 X' with
      | (m, .error e) => (m, .error e)
      | (m, .ok ()) =>
        match calculateHashes m.numLeaves (some delHashes) targets proofHashes with
        | .err => (m, .error .err)
        | .panic => (m, .error .panic)
        | .hang => (m, .error .hang)
        | .ok r =>
          (MapPollard.putCalculated isT
            (if m.totalRows ≠ tr then sortHP (r.nodes.map (fun x => (translatePos x.fst tr m.totalRows, x.snd)))
              else r.nodes) m, (.ok () : Except Fail Unit))) := by
  sim_bindU (sim_ingest_store proofHashes pp 0 hX) with m2 m2' h2
  rw [h2.numLeaves, h2.totalRows]
  split
  · exact SimR.mk_err h2 _
  · exact SimR.mk_err h2 _
  · exact SimR.mk_err h2 _
  · exact SimR.mk_ok (sim_putCalculated _ _ h2) _

/-- **`Ingest` respects `Equiv`** -/
theorem sim_ingest {m m' : MapPollard H} (h : Equiv m m') (delHashes : List H) (targets : List U64)
    (proofHashes : List H) :
    SimR (MapPollard.ingest delHashes targets proofHashes m) (MapPollard.ingest delHashes targets proofHashes m') := by
  unfold MapPollard.ingest
  cases toHashAndPos targets delHashes with
  | panic => exact SimR.mk_err h _
  | err => exact SimR.mk_err h _
  | hang => exact SimR.mk_err h _
  | ok hnp =>
    simp only [h.numLeaves, h.totalRows]
    exact sim_ingest_tail h _ _ _ _ _ _

/-- **`Verify` respects `Equiv`** (with or without `remember`) -/
theorem sim_verifyM {m m' : MapPollard H} (h : Equiv m m') (delHashes : List H) (targets : List U64)
    (proofHashes : List H) (remember : Bool) :
    SimR (MapPollard.verifyM delHashes targets proofHashes remember m)
      (MapPollard.verifyM delHashes targets proofHashes remember m') := by
  unfold MapPollard.verifyM
  simp only [h.numLeaves, h.totalRows, equiv_getRoots h]
  split
  · exact SimR.mk_err h _
  · exact SimR.mk_err h _
  · exact SimR.mk_err h _
  · apply SimR.ite
    · intro _
      have hi := sim_ingest h delHashes
        (if TreeRows m'.numLeaves ≠ m'.totalRows then translatePositions targets m'.totalRows (TreeRows m'.numLeaves)
          else targets) proofHashes
      rcases hi.casesU with ⟨m1, m1', e, e1, e2, hs⟩ | ⟨m1, m1', e1, e2, hs⟩
      · rw [e1, e2]
        cases e with
        | err => exact SimR.mk_ok hs _
        | panic => exact SimR.mk_err hs _
        | hang => exact SimR.mk_err hs _
      · rw [e1, e2]; exact SimR.mk_ok hs _
    · intro _; exact SimR.mk_ok h _

theorem equiv_merge {m m' : MapPollard H} (h : Equiv m m') : ∀ (ps : List U64) (supplied acc : List H),
    MapPollard.verifyPartialProof.merge m ps supplied acc = MapPollard.verifyPartialProof.merge m' ps supplied acc
  | [], _, _ => rfl
  | pos :: ps, supplied, acc => by
    simp only [MapPollard.verifyPartialProof.merge, h.getNodeD]
    split
    · split
      · exact equiv_merge h ps _ _
      · rfl
    · exact equiv_merge h ps _ _

/-- **`VerifyPartialProof` respects `Equiv`** -/
theorem sim_verifyPartialProof {m m' : MapPollard H} (h : Equiv m m') (origTargets : List U64)
    (delHashes proofHashes : List H) (remember : Bool) :
    SimR (MapPollard.verifyPartialProof origTargets delHashes proofHashes remember m)
      (MapPollard.verifyPartialProof origTargets delHashes proofHashes remember m') := by
  unfold MapPollard.verifyPartialProof
  simp only [h.numLeaves, h.totalRows, equiv_merge h]
  split
  · exact SimR.mk_err h _
  · exact sim_verifyM h _ _ _ _

/-! ### `Prune` -/

theorem sim_pruneOne {m m' : MapPollard H} (h : Equiv m m') (x : H) :
    SimR (MapPollard.pruneOne x m) (MapPollard.pruneOne x m') := by
  unfold MapPollard.pruneOne
  rw [h.cache]
  cases m'.getCached x with
  | none => exact SimR.mk_ok h _
  | some pos =>
    dsimp only
    have h1 := h.delCached x
    rw [h1.node]
    cases (m'.delCached x).getNode pos with
    | none => exact SimR.mk_err h1 _
    | some leaf =>
      dsimp only
      have h2 := h1.putNode pos ⟨leaf.hash, false⟩
      rw [h2.totalRows, h2.numLeaves]
      exact SimR.mk_ok (sim_pruneUp _ _ h2) _

theorem sim_prune_go : ∀ (hs : List H) {m m' : MapPollard H}, Equiv m m' →
    SimR (MapPollard.prune.go hs m) (MapPollard.prune.go hs m')
  | [], _, _, h => SimR.mk_ok h _
  | x :: hs, m, m', h => by
    simp only [MapPollard.prune.go]
    sim_bindU (sim_pruneOne h x) with m1 m1' h1
    exact sim_prune_go hs h1

/-- **`Prune` respects `Equiv`** -/
theorem sim_prune {m m' : MapPollard H} (h : Equiv m m') (hashes : List H) :
    SimR (MapPollard.prune hashes m) (MapPollard.prune hashes m') := by
  unfold MapPollard.prune
  rw [h.full]
  apply SimR.ite
  · intro _; exact SimR.mk_ok h _
  · intro _; exact sim_prune_go hashes h

/-! ### summary: every call and every observation -/

/-- a call of the state-changing API of `MapPollard`, with ARBITRARY arguments (honest or not) -/
inductive Call (H : Type) where
  | modify (adds : List (Leaf H)) (delHashes : List H) (targets : List U64)
  | verify (delHashes : List H) (targets : List U64) (proofHashes : List H) (remember : Bool)
  | verifyPartial (targets : List U64) (delHashes proofHashes : List H) (remember : Bool)
  | ingest (delHashes : List H) (targets : List U64) (proofHashes : List H)
  | prune (hashes : List H)
  | undo (nonZero : H) (numAdds : U64) (targets : List U64) (proofHashes hashes origPrevRoots : List H)

/-- the model of the call -/
def Call.run : Call H → MPM H Unit
  | .modify adds dels tgts => MapPollard.modify adds dels tgts
  | .verify dels tgts ps remember => MapPollard.verifyM dels tgts ps remember
  | .verifyPartial tgts dels ps remember => MapPollard.verifyPartialProof tgts dels ps remember
  | .ingest dels tgts ps => MapPollard.ingest dels tgts ps
  | .prune hs => MapPollard.prune hs
  | .undo nonZero numAdds tgts ps hs roots => MapPollard.undo nonZero numAdds tgts ps hs roots

/-- **every call respects `Equiv`**: the same verdict (ok / error / panic / hang) and equivalent states
left behind — also by a call that fails half-way -/
theorem sim_call {m m' : MapPollard H} (h : Equiv m m') (c : Call H) : SimR (c.run m) (c.run m') := by
  cases c with
  | modify adds dels tgts => exact sim_modify h adds dels tgts
  | verify dels tgts ps remember => exact sim_verifyM h dels tgts ps remember
  | verifyPartial tgts dels ps remember => exact sim_verifyPartialProof h tgts dels ps remember
  | ingest dels tgts ps => exact sim_ingest h dels tgts ps
  | prune hs => exact sim_prune h hs
  | undo nonZero numAdds tgts ps hs roots => exact sim_undo h nonZero numAdds tgts ps hs roots

/-- everything the read-only API shows of a state: `GetRoots`, `GetNumLeaves`, `GetTotalRows`-independent
answers of `GetHash` (every position), `GetLeafPosition` (every hash), `Prove` (every request),
`GetMissingPositions` (every target list), and the `Full` flag -/
structure Obs (H : Type) where
  roots : List H
  numLeaves : U64
  totalRows : U8
  full : Bool
  getHash : U64 → H
  getLeafPosition : H → Option U64
  prove : List H → Except Fail (List U64 × List H)
  missing : List U64 → List U64

def observe (m : MapPollard H) : Obs H :=
  ⟨m.roots, m.numLeaves, m.totalRows, m.full, m.getHash, m.getLeafPosition, m.prove, m.getMissingPositions⟩

/-- **equivalent states are indistinguishable through the read-only API** -/
theorem observe_equiv {m m' : MapPollard H} (h : Equiv m m') : observe m = observe m' := by
  unfold observe
  rw [equiv_roots h, h.numLeaves, h.totalRows, h.full, funext (equiv_getHash h), funext (equiv_getLeafPosition h),
    funext (equiv_prove h), funext (equiv_getMissingPositions h)]

/-- a sequence of calls; after each call: its verdict and everything observable of the state it left
(a failed call does not stop the sequence: the next call runs on the state the failed one left) -/
def trace : List (Call H) → MapPollard H → List (Except Fail Unit × Obs H)
  | [], _ => []
  | c :: cs, m => ((c.run m).2, observe (c.run m).1) :: trace cs (c.run m).1

/-- the state after the sequence -/
def runCalls : List (Call H) → MapPollard H → MapPollard H
  | [], m => m
  | c :: cs, m => runCalls cs (c.run m).1

/-- **equivalent states behave identically for ever**: any sequence of calls with any arguments gives
the same verdicts and the same observations after every call, and ends in equivalent states -/
theorem trace_equiv : ∀ (cs : List (Call H)) {m m' : MapPollard H}, Equiv m m' →
    trace cs m = trace cs m' ∧ Equiv (runCalls cs m) (runCalls cs m')
  | [], _, _, h => ⟨rfl, h⟩
  | c :: cs, m, m', h => by
    obtain ⟨h1, h2⟩ := sim_call h c
    obtain ⟨ih1, ih2⟩ := trace_equiv cs h2
    exact ⟨by simp only [trace, h1, observe_equiv h2, ih1], ih2⟩

end UtreexoVerif.Proofs.MapSim
