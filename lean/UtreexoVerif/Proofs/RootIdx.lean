/-
  Helper lemmas for `numRoots` / `rootIdxOnRow` / `getLowestRoot` / `subtreeRow` (C16).
-/
import UtreexoVerif.Proofs.DetectOffset

namespace UtreexoVerif.Proofs
open UtreexoVerif UtreexoVerif.GoInt

theorem countP_range_bits (n R : Nat) : ∀ d,
    (List.range d).countP (fun i => n.testBit (R + 1 + i)) = cntBits n R d
  | 0 => rfl
  | d + 1 => by
    rw [List.range_succ, List.countP_append, countP_range_bits n R d, cntBits]
    simp only [List.countP_cons, List.countP_nil, Nat.zero_add]
    rw [show R + 1 + d = R + d + 1 by omega]

theorem cntBits_add_zero {n R d : Nat} (hz : ∀ j, R + d < j → n.testBit j = false) :
    ∀ e, cntBits n R (d + e) = cntBits n R d
  | 0 => rfl
  | e + 1 => by
    rw [show d + (e + 1) = (d + e) + 1 by omega, cntBits, cntBits_add_zero hz e,
      hz (R + (d + e) + 1) (by omega)]
    simp

/-- `OnesCount64 (n >> (R+1))` counts the trees above row `R` -/
theorem onesCount64_shr (n : U64) (R : Nat) :
    onesCount64 (shr n (R + 1)) = ((cntBits n.toNat R 64 : Nat) : Int) := by
  unfold onesCount64
  congr 1
  rw [← countP_range_bits]
  congr 1
  funext i
  rw [shr_eq, BitVec.getLsbD_ushiftRight, ← BitVec.testBit_toNat]

theorem cntBits_le (n R : Nat) : ∀ d, cntBits n R d ≤ d
  | 0 => Nat.le_refl _
  | d + 1 => by
    have := cntBits_le n R d
    rw [cntBits]
    split <;> omega

end UtreexoVerif.Proofs

namespace UtreexoVerif.Proofs
open UtreexoVerif UtreexoVerif.GoInt

/-- number of listed trees = number of set bits -/
theorem treeRowsFrom_length (n : Nat) : ∀ k,
    (Spec.treeRowsFrom k n).length = (List.range (k + 1)).countP (fun i => n.testBit i)
  | 0 => by
    rw [Spec.treeRowsFrom]
    split <;> simp [List.range_succ, *]
  | k + 1 => by
    rw [treeRowsFrom_succ, List.length_append, treeRowsFrom_length n k, List.range_succ (n := k + 1),
      List.countP_append]
    split <;> simp [*] <;> omega

/-! ### the `getLowestRoot` loop -/

theorem H8_le_iff {a b : Nat} (ha : a ≤ 255) (hb : b ≤ 255) : (H8 a ≤ H8 b) ↔ a ≤ b := by
  rw [BitVec.le_def, BitVec.toNat_ofNat, BitVec.toNat_ofNat]
  omega

theorem getLowestRoot_loop_found (n : U64) {h R : Nat} (hh : h ≤ 63) (hR : R ≤ h)
    (hb : n.toNat.testBit R = true) :
    ∀ (d k fuel : Nat), k + d = R → (∀ j, k ≤ j → j < R → n.toNat.testBit j = false) → d < fuel →
      Model.getLowestRoot.loop1 n (H8 h) fuel (H8 k) = .done (H8 R) := by
  intro d
  induction d with
  | zero =>
    intro k fuel hk _ hf
    obtain ⟨f, rfl⟩ : ∃ f, fuel = f + 1 := ⟨fuel - 1, by omega⟩
    have : k = R := by omega
    subst this
    unfold Model.getLowestRoot.loop1
    rw [decide_eq_true ((H8_le_iff (by omega) (by omega)).2 hR), toNat_H8 (by omega),
      rootPresent_eq, hb]
    simp
  | succ d ih =>
    intro k fuel hk hz hf
    obtain ⟨f, rfl⟩ : ∃ f, fuel = f + 1 := ⟨fuel - 1, by omega⟩
    unfold Model.getLowestRoot.loop1
    rw [decide_eq_true ((H8_le_iff (by omega) (by omega)).2 (show k ≤ h by omega)),
      toNat_H8 (by omega), rootPresent_eq, hz k (Nat.le_refl _) (by omega)]
    simp only [if_true, Bool.false_eq_true, if_false]
    rw [H8_add_one]
    exact ih (k + 1) f (by omega) (fun j h1 h2 => hz j (by omega) h2) (by omega)

theorem getLowestRoot_loop_none (n : U64) {h : Nat} (hh : h ≤ 63) :
    ∀ (d k fuel : Nat), k + d = h + 1 → (∀ j, k ≤ j → j ≤ h → n.toNat.testBit j = false) →
      d < fuel → Model.getLowestRoot.loop1 n (H8 h) fuel (H8 k) = .done (H8 (h + 1)) := by
  intro d
  induction d with
  | zero =>
    intro k fuel hk _ hf
    obtain ⟨f, rfl⟩ : ∃ f, fuel = f + 1 := ⟨fuel - 1, by omega⟩
    have : k = h + 1 := by omega
    subst this
    unfold Model.getLowestRoot.loop1
    rw [decide_eq_false (fun hc => by have := (H8_le_iff (by omega) (by omega)).1 hc; omega)]
    simp
  | succ d ih =>
    intro k fuel hk hz hf
    obtain ⟨f, rfl⟩ : ∃ f, fuel = f + 1 := ⟨fuel - 1, by omega⟩
    unfold Model.getLowestRoot.loop1
    rw [decide_eq_true ((H8_le_iff (by omega) (by omega)).2 (show k ≤ h by omega)),
      toNat_H8 (by omega), rootPresent_eq, hz k (Nat.le_refl _) (by omega)]
    simp only [if_true, Bool.false_eq_true, if_false]
    rw [H8_add_one]
    exact ih (k + 1) f (by omega) (fun j h1 h2 => hz j (by omega) h2) (by omega)

/-! ### the `subtreeRow` loop -/

theorem subtreeRow_loop (n : U64) {k : Nat} (hk : k ≤ 255) :
    ∀ (t saw fuel R : Nat), t ≤ 63 → saw ≤ k → (Spec.treeRowsFrom t n.toNat)[k - saw]? = some R →
      t + 1 < fuel →
      ∃ s', Model.subtreeRow.loop1 n (H8 k) fuel (saw : Int) (t : Int) = .done (s', (R : Int)) := by
  intro t
  induction t with
  | zero =>
    intro saw fuel R ht hsaw hget hf
    obtain ⟨f, rfl⟩ : ∃ f, fuel = f + 1 := ⟨fuel - 1, by omega⟩
    rw [Spec.treeRowsFrom] at hget
    by_cases hb : n.toNat.testBit 0 = true
    · rw [if_pos hb] at hget
      have hks : k - saw = 0 := by
        rcases Nat.eq_zero_or_pos (k - saw) with h | h
        · exact h
        · rw [List.getElem?_cons] at hget; simp [Nat.ne_of_gt h] at hget
      have hR : R = 0 := by rw [hks] at hget; simpa using hget.symm
      subst hR
      have hsk : saw = k := by omega
      subst hsk
      unfold Model.subtreeRow.loop1
      have e1 : ofInt 8 ((0 : Nat) : Int) = H8 0 := by unfold ofInt; rw [BitVec.ofInt_natCast]
      have e2 : ofInt 8 ((saw : Nat) : Int) = H8 saw := by unfold ofInt; rw [BitVec.ofInt_natCast]
      rw [e1, e2, rootExistsOnRow_eq, toNat_H8 (by omega), hb]
      simp
    · rw [if_neg hb] at hget; simp at hget
  | succ t ih =>
    intro saw fuel R ht hsaw hget hf
    obtain ⟨f, rfl⟩ : ∃ f, fuel = f + 1 := ⟨fuel - 1, by omega⟩
    have e1 : ofInt 8 ((t + 1 : Nat) : Int) = H8 (t + 1) := by unfold ofInt; rw [BitVec.ofInt_natCast]
    have e2 : ofInt 8 ((saw : Nat) : Int) = H8 saw := by unfold ofInt; rw [BitVec.ofInt_natCast]
    have hge : ((t + 1 : Nat) : Int) ≥ 0 := by omega
    have hsub : ((t + 1 : Nat) : Int) - 1 = ((t : Nat) : Int) := by omega
    rw [treeRowsFrom_succ] at hget
    unfold Model.subtreeRow.loop1
    rw [decide_eq_true hge, e1, e2, rootExistsOnRow_eq, toNat_H8 (by omega)]
    simp only [if_true, hsub]
    by_cases hb : n.toNat.testBit (t + 1) = true
    · rw [if_pos hb] at hget ⊢
      by_cases hks : saw = k
      · subst hks
        rw [Nat.sub_self] at hget
        have hR : R = t + 1 := by simpa using hget.symm
        subst hR
        simp
      · have hne : (H8 k == H8 saw) = false := by
          apply beq_false_of_ne
          intro hc
          have := congrArg BitVec.toNat hc
          rw [BitVec.toNat_ofNat, BitVec.toNat_ofNat] at this
          omega
        rw [hne]
        simp only [Bool.false_eq_true, if_false]
        have hget' : (Spec.treeRowsFrom t n.toNat)[k - (saw + 1)]? = some R := by
          rw [List.singleton_append, show k - saw = (k - (saw + 1)) + 1 by omega,
            List.getElem?_cons_succ] at hget
          exact hget
        have := ih (saw + 1) f R (by omega) (by omega) hget' (by omega)
        rw [show ((saw + 1 : Nat) : Int) = (saw : Int) + 1 by omega] at this
        exact this
    · rw [if_neg hb] at hget ⊢
      rw [List.nil_append] at hget
      exact ih saw f R (by omega) hsaw hget (by omega)

end UtreexoVerif.Proofs
