/-
  Semantics of a block history for property C15 (`genTTLs` is exact): the slot list of the
  accumulator before every block, positions of live slots, the expected contents of the
  tracker.  Definitions only (shared by `SchedLives`, `SchedAdd`, `SchedDel`, `SchedTrack`,
  `SchedExact`).

  A state is a slot list `S : List (Option Nat)` whose live slots carry their own index
  (`Canon`), so that the chunk theory (`Spec.chunkAlive`, `Spec.nodePos`, `Spec.inTree`) and
  the forest theory (`Spec.Forest Nat`, leaves identified by their slot number) both apply.
-/
import UtreexoVerif.Spec.Sched
import UtreexoVerif.Proofs.NewAddSpec
import UtreexoVerif.Proofs.CalcGeo

namespace UtreexoVerif.Proofs.SchedSem
open UtreexoVerif Spec Spec.Sched
open UtreexoVerif.Proofs UtreexoVerif.Proofs.FinalPos UtreexoVerif.Proofs.CalcGeo

/-- slot numbers play the role of leaf hashes; the hash function is never looked at -/
instance (priority := low) instHasherNat : Hasher Nat := ⟨fun _ _ => 0, 0⟩

/-- kill the slots named in `D` (this is `Forest.delLeaves` on slot lists) -/
def kill (S : List (Option Nat)) (D : List Nat) : List (Option Nat) :=
  S.map fun x => match x with
    | some s => if s ∈ D then none else some s
    | none => none

/-- `k` fresh live slots numbered from `n` -/
def fresh (n k : Nat) : List (Option Nat) := (List.range k).map fun i => some (n + i)

/-- the state after the deletions of a block (before its additions) -/
def midS (S : List (Option Nat)) (b : Block) : List (Option Nat) := kill S b.delSlots

/-- one block: delete, then add -/
def stepS (S : List (Option Nat)) (b : Block) : List (Option Nat) :=
  midS S b ++ fresh S.length b.numAdds

/-- the slot list before block `t` (= after block `t - 1`) -/
def stateAt (h : History) (t : Nat) : List (Option Nat) := (h.take t).foldl stepS []

/-- live slots carry their own index -/
def Canon (S : List (Option Nat)) : Prop := ∀ (i x : Nat), S[i]? = some (some x) → x = i

/-- slot `s` is live in `S` -/
def Live (S : List (Option Nat)) (s : Nat) : Prop := S[s]? = some (some s)

/-- the row of the tree of a forest with `n` leaves that contains slot `s` -/
def treeOf (n s : Nat) : Nat :=
  ((treeRows n).find? (fun h => treeStart n h ≤ s && s < treeStart n h + 2 ^ h)).getD 0

/-- position of (the collapsed root of) slot `s` -/
def posS (S : List (Option Nat)) (s : Nat) : Pos := nodePos S (treeOf S.length s) 0 s

/-- the alive flags of a slot list -/
def flags (S : List (Option Nat)) : List Bool := S.map Option.isSome

/-- slot list of a list of alive flags -/
def ofFlags (A : List Bool) : List (Option Nat) :=
  (List.range A.length).map fun i => if A[i]?.getD false then some i else none

/-- 63-row encoding used by the tracker -/
abbrev E63 (p : Pos) : U64 := E 63 p

/-- row `h` carries a dead root of `S` that the addition of `k` leaves merges over -/
def DestroyedRow (S : List (Option Nat)) (k h : Nat) : Prop :=
  S.length.testBit h = true ∧ chunkAlive S h (2 * (S.length / 2 ^ (h + 1))) = false ∧
    (S.length / 2 ^ (h + 1) + 1) * 2 ^ (h + 1) ≤ S.length + k

/-- `td` lists (in any order, once each) the 63-row positions of the dead roots of `S` that
the addition of `k` leaves merges over -/
def TdOK (S : List (Option Nat)) (k : Nat) (td : List U64) : Prop :=
  td.Nodup ∧ ∀ x, x ∈ td ↔ ∃ h, DestroyedRow S k h ∧ x = E63 (h, 2 * (S.length / 2 ^ (h + 1)))

end UtreexoVerif.Proofs.SchedSem
