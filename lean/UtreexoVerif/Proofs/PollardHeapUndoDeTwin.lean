/-
  Pointer forest, heap model, `Undo`, third phase (`undoDels`), first half — part B:
  the loop of `deTwinPolNode` on the heap in lockstep with the position-level loop of `deTwin`
  (`ProofUpdateDeTwin.loop_spec`), and the prefix of `undoDels` up to `deTwinPolNode`
  (`undoDels_prefix_spec`).
-/
import UtreexoVerif.Proofs.PollardHeapUndoDeTwinA
set_option linter.unusedSectionVars false
set_option linter.unusedVariables false
set_option linter.unusedSimpArgs false

namespace UtreexoVerif.Proofs.PollardHeap
open UtreexoVerif UtreexoVerif.GoInt UtreexoVerif.Model UtreexoVerif.Model.PollardHeap UtreexoVerif.Spec Hasher
open UtreexoVerif.Model.PollardAbs UtreexoVerif.Proofs.CalcGeo
open UtreexoVerif.Proofs.Sorted UtreexoVerif.Proofs.ProofUpdateDeTwin
open UtreexoVerif.Proofs.SpecNodes UtreexoVerif.Proofs.SpecSubs UtreexoVerif.Proofs.CalcComplete
open UtreexoVerif.Proofs.FinalPos UtreexoVerif.Proofs.Movement

variable {H : Type} [DecidableEq H] [Hasher H]

/-! ### permutations of item lists -/

theorem pendOwned_perm {a b : List (PItem H)} (h : a.Perm b) : (pendOwned a).Perm (pendOwned b) := by
  unfold pendOwned; exact h.flatMap_right _

theorem pendLeaves_perm {a b : List (PItem H)} (h : a.Perm b) : (pendLeaves a).Perm (pendLeaves b) := by
  unfold pendLeaves; exact h.flatMap_right _

theorem perm_two_middle {α : Type} (pre : List α) (a b : α) (rest : List α) :
    (pre ++ a :: b :: rest).Perm (a :: b :: (pre ++ rest)) :=
  (List.perm_middle).trans ((List.perm_middle).cons a)

/-- **the heap side of a merge step**: the two items `a`, `b` are replaced by their join -/
theorem merge_items {hp : Heap H} {pre rest' : List (PItem H)} {a b : PItem H} (pp : Pos)
    {ln rn : PolNode H}
    (hpend : Pend hp (pre ++ a :: b :: rest')) (hnd : (pendOwned (pre ++ a :: b :: rest')).Nodup)
    (hl : hp[a.nd]? = some ln) (hr : hp[b.nd]? = some rn) (its1 : List (PItem H))
    (hperm : its1.Perm
      ((⟨hp.size, pp, .node a.t b.t, a.nd :: b.nd :: (a.fp ++ b.fp), a.lv ++ b.lv⟩ : PItem H) ::
        (pre ++ rest'))) :
    Pend (joinHeap hp a.nd b.nd ln rn) its1 ∧ (pendOwned its1).Nodup ∧
    (a.nd :: b.nd :: (a.fp ++ b.fp)).Nodup ∧
    (∀ j, j < hp.size → j ∉ pendOwned (pre ++ a :: b :: rest') →
      (joinHeap hp a.nd b.nd ln rn)[j]? = hp[j]?) ∧
    (∀ i, i ∈ pendOwned its1 ↔ i = hp.size ∨ i ∈ pendOwned (pre ++ a :: b :: rest')) ∧
    (∀ e, e ∈ pendLeaves its1 ↔ e ∈ pendLeaves (pre ++ a :: b :: rest')) := by
  have hlt := hpend.lt
  have hA : RootRepr hp a.nd a.t a.fp a.lv := hpend a (by simp)
  have hB : RootRepr hp b.nd b.t b.fp b.lv := hpend b (by simp)
  -- the owned nodes, rearranged
  have p0 := pendOwned_perm (perm_two_middle pre a b rest')
  rw [pendOwned_cons, pendOwned_cons] at p0
  have p1 : (a.nd :: a.fp ++ (b.nd :: b.fp ++ pendOwned (pre ++ rest'))).Perm
      ((a.nd :: b.nd :: (a.fp ++ b.fp)) ++ pendOwned (pre ++ rest')) := by
    simp only [List.cons_append, List.append_assoc]
    exact (List.perm_middle).cons a.nd
  have p2 := p0.trans p1
  have nd2 : ((a.nd :: b.nd :: (a.fp ++ b.fp)) ++ pendOwned (pre ++ rest')).Nodup :=
    p2.nodup_iff.1 hnd
  have mem2 : ∀ i, i ∈ pendOwned (pre ++ a :: b :: rest') ↔
      i ∈ (a.nd :: b.nd :: (a.fp ++ b.fp)) ∨ i ∈ pendOwned (pre ++ rest') := by
    intro i; rw [p2.mem_iff, List.mem_append]
  obtain ⟨ndp, ndO, hdisj⟩ := List.nodup_append.1 nd2
  obtain ⟨hN, hfr⟩ := joinHeap_repr hA hB hl hr ndp
  have q0 := pendOwned_perm hperm
  rw [pendOwned_cons] at q0
  simp only [] at q0
  have mem3 : ∀ i, i ∈ pendOwned its1 ↔ i = hp.size ∨ i ∈ pendOwned (pre ++ a :: b :: rest') := by
    intro i
    rw [q0.mem_iff, mem2]
    simp only [List.cons_append, List.mem_cons, List.mem_append]
    grind
  have frame : ∀ i, i ∈ pendOwned (pre ++ rest') → (joinHeap hp a.nd b.nd ln rn)[i]? = hp[i]? := by
    intro i hi
    have hn : i ∉ a.nd :: b.nd :: (a.fp ++ b.fp) := fun h => hdisj i h i hi rfl
    simp only [List.mem_cons, List.mem_append, not_or] at hn
    have := hlt i ((mem2 i).2 (Or.inr hi))
    exact hfr i hn.1 hn.2.1 hn.2.2.1 hn.2.2.2 (by omega)
  refine ⟨?_, ?_, ndp, ?_, mem3, ?_⟩
  · intro it hit
    rcases List.mem_cons.1 (hperm.mem_iff.1 hit) with rfl | hit'
    · exact hN
    · have hR : ReprRoot hp it.nd (some it.t) it.fp it.lv := hpend it (by
        rcases List.mem_append.1 hit' with h | h
        · exact List.mem_append_left _ h
        · exact List.mem_append_right _ (List.mem_cons_of_mem _ (List.mem_cons_of_mem _ h)))
      have := hR.frame (hp' := joinHeap hp a.nd b.nd ln rn) (by
        intro i hi
        apply frame
        unfold pendOwned
        rw [List.mem_flatMap]
        exact ⟨it, hit', hi⟩)
      exact this
  · rw [q0.nodup_iff]
    have : (hp.size :: ((a.nd :: b.nd :: (a.fp ++ b.fp)) ++ pendOwned (pre ++ rest'))).Nodup := by
      rw [List.nodup_cons]
      refine ⟨fun h => ?_, nd2⟩
      have := hlt _ (p2.mem_iff.2 h)
      omega
    simpa using this
  · intro j hj hjn
    rw [mem2] at hjn
    simp only [List.mem_cons, List.mem_append, not_or] at hjn
    exact hfr j hjn.1.1 hjn.1.2.1 hjn.1.2.2.1 hjn.1.2.2.2 (by omega)
  · intro e
    rw [(pendLeaves_perm hperm).mem_iff, (pendLeaves_perm (perm_two_middle pre a b rest')).mem_iff]
    simp only [pendLeaves_cons, List.mem_append]
    constructor
    · rintro ((h | h) | h)
      · exact Or.inl h
      · exact Or.inr (Or.inl h)
      · exact Or.inr (Or.inr h)
    · rintro (h | h | h)
      · exact Or.inl (Or.inl h)
      · exact Or.inl (Or.inr h)
      · exact Or.inr h

/-! ### positions of a list of items after a sorted insertion -/

theorem insertBy_pos {rows : Nat} (hr : rows ≤ 63) (N : PItem H) (hN : Valid rows N.pos) :
    ∀ (l : List (PItem H)), (∀ q ∈ l.map (·.pos), Valid rows q) → N.pos ∉ l.map (·.pos) →
      (insertBy (fun it : PItem H => E rows it.pos) N l).map (·.pos) =
        Forest.insertSorted N.pos (l.map (·.pos)) := by
  intro l
  induction l with
  | nil => intro _ _; rfl
  | cons y ys ih =>
    intro hv hn
    have hy : Valid rows y.pos := hv _ (by simp)
    simp only [List.map_cons, insertBy, Forest.insertSorted]
    by_cases h : Forest.posLt N.pos y.pos = true
    · rw [if_pos ((E_gt_iff hr hN hy).2 h), if_pos h]
      rfl
    · rw [if_neg (fun h' => h ((E_gt_iff hr hN hy).1 h')), if_neg h]
      have hne : ¬ (N.pos == y.pos) = true := by
        rw [beq_iff_eq]
        intro e
        exact hn (by simp [e])
      rw [if_neg hne, List.map_cons,
        ih (fun x hx => hv x (by simp only [List.map_cons, List.mem_cons]; exact Or.inr hx))
          (fun hx => hn (by simp only [List.map_cons, List.mem_cons]; exact Or.inr hx))]

/-! ### the loop -/

/-- what the loop of `deTwinPolNode`, started on the items `its` in the heap `hp`, returns -/
def DTPost (F : Forest H) (D : List H) (nm : List (H × Nat)) (rs : List Nat) (nl ndl : U64)
    (full : Bool) (hp : Heap H) (its : List (PItem H)) (res : Out (List NP) × Pollard H) : Prop :=
  ∃ (hp' : Heap H) (its' : List (PItem H)),
    res = (.ok (its'.map (PItem.np F.rows)), ⟨hp', nm, rs, nl, ndl, full⟩) ∧
    Inv F D (its'.map (·.pos)) ∧ (∀ x ∈ its'.map (·.pos), sib x ∉ its'.map (·.pos)) ∧
    Pend hp' its' ∧ (pendOwned its').Nodup ∧ (∀ it ∈ its', ∃ R, SubAtT F R it.pos it.t) ∧
    hp.size ≤ hp'.size ∧
    (∀ j, j < hp.size → j ∉ pendOwned its → hp'[j]? = hp[j]?) ∧
    (∀ i ∈ pendOwned its', i ∈ pendOwned its ∨ hp.size ≤ i) ∧
    (∀ e, e ∈ pendLeaves its' ↔ e ∈ pendLeaves its)

theorem DTPost.step {F : Forest H} {D : List H} {nm : List (H × Nat)} {rs : List Nat} {nl ndl : U64}
    {full : Bool} {hp hp1 : Heap H} {its its1 : List (PItem H)} {res : Out (List NP) × Pollard H}
    (h : DTPost F D nm rs nl ndl full hp1 its1 res) (hsz : hp.size ≤ hp1.size)
    (hfr : ∀ j, j < hp.size → j ∉ pendOwned its → hp1[j]? = hp[j]?)
    (hown : ∀ i ∈ pendOwned its1, i ∈ pendOwned its ∨ hp.size ≤ i)
    (hlv : ∀ e, e ∈ pendLeaves its1 ↔ e ∈ pendLeaves its) :
    DTPost F D nm rs nl ndl full hp its res := by
  obtain ⟨hp', its', e, h1, h2, h3, h4, h5, h6, h7, h8, h9⟩ := h
  refine ⟨hp', its', e, h1, h2, h3, h4, h5, by omega, ?_, ?_, ?_⟩
  · intro j hj hjn
    rw [h7 j (by omega) (fun hc => by rcases hown j hc with h | h; exact hjn h; omega), hfr j hj hjn]
  · intro i hi
    rcases h8 i hi with h | h
    · exact hown i h
    · exact Or.inr (by omega)
  · intro e'
    rw [h9, hlv]

theorem mem_two_drop {α : Type} {pre rest : List α} {a b x : α} (h : x ∈ pre ++ rest) :
    x ∈ pre ++ a :: b :: rest := by
  rcases List.mem_append.1 h with h | h
  · exact List.mem_append_left _ h
  · exact List.mem_append_right _ (List.mem_cons_of_mem _ (List.mem_cons_of_mem _ h))

/-- **the loop of `deTwinPolNode`** in lockstep with the position-level loop of `deTwin`
(`ProofUpdateDeTwin.loop_spec`) -/
theorem deTwinPolNodeLoop_post {F : Forest H} {D : List H} (hr : F.rows ≤ 63)
    (nm : List (H × Nat)) (rs : List Nat) (nl ndl : U64) (full : Bool) :
    ∀ (fuel : Nat) (pre rest : List (PItem H)) (hp : Heap H),
      Inv F D ((pre ++ rest).map (·.pos)) →
      (∀ x ∈ pre.map (·.pos), sib x ∉ (pre ++ rest).map (·.pos)) → rest.length + 1 ≤ fuel →
      Pend hp (pre ++ rest) → (pendOwned (pre ++ rest)).Nodup →
      (∀ it ∈ pre ++ rest, ∃ R, SubAtT F R it.pos it.t) →
      DTPost F D nm rs nl ndl full hp (pre ++ rest)
        (deTwinPolNodeLoop (H8 F.rows) fuel pre.length ((pre ++ rest).map (PItem.np F.rows))
          ⟨hp, nm, rs, nl, ndl, full⟩) := by
  intro fuel
  induction fuel with
  | zero => intro pre rest hp _ _ hf; omega
  | succ f ih =>
    intro pre rest hp inv ns hf hpend hnd hsub
    match rest, inv, ns, hf, hpend, hnd, hsub with
    | [], inv, ns, _, hpend, hnd, hsub =>
      refine ⟨hp, pre ++ [], deTwinPolNodeLoop_end (map_getElem?_at_none _ _) _, inv, ?_, hpend,
        hnd, hsub, Nat.le_refl _, fun _ _ _ => rfl, fun i hi => Or.inl hi, fun e => Iff.rfl⟩
      intro x hx
      exact ns x (by simpa using hx)
    | [a], inv, ns, hf, hpend, hnd, hsub =>
      have e : pre ++ [a] = (pre ++ [a]) ++ [] := (List.append_nil _).symm
      have elen : pre.length + 1 = (pre ++ [a]).length := by simp
      have ns' : ∀ x ∈ (pre ++ [a]).map (fun it : PItem H => it.pos),
          sib x ∉ ((pre ++ [a]) ++ []).map (fun it : PItem H => it.pos) := by
        rw [← e]
        intro x hx hs
        simp only [List.map_append, List.map_cons, List.map_nil, List.mem_append,
          List.mem_singleton] at hx hs
        rcases hx with hx | hx
        · exact ns x hx (by simp only [List.map_append, List.map_cons, List.map_nil,
            List.mem_append, List.mem_singleton]; exact hs)
        · subst hx
          rcases hs with hs | hs
          · have := ns _ hs
            rw [sib_sib] at this
            exact this (by simp)
          · exact sib_ne _ hs
      have := ih (pre ++ [a]) [] hp (e ▸ inv) ns' (by simp only [List.length_nil]; simp only [List.length_cons] at hf; omega)
        (e ▸ hpend) (e ▸ hnd) (e ▸ hsub)
      rw [deTwinPolNodeLoop_last (map_getElem?_at _ _ _ _) (map_getElem?_at_succ_none _ _ _), elen, e]
      rw [← e] at this ⊢
      exact this
    | a :: b :: rest', inv, ns, hf, hpend, hnd, hsub =>
      obtain ⟨L, pa, tL, fL, lL⟩ := a
      obtain ⟨Rr, pb, tR, fR, lR⟩ := b
      have hvalid : ∀ it ∈ pre ++ ⟨L, pa, tL, fL, lL⟩ :: ⟨Rr, pb, tR, fR, lR⟩ :: rest',
          Valid F.rows it.pos := fun it hit => inv.valid (List.mem_map_of_mem hit)
      have e0 : (pre ++ (⟨L, pa, tL, fL, lL⟩ : PItem H) :: ⟨Rr, pb, tR, fR, lR⟩ :: rest').map (·.pos) =
          pre.map (·.pos) ++ pa :: pb :: rest'.map (·.pos) := by simp
      have inv0 := inv
      have ns0 := ns
      rw [e0] at inv ns
      have ha : pa ∈ pre.map (·.pos) ++ pa :: pb :: rest'.map (·.pos) := by simp
      have hb : pb ∈ pre.map (·.pos) ++ pa :: pb :: rest'.map (·.pos) := by simp
      have va := inv.valid ha
      have vb := inv.valid hb
      have hso := inv.sorted
      rw [List.pairwise_append, List.pairwise_cons, List.pairwise_cons] at hso
      obtain ⟨sPre, ⟨hA, hB, sRest⟩, hPR⟩ := hso
      have hlt : Sorted.PLt pa pb := hA pb (by simp)
      cases htest : (rightSib (E F.rows pa) == E F.rows pb) with
      | true =>
        obtain ⟨hev, hbs⟩ := (twinTest_E hr va vb hlt).1 htest
        subst hbs
        have hrow := row_lt_of_PLt vb hlt
        have vP := parent_valid va hrow
        have hrowP : ∀ x, Sorted.PLt x pa → (sib x).1 < (Spec.parent pa).1 := by
          intro x hx
          simp only [sib, Spec.parent]
          rcases hx with h | ⟨h, _⟩ <;> omega
        -- the trees
        obtain ⟨RL, sL⟩ := hsub ⟨L, pa, tL, fL, lL⟩ (by simp)
        obtain ⟨RR, sR⟩ := hsub ⟨Rr, sib pa, tR, fR, lR⟩ (by simp)
        simp only [] at sL sR
        have hroot : isRootPos F.numLeaves pa = false := by
          cases h : isRootPos F.numLeaves pa with
          | false => rfl
          | true => exact (sib_root_not_inF h sR.inF (sib_sib pa)).elim
        obtain ⟨_, s', hpar, hsib⟩ := sL.parent hroot
        have es' : tR = s' := (hsib.unique sR).2.symm
        subst es'
        rw [if_pos hev] at hpar
        -- the parent is not in the list
        have hPnot : Spec.parent pa ∉ pre.map (·.pos) ++ pa :: sib pa :: rest'.map (·.pos) := by
          intro hP
          obtain ⟨x, hx⟩ := List.exists_mem_of_ne_nil _ (CTree.leaves_ne_nil tL)
          have := inv.disj _ hP pa ha _ _ _ _ x hpar sL (by simp [CTree.leaves, hx]) hx
          have := congrArg Prod.fst this
          simp [Spec.parent] at this
        have hPnot' : Spec.parent pa ∉ pre.map (·.pos) ++ rest'.map (·.pos) :=
          fun h => hPnot (mem_two_drop h)
        have hsort' : (pre.map (·.pos) ++ rest'.map (·.pos)).Pairwise Sorted.PLt := by
          rw [List.pairwise_append]
          exact ⟨sPre, sRest, fun x hx y hy => hPR x hx y (by simp [hy])⟩
        have hmem : ∀ x, x ∈ Forest.insertSorted (Spec.parent pa) (pre.map (·.pos) ++ rest'.map (·.pos)) ↔
            x = Spec.parent pa ∨ (x ∈ pre.map (·.pos) ++ pa :: sib pa :: rest'.map (·.pos) ∧
              x ≠ pa ∧ x ≠ sib pa) := by
          intro x
          rw [mem_insertSorted]
          have hna : ∀ x ∈ pre.map (·.pos) ++ rest'.map (·.pos), x ≠ pa ∧ x ≠ sib pa := by
            intro x hx
            rcases List.mem_append.1 hx with hx | hx
            · exact ⟨Sorted.PLt.ne (hPR x hx pa (by simp)), Sorted.PLt.ne (hPR x hx _ (by simp))⟩
            · exact ⟨(Sorted.PLt.ne (hA x (by simp [hx]))).symm, (Sorted.PLt.ne (hB x hx)).symm⟩
          constructor
          · rintro (h | h)
            · exact Or.inl h
            · exact Or.inr ⟨mem_two_drop h, hna x h⟩
          · rintro (h | ⟨h, n1, n2⟩)
            · exact Or.inl h
            · right
              rcases List.mem_append.1 h with h | h
              · exact List.mem_append_left _ h
              · simp only [List.mem_cons] at h
                rcases h with h | h | h
                · exact absurd h n1
                · exact absurd h n2
                · exact List.mem_append_right _ h
        have inv' : Inv F D (Forest.insertSorted (Spec.parent pa) (pre.map (·.pos) ++ rest'.map (·.pos))) :=
          inv.merge ha hb (insertSorted_sorted _ _ hsort') hmem
        have hpreP : ∀ x ∈ pre.map (·.pos), Sorted.PLt x (Spec.parent pa) :=
          fun x hx => Sorted.PLt.trans _ _ _ (hPR x hx pa (by simp)) (lt_parent pa)
        have eins := insertSorted_append (pre.map (·.pos)) (rest'.map (·.pos)) hpreP
        rw [eins] at inv'
        have ns' : ∀ x ∈ pre.map (·.pos),
            sib x ∉ pre.map (·.pos) ++ Forest.insertSorted (Spec.parent pa) (rest'.map (·.pos)) := by
          intro x hx hs
          rw [← eins] at hs
          rcases (hmem _).1 hs with h | ⟨h, _, _⟩
          · have := hrowP x (hPR x hx pa (by simp))
            rw [h] at this
            omega
          · exact ns x hx h
        -- the heap
        obtain ⟨⟨ln, hl, _⟩, _⟩ := hpend ⟨L, pa, tL, fL, lL⟩ (by simp)
        obtain ⟨⟨rn, hrr, _⟩, _⟩ := hpend ⟨Rr, sib pa, tR, fR, lR⟩ (by simp)
        simp only [] at hl hrr
        obtain ⟨N, hN⟩ : ∃ N : PItem H, N = ⟨hp.size, Spec.parent pa, .node tL tR,
          L :: Rr :: (fL ++ fR), lL ++ lR⟩ := ⟨_, rfl⟩
        have hNpos : N.pos = Spec.parent pa := by rw [hN]
        have hperm : (pre ++ insertBy (fun it : PItem H => E F.rows it.pos) N rest').Perm
            (N :: (pre ++ rest')) :=
          ((insertBy_perm _ N rest').append_left pre).trans List.perm_middle
        have hperm' := hperm
        rw [hN] at hperm'
        obtain ⟨hpend1, hnd1, ndp, hfr1, hown1, hlv1⟩ := merge_items (Spec.parent pa) hpend hnd hl hrr _ hperm'
        rw [← hN] at hpend1 hnd1 hown1 hlv1
        simp only [] at hpend1 ndp hfr1
        -- positions of the new list
        have hpos1 : (pre ++ insertBy (fun it : PItem H => E F.rows it.pos) N rest').map (·.pos) =
            pre.map (·.pos) ++ Forest.insertSorted (Spec.parent pa) (rest'.map (·.pos)) := by
          rw [List.map_append, insertBy_pos hr N (hNpos ▸ vP) rest'
            (fun q hq => by
              obtain ⟨it, hit, rfl⟩ := List.mem_map.1 hq
              exact hvalid it (List.mem_append_right _ (List.mem_cons_of_mem _ (List.mem_cons_of_mem _ hit))))
            (by rw [hNpos]; exact fun h => hPnot' (List.mem_append_right _ h)), hNpos]
        have hsub1 : ∀ it ∈ pre ++ insertBy (fun it : PItem H => E F.rows it.pos) N rest',
            ∃ R, SubAtT F R it.pos it.t := by
          intro it hit
          rcases List.mem_cons.1 (hperm.mem_iff.1 hit) with h | hit'
          · rw [h, hN]; exact ⟨RL, hpar⟩
          · exact hsub it (mem_two_drop hit')
        have hlen : (insertBy (fun it : PItem H => E F.rows it.pos) N rest').length + 1 ≤ f := by
          rw [(insertBy_perm _ N rest').length_eq]
          simp only [List.length_cons] at hf ⊢
          omega
        have hIH := ih pre _ (joinHeap hp L Rr ln rn) (hpos1 ▸ inv') (hpos1 ▸ ns') hlen hpend1 hnd1 hsub1
        -- the model
        have hsorted : ((pre ++ rest').map (PItem.np F.rows)).Pairwise (fun x y => x.2 ≤ y.2) := by
          have h2 : ((pre ++ rest').map (·.pos)).Pairwise Sorted.PLt := by
            rw [List.map_append]; exact hsort'
          rw [List.pairwise_map] at h2 ⊢
          refine h2.imp_of_mem (fun {x y} hx hy h => ?_)
          have := (E_lt_iff hr (hvalid x (mem_two_drop hx)) (hvalid y (mem_two_drop hy))).2 h
          show E F.rows x.pos ≤ E F.rows y.pos
          bv_omega
        have hins : insertSortNodeAndPos ((pre ++ rest').map (PItem.np F.rows))
            (hp.size, Parent (E F.rows pa) (H8 F.rows)) =
            (pre ++ insertBy (fun it : PItem H => E F.rows it.pos) N rest').map (PItem.np F.rows) := by
          rw [insertSortNodeAndPos_eq _ _ hsorted, parent_E hr va hrow]
          have eN : (hp.size, E F.rows (Spec.parent pa)) = PItem.np F.rows N := by rw [hN]; rfl
          rw [eN, insertBy_map (fun it : PItem H => E F.rows it.pos) (fun x : NP => x.2)
            (PItem.np F.rows) (fun _ => rfl), insertBy_append]
          intro y hy hc
          have h1 : Sorted.PLt y.pos (Spec.parent pa) := hpreP _ (List.mem_map_of_mem hy)
          have := (E_lt_iff hr (hvalid y (List.mem_append_left _ hy)) vP).2 h1
          rw [hNpos] at hc
          bv_omega
        rw [deTwinPolNodeLoop_merge (H8 F.rows) f pre.length _ (PItem.np F.rows ⟨L, pa, tL, fL, lL⟩)
          (PItem.np F.rows ⟨Rr, sib pa, tR, fR, lR⟩) hp nm rs nl ndl full
          (map_getElem?_at _ _ _ _) (map_getElem?_at_succ _ _ _ _ _) htest
          (hpend ⟨L, pa, tL, fL, lL⟩ (by simp)) (hpend ⟨Rr, sib pa, tR, fR, lR⟩ (by simp)) hl hrr ndp,
          map_eraseIdx_twice]
        show DTPost F D nm rs nl ndl full hp _ (deTwinPolNodeLoop (H8 F.rows) f pre.length
          (insertSortNodeAndPos ((pre ++ rest').map (PItem.np F.rows))
            (hp.size, Parent (E F.rows pa) (H8 F.rows))) ⟨joinHeap hp L Rr ln rn, nm, rs, nl, ndl, full⟩)
        rw [hins]
        refine hIH.step (by rw [size_joinHeap]; omega) hfr1 ?_ hlv1
        intro i hi
        rcases (hown1 i).1 hi with h | h
        · exact Or.inr (by omega)
        · exact Or.inl h
      | false =>
        have e : pre ++ (⟨L, pa, tL, fL, lL⟩ : PItem H) :: ⟨Rr, pb, tR, fR, lR⟩ :: rest' =
            (pre ++ [⟨L, pa, tL, fL, lL⟩]) ++ ⟨Rr, pb, tR, fR, lR⟩ :: rest' := by simp
        have elen : pre.length + 1 = (pre ++ [(⟨L, pa, tL, fL, lL⟩ : PItem H)]).length := by simp
        have nsa : sib pa ∉ pre.map (·.pos) ++ pa :: pb :: rest'.map (·.pos) := by
          intro hs
          rcases List.mem_append.1 hs with hs | hs
          · have := ns _ hs
            rw [sib_sib] at this
            exact this ha
          · simp only [List.mem_cons] at hs
            rcases hs with hs | hs | hs
            · exact sib_ne _ hs
            · have hev : pa.2 % 2 = 0 := (sib_gt_iff pa).1 (hs ▸ hlt)
              have := (twinTest_E hr va vb hlt).2 ⟨hev, hs.symm⟩
              rw [htest] at this
              cases this
            · have h1 : Sorted.PLt pb (sib pa) := hB _ hs
              have hev : pa.2 % 2 = 0 := (sib_gt_iff pa).1 (Sorted.PLt.trans _ _ _ hlt h1)
              exact no_between hev hlt h1
        have ns' : ∀ x ∈ (pre ++ [(⟨L, pa, tL, fL, lL⟩ : PItem H)]).map (fun it : PItem H => it.pos),
            sib x ∉ ((pre ++ [(⟨L, pa, tL, fL, lL⟩ : PItem H)]) ++
              (⟨Rr, pb, tR, fR, lR⟩ : PItem H) :: rest').map (fun it : PItem H => it.pos) := by
          intro x hx
          rw [← e, e0]
          simp only [List.map_append, List.map_cons, List.map_nil, List.mem_append,
            List.mem_singleton] at hx
          rcases hx with hx | hx
          · exact ns x hx
          · subst hx
            exact nsa
        have := ih (pre ++ [⟨L, pa, tL, fL, lL⟩]) (⟨Rr, pb, tR, fR, lR⟩ :: rest') hp (e ▸ inv0) ns'
          (by simp only [List.length_cons] at hf ⊢; omega) (e ▸ hpend) (e ▸ hnd) (e ▸ hsub)
        rw [deTwinPolNodeLoop_skip (pn := PItem.np F.rows ⟨L, pa, tL, fL, lL⟩)
          (nx := PItem.np F.rows ⟨Rr, pb, tR, fR, lR⟩) (map_getElem?_at _ _ _ _)
          (map_getElem?_at_succ _ _ _ _ _) htest, elen]
        rw [← e] at this
        rw [e]
        rw [← e]
        exact this

/-- the loop, with the postcondition spelled out -/
theorem deTwinPolNodeLoop_spec {F : Forest H} {D : List H} (hr : F.rows ≤ 63)
    (nm : List (H × Nat)) (rs : List Nat) (nl ndl : U64) (full : Bool) :
    ∀ (fuel : Nat) (pre rest : List (PItem H)) (hp : Heap H),
      Inv F D ((pre ++ rest).map (·.pos)) →
      (∀ x ∈ pre.map (·.pos), sib x ∉ (pre ++ rest).map (·.pos)) → rest.length + 1 ≤ fuel →
      Pend hp (pre ++ rest) → (pendOwned (pre ++ rest)).Nodup →
      (∀ it ∈ pre ++ rest, ∃ R, SubAtT F R it.pos it.t) →
      ∃ (hp' : Heap H) (its' : List (PItem H)),
        deTwinPolNodeLoop (H8 F.rows) fuel pre.length ((pre ++ rest).map (PItem.np F.rows))
            ⟨hp, nm, rs, nl, ndl, full⟩ =
          (.ok (its'.map (PItem.np F.rows)), ⟨hp', nm, rs, nl, ndl, full⟩) ∧
        Inv F D (its'.map (·.pos)) ∧ (∀ x ∈ its'.map (·.pos), sib x ∉ its'.map (·.pos)) ∧
        Pend hp' its' ∧ (pendOwned its').Nodup ∧ (∀ it ∈ its', ∃ R, SubAtT F R it.pos it.t) ∧
        hp.size ≤ hp'.size ∧
        (∀ j, j < hp.size → j ∉ pendOwned (pre ++ rest) → hp'[j]? = hp[j]?) ∧
        (∀ i ∈ pendOwned its', i ∈ pendOwned (pre ++ rest) ∨ hp.size ≤ i) ∧
        (∀ e, e ∈ pendLeaves its' ↔ e ∈ pendLeaves (pre ++ rest)) :=
  fun fuel pre rest hp inv ns hf hpend hnd hsub =>
    deTwinPolNodeLoop_post hr nm rs nl ndl full fuel pre rest hp inv ns hf hpend hnd hsub

/-- **`deTwinPolNode`** on a list of detached trees whose positions satisfy the invariant of
`deTwin`: sibling trees are joined until no two siblings are left -/
theorem deTwinPolNode_spec {F : Forest H} {D : List H} (hr : F.rows ≤ 63)
    (nm : List (H × Nat)) (rs : List Nat) (nl ndl : U64) (full : Bool)
    (its : List (PItem H)) (hp : Heap H)
    (inv : Inv F D (its.map (·.pos))) (hpend : Pend hp its) (hnd : (pendOwned its).Nodup)
    (hsub : ∀ it ∈ its, ∃ R, SubAtT F R it.pos it.t) :
    ∃ (hp' : Heap H) (its' : List (PItem H)),
      deTwinPolNode (its.map (PItem.np F.rows)) (H8 F.rows) ⟨hp, nm, rs, nl, ndl, full⟩ =
        (.ok (its'.map (PItem.np F.rows)), ⟨hp', nm, rs, nl, ndl, full⟩) ∧
      Inv F D (its'.map (·.pos)) ∧ (∀ x ∈ its'.map (·.pos), sib x ∉ its'.map (·.pos)) ∧
      Pend hp' its' ∧ (pendOwned its').Nodup ∧ (∀ it ∈ its', ∃ R, SubAtT F R it.pos it.t) ∧
      hp.size ≤ hp'.size ∧
      (∀ j, j < hp.size → j ∉ pendOwned its → hp'[j]? = hp[j]?) ∧
      (∀ i ∈ pendOwned its', i ∈ pendOwned its ∨ hp.size ≤ i) ∧
      (∀ e, e ∈ pendLeaves its' ↔ e ∈ pendLeaves its) := by
  have := deTwinPolNodeLoop_post hr nm rs nl ndl full (2 * (its.map (PItem.np F.rows)).length + 1)
    [] its hp inv (by simp) (by rw [List.length_map]; omega) hpend hnd hsub
  exact this

/-- **the first half of `undoDels`**: `undoDelsAlloc`, the sort and `deTwinPolNode` leave one
detached represented tree per maximal fully-deleted subtree of `F`, in ascending position order -/
theorem undoDels_prefix_spec {F : Forest H} {D : List H} (hn : F.numLeaves < 2 ^ 63)
    (hnd : F.liveLeaves.Nodup) (hD : D.Nodup) (hlive : ∀ d ∈ D, d ∈ F.liveLeaves)
    (hp : Heap H) (nm : List (H × Nat)) (rs : List Nat) (nl ndl : U64) (full : Bool)
    (hmk : (nm.map (·.1)).Nodup) (hfresh : ∀ d ∈ D, d ∉ nm.map (·.1)) :
    ∃ (hp1 hp' : Heap H) (nm' : List (H × Nat)) (pn0 : List NP) (its : List (PItem H)),
      undoDelsAlloc ((D.map (fun l => (F.posOf l).getD (0, 0))).map (E F.rows)) D
          ⟨hp, nm, rs, nl, ndl, full⟩ = (.ok pn0, ⟨hp1, nm', rs, nl, ndl, full⟩) ∧
      deTwinPolNode (sortBy (fun x : NP => x.2) pn0) (H8 F.rows) ⟨hp1, nm', rs, nl, ndl, full⟩ =
        (.ok (its.map (PItem.np F.rows)), ⟨hp', nm', rs, nl, ndl, full⟩) ∧
      Pend hp' its ∧ (pendOwned its).Nodup ∧ (∀ i ∈ pendOwned its, hp.size ≤ i) ∧
      (∀ j, j < hp.size → hp'[j]? = hp[j]?) ∧ hp.size ≤ hp'.size ∧
      (nm'.map (·.1)).Nodup ∧ (∀ e, e ∈ nm' ↔ e ∈ nm ∨ e ∈ pendLeaves its) ∧
      (∀ k, k ∈ nm'.map (·.1) ↔ k ∈ D ∨ k ∈ nm.map (·.1)) ∧
      (its.map (·.pos)).Pairwise Sorted.PLt ∧ (∀ T, T ∈ its.map (·.pos) ↔ IsDT F D T) ∧
      (∀ it ∈ its, ∃ R, SubAtT F R it.pos it.t) ∧
      Inv F D (its.map (·.pos)) := by
  have hn' : F.numLeaves ≤ 2 ^ 63 := by omega
  have hr : F.rows ≤ 63 := rows_le_63 hn'
  have hlen : (leafPositions F D).length = D.length := by unfold leafPositions; simp
  obtain ⟨hp1, nm', e1, hsz, hfr, hpend0, hk', hmem⟩ := undoDelsAlloc_spec F.rows rs nl ndl full
    (leafPositions F D) D hp nm hlen hD hfresh hmk
  obtain ⟨its0, hits0⟩ : ∃ its0, its0 = allocItems hp.size (leafPositions F D) D := ⟨_, rfl⟩
  rw [← hits0] at e1 hpend0 hmem
  have hpos0 : its0.map (·.pos) = leafPositions F D := by rw [hits0]; exact allocItems_pos _ _ _ hlen
  have hkeys0 : (pendLeaves its0).map (·.1) = D := by rw [hits0]; exact allocItems_keys _ _ _ hlen
  obtain ⟨hown0, hnd0⟩ := allocItems_owned (leafPositions F D) D hp.size
  rw [← hits0] at hown0 hnd0
  -- the sort
  obtain ⟨its1, hits1⟩ : ∃ its1, its1 = sortBy (fun it : PItem H => E F.rows it.pos) its0 := ⟨_, rfl⟩
  have hperm : its1.Perm its0 := by rw [hits1]; exact sortBy_perm _ _
  have hsort : sortBy (fun x : NP => x.2) (its0.map (PItem.np F.rows)) = its1.map (PItem.np F.rows) := by
    rw [hits1]; exact sortBy_np F.rows its0
  have hpos1 : its1.map (·.pos) = Forest.sortDedup (leafPositions F D) := by
    rw [hits1, sortBy_items_pos hr its0 (hpos0 ▸ leafPositions_valid hn' hlive)
      (hpos0 ▸ leafPositions_nodup hn' hD hlive), hpos0]
  have inv1 : Inv F D (its1.map (·.pos)) := hpos1 ▸ Inv.init hn' hlive
  have hpend1 : Pend hp1 its1 := fun it hit => hpend0 it (hperm.mem_iff.1 hit)
  have hnd1 : (pendOwned its1).Nodup := (pendOwned_perm hperm).nodup_iff.2 hnd0
  have hsub1 : ∀ it ∈ its1, ∃ R, SubAtT F R it.pos it.t := by
    intro it hit
    have hit0 := hperm.mem_iff.1 hit
    rw [hits0] at hit0
    unfold leafPositions at hit0
    obtain ⟨h, hh, i, _, rfl⟩ := mem_allocItems_map _ D hp.size it hit0
    exact pos_of_live hn' (hlive h hh)
  obtain ⟨hp', its, e2, inv2, ns2, hpend2, hnd2, hsub2, hsz2, hfr2, hown2, hlv2⟩ :=
    deTwinPolNode_spec hr nm' rs nl ndl full its1 hp1 inv1 hpend1 hnd1 hsub1
  have hown1 : ∀ i ∈ pendOwned its1, hp.size ≤ i :=
    fun i hi => hown0 i ((pendOwned_perm hperm).mem_iff.1 hi)
  have hlv0 : ∀ e, e ∈ pendLeaves its ↔ e ∈ pendLeaves its0 := by
    intro e; rw [hlv2, (pendLeaves_perm hperm).mem_iff]
  refine ⟨hp1, hp', nm', its0.map (PItem.np F.rows), its, e1, ?_, hpend2, hnd2, ?_, ?_, by omega,
    hk', ?_, ?_, inv2.sorted, inv2.final hnd ns2, hsub2, inv2⟩
  · rw [hsort]; exact e2
  · intro i hi
    rcases hown2 i hi with h | h
    · exact hown1 i h
    · omega
  · intro j hj
    rw [hfr2 j (by omega) (fun hc => by have := hown1 j hc; omega), hfr j hj]
  · intro e; rw [hmem, hlv0]
  · intro k
    rw [← hkeys0]
    simp only [List.mem_map]
    constructor
    · rintro ⟨e, he, rfl⟩
      rcases (hmem e).1 he with h | h
      · exact Or.inr ⟨e, h, rfl⟩
      · exact Or.inl ⟨e, h, rfl⟩
    · rintro (⟨e, he, rfl⟩ | ⟨e, he, rfl⟩)
      · exact ⟨e, (hmem e).2 (Or.inr he), rfl⟩
      · exact ⟨e, (hmem e).2 (Or.inl he), rfl⟩

/-! ### a concrete instance (non-vacuity)

The forest `F5` of `ProofUpdateDeTwin.Example` (five live leaves, trees on rows 2 and 0), undoing
the deletion of the leaves 3, 0, 1: the three fresh nodes 0, 1, 2 get the positions 3, 0, 1; the
sorted list is `[(1,0), (2,1), (0,3)]`; nodes 1 and 2 are joined under the fresh node 3 at
position 8. -/

section Example
open ProofUpdateDeTwin.Example

/-- the hypotheses of `undoDels_prefix_spec` are satisfiable -/
example : ∃ (hp1 hp' : Heap T) (nm' : List (T × Nat)) (pn0 : List NP) (its : List (PItem T)),
    undoDelsAlloc ((D5.map (fun l => (F5.posOf l).getD (0, 0))).map (E F5.rows)) D5
        ⟨#[], [], [], 5#64, 3#64, true⟩ = (.ok pn0, ⟨hp1, nm', [], 5#64, 3#64, true⟩) ∧
    deTwinPolNode (sortBy (fun x : NP => x.2) pn0) (H8 F5.rows) ⟨hp1, nm', [], 5#64, 3#64, true⟩ =
      (.ok (its.map (PItem.np F5.rows)), ⟨hp', nm', [], 5#64, 3#64, true⟩) ∧
    (∀ T, T ∈ its.map (·.pos) ↔ IsDT F5 D5 T) := by
  obtain ⟨hp1, hp', nm', pn0, its, h1, h2, _, _, _, _, _, _, _, _, _, h3, _⟩ :=
    undoDels_prefix_spec (F := F5) (D := D5) (by decide) (by decide) (by decide) (by decide)
      #[] [] [] 5#64 3#64 true (by decide) (by decide)
  exact ⟨hp1, hp', nm', pn0, its, h1, h2, h3⟩

/-- what the model computes on this instance -/
example :
    ((do let pn ← undoDelsAlloc ((D5.map (fun l => (F5.posOf l).getD (0, 0))).map (E F5.rows)) D5
         deTwinPolNode (sortBy (fun x : NP => x.2) pn) (H8 F5.rows) : PM T (List NP))
      ⟨#[], [], [], 5#64, 3#64, true⟩).1 = .ok [(0, 3#64), (3, 8#64)] := by decide +kernel

end Example

end UtreexoVerif.Proofs.PollardHeap

section
open UtreexoVerif.Proofs.PollardHeap
end
