/-
  Layer 2 for `removeSingle`: the storage invariant across the removal of all leaves below one
  node `d`.
    * `rootCase`  — `d` is a root: the tree becomes an empty root;
    * `liftCore`  (Proofs/MapLiftCore.lean) — the sibling subtree is lifted onto the parent;
    * `rehash`    — the hashes of the ancestors are replaced (`updateHashes`);
    * `walk`      — `forgetUnneededDel` prunes the pairs along the path to the root.
-/
import UtreexoVerif.Proofs.MapAddSteps

namespace UtreexoVerif.Proofs.MapRemoveSteps
open UtreexoVerif Model Spec Spec.Forest Proofs MapInv MapPrune MapRep MapLiftGeo PForest MapAInv MapLiftCore Hasher
set_option linter.unusedSectionVars false
set_option linter.unusedVariables false

variable {H : Type} [DecidableEq H] [Hasher H]
variable {A : Pos → Option (Leaf H)} {C : H → Option Pos} {N N'' : List (Pos × H × Bool)}
  {R : Pos → Prop} {K K' : H → Prop}

/-- `forgetBelow d` on the abstract state (same definition as in `Proofs/MapRemoveRep.lean`) -/
def clearBelow' (d : Pos) (A : Pos → Option (Leaf H)) : Pos → Option (Leaf H) :=
  fun q => if SUnder d q then none else A q

/-! ### the root case -/

theorem rootCase (L : Laws N R) (inv : AInv A C N R K (fun _ => False)) {d : Pos} (hdR : R d)
    (hCd : ∀ x t, C x = some t → ¬ Anc d t)
    (hN'' : ∀ e : Pos × H × Bool, e ∈ N'' ↔ (¬ Anc d e.1 ∧ e ∈ N) ∨ e = (d, zero, false))
    (hK' : ∀ x, K' x ↔ K x ∧ ∀ t, (t, x, true) ∈ N → ¬ Anc d t) :
    AInv (upd (clearBelow' d A) d (some ⟨zero, false⟩)) C N'' R K' (fun _ => False) := by
  have hval : ∀ q, ¬ Anc d q → upd (clearBelow' d A) d (some ⟨zero, false⟩) q = A q := by
    intro q hq
    have hne : q ≠ d := fun e => hq (e ▸ Anc.refl _)
    rw [upd_ne _ _ hne]
    unfold clearBelow'
    rw [if_neg (fun h => hq h.1)]
  have hsto : ∀ q l, upd (clearBelow' d A) d (some ⟨zero, false⟩) q = some l → q = d ∨ (¬ Anc d q ∧ A q = some l) := by
    intro q l hl
    by_cases hq : q = d
    · exact Or.inl hq
    · right
      rw [upd_ne _ _ hq] at hl
      unfold clearBelow' at hl
      split at hl
      · cases hl
      · rename_i hs
        refine ⟨fun ha => hs ⟨ha, ?_⟩, hl⟩
        have := ha.1
        have hr : q.1 ≠ d.1 := fun e => hq (ha.eq_of_row e.symm).symm
        omega
  have leaf'' : ∀ t x, (t, x, true) ∈ N'' ↔ (¬ Anc d t ∧ (t, x, true) ∈ N) := by
    intro t x
    rw [hN'']
    constructor
    · rintro (h | h)
      · exact h
      · simp only [Prod.mk.injEq] at h; exact absurd h.2.2 (by simp)
    · intro h; exact Or.inl h
  have kleaf'' : ∀ t, KLeaf N'' K' t ↔ (KLeaf N K t ∧ ¬ Anc d t) := by
    intro t
    constructor
    · rintro ⟨x, hk, hm⟩
      obtain ⟨h1, h2⟩ := (leaf'' t x).1 hm
      exact ⟨⟨x, ((hK' x).1 hk).1, h2⟩, h1⟩
    · rintro ⟨⟨x, hk, hm⟩, hnd⟩
      refine ⟨x, (hK' x).2 ⟨hk, ?_⟩, (leaf'' t x).2 ⟨hnd, hm⟩⟩
      intro t2 ht2
      have := L.leaf_hash t x t2 true hm ht2
      subst this; exact hnd
  -- a non-root node outside `d`'s tree: its parent is not an ancestor of `d`
  have par_out : ∀ q h b, (q, h, b) ∈ N → ¬ R q → ¬ Anc d q → ∀ t, Anc (parent q) t → ¬ Anc d t := by
    intro q h b hq hnr hdq t hpt hdt
    obtain ⟨hp, hpm, _⟩ := L.parent_node q h b hq hnr
    have hcmp : Anc (parent q) d ∨ Anc d (parent q) := by
      by_cases hle : d.1 ≤ (parent q).1
      · exact Or.inl (Anc.comparable hdt hpt hle)
      · exact Or.inr (Anc.comparable hpt hdt (by omega))
    rcases hcmp with h1 | h1
    · obtain ⟨r, hr, ha⟩ := L.under_root _ hp false hpm
      have := L.root_disj r d d hr hdR (Anc.trans ha h1) (Anc.refl d)
      subst this
      have := Anc.antisymm ha h1
      exact hdq (by rw [this]; exact anc_parent_self q)
    · exact hdq (Anc.trans h1 (anc_parent_self q))
  refine { true_hash := ?_, cache_sub := ?_, cached_pos := ?_, roots_stored := ?_, only_needed := ?_,
           has_needed := ?_, flags := ?_ }
  · intro q l hl
    rcases hsto q l hl with rfl | ⟨hq, hA⟩
    · rw [upd_self] at hl
      simp only [Option.some.injEq] at hl
      subst hl
      exact ⟨false, (hN'' _).2 (Or.inr rfl)⟩
    · obtain ⟨b, hb⟩ := inv.true_hash q l hA
      exact ⟨b, (hN'' _).2 (Or.inl ⟨hq, hb⟩)⟩
  · intro x t hC
    refine (hK' x).2 ⟨inv.cache_sub x t hC, ?_⟩
    intro t2 ht2
    have := L.leaf_hash t x t2 true (inv.cached_pos x t hC) ht2
    subst this
    exact hCd x _ hC
  · intro x t hC
    exact (leaf'' t x).2 ⟨hCd x t hC, inv.cached_pos x t hC⟩
  · intro z hz
    by_cases hzd : z = d
    · subst hzd; rw [upd_self]; simp
    · have : ¬ Anc d z := fun ha => hzd (L.root_disj z d z hz hdR (Anc.refl z) ha)
      rw [hval z this]; exact inv.roots_stored z hz
  · intro q l hl hnr _
    rcases hsto q l hl with rfl | ⟨hq, hA⟩
    · exact absurd hdR hnr
    · obtain ⟨b, hb⟩ := inv.true_hash q l hA
      obtain ⟨t, ht, hrow, hanc⟩ := inv.only_needed q l hA hnr (fun h => h)
      exact ⟨t, (kleaf'' t).2 ⟨ht, par_out q _ b hb hnr hq t hanc⟩, hrow, hanc⟩
  · intro q h b hm hnr hreq
    have hqd : q ≠ d := fun e => hnr (e ▸ hdR)
    rcases (hN'' _).1 hm with ⟨hq, hmN⟩ | e
    · rw [hval q hq]
      apply inv.has_needed q h b hmN hnr
      rcases hreq with hk | ⟨t, hk, hanc⟩
      · exact Or.inl ((kleaf'' q).1 hk).1
      · exact Or.inr ⟨t, ((kleaf'' t).1 hk).1, hanc⟩
    · simp only [Prod.mk.injEq] at e; exact absurd e.1 hqd
  · intro q l hl hnz
    rcases hsto q l hl with rfl | ⟨hq, hA⟩
    · rw [upd_self] at hl
      simp only [Option.some.injEq] at hl
      subst hl
      exact absurd rfl hnz
    · rw [inv.flags q l hA hnz, kleaf'']
      exact ⟨fun h => ⟨h, hq⟩, fun h => h.1⟩

/-! ### re-hashing the ancestors -/

/-- replacing the hashes of the nodes in `Z` (inner nodes, here: the strict ancestors of the lifted
subtree) in the node list and in the store keeps the invariant -/
theorem rehash {N' : List (Pos × H × Bool)} {E : Pos → Prop} {A5 : Pos → Option (Leaf H)} {Z : Pos → Prop}
    (inv : AInv A C N' R K E)
    (hsame : ∀ e : Pos × H × Bool, ¬ Z e.1 → (e ∈ N'' ↔ e ∈ N'))
    (hZ' : ∀ z h f, Z z → (z, h, f) ∈ N' → f = false ∧ ∃ h1, (z, h1, false) ∈ N'')
    (hZ'' : ∀ z h f, Z z → (z, h, f) ∈ N'' → f = false ∧ ∃ h0, (z, h0, false) ∈ N')
    (h1 : ∀ q, ¬ Z q → A5 q = A q)
    (h2 : ∀ z, Z z → (A5 z).isSome = (A z).isSome)
    (h3 : ∀ z l, Z z → A5 z = some l → (z, l.hash, false) ∈ N'' ∧ l.remember = false) :
    AInv A5 C N'' R K E := by
  have leaf_same : ∀ t x, (t, x, true) ∈ N'' ↔ (t, x, true) ∈ N' := by
    intro t x
    by_cases hz : Z t
    · constructor
      · intro h; exact absurd (hZ'' t x true hz h).1 (by simp)
      · intro h; exact absurd (hZ' t x true hz h).1 (by simp)
    · exact hsame (t, x, true) hz
  have kleaf_same : ∀ t, KLeaf N'' K t ↔ KLeaf N' K t := by
    intro t
    constructor
    · rintro ⟨x, hk, hm⟩; exact ⟨x, hk, (leaf_same t x).1 hm⟩
    · rintro ⟨x, hk, hm⟩; exact ⟨x, hk, (leaf_same t x).2 hm⟩
  have some_of : ∀ q, A5 q ≠ none ↔ A q ≠ none := by
    intro q
    by_cases hz : Z q
    · have := h2 q hz
      cases h5 : A5 q <;> cases hA : A q <;> simp_all
    · rw [h1 q hz]
  refine { true_hash := ?_, cache_sub := inv.cache_sub, cached_pos := ?_, roots_stored := ?_, only_needed := ?_,
           has_needed := ?_, flags := ?_ }
  · intro q l hl
    by_cases hz : Z q
    · exact ⟨false, (h3 q l hz hl).1⟩
    · rw [h1 q hz] at hl
      obtain ⟨b, hb⟩ := inv.true_hash q l hl
      exact ⟨b, (hsame _ hz).2 hb⟩
  · intro x t hC; exact (leaf_same t x).2 (inv.cached_pos x t hC)
  · intro z hz; exact (some_of z).2 (inv.roots_stored z hz)
  · intro q l hl hnr hE
    have : A q ≠ none := (some_of q).1 (by rw [hl]; simp)
    cases hA : A q with
    | none => exact absurd hA this
    | some l0 =>
      obtain ⟨t, ht, hrow, hanc⟩ := inv.only_needed q l0 hA hnr hE
      exact ⟨t, (kleaf_same t).2 ht, hrow, hanc⟩
  · intro q h b hm hnr hreq
    apply (some_of q).2
    have hex : ∃ h0 b0, (q, h0, b0) ∈ N' := by
      by_cases hz : Z q
      · obtain ⟨_, h0, hh⟩ := hZ'' q h b hz hm
        exact ⟨h0, false, hh⟩
      · exact ⟨h, b, (hsame _ hz).1 hm⟩
    obtain ⟨h0, b0, hm0⟩ := hex
    apply inv.has_needed q h0 b0 hm0 hnr
    rcases hreq with hk | ⟨t, hk, hanc⟩
    · exact Or.inl ((kleaf_same q).1 hk)
    · exact Or.inr ⟨t, (kleaf_same t).1 hk, hanc⟩
  · intro q l hl hnz
    by_cases hz : Z q
    · obtain ⟨hm, hr⟩ := h3 q l hz hl
      constructor
      · intro h; rw [hr] at h; cases h
      · rintro ⟨x, _, hx⟩
        exact absurd (hZ'' q x true hz hx).1 (by simp)
    · rw [h1 q hz] at hl
      rw [inv.flags q l hl hnz, kleaf_same]

end UtreexoVerif.Proofs.MapRemoveSteps
