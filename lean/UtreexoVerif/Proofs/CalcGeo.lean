/-
  The `uint64` level of `calculateHashes` on encoded positions: everything the loop computes
  on a position `E p = encU rows p.1 p.2` (order, row cursor, root test, parent, sibling) in
  `(row, offset)` terms.  `rows = forestRows n`, `n ≤ 2^63`.
-/
import UtreexoVerif.Proofs.SpecView
import UtreexoVerif.Proofs.SortedLists

namespace UtreexoVerif.Proofs.CalcGeo
open UtreexoVerif UtreexoVerif.GoInt UtreexoVerif.Proofs Spec Model
open UtreexoVerif.Proofs.SpecView UtreexoVerif.Proofs.Sorted

/-- the encoded position -/
def E (rows : Nat) (p : Pos) : U64 := encU rows p.1 p.2

/-- a `(row, offset)` pair of a forest allocated for `rows` rows -/
def Valid (rows : Nat) (p : Pos) : Prop := p.1 ≤ rows ∧ p.2 < 2 ^ (rows - p.1)

/-- a position inside the forest of `n` leaves -/
def InF (n : Nat) (p : Pos) : Prop := p.1 ≤ forestRows n ∧ p.2 < n >>> p.1

theorem shiftRight_le_pow {n rows r : Nat} (hn : n ≤ 2 ^ rows) (hr : r ≤ rows) :
    n >>> r ≤ 2 ^ (rows - r) := by
  rw [Nat.shiftRight_eq_div_pow]
  have : 2 ^ rows / 2 ^ r = 2 ^ (rows - r) := Nat.pow_div hr (by decide)
  rw [← this]
  exact Nat.div_le_div_right hn

theorem InF.valid {n : Nat} {p : Pos} (h : InF n p) : Valid (forestRows n) p :=
  ⟨h.1, Nat.lt_of_lt_of_le h.2 (shiftRight_le_pow (le_two_pow_forestRows n) h.1)⟩

/-! ### positions, `Nat` level -/

theorem parent_fst (p : Pos) : (parent p).1 = p.1 + 1 := rfl
theorem parent_snd (p : Pos) : (parent p).2 = p.2 / 2 := rfl
theorem sib_fst (p : Pos) : (sib p).1 = p.1 := rfl
theorem sib_snd (p : Pos) : (sib p).2 = if p.2 % 2 = 0 then p.2 + 1 else p.2 - 1 := rfl

theorem sib_sib (p : Pos) : sib (sib p) = p := by
  obtain ⟨r, o⟩ := p
  unfold sib
  simp only [Prod.mk.injEq, true_and]
  split <;> split <;> omega

theorem sib_ne (p : Pos) : sib p ≠ p := by
  obtain ⟨r, o⟩ := p
  unfold sib
  simp only [ne_eq, Prod.mk.injEq, true_and]
  split <;> omega

theorem parent_sib (p : Pos) : parent (sib p) = parent p := by
  obtain ⟨r, o⟩ := p
  unfold sib parent
  simp only [Prod.mk.injEq, true_and]
  split <;> omega

theorem lt_parent (p : Pos) : PLt p (parent p) := Or.inl (by simp [parent])

theorem parent_ne_sib (p : Pos) : parent p ≠ sib p := by
  intro h
  have := congrArg Prod.fst h
  simp [parent, sib] at this

/-- parents are ordered like their children, unless the children are siblings -/
theorem parent_lt {m p : Pos} (h : PLt m p) (hs : p ≠ sib m) : PLt (parent m) (parent p) := by
  obtain ⟨r, o⟩ := m
  obtain ⟨r', o'⟩ := p
  unfold PLt parent at *
  unfold sib at hs
  simp only [ne_eq, Prod.mk.injEq, not_and] at hs
  simp only at h ⊢
  rcases h with h | ⟨h1, h2⟩
  · left; omega
  · right
    refine ⟨by omega, ?_⟩
    have := hs h1.symm
    split at this <;> omega

theorem parent_le_of_lt {m p : Pos} (h : PLt m p) : parent m = parent p ∨ PLt (parent m) (parent p) := by
  by_cases hs : p = sib m
  · left; rw [hs, parent_sib]
  · right; exact parent_lt h hs

/-- nothing lies strictly between a left node and its right sibling -/
theorem no_between {m q : Pos} (hm : m.2 % 2 = 0) (h1 : PLt m q) (h2 : PLt q (sib m)) : False := by
  obtain ⟨r, o⟩ := m
  obtain ⟨r', o'⟩ := q
  unfold PLt sib at *
  simp only at *
  rw [if_pos hm] at h2
  omega

/-- the right sibling comes after the left one -/
theorem sib_gt_iff (m : Pos) : PLt m (sib m) ↔ m.2 % 2 = 0 := by
  obtain ⟨r, o⟩ := m
  show (r < r ∨ (r = r ∧ o < (if o % 2 = 0 then o + 1 else o - 1))) ↔ o % 2 = 0
  by_cases h : o % 2 = 0
  · rw [if_pos h]; omega
  · rw [if_neg h]; omega

theorem shiftRight_succ_bit (n h : Nat) :
    n >>> h = 2 * (n >>> (h + 1)) + (if n.testBit h then 1 else 0) := by
  rw [Nat.shiftRight_eq_div_pow, Nat.shiftRight_eq_div_pow, Nat.pow_succ,
    ← Nat.div_div_eq_div_mul, Nat.testBit_eq_decide_div_mod_eq]
  by_cases hb : n / 2 ^ h % 2 = 1
  · simp [hb]; omega
  · simp [hb]; omega

/-- the sibling position of a root lies outside the forest -/
theorem sib_root_not_inF {n : Nat} {m q : Pos} (hm : isRootPos n m = true) (hq : InF n q)
    (h : sib q = m) : False := by
  obtain ⟨r, o⟩ := q
  unfold isRootPos at hm
  simp only [Bool.and_eq_true, beq_iff_eq] at hm
  subst h
  simp only [sib] at hm
  have hb := shiftRight_succ_bit n r
  rw [hm.1] at hb
  simp only [if_true] at hb
  have h2 := hq.2
  simp only at h2
  obtain ⟨_, hm2⟩ := hm
  split at hm2 <;> omega

/-- a root is not a sibling of an in-forest position, and in particular an in-forest sibling of a
non-root is no root -/
theorem not_root_sib {n : Nat} {p : Pos} (hp : InF n p) : isRootPos n (sib p) = false := by
  cases h : isRootPos n (sib p) with
  | false => rfl
  | true => exact (sib_root_not_inF h hp rfl).elim

/-! ### order and injectivity of the encoding -/

theorem E_toNat {rows : Nat} (hr : rows ≤ 63) {p : Pos} (hp : Valid rows p) :
    (E rows p).toNat = Spec.enc rows p := toNat_encU hr hp.1 hp.2

theorem enc_lt_of_PLt {rows : Nat} {p q : Pos} (hp : Valid rows p) (hq : Valid rows q)
    (h : PLt p q) : Spec.enc rows p < Spec.enc rows q := by
  obtain ⟨r, o⟩ := p
  obtain ⟨r', o'⟩ := q
  rcases h with h | ⟨h1, h2⟩
  · exact enc_row_lt hq.1 hp.2 h
  · simp only at h1 h2
    subst h1
    rw [enc_add rows r o, enc_add rows r o']
    omega

theorem E_lt_iff {rows : Nat} (hr : rows ≤ 63) {p q : Pos} (hp : Valid rows p) (hq : Valid rows q) :
    E rows p < E rows q ↔ PLt p q := by
  rw [BitVec.lt_def, E_toNat hr hp, E_toNat hr hq]
  constructor
  · intro h
    rcases PLt.tri p q with e | h' | h'
    · subst e; omega
    · exact h'
    · have := enc_lt_of_PLt hq hp h'; omega
  · exact enc_lt_of_PLt hp hq

theorem E_inj {rows : Nat} (hr : rows ≤ 63) {p q : Pos} (hp : Valid rows p) (hq : Valid rows q)
    (h : E rows p = E rows q) : p = q := by
  rcases PLt.tri p q with e | h' | h'
  · exact e
  · have := (E_lt_iff hr hp hq).2 h'; rw [h] at this; exact absurd this (BitVec.lt_irrefl _)
  · have := (E_lt_iff hr hq hp).2 h'; rw [h] at this; exact absurd this (BitVec.lt_irrefl _)

/-! ### parent, sibling -/

theorem parent_E {rows : Nat} (hr : rows ≤ 63) {p : Pos} (hp : Valid rows p) (hlt : p.1 < rows) :
    Parent (E rows p) (H8 rows) = E rows (parent p) :=
  Props.C16.parent_enc hr hlt hp.2

theorem parent_valid {rows : Nat} {p : Pos} (hp : Valid rows p) (hlt : p.1 < rows) :
    Valid rows (parent p) := by
  have g := enc_facts_succ hlt
  have := hp.2
  exact ⟨hlt, by simp only [parent]; omega⟩

theorem rightOf_valid {rows : Nat} {p : Pos} (hp : Valid rows p) (hlt : p.1 < rows) :
    Valid rows (p.1, 2 * (p.2 / 2) + 1) := by
  refine ⟨hp.1, ?_⟩
  have h2 := hp.2
  simp only
  have g := enc_facts_succ hlt
  omega

theorem rightSib_E {rows : Nat} (hr : rows ≤ 63) {p : Pos} (hp : Valid rows p) :
    rightSib (E rows p) = E rows (p.1, 2 * (p.2 / 2) + 1) :=
  Props.C16.rightSib_enc hr hp.1 hp.2

theorem isLeftNiece_E {rows : Nat} (hr : rows ≤ 63) {p : Pos} (hp : Valid rows p) :
    isLeftNiece (E rows p) = decide (p.2 % 2 = 0) :=
  Props.C16.isLeftNiece_enc hr hp.1 hp.2

/-- the sibling test of `calculateHashes`: the queued element `q` is taken as the sibling of `m`
exactly when `m` is a left node and `q` its right sibling -/
theorem sibTest_E {rows : Nat} (hr : rows ≤ 63) {m q : Pos} (hm : Valid rows m) (hq : Valid rows q)
    (hlt : m.1 < rows) :
    (E rows m != E rows q && rightSib (E rows m) == E rows q) = true ↔
      (m.2 % 2 = 0 ∧ q = sib m) := by
  rw [Bool.and_eq_true, bne_iff_ne, beq_iff_eq, rightSib_E hr hm]
  constructor
  · rintro ⟨h1, h2⟩
    have e := E_inj hr (rightOf_valid hm hlt) hq h2
    have hne : m ≠ q := fun e' => h1 (by rw [e'])
    subst e
    obtain ⟨r, o⟩ := m
    simp only [ne_eq, Prod.mk.injEq, true_and] at hne
    simp only at *
    have ho : o % 2 = 0 := by omega
    refine ⟨ho, ?_⟩
    unfold sib
    simp only [if_pos ho, Prod.mk.injEq, true_and]
    omega
  · rintro ⟨h1, rfl⟩
    have e : (m.1, 2 * (m.2 / 2) + 1) = sib m := by
      unfold sib
      rw [if_pos h1]
      simp only [Prod.mk.injEq, true_and]
      omega
    rw [e]
    refine ⟨fun h => ?_, rfl⟩
    exact sib_ne m (E_inj hr hm hq h).symm

/-! ### the row cursor -/

section cursor
variable {n : Nat} (hn : n ≤ 2 ^ 63)
include hn

theorem rows_le_63 : forestRows n ≤ 63 := forestRows_le hn

/-- `TreeRows` is `forestRows`, up to and including `2^63` leaves -/
theorem treeRows_eq' : TreeRows (BitVec.ofNat 64 n) = H8 (forestRows n) := by
  apply BitVec.eq_of_toNat_eq
  rw [Props.C16.treeRows_spec (by omega), toNat_H8 (rows_le_63 hn)]

theorem N_toNat : (BitVec.ofNat 64 n).toNat = n := toNat_ofNat64_of_lt (by omega)

/-- `maxPositionAtRow` is the position just before `(r, n >> r)` -/
theorem maxPositionAtRow_enc {r : Nat} (hr : r ≤ forestRows n) :
    (maxPositionAtRow (H8 r) (H8 (forestRows n)) (BitVec.ofNat 64 n)).1.toNat =
      Spec.enc (forestRows n) (r, n >>> r) - 1 := by
  have htr := rows_le_63 hn
  have hle := le_two_pow_forestRows n
  have hN := N_toNat hn
  generalize hrows : forestRows n = tr at *
  unfold maxPositionAtRow ParentMany
  by_cases h0 : r = 0
  · subst h0
    simp only [beq_self_eq_true, if_true, Bool.false_eq_true, if_false]
    rw [enc_zero_row, Nat.shiftRight_zero]
    split
    · rename_i hne
      show (BitVec.ofNat 64 n - 1#64).toNat = n - 1
      have : n ≠ 0 := by
        intro e; subst e; simp at hne
      rw [BitVec.toNat_sub, hN]
      simp
      omega
    · rename_i hne
      have : BitVec.ofNat 64 n = 0#64 := by simpa using hne
      have : n = 0 := by rw [← hN, this]; rfl
      subst this
      rfl
  · have hne : (H8 r == 0#8) = false := by
      apply beq_false_of_ne
      intro hc
      have := congrArg BitVec.toNat hc
      rw [toNat_H8 (by omega)] at this
      exact h0 this
    have hgt : decide (H8 r > H8 tr) = false := by
      rw [decide_eq_false_iff_not, BitVec.not_lt, BitVec.le_def, toNat_H8 (by omega), toNat_H8 htr]
      exact hr
    simp only [hne, hgt, Bool.false_eq_true, if_false]
    have hconv : (conv 64 (H8 tr - (H8 r - 1#8))).toNat = tr + 1 - r := by
      unfold conv
      rw [BitVec.toNat_setWidth, BitVec.toNat_sub, BitVec.toNat_sub, toNat_H8 (h := r) (by omega),
        toNat_H8 htr]
      simp
      omega
    have f := enc_facts hr
    have h64 : 2 ^ (tr + 1) ≤ 2 ^ 64 := two_pow_le_64 (by omega)
    have hsh : n >>> r < 2 ^ (tr + 1 - r) := by
      have := shiftRight_le_pow hle hr
      omega
    have hval : ((shr (BitVec.ofNat 64 n) (H8 r).toNat |||
        shl (shl 2#64 (H8 tr).toNat - 1#64) (conv 64 (H8 tr - (H8 r - 1#8))).toNat) &&&
        (shl 2#64 (H8 tr).toNat - 1#64)).toNat = Spec.enc tr (r, n >>> r) := by
      rw [hconv, toNat_H8 htr, toNat_H8 (h := r) (by omega), toNat_and_mask htr, BitVec.toNat_or,
        toNat_shr, toNat_shl, toNat_mask htr, hN, Nat.or_mod_two_pow,
        mod_64_mod_two_pow _ (by omega),
        pred_mul_mod (Nat.two_pow_pos _) (two_pow_le_of_le (by omega)),
        ← Nat.shiftRight_eq_div_pow, Nat.mod_eq_of_lt (by omega), enc_mul hr]
      have e : 2 ^ (tr + 1) - 2 ^ (tr + 1 - r) = 2 ^ (tr + 1 - r) * (2 ^ r - 1) := by
        rw [Nat.mul_sub_one, ← two_pow_split (show r ≤ tr + 1 by omega)]
      rw [e, Nat.or_comm, or_eq_add_of_lt hsh]
    have hpos : 0 < Spec.enc tr (r, n >>> r) := by
      have h1 : 2 ^ (tr + 1 - r) ≤ 2 ^ tr := two_pow_le_of_le (by omega)
      have h2 := Nat.two_pow_pos tr
      rw [enc_val]; generalize n >>> r = g; omega
    generalize hm : ((shr (BitVec.ofNat 64 n) (H8 r).toNat |||
        shl (shl 2#64 (H8 tr).toNat - 1#64) (conv 64 (H8 tr - (H8 r - 1#8))).toNat) &&&
        (shl 2#64 (H8 tr).toNat - 1#64)) = m at hval
    have hmne : (m != 0#64) = true := by
      rw [bne_iff_ne]
      intro e
      rw [e] at hval
      simp at hval
      omega
    rw [if_pos hmne]
    show (m - 1#64).toNat = _
    rw [BitVec.toNat_sub, hval]
    have := m.isLt
    simp
    omega

/-- the row cursor stops exactly on the row of an in-forest position -/
theorem rowCursor_E {p : Pos} (hp : InF n p) :
    ∀ (d k fuel : Nat), k + d = p.1 → d < fuel →
      rowCursor (BitVec.ofNat 64 n) (H8 (forestRows n)) (E (forestRows n) p) fuel (H8 k) =
        .ok (H8 p.1) := by
  have htr := rows_le_63 hn
  have hv := hp.valid
  have hle := le_two_pow_forestRows n
  intro d
  induction d with
  | zero =>
    intro k fuel hk hf
    obtain ⟨f, rfl⟩ : ∃ f, fuel = f + 1 := ⟨fuel - 1, by omega⟩
    have hkr : k = p.1 := by omega
    subst hkr
    unfold rowCursor
    have hnot : ¬ (E (forestRows n) p >
        (maxPositionAtRow (H8 p.1) (H8 (forestRows n)) (BitVec.ofNat 64 n)).1) := by
      show ¬ (_ < _)
      rw [BitVec.lt_def, maxPositionAtRow_enc hn hp.1, E_toNat htr hv]
      have h2 := hp.2
      obtain ⟨r, o⟩ := p
      simp only at h2 ⊢
      rw [enc_add _ r o, enc_add _ r (n >>> r)]
      omega
    rw [if_neg hnot]
  | succ d ih =>
    intro k fuel hk hf
    obtain ⟨f, rfl⟩ : ∃ f, fuel = f + 1 := ⟨fuel - 1, by omega⟩
    have hklt : k < p.1 := by omega
    have hkrows : k ≤ forestRows n := by have := hp.1; omega
    unfold rowCursor
    have hgt : E (forestRows n) p >
        (maxPositionAtRow (H8 k) (H8 (forestRows n)) (BitVec.ofNat 64 n)).1 := by
      show _ < _
      rw [BitVec.lt_def, maxPositionAtRow_enc hn hkrows, E_toNat htr hv]
      have hsh := shiftRight_le_pow hle hkrows
      have f1 := enc_facts hkrows
      have hp1 := hp.1
      -- `enc (k, n >> k) ≤ enc (k+1, 0) ≤ enc p`
      have h1 : Spec.enc (forestRows n) (k, n >>> k) ≤ Spec.enc (forestRows n) (k + 1, 0) := by
        rw [enc_val, enc_val]
        have e : forestRows n + 1 - (k + 1) = forestRows n - k := by omega
        rw [e]
        omega
      have h2 : Spec.enc (forestRows n) (k + 1, 0) ≤ Spec.enc (forestRows n) p := by
        obtain ⟨r, o⟩ := p
        simp only at hklt hp1 ⊢
        rcases Nat.lt_or_ge (k + 1) r with hlt | hge
        · exact Nat.le_of_lt (enc_row_lt hp1 (Nat.two_pow_pos _) hlt)
        · have : r = k + 1 := by omega
          subst this
          rw [enc_add _ (k + 1) o]
          omega
      have hpos : 0 < Spec.enc (forestRows n) (k + 1, 0) := by
        have h3 : 2 ^ (forestRows n + 1 - (k + 1)) ≤ 2 ^ (forestRows n) := two_pow_le_of_le (by omega)
        have h4 := Nat.two_pow_pos (forestRows n)
        have h5 := two_pow_succ' (forestRows n)
        rw [enc_val]; omega
      omega
    rw [if_pos hgt]
    simp only
    have e1 : (H8 k + 1 : U8) = H8 (k + 1) := H8_add_one
    rw [e1]
    have hnot : ¬ (H8 (k + 1) > H8 (forestRows n)) := by
      show ¬ (_ < _)
      rw [BitVec.lt_def, toNat_H8 htr, toNat_H8 (by have := hp.1; omega)]
      have := hp.1
      omega
    rw [if_neg hnot]
    exact ih (k + 1) f (by omega) (by omega)

/-! ### the root test -/

theorem isRootPositionOnRow_E {p : Pos} (hp : InF n p) :
    isRootPositionOnRow (E (forestRows n) p) (BitVec.ofNat 64 n) (H8 p.1) = isRootPos n p := by
  have htr := rows_le_63 hn
  have hv := hp.valid
  have hle := le_two_pow_forestRows n
  have hr63 : p.1 ≤ 63 := Nat.le_trans hp.1 htr
  unfold isRootPositionOnRow isRootPos
  simp only
  have hbit : ((BitVec.ofNat 64 n &&& shl 1#64 (H8 p.1).toNat) != 0#64) = n.testBit p.1 := by
    rw [toNat_H8 hr63, one_shl_eq_twoPow, and_twoPow_ne_zero _ (by omega), getLsbD_ofNat64 (by omega)]
  rw [hbit]
  cases hb : n.testBit p.1 with
  | false => rfl
  | true =>
    simp only [Bool.true_and]
    have hlt : n < 2 ^ (forestRows n + 1) := by
      have := two_pow_succ' (forestRows n)
      have := Nat.two_pow_pos (forestRows n)
      omega
    rw [treeRows_eq' hn, rootPosition_enc htr hp.1 hlt (rootOffset_lt hb)]
    have hvr : Valid (forestRows n) (p.1, 2 * (n >>> (p.1 + 1))) := ⟨hp.1, rootOffset_lt hb⟩
    by_cases he : p.2 = 2 * (n >>> (p.1 + 1))
    · have : encU (forestRows n) p.1 (2 * (n >>> (p.1 + 1))) = E (forestRows n) p := by
        unfold E; rw [← he]
      rw [this]
      simp [he]
    · have : encU (forestRows n) p.1 (2 * (n >>> (p.1 + 1))) ≠ E (forestRows n) p := by
        intro h
        have := E_inj htr hvr hv h
        exact he (congrArg Prod.snd this).symm
      rw [beq_false_of_ne this, beq_false_of_ne he]

end cursor

end UtreexoVerif.Proofs.CalcGeo
