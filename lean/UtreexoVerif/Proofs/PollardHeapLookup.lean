/-
  Pointer forest, heap model: `getNode` / `getHash` on a heap that represents a specification
  forest is the look-up model `Model/PollardAbs.lean` (`pollardGetHashNiece`, proved equal to
  the specification look-up in `Props/C10.lean`).
-/
import UtreexoVerif.Proofs.PollardHeap
set_option linter.unusedSectionVars false
set_option linter.unusedVariables false
set_option linter.unusedSimpArgs false

namespace UtreexoVerif.Proofs.PollardHeap
open UtreexoVerif UtreexoVerif.Model UtreexoVerif.Model.PollardHeap UtreexoVerif.Spec Hasher
open UtreexoVerif.Model.PollardAbs

variable {H : Type} [DecidableEq H] [Hasher H]

/-- the loop of `getNode` on the heap follows `PollardAbs.nieceWalk` on the collapsed trees:
`n` carries `tn`, its sibling `s` carries `ts`, each one's children hang off the other -/
theorem getNodeLoop_walk {hp : Heap H} : ∀ (k : Nat) (bits : U64) (n s : Nat) (tn ts : CTree H)
    (fn fs : List Nat) (ln ls : List (H × Nat)) (par : Ptr) (st : Pollard H),
    st.heap = hp → Sub hp n s tn fn ln → Sub hp s n ts fs ls →
    ∃ res, getNodeLoop k bits n (some s) par st = (.ok res, st) ∧
      (match nieceWalk tn ts k bits with
       | none => res.1 = none
       | some t' => ∃ n' x, res.1 = some n' ∧ hp[n']? = some x ∧ x.data = t'.hash) := by
  intro k
  induction k with
  | zero =>
    intro bits n s tn ts fn fs ln ls par st hst sn ss
    obtain ⟨x, ex, dx⟩ := sn.hash
    exact ⟨(some n, some s, par), rfl, by simp [nieceWalk]; exact ⟨x, ex, dx⟩⟩
  | succ k ih =>
    intro bits n s tn ts fn fs ln ls par st hst sn ss
    -- the nieces of `n` are the children of `s`
    cases ss with
    | leaf h1 h2 h3 h4 h5 =>
      rename_i nn0 hn0 x0
      refine ⟨(none, none, none), ?_, ?_⟩
      rotate_left
      · unfold nieceWalk child; rfl
      unfold getNodeLoop
      simp only [bind_apply, node_apply, hst, h3, h4, h5, ite_self, pure_apply]
    | node h1 h2 h3 h4 h5 h6 h7 h8 h9 sa sb =>
      rename_i l r nn0 hn0 lnn rnn a b fa fb la lb
      unfold getNodeLoop
      simp only [bind_apply, node_apply, hst, h3, h4, h5]
      by_cases hb : leftNieceAt bits k = true
      · obtain ⟨res, e1, e2⟩ := ih bits l r a b fa fb la lb (some s) st hst sa sb
        refine ⟨res, ?_, ?_⟩
        · simp only [hb, if_true]; exact e1
        · simpa [nieceWalk, child, hb] using e2
      · obtain ⟨res, e1, e2⟩ := ih bits r l b a fb fa lb la (some s) st hst sb sa
        refine ⟨res, ?_, ?_⟩
        · simp only [hb]; exact e1
        · simpa [nieceWalk, child, hb] using e2

/-- a node without nieces: the walk stops at once -/
theorem getNodeLoop_deadEnd (k : Nat) (bits : U64) (n : Nat) (s par : Ptr) (st : Pollard H)
    (x : PolNode H) (e : st.heap[n]? = some x) (hl : x.lNiece = none) (hr : x.rNiece = none) :
    getNodeLoop (k + 1) bits n s par st = (.ok (none, none, none), st) := by
  unfold getNodeLoop
  simp only [bind_apply, node_apply, e, hl, hr, ite_self, pure_apply]

theorem ReprRoots.getElem {hp : Heap H} {rs : List Nat} {ts : List (Option (CTree H))}
    {owned : List Nat} {lv : List (H × Nat)} (h : ReprRoots hp rs ts owned lv) :
    ∀ (i : Nat) (r : Nat) (t : Option (CTree H)), rs[i]? = some r → ts[i]? = some t →
    ∃ fp l, ReprRoot hp r t fp l := by
  induction h with
  | nil => intro i r t h; simp at h
  | cons a b ih =>
    intro i r t h1 h2
    cases i with
    | zero => simp at h1 h2; subst h1 h2; exact ⟨_, _, a⟩
    | succ i => simp at h1 h2; exact ih i r t h1 h2

theorem treeRowsFrom_length_le (h n : Nat) : (treeRowsFrom h n).length ≤ h + 1 := by
  induction h with
  | zero => unfold treeRowsFrom; split <;> simp
  | succ h ih =>
    unfold treeRowsFrom
    split
    · simp only [List.length_cons]; omega
    · omega

/-- **`GetHash` refines the look-up model**: on a heap representing `F`, `getHash` returns, for
every `uint64` position, what `PollardAbs.pollardGetHashNiece` (= the specification look-up,
`Props.C10.pollardGetHashNiece_spec`) returns, and leaves the state unchanged -/
theorem getHash_abs {p : Pollard H} {F : Forest H} (a : Abs p F) (pos : U64) :
    getHash pos p = (.ok (pollardGetHashNiece F pos), p) := by
  obtain ⟨hnl, owned, lv, hroots, _, _⟩ := a
  have hN : p.numLeaves = BitVec.ofNat 64 F.numLeaves := by
    rw [← hnl]; simp
  have hlen := hroots.length_eq
  have hL : p.roots.length ≤ 65 := by
    rw [hlen]; simp only [List.length_map, Forest.trees]
    exact treeRowsFrom_length_le 64 _
  unfold getHash pollardGetHashNiece getNodeHash getNode
  simp only [bind_apply, getNumLeaves_apply, getRoots_apply, ← hN]
  by_cases hg : (decide (pos ≥ maxPosition (TreeRows p.numLeaves)) ||
      !inForest pos p.numLeaves (TreeRows p.numLeaves)) = true
  · simp only [hg, if_true]; rfl
  · simp only [hg]
    rcases hd : DetectOffset pos p.numLeaves with ⟨tree, branchLen, bits, e⟩
    simp only
    by_cases he : e = true
    · simp only [he, if_true]; rfl
    · simp only [he]
      have htree : tree.toNat < 256 := tree.isLt
      by_cases hge : tree ≥ BitVec.ofNat 8 p.roots.length
      · -- more trees asked for than there are roots
        have : p.roots.length ≤ tree.toNat := by
          have := BitVec.le_def.mp hge
          simp only [BitVec.toNat_ofNat] at this
          rwa [Nat.mod_eq_of_lt (by omega)] at this
        have hnone : F.trees[tree.toNat]? = none := by
          apply List.getElem?_eq_none
          have : (F.trees.map (·.2)).length ≤ tree.toNat := by rw [← hlen]; exact this
          simpa using this
        simp only [hge, if_true, hnone]; rfl
      · have hlt : tree.toNat < p.roots.length := by
          have := BitVec.not_le.mp hge
          have := BitVec.lt_def.mp this
          simp only [BitVec.toNat_ofNat] at this
          rwa [Nat.mod_eq_of_lt (by omega)] at this
        have hlt' : tree.toNat < F.trees.length := by
          have : tree.toNat < (F.trees.map (·.2)).length := by rw [← hlen]; exact hlt
          simpa using this
        obtain ⟨r, hr⟩ : ∃ r, p.roots[tree.toNat]? = some r := ⟨_, List.getElem?_eq_getElem hlt⟩
        obtain ⟨q, hq⟩ : ∃ q, F.trees[tree.toNat]? = some q := ⟨_, List.getElem?_eq_getElem hlt'⟩
        obtain ⟨fp, l, hrep⟩ := hroots.getElem tree.toNat r q.2 hr (by simp [hq])
        simp only [hge, hr, hq, Bool.false_eq_true, if_false]
        obtain ⟨row, t⟩ := q
        cases t with
        | none =>
          obtain ⟨⟨rn, e1, _, e2, e3, e4⟩, _⟩ := hrep
          cases hk : branchLen.toNat with
          | zero => simp [getNodeLoop, e1, e2]
          | succ k =>
            rw [getNodeLoop_deadEnd k bits r (some r) none p rn e1 e3 e4]
            simp
        | some t =>
          obtain ⟨_, hs⟩ := hrep
          obtain ⟨res, e1, e2⟩ := getNodeLoop_walk branchLen.toNat bits r r t t fp fp l l none p rfl hs hs
          simp only [e1]
          cases hw : nieceWalk t t branchLen.toNat bits with
          | none =>
            simp only [hw] at e2
            obtain ⟨r1, r2, r3⟩ := res
            simp only at e2; subst e2
            simp
          | some t' =>
            simp only [hw] at e2
            obtain ⟨n', x, e3, e4, e5⟩ := e2
            obtain ⟨r1, r2, r3⟩ := res
            simp only at e3; subst e3
            simp [e4, e5]

end UtreexoVerif.Proofs.PollardHeap
