/-
  Small helper lemmas for the C07 assembly: `sortBy` commutes with `map`, positions of leaves
  satisfy the hypotheses of `proofPositions_spec`, `proofPositions` depends on the set of
  targets only, proof positions are nodes.
-/
import UtreexoVerif.Proofs.MovePP
import UtreexoVerif.Proofs.ProofUpdateLists
import UtreexoVerif.Props.C16c

namespace UtreexoVerif.Proofs.ProofUpdateHelpers
open UtreexoVerif Spec Hasher Model
open UtreexoVerif.Proofs UtreexoVerif.Proofs.SpecNodes UtreexoVerif.Proofs.SpecSubs
open UtreexoVerif.Proofs.SpecPlan UtreexoVerif.Proofs.CalcComplete
open UtreexoVerif.Proofs.CalcGeo UtreexoVerif.Proofs.Movement UtreexoVerif.Proofs.CalcPlan
open UtreexoVerif.Proofs.Sorted UtreexoVerif.Proofs.MovePP

/-! ### sorting -/

theorem insertBy_map {α β : Type} (key : β → U64) (f : α → β) (x : α) : ∀ (l : List α),
    insertBy key (f x) (l.map f) = (insertBy (key ∘ f) x l).map f := by
  intro l
  induction l with
  | nil => rfl
  | cons y ys ih =>
    simp only [List.map_cons, insertBy, Function.comp]
    split
    · rfl
    · rw [List.map_cons, ih]

theorem foldl_insertBy_map {α β : Type} (key : β → U64) (f : α → β) : ∀ (l acc : List α),
    (l.map f).foldl (fun a x => insertBy key x a) (acc.map f) =
      (l.foldl (fun a x => insertBy (key ∘ f) x a) acc).map f := by
  intro l
  induction l with
  | nil => intro acc; rfl
  | cons x xs ih =>
    intro acc
    simp only [List.map_cons, List.foldl_cons]
    rw [insertBy_map, ih]

/-- sorting commutes with mapping -/
theorem sortBy_map {α β : Type} (key : β → U64) (f : α → β) (l : List α) :
    sortBy key (l.map f) = (sortBy (key ∘ f) l).map f := by
  unfold sortBy
  exact foldl_insertBy_map key f l []

section
set_option linter.unusedSectionVars false
variable {H : Type} [DecidableEq H] [Hasher H]

/-! ### positions of leaves -/

theorem Under.trans {R O : Nat} {x y : Pos} (h1 : Under R O x) (h2 : Under x.1 x.2 y) :
    Under R O y := by
  obtain ⟨a1, a2⟩ := h1
  obtain ⟨b1, b2⟩ := h2
  refine ⟨by omega, ?_⟩
  rw [← a2, ← b2, Nat.div_div_eq_div_mul, ← Nat.pow_add]
  congr 2
  omega

/-- inside a collapsed tree, a node lying under the position of another node is a node of that
node's subtree -/
theorem subs_under_sub : ∀ (t : CTree H) (r o : Nat), depth t ≤ r →
    ∀ x ∈ subs t r o, ∀ y ∈ subs t r o, Under x.1.1 x.1.2 y.1 → y ∈ subs x.2 x.1.1 x.1.2 := by
  intro t
  induction t with
  | leaf h =>
    intro r o _ x hx y hy _
    simp only [subs, List.mem_singleton] at hx hy
    subst hx hy
    exact subs_head _ _ _
  | node a b iha ihb =>
    intro r o hd x hx y hy hu
    simp only [depth] at hd
    have hda : depth a ≤ r - 1 := by omega
    have hdb : depth b ≤ r - 1 := by omega
    simp only [subs, List.mem_cons, List.mem_append] at hx hy
    rcases hx with rfl | hx | hx
    · simp only [subs, List.mem_cons, List.mem_append]
      exact hy
    · have hux := subs_under a _ _ hda x hx
      rcases hy with rfl | hy | hy
      · exfalso; have := hu.1; have := hux.1; simp only at *; omega
      · exact iha _ _ hda x hx y hy hu
      · exfalso
        exact Spec.under_children_disjoint (Under.trans hux hu) (subs_under b _ _ hdb y hy)
    · have hux := subs_under b _ _ hdb x hx
      rcases hy with rfl | hy | hy
      · exfalso; have := hu.1; have := hux.1; simp only at *; omega
      · exfalso
        exact Spec.under_children_disjoint (subs_under a _ _ hda y hy) (Under.trans hux hu)
      · exact ihb _ _ hdb x hx y hy hu

theorem belowRoot_of_sub {F : Forest H} {h : Nat} {p : Pos} {t : CTree H} (s : SubAtT F h p t) :
    BelowRoot F.numLeaves p.1 p.2 h :=
  ⟨s.row_le, s.bit, s.under.2⟩

/-- nothing lies below a leaf -/
theorem anc_leaf_eq {F : Forest H} {h h' : Nat} {a b : Pos} {l : H} {tb : CTree H}
    (sa : SubAtT F h a (.leaf l)) (sb : SubAtT F h' b tb) (hanc : Anc a b) : a = b := by
  have hu : Under a.1 a.2 b := ⟨hanc.1, hanc.2.symm⟩
  have hh : h' = h := MoveDT_tree_of_under sb sa.bit (Under.trans sa.under hu)
  subst hh
  obtain ⟨t0, ht0, hdep, hma⟩ := sa.tree
  obtain ⟨t0', ht0', _, hmb⟩ := sb.tree
  rw [ht0] at ht0'
  injection ht0' with e
  subst e
  have := subs_under_sub t0 _ _ hdep _ hma _ hmb hu
  simp only [subs, List.mem_singleton] at this
  exact (congrArg Prod.fst this).symm
where
  MoveDT_tree_of_under {F : Forest H} {h h' : Nat} {T : Pos} {t : CTree H} (s : SubAtT F h' T t)
      (hh : F.numLeaves.testBit h = true) (hu : Under h (2 * (F.numLeaves >>> (h + 1))) T) :
      h' = h := by
    rcases Nat.lt_trichotomy h h' with hlt | heq | hgt
    · exact (under_disjoint hlt s.bit s.under hu).elim
    · exact heq.symm
    · exact (under_disjoint hgt hh hu s.under).elim

/-- **strictly sorted positions of leaves satisfy the hypotheses of `proofPositions_spec`** -/
theorem leaves_ppHyp {F : Forest H} {Tg : List Pos} (tok : TargetsOK F Tg)
    (hs : Tg.Pairwise Sorted.PLt) : PPHyp F.numLeaves Tg where
  inForest := by
    intro t ht
    obtain ⟨h, l, s⟩ := tok t ht
    exact ⟨h, belowRoot_of_sub s⟩
  sorted := hs.imp (fun {a b} hab => (posLt_iff a b).2 hab)
  anti := by
    intro a ha b hb hab
    obtain ⟨h, l, sa⟩ := tok a ha
    obtain ⟨h', l', sb⟩ := tok b hb
    exact anc_leaf_eq sa sb hab

/-! ### `proofPositions` -/

/-- the canonical proof positions depend on the set of targets only -/
theorem proofPositions_congr (F : Forest H) {t1 t2 : List Pos} (h : ∀ x, x ∈ t1 ↔ x ∈ t2) :
    F.proofPositions t1 = F.proofPositions t2 := by
  have e : pathSet F t1 = pathSet F t2 := by
    apply eq_of_psorted (pathSet_sorted F t1) (pathSet_sorted F t2)
    intro x
    rw [mem_pathSet, mem_pathSet]
    constructor
    · rintro ⟨t, ht, hx⟩; exact ⟨t, (h t).1 ht, hx⟩
    · rintro ⟨t, ht, hx⟩; exact ⟨t, (h t).2 ht, hx⟩
  rw [proofPositions_eq, proofPositions_eq, e]

theorem mem_proofPositions {F : Forest H} {tg : List Pos} {q : Pos} :
    q ∈ F.proofPositions tg ↔ ∃ c ∈ pathSet F tg, isRootPos F.numLeaves c = false ∧
      sib c ∉ pathSet F tg ∧ q = sib c := by
  rw [proofPositions_eq]
  simp only [List.mem_map, List.mem_filter, needsProof, Bool.and_eq_true, Bool.not_eq_true',
    decide_eq_false_iff_not]
  constructor
  · rintro ⟨c, ⟨h1, h2, h3⟩, rfl⟩; exact ⟨c, h1, h2, h3, rfl⟩
  · rintro ⟨c, h1, h2, h3, rfl⟩; exact ⟨c, ⟨h1, h2, h3⟩, rfl⟩

theorem proofPositions_sorted (F : Forest H) (tg : List Pos) :
    (F.proofPositions tg).Pairwise Sorted.PLt := by
  unfold Forest.proofPositions
  exact sortDedup_sorted _

/-- a canonical proof position is a node: the sibling of a path node -/
theorem pp_node {F : Forest H} {tg : List Pos} (tok : TargetsOK F tg) {q : Pos}
    (hq : q ∈ F.proofPositions tg) : ∃ h t, SubAtT F h q t := by
  obtain ⟨c, hc, hr, _, rfl⟩ := mem_proofPositions.1 hq
  obtain ⟨h, t, s⟩ := pathSet_sub tok hc
  obtain ⟨_, s', _, ss⟩ := s.parent hr
  exact ⟨h, s', ss⟩

/-- a canonical proof position is not a root position -/
theorem pp_not_root {F : Forest H} {tg : List Pos} (tok : TargetsOK F tg) {q : Pos}
    (hq : q ∈ F.proofPositions tg) : isRootPos F.numLeaves q = false := by
  obtain ⟨c, hc, hr, _, rfl⟩ := mem_proofPositions.1 hq
  obtain ⟨h, t, s⟩ := pathSet_sub tok hc
  exact not_root_sib s.inF

/-- a leaf hash has one position -/
theorem posOf_inj {F : Forest H} {x y : H} {p : Pos} (hx : F.posOf x = some p)
    (hy : F.posOf y = some p) : x = y := by
  obtain ⟨h, sx⟩ := posOf_sub hx
  obtain ⟨h', sy⟩ := posOf_sub hy
  have := (sx.unique sy).2
  injection this

end
end UtreexoVerif.Proofs.ProofUpdateHelpers
