/-
  `ProofPositions`, step 2: on encoded positions the row scan is a scan over (row, offset)
  pairs using only `parent`, `sib` and `isRootPos` of the specification; the per-row
  `slices.Sort` + `slices.Compact` is `compactPos ∘ sortPos`.
-/
import UtreexoVerif.Proofs.ProofPos

namespace UtreexoVerif.Proofs
open UtreexoVerif UtreexoVerif.GoInt UtreexoVerif.Props.C16

/-- a (row, offset) pair that is a position of the `H`-row geometry -/
def ValidH (H : Nat) (p : Spec.Pos) : Prop := p.1 ≤ H ∧ p.2 < 2 ^ (H - p.1)

/-- position-level mirror of `insertBy id` -/
def insertPos (x : Spec.Pos) : List Spec.Pos → List Spec.Pos
  | [] => [x]
  | y :: ys => if Spec.Forest.posLt x y then x :: y :: ys else y :: insertPos x ys

/-- position-level mirror of `sortU64` -/
def sortPos (l : List Spec.Pos) : List Spec.Pos := l.foldl (fun acc x => insertPos x acc) []

/-- one row of `ProofPositions` on (row, offset) pairs -/
def scanPos (n ρ : Nat) : List Spec.Pos → List Spec.Pos × List Spec.Pos × List Spec.Pos
  | [] => ([], [], [])
  | [t] =>
    if t.1 != ρ || Spec.isRootPos n t then ([t], [], [])
    else ([Spec.parent t], [Spec.parent t], [Spec.sib t])
  | t :: nxt :: rest =>
    if t.1 != ρ || Spec.isRootPos n t then
      (t :: (scanPos n ρ (nxt :: rest)).1, (scanPos n ρ (nxt :: rest)).2.1,
        (scanPos n ρ (nxt :: rest)).2.2)
    else if nxt == (ρ, 2 * (t.2 / 2) + 1) then
      (Spec.parent t :: nxt :: (scanPos n ρ rest).1,
        Spec.parent t :: (scanPos n ρ rest).2.1, (scanPos n ρ rest).2.2)
    else
      (Spec.parent t :: (scanPos n ρ (nxt :: rest)).1,
        Spec.parent t :: (scanPos n ρ (nxt :: rest)).2.1,
        Spec.sib t :: (scanPos n ρ (nxt :: rest)).2.2)

/-- position-level mirror of `Model.compactAux` -/
def compactPosAux (prev : Spec.Pos) : List Spec.Pos → List Spec.Pos
  | [] => []
  | x :: xs => if x == prev then compactPosAux prev xs else x :: compactPosAux x xs

/-- position-level mirror of `Model.compactU64` (`slices.Compact`) -/
def compactPos : List Spec.Pos → List Spec.Pos
  | [] => []
  | x :: xs => x :: compactPosAux x xs

/-- all rows: state = (targets, computable so far, proof positions so far); after each row the
target list is sorted and compacted -/
def outerPos (n : Nat) : Nat → Nat → List Spec.Pos × List Spec.Pos × List Spec.Pos →
    List Spec.Pos × List Spec.Pos × List Spec.Pos
  | 0, _, s => s
  | f + 1, ρ, s =>
    outerPos n f (ρ + 1)
      (compactPos (sortPos (scanPos n ρ s.1).1), s.2.1 ++ (scanPos n ρ s.1).2.1,
        s.2.2 ++ (scanPos n ρ s.1).2.2)

/-- `ProofPositions` on (row, offset) pairs: (proof positions, computable positions) -/
def refPP (n H : Nat) (targets : List Spec.Pos) : List Spec.Pos × List Spec.Pos :=
  ((outerPos n (H + 1) 0 (targets, [], [])).2.2, (outerPos n (H + 1) 0 (targets, [], [])).2.1)

/-! ### order and injectivity of the encoding -/

theorem encP_toNat {H : Nat} {p : Spec.Pos} (hH : H ≤ 63) (hp : ValidH H p) :
    (encP H p).toNat = Spec.enc H p :=
  toNat_encU hH hp.1 hp.2

theorem encP_lt_iff {H : Nat} {p q : Spec.Pos} (hH : H ≤ 63) (hp : ValidH H p) (hq : ValidH H q) :
    encP H p < encP H q ↔ Spec.Forest.posLt p q = true := by
  obtain ⟨r, o⟩ := p
  obtain ⟨r', o'⟩ := q
  rw [BitVec.lt_def, encP_toNat hH hp, encP_toNat hH hq]
  simp only [Spec.Forest.posLt, Bool.or_eq_true, decide_eq_true_eq, Bool.and_eq_true, beq_iff_eq]
  obtain ⟨hr, ho⟩ := hp
  obtain ⟨hr', ho'⟩ := hq
  simp only at hr ho hr' ho'
  constructor
  · intro hlt
    rcases Nat.lt_trichotomy r r' with h | h | h
    · exact Or.inl h
    · subst h
      right
      refine ⟨rfl, ?_⟩
      rw [enc_add H r o, enc_add H r o'] at hlt
      omega
    · have := enc_row_lt (o' := o) hr ho' h
      omega
  · rintro (h | ⟨h1, h2⟩)
    · exact enc_row_lt hr' ho h
    · subst h1
      rw [enc_add H r o, enc_add H r o']
      omega

theorem encP_inj {H : Nat} {p q : Spec.Pos} (hH : H ≤ 63) (hp : ValidH H p) (hq : ValidH H q)
    (e : encP H p = encP H q) : p = q := by
  obtain ⟨r, o⟩ := p
  obtain ⟨r', o'⟩ := q
  have := congrArg BitVec.toNat e
  rw [encP_toNat hH hp, encP_toNat hH hq] at this
  obtain ⟨h1, h2⟩ := enc_injective hp.1 hp.2 hq.1 hq.2 this
  simp only at h1 h2
  rw [h1, h2]


/-! ### element-wise facts -/

theorem H8_bne {a b : Nat} (ha : a ≤ 63) (hb : b ≤ 63) : (H8 a != H8 b) = (a != b) := by
  by_cases h : a = b
  · subst h; simp
  · have : H8 a ≠ H8 b := by
      intro hc
      have := congrArg BitVec.toNat hc
      rw [toNat_H8 ha, toNat_H8 hb] at this
      exact h this
    rw [bne_iff_ne.2 this, bne_iff_ne.2 h]

/-- the three `continue` tests, on an encoded position -/
theorem skipT_encP {H h ρ : Nat} {p : Spec.Pos} (n : U64) (hT : Model.TreeRows n = H8 h)
    (hH : H ≤ 63) (hhH : h ≤ H) (hρ : ρ ≤ H) (hp : ValidH H p)
    (hin : p.1 = ρ → p.1 ≤ h ∧ p.2 < 2 ^ (h - p.1)) :
    skipT n (H8 H) (H8 ρ) (encP H p) = (p.1 != ρ || Spec.isRootPos n.toNat p) := by
  obtain ⟨r, o⟩ := p
  obtain ⟨hr, ho⟩ := hp
  simp only at hr ho hin
  have hmaxv : ValidH H (ρ, 2 ^ (H - ρ) - 1) :=
    ⟨hρ, by show 2 ^ (H - ρ) - 1 < 2 ^ (H - ρ); have := Nat.two_pow_pos (H - ρ); omega⟩
  have e1 : decide (encP H (r, o) > Model.maxPossiblePosAtRow (H8 ρ) (H8 H)) = decide (ρ < r) := by
    rw [maxPossiblePosAtRow_enc hH hρ]
    apply decide_eq_decide.2
    rw [gt_iff_lt]
    refine (encP_lt_iff (p := (ρ, 2 ^ (H - ρ) - 1)) (q := (r, o)) hH hmaxv ⟨hr, ho⟩).trans ?_
    simp only [Spec.Forest.posLt, Bool.or_eq_true, decide_eq_true_eq, Bool.and_eq_true, beq_iff_eq]
    constructor
    · rintro (h1 | ⟨h1, h2⟩)
      · exact h1
      · subst h1; omega
    · intro h1; exact Or.inl h1
  unfold skipT
  rw [e1, show encP H (r, o) = encU H r o from rfl, detectRow_enc hH hr ho,
    show BitVec.ofNat 8 r = H8 r from rfl, H8_bne (by omega) (by omega)]
  by_cases hrρ : r = ρ
  · subst hrρ
    obtain ⟨hrh, hoh⟩ := hin rfl
    rw [isRootPositionOnRowTotalRows_enc n _ hT hH hr ho (by omega) hrh hoh, toNat_H8 (by omega)]
    simp
  · have : (ρ != r) = true := by simp; omega
    by_cases hlt : ρ < r
    · simp [hlt, hrρ]
    · simp [this, hrρ]

theorem rightSib_encP_beq {H ρ o : Nat} {q : Spec.Pos} (hH : H ≤ 63) (hρ : ρ < H)
    (ho : o < 2 ^ (H - ρ)) (hq : ValidH H q) :
    (Model.rightSib (encP H (ρ, o)) == encP H q) = (q == (ρ, 2 * (o / 2) + 1)) := by
  have g := enc_facts_succ hρ
  have hv : ValidH H (ρ, 2 * (o / 2) + 1) :=
    ⟨by show ρ ≤ H; omega, by show 2 * (o / 2) + 1 < 2 ^ (H - ρ); omega⟩
  rw [show encP H (ρ, o) = encU H ρ o from rfl, rightSib_enc hH (by omega) ho,
    show encU H ρ (2 * (o / 2) + 1) = encP H (ρ, 2 * (o / 2) + 1) from rfl]
  by_cases hqe : q = (ρ, 2 * (o / 2) + 1)
  · subst hqe; simp
  · have : encP H (ρ, 2 * (o / 2) + 1) ≠ encP H q := fun hc => hqe (encP_inj hH hv hq hc).symm
    rw [beq_false_of_ne this, beq_false_of_ne hqe]

theorem parent_encP {H ρ o : Nat} (hH : H ≤ 63) (hρ : ρ < H) (ho : o < 2 ^ (H - ρ)) :
    Model.Parent (encP H (ρ, o)) (H8 H) = encP H (Spec.parent (ρ, o)) :=
  parent_enc hH hρ ho

theorem sibling_encP {H : Nat} {p : Spec.Pos} (hH : H ≤ 63) (hp : ValidH H p) :
    Model.sibling (encP H p) = encP H (Spec.sib p) :=
  sibling_enc_sib hH hp.1 hp.2


/-! ### the row scan on encoded positions -/

/-- every entry is a position of the `H`-row geometry and the entries on the current row
are nodes of the forest -/
def InvRow (n H ρ : Nat) (L : List Spec.Pos) : Prop :=
  ∀ p ∈ L, ValidH H p ∧ (p.1 = ρ → ∃ R, BelowRoot n p.1 p.2 R)

theorem rowScan_encP {H h ρ : Nat} (n : U64) (hT : Model.TreeRows n = H8 h)
    (hH : H ≤ 63) (hhH : h ≤ H) (hρ : ρ ≤ H) :
    ∀ (L : List Spec.Pos), InvRow n.toNat H ρ L →
      rowScan n (H8 H) (H8 ρ) (L.map (encP H)) =
        ((scanPos n.toNat ρ L).1.map (encP H), (scanPos n.toNat ρ L).2.1.map (encP H),
          (scanPos n.toNat ρ L).2.2.map (encP H))
  | [], _ => rfl
  | [t], hL => by
    have hh : h ≤ 63 := by omega
    have hn := le_of_treeRows n hT hh
    obtain ⟨hv, hin⟩ := hL t (by simp)
    have hin' : t.1 = ρ → t.1 ≤ h ∧ t.2 < 2 ^ (h - t.1) := by
      intro e; obtain ⟨R, hb⟩ := hin e
      exact (belowRoot_valid hn hb).2
    have hs := skipT_encP n hT hH hhH hρ hv hin'
    simp only [List.map_cons, List.map_nil, rowScan, scanPos, hs]
    by_cases hc : (t.1 != ρ || Spec.isRootPos n.toNat t) = true
    · simp [hc]
    · simp only [hc, Bool.false_eq_true, if_false]
      obtain ⟨r, o⟩ := t
      simp only [Bool.or_eq_true, bne_iff_ne, ne_eq, not_or, Decidable.not_not,
        Bool.not_eq_true] at hc
      obtain ⟨hrρ, hnr⟩ := hc
      subst hrρ
      obtain ⟨R, hb⟩ := hin rfl
      have hRh := (belowRoot_valid hn hb).1
      have hne : r ≠ R := by
        intro e; rw [belowRoot_isRootPos hb] at hnr; simp [e] at hnr
      have hr1 := hb.1
      simp only at hr1
      rw [parent_encP hH (by omega) hv.2, sibling_encP hH hv]
      rfl
  | t :: nxt :: rest, hL => by
    have hh : h ≤ 63 := by omega
    have hn := le_of_treeRows n hT hh
    obtain ⟨hv, hin⟩ := hL t (by simp)
    obtain ⟨hvn, _⟩ := hL nxt (by simp)
    have hin' : t.1 = ρ → t.1 ≤ h ∧ t.2 < 2 ^ (h - t.1) := by
      intro e; obtain ⟨R, hb⟩ := hin e
      exact (belowRoot_valid hn hb).2
    have hs := skipT_encP n hT hH hhH hρ hv hin'
    have ih1 := rowScan_encP n hT hH hhH hρ (nxt :: rest) (fun p hp => hL p (List.mem_cons_of_mem _ hp))
    have ih2 := rowScan_encP n hT hH hhH hρ rest
      (fun p hp => hL p (List.mem_cons_of_mem _ (List.mem_cons_of_mem _ hp)))
    simp only [List.map_cons] at ih1 ⊢
    rw [rowScan, scanPos, hs]
    by_cases hc : (t.1 != ρ || Spec.isRootPos n.toNat t) = true
    · simp only [hc, if_true, ih1, List.map_cons]
    · simp only [hc, Bool.false_eq_true, if_false]
      obtain ⟨r, o⟩ := t
      simp only [Bool.or_eq_true, bne_iff_ne, ne_eq, not_or, Decidable.not_not,
        Bool.not_eq_true] at hc
      obtain ⟨hrρ, hnr⟩ := hc
      subst hrρ
      obtain ⟨R, hb⟩ := hin rfl
      have hRh := (belowRoot_valid hn hb).1
      have hne : r ≠ R := by
        intro e; rw [belowRoot_isRootPos hb] at hnr; simp [e] at hnr
      have hr1 := hb.1
      simp only at hr1
      rw [parent_encP hH (by omega) hv.2, sibling_encP hH hv,
        rightSib_encP_beq hH (by omega) hv.2 hvn]
      by_cases hsib : (nxt == (r, 2 * (o / 2) + 1)) = true
      · simp only [hsib, if_true, ih2, List.map_cons]
      · simp only [hsib, Bool.false_eq_true, if_false, ih1, List.map_cons]


/-! ### sorting -/

theorem mem_insertPos {x y : Spec.Pos} : ∀ {l : List Spec.Pos}, y ∈ insertPos x l ↔ y = x ∨ y ∈ l
  | [] => by simp [insertPos]
  | z :: zs => by
    rw [insertPos]
    split
    · simp
    · rw [List.mem_cons, mem_insertPos (l := zs), List.mem_cons]
      constructor
      · rintro (h | h | h)
        · exact Or.inr (Or.inl h)
        · exact Or.inl h
        · exact Or.inr (Or.inr h)
      · rintro (h | h | h)
        · exact Or.inr (Or.inl h)
        · exact Or.inl h
        · exact Or.inr (Or.inr h)

theorem mem_foldl_insertPos {y : Spec.Pos} : ∀ (l acc : List Spec.Pos),
    y ∈ l.foldl (fun a x => insertPos x a) acc ↔ y ∈ l ∨ y ∈ acc
  | [], acc => by simp
  | x :: l, acc => by
    rw [List.foldl_cons, mem_foldl_insertPos l, mem_insertPos, List.mem_cons]
    constructor
    · rintro (h | h | h)
      · exact Or.inl (Or.inr h)
      · exact Or.inl (Or.inl h)
      · exact Or.inr h
    · rintro ((h | h) | h)
      · exact Or.inr (Or.inl h)
      · exact Or.inl h
      · exact Or.inr (Or.inr h)

theorem mem_sortPos {y : Spec.Pos} {l : List Spec.Pos} : y ∈ sortPos l ↔ y ∈ l := by
  unfold sortPos
  rw [mem_foldl_insertPos]
  simp

theorem insertBy_encP {H : Nat} (hH : H ≤ 63) {x : Spec.Pos} (hx : ValidH H x) :
    ∀ (acc : List Spec.Pos), (∀ p ∈ acc, ValidH H p) →
      Model.insertBy id (encP H x) (acc.map (encP H)) = (insertPos x acc).map (encP H)
  | [], _ => rfl
  | y :: ys, hacc => by
    have hy := hacc y (by simp)
    rw [List.map_cons, Model.insertBy, insertPos]
    simp only [id]
    by_cases hlt : Spec.Forest.posLt x y = true
    · rw [if_pos ((encP_lt_iff hH hx hy).2 hlt), if_pos hlt]; rfl
    · rw [if_neg (fun hc => hlt ((encP_lt_iff hH hx hy).1 hc)), if_neg hlt,
        insertBy_encP hH hx ys (fun p hp => hacc p (List.mem_cons_of_mem _ hp))]
      rfl

theorem foldl_insertBy_encP {H : Nat} (hH : H ≤ 63) :
    ∀ (l acc : List Spec.Pos), (∀ p ∈ l, ValidH H p) → (∀ p ∈ acc, ValidH H p) →
      (l.map (encP H)).foldl (fun a x => Model.insertBy id x a) (acc.map (encP H)) =
        (l.foldl (fun a x => insertPos x a) acc).map (encP H)
  | [], acc, _, _ => rfl
  | x :: l, acc, hl, hacc => by
    rw [List.map_cons, List.foldl_cons, List.foldl_cons,
      insertBy_encP hH (hl x (by simp)) acc hacc]
    apply foldl_insertBy_encP hH l _ (fun p hp => hl p (List.mem_cons_of_mem _ hp))
    intro p hp
    rcases mem_insertPos.1 hp with rfl | hp
    · exact hl p (by simp)
    · exact hacc p hp

theorem sortU64_encP {H : Nat} (hH : H ≤ 63) (l : List Spec.Pos) (hl : ∀ p ∈ l, ValidH H p) :
    Model.sortU64 (l.map (encP H)) = (sortPos l).map (encP H) := by
  unfold Model.sortU64 Model.sortBy sortPos
  exact foldl_insertBy_encP hH l [] hl (by simp)

/-! ### compaction -/

theorem mem_cons_compactPosAux {y : Spec.Pos} : ∀ (l : List Spec.Pos) (prev : Spec.Pos),
    y ∈ prev :: compactPosAux prev l ↔ y ∈ prev :: l
  | [], _ => by simp [compactPosAux]
  | x :: xs, prev => by
    rw [compactPosAux]
    by_cases h : (x == prev) = true
    · rw [if_pos h, mem_cons_compactPosAux xs prev]
      have e : x = prev := by simpa using h
      subst e
      simp
    · rw [if_neg h]
      have ih := mem_cons_compactPosAux (y := y) xs x
      simp only [List.mem_cons] at ih ⊢
      rw [ih]

/-- compaction keeps exactly the members (of any list) -/
theorem mem_compactPos {y : Spec.Pos} : ∀ {l : List Spec.Pos}, y ∈ compactPos l ↔ y ∈ l
  | [] => by simp [compactPos]
  | x :: xs => by rw [compactPos]; exact mem_cons_compactPosAux xs x

theorem compactAux_encP {H : Nat} (hH : H ≤ 63) :
    ∀ (l : List Spec.Pos) (prev : Spec.Pos), ValidH H prev → (∀ p ∈ l, ValidH H p) →
      Model.compactAux (encP H prev) (l.map (encP H)) = (compactPosAux prev l).map (encP H)
  | [], _, _, _ => rfl
  | x :: xs, prev, hp, hl => by
    have hx := hl x (by simp)
    have hxs : ∀ p ∈ xs, ValidH H p := fun p h => hl p (List.mem_cons_of_mem _ h)
    rw [List.map_cons, Model.compactAux, compactPosAux]
    by_cases h : x = prev
    · subst h
      simp only [beq_self_eq_true, if_true]
      exact compactAux_encP hH xs x hx hxs
    · have hne : encP H x ≠ encP H prev := fun hc => h (encP_inj hH hx hp hc)
      rw [beq_false_of_ne hne, beq_false_of_ne h]
      simp only [Bool.false_eq_true, if_false, List.map_cons]
      rw [compactAux_encP hH xs x hx hxs]

theorem compactU64_encP {H : Nat} (hH : H ≤ 63) (l : List Spec.Pos) (hl : ∀ p ∈ l, ValidH H p) :
    Model.compactU64 (l.map (encP H)) = (compactPos l).map (encP H) := by
  cases l with
  | nil => rfl
  | cons x xs =>
    rw [List.map_cons, Model.compactU64, compactPos, List.map_cons,
      compactAux_encP hH xs x (hl x (by simp)) (fun p h => hl p (List.mem_cons_of_mem _ h))]

/-! ### membership in the result of a row scan -/

theorem scanPos_mem (n ρ : Nat) : ∀ (L : List Spec.Pos),
    (∀ p, p ∈ (scanPos n ρ L).1 → p ∈ L ∨
      ∃ t ∈ L, t.1 = ρ ∧ Spec.isRootPos n t = false ∧ p = Spec.parent t) ∧
    (∀ p, p ∈ (scanPos n ρ L).2.1 →
      ∃ t ∈ L, t.1 = ρ ∧ Spec.isRootPos n t = false ∧ p = Spec.parent t) ∧
    (∀ p, p ∈ (scanPos n ρ L).2.2 →
      ∃ t ∈ L, t.1 = ρ ∧ Spec.isRootPos n t = false ∧ p = Spec.sib t)
  | [] => by simp [scanPos]
  | [t] => by
    rw [scanPos]
    by_cases hc : (t.1 != ρ || Spec.isRootPos n t) = true
    · simp [hc]
    · simp only [hc, Bool.false_eq_true, if_false]
      simp only [Bool.or_eq_true, bne_iff_ne, ne_eq, not_or, Decidable.not_not,
        Bool.not_eq_true] at hc
      refine ⟨?_, ?_, ?_⟩ <;> intro p hp <;> simp only [List.mem_singleton] at hp
      · exact Or.inr ⟨t, by simp, hc.1, hc.2, hp⟩
      · exact ⟨t, by simp, hc.1, hc.2, hp⟩
      · exact ⟨t, by simp, hc.1, hc.2, hp⟩
  | t :: nxt :: rest => by
    obtain ⟨a1, a2, a3⟩ := scanPos_mem n ρ (nxt :: rest)
    obtain ⟨b1, b2, b3⟩ := scanPos_mem n ρ rest
    have lift1 : ∀ {p : Spec.Pos} {f : Spec.Pos → Spec.Pos},
        (∃ t' ∈ nxt :: rest, t'.1 = ρ ∧ Spec.isRootPos n t' = false ∧ p = f t') →
        ∃ t' ∈ t :: nxt :: rest, t'.1 = ρ ∧ Spec.isRootPos n t' = false ∧ p = f t' := by
      rintro p f ⟨t', h1, h2⟩; exact ⟨t', List.mem_cons_of_mem _ h1, h2⟩
    have lift2 : ∀ {p : Spec.Pos} {f : Spec.Pos → Spec.Pos},
        (∃ t' ∈ rest, t'.1 = ρ ∧ Spec.isRootPos n t' = false ∧ p = f t') →
        ∃ t' ∈ t :: nxt :: rest, t'.1 = ρ ∧ Spec.isRootPos n t' = false ∧ p = f t' := by
      rintro p f ⟨t', h1, h2⟩
      exact ⟨t', List.mem_cons_of_mem _ (List.mem_cons_of_mem _ h1), h2⟩
    rw [scanPos]
    by_cases hc : (t.1 != ρ || Spec.isRootPos n t) = true
    · simp only [hc, if_true]
      refine ⟨?_, fun p hp => lift1 (a2 p hp), fun p hp => lift1 (a3 p hp)⟩
      intro p hp
      rcases List.mem_cons.1 hp with rfl | hp
      · exact Or.inl (by simp)
      · rcases a1 p hp with h | h
        · exact Or.inl (List.mem_cons_of_mem _ h)
        · exact Or.inr (lift1 h)
    · simp only [hc, Bool.false_eq_true, if_false]
      simp only [Bool.or_eq_true, bne_iff_ne, ne_eq, not_or, Decidable.not_not,
        Bool.not_eq_true] at hc
      have ht : ∃ t' ∈ t :: nxt :: rest, t'.1 = ρ ∧ Spec.isRootPos n t' = false ∧
          Spec.parent t = Spec.parent t' := ⟨t, by simp, hc.1, hc.2, rfl⟩
      have hts : ∃ t' ∈ t :: nxt :: rest, t'.1 = ρ ∧ Spec.isRootPos n t' = false ∧
          Spec.sib t = Spec.sib t' := ⟨t, by simp, hc.1, hc.2, rfl⟩
      by_cases hsib : (nxt == (ρ, 2 * (t.2 / 2) + 1)) = true
      · simp only [hsib, if_true]
        refine ⟨?_, ?_, fun p hp => lift2 (b3 p hp)⟩
        · intro p hp
          rcases List.mem_cons.1 hp with rfl | hp
          · exact Or.inr ht
          · rcases List.mem_cons.1 hp with rfl | hp
            · exact Or.inl (by simp)
            · rcases b1 p hp with h | h
              · exact Or.inl (List.mem_cons_of_mem _ (List.mem_cons_of_mem _ h))
              · exact Or.inr (lift2 h)
        · intro p hp
          rcases List.mem_cons.1 hp with rfl | hp
          · exact ht
          · exact lift2 (b2 p hp)
      · simp only [hsib, Bool.false_eq_true, if_false]
        refine ⟨?_, ?_, ?_⟩
        · intro p hp
          rcases List.mem_cons.1 hp with rfl | hp
          · exact Or.inr ht
          · rcases a1 p hp with h | h
            · exact Or.inl (List.mem_cons_of_mem _ h)
            · exact Or.inr (lift1 h)
        · intro p hp
          rcases List.mem_cons.1 hp with rfl | hp
          · exact ht
          · exact lift1 (a2 p hp)
        · intro p hp
          rcases List.mem_cons.1 hp with rfl | hp
          · exact hts
          · exact lift1 (a3 p hp)


/-! ### all rows -/

/-- every entry is a position of the `H`-row geometry; entries on the rows still to be
processed are nodes of the forest -/
def InvOuter (n H ρ : Nat) (L : List Spec.Pos) : Prop :=
  ∀ p ∈ L, ValidH H p ∧ (ρ ≤ p.1 → ∃ R, BelowRoot n p.1 p.2 R)

theorem InvOuter.row {n H ρ : Nat} {L : List Spec.Pos} (h : InvOuter n H ρ L) : InvRow n H ρ L :=
  fun p hp => ⟨(h p hp).1, fun e => (h p hp).2 (by omega)⟩

theorem InvOuter.step {n H h ρ : Nat} {L : List Spec.Pos} (hn : n ≤ 2 ^ h) (hhH : h ≤ H)
    (hI : InvOuter n H ρ L) : InvOuter n H (ρ + 1) (compactPos (sortPos (scanPos n ρ L).1)) := by
  intro p hp
  rw [mem_compactPos, mem_sortPos] at hp
  rcases (scanPos_mem n ρ L).1 p hp with h1 | ⟨t, ht, hrow, hroot, rfl⟩
  · exact ⟨(hI p h1).1, fun hle => (hI p h1).2 (by omega)⟩
  · obtain ⟨R, hb⟩ := (hI t ht).2 (by omega)
    have hne : t.1 ≠ R := by
      intro e
      have := belowRoot_isRootPos hb
      rw [show (t.1, t.2) = t from rfl, hroot] at this
      simp [e] at this
    have hb' := belowRoot_parent hb hne
    obtain ⟨_, hr, ho⟩ := belowRoot_valid hn hb'
    refine ⟨⟨by show t.1 + 1 ≤ H; omega, ?_⟩, fun _ => ⟨R, hb'⟩⟩
    show t.2 / 2 < 2 ^ (H - (t.1 + 1))
    exact Nat.lt_of_lt_of_le ho (two_pow_le_of_le (by omega))

/-- the encoded state -/
def encSt (H : Nat) (s : List Spec.Pos × List Spec.Pos × List Spec.Pos) : Model.PPSt :=
  { targets := s.1.map (encP H), next := s.2.1.map (encP H), proofs := s.2.2.map (encP H) }

theorem ppOuter_encP {H h : Nat} (n : U64) (hT : Model.TreeRows n = H8 h)
    (hH : H ≤ 63) (hhH : h ≤ H) :
    ∀ (fuel ρ : Nat) (s : List Spec.Pos × List Spec.Pos × List Spec.Pos), ρ + fuel = H + 1 →
      InvOuter n.toNat H ρ s.1 →
      Model.ppOuter n (H8 H) fuel (H8 ρ) (encSt H s) = encSt H (outerPos n.toNat fuel ρ s) := by
  have hh : h ≤ 63 := by omega
  have hn := le_of_treeRows n hT hh
  intro fuel
  induction fuel with
  | zero => intro ρ s _ _; rfl
  | succ fuel ih =>
    intro ρ s hf hI
    have hρ : ρ ≤ H := by omega
    have hgt : ¬ (H8 ρ > H8 H) := by
      rw [gt_iff_lt, BitVec.lt_def, toNat_H8 hH, toNat_H8 (by omega)]; omega
    have hvalid : ∀ p ∈ (scanPos n.toNat ρ s.1).1, ValidH H p := by
      intro p hp
      exact ((InvOuter.step hn hhH hI) p (mem_compactPos.2 (mem_sortPos.2 hp))).1
    have hvalid' : ∀ p ∈ sortPos (scanPos n.toNat ρ s.1).1, ValidH H p :=
      fun p hp => hvalid p (mem_sortPos.1 hp)
    unfold Model.ppOuter
    rw [if_neg hgt]
    have hinner := ppInner_eq_rowScan n (H8 H) (H8 ρ) ((encSt H s).targets.length + 1)
      (encSt H s).targets [] (encSt H s) (by simp) (by omega)
    simp only [List.length_nil, List.nil_append] at hinner
    simp only [hinner]
    have hrow := rowScan_encP n hT hH hhH hρ s.1 hI.row
    rw [show (encSt H s).targets = s.1.map (encP H) from rfl, hrow]
    simp only
    rw [sortU64_encP hH _ hvalid, compactU64_encP hH _ hvalid',
      show (H8 ρ + 1 : U8) = H8 (ρ + 1) from H8_add_one]
    have := ih (ρ + 1)
      (compactPos (sortPos (scanPos n.toNat ρ s.1).1), s.2.1 ++ (scanPos n.toNat ρ s.1).2.1,
        s.2.2 ++ (scanPos n.toNat ρ s.1).2.2) (by omega) (InvOuter.step hn hhH hI)
    rw [outerPos]
    rw [← this]
    simp [encSt]

/-- **`ProofPositions` is the (row, offset) algorithm `refPP`** — for every list of targets
that are nodes of the forest (sorted or not, nested or not), in a forest allocated for
`H ≥ TreeRows numLeaves` rows. -/
theorem proofPositions_eq_refPP {H h : Nat} (n : U64) (hT : Model.TreeRows n = H8 h)
    (hH : H ≤ 63) (hhH : h ≤ H) (targets : List Spec.Pos)
    (htg : ∀ p ∈ targets, ∃ R, BelowRoot n.toNat p.1 p.2 R) :
    Model.ProofPositions (targets.map (encP H)) n (H8 H) =
      ((refPP n.toNat H targets).1.map (encP H), (refPP n.toNat H targets).2.map (encP H)) := by
  have hh : h ≤ 63 := by omega
  have hn := le_of_treeRows n hT hh
  have hI : InvOuter n.toNat H 0 targets := by
    intro p hp
    obtain ⟨R, hb⟩ := htg p hp
    obtain ⟨_, hr, ho⟩ := belowRoot_valid hn hb
    exact ⟨⟨by omega, Nat.lt_of_lt_of_le ho (two_pow_le_of_le (by omega))⟩, fun _ => ⟨R, hb⟩⟩
  unfold Model.ProofPositions
  rw [toNat_H8 hH]
  have := ppOuter_encP n hT hH hhH (H + 1) 0 (targets, [], []) (by omega) hI
  rw [show encSt H (targets, [], []) = { targets := targets.map (encP H), next := [], proofs := [] }
    from rfl, show H8 0 = 0#8 from rfl] at this
  simp only [this]
  rfl

end UtreexoVerif.Proofs
