/-
  `MapPollard.GetMissingPositions` and `MapPollard.VerifyPartialProof` on a state satisfying the
  storage invariant: helper lemmas for `Props/C14Map.lean`.

  * geometry of the two calls: the proof positions both functions compute are the canonical ones
    (`Spec.Forest.proofPositions`) in storage (`TotalRows`) coordinates (`storagePP`), the way back
    to API (`TreeRows`) coordinates and the trimming are the identity on positions of the forest
    (`apiBack`);
  * `getMissing_eq`: what `GetMissingPositions` returns, for ANY duplicate-free list of positions of
    the forest (leaves or not);
  * the merge loop of `VerifyPartialProof` (`merge_true`, `merge_short`);
  * `verifyPartial_eq_verifyM`: completing the stored hashes with the true hashes at the missing
    positions IS the call `Verify(canonical proof, remember)`.
-/
import UtreexoVerif.Proofs.MapIngest
import UtreexoVerif.Proofs.MapFullIngest
import UtreexoVerif.Proofs.NodesUnique

namespace UtreexoVerif.Proofs.MapMissing
open UtreexoVerif Model Spec Spec.Forest Proofs MapAL MapInv MapPrune MapRep MapLiftGeo PForest MapAInv
  PForestSpec MapSInv MapIngest Hasher
set_option linter.unusedSectionVars false
set_option linter.unusedVariables false

variable {H : Type} [DecidableEq H] [Hasher H]
variable {m : MapPollard H} {F : Forest H}

/-- the canonical proof positions of `ts` whose node the map forest `m` does NOT store -/
def missingQ (m : MapPollard H) (F : Forest H) (ts : List Pos) : List Pos :=
  (F.proofPositions ts).filter (fun q => !m.hasNode (encP m.totalRows.toNat q))

/-! ### geometry -/

theorem proofPositions_nil : F.proofPositions [] = [] := by
  simp [Forest.proofPositions, Forest.sortDedup]

/-- a canonical proof position of positions of the forest is a position of the forest -/
theorem pp_belowRoot {ts : List Pos} (hb : ∀ t ∈ ts, ∃ R, BelowRoot F.numLeaves t.1 t.2 R) {q : Pos}
    (hq : q ∈ F.proofPositions ts) : ∃ R, BelowRoot F.numLeaves q.1 q.2 R := by
  obtain ⟨w, ⟨t, ht, R, hbt, hanc, hle⟩, hnr, rfl, _⟩ := (mem_spec_proofPositions_of F hb q).1 hq
  have hw := belowRoot_anc hbt hanc hle
  have hne : w.1 ≠ R := by
    intro e
    have := belowRoot_isRootPos hw
    rw [hnr] at this
    simp [e] at this
  exact ⟨R, by rw [sib_fst]; exact belowRoot_sib hw hne⟩

/-- the canonical proof positions are strictly ascending in every allocation -/
theorem pp_enc_sorted {T : Nat} (hT : T ≤ 63) (hrows : F.rows ≤ T) {ts : List Pos}
    (hb : ∀ t ∈ ts, ∃ R, BelowRoot F.numLeaves t.1 t.2 R) :
    ((F.proofPositions ts).map (encP T)).Pairwise (· < ·) := by
  rw [List.pairwise_map]
  have hs : SSorted (F.proofPositions ts) := by
    unfold Forest.proofPositions; exact sortDedup_ssorted _
  apply List.Pairwise.imp_of_mem _ hs
  intro a b ha hb' hab
  obtain ⟨Ra, hba⟩ := pp_belowRoot hb ha
  obtain ⟨Rb, hbb⟩ := pp_belowRoot hb hb'
  have va := belowRoot_valid' hrows hba
  have vb := belowRoot_valid' hrows hbb
  exact (encP_lt_iff hT ⟨va.1, va.2⟩ ⟨vb.1, vb.2⟩).2 hab

/-- **the proof positions both calls compute**: `ProofPositions` of the sorted targets in
`TreeRows` coordinates, translated to `TotalRows` coordinates, are the canonical proof positions -/
theorem storagePP (I : Inv m F) (ts : List Pos) (hnd : ts.Nodup)
    (hb : ∀ t ∈ ts, ∃ R, BelowRoot F.numLeaves t.1 t.2 R) :
    (if TreeRows m.numLeaves ≠ m.totalRows then
        translatePositions (ProofPositions (sortU64 (ts.map (encP F.rows))) m.numLeaves (TreeRows m.numLeaves)).1
          (TreeRows m.numLeaves) m.totalRows
      else (ProofPositions (sortU64 (ts.map (encP F.rows))) m.numLeaves (TreeRows m.numLeaves)).1) =
      (F.proofPositions ts).map (encP m.totalRows.toNat) := by
  have h63 := MapInv.rows_le_63 I
  have tsV : ∀ t ∈ ts, MapInv.Valid F.rows t := fun t ht => by
    obtain ⟨R, hR⟩ := hb t ht
    exact belowRoot_valid' (Nat.le_refl _) hR
  have hyp : PPHyp0 F.numLeaves (sortPos ts) :=
    ⟨fun t ht => hb t (mem_sortPos.1 ht), sortPos_ssorted hnd⟩
  have hn64 : F.numLeaves < 2 ^ 64 := by have := I.n_lt; omega
  have hPP := Props.C16.proofPositions_spec_all F (H := F.rows) (h := F.rows)
    (BitVec.ofNat 64 F.numLeaves) (toNat_ofNat64_of_lt hn64) (SpecView.treeRows_eq I.n_lt) h63 (Nat.le_refl _)
    (sortPos ts) hyp
  rw [MapProve.proofPositions_congr (fun t => mem_sortPos)] at hPP
  rw [sortU64_encP h63 ts (fun t ht => ⟨(tsV t ht).1, (tsV t ht).2⟩), treeRows_numLeaves I, I.n_eq, hPP]
  simp only
  have hvq : ∀ q ∈ F.proofPositions ts, MapInv.Valid F.rows q := fun q hq => by
    obtain ⟨R, hR⟩ := pp_belowRoot hb hq
    exact belowRoot_valid' (Nat.le_refl _) hR
  by_cases hc : H8 F.rows ≠ m.totalRows
  · rw [if_pos hc]
    unfold translatePositions
    rw [List.map_map]
    apply List.map_congr_left
    intro q hq
    have := toStorage I (hvq q hq)
    rw [treeRows_numLeaves I, if_pos (fun e => hc e.symm)] at this
    exact this
  · rw [if_neg hc]
    apply List.map_congr_left
    intro q hq
    have := toStorage I (hvq q hq)
    rw [treeRows_numLeaves I, if_neg (fun e => hc (by simpa using e.symm))] at this
    exact this

/-- **the way back**: translating positions of the forest to API coordinates and trimming them
is the plain re-encoding -/
theorem apiBack (I : Inv m F) (qs : List Pos) (hb : ∀ q ∈ qs, ∃ R, BelowRoot F.numLeaves q.1 q.2 R) :
    (if TreeRows m.numLeaves ≠ m.totalRows then
        MapPollard.trimProofPos
          (translatePositions (qs.map (encP m.totalRows.toNat)) m.totalRows (TreeRows m.numLeaves)) m.numLeaves
      else qs.map (encP m.totalRows.toNat)) = qs.map (encP F.rows) := by
  have hvF : ∀ q ∈ qs, MapInv.Valid F.rows q := fun q hq => by
    obtain ⟨R, hR⟩ := hb q hq
    exact belowRoot_valid' (Nat.le_refl _) hR
  by_cases hc : TreeRows m.numLeaves ≠ m.totalRows
  · rw [if_pos hc]
    have hne : m.totalRows ≠ TreeRows m.numLeaves := fun e => hc e.symm
    have e1 : translatePositions (qs.map (encP m.totalRows.toNat)) m.totalRows (TreeRows m.numLeaves) =
        qs.map (encP F.rows) := by
      unfold translatePositions
      rw [List.map_map]
      apply List.map_congr_left
      intro q hq
      have := toApi I (hvF q hq)
      rw [if_pos hne] at this
      exact this
    rw [e1]
    unfold MapPollard.trimProofPos
    apply takeWhile_all
    intro x hx
    obtain ⟨q, hq, rfl⟩ := List.mem_map.1 hx
    obtain ⟨R, hR⟩ := hb q hq
    have hvq := hvF q hq
    rw [treeRows_numLeaves I]
    apply (Props.C16.inForest_iff_below_root (MapInv.rows_le_63 I) hvq.1 hvq.2 m.numLeaves).2
    have hn : m.numLeaves.toNat = F.numLeaves := by
      rw [I.n_eq]; exact toNat_ofNat64_of_lt (by have := I.n_lt; omega)
    rw [hn]
    exact ⟨R, hR⟩
  · rw [if_neg hc]
    apply List.map_congr_left
    intro q hq
    have := toApi I (hvF q hq)
    rw [if_neg (fun e => hc e.symm)] at this
    exact this

/-! ### `GetMissingPositions` -/

theorem filter_map_enc {T : Nat} (qs : List Pos) (p : U64 → Bool) :
    (qs.map (encP T)).filter p = (qs.filter (fun q => p (encP T q))).map (encP T) := by
  rw [List.filter_map]; rfl

/-- **`GetMissingPositions` of ANY duplicate-free list of positions of the forest** (leaves or
inner nodes, in any order): the canonical proof positions that are not stored, ascending, in API
coordinates -/
theorem getMissing_eq (I : Inv m F) (ts : List Pos) (hnd : ts.Nodup)
    (hb : ∀ t ∈ ts, ∃ R, BelowRoot F.numLeaves t.1 t.2 R) :
    m.getMissingPositions (ts.map (encP F.rows)) = (missingQ m F ts).map (encP F.rows) := by
  unfold MapPollard.getMissingPositions missingQ
  cases ts with
  | nil => simp [proofPositions_nil]
  | cons t ts' =>
    rw [if_neg (by simp)]
    simp only
    rw [storagePP I (t :: ts') hnd hb, filter_map_enc]
    exact apiBack I _ (fun q hq => pp_belowRoot hb (List.mem_filter.1 hq).1)


/-! ### the merge loop of `VerifyPartialProof` -/

theorem getNodeD_hash_none {p : U64} (h : m.getNode p = none) : (m.getNodeD p).hash = zero := by
  unfold MapPollard.getNodeD; rw [h]; rfl

theorem getNodeD_hash_some {p : U64} {l : Leaf H} (h : m.getNode p = some l) : (m.getNodeD p).hash = l.hash := by
  unfold MapPollard.getNodeD; rw [h]; rfl

/-- the result of the merge loop: the accumulator followed by one hash per position -/
theorem merge_shape : ∀ (ps : List U64) (sup acc r : List H),
    MapPollard.verifyPartialProof.merge m ps sup acc = some r → ∃ l, r = acc ++ l ∧ l.length = ps.length
  | [], sup, acc, r, h => by
    simp only [MapPollard.verifyPartialProof.merge, Option.some.injEq] at h
    exact ⟨[], by simp [h], rfl⟩
  | p :: ps, sup, acc, r, h => by
    simp only [MapPollard.verifyPartialProof.merge] at h
    split at h
    · cases sup with
      | nil => simp at h
      | cons s rest =>
        simp only at h
        obtain ⟨l, rfl, hl⟩ := merge_shape ps rest _ r h
        exact ⟨s :: l, by simp, by simp [hl]⟩
    · obtain ⟨l, rfl, hl⟩ := merge_shape ps sup _ r h
      exact ⟨(m.getNodeD p).hash :: l, by simp, by simp [hl]⟩

section merge
variable {T : Nat} (tv : Pos → H) (qs : List Pos)

/-- the positions of `qs` that `m` does not store -/
def unstored (m : MapPollard H) (T : Nat) (qs : List Pos) : List Pos :=
  qs.filter (fun q => !m.hasNode (encP T q))

/-- **completing the stored hashes with the true hashes at the positions that are not stored
gives the true hash at every position** (surplus supplied hashes are never looked at) -/
theorem merge_true : ∀ (qs : List Pos),
    (∀ q ∈ qs, ∀ l, m.getNode (encP T q) = some l → l.hash = tv q) → (∀ q ∈ qs, tv q ≠ zero) →
    ∀ (junk acc : List H),
    MapPollard.verifyPartialProof.merge m (qs.map (encP T)) ((unstored m T qs).map tv ++ junk) acc =
      some (acc ++ qs.map tv)
  | [], _, _, junk, acc => by simp [MapPollard.verifyPartialProof.merge]
  | q :: qs, hst, hnz, junk, acc => by
    have ih := merge_true qs (fun q' hq' => hst q' (List.mem_cons_of_mem _ hq'))
      (fun q' hq' => hnz q' (List.mem_cons_of_mem _ hq')) junk
    rw [List.map_cons]
    simp only [MapPollard.verifyPartialProof.merge]
    cases hg : m.getNode (encP T q) with
    | none =>
      have hu : unstored m T (q :: qs) = q :: unstored m T qs := by
        unfold unstored
        rw [List.filter_cons, if_pos (by rw [hasNode_eq, hg]; rfl)]
      rw [if_pos (getNodeD_hash_none hg), hu, List.map_cons, List.cons_append]
      simp only
      rw [ih (acc ++ [tv q])]
      simp
    | some l =>
      have hh : l.hash = tv q := hst q List.mem_cons_self l hg
      have hu : unstored m T (q :: qs) = unstored m T qs := by
        unfold unstored
        rw [List.filter_cons, if_neg (by rw [hasNode_eq, hg]; simp)]
      rw [if_neg (by rw [getNodeD_hash_some hg, hh]; exact hnz q List.mem_cons_self), hu,
        getNodeD_hash_some hg, hh, ih (acc ++ [tv q])]
      simp

/-- **fewer supplied hashes than positions that are not stored: the merge fails** -/
theorem merge_short : ∀ (qs : List Pos),
    (∀ q ∈ qs, ∀ l, m.getNode (encP T q) = some l → l.hash ≠ zero) →
    ∀ (sup acc : List H), sup.length < (unstored m T qs).length →
    MapPollard.verifyPartialProof.merge m (qs.map (encP T)) sup acc = none
  | [], _, sup, acc, h => by simp [unstored] at h
  | q :: qs, hst, sup, acc, h => by
    have ih := merge_short qs (fun q' hq' => hst q' (List.mem_cons_of_mem _ hq'))
    rw [List.map_cons]
    simp only [MapPollard.verifyPartialProof.merge]
    cases hg : m.getNode (encP T q) with
    | none =>
      have hu : unstored m T (q :: qs) = q :: unstored m T qs := by
        unfold unstored
        rw [List.filter_cons, if_pos (by rw [hasNode_eq, hg]; rfl)]
      rw [hu, List.length_cons] at h
      rw [if_pos (getNodeD_hash_none hg)]
      cases sup with
      | nil => rfl
      | cons s rest =>
        simp only
        exact ih rest _ (by simp only [List.length_cons] at h; omega)
    | some l =>
      have hu : unstored m T (q :: qs) = unstored m T qs := by
        unfold unstored
        rw [List.filter_cons, if_neg (by rw [hasNode_eq, hg]; simp)]
      rw [hu] at h
      rw [if_neg (by rw [getNodeD_hash_some hg]; exact hst q List.mem_cons_self l hg)]
      exact ih sup _ h

/-- **if the merge produces the true hash at every position, the supplied hashes consumed were
the true hashes at the positions that are not stored** -/
theorem merge_true_inv : ∀ (qs : List Pos),
    (∀ q ∈ qs, ∀ l, m.getNode (encP T q) = some l → l.hash ≠ zero) →
    ∀ (sup acc : List H),
    MapPollard.verifyPartialProof.merge m (qs.map (encP T)) sup acc = some (acc ++ qs.map tv) →
    sup.take (unstored m T qs).length = (unstored m T qs).map tv
  | [], _, sup, acc, _ => by simp [unstored]
  | q :: qs, hst, sup, acc, h => by
    have ih := merge_true_inv qs (fun q' hq' => hst q' (List.mem_cons_of_mem _ hq'))
    rw [List.map_cons] at h
    simp only [MapPollard.verifyPartialProof.merge] at h
    cases hg : m.getNode (encP T q) with
    | none =>
      have hu : unstored m T (q :: qs) = q :: unstored m T qs := by
        unfold unstored
        rw [List.filter_cons, if_pos (by rw [hasNode_eq, hg]; rfl)]
      rw [if_pos (getNodeD_hash_none hg)] at h
      cases sup with
      | nil => simp at h
      | cons s rest =>
        simp only at h
        obtain ⟨l, hl, hlen⟩ := merge_shape _ _ _ _ h
        rw [List.map_cons, List.append_assoc] at hl
        have hl' := List.append_cancel_left hl
        simp only [List.singleton_append, List.cons.injEq] at hl'
        obtain ⟨hs, _⟩ := hl'
        subst hs
        have h' : MapPollard.verifyPartialProof.merge m (qs.map (encP T)) rest (acc ++ [tv q]) =
            some ((acc ++ [tv q]) ++ qs.map tv) := by
          rw [h]; simp
        rw [hu, List.length_cons, List.take_succ_cons, List.map_cons, ih rest _ h']
    | some l =>
      have hu : unstored m T (q :: qs) = unstored m T qs := by
        unfold unstored
        rw [List.filter_cons, if_neg (by rw [hasNode_eq, hg]; simp)]
      rw [if_neg (by rw [getNodeD_hash_some hg]; exact hst q List.mem_cons_self l hg)] at h
      obtain ⟨l', hl, hlen⟩ := merge_shape _ _ _ _ h
      rw [List.map_cons, List.append_assoc] at hl
      have hl' := List.append_cancel_left hl
      simp only [List.singleton_append, List.cons.injEq] at hl'
      obtain ⟨hs, _⟩ := hl'
      have h' : MapPollard.verifyPartialProof.merge m (qs.map (encP T)) sup (acc ++ [tv q]) =
          some ((acc ++ [tv q]) ++ qs.map tv) := by
        rw [hs, h, List.map_cons, hs]; simp
      rw [hu, ih sup _ h']

end merge


/-! ### the canonical proof of live leaves -/

section canon
open SpecPlan
variable {L : List H} {ts : List Pos} {ps : List H}

theorem ts_belowRoot (hc : F.canon L = some (ts, ps)) : ∀ t ∈ ts, ∃ R, BelowRoot F.numLeaves t.1 t.2 R := by
  intro t ht
  obtain ⟨x, hx⟩ := ts_node hc ht
  exact belowRoot_of_mem_nodes hx

/-- a canonical proof position is never a root, so its node carries a non-zero hash -/
theorem pp_nonzero (nz : NZ H) (hn : F.numLeaves < 2 ^ 64) (hy : Hyg F) (hc : F.canon L = some (ts, ps))
    {q : Pos} (hq : q ∈ F.proofPositions ts) : tvF F q ≠ zero := by
  have Lw := laws_forest nz F hn hy
  obtain ⟨_, x, hx, hnr, rfl⟩ := (pp_iff q).1 hq
  obtain ⟨bx, hxn⟩ := ps_node hc hx
  obtain ⟨b, hqn⟩ := pp_node hc hq
  intro hz
  rw [hz] at hqn
  exact sib_not_root Lw hxn hnr (Lw.zero_root _ _ hqn).1

theorem pp_valid (hc : F.canon L = some (ts, ps)) {T : Nat} (hT : F.rows ≤ T) {q : Pos}
    (hq : q ∈ F.proofPositions ts) : MapInv.Valid T q := by
  obtain ⟨R, hR⟩ := pp_belowRoot (ts_belowRoot hc) hq
  exact belowRoot_valid' hT hR

/-- a stored node at a position of the forest carries the true hash -/
theorem stored_true (I : Inv m F) {q : Pos} (hv : MapInv.Valid m.totalRows.toNat q) {l : Leaf H}
    (hg : m.getNode (encP m.totalRows.toNat q) = some l) : l.hash = tvF F q := by
  unfold tvF
  rw [getNode_true I hv hg]; rfl

theorem missingQ_eq : missingQ m F ts = unstored m m.totalRows.toNat (F.proofPositions ts) := rfl

theorem mem_missingQ {q : Pos} : q ∈ missingQ m F ts ↔
    q ∈ F.proofPositions ts ∧ m.hasNode (encP m.totalRows.toNat q) = false := by
  unfold missingQ
  rw [List.mem_filter]
  simp

/-- **`VerifyPartialProof` with the true hashes at the missing positions (surplus allowed) IS
`Verify` of the canonical proof** — the same state transformer applied to the same state -/
theorem verifyPartial_eq_verifyM (nz : NZ H) (I : Inv m F) (hy : Hyg F) (hnd : L.Nodup)
    (hc : F.canon L = some (ts, ps)) (junk : List H) (remember : Bool) :
    MapPollard.verifyPartialProof (ts.map (encP F.rows)) L ((missingQ m F ts).map (tvF F) ++ junk) remember m =
      MapPollard.verifyM L (ts.map (encP F.rows)) ps remember m := by
  have hn64 : F.numLeaves < 2 ^ 64 := by have := I.n_lt; omega
  unfold MapPollard.verifyPartialProof
  simp only
  rw [storagePP I ts (canon_targets_nodup hc hnd) (ts_belowRoot hc), missingQ_eq,
    merge_true (tvF F) (F.proofPositions ts)
      (fun q hq l hg => stored_true I (pp_valid hc I.rows_le hq) hg)
      (fun q hq => pp_nonzero nz hn64 hy hc hq) junk []]
  simp only [List.nil_append]
  rw [← ps_hashes hc]

/-- **fewer supplied hashes than missing positions: `VerifyPartialProof` answers `err`** and
leaves the state alone, whatever the hashes are -/
theorem verifyPartial_short (nz : NZ H) (I : Inv m F) (hy : Hyg F) (hnd : L.Nodup)
    (hc : F.canon L = some (ts, ps)) (sup : List H) (hlen : sup.length < (missingQ m F ts).length)
    (remember : Bool) :
    MapPollard.verifyPartialProof (ts.map (encP F.rows)) L sup remember m = (m, .error .err) := by
  have hn64 : F.numLeaves < 2 ^ 64 := by have := I.n_lt; omega
  unfold MapPollard.verifyPartialProof
  simp only
  rw [storagePP I ts (canon_targets_nodup hc hnd) (ts_belowRoot hc),
    merge_short (F.proofPositions ts)
      (fun q hq l hg => by
        rw [stored_true I (pp_valid hc I.rows_le hq) hg]; exact pp_nonzero nz hn64 hy hc hq)
      sup [] (by rw [← missingQ_eq]; exact hlen)]

/-- the leaves of a request that `m` caches need nothing: every canonical proof position of
cached leaves is stored -/
theorem missingQ_nil_of_cached (I : Inv m F) (hc : F.canon L = some (ts, ps))
    (hL : ∀ x ∈ L, m.hasCached x = true) : missingQ m F ts = [] := by
  unfold missingQ
  rw [List.filter_eq_nil_iff]
  intro q hq
  obtain ⟨htL, hpos, _, _⟩ := canon_spec hc
  obtain ⟨w, ⟨t, ht, R, hbt, hanc, hle⟩, hnr, rfl, _⟩ :=
    (mem_spec_proofPositions_of F (ts_belowRoot hc) q).1 hq
  rw [htL] at ht
  obtain ⟨x, hx, rfl⟩ := List.mem_map.1 ht
  obtain ⟨p, hp⟩ := hpos x hx
  rw [hp] at hbt hanc
  simp only [Option.getD_some] at hbt hanc
  have hreq : Required F (fun x => m.hasCached x = true) (sib w) :=
    Or.inr ⟨x, p, hL x hx, hp, Or.inr ⟨w, ⟨R, hbt, hanc, hle⟩, hnr, rfl⟩⟩
  rw [I.has_needed _ hreq]
  simp

/-- a full forest stores every node: nothing is ever missing -/
theorem missingQ_nil_full (s : MapFull.FInv m F) (hc : F.canon L = some (ts, ps)) : missingQ m F ts = [] := by
  unfold missingQ
  rw [List.filter_eq_nil_iff]
  intro q hq
  obtain ⟨b, hqn⟩ := pp_node hc hq
  have : m.getNode (encP m.totalRows.toNat q) = some ⟨tvF F q, true⟩ :=
    (s.nodes _ _).2 ⟨q, b, hqn, rfl, rfl⟩
  rw [hasNode_eq, this]
  simp

end canon


/-! ### what an honest peer answers: the true hash at an API position -/

/-- the hash of the node of `F` at the API position `p` (zero where there is none) -/
def apiHash (F : Forest H) (p : U64) : H :=
  ((F.nodes.find? (fun e => encP F.rows e.1 == p)).map (·.2.1)).getD zero

theorem apiHash_true (hn : F.numLeaves < 2 ^ 63) {q : Pos} {h : H} (hq : F.nodeAt q = some h) :
    apiHash F (encP F.rows q) = h := by
  obtain ⟨b, hb⟩ := SpecNodes.nodeAt_eq_some_iff.1 hq
  have h63 : F.rows ≤ 63 := SpecView.forestRows_le_63 hn
  unfold apiHash
  cases hf : F.nodes.find? (fun e => encP F.rows e.1 == encP F.rows q) with
  | none =>
    have := List.find?_eq_none.1 hf _ hb
    simp at this
  | some e =>
    have he := List.mem_of_find?_eq_some hf
    have hp := List.find?_some hf
    simp only [beq_iff_eq] at hp
    obtain ⟨⟨r, o⟩, h', b'⟩ := e
    have hv1 : MapInv.Valid F.rows (r, o) := MapFull.node_valid (Nat.le_refl _) he
    have hv2 : MapInv.Valid F.rows q := MapFull.node_valid (Nat.le_refl _) hb
    have := encP_inj' h63 hv1 hv2 hp
    subst this
    have := (Spec.nodes_pos_unique F (by omega) _ _ _ _ _ he hb).1
    simp [this]

section canon2
open SpecPlan
variable {L : List H} {ts : List Pos} {ps : List H}

/-- the true hashes at the positions `GetMissingPositions` reports, asked from any truthful
oracle over API positions -/
theorem supplied_eq (I : Inv m F) (hnd : L.Nodup) (hc : F.canon L = some (ts, ps)) (hashAt : U64 → H)
    (htrue : ∀ q h, F.nodeAt q = some h → hashAt (encP F.rows q) = h) :
    (m.getMissingPositions (ts.map (encP F.rows))).map hashAt = (missingQ m F ts).map (tvF F) := by
  rw [getMissing_eq I ts (canon_targets_nodup hc hnd) (ts_belowRoot hc), List.map_map]
  apply List.map_congr_left
  intro q hq
  obtain ⟨b, hb⟩ := pp_node hc (mem_missingQ.1 hq).1
  exact htrue q _ (SpecNodes.nodeAt_of_mem hb)

/-- "not stored" read through the API: `GetHash` answers the zero hash -/
theorem getHash_zero_iff (nz : NZ H) (I : Inv m F) (hy : Hyg F) (hc : F.canon L = some (ts, ps)) {q : Pos}
    (hq : q ∈ F.proofPositions ts) :
    m.getHash (encP F.rows q) = zero ↔ m.hasNode (encP m.totalRows.toNat q) = false := by
  have hn64 : F.numLeaves < 2 ^ 64 := by have := I.n_lt; omega
  unfold MapPollard.getHash
  simp only [toStorage I (pp_valid hc (Nat.le_refl _) hq)]
  rw [hasNode_eq]
  cases hg : m.getNode (encP m.totalRows.toNat q) with
  | none => simp [getNodeD_hash_none hg]
  | some l =>
    rw [getNodeD_hash_some hg, stored_true I (pp_valid hc I.rows_le hq) hg]
    simp [pp_nonzero nz hn64 hy hc hq]

end canon2


/-! ### what an accepting run of `VerifyPartialProof` checked -/

section accept
open SpecPlan
variable {L : List H} {ts : List Pos} {ps : List H}

/-- the translation of leaf targets inside `verify` is the identity -/
theorem targets_translate_id (I : Inv m F) (hc : F.canon L = some (ts, ps)) :
    (if TreeRows m.numLeaves ≠ m.totalRows then
      translatePositions (ts.map (encP F.rows)) m.totalRows (TreeRows m.numLeaves) else ts.map (encP F.rows)) =
      ts.map (encP F.rows) := by
  have tsV : ∀ t ∈ ts, MapInv.Valid F.rows t := fun t ht => by
    obtain ⟨R, hR⟩ := ts_belowRoot hc t ht
    exact belowRoot_valid' (Nat.le_refl _) hR
  by_cases hne : TreeRows m.numLeaves ≠ m.totalRows
  · rw [if_pos hne]
    have hlt : F.rows < m.totalRows.toNat := by
      have := I.rows_le
      rcases Nat.lt_or_ge F.rows m.totalRows.toNat with h | h
      · exact h
      · exfalso
        apply hne
        rw [treeRows_numLeaves I, totalRows_eq_H8 m]
        congr 1
        omega
    unfold translatePositions
    rw [List.map_map]
    apply List.map_congr_left
    intro t ht
    simp only [Function.comp]
    have := translatePos_small I.total_le hlt (tsV t ht) (TreeRows m.numLeaves)
    rw [← totalRows_eq_H8 m] at this
    exact this
  · rw [if_neg hne]

/-- **an accepting run**: the merge loop produced one hash per canonical proof position and the
Stump-level `Verify` accepted the leaves with that list against the roots of `F` -/
theorem verifyPartial_accepts (I : Inv m F) (hnd : L.Nodup) (hc : F.canon L = some (ts, ps)) (sup : List H)
    (remember : Bool)
    (h : (MapPollard.verifyPartialProof (ts.map (encP F.rows)) L sup remember m).2 = .ok ()) :
    ∃ all idx, MapPollard.verifyPartialProof.merge m ((F.proofPositions ts).map (encP m.totalRows.toNat)) sup [] =
        some all ∧ all.length = ps.length ∧
      verify (BitVec.ofNat 64 F.numLeaves) F.roots L (ts.map (encP F.rows)) all = .ok idx := by
  unfold MapPollard.verifyPartialProof at h
  simp only at h
  rw [storagePP I ts (canon_targets_nodup hc hnd) (ts_belowRoot hc)] at h
  cases hm : MapPollard.verifyPartialProof.merge m ((F.proofPositions ts).map (encP m.totalRows.toNat)) sup [] with
  | none => rw [hm] at h; cases h
  | some all =>
    rw [hm] at h
    simp only at h
    obtain ⟨l, hl, hlen⟩ := merge_shape _ _ _ _ hm
    unfold MapPollard.verifyM at h
    simp only at h
    have hroots : m.getRoots.1 = F.roots := Props.C09.roots_eq I
    rw [targets_translate_id I hc, hroots, I.n_eq] at h
    cases hv : verify (BitVec.ofNat 64 F.numLeaves) F.roots L (ts.map (encP F.rows)) all with
    | ok idx =>
      refine ⟨all, idx, rfl, ?_, hv⟩
      rw [hl, ps_hashes hc]
      simpa using hlen
    | err => rw [hv] at h; cases h
    | panic => rw [hv] at h; cases h
    | hang => rw [hv] at h; cases h

end accept

end UtreexoVerif.Proofs.MapMissing
