/-
  `removeSingle` of the map-forest model on the abstract state `(A, C)` of `MapRep` (Layer 1).
-/
import UtreexoVerif.Proofs.MapMoveUp
open UtreexoVerif Model Spec Spec.Forest Proofs MapAL MapInv MapPrune MapRep Hasher GoInt

namespace UtreexoVerif.Proofs.MapRemoveRep
set_option linter.unusedSectionVars false
set_option linter.unusedVariables false
variable {H : Type} [DecidableEq H] [Hasher H]

/-- `forgetBelow d`: everything strictly below `d` is dropped -/
def clearBelow (d : Pos) (A : Pos → Option (Leaf H)) : Pos → Option (Leaf H) :=
  fun q => if SUnder d q then none else A q

/-- the loop of `updateHashes` on the abstract state (`T` = allocated rows, `n` = leaf count):
`pos` is the position whose new hash is `node.hash` -/
def updLoopA (n T : Nat) : Nat → Pos → Leaf H → (Pos → Option (Leaf H)) → (Pos → Option (Leaf H))
  | 0, _, _, A => A
  | k+1, pos, node, A =>
    let sibN := (A (sib pos)).getD ⟨zero, false⟩
    let node' : Leaf H :=
      if pos.2 % 2 = 0 then ⟨ph node.hash sibN.hash, node.remember⟩ else ⟨ph sibN.hash node.hash, node.remember⟩
    if pos.1 < T then
      let A' := if (A (parent pos)).isSome = true then upd A (parent pos) (some node') else A
      if isRootPos n (parent pos) = true then A' else updLoopA n T k (parent pos) node' A'
    else A

/-- the loop of `forgetUnneededDel` on the abstract state -/
def fgLoopA (n : Nat) : Nat → Pos → (Pos → Option (Leaf H)) → (Pos → Option (Leaf H))
  | 0, _, A => A
  | k+1, pos, A =>
    if isRootPos n (parent pos) = true then A else fgLoopA n k (parent pos) (pruneA A (parent pos))

/-! ### `forgetBelow` -/

theorem parent_kid0 (d : Pos) (h1 : 1 ≤ d.1) : parent (d.1 - 1, 2 * d.2) = d := by
  apply Prod.ext
  · show d.1 - 1 + 1 = d.1; omega
  · show 2 * d.2 / 2 = d.2; omega

theorem sib_kid0 (d : Pos) : sib (d.1 - 1, 2 * d.2) = (d.1 - 1, 2 * d.2 + 1) := by
  unfold sib
  simp

theorem clear_step (d : Pos) (h1 : 1 ≤ d.1) (A : Pos → Option (Leaf H)) (q : Pos) :
    clearBelow (d.1 - 1, 2 * d.2 + 1) (clearBelow (d.1 - 1, 2 * d.2)
      (upd (upd A (d.1 - 1, 2 * d.2) none) (d.1 - 1, 2 * d.2 + 1) none)) q = clearBelow d A q := by
  have hiff := MapMoveUp.sunder_parent_iff (σ := (d.1 - 1, 2 * d.2)) (q := q)
  rw [parent_kid0 d h1, sib_kid0] at hiff
  unfold clearBelow
  by_cases h : SUnder d q
  · rw [if_pos h]
    by_cases c1 : SUnder (d.1 - 1, 2 * d.2 + 1) q
    · exact if_pos c1
    · rw [if_neg c1]
      by_cases c2 : SUnder (d.1 - 1, 2 * d.2) q
      · exact if_pos c2
      · rw [if_neg c2]
        rcases hiff.1 h with e | e | e | e
        · rw [upd_apply]
          split
          · rfl
          · rw [e, upd_self]
        · rw [e, upd_self]
        · exact absurd e c2
        · exact absurd e c1
  · rw [if_neg h]
    have n1 : ¬ SUnder (d.1 - 1, 2 * d.2 + 1) q := fun e => h (hiff.2 (Or.inr (Or.inr (Or.inr e))))
    have n2 : ¬ SUnder (d.1 - 1, 2 * d.2) q := fun e => h (hiff.2 (Or.inr (Or.inr (Or.inl e))))
    have n3 : q ≠ (d.1 - 1, 2 * d.2 + 1) := fun e => h (hiff.2 (Or.inr (Or.inl e)))
    have n4 : q ≠ (d.1 - 1, 2 * d.2) := fun e => h (hiff.2 (Or.inl e))
    rw [if_neg n1, if_neg n2, upd_ne _ _ n3, upd_ne _ _ n4]

theorem forgetBelowAux_rep : ∀ (k : Nat) {m : MapPollard H} {T : Nat} {A : Pos → Option (Leaf H)}
    {C : H → Option Pos}, Rep m T A C → ∀ {d : Pos}, Valid T d → d.1 = k →
    Rep (MapPollard.forgetBelowAux k (encP T d) m) T (clearBelow d A) C ∧
      (MapPollard.forgetBelowAux k (encP T d) m).numLeaves = m.numLeaves ∧
      (MapPollard.forgetBelowAux k (encP T d) m).full = m.full
  | 0, m, T, A, C, rep, d, hd, hk => by
    refine ⟨rep.congr ?_ (fun _ => rfl), rfl, rfl⟩
    intro q
    unfold clearBelow
    rw [if_neg]
    intro h; have := h.2; omega
  | k+1, m, T, A, C, rep, d, hd, hk => by
    have hT := rep.T_le
    have h1 : 1 ≤ d.1 := by omega
    have hne : ¬ ((H8 d.1 == 0#8) = true) := by
      rw [H8_beq_zero (by have := hd.1; omega)]; omega
    have hl : Valid T (d.1 - 1, 2 * d.2) := by
      have := valid_child hd h1 0 (by omega); rwa [Nat.add_zero] at this
    have hr : Valid T (d.1 - 1, 2 * d.2 + 1) := valid_child hd h1 1 (by omega)
    unfold MapPollard.forgetBelowAux
    rw [rep.rows, detectRow_encP hT hd, if_neg hne]
    simp only
    rw [leftChild_encP hT hd h1, sibling_encP hT hl, sib_kid0]
    have rep1 := (rep.delNode hl).delNode hr
    have hrows : ((m.delNode (encP T (d.1 - 1, 2 * d.2))).delNode (encP T (d.1 - 1, 2 * d.2 + 1))).totalRows
        = H8 T := rep1.rows
    obtain ⟨rep2, a2, b2⟩ := forgetBelowAux_rep k rep1 hl (by show d.1 - 1 = k; omega)
    obtain ⟨rep3, a3, b3⟩ := forgetBelowAux_rep k rep2 hr (by show d.1 - 1 = k; omega)
    exact ⟨rep3.congr (fun q => (clear_step d h1 A q).symm) (fun _ => rfl), a3.trans a2, b3.trans b2⟩

theorem forgetBelow_rep {m : MapPollard H} {T : Nat} {A : Pos → Option (Leaf H)} {C : H → Option Pos}
    (rep : Rep m T A C) {d : Pos} (hd : Valid T d) :
    Rep (m.forgetBelow (encP T d)) T (clearBelow d A) C ∧
      (m.forgetBelow (encP T d)).numLeaves = m.numLeaves ∧ (m.forgetBelow (encP T d)).full = m.full := by
  unfold MapPollard.forgetBelow
  rw [rep.rows, detectRow_encP rep.T_le hd, toNat_H8 (by have := hd.1; have := rep.T_le; omega)]
  exact forgetBelowAux_rep d.1 rep hd rfl

/-! ### `isRoot` -/

theorem isRootPos_above {n : Nat} {q : Pos} (h : forestRows n < q.1) : isRootPos n q = false := by
  have h1 := SpecView.le_two_pow_forestRows n
  have h2 : 2 ^ forestRows n < 2 ^ q.1 := two_pow_lt_of_lt h
  have : n.testBit q.1 = false := Nat.testBit_lt_two_pow (by omega)
  simp [isRootPos, this]

theorem rootPosition_lt (leaves : U64) (h : U8) {fr : Nat} (hfr : fr ≤ 63) :
    (rootPosition leaves h (H8 fr)).toNat < 2 ^ (fr + 1) := by
  unfold rootPosition
  simp only [toNat_H8 hfr]
  rw [toNat_and_mask hfr]
  exact Nat.mod_lt _ (Nat.two_pow_pos _)

/-- a position whose row lies above the rows of the forest is never recognised as a root -/
theorem isRoot_above {m : MapPollard H} {T n : Nat} (hT : T ≤ 63) (hrows : m.totalRows = H8 T)
    (hn : m.numLeaves = BitVec.ofNat 64 n) (hn63 : n < 2 ^ 63)
    {q : Pos} (hq : Valid T q) (hab : forestRows n < q.1) : m.isRoot (encP T q) = false := by
  have hh : forestRows n ≤ 63 := SpecView.forestRows_le_63 hn63
  have hq1 := hq.1
  have hne : (H8 T != H8 (forestRows n)) = true := by
    rw [bne_iff_ne]
    intro e
    have := congrArg BitVec.toNat e
    rw [toNat_H8 hT, toNat_H8 hh] at this
    omega
  have hr0 : (H8 q.1 == 0#8) = false := by
    cases h : (H8 q.1 == 0#8)
    · rfl
    · have := (H8_beq_zero (show q.1 ≤ 63 by omega)).1 h; omega
  -- the translated position
  have hoff : encP T q - startPositionAtRow (H8 q.1) (H8 T) = BitVec.ofNat 64 q.2 := by
    rw [Props.C16.startPositionAtRow_enc hT hq1]
    show encU T q.1 q.2 - encU T q.1 0 = _
    unfold encU
    rw [enc_add T q.1 q.2, BitVec.ofNat_add, BitVec.add_comm, BitVec.add_sub_cancel]
  have hs : (H8 (forestRows n) - H8 q.1).toNat = 256 + forestRows n - q.1 := by
    rw [BitVec.toNat_sub, toNat_H8 hh, toNat_H8 (show q.1 ≤ 63 by omega)]
    omega
  have hstart : (startPositionAtRow (H8 q.1) (H8 (forestRows n))).toNat = 2 ^ (forestRows n + 1) := by
    unfold startPositionAtRow
    have z : (shl 2#64 (H8 (forestRows n) - H8 q.1).toNat).toNat = 0 := by
      rw [toNat_two_shl, hs]
      have : 2 ^ 64 ∣ 2 ^ (256 + forestRows n - q.1 + 1) := Nat.pow_dvd_pow 2 (by omega)
      exact Nat.mod_eq_zero_of_dvd this
    have z' : shl 2#64 (H8 (forestRows n) - H8 q.1).toNat = 0#64 := BitVec.eq_of_toNat_eq z
    rw [z', BitVec.sub_zero, toNat_two_shl, toNat_H8 hh]
    exact Nat.mod_eq_of_lt (two_pow_lt_64 (by omega))
  have ho : q.2 < 2 ^ (T - q.1) := hq.2
  have ho64 : q.2 < 2 ^ 64 := Nat.lt_of_lt_of_le ho (two_pow_le_64 (by omega))
  have hpow : 2 ^ (forestRows n + 1) ≤ 2 ^ 63 := two_pow_le_of_le (by omega)
  have ho63 : q.2 < 2 ^ 63 := Nat.lt_of_lt_of_le ho (two_pow_le_of_le (by omega))
  have htr : (BitVec.ofNat 64 q.2 + startPositionAtRow (H8 q.1) (H8 (forestRows n))).toNat =
      q.2 + 2 ^ (forestRows n + 1) := by
    rw [BitVec.toNat_add, hstart, toNat_ofNat64_of_lt ho64]
    apply Nat.mod_eq_of_lt
    have : (2:Nat) ^ 64 = 2 * 2 ^ 63 := by decide
    omega
  unfold MapPollard.isRoot isRootPositionTotalRows
  rw [hn, hrows, SpecView.treeRows_eq hn63, if_pos hne]
  unfold translatePos
  simp only [detectRow_encP hT hq, hr0, Bool.false_eq_true, if_false]
  rw [hoff]
  unfold isRootPosition isRootPositionOnRow
  simp only [SpecView.treeRows_eq hn63]
  rw [Bool.and_eq_false_iff]
  right
  rw [beq_eq_false_iff_ne]
  intro e
  have e' := congrArg BitVec.toNat e
  rw [htr] at e'
  have := rootPosition_lt (BitVec.ofNat 64 n) (DetectRow (BitVec.ofNat 64 q.2 + startPositionAtRow (H8 q.1) (H8 (forestRows n))) (H8 (forestRows n))) hh
  omega

theorem isRoot_gen {m : MapPollard H} {T n : Nat} (hT : T ≤ 63) (hrows : m.totalRows = H8 T)
    (hn : m.numLeaves = BitVec.ofNat 64 n) (hn63 : n < 2 ^ 63)
    {q : Pos} (hq : Valid T q) (hq' : Valid (forestRows n) q ∨ forestRows n < q.1) :
    m.isRoot (encP T q) = isRootPos n q := by
  rcases hq' with hv | hab
  · unfold MapPollard.isRoot
    rw [hn, hrows]
    have := Props.C16.isRootPositionTotalRows_enc (H := T) (h := forestRows n) (r := q.1) (o := q.2)
      (BitVec.ofNat 64 n) (SpecView.treeRows_eq hn63) hT hq.1 hq.2 (SpecView.forestRows_le_63 hn63) hv.1 hv.2
    rw [toNat_ofNat64_of_lt (by omega)] at this
    exact this
  · rw [isRoot_above hT hrows hn hn63 hq hab, isRootPos_above hab]

/-- (the statement of the brief needs `hq'`: see `isRoot_rep_false` below) -/
theorem isRoot_rep {m : MapPollard H} {T n : Nat} {A : Pos → Option (Leaf H)} {C : H → Option Pos}
    (rep : Rep m T A C) (hn : m.numLeaves = BitVec.ofNat 64 n) (hn63 : n < 2 ^ 63) (hfit : forestRows n ≤ T)
    {q : Pos} (hq : Valid T q) (hq' : Valid (forestRows n) q) : m.isRoot (encP T q) = isRootPos n q :=
  isRoot_gen rep.T_le rep.rows hn hn63 hq (Or.inl hq')

/-! ### `updateHashes` -/

/-- one unfolding of `updateHashesLoop` with the `let`s inlined -/
theorem updateHashesLoop_succ (k : Nat) (pos : U64) (node : Leaf H) (m : MapPollard H) :
    MapPollard.updateHashesLoop (k + 1) pos node m =
      if (if m.hasNode (Parent pos m.totalRows) then
            m.putNode (Parent pos m.totalRows)
              (if isLeftNiece pos then ⟨ph node.hash (m.getNodeD (sibling pos)).hash, node.remember⟩
               else ⟨ph (m.getNodeD (sibling pos)).hash node.hash, node.remember⟩)
          else m).isRoot (Parent pos m.totalRows) then
        (if m.hasNode (Parent pos m.totalRows) then
            m.putNode (Parent pos m.totalRows)
              (if isLeftNiece pos then ⟨ph node.hash (m.getNodeD (sibling pos)).hash, node.remember⟩
               else ⟨ph (m.getNodeD (sibling pos)).hash node.hash, node.remember⟩)
          else m)
      else MapPollard.updateHashesLoop k (Parent pos m.totalRows)
        (if isLeftNiece pos then ⟨ph node.hash (m.getNodeD (sibling pos)).hash, node.remember⟩
               else ⟨ph (m.getNodeD (sibling pos)).hash node.hash, node.remember⟩)
        (if m.hasNode (Parent pos m.totalRows) then
            m.putNode (Parent pos m.totalRows)
              (if isLeftNiece pos then ⟨ph node.hash (m.getNodeD (sibling pos)).hash, node.remember⟩
               else ⟨ph (m.getNodeD (sibling pos)).hash node.hash, node.remember⟩)
          else m) := rfl

/-- the value above the top position is not a key -/
theorem hasNode_top {m : MapPollard H} {T : Nat} {A : Pos → Option (Leaf H)} {C : H → Option Pos}
    (rep : Rep m T A C) : m.hasNode (Parent (encP T (T, 0)) (H8 T)) = false := by
  rw [hasNode_eq]
  cases h : m.getNode (Parent (encP T (T, 0)) (H8 T)) with
  | none => rfl
  | some l =>
    exfalso
    obtain ⟨q, hq, e⟩ := rep.keys _ l h
    have e' := congrArg BitVec.toNat e
    have h1 : (Parent (encP T (T, 0)) (H8 T)).toNat = 2 ^ (T + 1) - 1 := SpecView.parent_top rep.T_le
    have h2 : (encP T q).toNat = enc T (q.1, q.2) := toNat_encU rep.T_le hq.1 hq.2
    have h3 := Props.C16.enc_lt hq.1 hq.2
    omega

theorem good_parent {h : Nat} {p : Pos} (hp : Valid h p ∨ h < p.1) : Valid h (parent p) ∨ h < (parent p).1 := by
  rcases hp with hv | hab
  · by_cases e : p.1 < h
    · exact Or.inl (valid_parent hv e)
    · right; show h < p.1 + 1; have := hv.1; omega
  · right; show h < p.1 + 1; omega

theorem updLoop_rep {T n : Nat} {C : H → Option Pos} (hn63 : n < 2 ^ 63) :
    ∀ (k : Nat) {m : MapPollard H} {A : Pos → Option (Leaf H)} (pos : Pos) (node : Leaf H),
      Rep m T A C → m.numLeaves = BitVec.ofNat 64 n → Valid T pos →
      (Valid (forestRows n) pos ∨ forestRows n < pos.1) → k = T + 1 - pos.1 →
      Rep (MapPollard.updateHashesLoop k (encP T pos) node m) T (updLoopA n T k pos node A) C ∧
        (MapPollard.updateHashesLoop k (encP T pos) node m).numLeaves = m.numLeaves ∧
        (MapPollard.updateHashesLoop k (encP T pos) node m).full = m.full
  | 0, m, A, pos, node, rep, hn, hv, hg, hk => ⟨rep, rfl, rfl⟩
  | k+1, m, A, pos, node, rep, hn, hv, hg, hk => by
    have hT := rep.T_le
    rw [updateHashesLoop_succ, rep.rows]
    by_cases hlt : pos.1 < T
    · have hs := valid_sib hv hlt
      have hP := valid_parent hv hlt
      rw [sibling_encP hT hv, rep.getNodeD hs, MapPrune.parent_encP hT hv hlt, rep.hasNode hP]
      have hln : isLeftNiece (encP T pos) = decide (pos.2 % 2 = 0) :=
        Props.C16.isLeftNiece_enc hT hv.1 hv.2
      rw [hln]
      unfold updLoopA
      simp only [decide_eq_true_eq]
      rw [if_pos hlt]
      generalize hnode' : (if pos.2 % 2 = 0 then
          (⟨ph node.hash ((A (sib pos)).getD ⟨zero, false⟩).hash, node.remember⟩ : Leaf H)
        else ⟨ph ((A (sib pos)).getD ⟨zero, false⟩).hash node.hash, node.remember⟩) = node'
      -- the state after the conditional store
      have key : ∀ (m' : MapPollard H) (A' : Pos → Option (Leaf H)), Rep m' T A' C → m'.numLeaves = m.numLeaves →
          m'.full = m.full →
          Rep (if m'.isRoot (encP T (parent pos)) then m'
               else MapPollard.updateHashesLoop k (encP T (parent pos)) node' m') T
              (if isRootPos n (parent pos) = true then A' else updLoopA n T k (parent pos) node' A') C ∧
            (if m'.isRoot (encP T (parent pos)) then m'
               else MapPollard.updateHashesLoop k (encP T (parent pos)) node' m').numLeaves = m.numLeaves ∧
            (if m'.isRoot (encP T (parent pos)) then m'
               else MapPollard.updateHashesLoop k (encP T (parent pos)) node' m').full = m.full := by
        intro m' A' rep' e1 e2
        rw [isRoot_gen hT rep'.rows (e1.trans hn) hn63 hP (good_parent hg)]
        by_cases hr : isRootPos n (parent pos) = true
        · rw [if_pos hr, if_pos hr]; exact ⟨rep', e1, e2⟩
        · rw [if_neg hr, if_neg hr]
          obtain ⟨r, a, b⟩ := updLoop_rep hn63 k (parent pos) node' rep' (e1.trans hn) hP (good_parent hg)
            (by show k = T + 1 - (pos.1 + 1); omega)
          exact ⟨r, a.trans e1, b.trans e2⟩
      by_cases hs' : (A (parent pos)).isSome = true
      · simp only [hs', if_true]
        exact key _ _ (rep.putNode hP node') rfl rfl
      · simp only [hs', Bool.false_eq_true, if_false]
        exact key _ _ rep rfl rfl
    · have hrow : pos.1 = T := by have := hv.1; omega
      have hk0 : k = 0 := by omega
      have ho : pos.2 = 0 := by
        have := hv.2; rw [hrow, Nat.sub_self] at this; omega
      have hpos : pos = (T, 0) := Prod.ext hrow ho
      subst hk0
      rw [hpos, hasNode_top rep]
      simp only [Bool.false_eq_true, if_false]
      have : updLoopA n T (0 + 1) (T, 0) node A = A := by
        unfold updLoopA
        simp
      rw [this]
      split
      · exact ⟨rep, rfl, rfl⟩
      · exact ⟨rep, rfl, rfl⟩

/-- general form: `d` is a position of the forest geometry or lies on/above its top row -/
theorem updateHashes_rep_gen {m : MapPollard H} {T n : Nat} {A : Pos → Option (Leaf H)} {C : H → Option Pos}
    (rep : Rep m T A C) (hn : m.numLeaves = BitVec.ofNat 64 n) (hn63 : n < 2 ^ 63)
    {fl : Bool} (hfull : m.full = fl) {d : Pos} (hd : Valid T d) (hlt : d.1 < T)
    (hdv : Valid (forestRows n) d ∨ forestRows n ≤ d.1) (hash : H) :
    Rep (m.updateHashes (encP T d) hash) T
      (updLoopA n T (T + 1 - (d.1 + 1)) (parent d) ⟨hash, fl⟩ A) C ∧
      (m.updateHashes (encP T d) hash).numLeaves = m.numLeaves ∧ (m.updateHashes (encP T d) hash).full = m.full := by
  have hT := rep.T_le
  have hP := valid_parent hd hlt
  have hg : Valid (forestRows n) (parent d) ∨ forestRows n < (parent d).1 := by
    rcases hdv with h | h
    · exact good_parent (Or.inl h)
    · right; show forestRows n < d.1 + 1; omega
  unfold MapPollard.updateHashes
  rw [rep.rows, MapPrune.parent_encP hT hd hlt]
  simp only
  rw [detectRow_encP hT hP, hfull, toNat_rowIters (by have := hP.1; omega) hT]
  obtain ⟨r, a, b⟩ := updLoop_rep hn63 (T + 1 - (d.1 + 1)) (parent d) ⟨hash, fl⟩ rep hn hP hg rfl
  exact ⟨r, a, b.trans hfull⟩

/-- (the statement of the brief needs `hdv`: see `updateHashes_rep_false` below) -/
theorem updateHashes_rep {m : MapPollard H} {T n : Nat} {A : Pos → Option (Leaf H)} {C : H → Option Pos}
    (rep : Rep m T A C) (hn : m.numLeaves = BitVec.ofNat 64 n) (hn63 : n < 2 ^ 63) (hfit : forestRows n ≤ T)
    {fl : Bool} (hfull : m.full = fl) {d : Pos} (hd : Valid T d) (hlt : d.1 < T) (hdv : Valid (forestRows n) d) (hash : H) :
    Rep (m.updateHashes (encP T d) hash) T
      (updLoopA n T (T + 1 - (d.1 + 1)) (parent d) ⟨hash, fl⟩ A) C ∧
      (m.updateHashes (encP T d) hash).numLeaves = m.numLeaves ∧ (m.updateHashes (encP T d) hash).full = m.full :=
  updateHashes_rep_gen rep hn hn63 hfull hd hlt (Or.inl hdv) hash

/-! ### `forgetUnneededDel` -/

theorem root_valid {n : Nat} {ρ : Pos} (hρ : isRootPos n ρ = true) : Valid (forestRows n) ρ := by
  obtain ⟨hb, e⟩ := eq_rootPos_of_isRootPos hρ
  have := Props.C16.rootPos_valid (SpecView.le_two_pow_forestRows n) hb
  rw [← e] at this
  exact this

theorem root_of_anc_row {n : Nat} {ρ p : Pos} (hρ : isRootPos n ρ = true) (ha : Anc ρ p)
    (hnr : isRootPos n p = false) : p.1 < ρ.1 := by
  by_cases e : ρ.1 = p.1
  · rw [← ha.eq_of_row e, hρ] at hnr; cases hnr
  · have := ha.1; omega

theorem fgLoop_rep {T n : Nat} {C : H → Option Pos} (hn63 : n < 2 ^ 63) (hfit : forestRows n ≤ T)
    {ρ : Pos} (hρ : isRootPos n ρ = true) :
    ∀ (k : Nat) {m : MapPollard H} {A : Pos → Option (Leaf H)} (pos : Pos),
      Rep m T A C → m.numLeaves = BitVec.ofNat 64 n → Anc ρ pos → pos.1 < ρ.1 →
      Rep (MapPollard.forgetUnneededLoop k (encP T pos) m) T (fgLoopA n k pos A) C ∧
        (MapPollard.forgetUnneededLoop k (encP T pos) m).numLeaves = m.numLeaves ∧
        (MapPollard.forgetUnneededLoop k (encP T pos) m).full = m.full
  | 0, m, A, pos, rep, hn, ha, hlt => ⟨rep, rfl, rfl⟩
  | k+1, m, A, pos, rep, hn, ha, hlt => by
    have hT := rep.T_le
    have hρh := root_valid hρ
    have hρT : Valid T ρ := hρh.mono hfit
    have hv : Valid T pos := MapMoveUp.valid_of_anc hρT ha
    have hltT : pos.1 < T := by have := hρT.1; omega
    have hPa : Anc ρ (parent pos) := MapMoveUp.parent_anc ⟨ha, hlt⟩
    have hPT : Valid T (parent pos) := valid_parent hv hltT
    have hPh : Valid (forestRows n) (parent pos) := MapMoveUp.valid_of_anc hρh hPa
    unfold MapPollard.forgetUnneededLoop fgLoopA
    simp only
    rw [rep.rows, MapPrune.parent_encP hT hv hltT, isRoot_gen hT rep.rows hn hn63 hPT (Or.inl hPh)]
    by_cases hr : isRootPos n (parent pos) = true
    · rw [if_pos hr, if_pos hr]; exact ⟨rep, rfl, rfl⟩
    · rw [if_neg hr, if_neg hr]
      have hr' : isRootPos n (parent pos) = false := by simpa using hr
      have hPlt := root_of_anc_row hρ hPa hr'
      have rep' := rep.prunePosition hPT (by have := hρT.1; omega)
      obtain ⟨f1, f2, f3, f4⟩ := prunePosition_frame m (encP T (parent pos))
      obtain ⟨r, a, b⟩ := fgLoop_rep hn63 hfit hρ k (parent pos) rep' (f2.trans hn) hPa hPlt
      exact ⟨r, a.trans f2, b.trans f4⟩

theorem forgetUnneededDel_rep {m : MapPollard H} {T n : Nat} {A : Pos → Option (Leaf H)} {C : H → Option Pos}
    (rep : Rep m T A C) (hn : m.numLeaves = BitVec.ofNat 64 n) (hn63 : n < 2 ^ 63) (hfit : forestRows n ≤ T)
    {d ρ : Pos} (hd : Valid T d) (hρ : isRootPos n ρ = true) (hρd : Anc ρ d) :
    Rep (m.forgetUnneededDel (encP T d)) T
      (if isRootPos n d = true then A else fgLoopA n (T + 1 - d.1) d A) C ∧
      (m.forgetUnneededDel (encP T d)).numLeaves = m.numLeaves ∧ (m.forgetUnneededDel (encP T d)).full = m.full := by
  have hT := rep.T_le
  have hdh : Valid (forestRows n) d := MapMoveUp.valid_of_anc (root_valid hρ) hρd
  unfold MapPollard.forgetUnneededDel
  rw [isRoot_gen hT rep.rows hn hn63 hd (Or.inl hdh)]
  by_cases hr : isRootPos n d = true
  · rw [if_pos hr, if_pos hr]; exact ⟨rep, rfl, rfl⟩
  · rw [if_neg hr, if_neg hr]
    have hr' : isRootPos n d = false := by simpa using hr
    rw [rep.rows, detectRow_encP hT hd, toNat_rowIters (by have := hd.1; omega) hT]
    exact fgLoop_rep hn63 hfit hρ _ d rep hn hρd (root_of_anc_row hρ hρd hr')

/-! ### `removeSingle` -/

/-- `removeSingle` of a root -/
theorem removeSingle_root_rep {m : MapPollard H} {T n : Nat} {A : Pos → Option (Leaf H)} {C : H → Option Pos}
    (rep : Rep m T A C) (hn : m.numLeaves = BitVec.ofNat 64 n) (hn63 : n < 2 ^ 63) (hfit : forestRows n ≤ T)
    {fl : Bool} (hfull : m.full = fl) {d : Pos} (hd : Valid T d) (hroot : isRootPos n d = true) :
    ∃ m', MapPollard.removeSingle (encP T d) m = (m', .ok ()) ∧
      Rep m' T (upd (clearBelow d A) d (some ⟨zero, fl⟩)) C ∧ m'.numLeaves = m.numLeaves ∧ m'.full = m.full := by
  have hT := rep.T_le
  obtain ⟨rep1, a1, b1⟩ := forgetBelow_rep rep hd
  have hr : (m.forgetBelow (encP T d)).isRoot (encP T d) = true := by
    rw [isRoot_gen hT rep1.rows (a1.trans hn) hn63 hd (Or.inl (root_valid hroot)), hroot]
  unfold MapPollard.removeSingle
  simp only
  rw [if_pos hr, b1, hfull]
  exact ⟨_, rfl, rep1.putNode hd _, a1, b1.trans hfull⟩

/-- the cache update of `removeSingle` (the sibling's entry moves to the parent) -/
def cacheSib (node : Leaf H) (P : Pos) (C : H → Option Pos) : H → Option Pos :=
  if (C node.hash).isSome = true then upd C node.hash (some P) else C

theorem removeBitNat_zero' (v : Nat) : removeBitNat v 0 = v / 2 := by
  simp [removeBitNat, Nat.mod_one]

/-- where the sibling of a deleted node goes: onto the parent -/
theorem calcNext_sib {T : Nat} (hT : T ≤ 63) {d : Pos} (hd : Valid T d) (hlt : d.1 < T) :
    calcNextPosition (encP T (sib d)) (encP T d) (H8 T) = (encP T (parent d), false) := by
  have hs := valid_sib hd hlt
  have := Props.C16.calcNextPosition_enc (h := T) (r := (sib d).1) (o := (sib d).2) (r' := d.1) (o' := d.2)
    hT (Nat.le_refl _) hlt hs.2 hd.2
  rw [show d.1 - (sib d).1 = 0 from Nat.sub_self _, removeBitNat_zero'] at this
  rw [← parent_sib d]
  exact this

theorem not_under_both {d c : Pos} (h1 : Anc d c) (h2 : Anc (sib d) c) : False := by
  apply sib_ne d
  apply Prod.ext
  · rfl
  · have a := h1.2
    have b := h2.2
    rw [sib_fst] at b
    rw [b, a]

theorem parent_ne_row {d q : Pos} (h : q.1 ≤ d.1) : q ≠ parent d := by
  intro e
  rw [e] at h
  have : (parent d).1 = d.1 + 1 := rfl
  omega

/-- the abstract state just before `moveUpDescendants` agrees with `A` strictly below the sibling -/
theorem pre_below {A : Pos → Option (Leaf H)} {d c : Pos} (node : Leaf H) (hc : SUnder (sib d) c) :
    upd (upd (upd (clearBelow d A) d none) (sib d) none) (parent d) (some node) c = A c := by
  have hrow : c.1 < d.1 := by have := hc.2; rwa [sib_fst] at this
  have n1 : c ≠ parent d := parent_ne_row (by omega)
  have n2 : c ≠ sib d := by intro e; rw [e, sib_fst] at hrow; omega
  have n3 : c ≠ d := by intro e; rw [e] at hrow; omega
  rw [upd_ne _ _ n1, upd_ne _ _ n2, upd_ne _ _ n3]
  unfold clearBelow
  rw [if_neg]
  intro h
  exact not_under_both h.1 hc.1

/-- `removeSingle` of a non-root whose sibling is stored -/
theorem removeSingle_nonroot_rep {m : MapPollard H} {T n : Nat} {A : Pos → Option (Leaf H)} {C : H → Option Pos}
    (rep : Rep m T A C) (hn : m.numLeaves = BitVec.ofNat 64 n) (hn63 : n < 2 ^ 63) (hfit : forestRows n ≤ T)
    {fl : Bool} (hfull : m.full = fl) {d ρ : Pos} (hd : Valid T d) (hnr : isRootPos n d = false)
    (hρ : isRootPos n ρ = true) (hρd : Anc ρ d) {node : Leaf H} (hsib : A (sib d) = some node)
    -- a stored node below the sibling whose hash is cached is cached at its own position
    (hc : ∀ c v, SUnder (sib d) c → A c = some v → ∀ t, cacheSib node (parent d) C v.hash = some t → t = c)
    -- a cached position below the sibling is stored with that hash
    (hc2 : ∀ x t, cacheSib node (parent d) C x = some t → SUnder (sib d) t → ∃ v, A t = some v ∧ v.hash = x) :
    ∃ m', MapPollard.removeSingle (encP T d) m = (m', .ok ()) ∧
      Rep m' T
        (fgLoopA n (T + 1 - d.1) d
          (updLoopA n T (T + 1 - (d.1 + 1)) (parent d) ⟨node.hash, fl⟩
            (liftA (sib d) (upd (upd (upd (clearBelow d A) d none) (sib d) none) (parent d) (some node)))))
        (liftC (sib d) (cacheSib node (parent d) C)) ∧
      m'.numLeaves = m.numLeaves ∧ m'.full = m.full := by
  have hT := rep.T_le
  have hρh := root_valid hρ
  have hρT : Valid T ρ := hρh.mono hfit
  have hdh : Valid (forestRows n) d := MapMoveUp.valid_of_anc hρh hρd
  have hdρ := root_of_anc_row hρ hρd hnr
  have hlt : d.1 < T := by have := hρT.1; omega
  have hσ := valid_sib hd hlt
  have hP := valid_parent hd hlt
  have hσd : sib d ≠ d := sib_ne d
  have hdP : d ≠ parent d := parent_ne_row (Nat.le_refl _)
  have hσP : sib d ≠ parent d := parent_ne_row (by rw [sib_fst]; exact Nat.le_refl _)
  -- 1. forgetBelow
  obtain ⟨rep1, a1, b1⟩ := forgetBelow_rep rep hd
  have hr : (m.forgetBelow (encP T d)).isRoot (encP T d) = false := by
    rw [isRoot_gen hT rep1.rows (a1.trans hn) hn63 hd (Or.inl hdh), hnr]
  generalize hm1 : m.forgetBelow (encP T d) = m1 at rep1 a1 b1 hr
  -- 2. delete `d`
  have rep2 := rep1.delNode hd
  have hget : (m1.delNode (encP T d)).getNode (encP T (sib d)) = some node := by
    rw [rep2.node _ hσ, upd_ne _ _ hσd]
    unfold clearBelow
    rw [if_neg, hsib]
    intro h; have := h.2; rw [sib_fst] at this; omega
  -- 3. move the sibling onto the parent
  have rep3 := (rep2.delNode hσ).putNode hP node
  -- 4. the cache
  have rep4 : ∀ μ : MapPollard H, Rep μ T (upd (upd (upd (clearBelow d A) d none) (sib d) none) (parent d) (some node)) C →
      Rep (if μ.hasCached node.hash then μ.putCached node.hash (encP T (parent d)) else μ) T
        (upd (upd (upd (clearBelow d A) d none) (sib d) none) (parent d) (some node)) (cacheSib node (parent d) C) ∧
      (if μ.hasCached node.hash then μ.putCached node.hash (encP T (parent d)) else μ).numLeaves = μ.numLeaves ∧
      (if μ.hasCached node.hash then μ.putCached node.hash (encP T (parent d)) else μ).full = μ.full := by
    intro μ r
    unfold cacheSib
    rw [r.hasCached]
    by_cases hcs : (C node.hash).isSome = true
    · rw [if_pos hcs, if_pos hcs]; exact ⟨r.putCached _ hP, rfl, rfl⟩
    · rw [if_neg hcs, if_neg hcs]; exact ⟨r, rfl, rfl⟩
  obtain ⟨rep4', a4, b4⟩ := rep4 _ rep3
  -- 5. moveUpDescendants
  obtain ⟨m5, e5, rep5, a5, b5⟩ := MapMoveUp.moveUpDescendants_rep rep4' hσ (by rw [sib_fst]; exact hlt)
    (by rw [upd_ne _ _ hσP, upd_self])
    (by rw [sib_sib, upd_ne _ _ hdP, upd_ne _ _ hσd.symm, upd_self])
    (by
      intro q hq
      rw [sib_sib] at hq
      have hrow := hq.2
      have n1 : q ≠ parent d := parent_ne_row (by omega)
      have n2 : q ≠ sib d := by intro e; rw [e, sib_fst] at hrow; omega
      have n3 : q ≠ d := by intro e; rw [e] at hrow; omega
      rw [upd_ne _ _ n1, upd_ne _ _ n2, upd_ne _ _ n3]
      unfold clearBelow
      rw [if_pos hq])
    (by
      intro c v hsc hA t ht
      rw [pre_below node hsc] at hA
      exact hc c v hsc hA t ht)
    (by
      intro x t ht hst
      rw [pre_below node hst]
      exact hc2 x t ht hst)
  rw [sib_sib] at e5
  -- 6. updateHashes
  have n5 : m5.numLeaves = BitVec.ofNat 64 n := by
    rw [a5, a4]; exact a1.trans hn
  have f5 : m5.full = fl := by
    rw [b5, b4]; exact b1.trans hfull
  obtain ⟨rep6, a6, b6⟩ := updateHashes_rep rep5 n5 hn63 hfit f5 hd hlt hdh node.hash
  -- 7. forgetUnneededDel
  obtain ⟨rep7, a7, b7⟩ := forgetUnneededDel_rep rep6 (a6.trans n5) hn63 hfit hd hρ hρd
  rw [if_neg (by rw [hnr]; simp)] at rep7
  refine ⟨_, ?_, rep7, ?_, ?_⟩
  · unfold MapPollard.removeSingle
    simp only
    rw [hm1, hr]
    simp only [Bool.false_eq_true, if_false]
    rw [sibling_encP hT hd, hget]
    simp only
    rw [rep2.rows, MapPrune.parent_encP hT hd hlt, rep3.rows, calcNext_sib hT hd hlt]
    simp only [Bool.false_eq_true, if_false]
    by_cases hcs : (((m1.delNode (encP T d)).delNode (encP T (sib d))).putNode (encP T (parent d)) node).hasCached
        node.hash = true
    · rw [if_pos hcs] at e5
      rw [if_pos hcs]
      simp only
      rw [e5]
    · rw [if_neg hcs] at e5
      rw [if_neg hcs]
      simp only
      rw [e5]
  · rw [a7, a6, n5, hn]
  · rw [b7, b6, f5, hfull]

/-! ### non-vacuity, and the two statements of the brief that need an extra hypothesis -/

section Example
local instance exHasher : Hasher Nat := ⟨fun a b => a + b + 1, 0⟩

/-- 4 leaves in a 2-row allocation: root `(2,0)`, both row-1 nodes, the leaves `(0,2)` (cached) and `(0,3)` -/
def mX : MapPollard Nat :=
  { nodes := [(encP 2 (2, 0), ⟨100, false⟩), (encP 2 (1, 0), ⟨50, false⟩), (encP 2 (1, 1), ⟨60, false⟩),
              (encP 2 (0, 2), ⟨30, true⟩), (encP 2 (0, 3), ⟨31, false⟩)],
    cached := [(30, encP 2 (0, 2))], numLeaves := 4#64, totalRows := H8 2, full := false }

theorem mX_rep : Rep mX 2 (absA mX 2) (absC mX 2) := by
  refine rep_abs (by decide) rfl ?_ ?_
  · intro p l h
    have hm := get?_some_mem (l := mX.nodes) h
    simp only [mX, List.mem_cons, Prod.mk.injEq, List.not_mem_nil, or_false] at hm
    rcases hm with ⟨rfl, _⟩ | ⟨rfl, _⟩ | ⟨rfl, _⟩ | ⟨rfl, _⟩ | ⟨rfl, _⟩
    · exact ⟨(2, 0), by decide, rfl⟩
    · exact ⟨(1, 0), by decide, rfl⟩
    · exact ⟨(1, 1), by decide, rfl⟩
    · exact ⟨(0, 2), by decide, rfl⟩
    · exact ⟨(0, 3), by decide, rfl⟩
  · intro x p h
    have hm := get?_some_mem (l := mX.cached) h
    simp only [mX, List.mem_cons, Prod.mk.injEq, List.not_mem_nil, or_false] at hm
    obtain ⟨_, rfl⟩ := hm
    exact ⟨(0, 2), by decide, rfl⟩

theorem fr4 : forestRows 4 ≤ 2 := SpecView.forestRows_le (by decide)

theorem valid_fr4 {q : Pos} (h : Valid 2 q) : Valid (forestRows 4) q := by
  have : forestRows 4 = 2 := by
    have a := fr4
    have b := SpecView.le_two_pow_forestRows 4
    have : ¬ forestRows 4 ≤ 1 := by
      intro h1
      have : 2 ^ forestRows 4 ≤ 2 ^ 1 := two_pow_le_of_le h1
      omega
    omega
  rw [this]; exact h

example : Rep (mX.forgetBelow (encP 2 (1, 1))) 2 (clearBelow (1, 1) (absA mX 2)) (absC mX 2) ∧
    (mX.forgetBelow (encP 2 (1, 1))).numLeaves = mX.numLeaves ∧ (mX.forgetBelow (encP 2 (1, 1))).full = mX.full :=
  forgetBelow_rep mX_rep (by decide)

/-- and it does something: the leaf `(0,2)` below `(1,1)` is dropped -/
example : absA mX 2 (0, 2) = some ⟨30, true⟩ ∧ clearBelow (1, 1) (absA mX 2) (0, 2) = none ∧
    clearBelow (1, 1) (absA mX 2) (1, 1) = some ⟨60, false⟩ := by
  refine ⟨by decide, by decide, by decide⟩

example : mX.isRoot (encP 2 (2, 0)) = isRootPos 4 (2, 0) :=
  isRoot_rep (n := 4) mX_rep rfl (by decide) fr4 (by decide) (valid_fr4 (by decide))

example : Rep (mX.updateHashes (encP 2 (0, 2)) 77) 2
      (updLoopA 4 2 (2 + 1 - ((0, 2) : Pos).1.succ) (parent (0, 2)) ⟨77, false⟩ (absA mX 2)) (absC mX 2) ∧
    (mX.updateHashes (encP 2 (0, 2)) 77).numLeaves = mX.numLeaves ∧
    (mX.updateHashes (encP 2 (0, 2)) 77).full = mX.full :=
  updateHashes_rep (n := 4) mX_rep rfl (by decide) fr4 rfl (d := (0, 2)) (by decide) (by decide)
    (valid_fr4 (by decide)) 77

/-- the walk of `updateHashes` from `(1,1)` (new hash 77): the root becomes `ph 50 77 = 128` -/
example : updLoopA 4 2 2 (1, 1) ⟨77, false⟩ (absA mX 2) (2, 0) = some ⟨128, false⟩ := by decide

example : Rep (mX.forgetUnneededDel (encP 2 (0, 3))) 2
      (if isRootPos 4 (0, 3) = true then absA mX 2 else fgLoopA 4 (2 + 1 - ((0, 3) : Pos).1) (0, 3) (absA mX 2))
      (absC mX 2) ∧
    (mX.forgetUnneededDel (encP 2 (0, 3))).numLeaves = mX.numLeaves ∧
    (mX.forgetUnneededDel (encP 2 (0, 3))).full = mX.full :=
  forgetUnneededDel_rep (n := 4) (ρ := (2, 0)) mX_rep rfl (by decide) fr4 (by decide) (by decide) (by decide)

example : ∃ m', MapPollard.removeSingle (encP 2 (2, 0)) mX = (m', .ok ()) ∧
    Rep m' 2 (upd (clearBelow (2, 0) (absA mX 2)) (2, 0) (some ⟨zero, false⟩)) (absC mX 2) ∧
    m'.numLeaves = mX.numLeaves ∧ m'.full = mX.full :=
  removeSingle_root_rep (n := 4) mX_rep rfl (by decide) fr4 rfl (by decide) (by decide)

theorem under_11 {c : Pos} (h : SUnder (sib (1, 0)) c) : c = (0, 2) ∨ c = (0, 3) := by
  obtain ⟨r, o⟩ := c
  obtain ⟨⟨h1, h2⟩, h3⟩ := h
  have e : sib (1, 0) = (1, 1) := by decide
  rw [e] at h1 h2 h3
  simp only at h1 h2 h3
  have hr : r = 0 := by omega
  subst hr
  simp at h2
  have : o = 2 ∨ o = 3 := by omega
  rcases this with rfl | rfl <;> simp

theorem exC_eq (x : Nat) : absC mX 2 x = if x = 30 then some (0, 2) else none := by
  unfold absC MapPollard.getCached mX
  simp only [AL.get?]
  by_cases e : x = 30
  · subst e; decide
  · have : ¬ (30 = x) := fun h => e h.symm
    rw [if_neg this, if_neg e]; rfl

/-- `removeSingle_nonroot_rep`: deleting `(1,0)`; its sibling `(1,1)` (hash 60) moves onto the root
position, the leaves `(0,2)` (cached) and `(0,3)` below it move up to `(1,0)`, `(1,1)` -/
example : ∃ m', MapPollard.removeSingle (encP 2 (1, 0)) mX = (m', .ok ()) ∧
    Rep m' 2
      (fgLoopA 4 (2 + 1 - ((1, 0) : Pos).1) (1, 0)
        (updLoopA 4 2 (2 + 1 - (((1, 0) : Pos).1 + 1)) (parent (1, 0)) ⟨(⟨60, false⟩ : Leaf Nat).hash, false⟩
          (liftA (sib (1, 0)) (upd (upd (upd (clearBelow (1, 0) (absA mX 2)) (1, 0) none) (sib (1, 0)) none)
            (parent (1, 0)) (some ⟨60, false⟩)))))
      (liftC (sib (1, 0)) (cacheSib ⟨60, false⟩ (parent (1, 0)) (absC mX 2))) ∧
    m'.numLeaves = mX.numLeaves ∧ m'.full = mX.full := by
  have hcu : cacheSib (⟨60, false⟩ : Leaf Nat) (parent (1, 0)) (absC mX 2) = absC mX 2 := by
    unfold cacheSib
    rw [if_neg]
    rw [exC_eq]; decide
  refine removeSingle_nonroot_rep (n := 4) (ρ := (2, 0)) (node := ⟨60, false⟩) mX_rep rfl (by decide) fr4 rfl
    (by decide) (by decide) (by decide) (by decide) (by decide) ?_ ?_
  · intro c v hsc hA t ht
    rw [hcu, exC_eq] at ht
    rcases under_11 hsc with rfl | rfl
    · have : absA mX 2 (0, 2) = some ⟨30, true⟩ := by decide
      rw [this] at hA
      simp only [Option.some.injEq] at hA
      subst hA
      simpa using ht.symm
    · have : absA mX 2 (0, 3) = some ⟨31, false⟩ := by decide
      rw [this] at hA
      simp only [Option.some.injEq] at hA
      subst hA
      simp at ht
  · intro x t ht hst
    rw [hcu, exC_eq] at ht
    split at ht
    · rename_i e
      simp only [Option.some.injEq] at ht
      subst ht e
      exact ⟨⟨30, true⟩, by decide, rfl⟩
    · cases ht

/-- the resulting abstract state of that instance, evaluated: the sibling's hash at the root position,
the two leaves one row up, nothing left on row 0; the cached leaf is now at `(1,0)` -/
example :
    let A' := fgLoopA 4 (2 + 1 - 1) (1, 0)
        (updLoopA 4 2 (2 + 1 - (1 + 1)) (parent (1, 0)) ⟨60, false⟩
          (liftA (sib (1, 0)) (upd (upd (upd (clearBelow (1, 0) (absA mX 2)) (1, 0) none) (sib (1, 0)) none)
            (parent (1, 0)) (some (⟨60, false⟩ : Leaf Nat)))))
    A' (2, 0) = some ⟨60, false⟩ ∧ A' (1, 0) = some ⟨30, true⟩ ∧ A' (1, 1) = some ⟨31, false⟩ ∧
      A' (0, 2) = none ∧ A' (0, 3) = none ∧ liftC (sib (1, 0)) (absC mX 2) 30 = some (1, 0) := by
  refine ⟨by decide, by decide, by decide, by decide, by decide, by decide⟩

/-- the model itself on that input, evaluated (keys: `(2,0)` = 6, `(1,0)` = 4, `(1,1)` = 5) -/
example : (MapPollard.removeSingle (encP 2 (1, 0)) mX).1.nodes =
      [(5#64, ⟨31, false⟩), (4#64, ⟨30, true⟩), (6#64, ⟨60, false⟩)] ∧
    (MapPollard.removeSingle (encP 2 (1, 0)) mX).1.cached = [(30, 4#64)] ∧
    (match (MapPollard.removeSingle (encP 2 (1, 0)) mX).2 with | .ok _ => true | .error _ => false) = true := by
  decide +kernel

/-- a second state: the leaves `(0,0)`, `(0,1)` (cached), their aunt `(1,1)` and the root -/
def mY : MapPollard Nat :=
  { nodes := [(encP 2 (2, 0), ⟨100, false⟩), (encP 2 (1, 1), ⟨60, false⟩),
              (encP 2 (0, 0), ⟨10, false⟩), (encP 2 (0, 1), ⟨11, true⟩)],
    cached := [(11, encP 2 (0, 1))], numLeaves := 4#64, totalRows := H8 2, full := false }

/-- deleting `(0,0)`: the cached sibling `(0,1)` moves to `(1,0)` = 4 (node and cache entry), and
`updateHashes` stores `ph 11 60 = 72` in the root -/
example : (MapPollard.removeSingle (encP 2 (0, 0)) mY).1.nodes =
      [(6#64, ⟨72, false⟩), (4#64, ⟨11, true⟩), (5#64, ⟨60, false⟩)] ∧
    (MapPollard.removeSingle (encP 2 (0, 0)) mY).1.cached = [(11, 4#64)] ∧
    (match (MapPollard.removeSingle (encP 2 (0, 0)) mY).2 with | .ok _ => true | .error _ => false) = true := by
  decide +kernel

/-! #### the statements of the brief without the extra hypothesis are false

`isRoot_rep` was asked for every `Valid T q`, `updateHashes_rep` for every `Valid T d`.  A position
that is valid in the allocated geometry (`T` rows) but not in the geometry of the forest
(`forestRows n` rows) is translated by `translatePos` onto a position of a HIGHER row of the small
geometry, which can be a root.  Such positions lie outside the forest, so this is not a defect
of the Go code, but the hypothesis `Valid (forestRows n) q` is needed. -/

/-- an empty 3-leaf forest allocated for 3 rows -/
def mZ : MapPollard Nat :=
  { nodes := [], cached := [], numLeaves := 3#64, totalRows := H8 3, full := false }

theorem mZ_rep : Rep mZ 3 (fun _ => none) (fun _ => none) where
  T_le := by decide
  rows := rfl
  keys := by intro p l h; cases h
  node := by intro q hq; rfl
  dom := by intro q l h; cases h
  cache := by intro x; rfl
  cdom := by intro x t h; cases h

/-- `(0,4)` is valid for 3 rows; with 3 leaves (2 rows) its key `4` is the key of the root `(1,0)` -/
theorem isRoot_rep_false :
    ∃ (m : MapPollard Nat) (T n : Nat) (A : Pos → Option (Leaf Nat)) (C : Nat → Option Pos) (q : Pos),
      Rep m T A C ∧ m.numLeaves = BitVec.ofNat 64 n ∧ n < 2 ^ 63 ∧ forestRows n ≤ T ∧ Valid T q ∧
      m.isRoot (encP T q) ≠ isRootPos n q :=
  ⟨mZ, 3, 3, _, _, (0, 4), mZ_rep, rfl, by decide, SpecView.forestRows_le (by decide), by decide, by decide +kernel⟩

/-- 8 leaves (3 rows) in a 4-row allocation, something stored at `(3,1)` (outside the forest) -/
def mW : MapPollard Nat :=
  { nodes := [(encP 4 (3, 1), ⟨5, false⟩)], cached := [], numLeaves := 8#64, totalRows := H8 4, full := false }

theorem mW_rep : Rep mW 4 (absA mW 4) (absC mW 4) := by
  refine rep_abs (by decide) rfl ?_ ?_
  · intro p l h
    have hm := get?_some_mem (l := mW.nodes) h
    simp only [mW, List.mem_cons, Prod.mk.injEq, List.not_mem_nil, or_false] at hm
    obtain ⟨rfl, _⟩ := hm
    exact ⟨(3, 1), by decide, rfl⟩
  · intro x p h
    cases h

/-- `d = (0,8)` is valid for 4 rows but not a position of the 8-leaf forest: the model takes its
grandparent `(2,2)` (key 26, translated to 14 = the root `(3,0)` of the forest) for a root and stops,
the abstract loop goes on and would overwrite `(3,1)` -/
theorem updateHashes_rep_false :
    ∃ (m : MapPollard Nat) (T n : Nat) (A : Pos → Option (Leaf Nat)) (C : Nat → Option Pos) (d : Pos) (hash : Nat),
      Rep m T A C ∧ m.numLeaves = BitVec.ofNat 64 n ∧ n < 2 ^ 63 ∧ forestRows n ≤ T ∧ m.full = false ∧
      Valid T d ∧ d.1 < T ∧
      ¬ Rep (m.updateHashes (encP T d) hash) T
          (updLoopA n T (T + 1 - (d.1 + 1)) (parent d) ⟨hash, false⟩ A) C := by
  refine ⟨mW, 4, 8, _, _, (0, 8), 7, mW_rep, rfl, by decide, SpecView.forestRows_le (by decide), rfl,
    by decide, by decide, ?_⟩
  intro r
  have h := r.node (3, 1) (by decide)
  have e1 : (mW.updateHashes (encP 4 (0, 8)) 7).getNode (encP 4 (3, 1)) = some ⟨5, false⟩ := by decide +kernel
  have e2 : updLoopA 8 4 (4 + 1 - (((0, 8) : Pos).1 + 1)) (parent (0, 8)) ⟨7, false⟩ (absA mW 4) (3, 1) =
      some ⟨9, false⟩ := by decide +kernel
  rw [e1, e2] at h
  exact absurd h (by decide)

end Example

end UtreexoVerif.Proofs.MapRemoveRep

section Axioms
open UtreexoVerif.Proofs.MapRemoveRep
#print axioms forgetBelow_rep
#print axioms isRoot_rep
#print axioms isRoot_gen
#print axioms updateHashes_rep
#print axioms forgetUnneededDel_rep
#print axioms removeSingle_root_rep
#print axioms removeSingle_nonroot_rep
#print axioms isRoot_rep_false
#print axioms updateHashes_rep_false
end Axioms
