/-
  The specification forest as a `ForestViewX` (`Proofs/CalcSoundX.lean`) — `Proofs/SpecView.lean`
  without `CR H` and without `LeafOK F`: a node of `F` whose hash is `ph a b` has the children
  `a`, `b`, OR the pair `(a, b)` is *bad for `F`* in one of three explicit, decidable ways
  (`ForestBad`):

  * `ph a b = zero`                       (the node is an empty root),
  * `ph a b ∈ F.upLeaves`                 (the node is a moved-up live leaf),
  * `ph a b = ph y.1 y.2`, `(a, b) ≠ y` for a `y ∈ F.nodePairs`   (a genuine collision with the
    pair that produced the node's hash).

  `nodePairs_spec` / `upLeaves_spec` show that the two lists contain nothing but what their names
  say (so `ForestBad` is not made easier to satisfy by junk in the lists).

  Also: the leaf bound is relaxed from `F.numLeaves < 2^63` to `F.numLeaves ≤ 2^63` (all that the
  position arithmetic needs is `TreeRows ≤ 63`).
-/
import UtreexoVerif.Proofs.SpecView
import UtreexoVerif.Proofs.CalcSoundX
import UtreexoVerif.Spec.NodePairs

namespace UtreexoVerif.Proofs.SpecViewX
open UtreexoVerif UtreexoVerif.GoInt UtreexoVerif.Proofs Spec Hasher Model
open UtreexoVerif.Proofs.SpecNodes UtreexoVerif.Proofs.SpecView UtreexoVerif.Proofs.CalcSoundX

section
set_option linter.unusedSectionVars false
variable {H : Type} [DecidableEq H] [Hasher H]

/-- the three ways in which a hashed pair `(a, b)` can break the children property of `F` -/
def ForestBad (F : Forest H) (a b : H) : Prop :=
  ph a b = (zero : H) ∨ ph a b ∈ F.upLeaves ∨
    ∃ y ∈ F.nodePairs, ph a b = ph y.1 y.2 ∧ (a, b) ≠ y

instance (F : Forest H) (a b : H) : Decidable (ForestBad F a b) := by
  unfold ForestBad; infer_instance

/-! ### the pairs of a collapsed tree -/

/-- `nodes_internal`, also locating the children's hash pair in `CTree.pairs` -/
theorem nodes_internal_pairs : ∀ (t : CTree H) (r o : Nat), ∀ x ∈ t.nodes r o, x.2.2 = false →
    ∃ a b : CTree H, x.2.1 = ph a.hash b.hash ∧ (a.hash, b.hash) ∈ t.pairs ∧
      ((x.1.1 - 1, 2 * x.1.2), a.hash, isLeaf a) ∈ t.nodes r o ∧
      ((x.1.1 - 1, 2 * x.1.2 + 1), b.hash, isLeaf b) ∈ t.nodes r o := by
  intro t
  induction t with
  | leaf h =>
    intro r o x hx hf
    simp only [CTree.nodes, List.mem_singleton] at hx
    subst hx
    simp at hf
  | node a b iha ihb =>
    intro r o x hx hf
    simp only [CTree.nodes, List.mem_cons, List.mem_append] at hx
    rcases hx with rfl | hx | hx
    · refine ⟨a, b, rfl, ?_, ?_, ?_⟩
      · simp [CTree.pairs]
      · simp only [CTree.nodes, List.mem_cons, List.mem_append]
        exact Or.inr (Or.inl (nodes_head a _ _))
      · simp only [CTree.nodes, List.mem_cons, List.mem_append]
        exact Or.inr (Or.inr (nodes_head b _ _))
    · obtain ⟨c, d, h1, hp, h2, h3⟩ := iha _ _ x hx hf
      refine ⟨c, d, h1, ?_, ?_, ?_⟩
      · simp only [CTree.pairs, List.mem_cons, List.mem_append]
        exact Or.inr (Or.inl hp)
      · simp only [CTree.nodes, List.mem_cons, List.mem_append]
        exact Or.inr (Or.inl h2)
      · simp only [CTree.nodes, List.mem_cons, List.mem_append]
        exact Or.inr (Or.inl h3)
    · obtain ⟨c, d, h1, hp, h2, h3⟩ := ihb _ _ x hx hf
      refine ⟨c, d, h1, ?_, ?_, ?_⟩
      · simp only [CTree.pairs, List.mem_cons, List.mem_append]
        exact Or.inr (Or.inr hp)
      · simp only [CTree.nodes, List.mem_cons, List.mem_append]
        exact Or.inr (Or.inr h2)
      · simp only [CTree.nodes, List.mem_cons, List.mem_append]
        exact Or.inr (Or.inr h3)

/-- the pairs of the tree on row `h` are pairs of the forest -/
theorem mem_nodePairs {F : Forest H} {h : Nat} {t : CTree H} {y : H × H}
    (hh : h ∈ treeRows F.numLeaves)
    (ht : collapse h ((F.slots.drop (treeStart F.numLeaves h)).take (2 ^ h)) = some t)
    (hy : y ∈ t.pairs) : y ∈ F.nodePairs := by
  unfold Forest.nodePairs Forest.trees
  rw [List.flatMap_map, List.mem_flatMap]
  refine ⟨h, hh, ?_⟩
  simp only [ht]
  exact hy

/-- inside a collapsed tree, every listed pair is the pair of child hashes of an internal node -/
theorem pairs_spec : ∀ (t : CTree H) (r o : Nat), depth t ≤ r → ∀ y ∈ t.pairs,
    ∃ r' o' bl br, ((r' + 1, o'), ph y.1 y.2, false) ∈ t.nodes r o ∧
      ((r', 2 * o'), y.1, bl) ∈ t.nodes r o ∧ ((r', 2 * o' + 1), y.2, br) ∈ t.nodes r o := by
  intro t
  induction t with
  | leaf h => intro r o _ y hy; simp [CTree.pairs] at hy
  | node a b iha ihb =>
    intro r o hd y hy
    simp only [depth] at hd
    simp only [CTree.pairs, List.mem_cons, List.mem_append] at hy
    rcases hy with rfl | hy | hy
    · refine ⟨r - 1, o, isLeaf a, isLeaf b, ?_, ?_, ?_⟩
      · rw [Nat.sub_add_cancel (by omega)]
        simp [CTree.nodes, CTree.hash]
      · simp only [CTree.nodes, List.mem_cons, List.mem_append]
        exact Or.inr (Or.inl (nodes_head a _ _))
      · simp only [CTree.nodes, List.mem_cons, List.mem_append]
        exact Or.inr (Or.inr (nodes_head b _ _))
    · obtain ⟨r', o', bl, br, h1, h2, h3⟩ := iha (r - 1) (2 * o) (by omega) y hy
      refine ⟨r', o', bl, br, ?_, ?_, ?_⟩ <;>
        (simp only [CTree.nodes, List.mem_cons, List.mem_append]; exact Or.inr (Or.inl ‹_›))
    · obtain ⟨r', o', bl, br, h1, h2, h3⟩ := ihb (r - 1) (2 * o + 1) (by omega) y hy
      refine ⟨r', o', bl, br, ?_, ?_, ?_⟩ <;>
        (simp only [CTree.nodes, List.mem_cons, List.mem_append]; exact Or.inr (Or.inr ‹_›))

/-- **`F.nodePairs` contains nothing but the child-hash pairs of internal nodes of `F`**: every
listed pair `(l, r)` comes with a position `(row+1, o)` of `F` whose node has hash `ph l r` and
whose children `(row, 2o)`, `(row, 2o+1)` have the hashes `l` and `r` -/
theorem nodePairs_spec {F : Forest H} {y : H × H} (hy : y ∈ F.nodePairs) :
    ∃ r o, F.nodeAt (r + 1, o) = some (ph y.1 y.2) ∧ F.nodeAt (r, 2 * o) = some y.1 ∧
      F.nodeAt (r, 2 * o + 1) = some y.2 := by
  unfold Forest.nodePairs Forest.trees at hy
  rw [List.flatMap_map, List.mem_flatMap] at hy
  obtain ⟨h, hh, hy⟩ := hy
  simp only at hy
  split at hy
  · rename_i t ht
    obtain ⟨r', o', bl, br, h1, h2, h3⟩ :=
      pairs_spec t h (rootPos F.numLeaves h).2 (collapse_depth _ _ _ ht) y hy
    have tn : ∀ z, z ∈ t.nodes h (rootPos F.numLeaves h).2 → z ∈ F.nodes := by
      intro z hz
      refine mem_nodes.2 ⟨h, ⟨(mem_treeRowsFrom _ _ hh).1, hh⟩, ?_⟩
      unfold treeNodes
      rw [ht]
      exact hz
    exact ⟨r', o', nodeAt_of_mem (tn _ h1), nodeAt_of_mem (tn _ h2), nodeAt_of_mem (tn _ h3)⟩
  · simp at hy

/-- **`F.upLeaves` contains nothing but live leaves sitting on a row `≥ 1`** -/
theorem upLeaves_spec {F : Forest H} {l : H} (hl : l ∈ F.upLeaves) :
    l ∈ F.liveLeaves ∧ ∃ r o, F.nodeAt (r + 1, o) = some l := by
  unfold Forest.upLeaves at hl
  rw [List.mem_map] at hl
  obtain ⟨x, hx, rfl⟩ := hl
  rw [List.mem_filter] at hx
  obtain ⟨hx, hc⟩ := hx
  simp only [Bool.and_eq_true, decide_eq_true_eq] at hc
  refine ⟨leaf_node_live hx hc.1, x.1.1 - 1, x.1.2, ?_⟩
  have := nodeAt_of_mem hx
  rwa [show x.1 = (x.1.1 - 1 + 1, x.1.2) from by rw [Nat.sub_add_cancel hc.2]] at this

theorem mem_upLeaves {F : Forest H} {x : Pos × H × Bool} (hx : x ∈ F.nodes) (hl : x.2.2 = true)
    (h1 : 1 ≤ x.1.1) : x.2.1 ∈ F.upLeaves := by
  unfold Forest.upLeaves
  rw [List.mem_map]
  refine ⟨x, ?_, rfl⟩
  rw [List.mem_filter]
  exact ⟨hx, by simp [hl, h1]⟩

/-! ### children, with the escape -/

/-- **`nodeAt_children` without `CR` and without `LeafOK`**: a node of `F` with hash `ph a b`
has the children `a`, `b` and was made from exactly that pair, or `(a, b)` is bad for `F` -/
theorem nodeAt_children_x {F : Forest H} {r o : Nat} {a b : H}
    (hn : F.nodeAt (r + 1, o) = some (ph a b)) :
    (F.nodeAt (r, 2 * o) = some a ∧ F.nodeAt (r, 2 * o + 1) = some b ∧ (a, b) ∈ F.nodePairs) ∨
      ForestBad F a b := by
  obtain ⟨fl, hx⟩ := nodeAt_eq_some_iff.1 hn
  cases fl with
  | true => exact Or.inr (Or.inr (Or.inl (mem_upLeaves hx rfl (by simp))))
  | false =>
    obtain ⟨h, hh, hx'⟩ := mem_nodes.1 hx
    unfold treeNodes at hx'
    split at hx'
    · rename_i t ht
      obtain ⟨c, d, he, hp, hc, hd⟩ := nodes_internal_pairs t _ _ _ hx' rfl
      simp only at he hc hd
      by_cases hab : (a, b) = (c.hash, d.hash)
      · injection hab with h1 h2
        subst h1 h2
        have tn : ∀ y, y ∈ t.nodes h (rootPos F.numLeaves h).2 → y ∈ F.nodes := by
          intro y hy
          refine mem_nodes.2 ⟨h, hh, ?_⟩
          unfold treeNodes
          rw [ht]
          exact hy
        rw [Nat.add_sub_cancel] at hc hd
        exact Or.inl ⟨nodeAt_of_mem (tn _ hc), nodeAt_of_mem (tn _ hd), mem_nodePairs hh.2 ht hp⟩
      · exact Or.inr (Or.inr (Or.inr ⟨(c.hash, d.hash), mem_nodePairs hh.2 ht hp, he, hab⟩))
    · simp only [List.mem_singleton, Prod.mk.injEq] at hx'
      exact Or.inr (Or.inl hx'.2.1)

/-! ### the view for `numLeaves ≤ 2^63` -/

theorem forestRows_le_63' {n : Nat} (h : n ≤ 2 ^ 63) : forestRows n ≤ 63 := forestRows_le h

theorem treeRows_eq' {n : Nat} (hn : n ≤ 2 ^ 63) :
    TreeRows (BitVec.ofNat 64 n) = H8 (forestRows n) := by
  apply BitVec.eq_of_toNat_eq
  rw [Props.C16.treeRows_spec (by omega), toNat_H8 (forestRows_le_63' hn)]

theorem viewNodeAt_encU' {F : Forest H} (hn : F.numLeaves ≤ 2 ^ 63) {r o : Nat}
    (hr : r ≤ F.rows) (ho : o < 2 ^ (F.rows - r)) :
    viewNodeAt F (encU F.rows r o) = F.nodeAt (r, o) := by
  have htr : F.rows ≤ 63 := forestRows_le_63' hn
  unfold viewNodeAt
  rw [toNat_encU htr hr ho, dec_enc _ _ _ hr ho]
  rfl

theorem view_root_ok' (F : Forest H) (hn : F.numLeaves ≤ 2 ^ 63) :
    let N : U64 := BitVec.ofNat 64 F.numLeaves
    ∀ (row : U8) (h : H), row ≤ TreeRows N → rootExistsOnRow N row = true →
      F.roots[rootIdxOfRow N row]? = some h →
      viewNodeAt F (rootPosition N row (TreeRows N)) = some h := by
  intro N row h hle hex hroot
  have htr : F.rows ≤ 63 := forestRows_le_63' hn
  have hN : TreeRows N = H8 F.rows := treeRows_eq' hn
  rw [hN] at hle ⊢
  obtain ⟨hrow, hk⟩ := row_eq_H8 htr hle
  generalize row.toNat = k at hrow hk
  subst hrow
  have hn64 : F.numLeaves < 2 ^ 64 := by omega
  have hb := testBit_of_rootExists hn64 (by omega) hex
  have hidx := treeRows_getElem hn64 (show k ≤ 63 by omega) hb
  rw [roots_eq, List.getElem?_map, hidx] at hroot
  simp only [Option.map_some, Option.some.injEq] at hroot
  subst hroot
  have hle2 : F.numLeaves ≤ 2 ^ F.rows := le_two_pow_forestRows F.numLeaves
  have hlt : F.numLeaves < 2 ^ (F.rows + 1) := by
    have := two_pow_succ' F.rows
    have := Nat.two_pow_pos F.rows
    omega
  rw [rootPosition_enc htr hk hlt (rootOffset_lt hb), viewNodeAt_encU' hn hk (rootOffset_lt hb)]
  exact nodeAt_rootPos F (List.mem_of_getElem? hidx)

theorem view_children_ok_x (F : Forest H) (hn : F.numLeaves ≤ 2 ^ 63) :
    let N : U64 := BitVec.ofNat 64 F.numLeaves
    ∀ (p : U64) (row : U8) (a b : H), row ≤ TreeRows N →
      p ≤ (maxPositionAtRow row (TreeRows N) N).1 →
      viewNodeAt F (Parent p (TreeRows N)) = some (ph a b) → a ≠ zero → b ≠ zero →
      (viewNodeAt F (leftSib p) = some a ∧ viewNodeAt F (rightSib p) = some b ∧
          (a, b) ∈ F.nodePairs) ∨ ForestBad F a b := by
  intro N p row a b _ hp hnode _ _
  have htr : F.rows ≤ 63 := forestRows_le_63' hn
  have hN : TreeRows N = H8 F.rows := treeRows_eq' hn
  rw [hN] at hp hnode
  have hle2 : F.numLeaves ≤ 2 ^ F.rows := le_two_pow_forestRows F.numLeaves
  have hNn : N.toNat ≤ 2 ^ F.rows := by
    show (BitVec.ofNat 64 F.numLeaves).toNat ≤ _
    rw [toNat_ofNat64_of_lt (by omega)]; exact hle2
  have hpmax : p.toNat ≤ 2 ^ (F.rows + 1) - 2 :=
    Nat.le_trans (BitVec.le_def.1 hp) (maxPositionAtRow_le htr row N hNn)
  obtain ⟨r, o, hr, ho, he⟩ := exists_enc hpmax
  have hpe : p = encU F.rows r o := by
    apply BitVec.eq_of_toNat_eq
    rw [toNat_encU htr hr ho, he]
  subst hpe
  rcases Nat.lt_or_ge r F.rows with hlt | hge
  · rw [Props.C16.parent_enc htr hlt ho] at hnode
    have g := enc_facts_succ hlt
    have ho2 : o / 2 < 2 ^ (F.rows - (r + 1)) := by omega
    rw [viewNodeAt_encU' hn (by omega) ho2] at hnode
    rcases nodeAt_children_x hnode with ⟨h1, h2, h3⟩ | hbad
    · left
      rw [Props.C16.leftSib_enc htr hr ho, Props.C16.rightSib_enc htr hr ho,
        viewNodeAt_encU' hn hr (by omega), viewNodeAt_encU' hn hr (by omega)]
      exact ⟨h1, h2, h3⟩
    · exact Or.inr hbad
  · have hrt : r = F.rows := by omega
    subst hrt
    have ho0 : o = 0 := by simpa using ho
    subst ho0
    unfold viewNodeAt at hnode
    rw [parent_top htr, dec_top] at hnode
    simp at hnode

/-- **The specification forest as a `ForestViewX`** — no hypothesis on the hash, none on the
leaves. -/
def specViewX (F : Forest H) (hn : F.numLeaves ≤ 2 ^ 63) :
    ForestViewX H (BitVec.ofNat 64 F.numLeaves) F.roots (fun a b => (a, b) ∈ F.nodePairs)
      (ForestBad F) where
  nodeAt := viewNodeAt F
  root_ok := view_root_ok' F hn
  children_ok := view_children_ok_x F hn

theorem specViewX_nodeAt (F : Forest H) (hn : F.numLeaves ≤ 2 ^ 63) (p : U64) :
    (specViewX F hn).nodeAt p = viewNodeAt F p := rfl

end
end UtreexoVerif.Proofs.SpecViewX
