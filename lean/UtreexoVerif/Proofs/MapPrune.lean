/-
  `MapPollard.Prune` (model) preserves the storage invariant `Inv`: helper lemmas.

  1. frame: `prunePosition` / `pruneUp` only delete nodes;
  2. `prunePosition` at an encoded position, in (row, offset) terms;
  3. the (row, offset) characterisation of `Allowed` / `Required` for non-root positions;
  4. the walk of `Prune` from a cached leaf up to its root: nothing required by the remaining
     cache is removed, everything that only the pruned leaf needed is removed.
-/
import UtreexoVerif.Proofs.MapInv

namespace UtreexoVerif.Proofs.MapPrune
open UtreexoVerif Model Spec Spec.Forest Proofs MapAL MapInv
set_option linter.unusedSectionVars false

variable {H : Type} [DecidableEq H] [Hasher H]

/-! ### 1. frame -/

theorem prunePosition_frame (m : MapPollard H) (pos : U64) :
    (m.prunePosition pos).cached = m.cached ∧ (m.prunePosition pos).numLeaves = m.numLeaves ∧
    (m.prunePosition pos).totalRows = m.totalRows ∧ (m.prunePosition pos).full = m.full := by
  unfold MapPollard.prunePosition
  simp only
  split
  · split <;> split <;> exact ⟨rfl, rfl, rfl, rfl⟩
  · exact ⟨rfl, rfl, rfl, rfl⟩

theorem prunePosition_sub (m : MapPollard H) (pos p : U64) (l : Leaf H)
    (h : (m.prunePosition pos).getNode p = some l) : m.getNode p = some l := by
  unfold MapPollard.prunePosition at h
  simp only at h
  split at h
  · split at h <;> split at h
    · rw [getNode_delNode] at h
      split at h
      · cases h
      · rw [getNode_delNode] at h
        split at h
        · cases h
        · exact h
    · rw [getNode_delNode] at h
      split at h
      · cases h
      · exact h
    · rw [getNode_delNode] at h
      split at h
      · cases h
      · exact h
    · exact h
  · exact h

theorem pruneUp_frame : ∀ (k : Nat) (pos : U64) (m : MapPollard H),
    (MapPollard.pruneUp k pos m).cached = m.cached ∧ (MapPollard.pruneUp k pos m).numLeaves = m.numLeaves ∧
    (MapPollard.pruneUp k pos m).totalRows = m.totalRows ∧ (MapPollard.pruneUp k pos m).full = m.full
  | 0, _, _ => ⟨rfl, rfl, rfl, rfl⟩
  | k+1, pos, m => by
    unfold MapPollard.pruneUp
    split
    · exact ⟨rfl, rfl, rfl, rfl⟩
    · obtain ⟨a, b, c, d⟩ := prunePosition_frame m pos
      obtain ⟨a', b', c', d'⟩ := pruneUp_frame k (Parent pos m.totalRows) (m.prunePosition pos)
      exact ⟨a'.trans a, b'.trans b, c'.trans c, d'.trans d⟩

theorem pruneUp_sub : ∀ (k : Nat) (pos : U64) (m : MapPollard H) (p : U64) (l : Leaf H),
    (MapPollard.pruneUp k pos m).getNode p = some l → m.getNode p = some l
  | 0, _, _, _, _, h => h
  | k+1, pos, m, p, l, h => by
    unfold MapPollard.pruneUp at h
    split at h
    · exact h
    · exact prunePosition_sub m pos p l (pruneUp_sub k _ _ p l h)

/-! ### 2. `prunePosition` at an encoded position -/

theorem H8_beq_zero {r : Nat} (hr : r ≤ 63) : ((H8 r == 0#8) = true) ↔ r = 0 := by
  rw [beq_iff_eq]
  constructor
  · intro h
    have := congrArg BitVec.toNat h
    rw [toNat_H8 hr] at this
    simpa using this
  · rintro rfl; rfl

theorem valid_sib {T : Nat} {q : Pos} (hq : Valid T q) (hlt : q.1 < T) : Valid T (sib q) := by
  refine ⟨hq.1, ?_⟩
  have h2 : (sib q).2 = if q.2 % 2 = 0 then q.2 + 1 else q.2 - 1 := rfl
  have e : 2 ^ (T - q.1) = 2 * 2 ^ (T - q.1 - 1) := by
    rw [← two_pow_succ']; congr 1; omega
  have := hq.2
  rw [sib_fst, h2]
  split <;> omega

theorem valid_parent {T : Nat} {q : Pos} (hq : Valid T q) (hlt : q.1 < T) : Valid T (parent q) := by
  refine ⟨by show q.1 + 1 ≤ T; omega, ?_⟩
  show q.2 / 2 < 2 ^ (T - (q.1 + 1))
  have e : 2 ^ (T - q.1) = 2 * 2 ^ (T - (q.1 + 1)) := by
    rw [← two_pow_succ']; congr 1; omega
  have := hq.2
  omega

theorem valid_child {T : Nat} {q : Pos} (hq : Valid T q) (h1 : 1 ≤ q.1) (b : Nat) (hb : b < 2) :
    Valid T (q.1 - 1, 2 * q.2 + b) := by
  refine ⟨by show q.1 - 1 ≤ T; have := hq.1; omega, ?_⟩
  show 2 * q.2 + b < 2 ^ (T - (q.1 - 1))
  have e : 2 ^ (T - (q.1 - 1)) = 2 * 2 ^ (T - q.1) := by
    rw [← two_pow_succ']; congr 1; have := hq.1; omega
  have := hq.2
  omega

theorem detectRow_encP {T : Nat} (hT : T ≤ 63) {q : Pos} (hq : Valid T q) :
    DetectRow (encP T q) (H8 T) = H8 q.1 := Props.C16.detectRow_enc hT hq.1 hq.2

theorem sibling_encP {T : Nat} (hT : T ≤ 63) {q : Pos} (hq : Valid T q) :
    sibling (encP T q) = encP T (sib q) := by
  obtain ⟨r, o⟩ := q
  exact Props.C16.sibling_enc_sib hT hq.1 hq.2

theorem parent_encP {T : Nat} (hT : T ≤ 63) {q : Pos} (hq : Valid T q) (hlt : q.1 < T) :
    Parent (encP T q) (H8 T) = encP T (parent q) := Props.C16.parent_enc hT hlt hq.2

theorem leftChild_encP {T : Nat} (hT : T ≤ 63) {q : Pos} (hq : Valid T q) (h1 : 1 ≤ q.1) :
    LeftChild (encP T q) (H8 T) = encP T (q.1 - 1, 2 * q.2) := by
  obtain ⟨r, o⟩ := q
  obtain ⟨r', rfl⟩ : ∃ r', r = r' + 1 := ⟨r - 1, by simp only at h1; omega⟩
  have := hq.1
  exact Props.C16.leftChild_enc hT (by simp only at this; omega) hq.2

theorem rightChild_encP {T : Nat} (hT : T ≤ 63) {q : Pos} (hq : Valid T q) (h1 : 1 ≤ q.1) :
    RightChild (encP T q) (H8 T) = encP T (q.1 - 1, 2 * q.2 + 1) := by
  obtain ⟨r, o⟩ := q
  obtain ⟨r', rfl⟩ : ∃ r', r = r' + 1 := ⟨r - 1, by simp only at h1; omega⟩
  have := hq.1
  exact Props.C16.rightChild_enc hT (by simp only at this; omega) hq.2

/-- at least one child position of `q` is stored -/
def childrenStored (m : MapPollard H) (T : Nat) (q : Pos) : Bool :=
  decide (q.1 ≠ 0) && (m.hasNode (encP T (q.1 - 1, 2 * q.2)) || m.hasNode (encP T (q.1 - 1, 2 * q.2 + 1)))

theorem niecesPresent_encP {m : MapPollard H} {T : Nat} (hT : T ≤ 63) (hm : m.totalRows = H8 T)
    {q : Pos} (hq : Valid T q) (hlt : q.1 < T) :
    m.niecesPresent (encP T q) = childrenStored m T (sib q) := by
  have hs := valid_sib hq hlt
  unfold MapPollard.niecesPresent childrenStored
  rw [hm, detectRow_encP hT hq, sibling_encP hT hq, sib_fst]
  by_cases h0 : q.1 = 0
  · have : (H8 q.1 == 0#8) = true := (H8_beq_zero (by have := hq.1; omega)).2 h0
    simp [this, h0]
  · have : (H8 q.1 == 0#8) = false := by
      cases h : (H8 q.1 == 0#8)
      · rfl
      · exact absurd ((H8_beq_zero (by have := hq.1; omega)).1 h) h0
    have h1 : 1 ≤ (sib q).1 := by rw [sib_fst]; omega
    rw [leftChild_encP hT hs h1, rightChild_encP hT hs h1, sib_fst]
    simp [this, h0]

theorem encP_child_ne {T : Nat} (hT : T ≤ 63) {q z : Pos} (hq : Valid T q) (hz : Valid T z) (h1 : 1 ≤ q.1)
    (hrow : z.1 = q.1) (b : Nat) (hb : b < 2) : encP T (q.1 - 1, 2 * q.2 + b) ≠ encP T z := by
  intro e
  have := encP_inj' hT (valid_child hq h1 b hb) hz e
  have h2 : (q.1 - 1, 2 * q.2 + b).1 = z.1 := by rw [this]
  simp only at h2
  omega

theorem childrenStored_delNode_row {m : MapPollard H} {T : Nat} (hT : T ≤ 63) {q z : Pos}
    (hq : Valid T q) (hz : Valid T z) (hrow : z.1 = q.1) :
    childrenStored (m.delNode (encP T z)) T q = childrenStored m T q := by
  unfold childrenStored
  by_cases h0 : q.1 = 0
  · simp [h0]
  · have h1 : 1 ≤ q.1 := by omega
    have e0 := encP_child_ne hT hq hz h1 hrow 0 (by omega)
    have e1 := encP_child_ne hT hq hz h1 hrow 1 (by omega)
    simp only [Nat.add_zero] at e0
    rw [hasNode_eq, hasNode_eq, hasNode_eq, hasNode_eq, getNode_delNode, getNode_delNode, if_neg e0, if_neg e1]

/-- `prunePosition` at an encoded, non-top position: which look-ups change -/
theorem getNode_prunePosition_encP {m : MapPollard H} {T : Nat} (hT : T ≤ 63) (hm : m.totalRows = H8 T)
    {q : Pos} (hq : Valid T q) (hlt : q.1 < T) (p : U64) :
    (m.prunePosition (encP T q)).getNode p =
      if (m.getNodeD (encP T q)).remember = false ∧ (m.getNodeD (encP T (sib q))).remember = false then
        (if p = encP T (sib q) ∧ childrenStored m T q = false then none
         else if p = encP T q ∧ childrenStored m T (sib q) = false then none
         else m.getNode p)
      else m.getNode p := by
  have hs := valid_sib hq hlt
  have hne : encP T q ≠ encP T (sib q) := fun e => (sib_ne q) (encP_inj' hT hq hs e).symm
  unfold MapPollard.prunePosition
  simp only
  rw [sibling_encP hT hq, niecesPresent_encP hT hm hs (by rw [sib_fst]; exact hlt), sib_sib]
  by_cases hf : (m.getNodeD (encP T q)).remember = false ∧ (m.getNodeD (encP T (sib q))).remember = false
  · have hcond : (!(m.getNodeD (encP T q)).remember && !(m.getNodeD (encP T (sib q))).remember) = true := by
      simp [hf.1, hf.2]
    rw [if_pos hcond, if_pos hf]
    by_cases hc1 : childrenStored m T q = true
    · have e1 : (!childrenStored m T q) = false := by simp [hc1]
      rw [e1]
      simp only [Bool.false_eq_true, if_false]
      rw [niecesPresent_encP hT hm hq hlt]
      by_cases hc2 : childrenStored m T (sib q) = true
      · simp [hc1, hc2]
      · have hc2' : childrenStored m T (sib q) = false := by simpa using hc2
        simp only [hc2', Bool.not_false, if_true, getNode_delNode, hc1]
        by_cases hp : p = encP T q
        · simp [hp]
        · simp [hp]
    · have hc1' : childrenStored m T q = false := by simpa using hc1
      have e1 : (!childrenStored m T q) = true := by simp [hc1']
      rw [e1]
      simp only [if_true]
      have hm' : (m.delNode (encP T (sib q))).totalRows = H8 T := hm
      rw [niecesPresent_encP hT hm' hq hlt,
        childrenStored_delNode_row hT hs hs rfl]
      by_cases hc2 : childrenStored m T (sib q) = true
      · simp only [hc2, Bool.not_true, Bool.false_eq_true, if_false, getNode_delNode, hc1', and_true]
        by_cases hp : p = encP T (sib q)
        · simp [hp]
        · simp [hp]
      · have hc2' : childrenStored m T (sib q) = false := by simpa using hc2
        simp only [hc2', Bool.not_false, if_true, getNode_delNode, hc1', and_true]
        by_cases hp : p = encP T q
        · have : p ≠ encP T (sib q) := by rw [hp]; exact hne
          simp [hp, hne]
        · by_cases hp2 : p = encP T (sib q)
          · simp [hp2]
          · simp [hp, hp2]
  · have hcond : (!(m.getNodeD (encP T q)).remember && !(m.getNodeD (encP T (sib q))).remember) = false := by
      cases h1 : (m.getNodeD (encP T q)).remember <;> cases h2 : (m.getNodeD (encP T (sib q))).remember <;>
        simp_all
    rw [hcond]
    simp only [Bool.false_eq_true, if_false, hf]

/-! ### 3. `Allowed` / `Required` at non-root positions, in terms of `Anc` -/

theorem parent_fst (p : Pos) : (parent p).1 = p.1 + 1 := rfl
theorem parent_snd (p : Pos) : (parent p).2 = p.2 / 2 := rfl

/-- a node below `parent z` (strictly) is below `z` or below its sibling -/
theorem anc_parent_cases {t z : Pos} (hle : t.1 ≤ z.1) : Anc (parent z) t ↔ (Anc z t ∨ Anc (sib z) t) := by
  unfold Anc
  rw [parent_fst, parent_snd, sib_fst]
  have e : 2 ^ (z.1 + 1 - t.1) = 2 ^ (z.1 - t.1) * 2 := by
    rw [← Nat.pow_succ]; congr 1; omega
  rw [e, ← Nat.div_div_eq_div_mul]
  have h2 : (sib z).2 = if z.2 % 2 = 0 then z.2 + 1 else z.2 - 1 := rfl
  rw [h2]
  generalize t.2 / 2 ^ (z.1 - t.1) = a
  constructor
  · rintro ⟨_, h⟩
    by_cases ha : z.2 = a
    · exact Or.inl ⟨hle, ha⟩
    · right; refine ⟨hle, ?_⟩; split <;> omega
  · rintro (⟨_, h⟩ | ⟨_, h⟩)
    · exact ⟨by omega, by omega⟩
    · refine ⟨by omega, ?_⟩
      split at h <;> omega

/-- a node under a node below the root `R` is below `R` -/
theorem belowRoot_of_anc {n R : Nat} {z t : Pos} (hz : BelowRoot n z.1 z.2 R) (ha : Anc z t) :
    BelowRoot n t.1 t.2 R := by
  obtain ⟨h1, h2, h3⟩ := hz
  obtain ⟨a1, a2⟩ := ha
  refine ⟨by omega, h2, ?_⟩
  rw [← h3, a2, Nat.div_div_eq_div_mul, ← Nat.pow_add]
  congr 2; omega

theorem belowRoot_child {n r o R : Nat} (hb : BelowRoot n r o R) (h1 : 1 ≤ r) (b : Nat) (hb2 : b < 2) :
    BelowRoot n (r - 1) (2 * o + b) R := by
  obtain ⟨h1', h2, h3⟩ := hb
  refine ⟨by omega, h2, ?_⟩
  rw [← h3]
  have e : 2 ^ (R - (r - 1)) = 2 * 2 ^ (R - r) := by
    rw [← two_pow_succ']; congr 1; omega
  rw [e, ← Nat.div_div_eq_div_mul]
  congr 1; omega

theorem isRootPos_belowRoot {n : Nat} {q : Pos} (h : isRootPos n q = true) : BelowRoot n q.1 q.2 q.1 := by
  simp only [isRootPos, Bool.and_eq_true, beq_iff_eq] at h
  exact ⟨Nat.le_refl _, h.1, by rw [Nat.sub_self, Nat.pow_zero, Nat.div_one]; exact h.2⟩

theorem nonroot_of_belowRoot {n R : Nat} {z : Pos} (hz : BelowRoot n z.1 z.2 R) (hne : z.1 ≠ R) :
    isRootPos n z = false := by
  have := belowRoot_isRootPos hz
  simpa [hne] using this

variable {F : Forest H} {K : H → Prop}

/-- every required position is a position below some root -/
theorem required_belowRoot {q : Pos} (h : Required F K q) : ∃ R, BelowRoot F.numLeaves q.1 q.2 R := by
  rcases h with h | ⟨x, t, _, hp, h⟩
  · exact ⟨_, isRootPos_belowRoot h⟩
  · rcases h with rfl | ⟨w, ⟨R, hbt, hanc, hle⟩, hnr, rfl⟩
    · exact posOf_belowRoot hp
    · have hw := belowRoot_anc hbt hanc hle
      have hne : w.1 ≠ R := by
        intro e
        have := belowRoot_isRootPos hw
        rw [hnr] at this
        simp [e] at this
      exact ⟨R, by rw [sib_fst]; exact belowRoot_sib hw hne⟩

theorem allowed_nonroot_iff {z : Pos} {R : Nat} (hz : BelowRoot F.numLeaves z.1 z.2 R) (hne : z.1 ≠ R) :
    Allowed F K z ↔ ∃ x t, K x ∧ F.posOf x = some t ∧ t.1 ≤ z.1 ∧ Anc (parent z) t := by
  have hnr := nonroot_of_belowRoot hz hne
  constructor
  · rintro (h | ⟨x, t, hk, hp, h⟩)
    · rw [hnr] at h; cases h
    · refine ⟨x, t, hk, hp, ?_⟩
      rcases h with ⟨R', hbt, hanc, hle⟩ | ⟨w, ⟨R', hbt, hanc, hle⟩, hnrw, rfl⟩
      · exact ⟨hanc.1, hanc.parent⟩
      · rw [parent_sib, sib_fst]
        exact ⟨hanc.1, hanc.parent⟩
  · rintro ⟨x, t, hk, hp, hle, hanc⟩
    refine Or.inr ⟨x, t, hk, hp, ?_⟩
    rcases (anc_parent_cases hle).1 hanc with h | h
    · exact Or.inl ⟨R, belowRoot_of_anc hz h, h, hz.1⟩
    · have hs : BelowRoot F.numLeaves (sib z).1 (sib z).2 R := by rw [sib_fst]; exact belowRoot_sib hz hne
      refine Or.inr ⟨sib z, ⟨R, belowRoot_of_anc hs h, h, hs.1⟩, ?_, (sib_sib z).symm⟩
      exact nonroot_of_belowRoot hs (by rw [sib_fst]; exact hne)

theorem required_nonroot_iff {z : Pos} {R : Nat} (hz : BelowRoot F.numLeaves z.1 z.2 R) (hne : z.1 ≠ R) :
    Required F K z ↔ ∃ x t, K x ∧ F.posOf x = some t ∧ (z = t ∨ Anc (sib z) t) := by
  have hnr := nonroot_of_belowRoot hz hne
  constructor
  · rintro (h | ⟨x, t, hk, hp, h⟩)
    · rw [hnr] at h; cases h
    · refine ⟨x, t, hk, hp, ?_⟩
      rcases h with rfl | ⟨w, ⟨R', hbt, hanc, hle⟩, hnrw, rfl⟩
      · exact Or.inl rfl
      · right; rw [sib_sib]; exact hanc
  · rintro ⟨x, t, hk, hp, h⟩
    refine Or.inr ⟨x, t, hk, hp, ?_⟩
    rcases h with rfl | h
    · exact Or.inl rfl
    · have hs : BelowRoot F.numLeaves (sib z).1 (sib z).2 R := by rw [sib_fst]; exact belowRoot_sib hz hne
      refine Or.inr ⟨sib z, ⟨R, belowRoot_of_anc hs h, h, hs.1⟩, ?_, (sib_sib z).symm⟩
      exact nonroot_of_belowRoot hs (by rw [sib_fst]; exact hne)

theorem Required.mono {K' : H → Prop} (hK : ∀ x, K' x → K x) {q : Pos} (h : Required F K' q) : Required F K q := by
  rcases h with h | ⟨x, t, hk, hp, h⟩
  · exact Or.inl h
  · exact Or.inr ⟨x, t, hK x hk, hp, h⟩

/-- the ancestor of `t`, `j` rows up -/
def up (t : Pos) (j : Nat) : Pos := (t.1 + j, t.2 / 2 ^ j)

theorem up_zero (t : Pos) : up t 0 = t := by simp [up]
theorem up_succ (t : Pos) (j : Nat) : up t (j + 1) = parent (up t j) := by
  show (t.1 + (j + 1), t.2 / 2 ^ (j + 1)) = (t.1 + j + 1, t.2 / 2 ^ j / 2)
  rw [Nat.div_div_eq_div_mul, ← Nat.pow_succ]; rfl
theorem anc_up (t : Pos) (j : Nat) : Anc (up t j) t := by
  refine ⟨by show t.1 ≤ t.1 + j; omega, ?_⟩
  show t.2 / 2 ^ j = t.2 / 2 ^ (t.1 + j - t.1)
  congr 2; omega
theorem eq_up_of_anc {q t : Pos} (h : Anc q t) : q = up t (q.1 - t.1) := by
  obtain ⟨h1, h2⟩ := h
  apply Prod.ext
  · show q.1 = t.1 + (q.1 - t.1); omega
  · exact h2
theorem belowRoot_up {n R : Nat} {t : Pos} (hb : BelowRoot n t.1 t.2 R) {j : Nat} (hj : j ≤ R - t.1) :
    BelowRoot n (up t j).1 (up t j).2 R :=
  belowRoot_anc hb (anc_up t j) (by show t.1 + j ≤ R; have := hb.1; omega)

/-! ### 4. the walk of `Prune` -/

/-- the situation during the walk from the position `t` of the pruned leaf: `m2` is the state
the walk starts from, `K'` the remaining cache -/
structure Ctx (F : Forest H) (K' : H → Prop) (m2 : MapPollard H) (T : Nat) (t : Pos) (R : Nat) : Prop where
  hT : T ≤ 63
  hrows : F.rows ≤ T
  hb : BelowRoot F.numLeaves t.1 t.2 R
  /-- the stored node of a remaining cached leaf (not a root) carries the flag -/
  flagsFwd : ∀ y ty l, K' y → F.posOf y = some ty → isRootPos F.numLeaves ty = false →
    m2.getNode (encP T ty) = some l → l.remember = true
  /-- a flagged stored non-root node is the position of a remaining cached leaf -/
  flagsBwd : ∀ q l Rq, BelowRoot F.numLeaves q.1 q.2 Rq → q.1 ≠ Rq → m2.getNode (encP T q) = some l →
    l.remember = true → ∃ y, K' y ∧ F.posOf y = some q

def Sub (m2 μ : MapPollard H) : Prop := ∀ p l, μ.getNode p = some l → m2.getNode p = some l

def Low (F : Forest H) (K' : H → Prop) (T : Nat) (μ : MapPollard H) : Prop :=
  ∀ q, Required F K' q → μ.hasNode (encP T q) = true

def Upp (F : Forest H) (K' : H → Prop) (T : Nat) (t : Pos) (R j : Nat) (μ : MapPollard H) : Prop :=
  ∀ q l, Valid T q → μ.getNode (encP T q) = some l →
    Allowed F K' q ∨ ∃ i, j ≤ i ∧ i < R - t.1 ∧ (q = up t i ∨ q = sib (up t i))

variable {K' : H → Prop} {m2 : MapPollard H} {T : Nat} {t : Pos} {R : Nat}

theorem R_le_T (c : Ctx F K' m2 T t R) : R ≤ T := by
  have := belowRoot_valid (numLeaves_le_pow_rows F) c.hb
  exact Nat.le_trans this.1 c.hrows

/-- a required non-root position whose node and sibling are both unflagged has a sibling with
a stored child (so `prunePosition` keeps it) -/
theorem keep (c : Ctx F K' m2 T t R) {μ : MapPollard H} (hsub : Sub m2 μ) (hlow : Low F K' T μ)
    {z : Pos} {Rz : Nat} (hz : BelowRoot F.numLeaves z.1 z.2 Rz) (hne : z.1 ≠ Rz)
    (hreq : Required F K' z)
    (hf1 : (μ.getNodeD (encP T z)).remember = false)
    (hf2 : (μ.getNodeD (encP T (sib z))).remember = false) :
    childrenStored μ T (sib z) = true := by
  have hs : BelowRoot F.numLeaves (sib z).1 (sib z).2 Rz := by rw [sib_fst]; exact belowRoot_sib hz hne
  have hsne : (sib z).1 ≠ Rz := by rw [sib_fst]; exact hne
  -- the stored node of a remaining cached leaf at a non-root position is flagged
  have flagged : ∀ (y : H) (w : Pos) (Rw : Nat), K' y → F.posOf y = some w →
      BelowRoot F.numLeaves w.1 w.2 Rw → w.1 ≠ Rw → (μ.getNodeD (encP T w)).remember = true := by
    intro y w Rw hk hp hw hwne
    have hreqw : Required F K' w := Or.inr ⟨y, w, hk, hp, Or.inl rfl⟩
    have hst := hlow w hreqw
    rw [hasNode_eq] at hst
    cases hg : μ.getNode (encP T w) with
    | none => rw [hg] at hst; cases hst
    | some l =>
      unfold MapPollard.getNodeD
      rw [hg]
      exact c.flagsFwd y w l hk hp (nonroot_of_belowRoot hw hwne) (hsub _ _ hg)
  obtain ⟨y, ty, hk, hp, h⟩ := (required_nonroot_iff hz hne).1 hreq
  rcases h with rfl | h
  · have := flagged y z Rz hk hp hz hne
    rw [hf1] at this; cases this
  · by_cases e : (sib z).1 = ty.1
    · have hst : sib z = ty := h.eq_of_row e
      have := flagged y (sib z) Rz hk (by rw [hst]; exact hp) hs hsne
      rw [hf2] at this; cases this
    · have hlt : ty.1 < (sib z).1 := by have := h.1; omega
      have hbty : BelowRoot F.numLeaves ty.1 ty.2 Rz := belowRoot_of_anc hs h
      -- the child of `sib z` on the path of `ty`
      let d := (sib z).1 - 1 - ty.1
      have hcd : (up ty d).1 = (sib z).1 - 1 := by show ty.1 + d = _; omega
      have hpar : parent (up ty d) = sib z := by
        rw [← up_succ, eq_up_of_anc h]
        congr 1
        show (sib z).1 - 1 - ty.1 + 1 = (sib z).1 - ty.1
        omega
      have hcb : BelowRoot F.numLeaves (up ty d).1 (up ty d).2 Rz :=
        belowRoot_up hbty (by have := hs.1; omega)
      have hcne : (up ty d).1 ≠ Rz := by have := hs.1; omega
      have hreqc : Required F K' (sib (up ty d)) :=
        Or.inr ⟨y, ty, hk, hp, Or.inr ⟨up ty d, ⟨Rz, hbty, anc_up ty d, hcb.1⟩,
          nonroot_of_belowRoot hcb hcne, rfl⟩⟩
      have hst := hlow _ hreqc
      have h2 : (up ty d).2 / 2 = (sib z).2 := by
        have := congrArg Prod.snd hpar
        exact this
      have hs2 : (sib (up ty d)).2 = if (up ty d).2 % 2 = 0 then (up ty d).2 + 1 else (up ty d).2 - 1 := rfl
      unfold childrenStored
      have hn0 : (sib z).1 ≠ 0 := by omega
      simp only [hn0, ne_eq, not_false_eq_true, decide_true, Bool.true_and, Bool.or_eq_true]
      by_cases hpar2 : (up ty d).2 % 2 = 0
      · right
        have : sib (up ty d) = ((sib z).1 - 1, 2 * (sib z).2 + 1) := by
          apply Prod.ext
          · rw [sib_fst]; exact hcd
          · rw [hs2, if_pos hpar2]; show _ = 2 * (sib z).2 + 1; omega
        rw [← this]; exact hst
      · left
        have : sib (up ty d) = ((sib z).1 - 1, 2 * (sib z).2) := by
          apply Prod.ext
          · rw [sib_fst]; exact hcd
          · rw [hs2, if_neg hpar2]; show _ = 2 * (sib z).2; omega
        rw [← this]; exact hst

/-- geometry of the `j`-th node of the walk -/
theorem walk_node (c : Ctx F K' m2 T t R) {j : Nat} (hj : j < R - t.1) :
    BelowRoot F.numLeaves (up t j).1 (up t j).2 R ∧ (up t j).1 ≠ R ∧ Valid T (up t j) ∧ (up t j).1 < T := by
  have ha := belowRoot_up c.hb (Nat.le_of_lt hj)
  have hR := R_le_T c
  have hne : (up t j).1 ≠ R := by show t.1 + j ≠ R; omega
  exact ⟨ha, hne, belowRoot_valid' c.hrows ha, by show t.1 + j < T; omega⟩

theorem low_step (c : Ctx F K' m2 T t R) {μ : MapPollard H} (hμT : μ.totalRows = H8 T)
    (hsub : Sub m2 μ) (hlow : Low F K' T μ) {j : Nat} (hj : j < R - t.1) :
    Low F K' T (μ.prunePosition (encP T (up t j))) := by
  obtain ⟨ha, hane, hav, halt⟩ := walk_node c hj
  have hs : BelowRoot F.numLeaves (sib (up t j)).1 (sib (up t j)).2 R := by rw [sib_fst]; exact belowRoot_sib ha hane
  have hsne : (sib (up t j)).1 ≠ R := by rw [sib_fst]; exact hane
  have hsv : Valid T (sib (up t j)) := valid_sib hav halt
  intro q hreq
  obtain ⟨Rq, hq⟩ := required_belowRoot hreq
  have hqv : Valid T q := belowRoot_valid' c.hrows hq
  have h0 := hlow q hreq
  rw [hasNode_eq, getNode_prunePosition_encP c.hT hμT hav halt]
  split
  · rename_i hf
    split
    · rename_i h1
      exfalso
      have hqe : q = sib (up t j) := encP_inj' c.hT hqv hsv h1.1
      subst hqe
      have := keep c hsub hlow hs hsne hreq hf.2 (by rw [sib_sib]; exact hf.1)
      rw [sib_sib, h1.2] at this
      cases this
    · split
      · rename_i h2
        exfalso
        have hqe : q = up t j := encP_inj' c.hT hqv hav h2.1
        subst hqe
        have := keep c hsub hlow ha hane hreq hf.1 hf.2
        rw [h2.2] at this
        cases this
      · rw [← hasNode_eq]; exact h0
  · rw [← hasNode_eq]; exact h0

theorem upp_step (c : Ctx F K' m2 T t R) {μ : MapPollard H} (hμT : μ.totalRows = H8 T)
    (hsub : Sub m2 μ) {j : Nat} (hj : j < R - t.1) (hupp : Upp F K' T t R j μ) :
    Upp F K' T t R (j + 1) (μ.prunePosition (encP T (up t j))) := by
  obtain ⟨ha, hane, hav, halt⟩ := walk_node c hj
  have hs : BelowRoot F.numLeaves (sib (up t j)).1 (sib (up t j)).2 R := by rw [sib_fst]; exact belowRoot_sib ha hane
  have hsne : (sib (up t j)).1 ≠ R := by rw [sib_fst]; exact hane
  have hsv : Valid T (sib (up t j)) := valid_sib hav halt
  have hne : encP T (up t j) ≠ encP T (sib (up t j)) :=
    fun e => (sib_ne (up t j)) (encP_inj' c.hT hav hsv e).symm
  intro q l hv hget
  have hold : μ.getNode (encP T q) = some l := prunePosition_sub μ _ _ l hget
  rcases hupp q l hv hold with hal | ⟨i, hji, hiR, hq⟩
  · exact Or.inl hal
  · by_cases hi : i = j
    · subst hi
      by_cases hal : Allowed F K' q
      · exact Or.inl hal
      · exfalso
        -- no remaining cached leaf lies (strictly) below the parent of the walk node
        have noY : ∀ y ty, K' y → F.posOf y = some ty → ty.1 ≤ (up t i).1 → Anc (parent (up t i)) ty → False := by
          intro y ty hk hp hle hanc
          apply hal
          rcases hq with rfl | rfl
          · exact (allowed_nonroot_iff ha hane).2 ⟨y, ty, hk, hp, hle, hanc⟩
          · exact (allowed_nonroot_iff hs hsne).2 ⟨y, ty, hk, hp, by rw [sib_fst]; exact hle, by rw [parent_sib]; exact hanc⟩
        have flagOff : ∀ (z : Pos), BelowRoot F.numLeaves z.1 z.2 R → z.1 = (up t i).1 → parent z = parent (up t i) →
            (μ.getNodeD (encP T z)).remember = false := by
          intro z hz hrow hpar
          unfold MapPollard.getNodeD
          cases hg : μ.getNode (encP T z) with
          | none => rfl
          | some lz =>
            cases hr : lz.remember with
            | false => simp [hr]
            | true =>
              exfalso
              obtain ⟨y, hk, hp⟩ := c.flagsBwd z lz R hz (by rw [hrow]; exact hane) (hsub _ _ hg) hr
              exact noY y z hk hp (by omega) (by rw [← hpar]; exact (Anc.refl z).parent)
        have fA := flagOff (up t i) ha rfl rfl
        have fS := flagOff (sib (up t i)) hs (sib_fst _) (parent_sib _)
        have noChild : ∀ (z : Pos), BelowRoot F.numLeaves z.1 z.2 R → Valid T z → z.1 = (up t i).1 →
            parent z = parent (up t i) → childrenStored μ T z = false := by
          intro z hz hzv hrow hpar
          unfold childrenStored
          by_cases h0 : z.1 = 0
          · simp [h0]
          · have h1 : 1 ≤ z.1 := by omega
            have hb01 : ∀ b, b < 2 → μ.hasNode (encP T (z.1 - 1, 2 * z.2 + b)) = false := by
              intro b hb
              cases hh : μ.hasNode (encP T (z.1 - 1, 2 * z.2 + b)) with
              | false => rfl
              | true =>
                exfalso
                rw [hasNode_eq] at hh
                cases hg : μ.getNode (encP T (z.1 - 1, 2 * z.2 + b)) with
                | none => rw [hg] at hh; cases hh
                | some lc =>
                  have hcv := valid_child hzv h1 b hb
                  have hcb : BelowRoot F.numLeaves (z.1 - 1) (2 * z.2 + b) R := belowRoot_child hz h1 b hb
                  rcases hupp _ lc hcv hg with hac | ⟨i', hi1, _, hq'⟩
                  · have hcne : (z.1 - 1, 2 * z.2 + b).1 ≠ R := by show z.1 - 1 ≠ R; have := hz.1; omega
                    obtain ⟨y, ty, hk, hp, hle, hanc⟩ := (allowed_nonroot_iff (z := (z.1 - 1, 2 * z.2 + b)) hcb hcne).1 hac
                    have hparc : parent (z.1 - 1, 2 * z.2 + b) = z := by
                      apply Prod.ext
                      · show z.1 - 1 + 1 = z.1; omega
                      · show (2 * z.2 + b) / 2 = z.2; omega
                    rw [hparc] at hanc
                    have hle' : ty.1 ≤ z.1 - 1 := hle
                    exact noY y ty hk hp (by omega) (by rw [← hpar]; exact hanc.parent)
                  · have hrow' : (z.1 - 1, 2 * z.2 + b).1 = t.1 + i' := by
                      rcases hq' with e | e
                      · rw [e]; rfl
                      · rw [e, sib_fst]; rfl
                    have : z.1 = t.1 + i := hrow
                    simp only at hrow'
                    omega
            have e0 := hb01 0 (by omega)
            have e1 := hb01 1 (by omega)
            simp only [Nat.add_zero] at e0
            simp [e0, e1]
        have cA := noChild (up t i) ha hav rfl rfl
        have cS := noChild (sib (up t i)) hs hsv (sib_fst _) (parent_sib _)
        rw [getNode_prunePosition_encP c.hT hμT hav halt, if_pos ⟨fA, fS⟩] at hget
        rcases hq with rfl | rfl
        · rw [if_neg (fun h => hne h.1), if_pos ⟨rfl, cS⟩] at hget
          cases hget
        · rw [if_pos ⟨rfl, cA⟩] at hget
          cases hget
    · exact Or.inr ⟨i, by omega, hiR, hq⟩

theorem isRoot_encP {μ : MapPollard H} (hnlt : F.numLeaves < 2 ^ 63)
    (hμn : μ.numLeaves = BitVec.ofNat 64 F.numLeaves) (hT : T ≤ 63) (hμT : μ.totalRows = H8 T)
    {q : Pos} (hq : Valid T q) (hq' : Valid F.rows q) :
    μ.isRoot (encP T q) = isRootPos F.numLeaves q := by
  unfold MapPollard.isRoot
  rw [hμn, hμT]
  have hn64 : F.numLeaves < 2 ^ 64 := by omega
  have := Props.C16.isRootPositionTotalRows_enc (H := T) (h := F.rows) (r := q.1) (o := q.2)
    (BitVec.ofNat 64 F.numLeaves) (SpecView.treeRows_eq hnlt) hT hq.1 hq.2 (SpecView.forestRows_le_63 hnlt) hq'.1 hq'.2
  rw [toNat_ofNat64_of_lt hn64] at this
  exact this

/-- **the walk**: starting from a state in which nothing required is missing and everything
stored is allowed or lies on the walk, the walk ends in a state in which nothing required is
missing and everything stored is allowed -/
theorem walk (c : Ctx F K' m2 T t R) (hnlt : F.numLeaves < 2 ^ 63)
    (hm2n : m2.numLeaves = BitVec.ofNat 64 F.numLeaves) :
    ∀ (d j k : Nat) (μ : MapPollard H), j + d = R - t.1 → d < k → μ.totalRows = H8 T →
      μ.numLeaves = m2.numLeaves → Sub m2 μ → Low F K' T μ → Upp F K' T t R j μ →
      Sub m2 (MapPollard.pruneUp k (encP T (up t j)) μ) ∧
      Low F K' T (MapPollard.pruneUp k (encP T (up t j)) μ) ∧
      Upp F K' T t R (R - t.1) (MapPollard.pruneUp k (encP T (up t j)) μ) := by
  intro d
  induction d with
  | zero =>
    intro j k μ hjd hk hμT hμn hsub hlow hupp
    obtain ⟨k', rfl⟩ : ∃ k', k = k' + 1 := ⟨k - 1, by omega⟩
    have hj : j = R - t.1 := by omega
    have ha := belowRoot_up c.hb (Nat.le_of_eq hj)
    have hroot : μ.isRoot (encP T (up t j)) = true := by
      rw [isRoot_encP hnlt (hμn.trans hm2n) c.hT hμT (belowRoot_valid' c.hrows ha)
        (belowRoot_valid' (Nat.le_refl _) ha), belowRoot_isRootPos ha]
      have : (up t j).1 = R := by show t.1 + j = R; have := c.hb.1; omega
      simp [this]
    unfold MapPollard.pruneUp
    rw [if_pos hroot]
    exact ⟨hsub, hlow, by rw [← hj]; exact hupp⟩
  | succ d ih =>
    intro j k μ hjd hk hμT hμn hsub hlow hupp
    obtain ⟨k', rfl⟩ : ∃ k', k = k' + 1 := ⟨k - 1, by omega⟩
    have hj : j < R - t.1 := by omega
    obtain ⟨ha, hane, hav, halt⟩ := walk_node c hj
    have hroot : μ.isRoot (encP T (up t j)) = false := by
      rw [isRoot_encP hnlt (hμn.trans hm2n) c.hT hμT hav (belowRoot_valid' (Nat.le_refl _) ha),
        belowRoot_isRootPos ha]
      simp [hane]
    unfold MapPollard.pruneUp
    rw [if_neg (by rw [hroot]; simp), hμT, parent_encP c.hT hav halt, ← up_succ]
    obtain ⟨f1, f2, f3, f4⟩ := prunePosition_frame μ (encP T (up t j))
    exact ih (j + 1) k' _ (by omega) (by omega) (f3.trans hμT) (f2.trans hμn)
      (fun p l h => hsub p l (prunePosition_sub μ _ p l h))
      (low_step c hμT hsub hlow hj) (upp_step c hμT hsub hj hupp)

/-! ### 5. one iteration of `Prune` preserves the invariant -/

theorem posOf_inj {x y : H} {t : Pos} (hx : F.posOf x = some t) (hy : F.posOf y = some t) : x = y := by
  have h1 := posOf_nodeAt hx
  have h2 := posOf_nodeAt hy
  rw [h1] at h2
  exact Option.some.inj h2

theorem posOf_valid {x : H} {t : Pos} {T : Nat} (hrows : F.rows ≤ T) (hx : F.posOf x = some t) : Valid T t := by
  obtain ⟨R, hb⟩ := posOf_belowRoot hx
  exact belowRoot_valid' hrows hb

theorem toNat_rowIters {r total : Nat} (hr : r ≤ 63) (ht : total ≤ 63) :
    MapPollard.rowIters (H8 r) (H8 total) = total + 1 - r := by
  unfold MapPollard.rowIters
  rw [toNat_H8 hr, toNat_H8 ht]

/-- **pruning one cached leaf preserves the invariant** and removes exactly that leaf from the
cache -/
theorem inv_pruneOne {m : MapPollard H} (inv : Inv m F) (hfull : m.full = false) (x : H) :
    ∃ m', MapPollard.pruneOne x m = (m', .ok ()) ∧ Inv m' F ∧ m'.full = false ∧
      (∀ y, m'.getCached y = if y = x then none else m.getCached y) ∧
      (∀ q l, m'.getNode q = some l → ∃ l0, m.getNode q = some l0 ∧ l0.hash = l.hash) := by
  unfold MapPollard.pruneOne
  cases hc : m.getCached x with
  | none =>
    refine ⟨m, rfl, inv, hfull, ?_, fun q l h => ⟨l, h, rfl⟩⟩
    intro y
    split
    · rename_i h; rw [h, hc]
    · rfl
  | some p =>
    simp only
    obtain ⟨t, hpt, hp⟩ := inv.cached_pos x p hc
    obtain ⟨R, hb⟩ := posOf_belowRoot hpt
    have hT := inv.total_le
    have hm : m.totalRows = H8 m.totalRows.toNat := totalRows_eq_H8 m
    have htv : Valid m.totalRows.toNat t := belowRoot_valid' inv.rows_le hb
    have htv' : Valid F.rows t := belowRoot_valid' (Nat.le_refl _) hb
    have hKx : m.hasCached x = true := by simp [MapPollard.hasCached, hc]
    have hst := inv.has_needed t (Or.inr ⟨x, t, hKx, hpt, Or.inl rfl⟩)
    rw [hasNode_eq, ← hp] at hst
    have hg1 : (m.delCached x).getNode p = m.getNode p := rfl
    rw [hg1]
    cases hg : m.getNode p with
    | none => rw [hg] at hst; cases hst
    | some leaf =>
      simp only
      -- the state the walk starts from
      generalize hm2 : (m.delCached x).putNode p ⟨leaf.hash, false⟩ = m2
      have hm2T : m2.totalRows = H8 m.totalRows.toNat := by rw [← hm2]; exact hm
      have hm2T' : m2.totalRows = m.totalRows := by rw [← hm2]; rfl
      have hm2n : m2.numLeaves = BitVec.ofNat 64 F.numLeaves := by rw [← hm2]; exact inv.n_eq
      have hm2c : ∀ y, m2.getCached y = if y = x then none else m.getCached y := by
        intro y; rw [← hm2]; simp
      have hm2g : ∀ q, m2.getNode q = if q = p then some ⟨leaf.hash, false⟩ else m.getNode q := by
        intro q; rw [← hm2]; simp
      -- the remaining cache
      have hK' : ∀ y, m2.hasCached y = true → y ≠ x ∧ m.hasCached y = true := by
        intro y hy
        rw [hasCached_eq, hm2c] at hy
        split at hy
        · cases hy
        · rename_i hne; exact ⟨hne, hy⟩
      have hK'pos : ∀ y ty, m2.hasCached y = true → F.posOf y = some ty →
          y ≠ x ∧ m.getCached y = some (encP m.totalRows.toNat ty) := by
        intro y ty hy hpy
        obtain ⟨hne, hy'⟩ := hK' y hy
        rw [hasCached_eq] at hy'
        cases hcy : m.getCached y with
        | none => rw [hcy] at hy'; cases hy'
        | some py =>
          obtain ⟨ty', h1, h2⟩ := inv.cached_pos y py hcy
          rw [hpy] at h1
          rw [h2, Option.some.inj h1]
          exact ⟨hne, rfl⟩
      have ctx : Ctx F (fun y => m2.hasCached y = true) m2 m.totalRows.toNat t R := {
        hT := hT
        hrows := inv.rows_le
        hb := hb
        flagsFwd := by
          intro y ty l hk hpy hnr hgy
          obtain ⟨hne, hcy⟩ := hK'pos y ty hk hpy
          have htyv : Valid m.totalRows.toNat ty := posOf_valid inv.rows_le hpy
          rw [hm2g] at hgy
          split at hgy
          · rename_i he
            exfalso
            rw [hp] at he
            have := encP_inj' hT htyv htv he
            rw [this] at hpy
            exact hne (posOf_inj hpy hpt)
          · exact (inv.flags hfull ty l htyv hnr hgy).2 ⟨y, hcy⟩
        flagsBwd := by
          intro q l Rq hq hne hgq hr
          have hqv : Valid m.totalRows.toNat q := belowRoot_valid' inv.rows_le hq
          rw [hm2g] at hgq
          split at hgq
          · simp only [Option.some.injEq] at hgq
            rw [← hgq] at hr
            cases hr
          · rename_i hnp
            obtain ⟨x', hx'⟩ := (inv.flags hfull q l hqv (nonroot_of_belowRoot hq hne) hgq).1 hr
            obtain ⟨t', h1, h2⟩ := inv.cached_pos x' _ hx'
            have ht'v : Valid m.totalRows.toNat t' := posOf_valid inv.rows_le h1
            have hqt : q = t' := encP_inj' hT hqv ht'v h2
            have hne' : x' ≠ x := by
              rintro rfl
              rw [hc] at hx'
              exact hnp (Option.some.inj hx').symm
            refine ⟨x', ?_, by rw [hqt]; exact h1⟩
            rw [hasCached_eq, hm2c, if_neg hne', hx']; rfl }
      -- the three invariants hold initially
      have hsub0 : Sub m2 m2 := fun _ _ h => h
      have hlow0 : Low F (fun y => m2.hasCached y = true) m.totalRows.toNat m2 := by
        intro q hreq
        have := inv.has_needed q (Required.mono (fun y hy => (hK' y hy).2) hreq)
        rw [hasNode_eq] at this ⊢
        rw [hm2g]
        split
        · rfl
        · exact this
      have hupp0 : Upp F (fun y => m2.hasCached y = true) m.totalRows.toNat t R 0 m2 := by
        intro q l hv hgq
        -- `q` on the path of `t` or a sibling of a non-root path node
        have onWalk : ∀ q, (OnPath F.numLeaves t q ∨ ProofSib F.numLeaves t q) →
            Allowed F (fun y => m2.hasCached y = true) q ∨
              ∃ i, 0 ≤ i ∧ i < R - t.1 ∧ (q = up t i ∨ q = sib (up t i)) := by
          intro q h
          rcases h with ⟨R', hbt, hanc, hle⟩ | ⟨w, ⟨R', hbt, hanc, hle⟩, hnr, rfl⟩
          · have hRR : R' = R := belowRoot_unique hbt hb
            subst hRR
            have hqb := belowRoot_anc hbt hanc hle
            by_cases hroot : q.1 = R'
            · left; left
              rw [belowRoot_isRootPos hqb]; simp [hroot]
            · right
              refine ⟨q.1 - t.1, Nat.zero_le _, ?_, Or.inl (eq_up_of_anc hanc)⟩
              have := hanc.1; omega
          · have hRR : R' = R := belowRoot_unique hbt hb
            subst hRR
            have hwb := belowRoot_anc hbt hanc hle
            have hwne : w.1 ≠ R' := by
              intro e
              have := belowRoot_isRootPos hwb
              rw [hnr] at this; simp [e] at this
            right
            refine ⟨w.1 - t.1, Nat.zero_le _, ?_, Or.inr (by rw [← eq_up_of_anc hanc])⟩
            have := hanc.1; omega
        rw [hm2g] at hgq
        split at hgq
        · rename_i he
          rw [hp] at he
          have hqt : q = t := encP_inj' hT hv htv he
          rw [hqt]
          exact onWalk t (Or.inl ⟨R, hb, Anc.refl t, hb.1⟩)
        · rcases inv.only_needed q l hv hgq with hroot | ⟨y, ty, hky, hpy, h⟩
          · exact Or.inl (Or.inl hroot)
          · by_cases hyx : y = x
            · subst hyx
              rw [hpt] at hpy
              rw [← Option.some.inj hpy] at h
              exact onWalk q h
            · left; right
              refine ⟨y, ty, ?_, hpy, h⟩
              show m2.hasCached y = true
              rw [hasCached_eq, hm2c, if_neg hyx, ← hasCached_eq]; exact hky
      -- the walk
      have hk : R - t.1 < MapPollard.rowIters (DetectRow p m2.totalRows) (TreeRows m2.numLeaves) := by
        rw [hm2T, hp, detectRow_encP hT htv, hm2n, SpecView.treeRows_eq inv.n_lt,
          toNat_rowIters (by have := htv.1; omega) (SpecView.forestRows_le_63 inv.n_lt)]
        have h1 := (belowRoot_valid (numLeaves_le_pow_rows F) hb).1
        have h2 : t.1 ≤ R := hb.1
        show R - t.1 < F.rows + 1 - t.1
        omega
      have hw := walk ctx inv.n_lt hm2n (R - t.1) 0 _ m2 (by omega) hk hm2T rfl hsub0 hlow0 hupp0
      rw [up_zero, ← hp] at hw
      obtain ⟨hsub, hlow, hupp⟩ := hw
      generalize hm3 : MapPollard.pruneUp (MapPollard.rowIters (DetectRow p m2.totalRows) (TreeRows m2.numLeaves)) p m2 = m3 at *
      obtain ⟨f1, f2, f3, f4⟩ := pruneUp_frame (MapPollard.rowIters (DetectRow p m2.totalRows) (TreeRows m2.numLeaves)) p m2
      rw [hm3] at f1 f2 f3 f4
      have hm3T : m3.totalRows.toNat = m.totalRows.toNat := by rw [f3, hm2T']
      have hm3c : ∀ y, m3.getCached y = m2.getCached y := by
        intro y; unfold MapPollard.getCached; rw [f1]
      have hm3h : ∀ y, m3.hasCached y = m2.hasCached y := by
        intro y; rw [hasCached_eq, hasCached_eq, hm3c]
      refine ⟨m3, rfl, ?_, ?_, ?_, ?_⟩
      · refine { n_lt := inv.n_lt, n_eq := by rw [f2]; exact hm2n, rows_le := by rw [hm3T]; exact inv.rows_le,
                 total_le := by rw [hm3T]; exact hT, true_hash := ?_, cached_pos := ?_,
                 only_needed := ?_, has_needed := ?_, flags := ?_ }
        · intro q l hgq
          rw [hm3T]
          have := hsub q l hgq
          rw [hm2g] at this
          split at this
          · rename_i he
            simp only [Option.some.injEq] at this
            obtain ⟨q', hv', he', hn'⟩ := inv.true_hash p leaf hg
            exact ⟨q', hv', by rw [he]; exact he', by rw [← this]; exact hn'⟩
          · exact inv.true_hash q l this
        · intro y py hcy
          rw [hm3T]
          rw [hm3c, hm2c] at hcy
          split at hcy
          · cases hcy
          · exact inv.cached_pos y py hcy
        · intro q l hv hgq
          rw [hm3T] at hv hgq
          rcases hupp q l hv hgq with hal | ⟨i, h1, h2, _⟩
          · rcases hal with h | ⟨y, ty, hk, hpy, h⟩
            · exact Or.inl h
            · exact Or.inr ⟨y, ty, by show m3.hasCached y = true; rw [hm3h]; exact hk, hpy, h⟩
          · omega
        · intro q hreq
          rw [hm3T]
          apply hlow q
          rcases hreq with h | ⟨y, ty, hk, hpy, h⟩
          · exact Or.inl h
          · exact Or.inr ⟨y, ty, by show m2.hasCached y = true; rw [← hm3h]; exact hk, hpy, h⟩
        · intro _ q l hv hnr hgq
          rw [hm3T] at hv hgq ⊢
          have hg2 := hsub _ l hgq
          obtain ⟨q', hv', he', hn'⟩ : ∃ q', Valid m.totalRows.toNat q' ∧ encP m.totalRows.toNat q = encP m.totalRows.toNat q' ∧ F.nodeAt q' = some l.hash := by
            rw [hm2g] at hg2
            split at hg2
            · rename_i he
              simp only [Option.some.injEq] at hg2
              obtain ⟨q', a, b, c⟩ := inv.true_hash p leaf hg
              exact ⟨q', a, by rw [he]; exact b, by rw [← hg2]; exact c⟩
            · exact inv.true_hash _ l hg2
          have hqq : q = q' := encP_inj' hT hv hv' he'
          have hnq : F.nodeAt q = some l.hash := by rw [hqq]; exact hn'
          obtain ⟨Rq, hqb⟩ := belowRoot_of_nodeAt hnq
          have hqne : q.1 ≠ Rq := by
            intro e
            have := belowRoot_isRootPos hqb
            rw [hnr] at this; simp [e] at this
          constructor
          · intro hr
            obtain ⟨y, hk, hpy⟩ := ctx.flagsBwd q l Rq hqb hqne hg2 hr
            obtain ⟨hne, hcy⟩ := hK'pos y q hk hpy
            exact ⟨y, by rw [hm3c, hm2c, if_neg hne]; exact hcy⟩
          · rintro ⟨y, hcy⟩
            rw [hm3c] at hcy
            have hk : m2.hasCached y = true := by rw [hasCached_eq, hcy]; rfl
            rw [hm2c] at hcy
            split at hcy
            · cases hcy
            · obtain ⟨ty, h1, h2⟩ := inv.cached_pos y _ hcy
              have : q = ty := encP_inj' hT hv (posOf_valid inv.rows_le h1) h2
              exact ctx.flagsFwd y q l hk (by rw [this]; exact h1) hnr hg2
      · rw [f4, ← hm2]; exact hfull
      · intro y; rw [hm3c, hm2c]
      · intro q l hgq
        have := hsub q l hgq
        rw [hm2g] at this
        split at this
        · rename_i he
          simp only [Option.some.injEq] at this
          exact ⟨leaf, by rw [he]; exact hg, by rw [← this]⟩
        · exact ⟨l, this, rfl⟩

/-- **`Prune` preserves the invariant** and removes exactly the named leaves from the cache -/
theorem inv_pruneGo : ∀ (hs : List H) {m : MapPollard H}, Inv m F → m.full = false →
    ∃ m', MapPollard.prune.go hs m = (m', .ok ()) ∧ Inv m' F ∧ m'.full = false ∧
      (∀ y, m'.getCached y = if y ∈ hs then none else m.getCached y) ∧
      (∀ q l, m'.getNode q = some l → ∃ l0, m.getNode q = some l0 ∧ l0.hash = l.hash)
  | [], m, inv, hfull => ⟨m, rfl, inv, hfull, by intro y; simp, fun q l h => ⟨l, h, rfl⟩⟩
  | h :: hs, m, inv, hfull => by
    obtain ⟨m1, e1, inv1, hf1, hc1, hs1⟩ := inv_pruneOne inv hfull h
    obtain ⟨m2, e2, inv2, hf2, hc2, hs2⟩ := inv_pruneGo hs inv1 hf1
    refine ⟨m2, ?_, inv2, hf2, ?_, ?_⟩
    · unfold MapPollard.prune.go
      rw [e1]
      exact e2
    · intro y
      rw [hc2, hc1]
      by_cases hy : y = h
      · subst hy; simp
      · simp [hy]
    · intro q l hg
      obtain ⟨l1, g1, e1'⟩ := hs2 q l hg
      obtain ⟨l0, g0, e0⟩ := hs1 q l1 g1
      exact ⟨l0, g0, e0.trans e1'⟩

end UtreexoVerif.Proofs.MapPrune
