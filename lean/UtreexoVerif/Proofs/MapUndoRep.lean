/-
  Unfolding lemmas for `MapPollard.Undo` on the abstract state `(A, C)` of `MapRep` (Layer 1):
  `undoSingleAddLoop` / `undoSingleAdd`, one iteration of `undoDelMoveDown`, `restoreRoots`.
-/
import UtreexoVerif.Proofs.MapUndoDefs
import UtreexoVerif.Proofs.MapAddRep
import UtreexoVerif.Proofs.MapRemoveRep
import UtreexoVerif.Proofs.MapIngest
import UtreexoVerif.Props.C16d
open UtreexoVerif Model Spec Spec.Forest Proofs MapAL MapInv MapPrune MapRep MapLiftGeo MapUndoDefs Hasher GoInt

namespace UtreexoVerif.Proofs.MapUndoRep
set_option linter.unusedSectionVars false
set_option linter.unusedVariables false
variable {H : Type} [DecidableEq H] [Hasher H]

/-! ### `undoSingleAdd` (unfolding lemmas; `placeEmptyRoot` is left as a call) -/

/-- the node at `q` is removed and its hash leaves the cache (first statement of every iteration of
`undoSingleAddLoop`) -/
def dropNode (q : Pos) (A : Pos → Option (Leaf H)) (C : H → Option Pos) :
    (Pos → Option (Leaf H)) × (H → Option Pos) :=
  match A q with
  | some l => (upd A q none, upd C l.hash none)
  | none => (A, C)

/-- the model state after that statement -/
def dropNodeM (T : Nat) (q : Pos) (m : MapPollard H) : MapPollard H :=
  match m.getNode (encP T q) with
  | some leaf => (m.delNode (encP T q)).delCached leaf.hash
  | none => m

theorem dropNodeM_rep {m : MapPollard H} {T : Nat} {A : Pos → Option (Leaf H)} {C : H → Option Pos}
    (rep : Rep m T A C) {q : Pos} (hq : Valid T q) :
    Rep (dropNodeM T q m) T (dropNode q A C).1 (dropNode q A C).2 ∧
      (dropNodeM T q m).numLeaves = m.numLeaves ∧ (dropNodeM T q m).full = m.full := by
  unfold dropNodeM dropNode
  rw [rep.node q hq]
  cases h : A q with
  | none => exact ⟨rep, rfl, rfl⟩
  | some l => exact ⟨(rep.delNode hq).delCached l.hash, rfl, rfl⟩

omit [Hasher H] in
theorem dropNodeM_rows (T : Nat) (q : Pos) (m : MapPollard H) : (dropNodeM T q m).totalRows = m.totalRows := by
  unfold dropNodeM
  cases m.getNode (encP T q) <;> rfl

/-- one unfolding of `undoSingleAddLoop` at an encoded position, the `let`s inlined -/
theorem undoSingleAddLoop_succ (T : Nat) (q : Pos) (k : Nat) (lChild : U64) (e : List U64) (m : MapPollard H) :
    MapPollard.undoSingleAddLoop (k + 1) (encP T q) lChild e m =
      if k ≠ 0 then
        match e with
        | e0 :: erest =>
          if e0 = lChild then
            match MapPollard.placeEmptyRoot lChild (dropNodeM T q m) with
            | (m', .error er) => (m', .error er)
            | (m', .ok ()) =>
              MapPollard.undoSingleAddLoop k (RightChild (encP T q) (m'.putNode lChild ⟨zero, true⟩).totalRows)
                (LeftChild (RightChild (encP T q) (m'.putNode lChild ⟨zero, true⟩).totalRows)
                  (m'.putNode lChild ⟨zero, true⟩).totalRows) erest (m'.putNode lChild ⟨zero, true⟩)
          else
            MapPollard.undoSingleAddLoop k (RightChild (encP T q) (dropNodeM T q m).totalRows)
              (LeftChild (RightChild (encP T q) (dropNodeM T q m).totalRows) (dropNodeM T q m).totalRows) e
              (dropNodeM T q m)
        | [] =>
          MapPollard.undoSingleAddLoop k (RightChild (encP T q) (dropNodeM T q m).totalRows)
            (LeftChild (RightChild (encP T q) (dropNodeM T q m).totalRows) (dropNodeM T q m).totalRows) e
            (dropNodeM T q m)
      else
        MapPollard.undoSingleAddLoop k (RightChild (encP T q) (dropNodeM T q m).totalRows)
          (LeftChild (RightChild (encP T q) (dropNodeM T q m).totalRows) (dropNodeM T q m).totalRows) e
          (dropNodeM T q m) := by
  cases e <;> rfl

/-- last iteration (row 0 of the spine): only the node is dropped -/
theorem undoSingleAddLoop_last {m : MapPollard H} {T : Nat} (hrows : m.totalRows = H8 T) (hT : T ≤ 63)
    {q : Pos} (hq : Valid T q) (lc : U64) (e : List U64) :
    MapPollard.undoSingleAddLoop 1 (encP T q) lc e m = (dropNodeM T q m, .ok e) := by
  rw [undoSingleAddLoop_succ]
  rfl

/-- `LeftChild` of an encoded position, any row (on row 0 the Go formula happens to give the
encoding of `(0, 2 * o)`, which is what `childP` computes with truncated subtraction) -/
theorem leftChild_childP {T : Nat} (hT : T ≤ 63) {q : Pos} (hq : Valid T q) :
    LeftChild (encP T q) (H8 T) = encP T (childP q 0) := by
  by_cases h1 : 1 ≤ q.1
  · exact leftChild_encP hT hq h1
  · obtain ⟨r, o⟩ := q
    have hr : r = 0 := by simp only at h1; omega
    subst hr
    have ho : o < 2 ^ T := by have := hq.2; simpa using this
    have h64 : 2 ^ (T + 1) ≤ 2 ^ 64 := two_pow_le_64 (by omega)
    have f := two_pow_succ' T
    apply BitVec.eq_of_toNat_eq
    show (shl (encU T 0 o) 1 &&& (shl 2#64 (H8 T).toNat - 1#64)).toNat = (encU T (0 - 1) (2 * o + 0)).toNat
    rw [toNat_H8 hT, toNat_shl_and_mask hT, toNat_encU hT (Nat.zero_le _) (by simpa using ho)]
    show _ = (BitVec.ofNat 64 (Spec.enc T (0, 2 * o + 0))).toNat
    rw [SpecView.enc_zero_row, SpecView.enc_zero_row, toNat_ofNat64_of_lt (by omega)]
    rw [Nat.mod_eq_of_lt (by omega)]
    omega

theorem rightChild_childP {T : Nat} (hT : T ≤ 63) {q : Pos} (hq : Valid T q) (h1 : 1 ≤ q.1) :
    RightChild (encP T q) (H8 T) = encP T (childP q 1) := rightChild_encP hT hq h1

theorem valid_childP {T : Nat} {q : Pos} (hq : Valid T q) (h1 : 1 ≤ q.1) {b : Nat} (hb : b < 2) :
    Valid T (childP q b) := valid_child hq h1 b hb

/-- an iteration that does not restore an empty root (the head of `e` is not the left child) -/
theorem undoSingleAddLoop_skip {m : MapPollard H} {T : Nat} (hrows : m.totalRows = H8 T) (hT : T ≤ 63)
    {q : Pos} (hq : Valid T q) (h1 : 1 ≤ q.1) (k : Nat) (e : List U64)
    (hne : ∀ e0 er, e = e0 :: er → e0 ≠ encP T (childP q 0)) :
    MapPollard.undoSingleAddLoop (k + 2) (encP T q) (encP T (childP q 0)) e m =
      MapPollard.undoSingleAddLoop (k + 1) (encP T (childP q 1)) (encP T (childP (childP q 1) 0)) e
        (dropNodeM T q m) := by
  have hc := valid_childP hq h1 (b := 1) (by omega)
  rw [undoSingleAddLoop_succ, if_pos (by omega), dropNodeM_rows, hrows, rightChild_childP hT hq h1,
    leftChild_childP hT hc]
  cases e with
  | nil => rfl
  | cons e0 er =>
    simp only
    rw [if_neg (hne e0 er rfl)]

/-! #### `placeEmptyRoot` leaves `totalRows`, `numLeaves`, `full` alone -/

/-- the state after one slot of `placeRowLoop` -/
def placeSlotM (curPos pos : U64) (m : MapPollard H) : MapPollard H :=
  match m.getNode curPos with
  | some v =>
    if v.hash ≠ zero then
      ((if (m.delNode curPos).hasCached v.hash then (m.delNode curPos).putCached v.hash pos else m.delNode curPos).putNode pos
        (if (m.delNode curPos).hasCached v.hash ||
            (if (m.delNode curPos).hasCached v.hash then (m.delNode curPos).putCached v.hash pos else m.delNode curPos).full
          then ⟨v.hash, true⟩ else v))
    else m
  | none => m

theorem placeSlotM_frame (curPos pos : U64) (m : MapPollard H) :
    (placeSlotM curPos pos m).totalRows = m.totalRows ∧ (placeSlotM curPos pos m).numLeaves = m.numLeaves ∧
      (placeSlotM curPos pos m).full = m.full := by
  unfold placeSlotM
  cases m.getNode curPos with
  | none => exact ⟨rfl, rfl, rfl⟩
  | some v =>
    simp only
    split
    · cases (m.delNode curPos).hasCached v.hash <;> exact ⟨rfl, rfl, rfl⟩
    · exact ⟨rfl, rfl, rfl⟩

theorem placeRowLoop_succ (prev child : U64) (k : Nat) (i : U64) (m : MapPollard H) :
    MapPollard.placeRowLoop prev child (k + 1) i m =
      if (calcNextPosition (i + child) prev m.totalRows).2 then (m, .error .err)
      else MapPollard.placeRowLoop prev child k (i + 1)
        (placeSlotM (calcNextPosition (i + child) prev m.totalRows).1 (i + child) m) := rfl

theorem placeRowLoop_frame (prev child : U64) : ∀ (k : Nat) (i : U64) (m : MapPollard H),
    (MapPollard.placeRowLoop prev child k i m).1.totalRows = m.totalRows ∧
    (MapPollard.placeRowLoop prev child k i m).1.numLeaves = m.numLeaves ∧
    (MapPollard.placeRowLoop prev child k i m).1.full = m.full
  | 0, i, m => ⟨rfl, rfl, rfl⟩
  | k+1, i, m => by
    rw [placeRowLoop_succ]
    split
    · exact ⟨rfl, rfl, rfl⟩
    · obtain ⟨a, b, c⟩ := placeRowLoop_frame prev child k (i + 1)
        (placeSlotM (calcNextPosition (i + child) prev m.totalRows).1 (i + child) m)
      obtain ⟨a', b', c'⟩ := placeSlotM_frame (calcNextPosition (i + child) prev m.totalRows).1 (i + child) m
      exact ⟨a.trans a', b.trans b', c.trans c'⟩

theorem placeLoop_succ (prev sib : U64) (h : Nat) (m : MapPollard H) :
    MapPollard.placeLoop prev sib (h + 1) m =
      if (ChildMany sib (BitVec.ofNat 8 (h+1)) m.totalRows).2 then (m, .error .err)
      else
        match MapPollard.placeRowLoop prev (ChildMany sib (BitVec.ofNat 8 (h+1)) m.totalRows).1 (2 ^ (h+1)) 0#64 m with
        | (m', .error e) => (m', .error e)
        | (m', .ok ()) => MapPollard.placeLoop prev sib h m' := rfl

theorem placeLoop_frame (prev sib : U64) : ∀ (h : Nat) (m : MapPollard H),
    (MapPollard.placeLoop prev sib h m).1.totalRows = m.totalRows ∧
    (MapPollard.placeLoop prev sib h m).1.numLeaves = m.numLeaves ∧
    (MapPollard.placeLoop prev sib h m).1.full = m.full
  | 0, m => ⟨rfl, rfl, rfl⟩
  | h+1, m => by
    rw [placeLoop_succ]
    split
    · exact ⟨rfl, rfl, rfl⟩
    · have f := placeRowLoop_frame prev (ChildMany sib (BitVec.ofNat 8 (h+1)) m.totalRows).1 (2 ^ (h+1)) 0#64 m
      split
      · rename_i m' e he
        rw [he] at f; exact f
      · rename_i m' he
        rw [he] at f
        obtain ⟨a, b, c⟩ := placeLoop_frame prev sib h m'
        exact ⟨a.trans f.1, b.trans f.2.1, c.trans f.2.2⟩

theorem placeEmptyRoot_frame (p : U64) (m : MapPollard H) :
    (MapPollard.placeEmptyRoot p m).1.totalRows = m.totalRows ∧
    (MapPollard.placeEmptyRoot p m).1.numLeaves = m.numLeaves ∧
    (MapPollard.placeEmptyRoot p m).1.full = m.full :=
  placeLoop_frame p (sibling p) _ m

/-- an iteration that restores the empty root at the left child (statement exactly as in the brief: the
extra hypothesis `m2.totalRows = H8 T` is not needed, see `placeEmptyRoot_frame`) -/
theorem undoSingleAddLoop_place {m : MapPollard H} {T : Nat} (hrows : m.totalRows = H8 T) (hT : T ≤ 63)
    {q : Pos} (hq : Valid T q) (h1 : 1 ≤ q.1) (k : Nat) (er : List U64) {m2 : MapPollard H}
    (hpl : MapPollard.placeEmptyRoot (encP T (childP q 0)) (dropNodeM T q m) = (m2, .ok ())) :
    MapPollard.undoSingleAddLoop (k + 2) (encP T q) (encP T (childP q 0)) (encP T (childP q 0) :: er) m =
      MapPollard.undoSingleAddLoop (k + 1) (encP T (childP q 1)) (encP T (childP (childP q 1) 0)) er
        (m2.putNode (encP T (childP q 0)) ⟨zero, true⟩) := by
  have hc := valid_childP hq h1 (b := 1) (by omega)
  have hT2 : m2.totalRows = H8 T := by
    have := (placeEmptyRoot_frame (encP T (childP q 0)) (dropNodeM T q m)).1
    rw [hpl, dropNodeM_rows, hrows] at this
    exact this
  have hr : (m2.putNode (encP T (childP q 0)) (⟨zero, true⟩ : Leaf H)).totalRows = H8 T := hT2
  rw [undoSingleAddLoop_succ, if_pos (by omega)]
  simp only
  rw [if_pos trivial, hpl]
  simp only
  rw [hr, rightChild_childP hT hq h1, leftChild_childP hT hc]

/-! #### entry of `undoSingleAdd` -/

/-- arithmetic of `n + 1 = 2^t * (2c + 1)` -/
theorem low_tree_facts {T n t c : Nat} (hfit : forestRows (n + 1) ≤ T)
    (htc : n = 2 ^ (t + 1) * c + (2 ^ t - 1)) :
    n + 1 = 2 ^ t * (2 * c + 1) ∧ t ≤ T ∧ n < 2 ^ T ∧ n >>> (t + 1) = c ∧ Valid T (t, 2 * c) := by
  have hp := Nat.two_pow_pos t
  have e1 : n + 1 = 2 ^ t * (2 * c + 1) := by
    rw [htc, Nat.pow_succ, Nat.mul_add, Nat.mul_one, Nat.mul_assoc]; omega
  have h2 := SpecView.le_two_pow_forestRows (n + 1)
  have h3 : 2 ^ forestRows (n + 1) ≤ 2 ^ T := two_pow_le_of_le hfit
  have hn : n < 2 ^ T := by omega
  have hle : 2 ^ t ≤ n + 1 := by
    rw [e1]; exact Nat.le_mul_of_pos_right _ (by omega)
  have ht : t ≤ T := by
    have : 2 ^ t ≤ 2 ^ T := by omega
    exact (Nat.pow_le_pow_iff_right (by decide : 1 < 2)).1 this
  have hc : n >>> (t + 1) = c := by
    rw [Nat.shiftRight_eq_div_pow, htc, Nat.mul_add_div (Nat.two_pow_pos _)]
    have : (2 ^ t - 1) / 2 ^ (t + 1) = 0 := Nat.div_eq_of_lt (by rw [Nat.pow_succ]; omega)
    omega
  refine ⟨e1, ht, hn, hc, ht, ?_⟩
  show 2 * c < 2 ^ (T - t)
  have e2 : 2 ^ T = 2 ^ t * 2 ^ (T - t) := by rw [← Nat.pow_add]; congr 1; omega
  have : 2 ^ t * (2 * c + 1) ≤ 2 ^ t * 2 ^ (T - t) := by rw [← e1, ← e2]; omega
  have := Nat.le_of_mul_le_mul_left this hp
  omega

theorem low_tree_bits {n t c : Nat} (e1 : n + 1 = 2 ^ t * (2 * c + 1)) :
    (n + 1).testBit t = true ∧ ∀ j, j < t → (n + 1).testBit j = false := by
  rw [e1]
  constructor
  · rw [Nat.testBit_two_pow_mul]
    simp [Nat.testBit_zero]
  · intro j hj
    rw [Nat.testBit_two_pow_mul]
    simp
    omega

/-- entry of `undoSingleAdd`: the current leaf count is `n + 1` with `n = 2^(t+1)*c + (2^t - 1)`
(`t` = row of the lowest tree of `n + 1`); the loop starts at that tree's root `(t, 2c)` -/
theorem undoSingleAdd_start {m : MapPollard H} {T n t c : Nat} (hrows : m.totalRows = H8 T) (hT : T ≤ 63)
    (hn : m.numLeaves = BitVec.ofNat 64 (n + 1)) (hn63 : n + 1 < 2 ^ 63) (hfit : forestRows (n + 1) ≤ T)
    (htc : n = 2 ^ (t + 1) * c + (2 ^ t - 1)) (e : List U64) :
    MapPollard.undoSingleAdd e m =
      (match MapPollard.undoSingleAddLoop (t + 1) (encP T (t, 2 * c)) (encP T (childP (t, 2 * c) 0)) e m with
       | (m', .error er) => (m', .error er)
       | (m', .ok e') => ({ m' with numLeaves := m'.numLeaves - 1 }, .ok e')) := by
  obtain ⟨e1, ht, hnT, hc, hv⟩ := low_tree_facts hfit htc
  obtain ⟨hb, hlow⟩ := low_tree_bits e1
  have hN : (BitVec.ofNat 64 (n + 1)).toNat = n + 1 := toNat_ofNat64_of_lt (by omega)
  have hrow : getLowestRoot (BitVec.ofNat 64 (n + 1)) (H8 T) = H8 t :=
    Props.C16.getLowestRoot_found _ hT ht (by rw [hN]; exact hb) (by intro j hj; rw [hN]; exact hlow j hj)
  have hsub : (BitVec.ofNat 64 (n + 1) : U64) - 1 = BitVec.ofNat 64 n := by
    rw [BitVec.ofNat_add]
    exact BitVec.add_sub_cancel _ _
  have hpos : rootPosition (BitVec.ofNat 64 n) (H8 t) (H8 T) = encP T (t, 2 * c) := by
    have := SpecView.rootPosition_enc (n := n) (tr := T) (h := t) hT ht
      (by rw [Nat.pow_succ]; omega) (by rw [hc]; exact hv.2)
    rw [hc] at this
    exact this
  unfold MapPollard.undoSingleAdd
  simp only
  rw [hn, hrows, hrow, hsub, hpos, leftChild_childP hT hv, toNat_H8 (by omega)]
  rfl

/-! ### `undoDelMoveDown` (one target) -/

/-- moving the node at `parent d` back down to `sib d` (second half of one iteration of
`undoDelMoveDown`), on the abstract state -/
def moveDownA (d : Pos) (A : Pos → Option (Leaf H)) (C : H → Option Pos) :
    (Pos → Option (Leaf H)) × (H → Option Pos) :=
  match A (parent d) with
  | some v => (upd (upd A (parent d) none) (sib d) (some v),
      if (C v.hash).isSome = true then upd C v.hash (some (sib d)) else C)
  | none => (A, C)

/-- the same on the model state: the node stored at `s` goes to `p` -/
def moveDownM (s p : U64) (m : MapPollard H) : MapPollard H :=
  match m.getNode s with
  | some v =>
    (((if m.hasCached v.hash then m.putCached v.hash p else m).delNode s).putNode p
      (if m.hasCached v.hash || (if m.hasCached v.hash then m.putCached v.hash p else m).full
        then ⟨v.hash, true⟩ else v))
  | none => m

/-- one unfolding of `undoDelMoveDown` -/
theorem undoDelMoveDown_cons (t : U64) (ts : List U64) (m : MapPollard H) :
    MapPollard.undoDelMoveDown (t :: ts) m =
      match (if inForest (sibling t) m.numLeaves m.totalRows then MapPollard.placeEmptyRoot t m else (m, .ok ())) with
      | (m', .error e) => (m', .error e)
      | (m', .ok ()) =>
        MapPollard.undoDelMoveDown ts
          (moveDownM (Parent t m'.totalRows) (calcPrevPosition (Parent t m'.totalRows) t m'.totalRows) m') := rfl

theorem addBitNat_zero (x : Nat) (b : Bool) : addBitNat x 0 b = 2 * x + b.toNat := by
  simp [addBitNat, Nat.mod_one]

/-- `calcPrevPosition (Parent t) t` is the sibling of `t` -/
theorem calcPrev_sib {T : Nat} (hT : T ≤ 63) {d : Pos} (hd : Valid T d) (hlt : d.1 < T) :
    calcPrevPosition (encP T (parent d)) (encP T d) (H8 T) = encP T (sib d) := by
  obtain ⟨r, o⟩ := d
  have hP := valid_parent hd hlt
  have := Props.C16.calcPrevPosition_enc (h := T) (r := r) (x := o / 2) (r' := r) (o' := o) hT (Nat.le_refl _)
    hlt hP.2 hd.2
  show calcPrevPosition (encU T (r + 1) (o / 2)) (encU T r o) (H8 T) = encU T r (sib (r, o)).2
  rw [this, Nat.sub_self, addBitNat_zero]
  congr 1
  unfold sib
  simp only
  split <;> simp_all <;> omega

theorem moveDownM_rep {m1 : MapPollard H} {T : Nat} {A1 : Pos → Option (Leaf H)} {C1 : H → Option Pos}
    (rep1 : Rep m1 T A1 C1) (hfull : m1.full = false) {d : Pos} (hd : Valid T d) (hlt : d.1 < T)
    (hfl : ∀ v, A1 (parent d) = some v → (C1 v.hash).isSome = true → v.remember = true) :
    Rep (moveDownM (encP T (parent d)) (encP T (sib d)) m1) T (moveDownA d A1 C1).1 (moveDownA d A1 C1).2 ∧
      (moveDownM (encP T (parent d)) (encP T (sib d)) m1).numLeaves = m1.numLeaves ∧
      (moveDownM (encP T (parent d)) (encP T (sib d)) m1).full = m1.full := by
  have hP := valid_parent hd hlt
  have hS := valid_sib hd hlt
  unfold moveDownM moveDownA
  rw [rep1.node _ hP]
  cases hA : A1 (parent d) with
  | none => exact ⟨rep1, rfl, rfl⟩
  | some v =>
    simp only
    rw [rep1.hasCached]
    by_cases hc : (C1 v.hash).isSome = true
    · have hv : (⟨v.hash, true⟩ : Leaf H) = v := by
        have := hfl v hA hc
        cases v; simp_all
      simp only [hc, if_true, Bool.true_or, hv]
      exact ⟨((rep1.putCached v.hash hS).delNode hP).putNode hS v, rfl, rfl⟩
    · simp only [hc, hfull, Bool.false_eq_true, if_false, Bool.or_self]
      exact ⟨(rep1.delNode hP).putNode hS v, rfl, hfull⟩

/-- `inForest` on an encoded position -/
theorem inForest_encP {T n : Nat} (hT : T ≤ 63) (hn63 : n < 2 ^ 63) {q : Pos} (hq : Valid T q) :
    inForest (encP T q) (BitVec.ofNat 64 n) (H8 T) = decide ((q.2 + 1) * 2 ^ q.1 ≤ n) := by
  have := Props.C16.inForest_enc (h := T) (r := q.1) (o := q.2) hT hq.1 hq.2 (BitVec.ofNat 64 n)
  rw [toNat_ofNat64_of_lt (by omega)] at this
  exact this

/-- one iteration of `undoDelMoveDown` for a NON-ROOT target `d` whose sibling is in the forest:
`placeEmptyRoot d`, then the node at `parent d` goes back to `sib d` -/
theorem undoDelMoveDown_step {m : MapPollard H} {T n : Nat} {A1 : Pos → Option (Leaf H)} {C1 : H → Option Pos}
    (hrows : m.totalRows = H8 T) (hT : T ≤ 63)
    (hn : m.numLeaves = BitVec.ofNat 64 n) (hn63 : n < 2 ^ 63) (hfit : forestRows n ≤ T)
    {d : Pos} (hd : Valid (forestRows n) d) (hlt : d.1 < forestRows n)
    (hin : (d.2 + 1) * 2 ^ d.1 ≤ n ∧ ((sib d).2 + 1) * 2 ^ d.1 ≤ n)
    {m1 : MapPollard H} (hpl : MapPollard.placeEmptyRoot (encP T d) m = (m1, .ok ()))
    (rep1 : Rep m1 T A1 C1) (hfull : m1.full = false)
    -- a cached hash of the moved node carries the flag
    (hfl : ∀ v, A1 (parent d) = some v → (C1 v.hash).isSome = true → v.remember = true)
    (ts : List U64) :
    ∃ m2, MapPollard.undoDelMoveDown (encP T d :: ts) m = MapPollard.undoDelMoveDown ts m2 ∧
      Rep m2 T (moveDownA d A1 C1).1 (moveDownA d A1 C1).2 ∧
      m2.numLeaves = m1.numLeaves ∧ m2.full = m1.full := by
  have hdT : Valid T d := hd.mono hfit
  have hltT : d.1 < T := by omega
  have hS := valid_sib hdT hltT
  have hinf : inForest (sibling (encP T d)) m.numLeaves m.totalRows = true := by
    rw [sibling_encP hT hdT, hn, hrows, inForest_encP hT hn63 hS, decide_eq_true_iff]
    exact hin.2
  obtain ⟨r, a, b⟩ := moveDownM_rep rep1 hfull hdT hltT hfl
  refine ⟨_, ?_, r, a, b⟩
  rw [undoDelMoveDown_cons, hinf, if_pos rfl, hpl]
  simp only
  rw [rep1.rows, MapPrune.parent_encP hT hdT hltT, calcPrev_sib hT hdT hltT]

/-- the sibling of a root (below the top row) is not in the forest -/
theorem root_sib_out {n : Nat} {d : Pos} (hroot : isRootPos n d = true) : ¬ ((sib d).2 + 1) * 2 ^ d.1 ≤ n := by
  obtain ⟨hb, e⟩ := eq_rootPos_of_isRootPos hroot
  obtain ⟨h, o⟩ := d
  have ho : o = 2 * (n >>> (h + 1)) := congrArg Prod.snd e
  subst ho
  have hs : (sib (h, 2 * (n >>> (h + 1)))).2 = 2 * (n >>> (h + 1)) + 1 := by
    unfold sib; simp
  rw [hs, Nat.shiftRight_eq_div_pow]
  show ¬ (2 * (n / 2 ^ (h + 1)) + 1 + 1) * 2 ^ h ≤ n
  have h1 := Nat.div_add_mod n (2 ^ (h + 1))
  have h2 := Nat.mod_lt n (Nat.two_pow_pos (h + 1))
  generalize n / 2 ^ (h + 1) = c at *
  have e3 : (2 * c + 1 + 1) * 2 ^ h = 2 ^ (h + 1) * c + 2 ^ (h + 1) := by
    rw [Nat.pow_succ]; grind
  omega

/-- the sibling of the top position is never in the forest -/
theorem inForest_top_sib {T n : Nat} (hT : T ≤ 63) (hnT : n ≤ 2 ^ T) :
    inForest (sibling (encP T (T, 0))) (BitVec.ofNat 64 n) (H8 T) = false := by
  have f := two_pow_succ' T
  have g := Nat.two_pow_pos T
  have h64 : 2 ^ (T + 1) ≤ 2 ^ 64 := two_pow_le_64 (by omega)
  have hv : Valid T (T, 0) := ⟨Nat.le_refl _, by show 0 < 2 ^ (T - T); exact Nat.two_pow_pos _⟩
  have hs : (sibling (encP T (T, 0))).toNat = 2 ^ (T + 1) - 1 := by
    rw [sibling_encP hT hv]
    show (BitVec.ofNat 64 (Spec.enc T (sib (T, 0)))).toNat = _
    have : Spec.enc T (sib (T, 0)) = 2 ^ (T + 1) - 1 := by
      show 2 ^ (T + 1) - 2 ^ (T + 1 - T) + (if 0 % 2 = 0 then 0 + 1 else 0 - 1) = _
      rw [show T + 1 - T = 1 by omega]; simp; omega
    rw [this, toNat_ofNat64_of_lt (by omega)]
  have hN : (BitVec.ofNat 64 n).toNat = n := toNat_ofNat64_of_lt (by omega)
  unfold inForest
  have h1 : ¬ sibling (encP T (T, 0)) < BitVec.ofNat 64 n := by
    rw [BitVec.lt_def, hs, hN]; omega
  simp only [h1, decide_false, Bool.false_eq_true, if_false]
  rw [toNat_H8 hT, shl_one_shl_one hT]
  have h2 : sibling (encP T (T, 0)) ≥ shl 2#64 T - 1#64 := by
    rw [ge_iff_le, BitVec.le_def, hs, toNat_mask hT]; omega
  simp only [h2, decide_true, if_true]

/-- when nothing is stored at `s`, `moveDownM` does nothing -/
theorem moveDownM_none {m : MapPollard H} {s : U64} (p : U64) (h : m.getNode s = none) : moveDownM s p m = m := by
  unfold moveDownM; rw [h]

/-- one iteration of `undoDelMoveDown` for a ROOT target: nothing happens (the sibling of a root is
not in the forest, and nothing is stored above a root) -/
theorem undoDelMoveDown_root {m : MapPollard H} {T n : Nat} {A : Pos → Option (Leaf H)} {C : H → Option Pos}
    (rep : Rep m T A C) (hn : m.numLeaves = BitVec.ofNat 64 n) (hn63 : n < 2 ^ 63) (hfit : forestRows n ≤ T)
    {d : Pos} (hroot : isRootPos n d = true) (habove : d.1 < T → A (parent d) = none) (ts : List U64) :
    MapPollard.undoDelMoveDown (encP T d :: ts) m = MapPollard.undoDelMoveDown ts m := by
  have hT := rep.T_le
  have hdT : Valid T d := (MapRemoveRep.root_valid hroot).mono hfit
  have hnT : n ≤ 2 ^ T := Nat.le_trans (SpecView.le_two_pow_forestRows n) (two_pow_le_of_le hfit)
  have hinf : inForest (sibling (encP T d)) m.numLeaves m.totalRows = false := by
    rw [hn, rep.rows]
    by_cases hlt : d.1 < T
    · rw [sibling_encP hT hdT, inForest_encP hT hn63 (valid_sib hdT hlt), decide_eq_false_iff_not]
      exact root_sib_out hroot
    · have hrow : d.1 = T := by have := hdT.1; omega
      have ho : d.2 = 0 := by
        have := hdT.2; rw [hrow, Nat.sub_self] at this; omega
      have hpos : d = (T, 0) := Prod.ext hrow ho
      rw [hpos]
      exact inForest_top_sib hT hnT
  rw [undoDelMoveDown_cons, hinf]
  simp only [Bool.false_eq_true, if_false]
  rw [moveDownM_none]
  rw [rep.rows]
  by_cases hlt : d.1 < T
  · rw [MapPrune.parent_encP hT hdT hlt, rep.node _ (valid_parent hdT hlt)]
    exact habove hlt
  · have hrow : d.1 = T := by have := hdT.1; omega
    have ho : d.2 = 0 := by
      have := hdT.2; rw [hrow, Nat.sub_self] at this; omega
    have hpos : d = (T, 0) := Prod.ext hrow ho
    rw [hpos]
    have := MapRemoveRep.hasNode_top rep
    rw [hasNode_eq] at this
    cases h : m.getNode (Parent (encP T (T, 0)) (H8 T)) with
    | none => rfl
    | some l => rw [h] at this; cases this

/-! ### `restoreRoots` -/

/-- the abstract effect of `restoreRoots`: the listed positions receive the listed hashes -/
def restoreA (ps : List (Pos × H)) (A : Pos → Option (Leaf H)) (C : H → Option Pos) : Pos → Option (Leaf H) :=
  fun q => match ps.find? (fun e => e.1 = q) with
    | some e => some ⟨e.2, (C e.2).isSome⟩
    | none => A q

theorem restoreA_cons (rp : Pos) (h : H) (ps : List (Pos × H)) (hnot : ∀ e ∈ ps, e.1 ≠ rp)
    (A : Pos → Option (Leaf H)) (C : H → Option Pos) (q : Pos) :
    restoreA ((rp, h) :: ps) A C q = restoreA ps (upd A rp (some ⟨h, (C h).isSome⟩)) C q := by
  unfold restoreA
  rw [List.find?_cons]
  by_cases e : rp = q
  · subst e
    have : ps.find? (fun e => decide (e.1 = rp)) = none := by
      rw [List.find?_eq_none]
      intro x hx
      simpa using hnot x hx
    simp [this]
  · have e' : q ≠ rp := fun h => e h.symm
    simp only [e, decide_false, upd_ne _ _ e']

theorem restoreRoots_gen {T : Nat} {C : H → Option Pos} (hs : List H) :
    ∀ (rs : List Pos) (i : Nat) {m : MapPollard H} {A : Pos → Option (Leaf H)},
      Rep m T A C → m.full = false → (∀ q ∈ rs, Valid T q) → rs.Nodup → rs.length + i = hs.length →
      ∃ m', MapPollard.restoreRoots hs (rs.map (encP T)) i m = (m', .ok ()) ∧
        Rep m' T (restoreA (rs.zip (hs.drop i)) A C) C ∧ m'.numLeaves = m.numLeaves ∧ m'.full = m.full
  | [], i, m, A, rep, hfull, hv, hnd, hlen => ⟨m, rfl, rep, rfl, rfl⟩
  | rp :: rest, i, m, A, rep, hfull, hv, hnd, hlen => by
    have hi : i < hs.length := by simp only [List.length_cons] at hlen; omega
    have hget : hs[i]? = some hs[i] := List.getElem?_eq_getElem hi
    have hdrop : hs.drop i = hs[i] :: hs.drop (i + 1) := List.drop_eq_getElem_cons hi
    have hrp : Valid T rp := hv rp (List.mem_cons_self ..)
    have rep1 := rep.putNode hrp (⟨hs[i], (C hs[i]).isSome⟩ : Leaf H)
    obtain ⟨m', e', rep', a, b⟩ := restoreRoots_gen hs rest (i + 1) rep1 hfull
      (fun q hq => hv q (List.mem_cons_of_mem _ hq)) (List.nodup_cons.1 hnd).2
      (by simp only [List.length_cons] at hlen; omega)
    refine ⟨m', ?_, rep'.congr ?_ (fun _ => rfl), a, b⟩
    · rw [List.map_cons]
      unfold MapPollard.restoreRoots
      rw [hget]
      simp only
      rw [rep.hasCached, hfull, Bool.or_false]
      exact e'
    · intro q
      rw [hdrop, List.zip_cons_cons]
      apply restoreA_cons
      intro e he hc
      have := (List.of_mem_zip he).1
      rw [hc] at this
      exact (List.nodup_cons.1 hnd).1 this

/-- `restoreRoots` writes the given hashes at the given (valid, pairwise different) positions; the
flag of each is "its hash is cached" -/
theorem restoreRoots_rep {m : MapPollard H} {T : Nat} {A : Pos → Option (Leaf H)} {C : H → Option Pos}
    (rep : Rep m T A C) (hfull : m.full = false) (rs : List Pos) (hs : List H)
    (hv : ∀ q ∈ rs, Valid T q) (hnd : rs.Nodup) (hlen : rs.length = hs.length) :
    ∃ m', MapPollard.restoreRoots hs (rs.map (encP T)) 0 m = (m', .ok ()) ∧
      Rep m' T (fun q => match (rs.zip hs).find? (fun e => e.1 = q) with
        | some e => some ⟨e.2, (C e.2).isSome⟩
        | none => A q) C ∧
      m'.numLeaves = m.numLeaves ∧ m'.full = m.full := by
  obtain ⟨m', e, r, a, b⟩ := restoreRoots_gen hs rs 0 rep hfull hv hnd (by omega)
  rw [List.drop_zero] at r
  exact ⟨m', e, r, a, b⟩

/-! ### non-vacuity -/

section Example
local instance exHasher : Hasher Nat := ⟨fun a b => a + b + 1, 0⟩

/-- 4 leaves `10, 20, 30, 40` in a 2-row allocation, leaf `(0,2)` (hash 30) cached: the state after the
addition of the 4th leaf (`ph 10 20 = 31`, `ph 30 40 = 71`, `ph 31 71 = 103`) -/
def mU : MapPollard Nat :=
  { nodes := [(encP 2 (2, 0), ⟨103, false⟩), (encP 2 (1, 0), ⟨31, false⟩), (encP 2 (1, 1), ⟨71, false⟩),
              (encP 2 (0, 2), ⟨30, true⟩), (encP 2 (0, 3), ⟨40, false⟩)],
    cached := [(30, encP 2 (0, 2))], numLeaves := 4#64, totalRows := H8 2, full := false }

theorem mU_rep : Rep mU 2 (absA mU 2) (absC mU 2) := by
  refine rep_abs (by decide) rfl ?_ ?_
  · intro p l h
    have hm := get?_some_mem (l := mU.nodes) h
    simp only [mU, List.mem_cons, Prod.mk.injEq, List.not_mem_nil, or_false] at hm
    rcases hm with ⟨rfl, _⟩ | ⟨rfl, _⟩ | ⟨rfl, _⟩ | ⟨rfl, _⟩ | ⟨rfl, _⟩
    · exact ⟨(2, 0), by decide, rfl⟩
    · exact ⟨(1, 0), by decide, rfl⟩
    · exact ⟨(1, 1), by decide, rfl⟩
    · exact ⟨(0, 2), by decide, rfl⟩
    · exact ⟨(0, 3), by decide, rfl⟩
  · intro x p h
    have hm := get?_some_mem (l := mU.cached) h
    simp only [mU, List.mem_cons, Prod.mk.injEq, List.not_mem_nil, or_false] at hm
    obtain ⟨_, rfl⟩ := hm
    exact ⟨(0, 2), by decide, rfl⟩

/-- `undoSingleAdd_start` at `n + 1 = 4 = 2^2 * (2*0 + 1)`: the loop runs `2 + 1` times from the root `(2, 0)` -/
example (e : List U64) : MapPollard.undoSingleAdd e mU =
    (match MapPollard.undoSingleAddLoop (2 + 1) (encP 2 (2, 2 * 0)) (encP 2 (childP (2, 2 * 0) 0)) e mU with
     | (m', .error er) => (m', .error er)
     | (m', .ok e') => ({ m' with numLeaves := m'.numLeaves - 1 }, .ok e')) := by
  rw [undoSingleAdd_start (m := mU) (T := 2) (n := 3) (t := 2) (c := 0) rfl (by decide) rfl (by decide)
    (SpecView.forestRows_le (by decide)) (by decide) e]
  -- (the `match` of this example is compiled to its own auxiliary matcher)
  split <;> rename_i hh <;> rw [hh]

/-- the first two iterations do not restore an empty root, the third is the last -/
example : MapPollard.undoSingleAddLoop (1 + 2) (encP 2 (2, 0)) (encP 2 (childP (2, 0) 0)) [] mU =
    (dropNodeM 2 (0, 3) (dropNodeM 2 (1, 1) (dropNodeM 2 (2, 0) mU)), .ok []) := by
  rw [undoSingleAddLoop_skip (T := 2) rfl (by decide) (by decide) (by decide) 1 [] (by intro _ _ h; cases h)]
  have r1 : (dropNodeM 2 (2, 0) mU).totalRows = H8 2 := dropNodeM_rows _ _ _
  rw [show childP (2, 0) 1 = (1, 1) from rfl,
    undoSingleAddLoop_skip (T := 2) r1 (by decide) (by decide) (by decide) 0 [] (by intro _ _ h; cases h)]
  have r2 : (dropNodeM 2 (1, 1) (dropNodeM 2 (2, 0) mU)).totalRows = H8 2 :=
    (dropNodeM_rows _ _ _).trans r1
  rw [show childP (1, 1) 1 = (0, 3) from rfl, undoSingleAddLoop_last r2 (by decide) (by decide)]

/-- `dropNodeM_rep` on that state, and the abstract effect: the root and its hash are gone -/
example : Rep (dropNodeM 2 (2, 0) mU) 2 (dropNode (2, 0) (absA mU 2) (absC mU 2)).1
      (dropNode (2, 0) (absA mU 2) (absC mU 2)).2 ∧
    (dropNode (2, 0) (absA mU 2) (absC mU 2)).1 (2, 0) = none ∧
    (dropNode (2, 0) (absA mU 2) (absC mU 2)).1 (1, 1) = some ⟨71, false⟩ :=
  ⟨(dropNodeM_rep mU_rep (by decide)).1, by decide, by decide⟩

/-- the whole `undoSingleAdd`, evaluated: the spine `(2,0)`, `(1,1)`, `(0,3)` is removed -/
example : (MapPollard.undoSingleAdd [] mU).1.nodes = [(4#64, ⟨31, false⟩), (2#64, ⟨30, true⟩)] ∧
    (MapPollard.undoSingleAdd [] mU).1.numLeaves = 3#64 := by decide +kernel

/-- 3 leaves whose tree on row 1 had been deleted (empty root `(1,0)`), leaf `(0,2)` (hash 30) cached, after
the addition of leaf 40: the subtree under `(1,1)` moved up (`MapAddRep`'s example), `ph 30 40 = 71` -/
def mP : MapPollard Nat :=
  { nodes := [(encP 2 (2, 0), ⟨71, false⟩), (encP 2 (1, 1), ⟨40, false⟩), (encP 2 (1, 0), ⟨30, true⟩)],
    cached := [(30, encP 2 (1, 0))], numLeaves := 4#64, totalRows := H8 2, full := false }

/-- the state `placeEmptyRoot` returns when the empty root `(1,0)` is restored -/
def mP2 : MapPollard Nat := (MapPollard.placeEmptyRoot (encP 2 (childP (2, 0) 0)) (dropNodeM 2 (2, 0) mP)).1

theorem mP_place : MapPollard.placeEmptyRoot (encP 2 (childP (2, 0) 0)) (dropNodeM 2 (2, 0) mP) = (mP2, .ok ()) := by
  have h2 : (match (MapPollard.placeEmptyRoot (encP 2 (childP (2, 0) 0)) (dropNodeM 2 (2, 0) mP)).2 with
      | .ok _ => true | .error _ => false) = true := by decide +kernel
  unfold mP2
  generalize MapPollard.placeEmptyRoot (encP 2 (childP (2, 0) 0)) (dropNodeM 2 (2, 0) mP) = r at *
  obtain ⟨a, b⟩ := r
  cases b with
  | error _ => simp at h2
  | ok u => rfl

/-- `undoSingleAddLoop_place`: the head of the list is the left child `(1,0)` of the root `(2,0)` -/
example (er : List U64) :
    MapPollard.undoSingleAddLoop (1 + 2) (encP 2 (2, 0)) (encP 2 (childP (2, 0) 0)) (encP 2 (childP (2, 0) 0) :: er) mP =
      MapPollard.undoSingleAddLoop (1 + 1) (encP 2 (childP (2, 0) 1)) (encP 2 (childP (childP (2, 0) 1) 0)) er
        (mP2.putNode (encP 2 (childP (2, 0) 0)) ⟨zero, true⟩) :=
  undoSingleAddLoop_place (T := 2) rfl (by decide) (by decide) (by decide) 1 er mP_place

/-- the subtree went back down: `(1,0) ↦ (0,2)` (cached), `(1,1) ↦ (0,3)` -/
example : mP2.nodes = [(encP 2 (0, 3), ⟨40, false⟩), (encP 2 (0, 2), ⟨30, true⟩)] ∧
    mP2.cached = [(30, encP 2 (0, 2))] := by decide +kernel

/-- the whole `undoSingleAdd` on that state: the forest of 3 leaves with the empty root `(1,0)` is back -/
example : (MapPollard.undoSingleAdd [encP 2 (1, 0)] mP).1.nodes = [(encP 2 (1, 0), ⟨0, true⟩), (encP 2 (0, 2), ⟨30, true⟩)] ∧
    (MapPollard.undoSingleAdd [encP 2 (1, 0)] mP).1.cached = [(30, encP 2 (0, 2))] ∧
    (MapPollard.undoSingleAdd [encP 2 (1, 0)] mP).1.numLeaves = 3#64 := by decide +kernel

/-- the state after deleting leaf `(0,0)` of the full 4-leaf forest in which `(0,1)` (hash 20) is cached:
the sibling moved up to `(1,0)`, the root is `ph 20 71 = 92` -/
def mD : MapPollard Nat :=
  { nodes := [(encP 2 (2, 0), ⟨92, false⟩), (encP 2 (1, 0), ⟨20, true⟩), (encP 2 (1, 1), ⟨71, false⟩)],
    cached := [(20, encP 2 (1, 0))], numLeaves := 4#64, totalRows := H8 2, full := false }

theorem mD_rep : Rep mD 2 (absA mD 2) (absC mD 2) := by
  refine rep_abs (by decide) rfl ?_ ?_
  · intro p l h
    have hm := get?_some_mem (l := mD.nodes) h
    simp only [mD, List.mem_cons, Prod.mk.injEq, List.not_mem_nil, or_false] at hm
    rcases hm with ⟨rfl, _⟩ | ⟨rfl, _⟩ | ⟨rfl, _⟩
    · exact ⟨(2, 0), by decide, rfl⟩
    · exact ⟨(1, 0), by decide, rfl⟩
    · exact ⟨(1, 1), by decide, rfl⟩
  · intro x p h
    have hm := get?_some_mem (l := mD.cached) h
    simp only [mD, List.mem_cons, Prod.mk.injEq, List.not_mem_nil, or_false] at hm
    obtain ⟨_, rfl⟩ := hm
    exact ⟨(1, 0), by decide, rfl⟩

theorem mD_place : MapPollard.placeEmptyRoot (encP 2 (0, 0)) mD = (mD, .ok ()) := by
  have h : (DetectRow (sibling (encP 2 (0, 0))) mD.totalRows).toNat = 0 := by decide +kernel
  unfold MapPollard.placeEmptyRoot
  simp only [h]
  rfl

/-- `undoDelMoveDown_step` for the target `d = (0,0)`: the cached node at `(1,0)` goes back to `(0,1)` -/
example (ts : List U64) : ∃ m2, MapPollard.undoDelMoveDown (encP 2 (0, 0) :: ts) mD = MapPollard.undoDelMoveDown ts m2 ∧
    Rep m2 2 (moveDownA (0, 0) (absA mD 2) (absC mD 2)).1 (moveDownA (0, 0) (absA mD 2) (absC mD 2)).2 ∧
    m2.numLeaves = mD.numLeaves ∧ m2.full = mD.full := by
  refine undoDelMoveDown_step (n := 4) (d := (0, 0)) rfl (by decide) rfl (by decide)
    (SpecView.forestRows_le (by decide)) (by decide) (by decide) (by decide) mD_place mD_rep rfl ?_ ts
  intro v hv _
  have : absA mD 2 (parent (0, 0)) = some ⟨20, true⟩ := by decide
  rw [this] at hv
  simp only [Option.some.injEq] at hv
  rw [← hv]

/-- … and the instance is not trivial -/
example : (moveDownA (0, 0) (absA mD 2) (absC mD 2)).1 (0, 1) = some ⟨20, true⟩ ∧
    (moveDownA (0, 0) (absA mD 2) (absC mD 2)).1 (1, 0) = none ∧
    (moveDownA (0, 0) (absA mD 2) (absC mD 2)).2 20 = some (0, 1) := by
  refine ⟨by decide, by decide, by decide⟩

/-- `mP` is also the state after deleting the twin leaves `(0,0)`, `(0,1)` (target `(1,0)` after `deTwin`) of
the full 4-leaf forest: the subtree `(1,1)` moved up to `(2,0)`.  `placeEmptyRoot (1,0)` moves its children back -/
def mQ : MapPollard Nat := (MapPollard.placeEmptyRoot (encP 2 (1, 0)) mP).1

theorem mQ_place : MapPollard.placeEmptyRoot (encP 2 (1, 0)) mP = (mQ, .ok ()) := by
  have h2 : (match (MapPollard.placeEmptyRoot (encP 2 (1, 0)) mP).2 with
      | .ok _ => true | .error _ => false) = true := by decide +kernel
  unfold mQ
  generalize MapPollard.placeEmptyRoot (encP 2 (1, 0)) mP = r at *
  obtain ⟨a, b⟩ := r
  cases b with
  | error _ => simp at h2
  | ok u => rfl

theorem mQ_nodes : mQ.nodes = [(encP 2 (0, 3), ⟨40, false⟩), (encP 2 (0, 2), ⟨30, true⟩), (encP 2 (2, 0), ⟨71, false⟩)] := by
  decide +kernel
theorem mQ_cached : mQ.cached = [(30, encP 2 (0, 2))] := by decide +kernel

theorem mQ_rep : Rep mQ 2 (absA mQ 2) (absC mQ 2) := by
  refine rep_abs (by decide) (by decide +kernel) ?_ ?_
  · intro p l h
    have hm := get?_some_mem (l := mQ.nodes) h
    rw [mQ_nodes] at hm
    simp only [List.mem_cons, Prod.mk.injEq, List.not_mem_nil, or_false] at hm
    rcases hm with ⟨rfl, _⟩ | ⟨rfl, _⟩ | ⟨rfl, _⟩
    · exact ⟨(0, 3), by decide, rfl⟩
    · exact ⟨(0, 2), by decide, rfl⟩
    · exact ⟨(2, 0), by decide, rfl⟩
  · intro x p h
    have hm := get?_some_mem (l := mQ.cached) h
    rw [mQ_cached] at hm
    simp only [List.mem_cons, Prod.mk.injEq, List.not_mem_nil, or_false] at hm
    obtain ⟨_, rfl⟩ := hm
    exact ⟨(0, 2), by decide, rfl⟩

/-- `undoDelMoveDown_step` for the target `d = (1,0)` (row 1: `placeEmptyRoot` really moves the subtree
down), then the node at `(2,0)` goes back to `(1,1)` -/
example (ts : List U64) : ∃ m2, MapPollard.undoDelMoveDown (encP 2 (1, 0) :: ts) mP = MapPollard.undoDelMoveDown ts m2 ∧
    Rep m2 2 (moveDownA (1, 0) (absA mQ 2) (absC mQ 2)).1 (moveDownA (1, 0) (absA mQ 2) (absC mQ 2)).2 ∧
    m2.numLeaves = mQ.numLeaves ∧ m2.full = mQ.full := by
  refine undoDelMoveDown_step (n := 4) (d := (1, 0)) rfl (by decide) rfl (by decide)
    (SpecView.forestRows_le (by decide)) (by decide) (by decide) (by decide) mQ_place mQ_rep (by decide +kernel) ?_ ts
  intro v hv hc
  have h1 : absA mQ 2 (parent (1, 0)) = some ⟨71, false⟩ := by decide +kernel
  have h2 : (absC mQ 2 71).isSome = false := by decide +kernel
  rw [h1] at hv
  simp only [Option.some.injEq] at hv
  rw [← hv, h2] at hc
  cases hc

example : (moveDownA (1, 0) (absA mQ 2) (absC mQ 2)).1 (1, 1) = some ⟨71, false⟩ ∧
    (moveDownA (1, 0) (absA mQ 2) (absC mQ 2)).1 (2, 0) = none ∧
    (moveDownA (1, 0) (absA mQ 2) (absC mQ 2)).1 (0, 2) = some ⟨30, true⟩ := by
  refine ⟨by decide +kernel, by decide +kernel, by decide +kernel⟩

/-- `undoDelMoveDown_root` for the root `(2,0)` of the 4-leaf forest (top row: nothing above) -/
example (ts : List U64) : MapPollard.undoDelMoveDown (encP 2 (2, 0) :: ts) mD = MapPollard.undoDelMoveDown ts mD :=
  undoDelMoveDown_root (n := 4) mD_rep rfl (by decide) (SpecView.forestRows_le (by decide)) (by decide)
    (by intro h; exact absurd h (by decide)) ts

/-- 3 leaves in a 2-row allocation (roots `(1,0)` and `(0,2)`), hash 30 cached at `(0,2)` -/
def mR : MapPollard Nat :=
  { nodes := [(encP 2 (1, 0), ⟨0, false⟩), (encP 2 (0, 2), ⟨30, true⟩)],
    cached := [(30, encP 2 (0, 2))], numLeaves := 3#64, totalRows := H8 2, full := false }

theorem mR_rep : Rep mR 2 (absA mR 2) (absC mR 2) := by
  refine rep_abs (by decide) rfl ?_ ?_
  · intro p l h
    have hm := get?_some_mem (l := mR.nodes) h
    simp only [mR, List.mem_cons, Prod.mk.injEq, List.not_mem_nil, or_false] at hm
    rcases hm with ⟨rfl, _⟩ | ⟨rfl, _⟩
    · exact ⟨(1, 0), by decide, rfl⟩
    · exact ⟨(0, 2), by decide, rfl⟩
  · intro x p h
    have hm := get?_some_mem (l := mR.cached) h
    simp only [mR, List.mem_cons, Prod.mk.injEq, List.not_mem_nil, or_false] at hm
    obtain ⟨_, rfl⟩ := hm
    exact ⟨(0, 2), by decide, rfl⟩

/-- `undoDelMoveDown_root` for the root `(1,0)` of the 3-leaf forest (not the top row: `(2,0)` is not stored) -/
example (ts : List U64) : MapPollard.undoDelMoveDown (encP 2 (1, 0) :: ts) mR = MapPollard.undoDelMoveDown ts mR :=
  undoDelMoveDown_root (n := 3) mR_rep rfl (by decide) (SpecView.forestRows_le (by decide)) (by decide)
    (by intro _; decide) ts

/-- `restoreRoots_rep`: both roots are re-written (`31` uncached, `30` cached) -/
example : ∃ m', MapPollard.restoreRoots [31, 30] ([(1, 0), (0, 2)].map (encP 2)) 0 mR = (m', .ok ()) ∧
    Rep m' 2 (fun q => match ([((1, 0) : Pos), (0, 2)].zip [31, 30]).find? (fun e => e.1 = q) with
      | some e => some ⟨e.2, (absC mR 2 e.2).isSome⟩
      | none => absA mR 2 q) (absC mR 2) ∧
    m'.numLeaves = mR.numLeaves ∧ m'.full = mR.full := by
  obtain ⟨m', e, r, a, b⟩ := restoreRoots_rep mR_rep rfl [(1, 0), (0, 2)] [31, 30]
    (by intro q hq; simp only [List.mem_cons, List.not_mem_nil, or_false] at hq; rcases hq with rfl | rfl <;> decide)
    (by decide) rfl
  -- (the `match` of this example is compiled to its own auxiliary matcher: transport pointwise)
  refine ⟨m', e, r.congr ?_ (fun _ => rfl), a, b⟩
  intro q
  split <;> rename_i h <;> rw [h]

example : restoreA ([((1, 0) : Pos), (0, 2)].zip [31, 30]) (absA mR 2) (absC mR 2) (1, 0) = some ⟨31, false⟩ ∧
    restoreA ([((1, 0) : Pos), (0, 2)].zip [31, 30]) (absA mR 2) (absC mR 2) (0, 2) = some ⟨30, true⟩ := by
  refine ⟨by decide, by decide⟩

end Example

end UtreexoVerif.Proofs.MapUndoRep

section Axioms
open UtreexoVerif.Proofs.MapUndoRep
#print axioms dropNodeM_rep
#print axioms undoSingleAddLoop_last
#print axioms undoSingleAddLoop_skip
#print axioms undoSingleAddLoop_place
#print axioms placeEmptyRoot_frame
#print axioms undoSingleAdd_start
#print axioms undoDelMoveDown_step
#print axioms undoDelMoveDown_root
#print axioms restoreRoots_rep
end Axioms
