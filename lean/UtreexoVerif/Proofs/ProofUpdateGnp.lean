/-
  `getNewPositions` (prove.go), bit level ↔ (row, offset) level (property C07, level 2b).

  The inner loop `gnpMove` of the model, run on encoded positions `E (forestRows n) ·`, is the
  pair-level fold `moveA` of `Proofs/MoveFold.lean` (`gnpMove_enc`); the outer loop `gnpLoop`
  and `getNewPositions` map every entry with a non-empty hash through `moveA` for the tree the
  entry lies in (`gnpLoop_enc`, `getNewPositions_enc`).
-/
import UtreexoVerif.Model.ProofUpdate
import UtreexoVerif.Props.C16b
import UtreexoVerif.Proofs.CalcGeo
import UtreexoVerif.Proofs.MoveFold
import UtreexoVerif.Proofs.Movement
import UtreexoVerif.Proofs.SpecSubs

namespace UtreexoVerif.Proofs.ProofUpdateGnp
open UtreexoVerif UtreexoVerif.GoInt UtreexoVerif.Proofs Spec Model Hasher
open UtreexoVerif.Proofs.CalcGeo UtreexoVerif.Proofs.FinalPos UtreexoVerif.Proofs.CalcComplete
open UtreexoVerif.Proofs.MoveFold UtreexoVerif.Proofs.SpecNodes UtreexoVerif.Proofs.SpecSubs
open UtreexoVerif.Proofs.Movement

theorem bit_of_mem {n R : Nat} (hR : R ∈ treeRows n) : n.testBit R = true :=
  (Spec.mem_treeRows.1 hR).2

/-- every deletion the inner loop may meet is a position of some tree of the forest; in the tree
on row `R` it is not the root -/
def DtOK (n R : Nat) (dt : List Pos) : Prop :=
  ∀ T ∈ dt, ∃ RT, RT ∈ treeRows n ∧ Under RT (2 * (n >>> (RT + 1))) T ∧ (RT = R → T.1 < R)

theorem DtOK.tail {n R : Nat} {T : Pos} {rest : List Pos} (h : DtOK n R (T :: rest)) :
    DtOK n R rest := fun T' hT' => h T' (List.mem_cons_of_mem _ hT')

/-! ### pair level -/

/-- one step keeps the position in its tree -/
theorem liftStep_under {R O : Nat} {c T : Pos} (hu : Under R O c) (hT : T.1 < R)
    (hhit : hitA T c = true) : Under R O (liftStep 0 c T.1) := by
  unfold hitA at hhit
  simp only [decide_eq_true_eq] at hhit
  obtain ⟨h1, h2⟩ := hu
  unfold liftStep
  refine ⟨by simp only; omega, ?_⟩
  simp only [Nat.sub_zero]
  rw [removeBitNat_div (by omega), show R - (c.1 + 1) + 1 = R - c.1 by omega]
  exact h2

/-- the moved position stays in its tree -/
theorem moveA_under {n R : Nat} : ∀ (dt : List Pos) (c : Pos), Under R (2 * (n >>> (R + 1))) c →
    (∀ T ∈ dt, inTree n R T = true → T.1 < R) →
    Under R (2 * (n >>> (R + 1))) (moveA n R dt c) := by
  intro dt
  induction dt with
  | nil => intro c hu _; exact hu
  | cons T rest ih =>
    intro c hu hdt
    unfold moveA
    have hrest : ∀ T' ∈ rest, inTree n R T' = true → T'.1 < R :=
      fun T' hT' => hdt T' (List.mem_cons_of_mem _ hT')
    split
    · rename_i hc
      simp only [Bool.and_eq_true] at hc
      exact ih _ (liftStep_under hu (hdt T List.mem_cons_self hc.1) hc.2) hrest
    · exact ih c hu hrest

/-- a position on the top row of its tree is not moved -/
theorem moveA_top {n R : Nat} : ∀ (dt : List Pos) (c : Pos), c.1 = R →
    (∀ T ∈ dt, inTree n R T = true → T.1 < R) → moveA n R dt c = c := by
  intro dt
  induction dt with
  | nil => intro c _ _; rfl
  | cons T rest ih =>
    intro c hc hdt
    unfold moveA
    have hrest : ∀ T' ∈ rest, inTree n R T' = true → T'.1 < R :=
      fun T' hT' => hdt T' (List.mem_cons_of_mem _ hT')
    split
    · rename_i hcond
      simp only [Bool.and_eq_true] at hcond
      have h1 := hdt T List.mem_cons_self hcond.1
      have h2 := hcond.2
      unfold hitA at h2
      simp only [decide_eq_true_eq] at h2
      omega
    · exact ih c hc hrest

/-- the hypothesis of `moveA_under` from `DtOK` -/
theorem DtOK.lt {n R : Nat} (hR : R ∈ treeRows n) {dt : List Pos} (h : DtOK n R dt) :
    ∀ T ∈ dt, inTree n R T = true → T.1 < R := by
  intro T hT hin
  obtain ⟨RT, hRT, hu, hlt⟩ := h T hT
  have u := (inTree_iff _ _ _).1 hin
  have hb := bit_of_mem hR
  have hbT := bit_of_mem hRT
  apply hlt
  rcases Nat.lt_trichotomy RT R with h1 | h1 | h1
  · exact (under_disjoint h1 hb u hu).elim
  · exact h1
  · exact (under_disjoint h1 hbT hu u).elim

/-! ### bit level: the inner loop -/

theorem under_valid {n R : Nat} (hR : R ∈ treeRows n) {p : Pos}
    (hu : Under R (2 * (n >>> (R + 1))) p) : Valid (forestRows n) p :=
  (under_inF (bit_of_mem hR) hu).valid

/-- a root position of the forest inside the tree on row `R` is the root of that tree -/
theorem root_top {n R : Nat} (hR : R ∈ treeRows n) {c : Pos}
    (hu : Under R (2 * (n >>> (R + 1))) c) (hroot : isRootPos n c = true) : c.1 = R := by
  unfold isRootPos at hroot
  simp only [Bool.and_eq_true, beq_iff_eq] at hroot
  rcases Nat.lt_or_ge c.1 R with hlt | hge
  · exfalso
    refine under_disjoint hlt (bit_of_mem hR) hu ⟨Nat.le_refl _, ?_⟩
    rw [Nat.sub_self, Nat.pow_zero, Nat.div_one]
    exact hroot.2
  · have := hu.1; omega

theorem idx_inj {n R R' : Nat} (hR : R ∈ treeRows n) (hR' : R' ∈ treeRows n)
    (h : BitVec.ofNat 8 ((treeRows n).idxOf R) = BitVec.ofNat 8 ((treeRows n).idxOf R')) :
    R = R' := by
  have h1 := List.idxOf_lt_length_of_mem hR
  have h1' := List.idxOf_lt_length_of_mem hR'
  have h2 : (treeRows n).length ≤ 65 := by
    rw [Spec.treeRows_length]
    exact Nat.le_trans List.countP_le_length (by simp)
  have := congrArg BitVec.toNat h
  rw [BitVec.toNat_ofNat, BitVec.toNat_ofNat, Nat.mod_eq_of_lt (by omega),
    Nat.mod_eq_of_lt (by omega)] at this
  have e := List.getElem_idxOf h1
  have e' := List.getElem_idxOf h1'
  rw [← e, ← e']
  simp only [this]

section
variable {n : Nat} (hn : n ≤ 2 ^ 63)
include hn

/-- the tree index `DetectOffset` reports for a position of the tree on row `R` -/
theorem detect_fst {R : Nat} (hR : R ∈ treeRows n) {p : Pos}
    (hu : Under R (2 * (n >>> (R + 1))) p) :
    (DetectOffset (E (forestRows n) p) (BitVec.ofNat 64 n)).1 =
      BitVec.ofNat 8 ((treeRows n).idxOf R) := by
  have hv := under_valid hR hu
  have hN := N_toNat hn
  unfold E
  rw [Props.C16.detectOffset_enc (R := R) (BitVec.ofNat 64 n) (treeRows_eq' hn) (rows_le_63 hn)
    hu.1 hv.2 (by rw [hN]; exact bit_of_mem hR) (by rw [hN]; exact hu.2), hN]

end

/-- the inner loop of `getNewPositions`, for ANY value of the (possibly stale) `row` argument -/
theorem gnpMove_enc {n R : Nat} (hn : n ≤ 2 ^ 63) (hR : R ∈ treeRows n) (row : U8) :
    ∀ (dt : List Pos) (c : Pos), Under R (2 * (n >>> (R + 1))) c → DtOK n R dt →
      Model.gnpMove (BitVec.ofNat 64 n) (H8 (forestRows n)) row (dt.map (E (forestRows n)))
          (E (forestRows n) c) = E (forestRows n) (moveA n R dt c) := by
  have hrows := rows_le_63 hn
  have hT := treeRows_eq' hn
  have hN := N_toNat hn
  intro dt
  induction dt with
  | nil => intro c _ _; rfl
  | cons T rest ih =>
    intro c hu hdt
    have hvc := under_valid hR hu
    have hlt := hdt.lt hR
    rw [List.map_cons]
    unfold gnpMove
    have hroot : isRootPositionOnRow (E (forestRows n) c) (BitVec.ofNat 64 n) row =
        (decide (row.toNat = c.1) && isRootPos n c) := by
      have := Props.C16.isRootPositionOnRow_enc (BitVec.ofNat 64 n) row hT hrows hvc.1 hvc.2
      rw [hN] at this
      exact this
    rw [hroot]
    split
    · -- `break`: `c` is the root of its tree
      rename_i hc
      simp only [Bool.and_eq_true] at hc
      rw [moveA_top (T :: rest) c (root_top hR hu hc.2) hlt]
    · obtain ⟨RT, hRT, huT, hRTlt⟩ := hdt T List.mem_cons_self
      have hvT := under_valid hRT huT
      simp only [detect_fst hn hRT huT, detect_fst hn hR hu]
      unfold moveA
      by_cases hRR : RT = R
      · subst hRR
        have hTlt := hRTlt rfl
        have hTrows : T.1 < forestRows n := Nat.lt_of_lt_of_le hTlt (under_valid hRT (Under.self _ _)).1
        have hin : inTree n RT T = true := (inTree_iff _ _ _).2 huT
        have hpv := parent_valid hvT hTrows
        have hanc : isAncestor (Parent (E (forestRows n) T) (H8 (forestRows n)))
            (E (forestRows n) c) (H8 (forestRows n)) = hitA T c := by
          rw [parent_E hrows hvT hTrows]
          unfold E
          rw [Props.C16.isAncestor_enc hrows hvc.1 hvc.2 hpv.1 hpv.2]
          unfold hitA
          simp only [parent_fst, parent_snd]
          congr 1
          apply propext
          constructor
          · rintro ⟨h1, h2⟩; exact ⟨by omega, h2⟩
          · rintro ⟨h1, h2⟩; exact ⟨by omega, h2⟩
        simp only [bne_self_eq_false, Bool.false_eq_true, if_false, hanc, hin, Bool.true_and]
        split
        · rename_i hhit
          have hcT : c.1 ≤ T.1 := by
            unfold hitA at hhit
            simp only [decide_eq_true_eq] at hhit
            exact hhit.1
          have hnext : (calcNextPosition (E (forestRows n) c) (E (forestRows n) T)
              (H8 (forestRows n))).1 = E (forestRows n) (liftStep 0 c T.1) := by
            unfold E
            rw [Props.C16.calcNextPosition_enc hrows hcT hTrows hvc.2 hvT.2]
            simp only [liftStep, Nat.sub_zero]
            rfl
          rw [hnext]
          exact ih _ (liftStep_under hu hTlt hhit) hdt.tail
        · exact ih c hu hdt.tail
      · have hin : inTree n R T = false := by
          cases h : inTree n R T
          · rfl
          · exfalso
            have u := (inTree_iff _ _ _).1 h
            rcases Nat.lt_or_gt_of_ne hRR with h1 | h1
            · exact under_disjoint h1 (bit_of_mem hR) u huT
            · exact under_disjoint h1 (bit_of_mem hRT) huT u
        have hne : (BitVec.ofNat 8 ((treeRows n).idxOf RT) != BitVec.ofNat 8 ((treeRows n).idxOf R)) = true := by
          rw [bne_iff_ne]
          exact fun h => hRR (idx_inj hRT hR h)
        simp only [hne, if_true, hin, Bool.false_and, Bool.false_eq_true, if_false]
        exact ih c hu hdt.tail

/-! ### the row cursor -/

/-- the row cursor never runs past the top row on valid positions -/
theorem gnpRow_le {rows : Nat} (hr : rows ≤ 63) {p : Pos} (hp : Valid rows p) (fuel : Nat) (row : U8)
    (hrow : row.toNat ≤ rows) : (Model.gnpRow (H8 rows) (E rows p) fuel row).toNat ≤ rows := by
  induction fuel generalizing row with
  | zero => exact hrow
  | succ fuel ih =>
    unfold gnpRow
    split
    · rename_i hc
      simp only [Bool.and_eq_true, decide_eq_true_eq] at hc
      rcases Nat.lt_or_ge row.toNat rows with hlt | hge
      · apply ih
        rw [BitVec.toNat_add]
        simp
        omega
      · exfalso
        have hre : row = H8 rows := by
          apply BitVec.eq_of_toNat_eq
          rw [toNat_H8 hr]; omega
        have hmax := Props.C16.maxPossiblePosAtRow_enc hr (Nat.le_refl rows)
        rw [Nat.sub_self, Nat.pow_zero, Nat.sub_self] at hmax
        have h1 := hc.1
        rw [hre, hmax] at h1
        have hv0 : Valid rows (rows, 0) := ⟨Nat.le_refl _, by simp⟩
        have := (E_lt_iff hr hv0 hp).1 h1
        have h2 := hp.2
        rcases this with h | ⟨h, h'⟩
        · have := hp.1; simp only at h; omega
        · simp only at h h'
          rw [← h, Nat.sub_self, Nat.pow_zero] at h2
          omega
    · exact hrow

/-! ### the outer loop -/

section
variable {H : Type} [DecidableEq H] [Hasher H]

theorem gnpLoop_enc {n : Nat} (hn : n ≤ 2 ^ 63) (dt : List Pos) (appendRoots : Bool) :
    ∀ (L : List (Pos × H)) (row : U8) (acc : Model.HP H), row.toNat ≤ forestRows n →
      (∀ x ∈ L, x.2 ≠ zero → ∃ R, R ∈ treeRows n ∧ Under R (2 * (n >>> (R + 1))) x.1 ∧ DtOK n R dt) →
      (appendRoots = true ∨
        ∀ x ∈ L, x.2 ≠ zero → isRootPos n (moveA n (treeRowOf n x.1) dt x.1) = false) →
      Model.gnpLoop (dt.map (E (forestRows n))) (BitVec.ofNat 64 n) (H8 (forestRows n)) appendRoots
          (L.map (fun x => (E (forestRows n) x.1, x.2))) row acc =
        acc ++ (L.filter (fun x => decide (x.2 ≠ zero))).map
          (fun x => (E (forestRows n) (moveA n (treeRowOf n x.1) dt x.1), x.2)) := by
  have hrows := rows_le_63 hn
  have hT := treeRows_eq' hn
  have hN := N_toNat hn
  intro L
  induction L with
  | nil => intro row acc _ _ _; simp [gnpLoop]
  | cons x L ih =>
    intro row acc hrow hL hroot
    have hL' : ∀ y ∈ L, y.2 ≠ zero →
        ∃ R, R ∈ treeRows n ∧ Under R (2 * (n >>> (R + 1))) y.1 ∧ DtOK n R dt :=
      fun y hy => hL y (List.mem_cons_of_mem _ hy)
    have hroot' : appendRoots = true ∨
        ∀ y ∈ L, y.2 ≠ zero → isRootPos n (moveA n (treeRowOf n y.1) dt y.1) = false := by
      rcases hroot with h | h
      · exact Or.inl h
      · exact Or.inr (fun y hy => h y (List.mem_cons_of_mem _ hy))
    rw [List.map_cons]
    unfold gnpLoop
    by_cases hz : x.2 = zero
    · rw [if_pos hz, List.filter_cons_of_neg (by simp [hz])]
      exact ih row acc hrow hL' hroot'
    · rw [if_neg hz, List.filter_cons_of_pos (by simp [hz]), List.map_cons]
      obtain ⟨R, hR, hu, hdt⟩ := hL x List.mem_cons_self hz
      have hvx := under_valid hR hu
      have hrow' := gnpRow_le hrows hvx 300 row hrow
      have hgt : ¬ gnpRow (H8 (forestRows n)) (E (forestRows n) x.1) 300 row > H8 (forestRows n) := by
        rw [gt_iff_lt, BitVec.lt_def, toNat_H8 hrows]; omega
      simp only [hgt, if_false]
      rw [gnpMove_enc hn hR _ dt x.1 hu hdt, treeRowOf_under hR hu]
      have happ : ∀ (a : U64 × H) (l : List (U64 × H)), acc ++ a :: l = (acc ++ [a]) ++ l := by
        intro a l; simp
      rcases hroot with h | h
      · subst h
        simp only [if_true]
        rw [ih _ _ hrow' hL' hroot', ← happ]
      · have hfalse : appendRoots = false ∨ appendRoots = true := by cases appendRoots <;> simp
        have hu' := moveA_under dt x.1 hu (hdt.lt hR)
        have hv' := under_valid hR hu'
        have hnr : isRootPositionOnRow (E (forestRows n) (moveA n R dt x.1)) (BitVec.ofNat 64 n)
            (gnpRow (H8 (forestRows n)) (E (forestRows n) x.1) 300 row) = false := by
          have := Props.C16.isRootPositionOnRow_enc (BitVec.ofNat 64 n)
            (gnpRow (H8 (forestRows n)) (E (forestRows n) x.1) 300 row) hT hrows hv'.1 hv'.2
          rw [hN] at this
          rw [show E (forestRows n) (moveA n R dt x.1) = encU (forestRows n) (moveA n R dt x.1).1
            (moveA n R dt x.1).2 from rfl, this]
          have h0 := h x List.mem_cons_self hz
          rw [treeRowOf_under hR hu] at h0
          rw [h0, Bool.and_false]
        simp only [hnr, Bool.not_false, if_true]
        split <;> rw [ih _ _ hrow' hL' hroot', ← happ]

theorem getNewPositions_enc {n : Nat} (hn : n ≤ 2 ^ 63) (dt : List Pos) (appendRoots : Bool)
    (L : List (Pos × H))
    (hL : ∀ x ∈ L, x.2 ≠ zero → ∃ R, R ∈ treeRows n ∧ Under R (2 * (n >>> (R + 1))) x.1 ∧ DtOK n R dt)
    (hroot : appendRoots = true ∨
        ∀ x ∈ L, x.2 ≠ zero → isRootPos n (moveA n (treeRowOf n x.1) dt x.1) = false) :
    Model.getNewPositions (dt.map (E (forestRows n))) (L.map (fun x => (E (forestRows n) x.1, x.2)))
        (BitVec.ofNat 64 n) appendRoots =
      Model.sortHP ((L.filter (fun x => decide (x.2 ≠ zero))).map
        (fun x => (E (forestRows n) (moveA n (treeRowOf n x.1) dt x.1), x.2))) := by
  unfold getNewPositions
  rw [treeRows_eq' hn, gnpLoop_enc hn dt appendRoots L 0#8 [] (by simp) hL hroot, List.nil_append]

end

/-! ### non-vacuity: 8 leaves, the node `(1,1)` (leaves 2, 3) is deleted

The sibling `(1,0)` moves up to `(2,0)`, its children `(0,0)`, `(0,1)` to `(1,0)`, `(1,1)`.
Encoded in 3 rows: `(0,0) ↦ 0`, `(0,1) ↦ 1`, `(1,0) ↦ 8`, `(1,1) ↦ 9`, `(2,0) ↦ 12`. -/

section examples

example : forestRows 8 = 3 ∧ treeRows 8 = [3] := by decide +kernel
example : moveA 8 3 [(1, 1)] (0, 1) = (1, 1) := by decide +kernel
example : E 3 (0, 1) = 1#64 ∧ E 3 (1, 1) = 9#64 ∧ E 3 (1, 0) = 8#64 ∧ E 3 (2, 0) = 12#64 := by
  decide +kernel

private theorem ex_under (p : Pos) (hp : p = (0, 0) ∨ p = (0, 1) ∨ p = (1, 0) ∨ p = (1, 1)) :
    Under 3 (2 * (8 >>> (3 + 1))) p := by
  unfold Under
  rcases hp with rfl | rfl | rfl | rfl <;> decide

private theorem ex_dtok : DtOK 8 3 [(1, 1)] := by
  intro T hT
  rw [List.mem_singleton] at hT
  subst hT
  exact ⟨3, by decide +kernel, ex_under _ (by simp), fun _ => by decide⟩

/-- the hypotheses of `gnpMove_enc` hold on the instance, and its conclusion is the concrete
run of the model (with a stale `row = 2`, too) -/
example : Model.gnpMove 8#64 3#8 0#8 [9#64] 1#64 = 9#64 ∧
    Model.gnpMove 8#64 3#8 2#8 [9#64] 1#64 = 9#64 := by decide +kernel

example (row : U8) : Model.gnpMove (BitVec.ofNat 64 8) (H8 (forestRows 8)) row
    ([(1, 1)].map (E (forestRows 8))) (E (forestRows 8) (0, 1)) =
    E (forestRows 8) (moveA 8 3 [(1, 1)] (0, 1)) :=
  gnpMove_enc (by decide) (by decide +kernel) row _ _ (ex_under _ (by simp)) ex_dtok

private inductive Hx | z | a | b
  deriving DecidableEq

private instance : Hasher Hx := ⟨fun _ _ => Hx.a, Hx.z⟩

private def exL : List (Pos × Hx) := [((0, 0), .a), ((0, 1), .z), ((0, 1), .b), ((1, 0), .b)]

/-- the model on the instance: the entry with the empty hash is dropped, the others move -/
example : Model.getNewPositions [9#64] [(0#64, Hx.a), (1#64, Hx.z), (1#64, Hx.b), (8#64, Hx.b)]
    8#64 false = [(8#64, Hx.a), (9#64, Hx.b), (12#64, Hx.b)] := by decide +kernel

/-- `getNewPositions_enc` applies to it (`appendRoots = false`: no moved position is a root) -/
example : Model.getNewPositions ([(1, 1)].map (E (forestRows 8)))
      (exL.map (fun x => (E (forestRows 8) x.1, x.2))) (BitVec.ofNat 64 8) false =
    Model.sortHP ((exL.filter (fun x => decide (x.2 ≠ zero))).map
      (fun x => (E (forestRows 8) (moveA 8 (treeRowOf 8 x.1) [(1, 1)] x.1), x.2))) := by
  apply getNewPositions_enc (by decide)
  · intro x hx _
    refine ⟨3, by decide +kernel, ex_under _ ?_, ex_dtok⟩
    simp only [exL, List.mem_cons, List.not_mem_nil, or_false] at hx
    rcases hx with rfl | rfl | rfl | rfl <;> simp
  · right
    intro x hx _
    simp only [exL, List.mem_cons, List.not_mem_nil, or_false] at hx
    rcases hx with rfl | rfl | rfl | rfl <;> decide +kernel

end examples

end UtreexoVerif.Proofs.ProofUpdateGnp
