/-
  C15: the backwards loop of `genTTLs` produces exactly the lifetime tables of the history,
  GIVEN what the tracker has recorded (`SchedIface.TrackerOK`) and what one call of
  `getPrevPos` does (`SchedIface.StepOK`).

  Levels: list lemmas (`genSetTTLs`, `genRemoveCreated`, `sortInt`, `createdOf`); the pending
  list `pend h i` (the slots the loop tracks when it is about to process block `i - 1`); one
  step; the loop; the wrapper `Tracker.genTTLsWith`.
-/
import UtreexoVerif.Proofs.SchedIface
import UtreexoVerif.Proofs.SchedOracle

namespace UtreexoVerif.Proofs.SchedGen
open UtreexoVerif Spec Spec.Sched Model
open UtreexoVerif.Proofs UtreexoVerif.Proofs.SchedSem UtreexoVerif.Proofs.CalcGeo
open UtreexoVerif.Proofs.SchedUndoAdd UtreexoVerif.Proofs.SchedLives
open UtreexoVerif.Proofs.SchedIface UtreexoVerif.Proofs.SchedOracle UtreexoVerif.Props.C15

-- ---------------------------------------------------------------- indexing

theorem idx_of_getElem? {α} {l : List α} {i : Nat} {a : α} (h : l[i]? = some a) : Out.idx l i = .ok a := by
  unfold Out.idx; rw [h]

theorem idxInt_natCast {α} (l : List α) (i : Nat) : idxInt l (i : Int) = Out.idx l i := by
  unfold idxInt
  rw [if_neg (by omega)]
  rfl

theorem getElem?_map_idxOf {α} (f : Nat → α) {P : List Nat} {s : Nat} (hs : s ∈ P) :
    (P.map f)[P.idxOf s]? = some (f s) := by
  have hlt : P.idxOf s < P.length := List.idxOf_lt_length_iff.mpr hs
  rw [List.getElem?_map, List.getElem?_eq_getElem hlt, List.getElem_idxOf hlt]
  rfl

/-- reading `P.map f` at the index of `s` -/
theorem idxInt_map_idxOf {α} (f : Nat → α) {P : List Nat} {s : Nat} (hs : s ∈ P) :
    idxInt (P.map f) ((P.idxOf s : Nat) : Int) = .ok (f s) := by
  rw [idxInt_natCast]
  exact idx_of_getElem? (getElem?_map_idxOf f hs)

-- ---------------------------------------------------------------- `genSetTTLs`

/-- "Set ttls" on lists of the form `P.map f`, `P.map g` and indexes of slots of `P` -/
theorem genSetTTLs_map (t : Nat) (f : Nat → U64) (g : Nat → Int × Int) (P : List Nat) :
    ∀ (L : List Nat) (acc : List TTLInfo), (∀ s ∈ L, s ∈ P) →
      genSetTTLs t (P.map f) (P.map g) (L.map fun s => ((P.idxOf s : Nat) : Int)) acc =
        .ok (acc ++ L.map fun s => { pos := f s, ttl := (g s).1 - (t : Int) }) := by
  intro L
  induction L with
  | nil => intro acc _; simp [genSetTTLs]
  | cons s L ih =>
    intro acc hL
    have hs : s ∈ P := hL s (by simp)
    rw [List.map_cons, genSetTTLs, idxInt_map_idxOf g hs]
    simp only [bind, Out.bind]
    rw [idxInt_map_idxOf f hs]
    simp only
    rw [ih _ (fun x hx => hL x (by simp [hx]))]
    simp

-- ---------------------------------------------------------------- `genRemoveCreated`

/-- the indexes (counted from `off`) of the elements of `R` that satisfy `c`, ascending -/
def idxsFrom (c : Nat → Bool) : Nat → List Nat → List Int
  | _, [] => []
  | off, s :: R => (if c s then [((off : Nat) : Int)] else []) ++ idxsFrom c (off + 1) R

theorem idxsFrom_ge (c : Nat → Bool) : ∀ (R : List Nat) (off : Nat), ∀ x ∈ idxsFrom c off R, (off : Int) ≤ x := by
  intro R
  induction R with
  | nil => intro off x hx; simp [idxsFrom] at hx
  | cons s R ih =>
    intro off x hx
    rw [idxsFrom, List.mem_append] at hx
    rcases hx with hx | hx
    · split at hx
      · simp at hx; omega
      · simp at hx
    · have := ih (off + 1) x hx
      omega

theorem idxsFrom_sorted (c : Nat → Bool) : ∀ (R : List Nat) (off : Nat), (idxsFrom c off R).Pairwise (· < ·) := by
  intro R
  induction R with
  | nil => intro off; simp [idxsFrom]
  | cons s R ih =>
    intro off
    rw [idxsFrom]
    split
    · rw [List.singleton_append, List.pairwise_cons]
      refine ⟨fun x hx => ?_, ih _⟩
      have := idxsFrom_ge c R (off + 1) x hx
      omega
    · simpa using ih (off + 1)

theorem idxsFrom_eq (c : Nat → Bool) : ∀ (R : List Nat) (off : Nat), R.Nodup →
    idxsFrom c off R = (R.filter c).map fun s => (((off + R.idxOf s : Nat)) : Int) := by
  intro R
  induction R with
  | nil => intro off _; simp [idxsFrom]
  | cons s R ih =>
    intro off hnd
    obtain ⟨hs, hnd'⟩ := List.nodup_cons.mp hnd
    rw [idxsFrom, ih (off + 1) hnd', List.filter_cons]
    have htail : (R.filter c).map (fun x => (((off + 1 + R.idxOf x : Nat)) : Int)) =
        (R.filter c).map (fun x => (((off + (s :: R).idxOf x : Nat)) : Int)) := by
      apply List.map_congr_left
      intro x hx
      have hxR : x ∈ R := (List.mem_filter.mp hx).1
      have hne : (s == x) = false := by
        rw [beq_eq_false_iff_ne]; rintro rfl; exact hs hxR
      rw [List.idxOf_cons, hne]
      simp only [cond_false]
      congr 1
      omega
    rw [htail]
    split
    · simp [List.idxOf_cons]
    · simp

theorem deleteAt_append_mid {α} (A : List α) (x : α) (R : List α) :
    deleteAt (A ++ x :: R) ((A.length : Nat) : Int) = .ok (A ++ R) := by
  unfold deleteAt
  rw [if_neg (by omega)]
  simp only [Int.toNat_natCast, List.length_append, List.length_cons]
  rw [if_pos (by omega), List.eraseIdx_append_of_length_le (Nat.le_refl _)]
  simp

/-- "Remove the created positions": removing the (ascending) indexes of the elements that
satisfy `c`, one at a time at `idx - k`, filters them out of both lists -/
theorem genRemoveCreated_aux (c : Nat → Bool) (f : Nat → U64) (g : Nat → Int × Int) :
    ∀ (R : List Nat) (A : List U64) (B : List (Int × Int)) (k off : Nat), A.length = B.length →
      off = A.length + k →
      genRemoveCreated (idxsFrom c off R) (k : Int) (A ++ R.map f) (B ++ R.map g) =
        .ok (A ++ (R.filter fun s => !c s).map f, B ++ (R.filter fun s => !c s).map g) := by
  intro R
  induction R with
  | nil => intro A B k off _ _; simp [idxsFrom, genRemoveCreated]
  | cons s R ih =>
    intro A B k off hAB hoff
    rw [idxsFrom]
    cases hc : c s with
    | true =>
      simp only [if_true, List.singleton_append, List.map_cons]
      rw [genRemoveCreated]
      have huse : ((off : Nat) : Int) - (k : Int) = ((A.length : Nat) : Int) := by omega
      rw [huse, deleteAt_append_mid]
      simp only [bind, Out.bind]
      rw [hAB, deleteAt_append_mid]
      simp only
      have := ih A B (k + 1) (off + 1) hAB (by omega)
      rw [List.filter_cons]
      simp only [hc, Bool.not_true, Bool.false_eq_true, if_false]
      exact_mod_cast this
    | false =>
      simp only [Bool.false_eq_true, if_false, List.nil_append, List.map_cons]
      have := ih (A ++ [f s]) (B ++ [g s]) k (off + 1) (by simp [hAB]) (by simp; omega)
      rw [List.filter_cons]
      simp only [hc, Bool.not_false, if_true, List.map_cons]
      simpa using this

theorem genRemoveCreated_map (c : Nat → Bool) (f : Nat → U64) (g : Nat → Int × Int) (P : List Nat) :
    genRemoveCreated (idxsFrom c 0 P) 0 (P.map f) (P.map g) =
      .ok ((P.filter fun s => !c s).map f, (P.filter fun s => !c s).map g) := by
  have := genRemoveCreated_aux c f g P [] [] 0 0 rfl rfl
  simpa using this

-- ---------------------------------------------------------------- `sortInt`

theorem insertInt_perm (x : Int) : ∀ l : List Int, (insertInt x l).Perm (x :: l) := by
  intro l
  induction l with
  | nil => simp [insertInt]
  | cons y ys ih =>
    unfold insertInt
    split
    · exact List.Perm.refl _
    · exact (List.Perm.cons y ih).trans (List.Perm.swap x y ys)

theorem insertInt_sorted (x : Int) : ∀ l : List Int, l.Pairwise (· ≤ ·) → (insertInt x l).Pairwise (· ≤ ·) := by
  intro l
  induction l with
  | nil => intro _; simp [insertInt]
  | cons y ys ih =>
    intro hp
    obtain ⟨h1, h2⟩ := List.pairwise_cons.mp hp
    unfold insertInt
    split
    · rename_i hxy
      refine List.pairwise_cons.mpr ⟨fun z hz => ?_, hp⟩
      rcases List.mem_cons.mp hz with rfl | hz
      · omega
      · have := h1 z hz; omega
    · rename_i hxy
      refine List.pairwise_cons.mpr ⟨fun z hz => ?_, ih h2⟩
      rcases List.mem_cons.mp ((insertInt_perm x ys).mem_iff.mp hz) with rfl | hz
      · omega
      · exact h1 z hz

theorem sortInt_fold (l : List Int) : ∀ acc : List Int, acc.Pairwise (· ≤ ·) →
    (l.foldl (fun acc x => insertInt x acc) acc).Perm (acc ++ l) ∧
      (l.foldl (fun acc x => insertInt x acc) acc).Pairwise (· ≤ ·) := by
  induction l with
  | nil => intro acc h; simpa using h
  | cons x l ih =>
    intro acc h
    obtain ⟨h1, h2⟩ := ih (insertInt x acc) (insertInt_sorted x acc h)
    refine ⟨h1.trans ?_, h2⟩
    refine ((insertInt_perm x acc).append_right l).trans ?_
    simp only [List.cons_append]
    exact (List.perm_middle (l₁ := acc) (a := x) (l₂ := l)).symm

theorem sortInt_perm (l : List Int) : (sortInt l).Perm l := by
  have := (sortInt_fold l [] List.Pairwise.nil).1
  simpa [sortInt] using this

theorem sortInt_sorted (l : List Int) : (sortInt l).Pairwise (· ≤ ·) :=
  (sortInt_fold l [] List.Pairwise.nil).2

/-- a strictly ascending list is what `sortInt` makes of any of its permutations -/
theorem sortInt_eq_of_perm {l s : List Int} (hs : s.Pairwise (· < ·)) (hp : l.Perm s) : sortInt l = s := by
  refine List.Perm.eq_of_pairwise (le := (· ≤ ·)) (fun a b _ _ h1 h2 => by omega) (sortInt_sorted l)
    (hs.imp (fun h => by omega)) ((sortInt_perm l).trans hp)

-- ---------------------------------------------------------------- `createdOf`

/-- the tracked slots among `n … n + k - 1`, descending (the order in which `undoAdd` reports them) -/
def createdSlots (n : Nat) (P : List Nat) : Nat → List Nat
  | 0 => []
  | j+1 => (if n + j ∈ P then [n + j] else []) ++ createdSlots n P j

theorem createdOf_eq (n : Nat) (P : List Nat) : ∀ k : Nat,
    createdOf n P k = (createdSlots n P k).map fun s => ((P.idxOf s : Nat) : Int) := by
  intro k
  induction k with
  | zero => rfl
  | succ j ih =>
    rw [createdOf, createdSlots, ih]
    split <;> simp

theorem mem_createdSlots (n : Nat) (P : List Nat) : ∀ (k s : Nat),
    s ∈ createdSlots n P k ↔ s ∈ P ∧ n ≤ s ∧ s < n + k := by
  intro k
  induction k with
  | zero => intro s; simp [createdSlots]
  | succ j ih =>
    intro s
    rw [createdSlots, List.mem_append, ih]
    by_cases hm : n + j ∈ P
    · rw [if_pos hm, List.mem_singleton]
      constructor
      · rintro (rfl | ⟨h1, h2, h3⟩)
        · exact ⟨hm, by omega, by omega⟩
        · exact ⟨h1, h2, by omega⟩
      · rintro ⟨h1, h2, h3⟩
        by_cases hs : s = n + j
        · exact Or.inl hs
        · exact Or.inr ⟨h1, h2, by omega⟩
    · rw [if_neg hm]
      constructor
      · rintro (h | ⟨h1, h2, h3⟩)
        · simp at h
        · exact ⟨h1, h2, by omega⟩
      · rintro ⟨h1, h2, h3⟩
        refine Or.inr ⟨h1, h2, ?_⟩
        by_cases hs : s = n + j
        · subst hs; exact absurd h1 hm
        · omega

theorem createdSlots_nodup (n : Nat) (P : List Nat) : ∀ k : Nat, (createdSlots n P k).Nodup := by
  intro k
  induction k with
  | zero => simp [createdSlots]
  | succ j ih =>
    rw [createdSlots]
    split
    · rw [List.singleton_append, List.nodup_cons]
      refine ⟨fun hm => ?_, ih⟩
      have := ((mem_createdSlots n P j (n + j)).mp hm).2.2
      omega
    · simpa using ih

/-- the created slots in ascending order (the order in which "Set ttls" visits them) -/
theorem createdSlots_reverse (n : Nat) (P : List Nat) : ∀ k : Nat,
    (createdSlots n P k).reverse = ((List.range k).filter fun j => decide (n + j ∈ P)).map (n + ·) := by
  intro k
  induction k with
  | zero => rfl
  | succ j ih =>
    rw [createdSlots, List.reverse_append, ih, List.range_succ, List.filter_append, List.map_append]
    congr 1
    by_cases hm : n + j ∈ P
    · simp [hm]
    · simp [hm]

/-- the sorted created indexes are the indexes of the slots `≥ n` of `P` -/
theorem sortInt_createdOf (n k : Nat) {P : List Nat} (hnd : P.Nodup) (hlt : ∀ s ∈ P, s < n + k) :
    sortInt (createdOf n P k) = idxsFrom (fun s => decide (n ≤ s)) 0 P := by
  apply sortInt_eq_of_perm (idxsFrom_sorted _ _ _)
  rw [createdOf_eq, idxsFrom_eq _ _ _ hnd]
  have hperm : (createdSlots n P k).Perm (P.filter fun s => decide (n ≤ s)) := by
    rw [List.perm_ext_iff_of_nodup (createdSlots_nodup n P k) (hnd.filter _)]
    intro s
    rw [mem_createdSlots, List.mem_filter, decide_eq_true_eq]
    constructor
    · rintro ⟨h1, h2, _⟩; exact ⟨h1, h2⟩
    · rintro ⟨h1, h2⟩; exact ⟨h1, h2, hlt s h1⟩
  have := hperm.map (fun s => ((P.idxOf s : Nat) : Int))
  simpa using this

-- ---------------------------------------------------------------- the pending slots

/-- `pendAux h (h.drop i) i` -/
def pendAux (h : History) : List Block → Nat → List Nat
  | [], _ => []
  | b :: bs, i => (pendAux h bs (i + 1)).filter (fun s => decide (s < (stateAt h i).length)) ++ b.delSlots

/-- the slots that the loop of `genTTLs` tracks when it is about to process block `i - 1`:
the slots deleted by the blocks `d ≥ i` that exist before block `i`; blocks in descending
order, inside a block in the order of its deletions -/
def pend (h : History) (i : Nat) : List Nat := pendAux h (h.drop i) i

theorem pend_length (h : History) : pend h h.length = [] := by
  unfold pend
  rw [List.drop_length]
  rfl

theorem pend_succ {h : History} {i : Nat} {b : Block} (hb : h[i]? = some b) :
    pend h i = (pend h (i + 1)).filter (fun s => decide (s < (stateAt h i).length)) ++ b.delSlots := by
  obtain ⟨hi, rfl⟩ := List.getElem?_eq_some_iff.mp hb
  unfold pend
  rw [List.drop_eq_getElem_cons hi]
  rfl

theorem stateAt_length_mono (h : History) {t t' : Nat} (htt : t ≤ t') :
    (stateAt h t).length ≤ (stateAt h t').length := by
  rw [stateAt_length_pre, stateAt_length_pre]
  exact pre_mono h htt

/-- what is known of `pend h i` -/
structure PendOK (h : History) (i : Nat) : Prop where
  nodup : (pend h i).Nodup
  live : ∀ s ∈ pend h i, Live (stateAt h i) s
  del : ∀ s ∈ pend h i, ∃ d b, i ≤ d ∧ h[d]? = some b ∧ s ∈ b.delSlots
  compl : ∀ (d : Nat) (b : Block) (s : Nat), i ≤ d → h[d]? = some b → s ∈ b.delSlots →
    s < (stateAt h i).length → s ∈ pend h i

theorem pendOK_aux {h : History} (hw : wellFormed h = true) : ∀ (k i : Nat), i + k = h.length → PendOK h i := by
  intro k
  induction k with
  | zero =>
    intro i hi
    have : i = h.length := by omega
    subst this
    refine ⟨?_, ?_, ?_, ?_⟩
    · rw [pend_length]; exact List.nodup_nil
    · intro s hs; rw [pend_length] at hs; cases hs
    · intro s hs; rw [pend_length] at hs; cases hs
    · intro d b s hd hb
      have := (List.getElem?_eq_some_iff.mp hb).1
      omega
  | succ k ih =>
    intro i hi
    have hlt : i < h.length := by omega
    have hb : h[i]? = some h[i] := List.getElem?_eq_getElem hlt
    generalize h[i] = b at hb
    have IH := ih (i + 1) (by omega)
    obtain ⟨hDnd, hDlive⟩ := wf_dels hw hb
    have hmem : ∀ s, s ∈ pend h i ↔
        (s ∈ pend h (i + 1) ∧ s < (stateAt h i).length) ∨ s ∈ b.delSlots := by
      intro s
      rw [pend_succ hb, List.mem_append, List.mem_filter, decide_eq_true_eq]
    -- a slot pending at `i + 1` that exists before block `i` is live there and not deleted by block `i`
    have hold : ∀ s, s ∈ pend h (i + 1) → s < (stateAt h i).length →
        Live (stateAt h i) s ∧ s ∉ b.delSlots := by
      intro s hs hsl
      rcases (live_succ hb s).mp (IH.live s hs) with h1 | h1
      · exact h1
      · omega
    refine ⟨?_, ?_, ?_, ?_⟩
    · rw [pend_succ hb, List.nodup_append]
      refine ⟨IH.nodup.filter _, hDnd, ?_⟩
      intro a ha c hc hac
      subst hac
      obtain ⟨ha1, ha2⟩ := List.mem_filter.mp ha
      exact (hold a ha1 (by simpa using ha2)).2 hc
    · intro s hs
      rcases (hmem s).mp hs with ⟨h1, h2⟩ | h1
      · exact (hold s h1 h2).1
      · exact hDlive s h1
    · intro s hs
      rcases (hmem s).mp hs with ⟨h1, _⟩ | h1
      · obtain ⟨d, b', hd, hb', hs'⟩ := IH.del s h1
        exact ⟨d, b', by omega, hb', hs'⟩
      · exact ⟨i, b, Nat.le_refl _, hb, h1⟩
    · intro d b' s hd hb' hs hsl
      rw [hmem]
      by_cases hdi : d = i
      · subst hdi
        rw [hb] at hb'
        cases hb'
        exact Or.inr hs
      · refine Or.inl ⟨IH.compl d b' s (by omega) hb' hs ?_, hsl⟩
        have := stateAt_length_mono h (show i ≤ i + 1 by omega)
        omega

theorem pendOK {h : History} (hw : wellFormed h = true) {i : Nat} (hi : i ≤ h.length) : PendOK h i :=
  pendOK_aux hw (h.length - i) i (by omega)

-- ---------------------------------------------------------------- the `xy` entries

/-- the `xy` entry of a tracked slot: (the block that deletes it, its index among that block's
deletions) -/
def gOf (h : History) (s : Nat) : Int × Int :=
  match (lives h).death? s with
  | some d => ((d : Int), ((((h[d]?.map (·.delSlots)).getD []).idxOf s : Nat) : Int))
  | none => (0, 0)

theorem gOf_of_del {h : History} (hw : wellFormed h = true) {d : Nat} {b : Block} {s : Nat}
    (hb : h[d]? = some b) (hs : s ∈ b.delSlots) : gOf h s = ((d : Int), ((b.delSlots.idxOf s : Nat) : Int)) := by
  unfold gOf
  rw [(death_iff hw s d).mpr ⟨b, hb, hs⟩]
  simp [hb]

theorem idxOf_getElem_nodup : ∀ (l : List Nat) (i : Nat) (hi : i < l.length), l.Nodup → l.idxOf l[i] = i := by
  intro l
  induction l with
  | nil => intro i hi; simp at hi
  | cons x l ih =>
    intro i hi hnd
    obtain ⟨hx, hnd'⟩ := List.nodup_cons.mp hnd
    cases i with
    | zero => simp
    | succ i =>
      have hi' : i < l.length := by simpa using hi
      have hne : (x == l[i]) = false := by
        rw [beq_eq_false_iff_ne]; intro he; exact hx (he ▸ List.getElem_mem hi')
      rw [List.getElem_cons_succ, List.idxOf_cons, hne]
      simp only [cond_false]
      rw [ih i hi' hnd']

theorem map_idxOf_nodup {β} (F : Nat → β) {l : List Nat} (hnd : l.Nodup) :
    l.map (fun s => F (l.idxOf s)) = (List.range l.length).map F := by
  apply List.ext_getElem
  · simp
  · intro i h1 h2
    simp only [List.getElem_map, List.getElem_range]
    rw [idxOf_getElem_nodup l i (by simpa using h1) hnd]

/-- the entries appended for the deletions of block `t` -/
theorem map_gOf_dels {h : History} (hw : wellFormed h = true) {t : Nat} {b : Block} (hb : h[t]? = some b) :
    b.delSlots.map (gOf h) =
      (List.range b.delSlots.length).map (fun (j : Nat) => (((t : Nat) : Int), ((j : Nat) : Int))) := by
  rw [← map_idxOf_nodup (fun j => (((t : Nat) : Int), ((j : Nat) : Int))) (wf_dels hw hb).1]
  apply List.map_congr_left
  intro s hs
  exact gOf_of_del hw hb hs

-- ---------------------------------------------------------------- the table of one block

theorem filter_map_eq_filterMap {β} (p : Nat → Bool) (mk : Nat → β) (F : Nat → Option β) (n : Nat) :
    ∀ l : List Nat, (∀ j ∈ l, F (j + n) = if p j then some (mk (n + j)) else none) →
      ((l.filter p).map (n + ·)).map mk = (l.map (· + n)).filterMap F := by
  intro l
  induction l with
  | nil => intro _; rfl
  | cons j l ih =>
    intro hl
    have h1 := hl j (by simp)
    have h2 := ih (fun x hx => hl x (by simp [hx]))
    rw [List.map_cons, List.filterMap_cons, h1, List.filter_cons]
    cases hp : p j with
    | true => simp [h2]
    | false => simpa using h2

/-- the slots created by block `t` among the pending ones, ascending, with the ttl read from
`xy`, are table `t` of the lifetime tables -/
theorem row_eq {h : History} (hw : wellFormed h = true) {t : Nat} {b : Block} (hb : h[t]? = some b)
    (f : Nat → U64) (hf : ∀ s, (stateAt h t).length ≤ s → f s = BitVec.ofNat 64 s) :
    ((((List.range b.numAdds).filter fun j => decide ((stateAt h t).length + j ∈ pend h (t + 1))).map
        ((stateAt h t).length + ·)).map fun s => ({ pos := f s, ttl := (gOf h s).1 - (t : Int) } : TTLInfo)) =
      row h t := by
  have ht : t < h.length := (List.getElem?_eq_some_iff.mp hb).1
  have hP := pendOK hw (show t + 1 ≤ h.length by omega)
  unfold row
  rw [before_pre, before_pre, pre_succ hb, Nat.add_sub_cancel_left, ← stateAt_length_pre]
  apply filter_map_eq_filterMap
  intro j hj
  have hj' : j < b.numAdds := List.mem_range.mp hj
  have hn1 : (stateAt h (t + 1)).length = (stateAt h t).length + b.numAdds := by
    rw [stateAt_succ hb, stepS_length]
  cases hd : (lives h).death? (j + (stateAt h t).length) with
  | none =>
    have hnm : ¬ ((stateAt h t).length + j ∈ pend h (t + 1)) := by
      intro hm
      obtain ⟨d, b', _, hb', hs'⟩ := hP.del _ hm
      have := (death_iff hw _ d).mpr ⟨b', hb', hs'⟩
      rw [Nat.add_comm, hd] at this
      cases this
    simp [hnm]
  | some d =>
    obtain ⟨b', hb', hs'⟩ := (death_iff hw _ d).mp hd
    have hlt := del_lt hw hb' hs'
    have hdt : t + 1 ≤ d := by
      rcases Nat.lt_or_ge t d with h1 | h1
      · exact h1
      · have := stateAt_length_mono h h1
        omega
    have hm : (stateAt h t).length + j ∈ pend h (t + 1) := by
      have := hP.compl d b' _ hdt hb' hs' (by omega)
      rwa [Nat.add_comm j] at this
    have hg : (gOf h ((stateAt h t).length + j)).1 = (d : Int) := by
      unfold gOf
      rw [Nat.add_comm, hd]
    simp only [hm, decide_true, if_true, hg, hf _ (Nat.le_add_right _ j)]
    rw [Nat.add_comm]

-- ---------------------------------------------------------------- one step

/-- the `cached` list the loop holds when it is about to process block `i - 1` -/
def cachedAt (h : History) (i : Nat) : List U64 := (pend h i).map fun s => E 63 (posS (stateAt h i) s)

/-- the `xy` list the loop holds when it is about to process block `i - 1` -/
def xyAt (h : History) (i : Nat) : List (Int × Int) := (pend h i).map (gOf h)

/-- **one iteration** of the backwards loop of `genTTLs` (block `t`) -/
theorem step_exact (gpp : PrevPosFn) {h : History} {tr : Tracker} (hw : wellFormed h = true)
    (hok : TrackerOK h tr) (hstep : StepOK gpp h tr) {t : Nat} {b : Block} (hb : h[t]? = some b) :
    genTTLsStepWith gpp tr t (cachedAt h (t + 1)) (xyAt h (t + 1)) =
      .ok (row h t, cachedAt h t, xyAt h t) := by
  have ht : t < h.length := (List.getElem?_eq_some_iff.mp hb).1
  have hP := pendOK hw (show t + 1 ≤ h.length by omega)
  obtain ⟨td, htd, _⟩ := hok.td t b hb
  have hn1 : (stateAt h (t + 1)).length = (stateAt h t).length + b.numAdds := by
    rw [stateAt_succ hb, stepS_length]
  have hPlt : ∀ s ∈ pend h (t + 1), s < (stateAt h t).length + b.numAdds := by
    intro s hs
    have := live_lt (hP.live s hs)
    omega
  have hgpp := hstep t b _ td (pend h (t + 1)) hb (hok.dels t b hb) htd hP.nodup hP.live
  unfold genTTLsStepWith
  rw [idx_of_getElem? (hok.dels t b hb), idx_of_getElem? (hok.adds t b hb),
    idx_of_getElem? (hok.leaves t b hb), idx_of_getElem? htd]
  simp only [bind, Out.bind, cachedAt, xyAt]
  rw [hgpp]
  simp only
  -- "Set ttls"
  rw [createdOf_eq, ← List.map_reverse, createdSlots_reverse,
    genSetTTLs_map t _ (gOf h) (pend h (t + 1)) _ []
      (by
        intro s hs
        obtain ⟨j, hj, rfl⟩ := List.mem_map.mp hs
        simpa using (List.mem_filter.mp hj).2)]
  simp only [List.nil_append]
  rw [row_eq hw hb _ (fun s hs => by rw [if_neg (by omega)])]
  -- "Remove the created positions"
  rw [← createdOf_eq, sortInt_createdOf _ _ hP.nodup hPlt, genRemoveCreated_map]
  simp only [pure]
  -- "Append new deletions"
  have hfilt : (pend h (t + 1)).filter (fun s => !decide ((stateAt h t).length ≤ s)) =
      (pend h (t + 1)).filter (fun s => decide (s < (stateAt h t).length)) := by
    apply List.filter_congr
    intro s _
    by_cases hs : s < (stateAt h t).length
    · simp [hs]
    · simp [hs]; omega
  rw [hfilt, pend_succ hb, List.map_append, List.map_append, map_gOf_dels hw hb, List.length_map]
  congr 4
  apply List.map_congr_left
  intro s hs
  have := (List.mem_filter.mp hs).2
  simp only [decide_eq_true_eq] at this
  rw [if_pos this]

-- ---------------------------------------------------------------- the loop

theorem drop_lifetimeTables {h : History} {i : Nat} (hi : i < h.length) :
    (Props.C15.lifetimeTables h).drop i = row h i :: (Props.C15.lifetimeTables h).drop (i + 1) := by
  have hl : i < (Props.C15.lifetimeTables h).length := by rw [lifetimeTables_length]; exact hi
  rw [List.drop_eq_getElem_cons hl]
  congr 1
  have := lifetimeTables_getElem? h i
  rw [if_pos hi, List.getElem?_eq_getElem hl] at this
  exact Option.some.inj this

/-- **the backwards loop** of `genTTLs`, started anywhere in its invariant -/
theorem loop_exact (gpp : PrevPosFn) {h : History} {tr : Tracker} (hw : wellFormed h = true)
    (hok : TrackerOK h tr) (hstep : StepOK gpp h tr) : ∀ i : Nat, i ≤ h.length →
    genTTLsLoopWith gpp tr i (cachedAt h i) (xyAt h i) ((Props.C15.lifetimeTables h).drop i) =
      .ok (Props.C15.lifetimeTables h) := by
  intro i
  induction i with
  | zero => intro _; rfl
  | succ i ih =>
    intro hi
    have hlt : i < h.length := by omega
    have hb : h[i]? = some h[i] := List.getElem?_eq_getElem hlt
    rw [genTTLsLoopWith, step_exact gpp hw hok hstep hb]
    simp only [bind, Out.bind]
    rw [← drop_lifetimeTables hlt]
    exact ih (by omega)

-- ---------------------------------------------------------------- `genTTLs`

/-- **`genTTLs` is exact, given the tracker contents and the behaviour of one `getPrevPos`
call**: on a tracker that holds the summaries of a well-formed history, with a `getPrevPos`
that moves the tracked positions back by one block, `genTTLs` succeeds and its ttl tables are
the lifetime tables of the history. -/
theorem genTTLs_exact_of_step (gpp : Model.PrevPosFn) (h : History) (tr : Model.Tracker)
    (hw : wellFormed h = true) (htot : total h < 2 ^ 64)
    (hok : SchedIface.TrackerOK h tr) (hstep : SchedIface.StepOK gpp h tr) :
    ∃ cs, tr.genTTLsWith gpp = .ok cs ∧ cs.ttls = Props.C15.lifetimeTables h := by
  have _ := htot
  have hloop := loop_exact gpp hw hok hstep h.length (Nat.le_refl _)
  have hdrop : (Props.C15.lifetimeTables h).drop h.length = [] := by
    apply List.drop_of_length_le
    rw [lifetimeTables_length]
    exact Nat.le_refl _
  have hc : cachedAt h h.length = [] := by simp [cachedAt, pend_length]
  have hx : xyAt h h.length = [] := by simp [xyAt, pend_length]
  rw [hdrop, hc, hx] at hloop
  unfold Tracker.genTTLsWith
  rw [hok.len_d, hloop]
  simp only [bind, Out.bind, pure]
  refine ⟨_, rfl, ?_⟩
  simp only
  rw [hok.len_a, Nat.sub_self]
  simp

-- ---------------------------------------------------------------- non-vacuity

/-- what `Tracker.ofBlocks witnessBlocks` holds (the `roots` are not looked at by `genTTLs`) -/
def witnessTracker : Tracker :=
  { deletions := [[], [0#64], [0x8000000000000000#64]],
    numAdds := [1#16, 1#16, 0#16],
    numLeaves := [1#64, 2#64, 2#64],
    toDestroy := [[], [0#64], []] }

theorem witnessTracker_eq :
    (Tracker.ofBlocks witnessBlocks).toOption.map
        (fun tr => (tr.deletions, tr.numAdds, tr.numLeaves, tr.toDestroy)) =
      some (witnessTracker.deletions, witnessTracker.numAdds, witnessTracker.numLeaves,
        witnessTracker.toDestroy) := by decide +kernel

theorem witness_get {t : Nat} {b : Block} (hb : witness[t]? = some b) :
    (t = 0 ∧ b = ⟨1, []⟩) ∨ (t = 1 ∧ b = ⟨1, [0]⟩) ∨ (t = 2 ∧ b = ⟨0, [1]⟩) := by
  match t, hb with
  | 0, hb => left; exact ⟨rfl, (Option.some.inj hb).symm⟩
  | 1, hb => right; left; exact ⟨rfl, (Option.some.inj hb).symm⟩
  | 2, hb => right; right; exact ⟨rfl, (Option.some.inj hb).symm⟩
  | t+3, hb => simp [witness] at hb

theorem testBit_le {n h : Nat} (hb : n.testBit h = true) : h < n := by
  have := Nat.ge_two_pow_of_testBit hb
  have := @Nat.lt_two_pow_self h
  omega

theorem witness_trackerOK : TrackerOK witness witnessTracker := by
  refine ⟨rfl, rfl, rfl, rfl, ?_, ?_, ?_, ?_⟩
  · intro t b hb
    rcases witness_get hb with ⟨rfl, rfl⟩ | ⟨rfl, rfl⟩ | ⟨rfl, rfl⟩ <;> decide +kernel
  · intro t b hb
    rcases witness_get hb with ⟨rfl, rfl⟩ | ⟨rfl, rfl⟩ | ⟨rfl, rfl⟩ <;> decide +kernel
  · intro t b hb
    rcases witness_get hb with ⟨rfl, rfl⟩ | ⟨rfl, rfl⟩ | ⟨rfl, rfl⟩ <;> decide +kernel
  · intro t b hb
    rcases witness_get hb with ⟨rfl, rfl⟩ | ⟨rfl, rfl⟩ | ⟨rfl, rfl⟩
    · refine ⟨[], rfl, List.nodup_nil, fun x => ?_⟩
      have hS : midS (stateAt witness 0) ⟨1, []⟩ = [] := by decide +kernel
      rw [hS]
      constructor
      · intro hx; cases hx
      · rintro ⟨h, ⟨h1, _⟩, _⟩
        simp at h1
    · refine ⟨[0#64], rfl, by simp, fun x => ?_⟩
      have hS : midS (stateAt witness 1) ⟨1, [0]⟩ = [none] := by decide +kernel
      rw [hS]
      constructor
      · intro hx
        refine ⟨0, ⟨by decide, by decide, by decide⟩, ?_⟩
        rw [List.mem_singleton.mp hx]
        decide +kernel
      · rintro ⟨h, ⟨h1, _⟩, rfl⟩
        have := testBit_le h1
        have h0 : h = 0 := by simp at this; omega
        subst h0
        decide +kernel
    · refine ⟨[], rfl, List.nodup_nil, fun x => ?_⟩
      have hS : midS (stateAt witness 2) ⟨0, [1]⟩ = [none, none] := by decide +kernel
      rw [hS]
      constructor
      · intro hx; cases hx
      · rintro ⟨h, ⟨h1, _, h3⟩, _⟩
        have := testBit_le h1
        obtain rfl | rfl : h = 0 ∨ h = 1 := by simp at this; omega
        · simp at h1
        · simp at h3

theorem list_sub_single {P : List Nat} {a : Nat} (hnd : P.Nodup) (hP : ∀ s ∈ P, s = a) : P = [] ∨ P = [a] := by
  match P, hnd, hP with
  | [], _, _ => exact Or.inl rfl
  | [x], _, hP => right; rw [hP x (by simp)]
  | x :: y :: l, hnd, hP =>
    have hx := hP x (by simp)
    have hy := hP y (by simp)
    subst hx; subst hy
    simp at hnd

theorem witness_stepOK : StepOK getPrevPosFixed witness witnessTracker := by
  intro t b dels td P hb hd htd hnd hlive
  rcases witness_get hb with ⟨rfl, rfl⟩ | ⟨rfl, rfl⟩ | ⟨rfl, rfl⟩
  · cases Option.some.inj hd
    cases Option.some.inj htd
    have hS : stateAt witness 1 = [some 0] := by decide +kernel
    have hP : ∀ s ∈ P, s = 0 := by
      intro s hs
      have h1 := hlive s hs
      have := live_lt h1
      rw [hS] at this
      simp at this
      exact this
    rcases list_sub_single hnd hP with rfl | rfl <;> decide +kernel
  · cases Option.some.inj hd
    cases Option.some.inj htd
    have hS : stateAt witness 2 = [none, some 1] := by decide +kernel
    have hP : ∀ s ∈ P, s = 1 := by
      intro s hs
      have h1 := hlive s hs
      have := live_lt h1
      rw [hS] at this h1
      obtain rfl | rfl : s = 0 ∨ s = 1 := by simp at this; omega
      · simp [Live] at h1
      · rfl
    rcases list_sub_single hnd hP with rfl | rfl <;> decide +kernel
  · cases Option.some.inj hd
    cases Option.some.inj htd
    have hS : stateAt witness 3 = [none, none] := by decide +kernel
    have hP : P = [] := by
      match P, hlive with
      | [], _ => rfl
      | s :: l, hlive =>
        have h1 := hlive s (by simp)
        have := live_lt h1
        rw [hS] at this h1
        obtain rfl | rfl : s = 0 ∨ s = 1 := by simp at this; omega
        · simp [Live] at h1
        · simp [Live] at h1
    subst hP
    decide +kernel

/-- the hypotheses of `genTTLs_exact_of_step` are satisfiable -/
example : ∃ cs, witnessTracker.genTTLsWith getPrevPosFixed = .ok cs ∧
    cs.ttls = [[⟨0#64, 1⟩], [⟨1#64, 1⟩], []] := by
  obtain ⟨cs, h1, h2⟩ := genTTLs_exact_of_step getPrevPosFixed witness witnessTracker
    (by decide +kernel) (by decide +kernel) witness_trackerOK witness_stepOK
  refine ⟨cs, h1, ?_⟩
  rw [h2]
  decide +kernel

end UtreexoVerif.Proofs.SchedGen
