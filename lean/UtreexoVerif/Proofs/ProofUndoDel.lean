/-
  `proofUndoDel` is the inverse of the deletion movement (property C08, level 2).

  `F` = forest before the block, `D` the deleted leaves, `F' = F.delLeaves D`.  Fed the canonical
  proof in `F'` of leaves `K` that are live in `F'`, the block targets (positions of `D` in `F`),
  the deleted hashes and the canonical deletion proof, `proofUndoDel` returns the canonical proof
  of `K` in `F`.
-/
import UtreexoVerif.Proofs.ProofUndoLoops
import UtreexoVerif.Proofs.ProofUndoMove
import UtreexoVerif.Proofs.ProofUpdateRemove
import UtreexoVerif.Proofs.ProofUndoDeTwin

namespace UtreexoVerif.Proofs.ProofUndoDel
open UtreexoVerif Spec Hasher Model
open UtreexoVerif.Proofs UtreexoVerif.Proofs.SpecNodes UtreexoVerif.Proofs.SpecSubs
open UtreexoVerif.Proofs.SpecPlan UtreexoVerif.Proofs.CalcComplete
open UtreexoVerif.Proofs.CalcGeo UtreexoVerif.Proofs.Movement UtreexoVerif.Proofs.CalcPlan
open UtreexoVerif.Proofs.Sorted UtreexoVerif.Proofs.MovePP UtreexoVerif.Proofs.ProofUpdateHelpers
open UtreexoVerif.Proofs.ProofUpdateLists UtreexoVerif.Proofs.ProofUpdateGnp
open UtreexoVerif.Proofs.MoveFold UtreexoVerif.Proofs.MoveDT UtreexoVerif.Proofs.ProofUpdateRemove
open UtreexoVerif.Proofs.FinalPos
open UtreexoVerif.Proofs.ProofUndoLists UtreexoVerif.Proofs.ProofUndoLoops
open UtreexoVerif.Proofs.ProofUndoMove UtreexoVerif.Proofs.ProofUndoDeTwin
open UtreexoVerif.Proofs.ProofUpdateDeTwin

/-! ### bit level: the test and the step of the two inner loops -/

/-- a deletion as the inner loops may meet it (one element of `DtOK`) -/
def TOK (n R : Nat) (T : Pos) : Prop :=
  ∃ RT, RT ∈ treeRows n ∧ Under RT (2 * (n >>> (RT + 1))) T ∧ (RT = R → T.1 < R)

/-- **the test of the inner loops** on a position of the tree on row `R` -/
theorem udCond_enc {n R : Nat} (hn : n ≤ 2 ^ 63) (hR : R ∈ treeRows n) {T c : Pos}
    (hu : Under R (2 * (n >>> (R + 1))) c) (hT : TOK n R T) :
    udCond (BitVec.ofNat 64 n) (H8 (forestRows n)) (E (forestRows n) T)
        (Parent (E (forestRows n) T) (H8 (forestRows n))) (E (forestRows n) c) =
      (inTree n R T && atOrUnderP T c) := by
  have hrows := rows_le_63 hn
  obtain ⟨RT, hRT, huT, hRTlt⟩ := hT
  have hvc := under_valid hR hu
  have hvT := under_valid hRT huT
  unfold udCond
  simp only [detect_fst hn hRT huT, detect_fst hn hR hu]
  by_cases hRR : RT = R
  · subst hRR
    have hTlt := hRTlt rfl
    have hTrows : T.1 < forestRows n :=
      Nat.lt_of_lt_of_le hTlt (under_valid hRT (Under.self _ _)).1
    have hin : inTree n RT T = true := (inTree_iff _ _ _).2 huT
    have hpv := parent_valid hvT hTrows
    rw [parent_E hrows hvT hTrows, hin]
    simp only [bne_self_eq_false, Bool.not_false, Bool.true_and]
    have hanc : isAncestor (E (forestRows n) (parent T)) (E (forestRows n) c) (H8 (forestRows n)) =
        hitA T c := by
      unfold E
      rw [Props.C16.isAncestor_enc hrows hvc.1 hvc.2 hpv.1 hpv.2]
      unfold hitA
      simp only [parent_fst, parent_snd]
      congr 1
      apply propext
      constructor
      · rintro ⟨h1, h2⟩; exact ⟨by omega, h2⟩
      · rintro ⟨h1, h2⟩; exact ⟨by omega, h2⟩
    rw [hanc]
    cases hh : hitA T c with
    | true =>
      simp only [Bool.true_or]
      exact (atOrUnderP_iff.2 (Or.inl hh)).symm
    | false =>
      simp only [Bool.false_or]
      by_cases hcp : c = parent T
      · rw [hcp]
        simp only [beq_self_eq_true]
        exact (atOrUnderP_iff.2 (Or.inr rfl)).symm
      · have h1 : (E (forestRows n) (parent T) == E (forestRows n) c) = false := by
          apply beq_false_of_ne
          intro e
          exact hcp (E_inj hrows hpv hvc e).symm
        rw [h1]
        cases ha : atOrUnderP T c with
        | false => rfl
        | true =>
          rcases atOrUnderP_iff.1 ha with h2 | h2
          · rw [hh] at h2; cases h2
          · exact absurd h2 hcp
  · have hin : inTree n R T = false := by
      cases h : inTree n R T
      · rfl
      · exfalso
        have u := (inTree_iff _ _ _).1 h
        rcases Nat.lt_or_gt_of_ne hRR with h1 | h1
        · exact under_disjoint h1 (bit_of_mem hR) u huT
        · exact under_disjoint h1 (bit_of_mem hRT) huT u
    have hne : (BitVec.ofNat 8 ((treeRows n).idxOf R) != BitVec.ofNat 8 ((treeRows n).idxOf RT)) = true := by
      rw [bne_iff_ne]
      exact fun h => hRR (idx_inj hRT hR h.symm)
    rw [hne, hin]
    rfl

/-- **`calcPrevPosition` on a lifted position** -/
theorem prev_enc {rows : Nat} (hrows : rows ≤ 63) {T c0 : Pos} (hT : T.1 < rows)
    (hvT : Valid rows T) (hc0 : c0.1 ≤ T.1) (hv : Valid rows (liftStep 0 c0 T.1)) :
    calcPrevPosition (E rows (liftStep 0 c0 T.1)) (E rows T) (H8 rows) =
      E rows (prevStep (liftStep 0 c0 T.1) T) := by
  unfold E
  have := Props.C16.calcPrevPosition_enc (h := rows) (r := c0.1) (x := (liftStep 0 c0 T.1).2)
    (r' := T.1) (o' := T.2) hrows hc0 hT (by
      have := hv.2
      simpa [liftStep] using this) hvT.2
  simp only [liftStep, Nat.sub_zero] at this ⊢
  rw [this]
  rfl

/-- **what one pass of an inner loop does to an entry** whose position is the forward image
`moveA n R (ds ++ [T]) p` of a good origin `p`: it becomes `moveA n R ds p`; when the test
fires, the position strictly decreases and lies at or before the sibling position -/
theorem entry_step {H : Type} {n R : Nat} (hn : n ≤ 2 ^ 63) (hR : R ∈ treeRows n) {ds : List Pos}
    {T p : Pos} (hu : Under R (2 * (n >>> (R + 1))) p) (hT : TOK n R T)
    (hdsOK : ∀ T' ∈ ds, inTree n R T' = true → T'.1 < R)
    (hds : ∀ T' ∈ ds, T'.1 ≤ T.1 ∧ T' ≠ T ∧ T' ≠ sib T)
    (hgood : inTree n R T = true → Good T p) (h : H) :
    udMap (BitVec.ofNat 64 n) (H8 (forestRows n)) (E (forestRows n) T)
        (Parent (E (forestRows n) T) (H8 (forestRows n)))
        (E (forestRows n) (moveA n R (ds ++ [T]) p), h) = (E (forestRows n) (moveA n R ds p), h) ∧
    (udCond (BitVec.ofNat 64 n) (H8 (forestRows n)) (E (forestRows n) T)
        (Parent (E (forestRows n) T) (H8 (forestRows n)))
        (E (forestRows n) (moveA n R (ds ++ [T]) p)) = true →
      E (forestRows n) (moveA n R ds p) < E (forestRows n) (moveA n R (ds ++ [T]) p) ∧
      E (forestRows n) (moveA n R (ds ++ [T]) p) ≤ Parent (E (forestRows n) T) (H8 (forestRows n)) ∧
      inTree n R T = true ∧ T.1 < R) := by
  have hrows := rows_le_63 hn
  have hu0 := moveA_under ds p hu hdsOK
  have hv0 := under_valid hR hu0
  have hTin : inTree n R T = true → T.1 < R := by
    intro hin
    obtain ⟨RT, hRT, huT, hRTlt⟩ := hT
    apply hRTlt
    have u := (inTree_iff _ _ _).1 hin
    rcases Nat.lt_trichotomy RT R with h1 | h1 | h1
    · exact (under_disjoint h1 (bit_of_mem hR) u huT).elim
    · exact h1
    · exact (under_disjoint h1 (bit_of_mem hRT) huT u).elim
  have huc : Under R (2 * (n >>> (R + 1))) (moveA n R (ds ++ [T]) p) := by
    apply moveA_under _ p hu
    intro T' hT' hin
    rcases List.mem_append.1 hT' with h1 | h1
    · exact hdsOK T' h1 hin
    · simp only [List.mem_singleton] at h1; subst h1; exact hTin hin
  have hvc := under_valid hR huc
  have hcond := udCond_enc hn hR huc hT
  have hbf := bwd_fwd n R T ds p hds hgood
  rw [moveA_append] at hcond hvc huc ⊢
  cases hfire : (inTree n R T && atOrUnderP T (fwdStep n R T (moveA n R ds p))) with
  | false =>
    rw [hfire] at hcond
    unfold bwdStep at hbf
    rw [hfire] at hbf
    simp only [Bool.false_eq_true, if_false] at hbf
    refine ⟨?_, ?_⟩
    · unfold udMap
      simp only [hcond, Bool.false_eq_true, if_false]
      rw [hbf]
    · intro h'; rw [hcond] at h'; cases h'
  | true =>
    rw [hfire] at hcond
    obtain ⟨hhit, hstep⟩ := bwd_fires hds hgood hfire
    unfold bwdStep at hbf
    rw [hfire] at hbf
    simp only [if_true] at hbf
    have hin : inTree n R T = true := by
      simp only [Bool.and_eq_true] at hfire; exact hfire.1
    have hTR := hTin hin
    have hTrows : T.1 < forestRows n :=
      Nat.lt_of_lt_of_le hTR (under_valid hR (Under.self _ _)).1
    have hvT : Valid (forestRows n) T := under_valid hR ((inTree_iff _ _ _).1 hin)
    have hc0T : (moveA n R ds p).1 ≤ T.1 := by
      unfold hitA at hhit
      simp only [decide_eq_true_eq] at hhit
      exact hhit.1
    rw [hstep] at hbf hvc hcond hfire ⊢
    have hprev := prev_enc hrows hTrows hvT hc0T hvc
    rw [hbf] at hprev
    refine ⟨?_, ?_⟩
    · unfold udMap
      simp only [hcond, if_true]
      rw [hprev]
    · intro _
      have hlt : Sorted.PLt (moveA n R ds p) (liftStep 0 (moveA n R ds p) T.1) :=
        Or.inl (by simp [liftStep])
      refine ⟨(E_lt_iff hrows hv0 hvc).2 hlt, ?_, hin, hTR⟩
      rw [parent_E hrows hvT hTrows]
      have hpv := parent_valid hvT hTrows
      by_cases hrow : (liftStep 0 (moveA n R ds p) T.1).1 < T.1 + 1
      · have : Sorted.PLt (liftStep 0 (moveA n R ds p) T.1) (parent T) := Or.inl (by simpa [parent] using hrow)
        exact ProofOps.u64_le_of_lt ((E_lt_iff hrows hvc hpv).2 this)
      · have hat : atOrUnderP T (liftStep 0 (moveA n R ds p) T.1) = true := by
          simp only [Bool.and_eq_true] at hfire; exact hfire.2
        have heq : liftStep 0 (moveA n R ds p) T.1 = parent T := by
          rcases atOrUnderP_iff.1 hat with h1 | h1
          · exfalso
            unfold hitA at h1
            simp only [decide_eq_true_eq] at h1
            omega
          · exact h1
        rw [heq]
        exact BitVec.le_refl _

/-! ### origins of the entries, the state of the outer loop -/

/-- the list of maximal deleted subtrees as the loops need it: rows ascending, no element twice,
no two siblings -/
structure DtList (dtp : List Pos) : Prop where
  asc : dtp.Pairwise (fun a b => a.1 ≤ b.1)
  nodup : dtp.Nodup
  nosib : ∀ x ∈ dtp, sib x ∉ dtp

theorem DtList.init {ds : List Pos} {T : Pos} (h : DtList (ds ++ [T])) : DtList ds where
  asc := (List.pairwise_append.1 h.asc).1
  nodup := (List.nodup_append.1 h.nodup).1
  nosib := fun x hx hs => h.nosib x (List.mem_append_left _ hx) (List.mem_append_left _ hs)

theorem DtList.last {ds : List Pos} {T : Pos} (h : DtList (ds ++ [T])) :
    ∀ T' ∈ ds, T'.1 ≤ T.1 ∧ T' ≠ T ∧ T' ≠ sib T := by
  intro T' hT'
  refine ⟨(List.pairwise_append.1 h.asc).2.2 T' hT' T (by simp), ?_, ?_⟩
  · intro e
    exact (List.nodup_append.1 h.nodup).2.2 T' hT' T (by simp) e
  · intro e
    apply h.nosib T (by simp)
    rw [← e]
    exact List.mem_append_left _ hT'

/-- an origin of an entry of the loops: a position of the tree on row `R` that is good for every
deletion still to be undone -/
structure Origin (n : Nat) (cur : List Pos) (p : Pos) (R : Nat) : Prop where
  tree : R ∈ treeRows n
  under : Under R (2 * (n >>> (R + 1))) p
  dtok : DtOK n R cur
  good : ∀ T ∈ cur, inTree n R T = true → Good T p

theorem Origin.init {n : Nat} {ds : List Pos} {T p : Pos} {R : Nat} (o : Origin n (ds ++ [T]) p R) :
    Origin n ds p R where
  tree := o.tree
  under := o.under
  dtok := fun T' hT' => o.dtok T' (List.mem_append_left _ hT')
  good := fun T' hT' => o.good T' (List.mem_append_left _ hT')

theorem Origin.image_under {n : Nat} {cur : List Pos} {p : Pos} {R : Nat} (o : Origin n cur p R) :
    Under R (2 * (n >>> (R + 1))) (moveA n R cur p) :=
  moveA_under cur p o.under (o.dtok.lt o.tree)

/-- the position of an origin after the deletions `ds` -/
def mv (n : Nat) (ds : List Pos) (p : Pos) : Pos := moveA n (treeRowOf n p) ds p

theorem mv_eq {n : Nat} {cur : List Pos} {p : Pos} {R : Nat} (o : Origin n cur p R) (ds : List Pos) :
    mv n ds p = moveA n R ds p := by
  unfold mv
  rw [treeRowOf_under o.tree o.under]

/-- one pass of an inner loop on an entry with an origin -/
theorem step_of_origin {H : Type} {n : Nat} (hn : n ≤ 2 ^ 63) {ds : List Pos} {T p : Pos} {R : Nat}
    (hdt : DtList (ds ++ [T])) (o : Origin n (ds ++ [T]) p R) (h : H) :
    udMap (BitVec.ofNat 64 n) (H8 (forestRows n)) (E (forestRows n) T)
        (Parent (E (forestRows n) T) (H8 (forestRows n)))
        (E (forestRows n) (moveA n R (ds ++ [T]) p), h) = (E (forestRows n) (moveA n R ds p), h) ∧
    (udCond (BitVec.ofNat 64 n) (H8 (forestRows n)) (E (forestRows n) T)
        (Parent (E (forestRows n) T) (H8 (forestRows n)))
        (E (forestRows n) (moveA n R (ds ++ [T]) p)) = true →
      E (forestRows n) (moveA n R ds p) < E (forestRows n) (moveA n R (ds ++ [T]) p) ∧
      E (forestRows n) (moveA n R (ds ++ [T]) p) ≤ Parent (E (forestRows n) T) (H8 (forestRows n)) ∧
      inTree n R T = true ∧ T.1 < R) :=
  entry_step hn o.tree o.under (o.dtok T (by simp))
    (fun T' hT' => o.dtok.lt o.tree T' (List.mem_append_left _ hT')) hdt.last
    (o.good T (by simp)) h

/-- different keys before a pass stay different after it -/
theorem key_inj_back {n : Nat} (hn : n ≤ 2 ^ 63) {ds : List Pos} {T p1 p2 : Pos} {R1 R2 : Nat}
    (o1 : Origin n (ds ++ [T]) p1 R1) (o2 : Origin n (ds ++ [T]) p2 R2)
    (e : E (forestRows n) (moveA n R1 ds p1) = E (forestRows n) (moveA n R2 ds p2)) :
    E (forestRows n) (moveA n R1 (ds ++ [T]) p1) = E (forestRows n) (moveA n R2 (ds ++ [T]) p2) := by
  have hrows := rows_le_63 hn
  have u1 := o1.init.image_under
  have u2 := o2.init.image_under
  have e' := E_inj hrows (under_valid o1.tree u1) (under_valid o2.tree u2) e
  have hRR : R1 = R2 := by
    rw [e'] at u1
    rcases Nat.lt_trichotomy R1 R2 with h | h | h
    · exact (under_disjoint h (bit_of_mem o2.tree) u2 u1).elim
    · exact h
    · exact (under_disjoint h (bit_of_mem o1.tree) u1 u2).elim
  subst hRR
  rw [moveA_append, moveA_append, e']

section outer
set_option linter.unusedSectionVars false
variable {H : Type} [DecidableEq H] [Hasher H]

/-- the proof pile: strictly sorted, every entry the image of an origin -/
def PileOK (n : Nat) (cur : List Pos) (pw : HP H) : Prop :=
  pw.Pairwise (fun a b => a.1 < b.1) ∧
    ∀ z ∈ pw, ∃ p R, Origin n cur p R ∧ z.1 = E (forestRows n) (moveA n R cur p)

/-- the cached targets: strictly sorted, a permutation of the images of the tracked leaves -/
def TwOK (n : Nat) (cur : List Pos) (LT : List (Pos × H)) (tw : HP H) : Prop :=
  tw.Pairwise (fun a b => a.1 < b.1) ∧
    tw.Perm (LT.map (fun z => (E (forestRows n) (mv n cur z.1), z.2)))

/-- the tracked proof entries are present -/
def Tracked (n : Nat) (cur : List Pos) (Q : List (Pos × H)) (pw : HP H) : Prop :=
  ∀ z ∈ Q, (E (forestRows n) (mv n cur z.1), z.2) ∈ pw

theorem Under.parent' {R O : Nat} {T : Pos} (hu : Under R O T) (hlt : T.1 < R) :
    Under R O (Spec.parent T) := by
  obtain ⟨h1, h2⟩ := hu
  refine ⟨by simp only [Spec.parent]; omega, ?_⟩
  simp only [Spec.parent]
  have e : 2 * 2 ^ (R - (T.1 + 1)) = 2 ^ (R - T.1) := by
    rw [← Nat.pow_succ']; congr 1; omega
  rw [Nat.div_div_eq_div_mul, e]
  exact h2

/-- **one pass of the outer loop** (one maximal deleted subtree `T`, the last of the current
list) -/
theorem outer_step {n : Nat} (hn : n ≤ 2 ^ 63) {ds : List Pos} {T : Pos} (bh : H)
    (hdt : DtList (ds ++ [T])) {LT Q : List (Pos × H)}
    (hLT : ∀ z ∈ LT, ∃ R, Origin n (ds ++ [T]) z.1 R)
    (hQ : ∀ z ∈ Q, ∃ R, Origin n (ds ++ [T]) z.1 R)
    {tw pw np : HP H} (htw : TwOK n (ds ++ [T]) LT tw) (hpw : PileOK n (ds ++ [T]) pw)
    (htr : Tracked n (ds ++ [T]) Q pw) (hnp : np.Pairwise (fun a b => a.1 ≤ b.1)) :
    ∃ tw' pw' np',
      udTargets (BitVec.ofNat 64 n) (H8 (forestRows n)) (E (forestRows n) T) bh
          (Parent (E (forestRows n) T) (H8 (forestRows n))) (tw.length + 1) 0 tw np = (tw', np') ∧
      udProofs (BitVec.ofNat 64 n) (H8 (forestRows n)) (E (forestRows n) T) bh
          (Parent (E (forestRows n) T) (H8 (forestRows n))) (pw.length + 1) 0 pw.length none pw =
        .ok pw' ∧
      TwOK n ds LT tw' ∧ PileOK n ds pw' ∧ Tracked n ds Q pw' ∧
      np'.Pairwise (fun a b => a.1 ≤ b.1) := by
  have hrows := rows_le_63 hn
  -- the targets
  have htwmem : ∀ x ∈ tw, ∃ z ∈ LT, ∃ R, Origin n (ds ++ [T]) z.1 R ∧
      x = (E (forestRows n) (moveA n R (ds ++ [T]) z.1), z.2) := by
    intro x hx
    obtain ⟨z, hz, e⟩ := List.mem_map.1 (htw.2.mem_iff.1 hx)
    obtain ⟨R, o⟩ := hLT z hz
    exact ⟨z, hz, R, o, by rw [← e, mv_eq o]⟩
  have hprevT : ∀ x ∈ tw, udCond (BitVec.ofNat 64 n) (H8 (forestRows n)) (E (forestRows n) T)
      (Parent (E (forestRows n) T) (H8 (forestRows n))) x.1 = true →
      calcPrevPosition x.1 (E (forestRows n) T) (H8 (forestRows n)) < x.1 := by
    intro x hx hc
    obtain ⟨z, _, R, o, rfl⟩ := htwmem x hx
    obtain ⟨h1, h2⟩ := step_of_origin hn hdt o z.2
    have := (h2 hc).1
    unfold udMap at h1
    rw [if_pos hc] at h1
    simp only at h1 hc ⊢
    rw [(Prod.mk.inj h1).1]
    exact this
  have hT1 := udTargets_spec (BitVec.ofNat 64 n) (H8 (forestRows n)) (E (forestRows n) T) bh
    (Parent (E (forestRows n) T) (H8 (forestRows n))) tw np htw.1 hprevT
  have hT2 := udTargets_snd (BitVec.ofNat 64 n) (H8 (forestRows n)) (E (forestRows n) T) bh
    (Parent (E (forestRows n) T) (H8 (forestRows n))) (tw.length + 1) 0 tw np hnp
  -- the mapped targets
  have hmapT : (tw.map (udMap (BitVec.ofNat 64 n) (H8 (forestRows n)) (E (forestRows n) T)
      (Parent (E (forestRows n) T) (H8 (forestRows n))))).Perm
      (LT.map (fun z => (E (forestRows n) (mv n ds z.1), z.2))) := by
    refine (htw.2.map _).trans (List.Perm.of_eq ?_)
    rw [List.map_map]
    apply List.map_congr_left
    intro z hz
    obtain ⟨R, o⟩ := hLT z hz
    simp only [Function.comp]
    rw [mv_eq o, mv_eq o]
    exact (step_of_origin hn hdt o z.2).1
  have hkeysT : ((LT.map (fun z => (E (forestRows n) (mv n ds z.1), z.2))).map (·.1)).Nodup := by
    have h1 : ((LT.map (fun z => (E (forestRows n) (mv n (ds ++ [T]) z.1), z.2))).map (·.1)).Nodup := by
      have := htw.1
      have h2 : (tw.map (·.1)).Nodup := by
        rw [List.Nodup, List.pairwise_map]
        exact this.imp (fun h e => by rw [e] at h; exact BitVec.lt_irrefl _ h)
      exact ((htw.2.map (·.1)).nodup_iff).1 h2
    rw [List.map_map, List.Nodup, List.pairwise_map] at h1 ⊢
    apply List.Pairwise.imp_of_mem _ h1
    intro a b ha hb hab e
    apply hab
    obtain ⟨R1, o1⟩ := hLT a ha
    obtain ⟨R2, o2⟩ := hLT b hb
    simp only [Function.comp] at e ⊢
    rw [mv_eq o1, mv_eq o2] at e ⊢
    exact key_inj_back hn o1 o2 e
  have htw' : TwOK n ds LT (sortHP (tw.map (udMap (BitVec.ofNat 64 n) (H8 (forestRows n))
      (E (forestRows n) T) (Parent (E (forestRows n) T) (H8 (forestRows n)))))) := by
    refine ⟨?_, (SortBy.sortBy_perm _ _).trans hmapT⟩
    apply SortBy.sortBy_strict
    exact ((hmapT.map (·.1)).nodup_iff).2 hkeysT
  -- the proof pile
  have hpwmem : ∀ x ∈ pw, ∃ p R, Origin n (ds ++ [T]) p R ∧
      x = (E (forestRows n) (moveA n R (ds ++ [T]) p), x.2) := by
    intro x hx
    obtain ⟨p, R, o, e⟩ := hpw.2 x hx
    exact ⟨p, R, o, by rw [← e]⟩
  have hprevP : ∀ x ∈ pw, udCond (BitVec.ofNat 64 n) (H8 (forestRows n)) (E (forestRows n) T)
      (Parent (E (forestRows n) T) (H8 (forestRows n))) x.1 = true →
      calcPrevPosition x.1 (E (forestRows n) T) (H8 (forestRows n)) < x.1 ∧
      x.1 ≤ Parent (E (forestRows n) T) (H8 (forestRows n)) := by
    intro x hx hc
    obtain ⟨p, R, o, e⟩ := hpwmem x hx
    obtain ⟨h1, h2⟩ := step_of_origin hn hdt o x.2
    rw [e] at hc ⊢
    simp only at hc ⊢
    obtain ⟨g1, g2, _⟩ := h2 hc
    unfold udMap at h1
    rw [if_pos hc] at h1
    simp only at h1
    rw [(Prod.mk.inj h1).1]
    exact ⟨g1, g2⟩
  have hmapP : ∀ x ∈ pw, ∀ p R, Origin n (ds ++ [T]) p R →
      x.1 = E (forestRows n) (moveA n R (ds ++ [T]) p) →
      udMap (BitVec.ofNat 64 n) (H8 (forestRows n)) (E (forestRows n) T)
        (Parent (E (forestRows n) T) (H8 (forestRows n))) x =
        (E (forestRows n) (moveA n R ds p), x.2) := by
    intro x _ p R o e
    have := (step_of_origin hn hdt o x.2).1
    rw [← e] at this
    exact this
  have hndP : ((pw.map (udMap (BitVec.ofNat 64 n) (H8 (forestRows n)) (E (forestRows n) T)
      (Parent (E (forestRows n) T) (H8 (forestRows n))))).map (·.1)).Nodup := by
    rw [List.map_map, List.Nodup, List.pairwise_map]
    apply List.Pairwise.imp_of_mem _ hpw.1
    intro a b ha hb hab e
    obtain ⟨p1, R1, o1, e1⟩ := hpw.2 a ha
    obtain ⟨p2, R2, o2, e2⟩ := hpw.2 b hb
    simp only [Function.comp] at e
    rw [hmapP a ha p1 R1 o1 e1, hmapP b hb p2 R2 o2 e2] at e
    have := key_inj_back hn o1 o2 e
    rw [← e1, ← e2] at this
    rw [this] at hab
    exact BitVec.lt_irrefl _ hab
  obtain ⟨pwf, hP1, hpost⟩ := udProofs_spec (BitVec.ofNat 64 n) (H8 (forestRows n))
    (E (forestRows n) T) bh (Parent (E (forestRows n) T) (H8 (forestRows n))) pw hpw.1 hprevP hndP
  refine ⟨_, pwf, _, Prod.ext hT1 rfl, hP1, htw', ⟨hpost.sorted, ?_⟩, ?_, hT2.1⟩
  · -- origins of the new pile
    intro z hz
    rcases hpost.only z hz with ⟨x, hx, rfl⟩ | ⟨hzs, x, hx, hcx⟩
    · obtain ⟨p, R, o, e⟩ := hpw.2 x hx
      exact ⟨p, R, o.init, by rw [hmapP x hx p R o e]⟩
    · -- the inserted parent
      obtain ⟨p, R, o, e⟩ := hpw.2 x hx
      rw [e] at hcx
      obtain ⟨_, _, hin, hTR⟩ := (step_of_origin hn hdt o x.2).2 hcx
      have huT := (inTree_iff _ _ _).1 hin
      have hTrows : T.1 < forestRows n :=
        Nat.lt_of_lt_of_le hTR (under_valid o.tree (Under.self _ _)).1
      refine ⟨Spec.parent T, R, ⟨o.tree, Under.parent' huT hTR, o.init.dtok, ?_⟩, ?_⟩
      · intro T' hT' _
        obtain ⟨g1, g2, g3⟩ := hdt.last T' hT'
        exact good_parent g1 g2 g3
      · rw [hzs, parent_E hrows (under_valid o.tree huT) hTrows, moveA_high]
        intro T' hT'
        have := (hdt.last T' hT').1
        simp only [Spec.parent]
        omega
  · -- the tracked entries
    intro z hz
    obtain ⟨R, o⟩ := hQ z hz
    have hin := htr z hz
    have := hpost.mapped _ hin
    rw [mv_eq o] at hin this
    rw [hmapP _ hin z.1 R o rfl] at this
    rw [mv_eq o]
    exact this

theorem rev_ind {α : Type} {P : List α → Prop} (h0 : P [])
    (h1 : ∀ init b, P init → P (init ++ [b])) : ∀ l, P l := by
  intro l
  rw [← List.reverse_reverse l]
  induction l.reverse with
  | nil => exact h0
  | cons b t ih => rw [List.reverse_cons]; exact h1 _ _ ih

/-- **the outer loop of `proofUndoDel`**: all maximal deleted subtrees, in descending order -/
theorem outer_loop {n : Nat} (hn : n ≤ 2 ^ 63) {LT Q : List (Pos × H)} :
    ∀ (bt : List (Pos × H)) (tw pw np : HP H), DtList (bt.map (·.1)) →
      (∀ z ∈ LT, ∃ R, Origin n (bt.map (·.1)) z.1 R) →
      (∀ z ∈ Q, ∃ R, Origin n (bt.map (·.1)) z.1 R) →
      TwOK n (bt.map (·.1)) LT tw → PileOK n (bt.map (·.1)) pw → Tracked n (bt.map (·.1)) Q pw →
      np.Pairwise (fun a b => a.1 ≤ b.1) →
      ∃ tw' pw' np',
        udOuter (BitVec.ofNat 64 n) (H8 (forestRows n)) ((bt.map (enc2 (forestRows n))).reverse)
          tw pw np = .ok (tw', pw', np') ∧
        TwOK n [] LT tw' ∧ PileOK n [] pw' ∧ Tracked n [] Q pw' ∧
        np'.Pairwise (fun a b => a.1 ≤ b.1) := by
  intro bt
  induction bt using rev_ind with
  | h0 =>
    intro tw pw np _ _ _ htw hpw htr hnp
    exact ⟨tw, pw, np, rfl, htw, hpw, htr, hnp⟩
  | h1 init b ih =>
    intro tw pw np hdt hLT hQ htw hpw htr hnp
    rw [List.map_append, List.map_cons, List.map_nil] at hdt hLT hQ htw hpw htr
    obtain ⟨tw1, pw1, np1, h1, h2, htw1, hpw1, htr1, hnp1⟩ :=
      outer_step hn b.2 hdt hLT hQ htw hpw htr hnp
    obtain ⟨tw', pw', np', h3, g⟩ := ih tw1 pw1 np1 hdt.init
      (fun z hz => by obtain ⟨R, o⟩ := hLT z hz; exact ⟨R, o.init⟩)
      (fun z hz => by obtain ⟨R, o⟩ := hQ z hz; exact ⟨R, o.init⟩) htw1 hpw1 htr1 hnp1
    refine ⟨tw', pw', np', ?_, g⟩
    rw [List.map_append, List.map_cons, List.map_nil, List.reverse_append, List.reverse_singleton,
      List.singleton_append]
    unfold enc2
    rw [udOuter]
    simp only [h1, h2, bind, Out.bind]
    exact h3

end outer

/-! ### specification level: good origins -/

section spec
set_option linter.unusedSectionVars false
variable {H : Type} [DecidableEq H] [Hasher H]

/-- a node that is a leaf or whose two children both keep a survivor: the LOWEST node of `F` that
is pruned to a given node of `F.delLeaves D` -/
def LowGood (D : List H) : CTree H → Prop
  | .leaf _ => True
  | .node a b => delT D a ≠ none ∧ delT D b ≠ none

/-- **every node with a survivor has a lowest pre-image with the same movement** -/
theorem lowest_preimage {F : Forest H} {D : List H} {h : Nat} : ∀ (t : CTree H) (p : Pos)
    (s' : CTree H), SubAtT F h p t → delT D t = some s' →
    ∃ p' t', SubAtT F h p' t' ∧ delT D t' = some s' ∧ movePos F D p' = movePos F D p ∧
      LowGood D t' := by
  intro t
  induction t with
  | leaf l => intro p s' s hd; exact ⟨p, .leaf l, s, hd, rfl, trivial⟩
  | node a b iha ihb =>
    intro p s' s hd
    obtain ⟨h1, ca, cb⟩ := s.children
    have hpl : p.1 - 1 < h := by have := s.row_le; omega
    have epa : Spec.parent (p.1 - 1, 2 * p.2) = p := by
      obtain ⟨p1, p2⟩ := p
      simp only [Spec.parent, Prod.mk.injEq]
      simp only at h1
      omega
    have epb : Spec.parent (p.1 - 1, 2 * p.2 + 1) = p := by
      obtain ⟨p1, p2⟩ := p
      simp only [Spec.parent, Prod.mk.injEq]
      simp only at h1
      omega
    cases hda : delT D a with
    | none =>
      cases hdb : delT D b with
      | none => simp [delT, hda, hdb, join] at hd
      | some b' =>
        have e : s' = b' := by
          simp only [delT, hda, hdb, join] at hd
          injection hd with e
          exact e.symm
        subst e
        obtain ⟨p', t', g1, g2, g3, g4⟩ := ihb _ _ cb hdb
        refine ⟨p', t', g1, g2, ?_, g4⟩
        rw [g3, movePos_eq_T cb, movePos_eq_T s]
        have hs : aliveAfter F D (p.1 - 1) (sibIdx (2 * p.2 + 1)) = false := by
          rw [sibIdx_odd, aliveAfter_of ca, hda]
          rfl
        have := movePosT_dead (F := F) (D := D) (h := h) (p := (p.1 - 1, 2 * p.2 + 1)) hpl hs
        rw [this, epb]
    | some a' =>
      cases hdb : delT D b with
      | none =>
        have e : s' = a' := by
          simp only [delT, hda, hdb, join] at hd
          injection hd with e
          exact e.symm
        subst e
        obtain ⟨p', t', g1, g2, g3, g4⟩ := iha _ _ ca hda
        refine ⟨p', t', g1, g2, ?_, g4⟩
        rw [g3, movePos_eq_T ca, movePos_eq_T s]
        have hs : aliveAfter F D (p.1 - 1) (sibIdx (2 * p.2)) = false := by
          rw [sibIdx_even, aliveAfter_of cb, hdb]
          rfl
        have := movePosT_dead (F := F) (D := D) (h := h) (p := (p.1 - 1, 2 * p.2)) hpl hs
        rw [this, epa]
      | some b' =>
        exact ⟨p, .node a b, s, hd, rfl, by simp [LowGood, hda, hdb]⟩

/-- **a lowest pre-image is a good origin for every maximal deleted subtree** -/
theorem good_of_lowgood {F : Forest H} {D : List H} {h : Nat} {p : Pos} {t : CTree H}
    (s : SubAtT F h p t) (hal : delT D t ≠ none) (hlg : LowGood D t) {T : Pos} (hT : IsDT F D T) :
    Good T p := by
  obtain ⟨hT0, tT, sT, hdead, _⟩ := hT
  constructor
  · -- `p` is not the parent of `T`
    intro e
    have hTu : Under p.1 p.2 T := by
      rw [e]
      refine ⟨by simp [Spec.parent], ?_⟩
      simp [Spec.parent]
    have huT := Under.trans s.under hTu
    have hh : hT0 = h := tree_of_under sT s.bit huT
    subst hh
    have hnr : isRootPos F.numLeaves T = false := by
      cases hr : isRootPos F.numLeaves T with
      | false => rfl
      | true =>
        have := (sT.root_iff).1 hr
        have := s.row_le
        rw [e] at this
        simp only [Spec.parent] at this
        omega
    obtain ⟨_, s2, spar, _⟩ := sT.parent hnr
    rw [← e] at spar
    have := (s.unique spar).2
    rw [this] at hlg
    split at hlg
    · exact hlg.1 hdead
    · exact hlg.2 hdead
  · -- `p` does not lie below `T`
    rintro ⟨h1, h2⟩
    have hpu : Under T.1 T.2 p := ⟨h1, h2⟩
    have huT := Under.trans sT.under hpu
    have hh : h = hT0 := tree_of_under s sT.bit huT
    subst hh
    obtain ⟨ta, sa, hl⟩ := anc_node s (T.1 - p.1) (by have := sT.row_le; omega)
    rw [show p.1 + (T.1 - p.1) = T.1 by omega, h2] at sa
    have e := (sa.unique sT).2
    subst e
    apply hal
    rw [delT_eq_none_iff'] at hdead ⊢
    exact fun l hl' => hdead l (hl l hl')

/-- a node of `F` that keeps a survivor and is a lowest pre-image is an origin -/
theorem origin_of_node {F : Forest H} {D : List H} {dtp : List Pos}
    (hdt : ∀ T, T ∈ dtp ↔ IsDT F D T) {h : Nat} {p : Pos} {t : CTree H} (s : SubAtT F h p t)
    (hal : delT D t ≠ none) (hlg : LowGood D t) : Origin F.numLeaves dtp p h where
  tree := s.1
  under := s.under
  dtok := dtOK_of_isDT hdt s hal
  good := fun T hT _ => good_of_lowgood s hal hlg ((hdt T).1 hT)

/-- a node without a deleted leaf is a lowest pre-image of itself -/
theorem lowgood_untouched {D : List H} {t : CTree H} (h : ∀ l ∈ t.leaves, l ∉ D) : LowGood D t := by
  cases t with
  | leaf l => trivial
  | node a b =>
    refine ⟨?_, ?_⟩
    · rw [delT_noleaf D a (fun l hl => h l (by simp [CTree.leaves, hl]))]; simp
    · rw [delT_noleaf D b (fun l hl => h l (by simp [CTree.leaves, hl]))]; simp

end spec

/-! ### `proofUndoDel` -/

section main
set_option linter.unusedSectionVars false
variable {H : Type} [DecidableEq H] [Hasher H]

theorem delLeaves_nil (F : Forest H) : F.delLeaves [] = F := by
  cases F with
  | mk slots =>
    unfold Forest.delLeaves
    congr 1
    simp only
    conv => rhs; rw [← List.map_id slots]
    apply List.map_congr_left
    intro s _
    cases s <;> simp

/-- a list of pairs with given first components -/
theorem zip_of_fst {α β γ : Type} (f : α → γ) : ∀ (l : List (γ × β)) (dtp : List α),
    l.map (·.1) = dtp.map f → l = (dtp.zip (l.map (·.2))).map (fun z => (f z.1, z.2)) ∧
      (dtp.zip (l.map (·.2))).map (·.1) = dtp := by
  intro l
  induction l with
  | nil =>
    intro dtp h
    cases dtp with
    | nil => exact ⟨rfl, rfl⟩
    | cons a t => simp at h
  | cons x xs ih =>
    intro dtp h
    cases dtp with
    | nil => simp at h
    | cons a t =>
      simp only [List.map_cons, List.cons.injEq] at h
      obtain ⟨g1, g2⟩ := ih t h.2
      refine ⟨?_, ?_⟩
      · simp only [List.map_cons, List.zip_cons_cons]
        rw [← g1, ← h.1]
      · simp only [List.map_cons, List.zip_cons_cons, g2]

/-- the state of the loops before the outer loop starts, and what is tracked -/
theorem undoDel_setup {F : Forest H} (hn : F.numLeaves ≤ 2 ^ 63) (hnd : F.liveLeaves.Nodup)
    {D K : List H} {tgD tgK tgK1 : List Pos} {hsD hsK hsK1 : List H} (hK : K.Nodup)
    (hcD : F.canon D = some (tgD, hsD)) (hcK : F.canon K = some (tgK, hsK))
    (hcK1 : (F.delLeaves D).canon K = some (tgK1, hsK1)) (hKD : ∀ x ∈ K, x ∉ D)
    {dtp : List Pos} (hs : dtp.Pairwise Sorted.PLt) (hdt : ∀ T, T ∈ dtp ↔ IsDT F D T) :
    let LT := K.map (fun x => (posD F x, x))
    let Q := ((F.proofPositions tgK).filter (fun q => decide (q ∉ pathSet F tgD))).map
      (fun q => (q, (F.nodeAt q).getD zero))
    (∀ z ∈ LT, ∃ R, Origin F.numLeaves dtp z.1 R) ∧ (∀ z ∈ Q, ∃ R, Origin F.numLeaves dtp z.1 R) ∧
    TwOK F.numLeaves dtp LT ((sortedPairs (F.delLeaves D) K).map (enc2 F.rows)) ∧
    PileOK F.numLeaves dtp ((ppPairs (F.delLeaves D) tgK1).map (enc2 F.rows)) ∧
    Tracked F.numLeaves dtp Q ((ppPairs (F.delLeaves D) tgK1).map (enc2 F.rows)) := by
  intro LT Q
  have hn1 : (F.delLeaves D).numLeaves = F.numLeaves := delLeaves_numLeaves F D
  have hn1' : (F.delLeaves D).numLeaves ≤ 2 ^ 63 := by rw [hn1]; exact hn
  have hR1 : (F.delLeaves D).rows = F.rows := by unfold Forest.rows; rw [hn1]
  have hdF := LeafDistinct.leafDistinct_of_nodup hnd
  have tokK := canon_targetsOK hcK
  have tokK1 := canon_targetsOK hcK1
  -- the cached leaves
  have hleaf : ∀ x ∈ K, ∃ h, SubAtT F h (posD F x) (.leaf x) ∧
      (F.delLeaves D).posOf x = some (moveA F.numLeaves h dtp (posD F x)) ∧
      Origin F.numLeaves dtp (posD F x) h := by
    intro x hx
    obtain ⟨h, s⟩ := posD_sub hcK hx
    have hxD := hKD x hx
    have hdl : delT D (.leaf x) = some (.leaf x) := by simp [delT, hxD]
    have hal : delT D (.leaf x) ≠ none := by rw [hdl]; simp
    refine ⟨h, s, ?_, origin_of_node hdt s hal trivial⟩
    obtain ⟨p, hp⟩ := (canon_spec hcK).2.1 x hx
    have e : posD F x = p := by unfold posD; rw [hp]; rfl
    rw [moveA_eq_movePos hs hdt s hal, e]
    exact move_posOf (by omega) hnd hp hxD
  refine ⟨?_, ?_, ⟨?_, ?_⟩, ⟨?_, ?_⟩, ?_⟩
  · intro z hz
    obtain ⟨x, hx, rfl⟩ := List.mem_map.1 hz
    obtain ⟨h, _, _, o⟩ := hleaf x hx
    exact ⟨h, o⟩
  · intro z hz
    obtain ⟨q, hq, rfl⟩ := List.mem_map.1 hz
    obtain ⟨hq1, hq2⟩ := List.mem_filter.1 hq
    have hq2' : q ∉ pathSet F tgD := by simpa using hq2
    obtain ⟨h, t, s⟩ := pp_node tokK hq1
    have hno : ∀ l ∈ t.leaves, l ∉ D := fun l hl hL => hq2' (leaf_on_path hcD hdF s hl hL)
    have hal : delT D t ≠ none := by rw [delT_noleaf D t hno]; simp
    exact ⟨h, origin_of_node hdt s hal (lowgood_untouched hno)⟩
  · have := sortedPairs_keys hn1' hcK1 hK
    rw [hR1] at this
    rw [List.pairwise_map]
    exact this
  · have h1 := (sortedPairs_perm hn1' hcK1 hK).map (enc2 F.rows)
    refine h1.trans (List.Perm.of_eq ?_)
    rw [List.map_map, List.map_map]
    apply List.map_congr_left
    intro x hx
    obtain ⟨h, s, hp1, o⟩ := hleaf x hx
    simp only [Function.comp, enc2]
    rw [mv_eq o]
    unfold posD
    rw [hp1]
    rfl
  · have := ppPairs_keys hn1' tokK1
    rw [hR1] at this
    exact this
  · intro z hz
    obtain ⟨y, hy, rfl⟩ := List.mem_map.1 hz
    unfold ppPairs at hy
    obtain ⟨q', hq', rfl⟩ := List.mem_map.1 hy
    obtain ⟨h, s', sq'⟩ := pp_node tokK1 hq'
    obtain ⟨p, t, s, hdel, hqe, _⟩ := move_surj sq'
    obtain ⟨p', t', g1, g2, g3, g4⟩ := lowest_preimage t p s' s hdel
    have hal' : delT D t' ≠ none := by rw [g2]; simp
    refine ⟨p', h, origin_of_node hdt g1 hal' g4, ?_⟩
    simp only [enc2]
    rw [moveA_eq_movePos hs hdt g1 hal', g3, ← hqe]
    rfl
  · intro z hz
    obtain ⟨q, hq, rfl⟩ := List.mem_map.1 hz
    obtain ⟨hq1, hq2⟩ := List.mem_filter.1 hq
    have hq2' : q ∉ pathSet F tgD := by simpa using hq2
    obtain ⟨h, t, s⟩ := pp_node tokK hq1
    have hno : ∀ l ∈ t.leaves, l ∉ D := fun l hl hL => hq2' (leaf_on_path hcD hdF s hl hL)
    have hdl : delT D t = some t := delT_noleaf D t hno
    have hal : delT D t ≠ none := by rw [hdl]; simp
    have o := origin_of_node hdt s hal (lowgood_untouched hno)
    simp only
    rw [mv_eq o, moveA_eq_movePos hs hdt s hal]
    have hmem : movePos F D q ∈ (F.delLeaves D).proofPositions tgK1 :=
      (proofPositions_del hnd hcK hcK1 hKD _).2 ⟨q, hq1, ⟨h, t, s, hal⟩, rfl⟩
    refine List.mem_map.2 ⟨(movePos F D q, ((F.delLeaves D).nodeAt (movePos F D q)).getD zero),
      List.mem_map.2 ⟨_, hmem, rfl⟩, ?_⟩
    simp only [enc2]
    rw [move_nodeAt s hal, dhash_noleaf D hno, s.nodeAt]
    rfl

/-- **`proofUndoDel` is the inverse of the deletion step.**  `F`: the forest before the block;
`D` (duplicate-free) the leaves it deletes, with canonical proof `(tgD, hsD)`; the cached proof is
the canonical proof in `F.delLeaves D` of `K` with ascending targets (as `proofUndoAdd` leaves it).
The result is the canonical proof in `F` of a permutation of `K`, targets ascending. -/
theorem proofUndoDel_canonical {F : Forest H} (hn : F.numLeaves ≤ 2 ^ 63)
    (hnz : ∀ a b : H, ph a b ≠ (zero : H)) (hlive : ∀ l ∈ F.liveLeaves, l ≠ (zero : H))
    (hnd : F.liveLeaves.Nodup) {D K : List H} {tgD tgK1 : List Pos} {hsD hsK1 : List H}
    (hD : D.Nodup) (hcD : F.canon D = some (tgD, hsD))
    (hcK1 : (F.delLeaves D).canon K = some (tgK1, hsK1)) (hsorted1 : tgK1.Pairwise Sorted.PLt) :
    ∃ K' tg hs, K'.Perm K ∧ F.canon K' = some (tg, hs) ∧ tg.Pairwise Sorted.PLt ∧
      proofUndoDel ⟨tgK1.map (E F.rows), hsK1⟩ (tgD.map (E F.rows)) D K (tgD.map (E F.rows)) hsD
          (BitVec.ofNat 64 F.numLeaves) = .ok (⟨tg.map (E F.rows), hs⟩, K') := by
  have hn1 : (F.delLeaves D).numLeaves = F.numLeaves := delLeaves_numLeaves F D
  have hn1' : (F.delLeaves D).numLeaves ≤ 2 ^ 63 := by rw [hn1]; exact hn
  have hR1 : (F.delLeaves D).rows = F.rows := by unfold Forest.rows; rw [hn1]
  have hrows := rows_le_63 hn
  have hRF : F.rows = forestRows F.numLeaves := rfl
  have hK : K.Nodup := by
    have h1 := hsorted1
    rw [canon_targets_eq hcK1, List.pairwise_map] at h1
    exact h1.imp (fun {a b} hab e => by rw [e] at hab; exact PLt.irrefl _ hab)
  by_cases hDe : D = []
  · -- no deletion: nothing to undo
    subst hDe
    have hc0 := canon_spec hcD
    have htg : tgD = [] := by rw [hc0.1]; rfl
    subst htg
    rw [delLeaves_nil] at hcK1
    refine ⟨K, tgK1, hsK1, List.Perm.refl _, hcK1, hsorted1, ?_⟩
    unfold proofUndoDel
    simp
    rfl
  -- the deleted and the cached leaves
  have hliveD : ∀ x ∈ D, x ∈ F.liveLeaves := by
    intro x hx
    obtain ⟨p, hp⟩ := (canon_spec hcD).2.1 x hx
    exact Spec.live_of_posOf hp
  have hKlive : ∀ x ∈ K, x ∈ F.liveLeaves ∧ x ∉ D := by
    intro x hx
    obtain ⟨p, hp⟩ := (canon_spec hcK1).2.1 x hx
    exact LiveLeaves.mem_liveLeaves_delLeaves.1 (Spec.live_of_posOf hp)
  obtain ⟨tgK, hsK, hcK⟩ := CanonTotal.canon_total hn (fun l hl => (hKlive l hl).1)
  have hKD : ∀ x ∈ K, x ∉ D := fun x hx => (hKlive x hx).2
  -- the maximal deleted subtrees
  obtain ⟨dtp, hdt1, hdt0, hdts, hdt, hnosib⟩ := deTwin_spec' hn hnd hD hliveD
  have hDtList : DtList dtp :=
    ⟨hdts.imp (fun {a b} hab => by rcases hab with h1 | h1 <;> omega),
     hdts.imp (fun {a b} hab => PLt.ne hab), hnosib⟩
  -- the sorted result
  let KPs := sortedPairs F K
  have hKPsperm : (KPs.map (·.2)).Perm K := by
    have := (sortedPairs_perm hn hcK hK).map (·.2)
    rw [List.map_map] at this
    have e : ((fun z : Pos × H => z.2) ∘ fun x => (posD F x, x)) = id := rfl
    rw [e, List.map_id] at this
    exact this
  obtain ⟨tgKs, hsKs, hcKs⟩ := CanonTotal.canon_total hn
    (fun l hl => (hKlive l (hKPsperm.mem_iff.1 hl)).1)
  have htgKs : tgKs = KPs.map (·.1) := by
    rw [canon_targets_eq hcKs, List.map_map]
    apply List.map_congr_left
    intro z hz
    exact (sortedPairs_mem hn hcK hK hz).2.1.symm
  have hsortedKs : tgKs.Pairwise Sorted.PLt := by
    rw [htgKs]; exact sortedPairs_sorted hn hcK hK
  refine ⟨KPs.map (·.2), tgKs, hsKs, hKPsperm, hcKs, hsortedKs, ?_⟩
  -- the loops
  obtain ⟨hLT, hQ, htw0, hpw0, htr0⟩ := undoDel_setup hn hnd hK hcD hcK hcK1 hKD hdts hdt
  -- the de-twinned block targets with their hashes
  have e1 := toHashAndPos_cached hn1' hcK1 hK
  rw [hR1] at e1
  have e3 := oldProofs_eq hn1' hcK1 hK
  rw [hR1] at e3
  have e4 := toHashAndPos_cached hn hcD hD
  have hdpos : HP.positions ((sortedPairs F D).map (enc2 F.rows)) =
      (Forest.sortDedup (leafPositions F D)).map (E F.rows) := by
    rw [← hdt0, positions_enc2, List.map_map]
    unfold sortedPairs
    have := ProofOps.map_sortBy (fun z : Pos × H => E F.rows z.1) (D.map (fun x => (posD F x, x)))
    rw [show (E F.rows ∘ fun x : Pos × H => x.1) = (fun z : Pos × H => E F.rows z.1) from rfl,
      this, List.map_map, List.map_map]
    rfl
  have hbtpos : HP.positions (deTwinHashAndPos ((sortedPairs F D).map (enc2 F.rows)) (H8 F.rows)) =
      dtp.map (E F.rows) := by
    rw [deTwinHashAndPos_positions hn hnd hD hliveD _ hdpos, hdpos, ← hdt0]
    exact hdt1
  obtain ⟨hbt, hbtP⟩ := zip_of_fst (E F.rows)
    (deTwinHashAndPos ((sortedPairs F D).map (enc2 F.rows)) (H8 F.rows)) dtp hbtpos
  generalize hbtPdef : dtp.zip ((deTwinHashAndPos ((sortedPairs F D).map (enc2 F.rows))
    (H8 F.rows)).map (·.2)) = btP at hbt hbtP
  rw [← hbtP] at hDtList hLT hQ htw0 hpw0 htr0
  obtain ⟨tw', pw', np', hloop, htw', hpw', htr', hnp'⟩ := outer_loop hn btP _ _ [] hDtList hLT hQ
    htw0 hpw0 htr0 List.Pairwise.nil
  -- the block proof
  have hdh : (match (some D : Option (List H)) with
      | some hs => hs
      | none => (tgD.map (E F.rows)).map (fun _ => zero)) = tgD.map (valAt CTree.hash F) := by
    rw [canon_target_vals hcD]
    simp [CTree.hash]
  obtain ⟨r, hcalc, _, _, hnodes⟩ := calc_generic hn hnz hlive hD hcD CTree.hash
    (fun a b ga gb => hash_node_comb hnz ga gb) (fun _ _ _ _ _ _ _ => rfl) (some D) hdh []
  rw [List.append_nil] at hcalc
  have tokD := canon_targetsOK hcD
  have tokKs := canon_targetsOK hcKs
  have tokK := canon_targetsOK hcK
  -- the targets after the loops
  have htwfinal : tw' = KPs.map (enc2 F.rows) := by
    apply eq_of_keysorted htw'.1
    · rw [List.pairwise_map]; exact sortedPairs_keys hn hcK hK
    intro x
    rw [htw'.2.mem_iff, ((sortedPairs_perm hn hcK hK).map (enc2 F.rows)).mem_iff, List.map_map,
      List.map_map]
    rfl
  -- the needed positions
  have hppeq : F.proofPositions tgKs = F.proofPositions tgK := by
    rw [htgKs]; exact proofPositions_congr F (sortedPairs_fst_mem hn hcK hK)
  have e6 : (ProofPositions ((KPs.map (·.1)).map (E F.rows)) (BitVec.ofNat 64 F.numLeaves)
      (H8 F.rows)).1 = (F.proofPositions tgKs).map (E F.rows) := by
    have := proofPositions_model hn tokKs hsortedKs
    rw [htgKs] at this ⊢
    exact this
  -- the hashes of the block proof
  have hbsorted : r.nodes.Pairwise (fun a b => a.1 < b.1) := by
    rw [hnodes, List.pairwise_map]
    apply List.Pairwise.imp_of_mem _ (pathSet_sorted F tgD)
    intro a b ha hb hab
    obtain ⟨h1, t1, s1⟩ := pathSet_sub tokD ha
    obtain ⟨h2, t2, s2⟩ := pathSet_sub tokD hb
    exact (E_lt_iff hrows s1.inF.valid s2.inF.valid).2 hab
  have e7 : subsetHP (mergeHP (udReplace (mergeHP pw' np') r.nodes []) r.nodes)
      ((F.proofPositions tgKs).map (E F.rows)) = (ppPairs F tgKs).map (enc2 F.rows) := by
    rw [subsetHP_eq_filterMap _ _ (final_sorted _ _ _ (pairwise_le_of_lt hpw'.1) hnp'
      (pairwise_le_of_lt hbsorted)) (pp_keys hn tokKs), List.filterMap_map]
    unfold ppPairs
    rw [List.map_map]
    conv => rhs; rw [← List.filterMap_eq_map]
    apply filterMap_congr'
    intro q hq
    simp only [Function.comp]
    rw [lookup_final _ _ _ (pairwise_le_of_lt hpw'.1) hnp' (pairwise_le_of_lt hbsorted)]
    obtain ⟨h, t, s⟩ := pp_node tokKs hq
    by_cases hpath : q ∈ pathSet F tgD
    · have hin : (E F.rows q, valAt CTree.hash F q) ∈ r.nodes := by
        rw [hnodes]
        exact List.mem_map.2 ⟨q, hpath, rfl⟩
      rw [lookupHP_of_mem hbsorted hin]
      simp only [Option.map_some, enc2]
      rw [valAt_of s, s.nodeAt]
      rfl
    · have hnone : lookupHP r.nodes (E F.rows q) = none := by
        rw [lookupHP_eq_none, hnodes]
        intro hm
        obtain ⟨z, hz, e⟩ := mem_positions.1 hm
        obtain ⟨p, hp, rfl⟩ := List.mem_map.1 hz
        obtain ⟨h2, t2, s2⟩ := pathSet_sub tokD hp
        have := E_inj hrows s2.inF.valid s.inF.valid e
        rw [this] at hp
        exact hpath hp
      rw [hnone]
      simp only
      have hQm : (q, (F.nodeAt q).getD zero) ∈
          ((F.proofPositions tgK).filter (fun q => decide (q ∉ pathSet F tgD))).map
            (fun q => (q, (F.nodeAt q).getD zero)) := by
        refine List.mem_map.2 ⟨q, List.mem_filter.2 ⟨by rw [← hppeq]; exact hq, by simpa using hpath⟩,
          rfl⟩
      have := htr' _ hQm
      simp only [mv, moveA] at this
      have this' : (E F.rows q, (F.nodeAt q).getD zero) ∈ pw' := this
      rw [lookupHP_of_mem hpw'.1 this']
      rfl
  have hne : (tgD.map (E F.rows)).isEmpty = false := by
    cases hD' : D with
    | nil => exact absurd hD' hDe
    | cons x t =>
      have := canon_targets_length hcD
      rw [hD'] at this
      cases tgD with
      | nil => simp at this
      | cons a b => rfl
  unfold proofUndoDel
  simp only [hne, treeRows_eq' hn]
  rw [← hRF]
  simp only [Bool.false_eq_true, if_false, e1, ok_bind', positions_enc2]
  have e2 : (ProofPositions (((sortedPairs (F.delLeaves D) K).map (·.1)).map (E F.rows))
      (BitVec.ofNat 64 F.numLeaves) (H8 F.rows)).1 =
      ((F.delLeaves D).proofPositions tgK1).map (E F.rows) := by
    have := proofPositions_model hn1' (sortedPairs_targetsOK hn1' hcK1 hK)
      (sortedPairs_sorted hn1' hcK1 hK)
    rw [hn1, hR1] at this
    rw [this, proofPositions_congr _ (sortedPairs_fst_mem hn1' hcK1 hK)]
  have hbt' : deTwinHashAndPos ((sortedPairs F D).map (enc2 F.rows)) (H8 F.rows) =
      btP.map (enc2 F.rows) := hbt
  have hloop' : udOuter (BitVec.ofNat 64 F.numLeaves) (H8 F.rows) ((btP.map (enc2 F.rows)).reverse)
      ((sortedPairs (F.delLeaves D) K).map (enc2 F.rows))
      ((ppPairs (F.delLeaves D) tgK1).map (enc2 F.rows)) [] = .ok (tw', pw', np') := hloop
  simp only [e2, e3, e4, ok_bind', hbt', hloop', hcalc, htwfinal, positions_enc2, e6, e7]
  show Out.ok _ = Out.ok _
  congr 2
  · congr 1
    · rw [htgKs]
    · rw [(canon_spec hcKs).2.2.1]
      simp [HP.hashes, ppPairs, enc2]
  · simp only [HP.hashes, List.map_map]
    rfl

end main

end UtreexoVerif.Proofs.ProofUndoDel
