/-
  Geometry of lifting a subtree onto its parent (`liftP` / `unliftP` of `Proofs/MapRep.lean`),
  in (row, offset) terms: ancestors, parents, siblings and children commute with the lift.
-/
import UtreexoVerif.Proofs.MapRep

namespace UtreexoVerif.Proofs.MapLiftGeo
open UtreexoVerif Model Spec Spec.Forest Proofs MapAL MapInv MapPrune MapRep
set_option linter.unusedSectionVars false

/-! ### ancestors -/

theorem Anc.trans {a b c : Pos} (h1 : Anc a b) (h2 : Anc b c) : Anc a c := by
  obtain ⟨r1, e1⟩ := h1
  obtain ⟨r2, e2⟩ := h2
  refine ⟨by omega, ?_⟩
  rw [e1, e2, Nat.div_div_eq_div_mul, ← Nat.pow_add]
  congr 2; omega

/-- two ancestors of one node are comparable -/
theorem Anc.comparable {a b t : Pos} (h1 : Anc a t) (h2 : Anc b t) (hle : a.1 ≤ b.1) : Anc b a := by
  obtain ⟨r1, e1⟩ := h1
  obtain ⟨r2, e2⟩ := h2
  refine ⟨hle, ?_⟩
  rw [e1, e2, Nat.div_div_eq_div_mul, ← Nat.pow_add]
  congr 2; omega

theorem Anc.antisymm {a b : Pos} (h1 : Anc a b) (h2 : Anc b a) : a = b :=
  h1.eq_of_row (by have := h1.1; have := h2.1; omega)

theorem Anc.row_le {a b : Pos} (h : Anc a b) : b.1 ≤ a.1 := h.1

theorem anc_parent_self (q : Pos) : Anc (parent q) q := (Anc.refl q).parent

theorem anc_parent_sib (q : Pos) : Anc (parent q) (sib q) := by
  rw [← parent_sib]; exact anc_parent_self _

theorem not_anc_sib (q : Pos) : ¬ Anc q (sib q) := by
  intro h
  have := h.eq_of_row (by rw [sib_fst])
  exact sib_ne q this.symm

theorem anc_parentR_iff {q t : Pos} : Anc q (parent t) ↔ Anc q t ∧ t.1 < q.1 := by
  constructor
  · rintro ⟨a1, a2⟩
    have a1' : t.1 + 1 ≤ q.1 := a1
    have a2' : q.2 = t.2 / 2 / 2 ^ (q.1 - (t.1 + 1)) := a2
    refine ⟨⟨by omega, ?_⟩, by omega⟩
    rw [a2', Nat.div_div_eq_div_mul, ← Nat.pow_succ', show (q.1 - (t.1 + 1)).succ = q.1 - t.1 by omega]
  · rintro ⟨⟨a1, a2⟩, hlt⟩
    refine ⟨by show t.1 + 1 ≤ q.1; omega, ?_⟩
    show q.2 = t.2 / 2 / 2 ^ (q.1 - (t.1 + 1))
    rw [a2, Nat.div_div_eq_div_mul, ← Nat.pow_succ', show (q.1 - (t.1 + 1)).succ = q.1 - t.1 by omega]

/-- `SUnder p q`: in terms of the parent of `q` -/
theorem sunder_iff_parent {p q : Pos} : SUnder p q ↔ Anc p (parent q) := by
  rw [anc_parentR_iff]; rfl

theorem sunder_parent_iff {σ z : Pos} : SUnder (parent σ) z ↔ Anc σ z ∨ Anc (sib σ) z := by
  unfold SUnder
  constructor
  · rintro ⟨h, hlt⟩
    have hle : z.1 ≤ σ.1 := by have : (parent σ).1 = σ.1 + 1 := rfl; omega
    exact (anc_parent_cases hle).1 h
  · rintro (h | h)
    · exact ⟨h.parent, by have := h.1; show z.1 < σ.1 + 1; omega⟩
    · have := h.parent
      rw [parent_sib] at this
      exact ⟨this, by have := h.1; rw [sib_fst] at this; show z.1 < σ.1 + 1; omega⟩

theorem anc_parent_iff' {σ z : Pos} : Anc (parent σ) z ↔ z = parent σ ∨ Anc σ z ∨ Anc (sib σ) z := by
  constructor
  · intro h
    by_cases hr : z.1 < (parent σ).1
    · exact Or.inr (sunder_parent_iff.1 ⟨h, hr⟩)
    · left
      exact (h.eq_of_row (by have := h.1; omega)).symm
  · rintro (rfl | h | h)
    · exact Anc.refl _
    · exact h.parent
    · have := h.parent; rwa [parent_sib] at this

/-- nothing lies below both a node and its sibling -/
theorem not_anc_both {σ z : Pos} (h1 : Anc σ z) (h2 : Anc (sib σ) z) : False := by
  have := Anc.comparable h1 h2 (by rw [sib_fst]; exact Nat.le_refl _)
  exact not_anc_sib (sib σ) (by rw [sib_sib]; exact this)

theorem pow_pos' (k : Nat) : 0 < 2 ^ k := Nat.two_pow_pos k

/-! ### normal forms -/

/-- offset of a node below `σ`: `σ.2 * 2^k + (low k bits)` -/
theorem anc_offset {σ c : Pos} (h : Anc σ c) : c.2 = 2 ^ (σ.1 - c.1) * σ.2 + c.2 % 2 ^ (σ.1 - c.1) := by
  rw [h.2]; exact (Nat.div_add_mod _ _).symm

theorem liftP_of_anc {σ c : Pos} (h : Anc σ c) :
    liftP σ c = (c.1 + 1, 2 ^ (σ.1 - c.1) * (σ.2 / 2) + c.2 % 2 ^ (σ.1 - c.1)) := by
  unfold liftP removeBitNat
  rw [Nat.pow_succ, ← Nat.div_div_eq_div_mul, ← h.2]

theorem liftP_fst (σ c : Pos) : (liftP σ c).1 = c.1 + 1 := rfl

theorem liftP_self (σ : Pos) : liftP σ σ = parent σ := by
  rw [liftP_of_anc (Anc.refl σ)]
  simp [parent, Nat.mod_one]

theorem mul_add_div_pow (k x r : Nat) (hr : r < 2 ^ k) : (2 ^ k * x + r) / 2 ^ k = x := by
  rw [Nat.mul_add_div (pow_pos' k), Nat.div_eq_of_lt hr, Nat.add_zero]

theorem mul_add_mod_pow (k x r : Nat) (hr : r < 2 ^ k) : (2 ^ k * x + r) % 2 ^ k = r := by
  rw [Nat.mul_add_mod, Nat.mod_eq_of_lt hr]

/-- the lifted node lies below the parent of `σ` -/
theorem anc_parent_liftP {σ c : Pos} (h : Anc σ c) : Anc (parent σ) (liftP σ c) := by
  rw [liftP_of_anc h]
  refine ⟨by show c.1 + 1 ≤ σ.1 + 1; have := h.1; omega, ?_⟩
  show σ.2 / 2 = _ / 2 ^ (σ.1 + 1 - (c.1 + 1))
  rw [show σ.1 + 1 - (c.1 + 1) = σ.1 - c.1 by omega, mul_add_div_pow _ _ _ (Nat.mod_lt _ (pow_pos' _))]

theorem sunder_parent_liftP {σ c : Pos} (h : SUnder σ c) : SUnder (parent σ) (liftP σ c) :=
  ⟨anc_parent_liftP h.1, by show c.1 + 1 < σ.1 + 1; have := h.2; omega⟩

/-! ### `unliftP` -/

theorem unliftP_of_sunder {σ q : Pos} (h : SUnder (parent σ) q) (h1 : 1 ≤ q.1) :
    unliftP σ q = (q.1 - 1, 2 ^ (σ.1 + 1 - q.1) * σ.2 + q.2 % 2 ^ (σ.1 + 1 - q.1)) := by
  unfold unliftP addBitNat
  have hq : q.2 / 2 ^ (σ.1 + 1 - q.1) = σ.2 / 2 := by
    have := h.1.2
    show q.2 / 2 ^ (σ.1 + 1 - q.1) = σ.2 / 2
    exact this.symm
  rw [hq]
  have : 2 * (σ.2 / 2) + (decide (σ.2 % 2 = 1)).toNat = σ.2 := by
    by_cases hb : σ.2 % 2 = 1
    · simp [hb]; omega
    · simp [hb]; omega
  rw [this]

theorem anc_unliftP {σ q : Pos} (h : SUnder (parent σ) q) (h1 : 1 ≤ q.1) : SUnder σ (unliftP σ q) := by
  rw [unliftP_of_sunder h h1]
  have hlt : q.1 < σ.1 + 1 := h.2
  refine ⟨⟨by show q.1 - 1 ≤ σ.1; omega, ?_⟩, by show q.1 - 1 < σ.1; omega⟩
  show σ.2 = _ / 2 ^ (σ.1 - (q.1 - 1))
  rw [show σ.1 - (q.1 - 1) = σ.1 + 1 - q.1 by omega, mul_add_div_pow _ _ _ (Nat.mod_lt _ (pow_pos' _))]

theorem liftP_unliftP {σ q : Pos} (h : SUnder (parent σ) q) (h1 : 1 ≤ q.1) : liftP σ (unliftP σ q) = q := by
  have hlt : q.1 < σ.1 + 1 := h.2
  unfold liftP unliftP
  simp only
  rw [show σ.1 - (q.1 - 1) = σ.1 + 1 - q.1 by omega, removeBitNat_addBitNat, Nat.sub_add_cancel h1]

theorem unliftP_liftP {σ c : Pos} (h : Anc σ c) : unliftP σ (liftP σ c) = c := by
  unfold liftP unliftP
  simp only
  have hb : decide (σ.2 % 2 = 1) = c.2.testBit (σ.1 - c.1) := by
    rw [Nat.testBit_eq_decide_div_mod_eq, ← h.2]
  rw [show σ.1 + 1 - (c.1 + 1) = σ.1 - c.1 by omega, hb, addBitNat_removeBitNat, Nat.add_sub_cancel]

theorem liftP_inj {σ a b : Pos} (ha : Anc σ a) (hb : Anc σ b) (h : liftP σ a = liftP σ b) : a = b := by
  rw [← unliftP_liftP ha, ← unliftP_liftP hb, h]

/-- every node strictly below `parent σ` on a row `≥ 1` is the lift of a node strictly below `σ` -/
theorem exists_liftP {σ q : Pos} (h : SUnder (parent σ) q) (h1 : 1 ≤ q.1) :
    ∃ c, SUnder σ c ∧ liftP σ c = q := ⟨unliftP σ q, anc_unliftP h h1, liftP_unliftP h h1⟩

/-! ### parent, sibling, ancestors commute with the lift -/

theorem anc_parent_of_sunder {σ c : Pos} (h : SUnder σ c) : Anc σ (parent c) := sunder_iff_parent.1 h

theorem liftP_parent {σ c : Pos} (h : SUnder σ c) : liftP σ (parent c) = parent (liftP σ c) := by
  have hp := anc_parent_of_sunder h
  rw [liftP_of_anc hp, liftP_of_anc h.1]
  have hlt := h.2
  show (c.1 + 1 + 1, _) = (c.1 + 1 + 1, _ / 2)
  congr 1
  show 2 ^ (σ.1 - (c.1 + 1)) * (σ.2 / 2) + c.2 / 2 % 2 ^ (σ.1 - (c.1 + 1)) = _
  have e : σ.1 - c.1 = (σ.1 - (c.1 + 1)) + 1 := by omega
  rw [e, Nat.pow_succ]
  generalize 2 ^ (σ.1 - (c.1 + 1)) = M
  generalize σ.2 / 2 = X
  show M * X + c.2 / 2 % M = (M * 2 * X + c.2 % (M * 2)) / 2
  rw [Nat.mul_comm M 2, Nat.mul_assoc, Nat.mul_add_div (by decide), Nat.mod_mul_right_div_self]

theorem sunder_sib {σ c : Pos} (h : SUnder σ c) : SUnder σ (sib c) := by
  have hp := anc_parent_of_sunder h
  rw [← parent_sib] at hp
  exact ⟨(sunder_iff_parent.2 hp).1, by rw [sib_fst]; exact h.2⟩

theorem sib_snd (c : Pos) : (sib c).2 = if c.2 % 2 = 0 then c.2 + 1 else c.2 - 1 := rfl

theorem liftP_sib {σ c : Pos} (h : SUnder σ c) : liftP σ (sib c) = sib (liftP σ c) := by
  have hs := sunder_sib h
  rw [liftP_of_anc hs.1, liftP_of_anc h.1]
  have hlt := h.2
  rw [sib_fst]
  show (c.1 + 1, _) = (c.1 + 1, _)
  congr 1
  show 2 ^ (σ.1 - c.1) * (σ.2 / 2) + (if c.2 % 2 = 0 then c.2 + 1 else c.2 - 1) % 2 ^ (σ.1 - c.1) =
    if (2 ^ (σ.1 - c.1) * (σ.2 / 2) + c.2 % 2 ^ (σ.1 - c.1)) % 2 = 0 then
      2 ^ (σ.1 - c.1) * (σ.2 / 2) + c.2 % 2 ^ (σ.1 - c.1) + 1
    else 2 ^ (σ.1 - c.1) * (σ.2 / 2) + c.2 % 2 ^ (σ.1 - c.1) - 1
  have e : σ.1 - c.1 = (σ.1 - (c.1 + 1)) + 1 := by omega
  rw [e, Nat.pow_succ]
  generalize 2 ^ (σ.1 - (c.1 + 1)) = M
  generalize σ.2 / 2 = X
  have hm : c.2 % (M * 2) % 2 = c.2 % 2 := by
    rw [Nat.mul_comm]; exact Nat.mod_mul_right_mod _ _ _
  have hpar : (M * 2 * X + c.2 % (M * 2)) % 2 = c.2 % 2 := by
    rw [Nat.mul_assoc, Nat.mul_comm M, Nat.mul_assoc, Nat.mul_add_mod, hm]
  rw [hpar]
  by_cases hM : M = 0
  · subst hM; simp
  have hMpos : 0 < M := by omega
  have hlt2 : c.2 % (M * 2) < M * 2 := Nat.mod_lt _ (by omega)
  split
  · rename_i he
    have : (c.2 + 1) % (M * 2) = c.2 % (M * 2) + 1 := by
      have hlt3 : c.2 % (M * 2) + 1 < M * 2 := by
        have : c.2 % (M * 2) % 2 = 0 := by rw [hm]; exact he
        omega
      rw [Nat.add_mod, Nat.mod_eq_of_lt (show 1 < M * 2 by omega), Nat.mod_eq_of_lt hlt3]
    rw [this]; omega
  · rename_i he
    have h1 : c.2 % 2 = 1 := by omega
    have hpos : 1 ≤ c.2 % (M * 2) := by
      have : c.2 % (M * 2) % 2 = 1 := by rw [hm]; exact h1
      omega
    have : (c.2 - 1) % (M * 2) = c.2 % (M * 2) - 1 := by
      have hc : c.2 = M * 2 * (c.2 / (M * 2)) + c.2 % (M * 2) := (Nat.div_add_mod _ _).symm
      have : c.2 - 1 = M * 2 * (c.2 / (M * 2)) + (c.2 % (M * 2) - 1) := by omega
      rw [this, Nat.mul_add_mod, Nat.mod_eq_of_lt (by omega)]
    rw [this]; omega

/-- the lift preserves and reflects the ancestor relation below `σ` -/
theorem anc_liftP_iff {σ a b : Pos} (ha : Anc σ a) (hb : Anc σ b) :
    Anc (liftP σ a) (liftP σ b) ↔ Anc a b := by
  constructor
  · intro h
    have hrow : b.1 ≤ a.1 := by have := h.1; simp only [liftP_fst] at this; omega
    -- induction on the row difference, via parents
    have key : ∀ d (b : Pos), Anc σ b → a.1 = b.1 + d → Anc (liftP σ a) (liftP σ b) → Anc a b := by
      intro d
      induction d with
      | zero =>
        intro b hb hd h
        have := h.eq_of_row (by simp only [liftP_fst]; omega)
        rw [liftP_inj ha hb this]; exact Anc.refl _
      | succ d ih =>
        intro b hb hd h
        have hsu : SUnder σ b := ⟨hb, by have := ha.1; omega⟩
        have hp : Anc (liftP σ a) (parent (liftP σ b)) := by
          rw [anc_parentR_iff]
          exact ⟨h, by simp only [liftP_fst]; omega⟩
        rw [← liftP_parent hsu] at hp
        have := ih (parent b) (anc_parent_of_sunder hsu) (by show a.1 = b.1 + 1 + d; omega) hp
        exact Anc.trans this (anc_parent_self b)
    exact key (a.1 - b.1) b hb (by omega) h
  · intro h
    have key : ∀ d (b : Pos), Anc σ b → a.1 = b.1 + d → Anc a b → Anc (liftP σ a) (liftP σ b) := by
      intro d
      induction d with
      | zero =>
        intro b hb hd h
        rw [h.eq_of_row (by omega)]; exact Anc.refl _
      | succ d ih =>
        intro b hb hd h
        have hsu : SUnder σ b := ⟨hb, by have := ha.1; omega⟩
        have hp : Anc a (parent b) := by
          rw [anc_parentR_iff]; exact ⟨h, by omega⟩
        have := ih (parent b) (anc_parent_of_sunder hsu) (by show a.1 = b.1 + 1 + d; omega) hp
        rw [liftP_parent hsu] at this
        exact Anc.trans this (anc_parent_self _)
    exact key (a.1 - b.1) b hb (by have := h.1; omega) h

/-- a node below `parent σ` that is a lift: its pre-image is unique and lies below `σ` -/
theorem liftP_eq_iff {σ c q : Pos} (hc : Anc σ c) : liftP σ c = q ↔ (Anc (parent σ) q ∧ 1 ≤ q.1 ∧
    c = if q = parent σ then σ else unliftP σ q) := by
  constructor
  · rintro rfl
    refine ⟨anc_parent_liftP hc, by simp [liftP_fst], ?_⟩
    split
    · rename_i he
      rw [← liftP_self] at he
      exact liftP_inj hc (Anc.refl σ) he
    · exact (unliftP_liftP hc).symm
  · rintro ⟨h1, h2, h3⟩
    split at h3
    · rename_i he; rw [h3, he]; exact liftP_self σ
    · rename_i hne
      have hs : SUnder (parent σ) q := ⟨h1, by
        have := h1.1
        have hr : q.1 ≠ (parent σ).1 := fun e => hne (h1.eq_of_row e.symm).symm
        omega⟩
      rw [h3]; exact liftP_unliftP hs h2

/-- children: the two children of a node `c` with `1 ≤ c.1` -/
def childP (c : Pos) (b : Nat) : Pos := (c.1 - 1, 2 * c.2 + b)

theorem parent_childP {c : Pos} (h1 : 1 ≤ c.1) {b : Nat} (hb : b < 2) : parent (childP c b) = c := by
  obtain ⟨r, o⟩ := c
  simp only at h1
  show (r - 1 + 1, (2 * o + b) / 2) = (r, o)
  rw [Nat.sub_add_cancel h1]
  congr 1; omega

theorem sunder_childP {σ c : Pos} (h : Anc σ c) (h1 : 1 ≤ c.1) {b : Nat} (hb : b < 2) : SUnder σ (childP c b) := by
  rw [sunder_iff_parent, parent_childP h1 hb]; exact h

theorem liftP_childP {σ c : Pos} (h : Anc σ c) (h1 : 1 ≤ c.1) {b : Nat} (hb : b < 2) :
    liftP σ (childP c b) = childP (liftP σ c) b := by
  have hs := sunder_childP h h1 hb
  have hp := liftP_parent hs
  rw [parent_childP h1 hb] at hp
  -- both sides have parent `liftP σ c` and the same parity
  have hrow : (liftP σ (childP c b)).1 = (childP (liftP σ c) b).1 := by
    show c.1 - 1 + 1 = c.1 + 1 - 1; omega
  have hpar : (liftP σ (childP c b)).2 % 2 = b := by
    rw [liftP_of_anc hs.1]
    show (2 ^ (σ.1 - (c.1 - 1)) * (σ.2 / 2) + (2 * c.2 + b) % 2 ^ (σ.1 - (c.1 - 1))) % 2 = b
    have hle := h.1
    have e : σ.1 - (c.1 - 1) = (σ.1 - c.1) + 1 := by omega
    rw [e, Nat.pow_succ, Nat.mul_comm _ 2, Nat.mul_assoc, Nat.mul_add_mod, Nat.mod_mul_right_mod]
    omega
  have hhalf : (liftP σ (childP c b)).2 / 2 = (liftP σ c).2 := by
    have := congrArg Prod.snd hp
    exact this.symm
  apply Prod.ext
  · exact hrow
  · show (liftP σ (childP c b)).2 = 2 * (liftP σ c).2 + b
    omega

end UtreexoVerif.Proofs.MapLiftGeo
