/-
  Layer 2 (for `Undo`): un-step B, the inverse of `MapAddSteps.stepB` — one iteration of
  `undoSingleAddLoop` that restores an empty root.

  The state tracks `N'`, in which the accumulated tree sits at the ROOT `P = parent σ` (lifted over
  the empty root `sib σ`).  The node at `P` is dropped (its hash leaves the cache: `dropC`), the rest
  of the subtree moves back down below `σ` (`placeEmptyRoot`: `unliftA` / `unliftC`), and the empty
  root is re-created at `sib σ`.  Afterwards the state tracks `N`.
-/
import UtreexoVerif.Proofs.MapUnliftCore
import UtreexoVerif.Proofs.PForestAdd

namespace UtreexoVerif.Proofs.MapUndoSteps
open UtreexoVerif Model Spec Spec.Forest Proofs MapInv MapPrune MapRep MapLiftGeo PForest MapAInv MapLiftCore
  MapUndoDefs Hasher
set_option linter.unusedSectionVars false

variable {H : Type} [DecidableEq H] [Hasher H]

/-- the cache after the node at `q` has been dropped by `undoSingleAddLoop` -/
def dropC (q : Pos) (A : Pos → Option (Leaf H)) (C : H → Option Pos) : H → Option Pos :=
  match A q with
  | some l => upd C l.hash none
  | none => C

/-! ### the store and the cache after the step -/

section
variable {A : Pos → Option (Leaf H)} {C : H → Option Pos} {σ : Pos}

/-- the store after un-step B -/
abbrev unstepA (σ : Pos) (A : Pos → Option (Leaf H)) : Pos → Option (Leaf H) :=
  upd (unliftA σ (upd A (parent σ) none)) (sib σ) (some ⟨zero, true⟩)

theorem unstepA_sib : unstepA σ A (sib σ) = some ⟨zero, true⟩ := by
  simp [unstepA]

theorem unstepA_under {q : Pos} (hq : SUnder σ q) : unstepA σ A q = A (liftP σ q) := by
  have h1 : q ≠ sib σ := by
    intro e
    rw [e] at hq
    exact not_anc_sib σ hq.1
  have h2 : liftP σ q ≠ parent σ := by
    intro e
    have := (sunder_parent_liftP hq).2
    rw [e] at this; omega
  unfold unstepA
  rw [upd_ne _ _ h1]
  unfold unliftA
  rw [if_pos hq, upd_ne _ _ h2]

theorem unstepA_out {q : Pos} (hq : ¬ Anc (parent σ) q) : unstepA σ A q = A q := by
  have h1 : q ≠ sib σ := fun e => hq (e ▸ anc_parent_sib σ)
  have h2 : q ≠ parent σ := fun e => hq (e ▸ Anc.refl _)
  have h3 : ¬ SUnder σ q := fun h => hq (Anc.trans (anc_parent_self σ) h.1)
  have h4 : ¬ SUnder (parent σ) q := fun h => hq h.1
  unfold unstepA
  rw [upd_ne _ _ h1]
  unfold unliftA
  rw [if_neg h3, if_neg h4, upd_ne _ _ h2]

theorem unstepA_none {q : Pos} (hq : Anc (parent σ) q) (h1 : ¬ SUnder σ q) (h2 : q ≠ sib σ) :
    unstepA σ A q = none := by
  unfold unstepA
  rw [upd_ne _ _ h2]
  unfold unliftA
  rw [if_neg h1]
  by_cases h4 : SUnder (parent σ) q
  · rw [if_pos h4]
  · rw [if_neg h4]
    have : q = parent σ := by
      apply Classical.byContradiction
      intro hne
      exact h4 (sunder_of_anc_ne hq hne)
    rw [this, upd_self]

theorem unstep_cases (σ q : Pos) : q = sib σ ∨ SUnder σ q ∨
    (Anc (parent σ) q ∧ ¬ SUnder σ q ∧ q ≠ sib σ) ∨ ¬ Anc (parent σ) q := by
  by_cases h1 : q = sib σ
  · exact Or.inl h1
  by_cases h2 : SUnder σ q
  · exact Or.inr (Or.inl h2)
  by_cases h3 : Anc (parent σ) q
  · exact Or.inr (Or.inr (Or.inl ⟨h3, h2, h1⟩))
  · exact Or.inr (Or.inr (Or.inr h3))

/-- the domain of the cache after the step: the hash of the node dropped at `P` is gone -/
theorem unstepC_dom (x : H) : (unliftC σ (dropC (parent σ) A C) x).isSome = true ↔
    ((C x).isSome = true ∧ ∀ l, A (parent σ) = some l → l.hash ≠ x) := by
  unfold unliftC dropC
  rw [Option.isSome_map]
  cases hA : A (parent σ) with
  | none => simp
  | some l =>
    simp only [Option.some.injEq, forall_eq']
    by_cases hx : x = l.hash
    · subst hx; simp [upd_self]
    · rw [upd_ne _ _ hx]
      constructor
      · intro h; exact ⟨h, fun e => hx e.symm⟩
      · intro h; exact h.1

/-- the entries of the cache after the step -/
theorem unstepC_some {x : H} {t : Pos} (h : unliftC σ (dropC (parent σ) A C) x = some t) :
    ∃ p, C x = some p ∧ t = if SUnder (parent σ) p ∧ 1 ≤ p.1 then unliftP σ p else p := by
  unfold unliftC dropC at h
  cases hA : A (parent σ) with
  | none =>
    rw [hA] at h
    simp only at h
    cases hC : C x with
    | none => rw [hC] at h; cases h
    | some p =>
      rw [hC] at h
      simp only [Option.map_some, Option.some.injEq] at h
      exact ⟨p, rfl, h.symm⟩
  | some l =>
    rw [hA] at h
    simp only at h
    by_cases hx : x = l.hash
    · subst hx; rw [upd_self] at h; cases h
    · rw [upd_ne _ _ hx] at h
      cases hC : C x with
      | none => rw [hC] at h; cases h
      | some p =>
        rw [hC] at h
        simp only [Option.map_some, Option.some.injEq] at h
        exact ⟨p, rfl, h.symm⟩

end

/-! ### the relation between `N` and `N'` (`PForestAdd.stepB_pf`) -/

section
variable {N N' : List (Pos × H × Bool)} {σ : Pos}

theorem memB_out (hN' : ∀ e : Pos × H × Bool, e ∈ N' ↔ (¬ Anc (parent σ) e.1 ∧ e ∈ N) ∨
      (∃ c, Anc σ c ∧ e.1 = liftP σ c ∧ (c, e.2) ∈ N)) {z : Pos} (hz : ¬ Anc (parent σ) z) (h : H) (b : Bool) :
    (z, h, b) ∈ N' ↔ (z, h, b) ∈ N := by
  rw [hN']
  constructor
  · rintro (⟨_, hm⟩ | ⟨c, hc, he, _⟩)
    · exact hm
    · exact absurd (by rw [show z = liftP σ c from he]; exact anc_parent_liftP hc) hz
  · intro hm; exact Or.inl ⟨hz, hm⟩

theorem memB_lift (hN' : ∀ e : Pos × H × Bool, e ∈ N' ↔ (¬ Anc (parent σ) e.1 ∧ e ∈ N) ∨
      (∃ c, Anc σ c ∧ e.1 = liftP σ c ∧ (c, e.2) ∈ N)) {c : Pos} (hc : Anc σ c) (h : H) (b : Bool) :
    (liftP σ c, h, b) ∈ N' ↔ (c, h, b) ∈ N := by
  rw [hN']
  constructor
  · rintro (⟨hn, _⟩ | ⟨c', hc', he, hm⟩)
    · exact absurd (anc_parent_liftP hc) hn
    · have : c = c' := liftP_inj hc hc' he
      subst this; exact hm
  · intro hm; exact Or.inr ⟨c, hc, rfl, hm⟩

theorem memB_under (hN' : ∀ e : Pos × H × Bool, e ∈ N' ↔ (¬ Anc (parent σ) e.1 ∧ e ∈ N) ∨
      (∃ c, Anc σ c ∧ e.1 = liftP σ c ∧ (c, e.2) ∈ N)) {z : Pos} {h : H} {b : Bool}
    (hm : (z, h, b) ∈ N') (hz : Anc (parent σ) z) : ∃ c, Anc σ c ∧ z = liftP σ c ∧ (c, h, b) ∈ N := by
  rcases (hN' _).1 hm with ⟨hn, _⟩ | ⟨c, hc, he, hm'⟩
  · exact absurd hz hn
  · exact ⟨c, hc, he, hm'⟩

end

/-! ### the step -/

section
variable {A : Pos → Option (Leaf H)} {C : H → Option Pos} {N N' : List (Pos × H × Bool)}
  {R R' : Pos → Prop} {Kp : H → Prop}

/-- **un-step B** (one iteration of `undoSingleAddLoop` that restores an empty root; the inverse of
`MapAddSteps.stepB`): the state tracks `N'`, in which the accumulated tree sits at the ROOT
`P = parent σ` (lifted over the empty root `sib σ`); the node at `P` is dropped (its hash leaves
the cache), the rest of the subtree is moved back down below `σ` (`placeEmptyRoot`), and the empty
root is re-created at `sib σ`.  Afterwards the state tracks `N`, whose roots are `σ` and `sib σ`
instead of `P`. -/
theorem unstepB (L : Laws N R) (L' : Laws N' R')
    (inv : HInvP A C N' R' (fun x => (C x).isSome = true) Kp (fun _ => False)) {σ : Pos}
    (hρN : (sib σ, (zero : H), false) ∈ N) (hσR : R σ)
    (hN' : ∀ e : Pos × H × Bool, e ∈ N' ↔ (¬ Anc (parent σ) e.1 ∧ e ∈ N) ∨
      (∃ c, Anc σ c ∧ e.1 = liftP σ c ∧ (c, e.2) ∈ N))
    (hR' : ∀ z, R' z ↔ z = parent σ ∨ (R z ∧ z ≠ sib σ ∧ z ≠ σ)) :
    HInvP (upd (unliftA σ (upd A (parent σ) none)) (sib σ) (some ⟨zero, true⟩))
      (unliftC σ (dropC (parent σ) A C)) N R
      (fun x => (unliftC σ (dropC (parent σ) A C) x).isSome = true) Kp (fun _ => False) := by
  show HInvP (unstepA σ A) _ N R _ Kp _
  have nh : ¬ (fun _ : Pos => False) (0, 0) := fun c => c
  obtain ⟨hρR, _, hρbelow⟩ := L.zero_root (sib σ) false hρN
  obtain ⟨hσh, hσb, hσN⟩ := L.root_node σ hσR
  -- `P` is a root of `N'`, a node of `N'`, not a node of `N`
  have hRP : R' (parent σ) := (hR' _).2 (Or.inl rfl)
  have hPN' : (parent σ, hσh, hσb) ∈ N' := by
    rw [← liftP_self]; exact (memB_lift hN' (Anc.refl σ) _ _).2 hσN
  have hPnot : ∀ h f, (parent σ, h, f) ∉ N := by
    intro h f hm
    obtain ⟨r, hr, ha⟩ := L.under_root _ h f hm
    have := L.root_disj r σ σ hr hσR (Anc.trans ha (anc_parent_self σ)) (Anc.refl σ)
    subst this
    have h1 := ha.1
    have : (parent r).1 = r.1 + 1 := rfl
    omega
  -- a node of `N` in the region of `P` that is neither strictly below `σ` nor the empty root is `σ`
  have node_mid : ∀ q h b, (q, h, b) ∈ N → Anc (parent σ) q → ¬ SUnder σ q → q ≠ sib σ → q = σ := by
    intro q h b hm ha h1 h2
    rcases anc_parent_iff'.1 ha with e | e | e
    · rw [e] at hm; exact absurd hm (hPnot h b)
    · apply Classical.byContradiction
      intro hne
      exact h1 (sunder_of_anc_ne e hne)
    · exact absurd (hρbelow q h b hm e) h2
  have nr_lift : ∀ c h b, SUnder σ c → (liftP σ c, h, b) ∈ N' → ¬ R' (liftP σ c) :=
    fun c h b hc hm => L'.not_root_of_sunder hPN' hm (sunder_parent_liftP hc)
  have nr_out : ∀ q, ¬ Anc (parent σ) q → ¬ R q → ¬ R' q := by
    intro q hq hnr hr'
    rcases (hR' q).1 hr' with e | ⟨hr, _, _⟩
    · exact hq (e ▸ Anc.refl _)
    · exact hnr hr
  have lift_ne_P : ∀ c, SUnder σ c → liftP σ c ≠ parent σ := by
    intro c hc e
    have := (sunder_parent_liftP hc).2
    rw [e] at this; omega
  -- the cached sets
  have knew_sub : ∀ x, (unliftC σ (dropC (parent σ) A C) x).isSome = true → (C x).isSome = true :=
    fun x hx => ((unstepC_dom x).1 hx).1
  have knew_of : ∀ x t', (C x).isSome = true → (t', x, true) ∈ N' → t' ≠ parent σ →
      (unliftC σ (dropC (parent σ) A C) x).isSome = true := by
    intro x t' hk hm hne
    refine (unstepC_dom x).2 ⟨hk, ?_⟩
    intro l hl e
    obtain ⟨b, hb⟩ := inv.true_hash _ l hl nh
    rw [e] at hb
    exact hne (L'.leaf_hash t' x _ b hm hb).symm
  have kl_lift : ∀ c, SUnder σ c → (KLeaf N' (fun x => (C x).isSome = true) (liftP σ c) ↔
      KLeaf N (fun x => (unliftC σ (dropC (parent σ) A C) x).isSome = true) c) := by
    intro c hc
    constructor
    · rintro ⟨x, hk, hm⟩
      exact ⟨x, knew_of x _ hk hm (lift_ne_P c hc), (memB_lift hN' hc.1 x true).1 hm⟩
    · rintro ⟨x, hk, hm⟩
      exact ⟨x, knew_sub x hk, (memB_lift hN' hc.1 x true).2 hm⟩
  have kl_lift' : ∀ c, Anc σ c → KLeaf N (fun x => (unliftC σ (dropC (parent σ) A C) x).isSome = true) c →
      KLeaf N' (fun x => (C x).isSome = true) (liftP σ c) := by
    rintro c hc ⟨x, hk, hm⟩
    exact ⟨x, knew_sub x hk, (memB_lift hN' hc x true).2 hm⟩
  have kl_out : ∀ t, ¬ Anc (parent σ) t → (KLeaf N' (fun x => (C x).isSome = true) t ↔
      KLeaf N (fun x => (unliftC σ (dropC (parent σ) A C) x).isSome = true) t) := by
    intro t ht
    have hne : t ≠ parent σ := fun e => ht (e ▸ Anc.refl _)
    constructor
    · rintro ⟨x, hk, hm⟩
      exact ⟨x, knew_of x _ hk hm hne, (memB_out hN' ht x true).1 hm⟩
    · rintro ⟨x, hk, hm⟩
      exact ⟨x, knew_sub x hk, (memB_out hN' ht x true).2 hm⟩
  -- leaves of `Kp`
  have kp_under : ∀ t', KLeaf N' Kp t' → Anc (parent σ) t' → ∃ t, Anc σ t ∧ t' = liftP σ t ∧ KLeaf N Kp t := by
    rintro t' ⟨x, hk, hm⟩ hu
    obtain ⟨t, ht, he, hm'⟩ := memB_under hN' hm hu
    exact ⟨t, ht, he, x, hk, hm'⟩
  have kp_out : ∀ t, KLeaf N' Kp t → ¬ Anc (parent σ) t → KLeaf N Kp t := by
    rintro t ⟨x, hk, hm⟩ hu
    exact ⟨x, hk, (memB_out hN' hu x true).1 hm⟩
  -- no leaf of the new cached set sits at `σ` (it was dropped)
  have no_kl_σ : ¬ KLeaf N (fun x => (unliftC σ (dropC (parent σ) A C) x).isSome = true) σ := by
    rintro ⟨x, hk, hm⟩
    have hmP : (parent σ, x, true) ∈ N' := by
      rw [← liftP_self]; exact (memB_lift hN' (Anc.refl σ) x true).2 hm
    have hst := inv.leaf_stored (parent σ) ⟨x, knew_sub x hk, hmP⟩
    cases hA : A (parent σ) with
    | none => exact hst hA
    | some l =>
      obtain ⟨b, hb⟩ := inv.true_hash _ l hA nh
      have := (L'.func _ _ _ _ _ hb hmP).1
      exact ((unstepC_dom x).1 hk).2 l hA this
  refine { true_hash := ?_, cache_sub := ?_, cached_pos := ?_, kleaf_out := fun _ _ c => c, leaf_stored := ?_,
           only_needed := ?_, has_needed := ?_, flags := ?_ }
  · -- true_hash
    intro q l hl _
    rcases unstep_cases σ q with rfl | hs | ⟨hu, h1, h2⟩ | hout
    · rw [unstepA_sib] at hl
      simp only [Option.some.injEq] at hl
      subst hl
      exact ⟨false, hρN⟩
    · rw [unstepA_under hs] at hl
      obtain ⟨b, hb⟩ := inv.true_hash _ l hl nh
      exact ⟨b, (memB_lift hN' hs.1 _ _).1 hb⟩
    · rw [unstepA_none hu h1 h2] at hl; cases hl
    · rw [unstepA_out hout] at hl
      obtain ⟨b, hb⟩ := inv.true_hash q l hl nh
      exact ⟨b, (memB_out hN' hout _ _).1 hb⟩
  · -- cache_sub
    intro x t h
    show (unliftC σ (dropC (parent σ) A C) x).isSome = true
    rw [h]; rfl
  · -- cached_pos
    intro x t h
    refine ⟨?_, fun c => c⟩
    have hk : (unliftC σ (dropC (parent σ) A C) x).isSome = true := by rw [h]; rfl
    obtain ⟨p, hC, ht⟩ := unstepC_some h
    obtain ⟨hm, _⟩ := inv.cached_pos x p hC
    by_cases hu : Anc (parent σ) p
    · obtain ⟨c, hc, he, hm'⟩ := memB_under hN' hm hu
      by_cases hcσ : c = σ
      · exfalso
        subst hcσ
        exact no_kl_σ ⟨x, hk, hm'⟩
      · have hcs := sunder_of_anc_ne hc hcσ
        have hps : SUnder (parent σ) p := by rw [he]; exact sunder_parent_liftP hcs
        have h1 : 1 ≤ p.1 := by rw [he, liftP_fst]; omega
        rw [if_pos ⟨hps, h1⟩, he, unliftP_liftP hc] at ht
        rw [ht]; exact hm'
    · rw [if_neg (fun c => hu c.1.1)] at ht
      rw [ht]
      exact (memB_out hN' hu x true).1 hm
  · -- leaf_stored
    intro t hk
    rcases unstep_cases σ t with rfl | hs | ⟨hu, h1, h2⟩ | hout
    · rw [unstepA_sib]; intro e; cases e
    · rw [unstepA_under hs]
      exact inv.leaf_stored _ ((kl_lift t hs).2 hk)
    · exfalso
      obtain ⟨x, hx, hm⟩ := hk
      have := node_mid t x true hm hu h1 h2
      subst this
      exact no_kl_σ ⟨x, hx, hm⟩
    · rw [unstepA_out hout]
      exact inv.leaf_stored t ((kl_out t hout).2 hk)
  · -- only_needed
    intro q l hl _ hnr
    rcases unstep_cases σ q with rfl | hs | ⟨hu, h1, h2⟩ | hout
    · exact absurd hρR hnr
    · rw [unstepA_under hs] at hl
      obtain ⟨bq, hqm⟩ := inv.true_hash _ l hl nh
      obtain ⟨t', ht', hrow, hanc⟩ := inv.only_needed _ l hl nh (nr_lift q _ bq hs hqm)
      rw [← liftP_parent hs] at hanc
      have hpq : Anc σ (parent q) := anc_parent_of_sunder hs
      have hu : Anc (parent σ) t' := Anc.trans (anc_parent_liftP hpq) hanc
      obtain ⟨t, ht, rfl, hkt⟩ := kp_under t' ht' hu
      refine ⟨t, hkt, ?_, (anc_liftP_iff hpq ht).1 hanc⟩
      simp only [liftP_fst] at hrow; omega
    · rw [unstepA_none hu h1 h2] at hl; cases hl
    · rw [unstepA_out hout] at hl
      obtain ⟨t', ht', hrow, hanc⟩ := inv.only_needed q l hl nh (nr_out q hout hnr)
      by_cases hu : Anc (parent σ) t'
      · obtain ⟨t, ht, rfl, hkt⟩ := kp_under t' ht' hu
        refine ⟨t, hkt, by simp only [liftP_fst] at hrow; omega, ?_⟩
        have hcmp : Anc (parent q) (parent σ) := by
          by_cases hle : (parent σ).1 ≤ (parent q).1
          · exact Anc.comparable hu hanc hle
          · exfalso
            have h1 : Anc (parent σ) (parent q) := Anc.comparable hanc hu (by omega)
            exact hout (Anc.trans h1 (anc_parent_self q))
        exact Anc.trans hcmp (Anc.trans (anc_parent_self σ) ht)
      · exact ⟨t', kp_out t' ht' hu, hrow, hanc⟩
  · -- has_needed
    intro q h b hm _ hnr hreq
    rcases unstep_cases σ q with rfl | hs | ⟨hu, h1, h2⟩ | hout
    · exact absurd hρR hnr
    · rw [unstepA_under hs]
      have hm' := (memB_lift hN' hs.1 h b).2 hm
      apply inv.has_needed _ h b hm' nh (nr_lift q h b hs hm')
      rcases hreq with hk | ⟨t, hk, hanc⟩
      · exact Or.inl ((kl_lift q hs).2 hk)
      · right
        have hss := sunder_sib hs
        have ht : Anc σ t := Anc.trans hss.1 hanc
        refine ⟨liftP σ t, kl_lift' t ht hk, ?_⟩
        rw [← liftP_sib hs]
        exact (anc_liftP_iff hss.1 ht).2 hanc
    · exfalso
      have := node_mid q h b hm hu h1 h2
      subst this
      exact hnr hσR
    · rw [unstepA_out hout]
      have hm' := (memB_out hN' hout h b).2 hm
      apply inv.has_needed q h b hm' nh (nr_out q hout hnr)
      rcases hreq with hk | ⟨t, hk, hanc⟩
      · exact Or.inl ((kl_out q hout).2 hk)
      · right
        by_cases hu : Anc (parent σ) t
        · -- a leaf of `N` in the region of `P` lies below `σ`
          have hσt : Anc σ t := by
            obtain ⟨x, _, hmt⟩ := hk
            rcases anc_parent_iff'.1 hu with e | e | e
            · rw [e] at hmt; exact absurd hmt (hPnot x true)
            · exact e
            · have := hρbelow t x true hmt e
              subst this
              exact absurd (L.func _ _ _ _ _ hmt hρN).2 (by simp)
          have hcmp : Anc (sib q) (parent σ) := by
            by_cases hle : (parent σ).1 ≤ (sib q).1
            · exact Anc.comparable hu hanc hle
            · exfalso
              have h1 : Anc (parent σ) (sib q) := Anc.comparable hanc hu (by omega)
              have h2 : SUnder (parent σ) (sib q) := ⟨h1, by omega⟩
              have h3 := sunder_iff_parent.1 h2
              rw [parent_sib] at h3
              exact hout (Anc.trans h3 (anc_parent_self q))
          exact ⟨liftP σ t, kl_lift' t hσt hk, Anc.trans hcmp (anc_parent_liftP hσt)⟩
        · exact ⟨t, (kl_out t hu).2 hk, hanc⟩
  · -- flags
    intro q l hl _ hnz
    rcases unstep_cases σ q with rfl | hs | ⟨hu, h1, h2⟩ | hout
    · rw [unstepA_sib] at hl
      simp only [Option.some.injEq] at hl
      subst hl
      exact absurd rfl hnz
    · rw [unstepA_under hs] at hl
      rw [inv.flags _ l hl nh hnz, kl_lift q hs]
    · rw [unstepA_none hu h1 h2] at hl; cases hl
    · rw [unstepA_out hout] at hl
      rw [inv.flags q l hl nh hnz, kl_out q hout]

end

/-! ### non-vacuity

The placed forest `V = [((1,0), empty root), ((1,1), node (leaf 1) (leaf 2))]` (`σ = (1,1)`); after
step B the tree sits at the root `P = (2,0)`: `V' = [((2,0), node (leaf 1) (leaf 2))]`.  The state
for `V'` caches leaf 1 (at `(1,0)`) and stores its sibling; un-step B drops the inner node at `(2,0)`
(its hash is not cached), moves the two leaves back to `(0,2)`, `(0,3)` and re-creates the empty
root at `(1,0)`. -/

namespace UnstepExample
open Props.C09.Example MapSInv.Example PForestAdd MapAL

def exB : CTree T := .node (.leaf (.leaf 1)) (.leaf (.leaf 2))

def exV : PF T := [] ++ [(sib ((1, 1) : Pos), none), ((1, 1), some exB)]
def exV' : PF T := [] ++ [(parent ((1, 1) : Pos), some exB)]

theorem exV_nodes : nodes exV =
    [((1, 0), T.z, false), ((1, 1), .node (.leaf 1) (.leaf 2), false), ((0, 2), .leaf 1, true), ((0, 3), .leaf 2, true)] := by
  decide +kernel

theorem exV'_nodes : nodes exV' =
    [((2, 0), .node (.leaf 1) (.leaf 2), false), ((1, 0), .leaf 1, true), ((1, 1), .leaf 2, true)] := by
  decide +kernel

theorem exV_ok : OK exV where
  depth := by
    intro e he t ht
    simp only [exV, List.nil_append, List.mem_cons, List.mem_nil_iff, or_false] at he
    rcases he with rfl | rfl
    · cases ht
    · simp only [Option.some.injEq] at ht
      subst ht
      decide
  pw := by
    simp only [exV, List.nil_append, List.pairwise_cons, List.mem_cons, List.mem_nil_iff, or_false,
      forall_eq, List.Pairwise.nil, and_true]
    refine ⟨?_, fun _ h => h.elim⟩
    intro q hq
    exact not_anc_both (σ := sib (1, 1)) hq.1 (by rw [sib_sib]; exact hq.2)
  nodup := by decide
  nz := by
    intro x hx
    have : x = T.leaf 1 ∨ x = T.leaf 2 := by
      simpa [leaves, exV, exB, optLeaves, CTree.leaves] using hx
    rcases this with rfl | rfl <;> (simp only [Hasher.zero]; intro h; cases h)
  nph := by
    intro x hx a b
    have : x = T.leaf 1 ∨ x = T.leaf 2 := by
      simpa [leaves, exV, exB, optLeaves, CTree.leaves] using hx
    rcases this with rfl | rfl <;> (simp only [Hasher.ph]; intro h; cases h)

theorem okV' : OK exV' := (stepB_pf ([] : PF T) (1, 1) exB exV_ok).1

theorem LV : Laws (nodes exV) (IsRoot exV) := laws_of_ok crT.toNZ exV_ok
theorem LV' : Laws (nodes exV') (IsRoot exV') := laws_of_ok crT.toNZ okV'

theorem rootV' (z : Pos) : IsRoot exV' z ↔ z = (2, 0) := by
  unfold IsRoot exV'
  simp only [List.nil_append, List.mem_cons, List.mem_nil_iff, or_false, exists_eq_left]
  constructor
  · intro h; exact h.symm
  · intro h; exact h.symm

def exAL : List (Pos × Leaf T) :=
  [((2, 0), ⟨.node (.leaf 1) (.leaf 2), false⟩), ((1, 0), ⟨.leaf 1, true⟩), ((1, 1), ⟨.leaf 2, false⟩)]
def exA : Pos → Option (Leaf T) := fun q => AL.get? exAL q
def exC : T → Option Pos := fun x => AL.get? [(T.leaf 1, ((1, 0) : Pos))] x

theorem exA_mem {q : Pos} {l : Leaf T} (h : exA q = some l) :
    (q = (2, 0) ∧ l = ⟨.node (.leaf 1) (.leaf 2), false⟩) ∨ (q = (1, 0) ∧ l = ⟨.leaf 1, true⟩) ∨
    (q = (1, 1) ∧ l = ⟨.leaf 2, false⟩) := by
  have hm := get?_some_mem (l := exAL) h
  simpa [exAL] using hm

theorem exC_mem {x : T} {t : Pos} (h : exC x = some t) : x = .leaf 1 ∧ t = (1, 0) := by
  have hm := get?_some_mem (l := [(T.leaf 1, ((1, 0) : Pos))]) h
  simpa using hm

theorem exC_dom (x : T) : (exC x).isSome = true ↔ x = .leaf 1 := by
  constructor
  · intro h
    cases hC : exC x with
    | none => rw [hC] at h; cases h
    | some t => exact (exC_mem hC).1
  · rintro rfl; decide

theorem exK'_iff (t : Pos) : KLeaf (nodes exV') (fun x => (exC x).isSome = true) t ↔ t = (1, 0) := by
  unfold KLeaf
  rw [exV'_nodes]
  constructor
  · rintro ⟨x, hx, hm⟩
    rw [exC_dom] at hx
    subst hx
    simpa using hm
  · rintro rfl
    exact ⟨.leaf 1, by decide, by decide⟩

/-- the invariant before the step -/
theorem exInv : HInvP exA exC (nodes exV') (IsRoot exV') (fun x => (exC x).isSome = true)
    (fun x => (exC x).isSome = true) (fun _ => False) where
  true_hash := by
    intro q l hl _
    rw [exV'_nodes]
    rcases exA_mem hl with ⟨rfl, rfl⟩ | ⟨rfl, rfl⟩ | ⟨rfl, rfl⟩
    · exact ⟨false, by decide⟩
    · exact ⟨true, by decide⟩
    · exact ⟨true, by decide⟩
  cache_sub := by
    intro x t h
    show (exC x).isSome = true
    rw [h]; rfl
  cached_pos := by
    intro x t h
    obtain ⟨rfl, rfl⟩ := exC_mem h
    exact ⟨by rw [exV'_nodes]; decide, fun c => c⟩
  kleaf_out := fun _ _ c => c
  leaf_stored := by
    intro t hk
    rw [exK'_iff] at hk
    subst hk
    decide
  only_needed := by
    intro q l hl _ hnr
    rcases exA_mem hl with ⟨rfl, rfl⟩ | ⟨rfl, rfl⟩ | ⟨rfl, rfl⟩
    · exact absurd ((rootV' _).2 rfl) hnr
    · exact ⟨(1, 0), (exK'_iff _).2 rfl, by decide, by decide⟩
    · exact ⟨(1, 0), (exK'_iff _).2 rfl, by decide, by decide⟩
  has_needed := by
    intro q h b hm _ _ _
    rw [exV'_nodes] at hm
    simp only [List.mem_cons, Prod.mk.injEq, List.mem_nil_iff, or_false] at hm
    rcases hm with ⟨rfl, _⟩ | ⟨rfl, _⟩ | ⟨rfl, _⟩ <;> decide
  flags := by
    intro q l hl _ _
    rw [exK'_iff]
    rcases exA_mem hl with ⟨rfl, rfl⟩ | ⟨rfl, rfl⟩ | ⟨rfl, rfl⟩ <;> decide

/-- **non-vacuity of `unstepB`** -/
theorem exInv' : HInvP (upd (unliftA (1, 1) (upd exA (parent (1, 1)) none)) (sib (1, 1)) (some ⟨zero, true⟩))
    (unliftC (1, 1) (dropC (parent (1, 1)) exA exC)) (nodes exV) (IsRoot exV)
    (fun x => (unliftC (1, 1) (dropC (parent (1, 1)) exA exC) x).isSome = true)
    (fun x => (exC x).isSome = true) (fun _ => False) :=
  unstepB LV LV' exInv (by rw [exV_nodes]; decide) ⟨((1, 1), some exB), by simp [exV], rfl⟩ (stepB_pf ([] : PF T) (1, 1) exB exV_ok).2.1
    (stepB_pf ([] : PF T) (1, 1) exB exV_ok).2.2

/-- the step does something: the inner node at `(2,0)` is dropped, the leaves are back on row 0, the
empty root is back at `(1,0)`, `σ = (1,1)` is empty, the cached leaf 1 is now cached at `(0,2)` -/
example :
    let A' := upd (unliftA (1, 1) (upd exA (parent (1, 1)) none)) (sib (1, 1)) (some ⟨zero, true⟩)
    A' (2, 0) = none ∧ A' (1, 0) = some ⟨T.z, true⟩ ∧ A' (1, 1) = none ∧ A' (0, 2) = some ⟨.leaf 1, true⟩ ∧
    A' (0, 3) = some ⟨.leaf 2, false⟩ ∧ unliftC (1, 1) (dropC (parent (1, 1)) exA exC) (.leaf 1) = some (0, 2) := by
  refine ⟨by decide, by decide, by decide, by decide, by decide, by decide⟩

end UnstepExample

end UtreexoVerif.Proofs.MapUndoSteps

#print axioms UtreexoVerif.Proofs.MapUndoSteps.unstepB
#print axioms UtreexoVerif.Proofs.MapUndoSteps.UnstepExample.exInv'
