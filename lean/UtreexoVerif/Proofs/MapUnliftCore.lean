/-
  Layer 2 (for `Undo`): un-lifting, the inverse of `MapLiftCore.liftCore`.

  One step of the descending loop of `undoDeletion` (`placeEmptyRoot d`, then the node at
  `parent d` goes back down to `sib d`) on the abstract state, for the holed invariant.

  * `HInvP`: `HInv` of `Proofs/MapUndoDefs.lean` with "nothing unneeded" (`only_needed`) stated
    for a second cached set `Kp` (the cache at the END of `Undo`: old cache + re-inserted leaves);
    every other field speaks about `K`.  This is needed because `unliftCore` as first stated (with
    `HInv`, i.e. `Kp = K`) is FALSE: see `unliftCore_statement_false` below.
  * `unliftCoreP`: the step for `HInvP`; `unliftCore`: the step for `HInv` with the one extra
    hypothesis that makes it true.
-/
import UtreexoVerif.Proofs.MapUndoDefs
import UtreexoVerif.Proofs.MapLiftCore
import UtreexoVerif.Proofs.PForestDel
import UtreexoVerif.Proofs.MapRemoveAll

namespace UtreexoVerif.Proofs.MapUndoSteps
open UtreexoVerif Model Spec Spec.Forest Proofs MapInv MapPrune MapRep MapLiftGeo PForest MapAInv MapLiftCore
  MapUndoDefs Hasher
set_option linter.unusedSectionVars false

variable {H : Type} [DecidableEq H] [Hasher H]

/-- the store after un-lifting at `d` (`σ = sib d`, `P = parent d`): `placeEmptyRoot d`, then the
node at `P` goes back to `σ` -/
def unliftAll (σ : Pos) (A : Pos → Option (Leaf H)) : Pos → Option (Leaf H) := fun q =>
  if q = σ then A (parent σ)
  else if SUnder σ q then A (liftP σ q)
  else if Anc (parent σ) q then none
  else A q

/-- the cache after un-lifting (including the entry of `parent σ` itself) -/
def unliftCAll (σ : Pos) (C : H → Option Pos) : H → Option Pos := fun x =>
  (C x).map (fun p => if p = parent σ then σ else if SUnder (parent σ) p ∧ 1 ≤ p.1 then unliftP σ p else p)

/-! ### the holed invariant with a separate "allowed" set -/

/-- `HInv` with `only_needed` ("nothing unneeded is stored") relative to a second set `Kp` -/
structure HInvP (A : Pos → Option (Leaf H)) (C : H → Option Pos) (N : List (Pos × H × Bool))
    (R : Pos → Prop) (K Kp : H → Prop) (Hole : Pos → Prop) : Prop where
  true_hash : ∀ q l, A q = some l → ¬ Hole q → ∃ b, (q, l.hash, b) ∈ N
  cache_sub : ∀ x t, C x = some t → K x
  cached_pos : ∀ x t, C x = some t → (t, x, true) ∈ N ∧ ¬ Hole t
  kleaf_out : ∀ t, KLeaf N K t → ¬ Hole t
  /-- the leaves of the cached set are stored (roots or not) -/
  leaf_stored : ∀ t, KLeaf N K t → A t ≠ none
  /-- a stored non-root node outside the hole is allowed by a leaf of `Kp` -/
  only_needed : ∀ q l, A q = some l → ¬ Hole q → ¬ R q → ∃ t, KLeaf N Kp t ∧ t.1 ≤ q.1 ∧ Anc (parent q) t
  has_needed : ∀ q h b, (q, h, b) ∈ N → ¬ Hole q → ¬ R q →
    (KLeaf N K q ∨ ∃ t, KLeaf N K t ∧ Anc (sib q) t) → A q ≠ none
  flags : ∀ q l, A q = some l → ¬ Hole q → l.hash ≠ zero → (l.remember = true ↔ KLeaf N K q)

section
variable {A : Pos → Option (Leaf H)} {C : H → Option Pos} {N : List (Pos × H × Bool)}
  {R : Pos → Prop} {K Kp : H → Prop} {Hole : Pos → Prop}

theorem KLeaf.mono {K K' : H → Prop} (h : ∀ x, K x → K' x) {t : Pos} (hk : KLeaf N K t) : KLeaf N K' t := by
  obtain ⟨x, hx, hm⟩ := hk
  exact ⟨x, h x hx, hm⟩

/-- `HInv` gives `HInvP` for every bigger "allowed" set -/
theorem HInvP.of_hinv (inv : HInv A C N R K Hole) (hK : ∀ x, K x → Kp x) : HInvP A C N R K Kp Hole where
  true_hash := inv.true_hash
  cache_sub := inv.cache_sub
  cached_pos := inv.cached_pos
  kleaf_out := inv.kleaf_out
  leaf_stored := inv.leaf_stored
  only_needed := by
    intro q l hl hh hr
    obtain ⟨t, ht, h1, h2⟩ := inv.only_needed q l hl hh hr
    exact ⟨t, KLeaf.mono hK ht, h1, h2⟩
  has_needed := inv.has_needed
  flags := inv.flags

/-- `HInvP` with `Kp = K` (pointwise) is `HInv` -/
theorem HInvP.to_hinv (inv : HInvP A C N R K Kp Hole) (hK : ∀ x, Kp x → K x) : HInv A C N R K Hole where
  true_hash := inv.true_hash
  cache_sub := inv.cache_sub
  cached_pos := inv.cached_pos
  kleaf_out := inv.kleaf_out
  leaf_stored := inv.leaf_stored
  only_needed := by
    intro q l hl hh hr
    obtain ⟨t, ht, h1, h2⟩ := inv.only_needed q l hl hh hr
    exact ⟨t, KLeaf.mono hK ht, h1, h2⟩
  has_needed := inv.has_needed
  flags := inv.flags

/-- the "allowed" set may grow -/
theorem HInvP.mono_Kp {Kp' : H → Prop} (inv : HInvP A C N R K Kp Hole) (hK : ∀ x, Kp x → Kp' x) :
    HInvP A C N R K Kp' Hole :=
  { inv with only_needed := fun q l hl hh hr =>
      let ⟨t, ht, h1, h2⟩ := inv.only_needed q l hl hh hr
      ⟨t, KLeaf.mono hK ht, h1, h2⟩ }

/-- the hole may grow, as long as the leaves of the cached set stay outside -/
theorem HInvP.mono_hole {Hole' : Pos → Prop} (inv : HInvP A C N R K Kp Hole) (h : ∀ q, Hole q → Hole' q)
    (hk : ∀ t, KLeaf N K t → ¬ Hole' t) : HInvP A C N R K Kp Hole' where
  true_hash := fun q l hl hh => inv.true_hash q l hl (fun c => hh (h q c))
  cache_sub := inv.cache_sub
  cached_pos := fun x t hC =>
    ⟨(inv.cached_pos x t hC).1, hk t ⟨x, inv.cache_sub x t hC, (inv.cached_pos x t hC).1⟩⟩
  kleaf_out := hk
  leaf_stored := inv.leaf_stored
  only_needed := fun q l hl hh hr => inv.only_needed q l hl (fun c => hh (h q c)) hr
  has_needed := fun q h' b hm hh hr hreq => inv.has_needed q h' b hm (fun c => hh (h q c)) hr hreq
  flags := fun q l hl hh hnz => inv.flags q l hl (fun c => hh (h q c)) hnz

end

/-! ### the un-lifted store -/

section
variable {A : Pos → Option (Leaf H)} {d : Pos}

theorem unliftAll_sib : unliftAll (sib d) A (sib d) = A (parent d) := by
  simp [unliftAll, parent_sib]

theorem unliftAll_under {q : Pos} (hq : SUnder (sib d) q) : unliftAll (sib d) A q = A (liftP (sib d) q) := by
  have hne : q ≠ sib d := by
    intro e; have := hq.2; rw [e] at this; omega
  unfold unliftAll
  rw [if_neg hne, if_pos hq]

theorem unliftAll_out {q : Pos} (hq : ¬ Anc (parent d) q) : unliftAll (sib d) A q = A q := by
  have hne : q ≠ sib d := fun e => hq (by rw [e]; exact anc_parent_sib d)
  have hns : ¬ SUnder (sib d) q := fun h => hq (Anc.trans (anc_parent_sib d) h.1)
  unfold unliftAll
  rw [if_neg hne, if_neg hns, parent_sib, if_neg hq]

theorem unliftAll_none {q : Pos} (hq : Anc (parent d) q) (hs : ¬ Anc (sib d) q) :
    unliftAll (sib d) A q = none := by
  have hne : q ≠ sib d := fun e => hs (by rw [e]; exact Anc.refl _)
  have hns : ¬ SUnder (sib d) q := fun h => hs h.1
  unfold unliftAll
  rw [if_neg hne, if_neg hns, parent_sib, if_pos hq]

/-- every position is `σ`, strictly below `σ`, elsewhere in the region of `P`, or outside -/
theorem unlift_cases (d q : Pos) : q = sib d ∨ SUnder (sib d) q ∨ (Anc (parent d) q ∧ ¬ Anc (sib d) q) ∨
    ¬ Anc (parent d) q := by
  by_cases h : Anc (parent d) q
  · by_cases hs : Anc (sib d) q
    · by_cases he : q = sib d
      · exact Or.inl he
      · refine Or.inr (Or.inl ⟨hs, ?_⟩)
        have := hs.1
        have hr : q.1 ≠ (sib d).1 := fun e => he (hs.eq_of_row e.symm).symm
        omega
    · exact Or.inr (Or.inr (Or.inl ⟨h, hs⟩))
  · exact Or.inr (Or.inr (Or.inr h))

/-- the region of `P`: `P` itself, below `σ`, or below `d` -/
theorem anc_P_iff {z : Pos} : Anc (parent d) z ↔ z = parent d ∨ Anc (sib d) z ∨ Anc d z := by
  rw [anc_parent_iff']
  constructor
  · rintro (h | h | h)
    · exact Or.inl h
    · exact Or.inr (Or.inr h)
    · exact Or.inr (Or.inl h)
  · rintro (h | h | h)
    · exact Or.inl h
    · exact Or.inr (Or.inr h)
    · exact Or.inr (Or.inl h)

theorem anc_P_lift {c : Pos} (hc : Anc (sib d) c) : Anc (parent d) (liftP (sib d) c) := by
  have := anc_parent_liftP hc
  rwa [parent_sib] at this

theorem liftP_sib_self : liftP (sib d) (sib d) = parent d := by
  rw [liftP_self, parent_sib]

theorem not_anc_d_of_sib {c : Pos} (hc : Anc (sib d) c) : ¬ Anc d c := fun h => not_anc_both h hc

theorem not_above_of_sib {c : Pos} (hc : Anc (sib d) c) : ¬ Anc c (parent d) := by
  intro h
  have h1 := hc.1
  have h2 := h.1
  rw [sib_fst] at h1
  have : (parent d).1 = d.1 + 1 := rfl
  omega

end

/-! ### the deletion relation between `N` (before) and `N''` (after) -/

/-- `N''` is `N` after the deletion of everything at and below the non-root node `d`
(the facts `PForestDel.del_nonroot` provides) -/
structure Del (N N'' : List (Pos × H × Bool)) (R : Pos → Prop) (d : Pos) : Prop where
  L : Laws N R
  L'' : Laws N'' R
  hd : ∃ h b, (d, h, b) ∈ N
  hnr : ¬ R d
  hD1 : ∀ e : Pos × H × Bool, e ∈ N'' →
      (¬ Anc (parent d) e.1 ∧ ¬ Anc e.1 (parent d) ∧ e ∈ N) ∨
      (∃ c, Anc (sib d) c ∧ e.1 = liftP (sib d) c ∧ (c, e.2) ∈ N) ∨
      (Anc e.1 (parent d) ∧ e.1 ≠ parent d ∧ e.2.2 = false ∧ ∃ h0, (e.1, h0, false) ∈ N)
  hD2 : ∀ e : Pos × H × Bool, ¬ Anc (parent d) e.1 → ¬ Anc e.1 (parent d) → e ∈ N → e ∈ N''
  hD3 : ∀ c h' b', Anc (sib d) c → (c, h', b') ∈ N → (liftP (sib d) c, h', b') ∈ N''
  hD4 : ∀ z h0, (z, h0, false) ∈ N → Anc z (parent d) → z ≠ parent d → ∃ h1, (z, h1, false) ∈ N''

namespace Del
variable {N N'' : List (Pos × H × Bool)} {R : Pos → Prop} {d : Pos}

theorem sib_node (D : Del N N'' R d) : ∃ h b, (sib d, h, b) ∈ N := by
  obtain ⟨h, b, hd⟩ := D.hd
  exact D.L.sib_node d h b hd D.hnr

theorem P_node (D : Del N N'' R d) : ∃ h, (parent d, h, false) ∈ N := by
  obtain ⟨h, b, hd⟩ := D.hd
  obtain ⟨h', hm, _⟩ := D.L.parent_node d h b hd D.hnr
  exact ⟨h', hm⟩

theorem sib_not_root (D : Del N N'' R d) : ¬ R (sib d) := by
  obtain ⟨hP, hPN⟩ := D.P_node
  obtain ⟨hσ, bσ, hσN⟩ := D.sib_node
  exact D.L.not_root_of_sunder hPN hσN (by rw [sunder_iff_parent, parent_sib]; exact Anc.refl _)

/-- an entry of `N''` at a lifted position is the lifted entry -/
theorem mem_lift (D : Del N N'' R d) {c : Pos} (hc : Anc (sib d) c) (h : H) (b : Bool) :
    (liftP (sib d) c, h, b) ∈ N'' ↔ (c, h, b) ∈ N := by
  constructor
  · intro hm
    rcases D.hD1 _ hm with ⟨hn, _, _⟩ | ⟨c', hc', he, hm'⟩ | ⟨ha, hne, _, _⟩
    · exact absurd (anc_P_lift hc) hn
    · have : c = c' := liftP_inj hc hc' he
      subst this; exact hm'
    · exact absurd (Anc.antisymm ha (anc_P_lift hc)) hne
  · exact D.hD3 c h b hc

/-- the node `P` of `N''` is the node `σ` of `N` -/
theorem mem_P (D : Del N N'' R d) (h : H) (b : Bool) : (parent d, h, b) ∈ N'' ↔ (sib d, h, b) ∈ N := by
  rw [← liftP_sib_self]; exact D.mem_lift (Anc.refl _) h b

theorem P_node'' (D : Del N N'' R d) : ∃ h b, (parent d, h, b) ∈ N'' := by
  obtain ⟨h, b, hm⟩ := D.sib_node
  exact ⟨h, b, (D.mem_P h b).2 hm⟩

/-- entries of `N''` in the region of `P` are lifted entries -/
theorem mem_under (D : Del N N'' R d) {z : Pos} {h : H} {b : Bool} (hm : (z, h, b) ∈ N'') (hz : Anc (parent d) z) :
    ∃ c, Anc (sib d) c ∧ z = liftP (sib d) c ∧ (c, h, b) ∈ N := by
  rcases D.hD1 _ hm with ⟨hn, _, _⟩ | ⟨c, hc, he, hm'⟩ | ⟨ha, hne, _, _⟩
  · exact absurd hz hn
  · exact ⟨c, hc, he, hm'⟩
  · exact absurd (Anc.antisymm ha hz) hne

/-- away from the region of `P` and from the path above it nothing changed -/
theorem mem_out (D : Del N N'' R d) {q : Pos} (h1 : ¬ Anc (parent d) q) (h2 : ¬ Anc q (parent d)) (h : H) (b : Bool) :
    (q, h, b) ∈ N'' ↔ (q, h, b) ∈ N := by
  constructor
  · intro hm
    rcases D.hD1 _ hm with ⟨_, _, hm'⟩ | ⟨c, hc, he, _⟩ | ⟨ha, _, _, _⟩
    · exact hm'
    · exact absurd (by rw [show q = liftP (sib d) c from he]; exact anc_P_lift hc) h1
    · exact absurd ha h2
  · exact D.hD2 _ h1 h2

/-- an entry of `N''` outside the region of `P` is an entry of `N`, or lies on the path above `P`
and is an inner node of `N` -/
theorem mem_out'' (D : Del N N'' R d) {q : Pos} {h : H} {b : Bool} (hm : (q, h, b) ∈ N'') (h1 : ¬ Anc (parent d) q) :
    (¬ Anc q (parent d) ∧ (q, h, b) ∈ N) ∨ (Anc q (parent d) ∧ b = false ∧ ∃ h0, (q, h0, false) ∈ N) := by
  rcases D.hD1 _ hm with ⟨_, h2, hm'⟩ | ⟨c, hc, he, _⟩ | ⟨ha, _, hf, h0⟩
  · exact Or.inl ⟨h2, hm'⟩
  · exact absurd (by rw [show q = liftP (sib d) c from he]; exact anc_P_lift hc) h1
  · exact Or.inr ⟨ha, hf, h0⟩

/-- a leaf of `N` that is not below `d` is not at or above `P` -/
theorem leaf_not_above (D : Del N N'' R d) {t : Pos} {x : H} (ht : (t, x, true) ∈ N) (hdt : ¬ Anc d t) :
    ¬ Anc t (parent d) := by
  intro ha
  obtain ⟨h, b, hd⟩ := D.hd
  have := D.L.leaf_below t x d h b ht hd (Anc.trans ha (anc_parent_self d))
  exact hdt (this ▸ Anc.refl _)

/-! #### leaves of a set `K` -/

variable {K : H → Prop}

theorem kleaf_lift (D : Del N N'' R d) {c : Pos} (hc : Anc (sib d) c) :
    KLeaf N'' K (liftP (sib d) c) ↔ KLeaf N K c := by
  constructor
  · rintro ⟨x, hk, hm⟩; exact ⟨x, hk, (D.mem_lift hc x true).1 hm⟩
  · rintro ⟨x, hk, hm⟩; exact ⟨x, hk, (D.mem_lift hc x true).2 hm⟩

theorem kleaf_P (D : Del N N'' R d) : KLeaf N'' K (parent d) ↔ KLeaf N K (sib d) := by
  rw [← liftP_sib_self]; exact D.kleaf_lift (Anc.refl _)

theorem kleaf_under (D : Del N N'' R d) {t' : Pos} (hk : KLeaf N'' K t') (hu : Anc (parent d) t') :
    ∃ t, Anc (sib d) t ∧ t' = liftP (sib d) t ∧ KLeaf N K t := by
  obtain ⟨x, hx, hm⟩ := hk
  obtain ⟨t, ht, he, hm'⟩ := D.mem_under hm hu
  exact ⟨t, ht, he, x, hx, hm'⟩

theorem kleaf_out (D : Del N N'' R d) {t : Pos} (hu : ¬ Anc (parent d) t) : KLeaf N'' K t ↔ KLeaf N K t := by
  constructor
  · rintro ⟨x, hx, hm⟩
    rcases D.mem_out'' hm hu with ⟨_, hm'⟩ | ⟨_, hf, _⟩
    · exact ⟨x, hx, hm'⟩
    · cases hf
  · rintro ⟨x, hx, hm⟩
    have hdt : ¬ Anc d t := fun h => hu (Anc.trans (anc_parent_self d) h)
    exact ⟨x, hx, (D.mem_out hu (D.leaf_not_above hm hdt) x true).2 hm⟩

/-- a leaf of `K` (no leaf below `d` is in `K`) lies below `σ` or outside the region of `P`, and
not on the path from `P` upwards -/
theorem kleaf_cases (D : Del N N'' R d) (hKd : ∀ t x, (t, x, true) ∈ N → Anc d t → ¬ K x) {t : Pos}
    (hk : KLeaf N K t) : ¬ Anc d t ∧ ¬ Anc t (parent d) ∧ (Anc (sib d) t ∨ ¬ Anc (parent d) t) := by
  obtain ⟨x, hx, hm⟩ := hk
  have h1 : ¬ Anc d t := fun h => hKd t x hm h hx
  have h2 := D.leaf_not_above hm h1
  refine ⟨h1, h2, ?_⟩
  by_cases hu : Anc (parent d) t
  · rcases anc_P_iff.1 hu with e | e | e
    · exact absurd (e ▸ Anc.refl _) h2
    · exact Or.inl e
    · exact absurd e h1
  · exact Or.inr hu

end Del

/-! ### the step -/

theorem sunder_of_anc_ne {p q : Pos} (h : Anc p q) (hne : q ≠ p) : SUnder p q := by
  refine ⟨h, ?_⟩
  have := h.1
  have hr : q.1 ≠ p.1 := fun e => hne (h.eq_of_row e.symm).symm
  omega

theorem sunder_P_lift {d c : Pos} (hc : SUnder (sib d) c) : SUnder (parent d) (liftP (sib d) c) := by
  have := sunder_parent_liftP hc
  rwa [parent_sib] at this

section
variable {A : Pos → Option (Leaf H)} {C : H → Option Pos} {N N'' : List (Pos × H × Bool)}
  {R : Pos → Prop} {K Kp : H → Prop} {d : Pos} {Hole'' : Pos → Prop}

/-- the cache entries after the step -/
theorem unliftCAll_some {x : H} {t : Pos} (h : unliftCAll (sib d) C x = some t) :
    ∃ p, C x = some p ∧
      t = if p = parent d then sib d else if SUnder (parent d) p ∧ 1 ≤ p.1 then unliftP (sib d) p else p := by
  unfold unliftCAll at h
  cases hC : C x with
  | none => rw [hC] at h; cases h
  | some p =>
    rw [hC] at h
    simp only [Option.map_some, Option.some.injEq, parent_sib] at h
    exact ⟨p, rfl, h.symm⟩

/-- **un-lifting, general form**: `σ = sib d` is allowed to be stored afterwards by hypothesis `hσa` -/
theorem unliftCoreG (D : Del N N'' R d) (inv : HInvP A C N'' R K Kp Hole'')
    (hKd : ∀ t x, (t, x, true) ∈ N → Anc d t → ¬ K x)
    (hHP : ∀ q, Hole'' q → ¬ Anc (parent d) q)
    (hσa : ∀ l, A (parent d) = some l → ∃ t, KLeaf N Kp t ∧ t.1 ≤ d.1 ∧ Anc (parent d) t) :
    HInvP (unliftAll (sib d) A) (unliftCAll (sib d) C) N R K Kp
      (fun q => Hole'' q ∨ ((Anc d q ∨ Anc q (parent d)) ∧ ∃ h0 f, (q, h0, f) ∈ N)) := by
  have hole_P : ¬ Hole'' (parent d) := fun c => hHP _ c (Anc.refl _)
  have hole_lift : ∀ c, Anc (sib d) c → ¬ Hole'' (liftP (sib d) c) := fun c hc h => hHP _ h (anc_P_lift hc)
  obtain ⟨hP, bP, hPN''⟩ := D.P_node''
  have nr_lift : ∀ c h b, SUnder (sib d) c → (liftP (sib d) c, h, b) ∈ N'' → ¬ R (liftP (sib d) c) :=
    fun c h b hc hm => D.L''.not_root_of_sunder hPN'' hm (sunder_P_lift hc)
  -- the leaves of the cached set are outside the new hole
  have kout : ∀ t, KLeaf N K t →
      ¬ (Hole'' t ∨ ((Anc d t ∨ Anc t (parent d)) ∧ ∃ h0 f, (t, h0, f) ∈ N)) := by
    intro t hk
    obtain ⟨h1, h2, _⟩ := D.kleaf_cases hKd hk
    rintro (c | ⟨c | c, _⟩)
    · exact inv.kleaf_out t ((D.kleaf_out (hHP t c)).2 hk) c
    · exact h1 c
    · exact h2 c
  refine { true_hash := ?_, cache_sub := ?_, cached_pos := ?_, kleaf_out := kout, leaf_stored := ?_,
           only_needed := ?_, has_needed := ?_, flags := ?_ }
  · -- true_hash
    intro q l hl hh
    rcases unlift_cases d q with rfl | hs | ⟨hu, hs⟩ | hout
    · rw [unliftAll_sib] at hl
      obtain ⟨b, hb⟩ := inv.true_hash _ l hl hole_P
      exact ⟨b, (D.mem_P _ _).1 hb⟩
    · rw [unliftAll_under hs] at hl
      obtain ⟨b, hb⟩ := inv.true_hash _ l hl (hole_lift q hs.1)
      exact ⟨b, (D.mem_lift hs.1 _ _).1 hb⟩
    · rw [unliftAll_none hu hs] at hl; cases hl
    · rw [unliftAll_out hout] at hl
      obtain ⟨b, hb⟩ := inv.true_hash q l hl (fun c => hh (Or.inl c))
      rcases D.mem_out'' hb hout with ⟨_, hm⟩ | ⟨ha, _, h0, hm0⟩
      · exact ⟨b, hm⟩
      · exact absurd (Or.inr ⟨Or.inr ha, h0, false, hm0⟩) hh
  · -- cache_sub
    intro x t h
    obtain ⟨p, hC, _⟩ := unliftCAll_some h
    exact inv.cache_sub x p hC
  · -- cached_pos
    intro x t h
    obtain ⟨p, hC, ht⟩ := unliftCAll_some h
    obtain ⟨hm, _⟩ := inv.cached_pos x p hC
    have hkx := inv.cache_sub x p hC
    suffices hmt : (t, x, true) ∈ N from ⟨hmt, kout t ⟨x, hkx, hmt⟩⟩
    by_cases hu : Anc (parent d) p
    · obtain ⟨c, hc, he, hm'⟩ := D.mem_under hm hu
      by_cases hcσ : c = sib d
      · subst hcσ
        rw [liftP_sib_self] at he
        rw [if_pos he] at ht
        rw [ht]; exact hm'
      · have hcs := sunder_of_anc_ne hc hcσ
        have hps : SUnder (parent d) p := by rw [he]; exact sunder_P_lift hcs
        have hne : p ≠ parent d := by
          intro e; have := hps.2; rw [e] at this; omega
        have h1 : 1 ≤ p.1 := by rw [he, liftP_fst]; omega
        rw [if_neg hne, if_pos ⟨hps, h1⟩, he, unliftP_liftP hc] at ht
        rw [ht]; exact hm'
    · have hne : p ≠ parent d := fun e => hu (e ▸ Anc.refl _)
      rw [if_neg hne, if_neg (fun c => hu c.1.1)] at ht
      rw [ht]
      rcases D.mem_out'' hm hu with ⟨_, hm'⟩ | ⟨_, hf, _⟩
      · exact hm'
      · cases hf
  · -- leaf_stored
    intro t hk
    obtain ⟨_, _, hs | hout⟩ := D.kleaf_cases hKd hk
    · by_cases hts : t = sib d
      · subst hts
        rw [unliftAll_sib]; exact inv.leaf_stored _ (D.kleaf_P.2 hk)
      · rw [unliftAll_under (sunder_of_anc_ne hs hts)]
        exact inv.leaf_stored _ ((D.kleaf_lift hs).2 hk)
    · rw [unliftAll_out hout]
      exact inv.leaf_stored t ((D.kleaf_out hout).2 hk)
  · -- only_needed
    intro q l hl hh hnr
    rcases unlift_cases d q with rfl | hs | ⟨hu, hs⟩ | hout
    · rw [unliftAll_sib] at hl
      rw [parent_sib]
      exact hσa l hl
    · rw [unliftAll_under hs] at hl
      obtain ⟨bq, hqm⟩ := inv.true_hash _ l hl (hole_lift q hs.1)
      obtain ⟨t', ht', hrow, hanc⟩ := inv.only_needed _ l hl (hole_lift q hs.1) (nr_lift q _ bq hs hqm)
      rw [← liftP_parent hs] at hanc
      have hpq : Anc (sib d) (parent q) := anc_parent_of_sunder hs
      have hu : Anc (parent d) t' := Anc.trans (anc_P_lift hpq) hanc
      obtain ⟨t, ht, rfl, hkt⟩ := D.kleaf_under ht' hu
      refine ⟨t, hkt, ?_, (anc_liftP_iff hpq ht).1 hanc⟩
      simp only [liftP_fst] at hrow; omega
    · rw [unliftAll_none hu hs] at hl; cases hl
    · rw [unliftAll_out hout] at hl
      obtain ⟨t', ht', hrow, hanc⟩ := inv.only_needed q l hl (fun c => hh (Or.inl c)) hnr
      by_cases hu : Anc (parent d) t'
      · obtain ⟨t, ht, rfl, hkt⟩ := D.kleaf_under ht' hu
        refine ⟨t, hkt, by simp only [liftP_fst] at hrow; omega, ?_⟩
        have hcmp : Anc (parent q) (parent d) := by
          by_cases hle : (parent d).1 ≤ (parent q).1
          · exact Anc.comparable hu hanc hle
          · exfalso
            have h1 : Anc (parent d) (parent q) := Anc.comparable hanc hu (by omega)
            exact hout (Anc.trans h1 (anc_parent_self q))
        exact Anc.trans hcmp (Anc.trans (anc_parent_sib d) ht)
      · exact ⟨t', (D.kleaf_out hu).1 ht', hrow, hanc⟩
  · -- has_needed
    intro q h b hm hh hnr hreq
    have hh1 : ¬ Hole'' q := fun c => hh (Or.inl c)
    have hh2 : ¬ Anc d q := fun c => hh (Or.inr ⟨Or.inl c, h, b, hm⟩)
    have hh3 : ¬ Anc q (parent d) := fun c => hh (Or.inr ⟨Or.inr c, h, b, hm⟩)
    rcases unlift_cases d q with rfl | hs | ⟨hu, hs⟩ | hout
    · rw [unliftAll_sib]
      rcases hreq with hk | ⟨t, hk, hanc⟩
      · exact inv.leaf_stored _ (D.kleaf_P.2 hk)
      · rw [sib_sib] at hanc
        exact absurd hanc (D.kleaf_cases hKd hk).1
    · rw [unliftAll_under hs]
      have hm'' := (D.mem_lift hs.1 h b).2 hm
      apply inv.has_needed _ h b hm'' (hole_lift q hs.1) (nr_lift q h b hs hm'')
      rcases hreq with hk | ⟨t, hk, hanc⟩
      · exact Or.inl ((D.kleaf_lift hs.1).2 hk)
      · right
        have hss := sunder_sib hs
        have ht : Anc (sib d) t := Anc.trans hss.1 hanc
        refine ⟨liftP (sib d) t, (D.kleaf_lift ht).2 hk, ?_⟩
        rw [← liftP_sib hs]
        exact (anc_liftP_iff hss.1 ht).2 hanc
    · exfalso
      rcases anc_P_iff.1 hu with e | e | e
      · exact hh3 (e ▸ Anc.refl _)
      · exact hs e
      · exact hh2 e
    · rw [unliftAll_out hout]
      have hm'' := (D.mem_out hout hh3 h b).2 hm
      apply inv.has_needed q h b hm'' hh1 hnr
      rcases hreq with hk | ⟨t, hk, hanc⟩
      · exact Or.inl ((D.kleaf_out hout).2 hk)
      · right
        obtain ⟨_, _, hs | ho⟩ := D.kleaf_cases hKd hk
        · have hPt : Anc (parent d) t := Anc.trans (anc_parent_sib d) hs
          have hcmp : Anc (sib q) (parent d) := by
            by_cases hle : (parent d).1 ≤ (sib q).1
            · exact Anc.comparable hPt hanc hle
            · exfalso
              have h1 : Anc (parent d) (sib q) := Anc.comparable hanc hPt (by omega)
              have h2 : SUnder (parent d) (sib q) := ⟨h1, by omega⟩
              have h3 := sunder_iff_parent.1 h2
              rw [parent_sib] at h3
              exact hout (Anc.trans h3 (anc_parent_self q))
          exact ⟨liftP (sib d) t, (D.kleaf_lift hs).2 hk, Anc.trans hcmp (anc_P_lift hs)⟩
        · exact ⟨t, (D.kleaf_out ho).2 hk, hanc⟩
  · -- flags
    intro q l hl hh hnz
    rcases unlift_cases d q with rfl | hs | ⟨hu, hs⟩ | hout
    · rw [unliftAll_sib] at hl
      rw [inv.flags _ l hl hole_P hnz, D.kleaf_P]
    · rw [unliftAll_under hs] at hl
      rw [inv.flags _ l hl (hole_lift q hs.1) hnz, D.kleaf_lift hs.1]
    · rw [unliftAll_none hu hs] at hl; cases hl
    · rw [unliftAll_out hout] at hl
      rw [inv.flags q l hl (fun c => hh (Or.inl c)) hnz, D.kleaf_out hout]

/-- **un-lifting** (one step of `undoDelMoveDown`; the inverse of `MapLiftCore.liftCore`), for the
invariant `HInvP` whose "nothing unneeded" clause refers to the FINAL cached set `Kp`: the state
tracks the node list `N''` AFTER the deletion of everything below the non-root node `d` (outside a
hole that does not meet the region below `parent d`); after the subtree at `parent d` has been moved
back down to `sib d` it tracks the node list `N` BEFORE the deletion, outside the old hole, the
nodes of the subtree of `d`, and the node `parent d` with its ancestors (their hashes are stale).
`hKpd`: some leaf below `d` is in `Kp` (it will be re-inserted and cached) — this is what allows
`sib d` to be stored. -/
theorem unliftCoreP (L : Laws N R) (L'' : Laws N'' R)
    (inv : HInvP A C N'' R K Kp Hole'') {h : H} {b : Bool}
    (hd : (d, h, b) ∈ N) (hnr : ¬ R d)
    -- the deleted leaves are not in the cached set
    (hKd : ∀ t x, (t, x, true) ∈ N → Anc d t → ¬ K x)
    -- but one of them is in the final cached set
    (hKpd : ∃ t x, (t, x, true) ∈ N ∧ Anc d t ∧ Kp x)
    -- the old hole does not meet the moving region
    (hHP : ∀ q, Hole'' q → ¬ Anc (parent d) q)
    -- `N''` is `N` after the deletion (`PForestDel.del_nonroot`)
    (hD1 : ∀ e : Pos × H × Bool, e ∈ N'' →
      (¬ Anc (parent d) e.1 ∧ ¬ Anc e.1 (parent d) ∧ e ∈ N) ∨
      (∃ c, Anc (sib d) c ∧ e.1 = liftP (sib d) c ∧ (c, e.2) ∈ N) ∨
      (Anc e.1 (parent d) ∧ e.1 ≠ parent d ∧ e.2.2 = false ∧ ∃ h0, (e.1, h0, false) ∈ N))
    (hD2 : ∀ e : Pos × H × Bool, ¬ Anc (parent d) e.1 → ¬ Anc e.1 (parent d) → e ∈ N → e ∈ N'')
    (hD3 : ∀ c h' b', Anc (sib d) c → (c, h', b') ∈ N → (liftP (sib d) c, h', b') ∈ N'')
    (hD4 : ∀ z h0, (z, h0, false) ∈ N → Anc z (parent d) → z ≠ parent d → ∃ h1, (z, h1, false) ∈ N'') :
    HInvP (unliftAll (sib d) A) (unliftCAll (sib d) C) N R K Kp
      (fun q => Hole'' q ∨ ((Anc d q ∨ Anc q (parent d)) ∧ ∃ h0 f, (q, h0, f) ∈ N)) := by
  refine unliftCoreG ⟨L, L'', ⟨h, b, hd⟩, hnr, hD1, hD2, hD3, hD4⟩ inv hKd hHP ?_
  intro l _
  obtain ⟨t, x, hm, ha, hk⟩ := hKpd
  exact ⟨t, ⟨x, hk, hm⟩, ha.1, Anc.trans (anc_parent_self d) ha⟩

/-- **un-lifting for `HInv`** (the statement of the brief plus the ONE extra hypothesis `hσ` without
which it is false, see `unliftCore_statement_false`): if something is stored at `parent d`, then a
leaf of the cached set lies at or below `parent d` in `N''` (so that `sib d` is allowed to be stored
afterwards). -/
theorem unliftCore (L : Laws N R) (L'' : Laws N'' R)
    (inv : HInv A C N'' R K Hole'') {h : H} {b : Bool}
    (hd : (d, h, b) ∈ N) (hnr : ¬ R d)
    (hKd : ∀ t x, (t, x, true) ∈ N → Anc d t → ¬ K x)
    (hHP : ∀ q, Hole'' q → ¬ Anc (parent d) q)
    (hD1 : ∀ e : Pos × H × Bool, e ∈ N'' →
      (¬ Anc (parent d) e.1 ∧ ¬ Anc e.1 (parent d) ∧ e ∈ N) ∨
      (∃ c, Anc (sib d) c ∧ e.1 = liftP (sib d) c ∧ (c, e.2) ∈ N) ∨
      (Anc e.1 (parent d) ∧ e.1 ≠ parent d ∧ e.2.2 = false ∧ ∃ h0, (e.1, h0, false) ∈ N))
    (hD2 : ∀ e : Pos × H × Bool, ¬ Anc (parent d) e.1 → ¬ Anc e.1 (parent d) → e ∈ N → e ∈ N'')
    (hD3 : ∀ c h' b', Anc (sib d) c → (c, h', b') ∈ N → (liftP (sib d) c, h', b') ∈ N'')
    (hD4 : ∀ z h0, (z, h0, false) ∈ N → Anc z (parent d) → z ≠ parent d → ∃ h1, (z, h1, false) ∈ N'')
    -- EXTRA: the stored node at `parent d` covers a leaf of the cached set
    (hσ : A (parent d) ≠ none → ∃ t, KLeaf N'' K t ∧ Anc (parent d) t) :
    HInv (unliftAll (sib d) A) (unliftCAll (sib d) C) N R K
      (fun q => Hole'' q ∨ ((Anc d q ∨ Anc q (parent d)) ∧ ∃ h0 f, (q, h0, f) ∈ N)) := by
  have D : Del N N'' R d := ⟨L, L'', ⟨h, b, hd⟩, hnr, hD1, hD2, hD3, hD4⟩
  refine (unliftCoreG D (HInvP.of_hinv inv (fun _ hx => hx)) hKd hHP ?_).to_hinv (fun _ hx => hx)
  intro l hl
  obtain ⟨t', hk', hu⟩ := hσ (by rw [hl]; intro e; cases e)
  obtain ⟨t, ht, _, hk⟩ := D.kleaf_under hk' hu
  exact ⟨t, hk, by have := ht.1; rwa [sib_fst] at this, Anc.trans (anc_parent_sib d) ht⟩

end

/-! ### non-vacuity, and the counterexample to the statement without `hKpd` / `hσ`

`F5` of `Props/C09.lean` (leaves 0‥4; a four-leaf tree rooted at `(2,0)` and the root leaf `(0,4)`),
`d = (0,2)` (leaf 2), `σ = sib d = (0,3)`, `P = parent d = (1,1)`.  `N''` = `F5` without leaf 2:
leaf 3 sits at `(1,1)`.  Cached set `K = {leaf 0}`. -/

namespace UnliftExample
open Props.C09.Example MapSInv.Example PForestDel PForestDel.Example PForestSpec MapAL MapRemoveAll

theorem N5''_eq : (F5.delLeaves [T.leaf 2]).nodes =
    [((2, 0), .node (.node (.leaf 0) (.leaf 1)) (.leaf 3), false),
     ((1, 0), .node (.leaf 0) (.leaf 1), false), ((0, 0), .leaf 0, true), ((0, 1), .leaf 1, true),
     ((1, 1), .leaf 3, true), ((0, 4), .leaf 4, true)] := by decide +kernel

theorem L5 : Laws F5.nodes (FRoot F5) := laws_forest crT.toNZ F5 (by decide) F5_hyg

theorem L5'' : Laws (F5.delLeaves [T.leaf 2]).nodes (FRoot F5) := by
  have := laws_forest crT.toNZ (F5.delLeaves [T.leaf 2]) (by rw [Spec.numLeaves_delLeaves]; decide)
    (hyg_delLeaves F5_hyg _)
  rwa [froot_del] at this

def exK : T → Prop := fun x => x = T.leaf 0
def exKp : T → Prop := fun x => x = T.leaf 0 ∨ x = T.leaf 2

/-- the store for `N''`: the roots, the cached leaf 0 and its sibling, and leaf 3 at `(1,1)` (required:
the cached leaf lies below its sibling `(1,0)`) -/
def exAL : List (Pos × Leaf T) :=
  [((2, 0), ⟨.node (.node (.leaf 0) (.leaf 1)) (.leaf 3), false⟩), ((0, 0), ⟨.leaf 0, true⟩),
   ((0, 1), ⟨.leaf 1, false⟩), ((1, 1), ⟨.leaf 3, false⟩), ((0, 4), ⟨.leaf 4, false⟩)]
def exA : Pos → Option (Leaf T) := fun q => AL.get? exAL q
def exC : T → Option Pos := fun x => AL.get? [(T.leaf 0, ((0, 0) : Pos))] x

theorem exK''_iff (t : Pos) : KLeaf (F5.delLeaves [T.leaf 2]).nodes exK t ↔ t = (0, 0) := by
  unfold KLeaf exK
  rw [N5''_eq]
  constructor
  · rintro ⟨x, rfl, hm⟩
    simpa using hm
  · rintro rfl
    exact ⟨_, rfl, by decide⟩

theorem exK_iff (t : Pos) : KLeaf F5.nodes exK t ↔ t = (0, 0) := by
  unfold KLeaf exK
  rw [F5_nodes]
  constructor
  · rintro ⟨x, rfl, hm⟩
    simpa using hm
  · rintro rfl
    exact ⟨_, rfl, by decide⟩

theorem exA_mem {q : Pos} {l : Leaf T} (h : exA q = some l) :
    (q = (2, 0) ∧ l = ⟨.node (.node (.leaf 0) (.leaf 1)) (.leaf 3), false⟩) ∨ (q = (0, 0) ∧ l = ⟨.leaf 0, true⟩) ∨
    (q = (0, 1) ∧ l = ⟨.leaf 1, false⟩) ∨ (q = (1, 1) ∧ l = ⟨.leaf 3, false⟩) ∨ (q = (0, 4) ∧ l = ⟨.leaf 4, false⟩) := by
  have hm := get?_some_mem (l := exAL) h
  simpa [exAL] using hm

theorem exC_mem {x : T} {t : Pos} (h : exC x = some t) : x = .leaf 0 ∧ t = (0, 0) := by
  have hm := get?_some_mem (l := [(T.leaf 0, ((0, 0) : Pos))]) h
  simpa using hm

theorem root20 : FRoot F5 (2, 0) := by show isRootPos _ _ = true; decide
theorem root04 : FRoot F5 (0, 4) := by show isRootPos _ _ = true; decide

/-- the invariant before the step (no hole) -/
theorem exInv : HInv exA exC (F5.delLeaves [T.leaf 2]).nodes (FRoot F5) exK (fun _ => False) where
  true_hash := by
    intro q l hl _
    rw [N5''_eq]
    rcases exA_mem hl with ⟨rfl, rfl⟩ | ⟨rfl, rfl⟩ | ⟨rfl, rfl⟩ | ⟨rfl, rfl⟩ | ⟨rfl, rfl⟩
    · exact ⟨false, by decide⟩
    · exact ⟨true, by decide⟩
    · exact ⟨true, by decide⟩
    · exact ⟨true, by decide⟩
    · exact ⟨true, by decide⟩
  cache_sub := by
    intro x t h
    exact (exC_mem h).1
  cached_pos := by
    intro x t h
    obtain ⟨rfl, rfl⟩ := exC_mem h
    exact ⟨by rw [N5''_eq]; decide, fun c => c⟩
  kleaf_out := fun _ _ c => c
  leaf_stored := by
    intro t hk
    rw [exK''_iff] at hk
    subst hk
    decide
  only_needed := by
    intro q l hl _ hnr
    rcases exA_mem hl with ⟨rfl, rfl⟩ | ⟨rfl, rfl⟩ | ⟨rfl, rfl⟩ | ⟨rfl, rfl⟩ | ⟨rfl, rfl⟩
    · exact absurd root20 hnr
    · exact ⟨(0, 0), (exK''_iff _).2 rfl, by decide, by decide⟩
    · exact ⟨(0, 0), (exK''_iff _).2 rfl, by decide, by decide⟩
    · exact ⟨(0, 0), (exK''_iff _).2 rfl, by decide, by decide⟩
    · exact absurd root04 hnr
  has_needed := by
    intro q h b hm _ hnr hreq
    rw [N5''_eq] at hm
    simp only [List.mem_cons, Prod.mk.injEq, List.mem_nil_iff, or_false] at hm
    rcases hm with ⟨rfl, _⟩ | ⟨rfl, _⟩ | ⟨rfl, _⟩ | ⟨rfl, _⟩ | ⟨rfl, _⟩ | ⟨rfl, _⟩
    · decide
    · exfalso
      rcases hreq with hk | ⟨t, hk, ha⟩
      · rw [exK''_iff] at hk; exact absurd hk (by decide)
      · rw [exK''_iff] at hk; subst hk; exact absurd ha (by decide)
    · decide
    · decide
    · decide
    · decide
  flags := by
    intro q l hl _ _
    rw [exK''_iff]
    rcases exA_mem hl with ⟨rfl, rfl⟩ | ⟨rfl, rfl⟩ | ⟨rfl, rfl⟩ | ⟨rfl, rfl⟩ | ⟨rfl, rfl⟩ <;> decide

theorem ex_hd : (((0, 2) : Pos), T.leaf 2, true) ∈ F5.nodes := by rw [F5_nodes]; decide

theorem ex_hnr : ¬ FRoot F5 (0, 2) := by
  show ¬ (isRootPos _ _ = true); decide

/-- the deletion relation, from `PForestDel.del_nonroot` -/
theorem exDel : Del F5.nodes (F5.delLeaves [T.leaf 2]).nodes (FRoot F5) (0, 2) := by
  have hdel := del_nonroot crT.toNZ F5 (by decide) F5_hyg (d := (0, 2)) (h := T.leaf 2) (b := true)
    ex_hd (by decide) [T.leaf 2] R2_spec
  exact ⟨L5, L5'', ⟨_, _, ex_hd⟩, ex_hnr, hdel.1, hdel.2.1, hdel.2.2.1, hdel.2.2.2⟩

/-- the deleted leaf is not in the cached set `K` … -/
theorem ex_hKd : ∀ t x, (t, x, true) ∈ F5.nodes → Anc (0, 2) t → ¬ exK x := by
  intro t x hm ha hk
  have := (exK_iff t).1 ⟨x, hk, hm⟩
  subst this
  exact absurd ha (by decide)

/-- … but it is in the final cached set `Kp` -/
theorem ex_hKpd : ∃ t x, (t, x, true) ∈ F5.nodes ∧ Anc (0, 2) t ∧ exKp x :=
  ⟨(0, 2), T.leaf 2, ex_hd, by decide, Or.inr rfl⟩

/-- **non-vacuity of `unliftCoreP`**: all hypotheses hold on `F5`, `d = (0,2)` -/
theorem exInvP' : HInvP (unliftAll (sib (0, 2)) exA) (unliftCAll (sib (0, 2)) exC) F5.nodes (FRoot F5) exK exKp
    (fun q => False ∨ ((Anc (0, 2) q ∨ Anc q (parent (0, 2))) ∧ ∃ h0 f, (q, h0, f) ∈ F5.nodes)) :=
  unliftCoreP L5 L5'' (HInvP.of_hinv exInv (fun _ hx => Or.inl hx)) ex_hd ex_hnr ex_hKd ex_hKpd
    (fun _ c => c.elim) exDel.hD1 exDel.hD2 exDel.hD3 exDel.hD4

/-- the step does something: leaf 3 moved from `(1,1)` back to `(0,3)`, `(1,1)` and `(0,2)` are empty,
the cached leaf 0 stayed -/
example : unliftAll (sib (0, 2)) exA (0, 3) = some ⟨.leaf 3, false⟩ ∧ unliftAll (sib (0, 2)) exA (1, 1) = none ∧
    unliftAll (sib (0, 2)) exA (0, 2) = none ∧ unliftAll (sib (0, 2)) exA (0, 0) = some ⟨.leaf 0, true⟩ ∧
    unliftCAll (sib (0, 2)) exC (.leaf 0) = some (0, 0) := by
  refine ⟨by decide, by decide, by decide, by decide, by decide⟩

/-- the statement of the brief: `unliftCore` WITHOUT the hypothesis `hσ` -/
def unliftCore_statement : Prop :=
  ∀ (H : Type) [DecidableEq H] [Hasher H] (A : Pos → Option (Leaf H)) (C : H → Option Pos)
    (N N'' : List (Pos × H × Bool)) (R : Pos → Prop) (K : H → Prop) (Hole'' : Pos → Prop) (d : Pos) (h : H) (b : Bool),
    Laws N R → Laws N'' R → HInv A C N'' R K Hole'' → (d, h, b) ∈ N → ¬ R d →
    (∀ t x, (t, x, true) ∈ N → Anc d t → ¬ K x) →
    (∀ q, Hole'' q → ¬ Anc (parent d) q) →
    (∀ e : Pos × H × Bool, e ∈ N'' →
      (¬ Anc (parent d) e.1 ∧ ¬ Anc e.1 (parent d) ∧ e ∈ N) ∨
      (∃ c, Anc (sib d) c ∧ e.1 = liftP (sib d) c ∧ (c, e.2) ∈ N) ∨
      (Anc e.1 (parent d) ∧ e.1 ≠ parent d ∧ e.2.2 = false ∧ ∃ h0, (e.1, h0, false) ∈ N)) →
    (∀ e : Pos × H × Bool, ¬ Anc (parent d) e.1 → ¬ Anc e.1 (parent d) → e ∈ N → e ∈ N'') →
    (∀ c h' b', Anc (sib d) c → (c, h', b') ∈ N → (liftP (sib d) c, h', b') ∈ N'') →
    (∀ z h0, (z, h0, false) ∈ N → Anc z (parent d) → z ≠ parent d → ∃ h1, (z, h1, false) ∈ N'') →
    HInv (unliftAll (sib d) A) (unliftCAll (sib d) C) N R K
      (fun q => Hole'' q ∨ ((Anc d q ∨ Anc q (parent d)) ∧ ∃ h0 f, (q, h0, f) ∈ N))

/-- **the statement of the brief is false**: on `F5` with cached set `{leaf 0}`, after leaf 2 has been
deleted, leaf 3 is stored at `(1,1)` because the cached leaf lies below its SIBLING `(1,0)`; moved back
to `(0,3)` it is stored although no leaf of the cached set lies below its parent `(1,1)` (the leaf 2
that justifies it joins the cache only at the end of `Undo`). -/
theorem unliftCore_statement_false : ¬ unliftCore_statement := by
  intro hst
  have inv' := hst T exA exC F5.nodes (F5.delLeaves [T.leaf 2]).nodes (FRoot F5) exK (fun _ => False) (0, 2)
    (T.leaf 2) true L5 L5'' exInv ex_hd ex_hnr ex_hKd (fun _ c => c.elim) exDel.hD1 exDel.hD2 exDel.hD3 exDel.hD4
  have hst : unliftAll (sib (0, 2)) exA (0, 3) = some ⟨.leaf 3, false⟩ := by decide
  obtain ⟨t, hk, _, ha⟩ := inv'.only_needed (0, 3) _ hst
    (by
      rintro (c | ⟨c | c, _⟩)
      · exact c
      · exact absurd c (by decide)
      · exact absurd c (by decide))
    (by show ¬ (isRootPos _ _ = true); decide)
  rw [exK_iff] at hk
  subst hk
  exact absurd ha (by decide)

/-! #### a second state, for `unliftCore` (with `hσ`): cached set `{leaf 3}`, the cached leaf itself moves -/

def exK2 : T → Prop := fun x => x = T.leaf 3

def exAL2 : List (Pos × Leaf T) :=
  [((2, 0), ⟨.node (.node (.leaf 0) (.leaf 1)) (.leaf 3), false⟩), ((1, 0), ⟨.node (.leaf 0) (.leaf 1), false⟩),
   ((1, 1), ⟨.leaf 3, true⟩), ((0, 4), ⟨.leaf 4, false⟩)]
def exA2 : Pos → Option (Leaf T) := fun q => AL.get? exAL2 q
def exC2 : T → Option Pos := fun x => AL.get? [(T.leaf 3, ((1, 1) : Pos))] x

theorem exK2''_iff (t : Pos) : KLeaf (F5.delLeaves [T.leaf 2]).nodes exK2 t ↔ t = (1, 1) := by
  unfold KLeaf exK2
  rw [N5''_eq]
  constructor
  · rintro ⟨x, rfl, hm⟩
    simpa using hm
  · rintro rfl
    exact ⟨_, rfl, by decide⟩

theorem exK2_iff (t : Pos) : KLeaf F5.nodes exK2 t ↔ t = (0, 3) := by
  unfold KLeaf exK2
  rw [F5_nodes]
  constructor
  · rintro ⟨x, rfl, hm⟩
    simpa using hm
  · rintro rfl
    exact ⟨_, rfl, by decide⟩

theorem exA2_mem {q : Pos} {l : Leaf T} (h : exA2 q = some l) :
    (q = (2, 0) ∧ l = ⟨.node (.node (.leaf 0) (.leaf 1)) (.leaf 3), false⟩) ∨
    (q = (1, 0) ∧ l = ⟨.node (.leaf 0) (.leaf 1), false⟩) ∨
    (q = (1, 1) ∧ l = ⟨.leaf 3, true⟩) ∨ (q = (0, 4) ∧ l = ⟨.leaf 4, false⟩) := by
  have hm := get?_some_mem (l := exAL2) h
  simpa [exAL2] using hm

theorem exC2_mem {x : T} {t : Pos} (h : exC2 x = some t) : x = .leaf 3 ∧ t = (1, 1) := by
  have hm := get?_some_mem (l := [(T.leaf 3, ((1, 1) : Pos))]) h
  simpa using hm

theorem exInv2 : HInv exA2 exC2 (F5.delLeaves [T.leaf 2]).nodes (FRoot F5) exK2 (fun _ => False) where
  true_hash := by
    intro q l hl _
    rw [N5''_eq]
    rcases exA2_mem hl with ⟨rfl, rfl⟩ | ⟨rfl, rfl⟩ | ⟨rfl, rfl⟩ | ⟨rfl, rfl⟩
    · exact ⟨false, by decide⟩
    · exact ⟨false, by decide⟩
    · exact ⟨true, by decide⟩
    · exact ⟨true, by decide⟩
  cache_sub := by
    intro x t h
    exact (exC2_mem h).1
  cached_pos := by
    intro x t h
    obtain ⟨rfl, rfl⟩ := exC2_mem h
    exact ⟨by rw [N5''_eq]; decide, fun c => c⟩
  kleaf_out := fun _ _ c => c
  leaf_stored := by
    intro t hk
    rw [exK2''_iff] at hk
    subst hk
    decide
  only_needed := by
    intro q l hl _ hnr
    rcases exA2_mem hl with ⟨rfl, rfl⟩ | ⟨rfl, rfl⟩ | ⟨rfl, rfl⟩ | ⟨rfl, rfl⟩
    · exact absurd root20 hnr
    · exact ⟨(1, 1), (exK2''_iff _).2 rfl, by decide, by decide⟩
    · exact ⟨(1, 1), (exK2''_iff _).2 rfl, by decide, by decide⟩
    · exact absurd root04 hnr
  has_needed := by
    intro q h b hm _ hnr hreq
    rw [N5''_eq] at hm
    simp only [List.mem_cons, Prod.mk.injEq, List.mem_nil_iff, or_false] at hm
    have hno : ∀ q : Pos, q ≠ (1, 1) → ¬ Anc (sib q) (1, 1) →
        ¬ (KLeaf (F5.delLeaves [T.leaf 2]).nodes exK2 q ∨
          ∃ t, KLeaf (F5.delLeaves [T.leaf 2]).nodes exK2 t ∧ Anc (sib q) t) := by
      intro q h1 h2
      rintro (hk | ⟨t, hk, ha⟩)
      · rw [exK2''_iff] at hk; exact h1 hk
      · rw [exK2''_iff] at hk; subst hk; exact h2 ha
    rcases hm with ⟨rfl, _⟩ | ⟨rfl, _⟩ | ⟨rfl, _⟩ | ⟨rfl, _⟩ | ⟨rfl, _⟩ | ⟨rfl, _⟩
    · decide
    · decide
    · exact absurd hreq (hno _ (by decide) (by decide))
    · exact absurd hreq (hno _ (by decide) (by decide))
    · decide
    · decide
  flags := by
    intro q l hl _ _
    rw [exK2''_iff]
    rcases exA2_mem hl with ⟨rfl, rfl⟩ | ⟨rfl, rfl⟩ | ⟨rfl, rfl⟩ | ⟨rfl, rfl⟩ <;> decide

theorem ex_hKd2 : ∀ t x, (t, x, true) ∈ F5.nodes → Anc (0, 2) t → ¬ exK2 x := by
  intro t x hm ha hk
  have := (exK2_iff t).1 ⟨x, hk, hm⟩
  subst this
  exact absurd ha (by decide)

/-- **non-vacuity of `unliftCore`** (with `hσ`: the cached leaf 3 sits at `parent d = (1,1)`) -/
theorem exInv2' : HInv (unliftAll (sib (0, 2)) exA2) (unliftCAll (sib (0, 2)) exC2) F5.nodes (FRoot F5) exK2
    (fun q => False ∨ ((Anc (0, 2) q ∨ Anc q (parent (0, 2))) ∧ ∃ h0 f, (q, h0, f) ∈ F5.nodes)) :=
  unliftCore L5 L5'' exInv2 ex_hd ex_hnr ex_hKd2 (fun _ c => c.elim) exDel.hD1 exDel.hD2 exDel.hD3 exDel.hD4
    (fun _ => ⟨(1, 1), (exK2''_iff _).2 rfl, by decide⟩)

/-- the cached leaf 3 moved from `(1,1)` back to `(0,3)`, in the store and in the cache -/
example : unliftAll (sib (0, 2)) exA2 (0, 3) = some ⟨.leaf 3, true⟩ ∧ unliftAll (sib (0, 2)) exA2 (1, 1) = none ∧
    unliftCAll (sib (0, 2)) exC2 (.leaf 3) = some (0, 3) ∧ exC2 (.leaf 3) = some (1, 1) := by
  refine ⟨by decide, by decide, by decide, by decide⟩

end UnliftExample

end UtreexoVerif.Proofs.MapUndoSteps

#print axioms UtreexoVerif.Proofs.MapUndoSteps.unliftCoreG
#print axioms UtreexoVerif.Proofs.MapUndoSteps.unliftCoreP
#print axioms UtreexoVerif.Proofs.MapUndoSteps.unliftCore
#print axioms UtreexoVerif.Proofs.MapUndoSteps.HInvP.mono_hole
#print axioms UtreexoVerif.Proofs.MapUndoSteps.UnliftExample.exInvP'
#print axioms UtreexoVerif.Proofs.MapUndoSteps.UnliftExample.unliftCore_statement_false
#print axioms UtreexoVerif.Proofs.MapUndoSteps.UnliftExample.exInv2'
