/-
  Interfaces between the parts of the proof that `genTTLs` is exact (property C15):

  * `TrackerOK h tr`: what `AddBlockSummary` has recorded for the history `h`
    (proved in `SchedTrack`);
  * `StepOK gpp h tr`: what one call of `getPrevPos` does to the 63-row encoded positions of
    any set of slots that are live after block `t` (proved for `getPrevPosFixed` in `SchedGpp`);
  * `SchedGen` derives the ttl tables from these two.
-/
import UtreexoVerif.Proofs.SchedUndoAdd

namespace UtreexoVerif.Proofs.SchedIface
open UtreexoVerif Spec Spec.Sched Model
open UtreexoVerif.Proofs UtreexoVerif.Proofs.SchedSem UtreexoVerif.Proofs.CalcGeo
open UtreexoVerif.Proofs.SchedUndoAdd

/-- what the tracker holds after the summaries of `h` have been fed to it -/
structure TrackerOK (h : History) (tr : Tracker) : Prop where
  len_d : tr.deletions.length = h.length
  len_a : tr.numAdds.length = h.length
  len_n : tr.numLeaves.length = h.length
  len_t : tr.toDestroy.length = h.length
  dels : ∀ (t : Nat) (b : Block), h[t]? = some b →
    tr.deletions[t]? = some (b.delSlots.map fun s => E 63 (posS (stateAt h t) s))
  adds : ∀ (t : Nat) (b : Block), h[t]? = some b → tr.numAdds[t]? = some (BitVec.ofNat 16 b.numAdds)
  leaves : ∀ (t : Nat) (b : Block), h[t]? = some b →
    tr.numLeaves[t]? = some (BitVec.ofNat 64 (stateAt h (t + 1)).length)
  td : ∀ (t : Nat) (b : Block), h[t]? = some b →
    ∃ td, tr.toDestroy[t]? = some td ∧ TdOK (midS (stateAt h t) b) b.numAdds td

/-- one call of `getPrevPos` for block `t`: the encoded positions (in the state after block
`t`) of any duplicate-free list `P` of slots live after block `t` are mapped to their encoded
positions before block `t`; the slots created by block `t` keep their leaf position (= slot
number) and their indexes in `P` are reported, last created first -/
def StepOK (gpp : PrevPosFn) (h : History) (tr : Tracker) : Prop :=
  ∀ (t : Nat) (b : Block) (dels td : List U64) (P : List Nat), h[t]? = some b →
    tr.deletions[t]? = some dels → tr.toDestroy[t]? = some td →
    P.Nodup → (∀ s ∈ P, Live (stateAt h (t + 1)) s) →
    gpp CSTTotalRows (P.map fun s => E 63 (posS (stateAt h (t + 1)) s)) dels td
        (BitVec.ofNat 16 b.numAdds) (BitVec.ofNat 64 (stateAt h (t + 1)).length) =
      (P.map (fun s => if s < (stateAt h t).length then E 63 (posS (stateAt h t) s)
                       else BitVec.ofNat 64 s),
       createdOf (stateAt h t).length P b.numAdds)

end UtreexoVerif.Proofs.SchedIface
