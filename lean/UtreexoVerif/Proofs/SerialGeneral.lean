/-
  Property C13, statements about ARBITRARY streams (valid or damaged): the decoders never
  panic and always return (`*_total`), and they depend only on the concatenation of the chunks
  a reader delivers (`*_chunking`).
-/
import UtreexoVerif.Proofs.SerialMap
namespace UtreexoVerif.Proofs.Serial
open UtreexoVerif Model.Serial Spec Hasher Model
set_option linter.unusedSectionVars false

/-- `io.ReadFull` depends only on the concatenation of the chunks (and not on whether the
last read carries `io.EOF`): same result, and the remaining streams are the same. -/
theorem readFull_congr {r1 r2 : Reader} (h : r1.data = r2.data) (k : Nat) :
    (readFull r1 k).1 = (readFull r2 k).1 ∧ (readFull r1 k).2.data = (readFull r2 k).2.data := by
  by_cases hk : k ≤ r1.data.length
  · have s1 := readFull_full r1 k hk
    have s2 := readFull_full r2 k (by rw [← h]; exact hk)
    rw [s1.1, s2.1, s1.2.1, s2.2.1, h]; exact ⟨rfl, rfl⟩
  · by_cases h0 : r1.data = []
    · have s1 := readFull_eof r1 k (by omega) h0
      have s2 := readFull_eof r2 k (by omega) (by rw [← h]; exact h0)
      rw [s1.1, s2.1, s1.2.1, s2.2.1]; exact ⟨rfl, rfl⟩
    · have s1 := readFull_short r1 k (by omega) h0
      have s2 := readFull_short r2 k (by rw [← h]; omega) (by rw [← h]; exact h0)
      rw [s1.1, s2.1, s1.2.1, s2.2.1, h]; exact ⟨rfl, rfl⟩

section Pointer
variable {H : Type} [DecidableEq H] [Hasher H] [HashBytes H]

/-- a result with the remaining reader replaced by the stream it still holds -/
def strip {α : Type} : Res (α × Reader) → Res (α × List Byte)
  | ⟨n, .ok (a, r)⟩ => ⟨n, .ok (a, r.data)⟩
  | ⟨n, .err⟩ => ⟨n, .err⟩
  | ⟨n, .panic⟩ => ⟨n, .panic⟩
  | ⟨n, .hang⟩ => ⟨n, .hang⟩

def strip3 {α β : Type} : Res (α × β × Reader) → Res (α × β × List Byte)
  | ⟨n, .ok (a, b, r)⟩ => ⟨n, .ok (a, b, r.data)⟩
  | ⟨n, .err⟩ => ⟨n, .err⟩
  | ⟨n, .panic⟩ => ⟨n, .panic⟩
  | ⟨n, .hang⟩ => ⟨n, .hang⟩

theorem strip3_eq_cases {α β : Type} {x y : Res (α × β × Reader)} (h : strip3 x = strip3 y) :
    (∃ (n : Nat) (a : α) (b : β) (r1 r2 : Reader), x = ⟨n, .ok (a, b, r1)⟩ ∧ y = ⟨n, .ok (a, b, r2)⟩ ∧ r1.data = r2.data) ∨
    (∃ (n : Nat), (x = ⟨n, .err⟩ ∧ y = ⟨n, .err⟩) ∨ (x = ⟨n, .panic⟩ ∧ y = ⟨n, .panic⟩) ∨
      (x = ⟨n, .hang⟩ ∧ y = ⟨n, .hang⟩)) := by
  obtain ⟨n1, o1⟩ := x
  obtain ⟨n2, o2⟩ := y
  cases o1 with
  | ok v1 =>
    obtain ⟨a1, b1, r1⟩ := v1
    cases o2 with
    | ok v2 =>
      obtain ⟨a2, b2, r2⟩ := v2
      simp only [strip3, Res.mk.injEq, Out.ok.injEq, Prod.mk.injEq] at h
      obtain ⟨rfl, rfl, rfl, hd⟩ := h
      exact Or.inl ⟨_, _, _, _, _, rfl, rfl, hd⟩
    | err => simp [strip3] at h
    | panic => simp [strip3] at h
    | hang => simp [strip3] at h
  | err =>
    cases o2 <;> simp [strip3] at h
    subst h
    exact Or.inr ⟨_, Or.inl ⟨rfl, rfl⟩⟩
  | panic =>
    cases o2 <;> simp [strip3] at h
    subst h
    exact Or.inr ⟨_, Or.inr (Or.inl ⟨rfl, rfl⟩)⟩
  | hang =>
    cases o2 <;> simp [strip3] at h
    subst h
    exact Or.inr ⟨_, Or.inr (Or.inr ⟨rfl, rfl⟩)⟩

theorem readOne_congr : ∀ (fuel : Nat) (r1 r2 : Reader) (nm : NodeMap H), r1.data = r2.data →
    strip3 (readOne fuel r1 nm) = strip3 (readOne fuel r2 nm) := by
  intro fuel
  induction fuel with
  | zero => intro r1 r2 nm _; simp [readOne, strip3]
  | succ f ih =>
    intro r1 r2 nm h
    rw [readOne, readOne]
    have c1 := readFull_congr h 32
    rcases hx1 : readFull r1 32 with ⟨a1, s1⟩
    rcases hy1 : readFull r2 32 with ⟨a2, t1⟩
    rw [hx1, hy1] at c1
    obtain ⟨ea, hd1⟩ := c1
    simp only at ea hd1
    subst ea
    cases a1 with
    | eof => simp [strip3]
    | unexpected n => simp [strip3]
    | full hb =>
      simp only []
      have c2 := readFull_congr hd1 1
      rcases hx2 : readFull s1 1 with ⟨a2, s2⟩
      rcases hy2 : readFull t1 1 with ⟨b2, t2⟩
      rw [hx2, hy2] at c2
      obtain ⟨ea, hd2⟩ := c2
      simp only at ea hd2
      subst ea
      cases a2 with
      | eof => simp [strip3]
      | unexpected n => simp [strip3]
      | full lf =>
        simp only []
        have c3 := readFull_congr hd2 1
        rcases hx3 : readFull s2 1 with ⟨a3, s3⟩
        rcases hy3 : readFull t2 1 with ⟨b3, t3⟩
        rw [hx3, hy3] at c3
        obtain ⟨ea, hd3⟩ := c3
        simp only at ea hd3
        subst ea
        cases a3 with
        | eof => simp [strip3]
        | unexpected n => simp [strip3]
        | full nf =>
          simp only []
          split
          · generalize (if (lf.headD 0#8 == 1#8) = true then
              (if ((ofBytes hb : H) != zero) = true then NodeMap.put nm (hb.take 12) (ofBytes hb) else nm) else nm) = nm1
            rcases strip3_eq_cases (ih s3 t3 nm1 hd3) with ⟨n, l, nm2, r4, r4', e1, e2, hd4⟩ | ⟨n, ⟨e1, e2⟩ | ⟨e1, e2⟩ | ⟨e1, e2⟩⟩
            · rw [e1, e2]
              simp only []
              rcases strip3_eq_cases (ih r4 r4' nm2 hd4) with ⟨n', rn, nm3, r5, r5', e3, e4, hd5⟩ | ⟨n', ⟨e3, e4⟩ | ⟨e3, e4⟩ | ⟨e3, e4⟩⟩
              · rw [e3, e4]; simp [strip3, hd5]
              · rw [e3, e4]
              · rw [e3, e4]
              · rw [e3, e4]
            · rw [e1, e2]
            · rw [e1, e2]
            · rw [e1, e2]
          · simp [strip3, hd3]

theorem readRoots_congr (fuel : Nat) : ∀ (k : Nat) (r1 r2 : Reader) (nm : NodeMap H) (total : Nat),
    r1.data = r2.data → strip3 (readRoots fuel k r1 nm total) = strip3 (readRoots fuel k r2 nm total) := by
  intro k
  induction k with
  | zero => intro r1 r2 nm total h; simp [readRoots, strip3, h]
  | succ k ih =>
    intro r1 r2 nm total h
    rw [readRoots, readRoots]
    rcases strip3_eq_cases (readOne_congr fuel r1 r2 nm h) with ⟨n, p, nm2, s1, s2, e1, e2, hd⟩ | ⟨n, ⟨e1, e2⟩ | ⟨e1, e2⟩ | ⟨e1, e2⟩⟩
    · rw [e1, e2]
      simp only []
      rcases strip3_eq_cases (ih s1 s2 nm2 (total + n) hd) with ⟨n', ps, nm3, s3, s4, e3, e4, hd'⟩ | ⟨n', ⟨e3, e4⟩ | ⟨e3, e4⟩ | ⟨e3, e4⟩⟩
      · rw [e3, e4]; simp [strip3, hd']
      · rw [e3, e4]
      · rw [e3, e4]
      · rw [e3, e4]
    · rw [e1, e2]
    · rw [e1, e2]
    · rw [e1, e2]

/-- **Chunking independence.**  `RestorePollardFrom` depends only on the concatenation of the
chunks the reader delivers (and not on whether the last read carries `io.EOF`) — for EVERY
stream, valid or not. -/
theorem restorePollard_chunking (r1 r2 : Reader) (h : r1.data = r2.data) :
    restorePollard (H := H) r1 = restorePollard r2 := by
  unfold restorePollard
  rw [h]
  have c1 := readFull_congr h 8
  rcases hx1 : readFull r1 8 with ⟨a1, s1⟩
  rcases hy1 : readFull r2 8 with ⟨a2, t1⟩
  rw [hx1, hy1] at c1
  obtain ⟨ea, hd1⟩ := c1
  simp only at ea hd1
  subst ea
  cases a1 with
  | eof => rfl
  | unexpected n => rfl
  | full b1 =>
    simp only []
    have c2 := readFull_congr hd1 8
    rcases hx2 : readFull s1 8 with ⟨a2, s2⟩
    rcases hy2 : readFull t1 8 with ⟨b2, t2⟩
    rw [hx2, hy2] at c2
    obtain ⟨ea, hd2⟩ := c2
    simp only at ea hd2
    subst ea
    cases a2 with
    | eof => rfl
    | unexpected n => rfl
    | full b2 =>
      simp only []
      rcases strip3_eq_cases (readRoots_congr (H := H) (r2.data.length + 1) (numRoots (unle64 b1)).toNat s2 t2 [] (8 + 8) hd2)
        with ⟨n, ps, nm, s3, s4, e1, e2, _⟩ | ⟨n, ⟨e1, e2⟩ | ⟨e1, e2⟩ | ⟨e1, e2⟩⟩
      · rw [e1, e2]
      · rw [e1, e2]
      · rw [e1, e2]
      · rw [e1, e2]

theorem readFull_full_inv {r : Reader} {k : Nat} {a : List Byte} {r' : Reader}
    (h : readFull r k = (.full a, r')) :
    k ≤ r.data.length ∧ a = r.data.take k ∧ r'.data = r.data.drop k := by
  by_cases hk : k ≤ r.data.length
  · have sp := readFull_full r k hk
    rw [h] at sp
    simp only [RF.full.injEq] at sp
    exact ⟨hk, sp.1, sp.2.1⟩
  · have := readFull_lt r k (by omega)
    rw [h] at this
    simp at this

/-- `readOne` never panics, never runs out of fuel when given more fuel than the stream has
bytes, and consumes at least the 34 bytes of a node when it succeeds. -/
theorem readOne_total : ∀ (fuel : Nat) (r : Reader) (nm : NodeMap H), r.data.length < fuel →
    (readOne fuel r nm).out ≠ .hang ∧ (readOne fuel r nm).out ≠ .panic ∧
    ∀ p nm' r', (readOne fuel r nm).out = .ok (p, nm', r') → r'.data.length + 34 ≤ r.data.length := by
  intro fuel
  induction fuel with
  | zero => intro r nm h; omega
  | succ f ih =>
    intro r nm hf
    rw [readOne]
    rcases hx1 : readFull r 32 with ⟨a1, r1⟩
    cases a1 with
    | eof => simp
    | unexpected n => simp
    | full hb =>
      obtain ⟨hk1, _, hd1⟩ := readFull_full_inv hx1
      simp only []
      rcases hx2 : readFull r1 1 with ⟨a2, r2⟩
      cases a2 with
      | eof => simp
      | unexpected n => simp
      | full lf =>
        obtain ⟨hk2, _, hd2⟩ := readFull_full_inv hx2
        simp only []
        rcases hx3 : readFull r2 1 with ⟨a3, r3⟩
        cases a3 with
        | eof => simp
        | unexpected n => simp
        | full nf =>
          obtain ⟨hk3, _, hd3⟩ := readFull_full_inv hx3
          have hl3 : r3.data.length + 34 = r.data.length := by
            rw [hd3, hd2, hd1]; simp only [List.length_drop]
            rw [hd1, List.length_drop] at hk2
            rw [hd2, hd1] at hk3; simp only [List.length_drop] at hk3
            omega
          simp only []
          split
          · -- nieces follow
            generalize hnm : (if (lf.headD 0#8 == 1#8) = true then
              (if ((ofBytes hb : H) != zero) = true then NodeMap.put nm (hb.take 12) (ofBytes hb) else nm) else nm) = nm1
            have ih1 := ih r3 nm1 (by omega)
            rcases hy1 : readOne f r3 nm1 with ⟨lb, o1⟩
            rw [hy1] at ih1
            cases o1 with
            | ok x =>
              obtain ⟨l, nm2, r4⟩ := x
              have hl4 := ih1.2.2 l nm2 r4 rfl
              simp only []
              have ih2 := ih r4 nm2 (by omega)
              rcases hy2 : readOne f r4 nm2 with ⟨rb, o2⟩
              rw [hy2] at ih2
              cases o2 with
              | ok y =>
                obtain ⟨rn, nm3, r5⟩ := y
                have hl5 := ih2.2.2 rn nm3 r5 rfl
                simp only [ne_eq, reduceCtorEq, not_false_eq_true, Out.ok.injEq, Prod.mk.injEq, true_and]
                intro p nm' r' h
                rw [← h.2.2]; omega
              | err => simp [failAs]
              | panic => exact absurd rfl ih2.2.1
              | hang => exact absurd rfl ih2.1
            | err => simp [failAs]
            | panic => exact absurd rfl ih1.2.1
            | hang => exact absurd rfl ih1.1
          · simp only [ne_eq, reduceCtorEq, not_false_eq_true, Out.ok.injEq, Prod.mk.injEq, true_and]
            intro p nm' r' h
            rw [← h.2.2]; omega

theorem readRoots_total (fuel : Nat) : ∀ (k : Nat) (r : Reader) (nm : NodeMap H) (total : Nat),
    r.data.length < fuel →
    (readRoots fuel k r nm total).out ≠ .hang ∧ (readRoots fuel k r nm total).out ≠ .panic ∧
    ∀ ps nm' r', (readRoots fuel k r nm total).out = .ok (ps, nm', r') → r'.data.length ≤ r.data.length := by
  intro k
  induction k with
  | zero =>
    intro r nm total _
    simp only [readRoots, ne_eq, reduceCtorEq, not_false_eq_true, Out.ok.injEq, Prod.mk.injEq, true_and]
    intro ps nm' r' h
    rw [← h.2.2]; omega
  | succ k ih =>
    intro r nm total hf
    rw [readRoots]
    have h1 := readOne_total fuel r nm hf
    rcases hy1 : readOne fuel r nm with ⟨b, o1⟩
    rw [hy1] at h1
    cases o1 with
    | ok x =>
      obtain ⟨n, nm2, r2⟩ := x
      have hl := h1.2.2 n nm2 r2 rfl
      simp only []
      have h2 := ih r2 nm2 (total + b) (by omega)
      rcases hy2 : readRoots fuel k r2 nm2 (total + b) with ⟨t, o2⟩
      rw [hy2] at h2
      cases o2 with
      | ok y =>
        obtain ⟨ns, nm3, r3⟩ := y
        have hl3 := h2.2.2 ns nm3 r3 rfl
        simp only [ne_eq, reduceCtorEq, not_false_eq_true, Out.ok.injEq, Prod.mk.injEq, true_and]
        intro ps nm' r' h
        rw [← h.2.2]; omega
      | err => simp [failAs]
      | panic => exact absurd rfl h2.2.1
      | hang => exact absurd rfl h2.1
    | err => simp [failAs]
    | panic => exact absurd rfl h1.2.1
    | hang => exact absurd rfl h1.1

/-- `RestorePollardFrom` on ANY stream through ANY chunking: never a panic, never out of fuel. -/
theorem restorePollard_total (r : Reader) :
    (restorePollard (H := H) r).out ≠ .hang ∧ (restorePollard (H := H) r).out ≠ .panic := by
  unfold restorePollard
  rcases hx1 : readFull r 8 with ⟨a1, r1⟩
  cases a1 with
  | eof => simp
  | unexpected n => simp
  | full b1 =>
    obtain ⟨_, _, hd1⟩ := readFull_full_inv hx1
    simp only []
    rcases hx2 : readFull r1 8 with ⟨a2, r2⟩
    cases a2 with
    | eof => simp
    | unexpected n => simp
    | full b2 =>
      obtain ⟨_, _, hd2⟩ := readFull_full_inv hx2
      simp only []
      have h := readRoots_total (H := H) (r.data.length + 1) (numRoots (unle64 b1)).toNat r2 [] (8 + 8)
        (by rw [hd2, hd1]; simp only [List.length_drop]; omega)
      rcases hy : readRoots (H := H) (r.data.length + 1) (numRoots (unle64 b1)).toNat r2 [] (8 + 8) with ⟨t, o⟩
      rw [hy] at h
      cases o with
      | ok x =>
        obtain ⟨roots, nm, r3⟩ := x
        simp only []
        split <;> simp
      | err => simp [failAs]
      | panic => exact absurd rfl h.2.1
      | hang => exact absurd rfl h.1

end Pointer

section Map
variable {H : Type} [DecidableEq H] [HashBytes H]

theorem readCached_total : ∀ (k : Nat) (r : Reader) (c : List (H × U64)) (total : Nat),
    (readCached k r c total).out ≠ .hang ∧ (readCached k r c total).out ≠ .panic := by
  intro k
  induction k with
  | zero => intro r c total; simp [readCached]
  | succ k ih =>
    intro r c total
    rw [readCached]
    rcases hx1 : readFull r 32 with ⟨a1, r1⟩
    cases a1 with
    | eof => simp
    | unexpected n => simp
    | full hb =>
      simp only []
      rcases hx2 : readFull r1 8 with ⟨a2, r2⟩
      cases a2 with
      | eof => simp
      | unexpected n => simp
      | full pb => exact ih _ _ _

theorem readNodes_total : ∀ (k : Nat) (r : Reader) (ns : List (U64 × H × Bool)) (total : Nat),
    (readNodes k r ns total).out ≠ .hang ∧ (readNodes k r ns total).out ≠ .panic := by
  intro k
  induction k with
  | zero => intro r c total; simp [readNodes]
  | succ k ih =>
    intro r c total
    rw [readNodes]
    rcases hx1 : readFull r 8 with ⟨a1, r1⟩
    cases a1 with
    | eof => simp
    | unexpected n => simp
    | full hb =>
      simp only []
      rcases hx2 : readFull r1 33 with ⟨a2, r2⟩
      cases a2 with
      | eof => simp
      | unexpected n => simp
      | full pb => exact ih _ _ _

/-- `MapPollard.Read` on ANY stream through ANY chunking into ANY receiver: never a panic, always returns. -/
theorem mapRead_total (m0 : MapSt H) (r : Reader) :
    (mapRead m0 r).out ≠ .hang ∧ (mapRead m0 r).out ≠ .panic := by
  unfold mapRead
  rcases hx1 : readFull r 1 with ⟨a1, r1⟩
  cases a1 with
  | eof => simp
  | unexpected n => simp
  | full b0 =>
    simp only []
    rcases hx2 : readFull r1 8 with ⟨a2, r2⟩
    cases a2 with
    | eof => simp
    | unexpected n => simp
    | full b1 =>
      simp only []
      rcases hx3 : readFull r2 8 with ⟨a3, r3⟩
      cases a3 with
      | eof => simp
      | unexpected n => simp
      | full b2 =>
        simp only []
        have h1 := readCached_total (loopCount (unle64 b2)) r3 m0.cached (1 + 8 + 8)
        rcases hy1 : readCached (loopCount (unle64 b2)) r3 m0.cached (1 + 8 + 8) with ⟨t, o⟩
        rw [hy1] at h1
        cases o with
        | ok x =>
          obtain ⟨cached, r4⟩ := x
          simp only []
          rcases hx4 : readFull r4 8 with ⟨a4, r5⟩
          cases a4 with
          | eof => simp
          | unexpected n => simp
          | full b3 =>
            simp only []
            have h2 := readNodes_total (loopCount (unle64 b3)) r5 m0.nodes (t + 8)
            rcases hy2 : readNodes (loopCount (unle64 b3)) r5 m0.nodes (t + 8) with ⟨t2, o2⟩
            rw [hy2] at h2
            cases o2 with
            | ok y =>
              obtain ⟨nodes, r6⟩ := y
              simp only []
              split <;> simp
            | err => simp [failAs]
            | panic => exact absurd rfl h2.2
            | hang => exact absurd rfl h2.1
        | err => simp [failAs]
        | panic => exact absurd rfl h1.2
        | hang => exact absurd rfl h1.1
theorem strip_eq_cases {α : Type} {x y : Res (α × Reader)} (h : strip x = strip y) :
    (∃ (n : Nat) (a : α) (r1 r2 : Reader), x = ⟨n, .ok (a, r1)⟩ ∧ y = ⟨n, .ok (a, r2)⟩ ∧ r1.data = r2.data) ∨
    (∃ (n : Nat), (x = ⟨n, .err⟩ ∧ y = ⟨n, .err⟩) ∨ (x = ⟨n, .panic⟩ ∧ y = ⟨n, .panic⟩) ∨
      (x = ⟨n, .hang⟩ ∧ y = ⟨n, .hang⟩)) := by
  obtain ⟨n1, o1⟩ := x
  obtain ⟨n2, o2⟩ := y
  cases o1 with
  | ok v1 =>
    obtain ⟨a1, r1⟩ := v1
    cases o2 with
    | ok v2 =>
      obtain ⟨a2, r2⟩ := v2
      simp only [strip, Res.mk.injEq, Out.ok.injEq, Prod.mk.injEq] at h
      obtain ⟨rfl, rfl, hd⟩ := h
      exact Or.inl ⟨_, _, _, _, rfl, rfl, hd⟩
    | err => simp [strip] at h
    | panic => simp [strip] at h
    | hang => simp [strip] at h
  | err =>
    cases o2 <;> simp [strip] at h
    subst h
    exact Or.inr ⟨_, Or.inl ⟨rfl, rfl⟩⟩
  | panic =>
    cases o2 <;> simp [strip] at h
    subst h
    exact Or.inr ⟨_, Or.inr (Or.inl ⟨rfl, rfl⟩)⟩
  | hang =>
    cases o2 <;> simp [strip] at h
    subst h
    exact Or.inr ⟨_, Or.inr (Or.inr ⟨rfl, rfl⟩)⟩

theorem readCached_congr : ∀ (k : Nat) (r1 r2 : Reader) (c : List (H × U64)) (total : Nat),
    r1.data = r2.data → strip (readCached k r1 c total) = strip (readCached k r2 c total) := by
  intro k
  induction k with
  | zero => intro r1 r2 c total h; simp [readCached, strip, h]
  | succ k ih =>
    intro r1 r2 c total h
    rw [readCached, readCached]
    have c1 := readFull_congr h 32
    rcases hx1 : readFull r1 32 with ⟨a1, s1⟩
    rcases hy1 : readFull r2 32 with ⟨a2, t1⟩
    rw [hx1, hy1] at c1
    obtain ⟨ea, hd1⟩ := c1
    simp only at ea hd1
    subst ea
    cases a1 with
    | eof => rfl
    | unexpected n => rfl
    | full hb =>
      simp only []
      have c2 := readFull_congr hd1 8
      rcases hx2 : readFull s1 8 with ⟨a2, s2⟩
      rcases hy2 : readFull t1 8 with ⟨b2, t2⟩
      rw [hx2, hy2] at c2
      obtain ⟨ea, hd2⟩ := c2
      simp only at ea hd2
      subst ea
      cases a2 with
      | eof => rfl
      | unexpected n => rfl
      | full pb => exact ih _ _ _ _ hd2

theorem readNodes_congr : ∀ (k : Nat) (r1 r2 : Reader) (ns : List (U64 × H × Bool)) (total : Nat),
    r1.data = r2.data → strip (readNodes k r1 ns total) = strip (readNodes k r2 ns total) := by
  intro k
  induction k with
  | zero => intro r1 r2 c total h; simp [readNodes, strip, h]
  | succ k ih =>
    intro r1 r2 c total h
    rw [readNodes, readNodes]
    have c1 := readFull_congr h 8
    rcases hx1 : readFull r1 8 with ⟨a1, s1⟩
    rcases hy1 : readFull r2 8 with ⟨a2, t1⟩
    rw [hx1, hy1] at c1
    obtain ⟨ea, hd1⟩ := c1
    simp only at ea hd1
    subst ea
    cases a1 with
    | eof => rfl
    | unexpected n => rfl
    | full hb =>
      simp only []
      have c2 := readFull_congr hd1 33
      rcases hx2 : readFull s1 33 with ⟨a2, s2⟩
      rcases hy2 : readFull t1 33 with ⟨b2, t2⟩
      rw [hx2, hy2] at c2
      obtain ⟨ea, hd2⟩ := c2
      simp only at ea hd2
      subst ea
      cases a2 with
      | eof => rfl
      | unexpected n => rfl
      | full pb => exact ih _ _ _ _ hd2

/-- **Chunking independence.**  `MapPollard.Read` depends only on the concatenation of the
chunks the reader delivers — for EVERY stream and every receiver. -/
theorem mapRead_chunking (m0 : MapSt H) (r1 r2 : Reader) (h : r1.data = r2.data) :
    mapRead m0 r1 = mapRead m0 r2 := by
  unfold mapRead
  have c1 := readFull_congr h 1
  rcases hx1 : readFull r1 1 with ⟨a1, s1⟩
  rcases hy1 : readFull r2 1 with ⟨a2, t1⟩
  rw [hx1, hy1] at c1
  obtain ⟨ea, hd1⟩ := c1
  simp only at ea hd1
  subst ea
  cases a1 with
  | eof => rfl
  | unexpected n => rfl
  | full b0 =>
    simp only []
    have c2 := readFull_congr hd1 8
    rcases hx2 : readFull s1 8 with ⟨a2, s2⟩
    rcases hy2 : readFull t1 8 with ⟨b2, t2⟩
    rw [hx2, hy2] at c2
    obtain ⟨ea, hd2⟩ := c2
    simp only at ea hd2
    subst ea
    cases a2 with
    | eof => rfl
    | unexpected n => rfl
    | full b1 =>
      simp only []
      have c3 := readFull_congr hd2 8
      rcases hx3 : readFull s2 8 with ⟨a3, s3⟩
      rcases hy3 : readFull t2 8 with ⟨b3, t3⟩
      rw [hx3, hy3] at c3
      obtain ⟨ea, hd3⟩ := c3
      simp only at ea hd3
      subst ea
      cases a3 with
      | eof => rfl
      | unexpected n => rfl
      | full b2 =>
        simp only []
        rcases strip_eq_cases (readCached_congr (loopCount (unle64 b2)) s3 t3 m0.cached (1 + 8 + 8) hd3)
          with ⟨n, cached, s4, t4, e1, e2, hd4⟩ | ⟨n, ⟨e1, e2⟩ | ⟨e1, e2⟩ | ⟨e1, e2⟩⟩
        · rw [e1, e2]
          simp only []
          have c4 := readFull_congr hd4 8
          rcases hx4 : readFull s4 8 with ⟨a4, s5⟩
          rcases hy4 : readFull t4 8 with ⟨b4, t5⟩
          rw [hx4, hy4] at c4
          obtain ⟨ea, hd5⟩ := c4
          simp only at ea hd5
          subst ea
          cases a4 with
          | eof => rfl
          | unexpected n => rfl
          | full b3 =>
            simp only []
            rcases strip_eq_cases (readNodes_congr (loopCount (unle64 b3)) s5 t5 m0.nodes (n + 8) hd5)
              with ⟨n', nodes, s6, t6, e3, e4, _⟩ | ⟨n', ⟨e3, e4⟩ | ⟨e3, e4⟩ | ⟨e3, e4⟩⟩
            · rw [e3, e4]
            · rw [e3, e4]
            · rw [e3, e4]
            · rw [e3, e4]
        · rw [e1, e2]
        · rw [e1, e2]
        · rw [e1, e2]
end Map
end UtreexoVerif.Proofs.Serial
