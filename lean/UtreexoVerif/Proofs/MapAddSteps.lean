/-
  Layer 2: the three kinds of steps of `addSingle` on the abstract state.
    step 0 — the new leaf is stored (and cached) as a new root on row 0;
    step A — the accumulated tree is hashed with the non-empty root on its row;
    step B — the accumulated tree is lifted over the empty root on its row.
-/
import UtreexoVerif.Proofs.MapLiftCore

namespace UtreexoVerif.Proofs.MapAddSteps
open UtreexoVerif Model Spec Spec.Forest Proofs MapInv MapPrune MapRep MapLiftGeo PForest MapAInv MapLiftCore Hasher
set_option linter.unusedSectionVars false

variable {H : Type} [DecidableEq H] [Hasher H]
variable {A : Pos → Option (Leaf H)} {C : H → Option Pos} {N N' : List (Pos × H × Bool)}
  {R R' : Pos → Prop} {K : H → Prop}

theorem pruneA_absent {q : Pos} (h1 : A q = none) (h2 : A (sib q) = none) (p : Pos) : pruneA A q p = A p := by
  unfold pruneA
  split
  · split
    · rename_i h; rw [h.1, h2]
    · split
      · rename_i h; rw [h.1, h1]
      · rfl
  · rfl

/-! ### step 0 -/

theorem step0 (L : Laws N R) (inv : AInv A C N R K (fun _ => False)) {t0 : Pos} {x : H} {rem : Bool}
    (hN' : ∀ e, e ∈ N' ↔ e ∈ N ∨ e = (t0, x, true))
    (hR' : ∀ z, R' z ↔ R z ∨ z = t0)
    (hpos : ∀ q h b, (q, h, b) ∈ N → ¬ Anc q t0)
    (hxN : ∀ q b, (q, x, b) ∉ N) (hKx : ¬ K x) :
    AInv (upd A t0 (some ⟨x, rem⟩)) (if rem = true then upd C x (some t0) else C) N' R'
      (fun y => K y ∨ (rem = true ∧ y = x)) (fun _ => False) := by
  have hsub : ∀ e, e ∈ N → e ∈ N' := fun e he => (hN' e).2 (Or.inl he)
  have hnew : (t0, x, true) ∈ N' := (hN' _).2 (Or.inr rfl)
  have hCx : C x = none := by
    cases h : C x with
    | none => rfl
    | some t => exact absurd (inv.cache_sub x t h) hKx
  -- K-leaves of the new view away from `t0`
  have kleaf_old : ∀ t, t ≠ t0 → (KLeaf N' (fun y => K y ∨ (rem = true ∧ y = x)) t ↔ KLeaf N K t) := by
    intro t ht
    constructor
    · rintro ⟨y, hk, hm⟩
      rcases (hN' _).1 hm with hm' | hm'
      · rcases hk with hk | ⟨_, rfl⟩
        · exact ⟨y, hk, hm'⟩
        · exact absurd hm' (hxN t true)
      · simp only [Prod.mk.injEq] at hm'
        exact absurd hm'.1 ht
    · rintro ⟨y, hk, hm⟩
      exact ⟨y, Or.inl hk, hsub _ hm⟩
  have not_t0 : ∀ q h b, (q, h, b) ∈ N → q ≠ t0 := by
    rintro q h b hm rfl; exact hpos _ h b hm (Anc.refl _)
  refine { true_hash := ?_, cache_sub := ?_, cached_pos := ?_, roots_stored := ?_, only_needed := ?_,
           has_needed := ?_, flags := ?_ }
  · intro q l hl
    rw [upd_apply] at hl
    split at hl
    · rename_i e
      simp only [Option.some.injEq] at hl
      subst hl e
      exact ⟨true, hnew⟩
    · obtain ⟨b, hb⟩ := inv.true_hash q l hl
      exact ⟨b, hsub _ hb⟩
  · intro y t h
    by_cases hr : rem = true
    · rw [if_pos hr, upd_apply] at h
      split at h
      · rename_i e; exact Or.inr ⟨hr, e⟩
      · exact Or.inl (inv.cache_sub y t h)
    · rw [if_neg hr] at h
      exact Or.inl (inv.cache_sub y t h)
  · intro y t h
    by_cases hr : rem = true
    · rw [if_pos hr, upd_apply] at h
      split at h
      · rename_i e
        simp only [Option.some.injEq] at h
        subst h e; exact hnew
      · exact hsub _ (inv.cached_pos y t h)
    · rw [if_neg hr] at h
      exact hsub _ (inv.cached_pos y t h)
  · intro z hz
    rw [upd_apply]
    split
    · simp
    · rcases (hR' z).1 hz with h | h
      · exact inv.roots_stored z h
      · rename_i hne; exact absurd h hne
  · intro q l hl hnr _
    have hq0 : q ≠ t0 := fun e => hnr ((hR' q).2 (Or.inr e))
    rw [upd_ne _ _ hq0] at hl
    have hnrq : ¬ R q := fun h => hnr ((hR' q).2 (Or.inl h))
    obtain ⟨t, ⟨y, hk, hm⟩, hrow, hanc⟩ := inv.only_needed q l hl hnrq (fun h => h)
    exact ⟨t, ⟨y, Or.inl hk, hsub _ hm⟩, hrow, hanc⟩
  · intro q h b hm hnr hreq
    have hq0 : q ≠ t0 := fun e => hnr ((hR' q).2 (Or.inr e))
    have hnrq : ¬ R q := fun h => hnr ((hR' q).2 (Or.inl h))
    have hmN : (q, h, b) ∈ N := by
      rcases (hN' _).1 hm with h' | h'
      · exact h'
      · simp only [Prod.mk.injEq] at h'; exact absurd h'.1 hq0
    rw [upd_ne _ _ hq0]
    apply inv.has_needed q h b hmN hnrq
    rcases hreq with hk | ⟨t, hk, hanc⟩
    · exact Or.inl ((kleaf_old q hq0).1 hk)
    · right
      have ht0 : t ≠ t0 := by
        rintro rfl
        obtain ⟨h', b', hs⟩ := L.sib_node q h b hmN hnrq
        exact hpos _ h' b' hs hanc
      exact ⟨t, (kleaf_old t ht0).1 hk, hanc⟩
  · intro q l hl hnz
    rw [upd_apply] at hl
    split at hl
    · rename_i e
      simp only [Option.some.injEq] at hl
      subst hl e
      constructor
      · intro hr; exact ⟨x, Or.inr ⟨hr, rfl⟩, hnew⟩
      · rintro ⟨y, hk, hm⟩
        rcases (hN' _).1 hm with hm' | hm'
        · exact absurd rfl (not_t0 _ _ _ hm')
        · simp only [Prod.mk.injEq] at hm'
          rcases hk with hk | ⟨hr, _⟩
          · rw [hm'.2.1] at hk; exact absurd hk hKx
          · exact hr
    · rename_i hne
      rw [inv.flags q l hl hnz, kleaf_old q hne]

/-! ### step A -/

theorem stepA (L' : Laws N' R') (inv : AInv A C N R K (fun _ => False)) {ρ : Pos} {a b : H} {fa fb : Bool}
    (hρR : R ρ) (hσR : R (sib ρ)) (hρm : (ρ, a, fa) ∈ N) (hσm : (sib ρ, b, fb) ∈ N)
    (hN' : ∀ e, e ∈ N' ↔ e = (parent ρ, ph a b, false) ∨ e ∈ N)
    (hR' : ∀ z, R' z ↔ z = parent ρ ∨ (R z ∧ z ≠ ρ ∧ z ≠ sib ρ))
    (hfresh : ∀ h f, (parent ρ, h, f) ∉ N) :
    AInv (pruneA (upd A (parent ρ) (some ⟨ph a b, false⟩)) ρ) C N' R' K (fun _ => False) := by
  have hsub : ∀ e, e ∈ N → e ∈ N' := fun e he => (hN' e).2 (Or.inr he)
  have hPρ : parent ρ ≠ ρ := by
    intro e; have := congrArg Prod.fst e; simp [parent] at this
  have hPσ : parent ρ ≠ sib ρ := by
    intro e; have := congrArg Prod.fst e; simp [parent, sib] at this
  have leaf_old : ∀ t y, (t, y, true) ∈ N' ↔ (t, y, true) ∈ N := by
    intro t y
    constructor
    · intro h
      rcases (hN' _).1 h with h' | h'
      · simp only [Prod.mk.injEq] at h'; exact absurd h'.2.2 (by simp)
      · exact h'
    · exact hsub _
  have kleaf_old : ∀ t, KLeaf N' K t ↔ KLeaf N K t := by
    intro t
    constructor
    · rintro ⟨y, hk, hm⟩; exact ⟨y, hk, (leaf_old t y).1 hm⟩
    · rintro ⟨y, hk, hm⟩; exact ⟨y, hk, (leaf_old t y).2 hm⟩
  have inv1 : AInv (upd A (parent ρ) (some ⟨ph a b, false⟩)) C N' R' K (fun z => z = ρ ∨ z = sib ρ) := by
    refine { true_hash := ?_, cache_sub := inv.cache_sub, cached_pos := ?_, roots_stored := ?_, only_needed := ?_,
             has_needed := ?_, flags := ?_ }
    · intro q l hl
      rw [upd_apply] at hl
      split at hl
      · rename_i e
        simp only [Option.some.injEq] at hl
        subst hl e
        exact ⟨false, (hN' _).2 (Or.inl rfl)⟩
      · obtain ⟨b', hb'⟩ := inv.true_hash q l hl
        exact ⟨b', hsub _ hb'⟩
    · intro y t h; exact hsub _ (inv.cached_pos y t h)
    · intro z hz
      rw [upd_apply]
      split
      · simp
      · rcases (hR' z).1 hz with h | h
        · rename_i hne; exact absurd h hne
        · exact inv.roots_stored z h.1
    · intro q l hl hnr hE
      have hqP : q ≠ parent ρ := fun e => hnr ((hR' q).2 (Or.inl e))
      rw [upd_ne _ _ hqP] at hl
      have hnrq : ¬ R q := by
        intro h
        apply hnr
        rw [hR']
        right
        exact ⟨h, fun e => hE (Or.inl e), fun e => hE (Or.inr e)⟩
      obtain ⟨t, ht, hrow, hanc⟩ := inv.only_needed q l hl hnrq (fun h => h)
      exact ⟨t, (kleaf_old t).2 ht, hrow, hanc⟩
    · intro q h f hm hnr hreq
      have hqP : q ≠ parent ρ := fun e => hnr ((hR' q).2 (Or.inl e))
      rw [upd_ne _ _ hqP]
      have hmN : (q, h, f) ∈ N := by
        rcases (hN' _).1 hm with h' | h'
        · simp only [Prod.mk.injEq] at h'; exact absurd h'.1 hqP
        · exact h'
      by_cases hRq : R q
      · exact inv.roots_stored q hRq
      · apply inv.has_needed q h f hmN hRq
        rcases hreq with hk | ⟨t, hk, hanc⟩
        · exact Or.inl ((kleaf_old q).1 hk)
        · exact Or.inr ⟨t, (kleaf_old t).1 hk, hanc⟩
    · intro q l hl hnz
      rw [upd_apply] at hl
      split at hl
      · rename_i e
        simp only [Option.some.injEq] at hl
        subst hl e
        constructor
        · intro h; cases h
        · rintro ⟨y, _, hm⟩
          exact absurd ((leaf_old _ y).1 hm) (hfresh y true)
      · rw [inv.flags q l hl hnz, kleaf_old]
  have hnrρ : ¬ R' ρ := by
    rw [hR']
    rintro (h | ⟨_, h, _⟩)
    · exact hPρ h.symm
    · exact h rfl
  have := AInv.prune L' inv1 (hsub _ hρm) hnrρ (by
    rintro c hc (h | h)
    · rcases hc with hc | hc
      · rw [h] at hc; exact hPρ hc
      · rw [h] at hc; exact hPσ hc
    · rcases hc with hc | hc
      · rw [h, parent_sib] at hc; exact hPρ hc
      · rw [h, parent_sib] at hc; exact hPσ hc)
  exact this.change_E (fun q l _ _ _ hE => by
    obtain ⟨h1, h2, h3⟩ := hE
    rcases h1 with h | h
    · exact h2 h
    · exact h3 h)

/-! ### step B -/

theorem stepB (L : Laws N R) (L' : Laws N' R') (inv : AInv A C N R K (fun _ => False)) {σ : Pos} {pNode : Leaf H}
    (hρN : (sib σ, (zero : H), false) ∈ N) (hσR : R σ) (hAσ : A σ = some pNode)
    (hN' : ∀ e : Pos × H × Bool, e ∈ N' ↔ (¬ Anc (parent σ) e.1 ∧ e ∈ N) ∨
      (∃ c, Anc σ c ∧ e.1 = liftP σ c ∧ (c, e.2) ∈ N))
    (hR' : ∀ z, R' z ↔ z = parent σ ∨ (R z ∧ z ≠ sib σ ∧ z ≠ σ)) :
    AInv (pruneA (liftAll σ A) (sib σ)) (liftCAll σ C) N' R' K (fun _ => False) := by
  obtain ⟨hρR, _, hρbelow⟩ := L.zero_root (sib σ) false hρN
  obtain ⟨hσh, hσb, hσN⟩ := L.root_node σ hσR
  -- no leaf lies below the empty root
  have noleaf : ∀ t y, (t, y, true) ∈ N → ¬ Anc (sib σ) t := by
    intro t y hm ha
    have := hρbelow t y true hm ha
    subst this
    have := (L.func _ _ _ _ _ hm hρN).2
    cases this
  -- roots below `P` are `σ` and its sibling only; `P` is not a node
  have hPnot : ∀ h f, (parent σ, h, f) ∉ N := by
    intro h f hm
    obtain ⟨r, hr, ha⟩ := L.under_root _ h f hm
    have := L.root_disj r σ σ hr hσR (Anc.trans ha (anc_parent_self σ)) (Anc.refl σ)
    subst this
    have h1 := ha.1
    have : (parent r).1 = r.1 + 1 := rfl
    omega
  have hroots : ∀ z, R z → (Anc (parent σ) z ↔ z = sib σ ∨ z = σ) := by
    intro z hz
    constructor
    · intro ha
      rcases anc_parent_iff'.1 ha with e | e | e
      · obtain ⟨h, f, hm⟩ := L.root_node z hz
        rw [e] at hm; exact absurd hm (hPnot h f)
      · exact Or.inr (L.root_disj z σ z hz hσR (Anc.refl z) e)
      · exact Or.inl (L.root_disj z (sib σ) z hz hρR (Anc.refl z) e)
    · rintro (rfl | rfl)
      · exact anc_parent_sib σ
      · exact anc_parent_self _
  have hR'' : ∀ z, R' z ↔ (z = parent σ ∧ (R σ ∨ R (parent σ))) ∨ (R z ∧ ¬ Anc (parent σ) z) := by
    intro z
    rw [hR']
    constructor
    · rintro (h | ⟨h1, h2, h3⟩)
      · exact Or.inl ⟨h, Or.inl hσR⟩
      · refine Or.inr ⟨h1, fun ha => ?_⟩
        rcases (hroots z h1).1 ha with e | e
        · exact h2 e
        · exact h3 e
    · rintro (⟨h, _⟩ | ⟨h1, h2⟩)
      · exact Or.inl h
      · refine Or.inr ⟨h1, fun e => h2 ((hroots z h1).2 (Or.inl e)), fun e => h2 ((hroots z h1).2 (Or.inr e))⟩
  have core := liftCore (K' := K) L inv ⟨hσh, hσb, hσN⟩ (by rw [hAσ]; simp)
    (fun x t hC => noleaf t x (inv.cached_pos x t hC)) hN' hR''
    (fun x => ⟨fun hk => ⟨hk, fun t ht => noleaf t x ht⟩, fun h => h.1⟩)
  -- the exemptions are vacuous: `P` is a root
  have hRP : R' (parent σ) := (hR' _).2 (Or.inl rfl)
  have core' : AInv (liftAll σ A) (liftCAll σ C) N' R' K (fun _ => False) := by
    apply core.change_E
    intro q l hl hnr _ hE
    obtain ⟨bq, hqm⟩ := core.true_hash q l hl
    obtain ⟨hp, hpm, _⟩ := L'.parent_node q _ bq hqm hnr
    obtain ⟨r, hr, ha⟩ := L'.under_root _ hp false hpm
    have hPP : Anc (parent q) (parent σ) := Anc.trans hE (anc_parent_self _)
    have := L'.root_disj r (parent σ) (parent σ) hr hRP (Anc.trans ha hPP) (Anc.refl _)
    subst this
    have h1 := (Anc.trans ha hE).1
    have : (parent (parent σ)).1 = (parent σ).1 + 1 := rfl
    omega
  -- the final `prunePosition` at the left child of `P`
  by_cases hnode : ∃ h f, (sib σ, h, f) ∈ N'
  · obtain ⟨h, f, hm⟩ := hnode
    have hnr : ¬ R' (sib σ) := by
      rw [hR']
      rintro (e | ⟨_, e, _⟩)
      · have := congrArg Prod.fst e; simp [parent, sib] at this
      · exact e rfl
    have := AInv.prune L' core' hm hnr (fun _ _ h => h)
    exact this.change_E (fun _ _ _ _ _ hE => hE.1)
  · have h1 : liftAll σ A (sib σ) = none := by
      cases hA : liftAll σ A (sib σ) with
      | none => rfl
      | some l =>
        obtain ⟨b, hb⟩ := core'.true_hash _ l hA
        exact absurd ⟨_, _, hb⟩ hnode
    have h2 : liftAll σ A (sib (sib σ)) = none := by
      rw [sib_sib]
      cases hA : liftAll σ A σ with
      | none => rfl
      | some l =>
        obtain ⟨b, hb⟩ := core'.true_hash _ l hA
        have hnr : ¬ R' σ := by
          rw [hR']
          rintro (e | ⟨_, _, e⟩)
          · have := congrArg Prod.fst e; simp [parent] at this
          · exact e rfl
        obtain ⟨h', b', hs⟩ := L'.sib_node σ _ b hb hnr
        exact absurd ⟨_, _, hs⟩ hnode
    have e : pruneA (liftAll σ A) (sib σ) = liftAll σ A := funext (pruneA_absent h1 h2)
    rw [e]; exact core'

end UtreexoVerif.Proofs.MapAddSteps
