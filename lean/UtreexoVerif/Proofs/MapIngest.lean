/-
  `MapPollard.ingest` and `MapPollard.verifyM` (= Go `Verify(.., remember)`) on the canonical
  proof of a set of live leaves preserve the strong storage invariant `SInv`.

  Layer 2 (`ainv_ingest`): the abstract state after an ingest,

      A' q = if q ∈ pathSet then ⟨true hash, q ∈ targets⟩
             else if q ∈ proofPositions ∧ A q = none then ⟨true hash, false⟩ else A q,
      C' x = position of x  for x ∈ L,   C x otherwise,

  satisfies `AInv` for the same node list and the cached set `K ∪ L`.
  Layer 1: `ingest.store`, `putCalculated` on `Rep`, and the geometry of the call
  (`toHashAndPos`, `ProofPositions`, the trimming branch, the translation of the calculated nodes).
-/
import UtreexoVerif.Proofs.MapSInv
import UtreexoVerif.Proofs.MapProve
import UtreexoVerif.Props.C02

namespace UtreexoVerif.Proofs.MapIngest
open UtreexoVerif Model Spec Spec.Forest Proofs MapAL MapInv MapPrune MapRep MapLiftGeo PForest MapAInv
  PForestSpec MapSInv Hasher
set_option linter.unusedSectionVars false
set_option linter.unusedVariables false

variable {H : Type} [DecidableEq H] [Hasher H]

/-! ## Layer 2: the abstract invariant -/

section layer2
variable {A : Pos → Option (Leaf H)} {C : H → Option Pos} {N : List (Pos × H × Bool)} {R : Pos → Prop}

/-- `Nodes` after an ingest: path nodes are overwritten with their true hash (flag = is a target),
absent proof positions are filled in with their true hash (flag clear) -/
def ingA (PS PP ts : List Pos) (tv : Pos → H) (A : Pos → Option (Leaf H)) : Pos → Option (Leaf H) := fun q =>
  if q ∈ PS then some ⟨tv q, decide (q ∈ ts)⟩
  else if q ∈ PP ∧ A q = none then some ⟨tv q, false⟩ else A q

theorem ingA_ne_none {PS PP ts : List Pos} {tv : Pos → H} {q : Pos} (h : A q ≠ none) :
    ingA PS PP ts tv A q ≠ none := by
  unfold ingA
  split
  · simp
  · split
    · simp
    · exact h

/-- the sibling of a non-root node is not a root -/
theorem sib_not_root (Lw : Laws N R) {q : Pos} {h : H} {b : Bool} (hq : (q, h, b) ∈ N) (hnr : ¬ R q) :
    ¬ R (sib q) := by
  obtain ⟨hs, bs, hsq⟩ := Lw.sib_node q h b hq hnr
  obtain ⟨hp, hpm, _⟩ := Lw.parent_node q h b hq hnr
  exact Lw.not_root_of_sunder hpm hsq (by rw [sunder_iff_parent, parent_sib]; exact Anc.refl _)

theorem ainv_ingest (Lw : Laws N R) (inv : AInv A C N R (fun x => (C x).isSome = true) (fun _ => False))
    {PS PP ts : List Pos} {tv : Pos → H} {KL : H → Prop} {C2 : H → Option Pos}
    (hT : ∀ t, t ∈ ts ↔ ∃ x, KL x ∧ (t, x, true) ∈ N)
    (hPSn : ∀ q ∈ PS, ∃ b, (q, tv q, b) ∈ N)
    (hPSt : ∀ q ∈ PS, ∃ t ∈ ts, Anc q t)
    (hPS2 : ∀ t ∈ ts, t ∈ PS)
    (hPS3 : ∀ q h b t, (q, h, b) ∈ N → t ∈ ts → Anc q t → q ∈ PS)
    (hPP : ∀ q, q ∈ PP ↔ q ∉ PS ∧ ∃ x ∈ PS, ¬ R x ∧ q = sib x)
    (hPPn : ∀ q ∈ PP, ∃ b, (q, tv q, b) ∈ N)
    (hC2a : ∀ x t, C2 x = some t → C x = some t ∨ (KL x ∧ (t, x, true) ∈ N))
    (hC2b : ∀ x, (C2 x).isSome = true ↔ ((C x).isSome = true ∨ KL x)) :
    AInv (ingA PS PP ts tv A) C2 N R (fun x => (C2 x).isSome = true) (fun _ => False) := by
  -- the leaves of the new cached set
  have hK : ∀ t, KLeaf N (fun x => (C2 x).isSome = true) t ↔
      (KLeaf N (fun x => (C x).isSome = true) t ∨ t ∈ ts) := by
    intro t
    constructor
    · rintro ⟨x, hx, hm⟩
      rcases (hC2b x).1 hx with h | h
      · exact Or.inl ⟨x, h, hm⟩
      · exact Or.inr ((hT t).2 ⟨x, h, hm⟩)
    · rintro (⟨x, hx, hm⟩ | h)
      · exact ⟨x, (hC2b x).2 (Or.inl hx), hm⟩
      · obtain ⟨x, hx, hm⟩ := (hT t).1 h
        exact ⟨x, (hC2b x).2 (Or.inr hx), hm⟩
  have tsK : ∀ t ∈ ts, KLeaf N (fun x => (C2 x).isSome = true) t := fun t ht => (hK t).2 (Or.inr ht)
  -- proof positions are non-root nodes
  have hPPnr : ∀ q ∈ PP, ¬ R q := by
    intro q hq
    obtain ⟨_, x, hx, hnr, rfl⟩ := (hPP q).1 hq
    obtain ⟨b, hb⟩ := hPSn x hx
    exact sib_not_root Lw hb hnr
  -- a path node that is a leaf node is a target
  have leaf_PS : ∀ q ∈ PS, ∀ x, (q, x, true) ∈ N → q ∈ ts := by
    intro q hq x hm
    obtain ⟨t, ht, ha⟩ := hPSt q hq
    obtain ⟨y, _, hy⟩ := (hT t).1 ht
    have := Lw.leaf_below q x t y true hm hy ha
    rw [← this]; exact ht
  refine { true_hash := ?_, cache_sub := ?_, cached_pos := ?_, roots_stored := ?_, only_needed := ?_,
           has_needed := ?_, flags := ?_ }
  · -- true_hash
    intro q l hl
    unfold ingA at hl
    split at hl
    · rename_i hq
      obtain ⟨b, hb⟩ := hPSn q hq
      simp only [Option.some.injEq] at hl
      rw [← hl]; exact ⟨b, hb⟩
    · split at hl
      · rename_i hq
        obtain ⟨b, hb⟩ := hPPn q hq.1
        simp only [Option.some.injEq] at hl
        rw [← hl]; exact ⟨b, hb⟩
      · exact inv.true_hash q l hl
  · -- cache_sub
    intro x t h
    show (C2 x).isSome = true
    rw [h]; rfl
  · -- cached_pos
    intro x t h
    rcases hC2a x t h with h | h
    · exact inv.cached_pos x t h
    · exact h.2
  · -- roots_stored
    intro ρ hρ
    exact ingA_ne_none (inv.roots_stored ρ hρ)
  · -- only_needed
    intro q l hl hnr _
    unfold ingA at hl
    split at hl
    · rename_i hq
      obtain ⟨t, ht, ha⟩ := hPSt q hq
      exact ⟨t, tsK t ht, ha.1, ha.parent⟩
    · split at hl
      · rename_i hq
        obtain ⟨_, x, hx, hnrx, rfl⟩ := (hPP q).1 hq.1
        obtain ⟨t, ht, ha⟩ := hPSt x hx
        refine ⟨t, tsK t ht, ?_, ?_⟩
        · rw [sib_fst]; exact ha.1
        · rw [parent_sib]; exact ha.parent
      · obtain ⟨t, hk, hle, hanc⟩ := inv.only_needed q l hl hnr (fun h => h)
        exact ⟨t, (hK t).2 (Or.inl hk), hle, hanc⟩
  · -- has_needed
    intro q h b hq hnr hreq
    rcases hreq with hk | ⟨t, hk, hanc⟩
    · rcases (hK q).1 hk with hk | hk
      · exact ingA_ne_none (inv.has_needed q h b hq hnr (Or.inl hk))
      · unfold ingA
        rw [if_pos (hPS2 q hk)]; simp
    · rcases (hK t).1 hk with hk | hk
      · exact ingA_ne_none (inv.has_needed q h b hq hnr (Or.inr ⟨t, hk, hanc⟩))
      · obtain ⟨hs, bs, hsq⟩ := Lw.sib_node q h b hq hnr
        have hsPS : sib q ∈ PS := hPS3 (sib q) hs bs t hsq hk hanc
        have hsnr := sib_not_root Lw hq hnr
        unfold ingA
        by_cases hqPS : q ∈ PS
        · rw [if_pos hqPS]; simp
        · rw [if_neg hqPS]
          have hqPP : q ∈ PP := (hPP q).2 ⟨hqPS, sib q, hsPS, hsnr, (sib_sib q).symm⟩
          by_cases hA : A q = none
          · rw [if_pos ⟨hqPP, hA⟩]; simp
          · rw [if_neg (fun h => hA h.2)]; exact hA
  · -- flags
    intro q l hl hnz
    unfold ingA at hl
    split at hl
    · rename_i hq
      simp only [Option.some.injEq] at hl
      rw [← hl]
      simp only [decide_eq_true_eq]
      rw [hK]
      constructor
      · exact Or.inr
      · rintro (⟨x, _, hm⟩ | h)
        · exact leaf_PS q hq x hm
        · exact h
    · rename_i hqPS
      have hqts : q ∉ ts := fun h => hqPS (hPS2 q h)
      split at hl
      · rename_i hq
        simp only [Option.some.injEq] at hl
        rw [← hl, hK]
        simp only [Bool.false_eq_true, false_iff]
        rintro (hk | h)
        · obtain ⟨b, hb⟩ := hPPn q hq.1
          exact inv.has_needed q _ b hb (hPPnr q hq.1) (Or.inl hk) hq.2
        · exact hqts h
      · rw [inv.flags q l hl hnz, hK]
        constructor
        · exact Or.inl
        · rintro (h | h)
          · exact h
          · exact absurd h hqts

end layer2

/-! ## Layer 1: `ingest.store` and `putCalculated` on the representation -/

section layer1
variable {T : Nat}

/-- `Nodes` after the proof-storing loop: absent proof positions get their hash, flag clear -/
def storeA (P : List Pos) (hv : Pos → H) (A : Pos → Option (Leaf H)) : Pos → Option (Leaf H) := fun q =>
  if q ∈ P ∧ A q = none then some ⟨hv q, false⟩ else A q

theorem store_rep (pr : List H) (hv : Pos → H) : ∀ (qs : List Pos) (i : Nat) (m : MapPollard H)
    (A : Pos → Option (Leaf H)) (C : H → Option Pos), Rep m T A C → m.full = false →
    (∀ q ∈ qs, Valid T q) → (∀ j (hj : j < qs.length), pr[i + j]? = some (hv qs[j])) →
    ∃ m', MapPollard.ingest.store pr (qs.map (encP T)) i m = (m', .ok ()) ∧ Rep m' T (storeA qs hv A) C ∧
      m'.full = false ∧ m'.numLeaves = m.numLeaves
  | [], i, m, A, C, rep, hf, _, _ => by
    refine ⟨m, rfl, rep.congr (fun q => ?_) (fun _ => rfl), hf, rfl⟩
    simp [storeA]
  | q :: qs, i, m, A, C, rep, hf, hv', hpr => by
    have hq : Valid T q := hv' q List.mem_cons_self
    have hvs : ∀ q' ∈ qs, Valid T q' := fun q' h => hv' q' (List.mem_cons_of_mem _ h)
    have hprs : ∀ j (hj : j < qs.length), pr[i + 1 + j]? = some (hv qs[j]) := by
      intro j hj
      have := hpr (j + 1) (by simp; omega)
      rw [show i + (j + 1) = i + 1 + j by omega] at this
      simpa using this
    rw [List.map_cons]
    unfold MapPollard.ingest.store
    rw [rep.hasNode hq]
    cases hA : A q with
    | some l =>
      simp only [Option.isSome_some, if_true]
      obtain ⟨m', h1, h2, h3, h4⟩ := store_rep pr hv qs (i + 1) m A C rep hf hvs hprs
      refine ⟨m', h1, h2.congr (fun x => ?_) (fun _ => rfl), h3, h4⟩
      unfold storeA
      by_cases hx : x = q
      · subst hx; simp [hA]
      · simp [hx]
    | none =>
      simp only [Option.isSome_none, Bool.false_eq_true, if_false]
      have h0 := hpr 0 (by simp)
      rw [Nat.add_zero] at h0
      simp only [List.getElem_cons_zero] at h0
      rw [h0]
      simp only
      rw [hf]
      obtain ⟨m', h1, h2, h3, h4⟩ := store_rep pr hv qs (i + 1) _ _ C
        (rep.putNode hq ⟨hv q, false⟩) (by simpa using hf) hvs hprs
      refine ⟨m', h1, h2.congr (fun x => ?_) (fun _ => rfl), h3, h4⟩
      unfold storeA
      by_cases hx : x = q
      · subst hx; simp [hA]
      · simp [hx, upd_ne]

/-- `putCalculated` on a list of (valid position, hash) pairs -/
theorem putCalculated_rep (isT' : U64 → Bool) (isT : Pos → Bool) (v : Pos → H) : ∀ (qs : List Pos)
    (m : MapPollard H) (A : Pos → Option (Leaf H)) (C : H → Option Pos), Rep m T A C → m.full = false →
    (∀ q ∈ qs, Valid T q ∧ isT' (encP T q) = isT q) →
    ∃ A' C', Rep (MapPollard.putCalculated isT' (qs.map (fun p => (encP T p, v p))) m) T A' C' ∧
      (∀ q, A' q = if q ∈ qs then some ⟨v q, isT q⟩ else A q) ∧
      (∀ x t, C' x = some t → C x = some t ∨ (t ∈ qs ∧ isT t = true ∧ v t = x)) ∧
      (∀ x, (C' x).isSome = true ↔ ((C x).isSome = true ∨ ∃ t ∈ qs, isT t = true ∧ v t = x)) ∧
      (MapPollard.putCalculated isT' (qs.map (fun p => (encP T p, v p))) m).full = false ∧
      (MapPollard.putCalculated isT' (qs.map (fun p => (encP T p, v p))) m).numLeaves = m.numLeaves
  | [], m, A, C, rep, hf, _ => by
    refine ⟨A, C, rep, by simp, fun x t h => Or.inl h, by simp, hf, rfl⟩
  | q :: qs, m, A, C, rep, hf, hq => by
    obtain ⟨hqv, hqt⟩ := hq q List.mem_cons_self
    have hqs : ∀ q' ∈ qs, Valid T q' ∧ isT' (encP T q') = isT q' := fun q' h => hq q' (List.mem_cons_of_mem _ h)
    rw [List.map_cons]
    unfold MapPollard.putCalculated
    simp only
    rw [hqt, hf, Bool.or_false]
    have rep1 := rep.putNode hqv ⟨v q, isT q⟩
    cases ht : isT q with
    | false =>
      simp only [Bool.false_eq_true, if_false]
      rw [ht] at rep1
      obtain ⟨A', C', r', hA', hC1, hC2, hf', hn'⟩ := putCalculated_rep isT' isT v qs _ _ _ rep1 (by simpa using hf) hqs
      refine ⟨A', C', r', ?_, ?_, ?_, hf', hn'⟩
      · intro x
        rw [hA' x]
        by_cases hx : x ∈ qs
        · simp [hx]
        · by_cases hxq : x = q
          · subst hxq; simp [hx, ht]
          · simp [hx, hxq, upd_ne]
      · intro x t h
        rcases hC1 x t h with h | ⟨h1, h2, h3⟩
        · exact Or.inl h
        · exact Or.inr ⟨List.mem_cons_of_mem _ h1, h2, h3⟩
      · intro x
        rw [hC2 x]
        constructor
        · rintro (h | ⟨t, h1, h2, h3⟩)
          · exact Or.inl h
          · exact Or.inr ⟨t, List.mem_cons_of_mem _ h1, h2, h3⟩
        · rintro (h | ⟨t, h1, h2, h3⟩)
          · exact Or.inl h
          · rcases List.mem_cons.1 h1 with rfl | h1
            · rw [ht] at h2; cases h2
            · exact Or.inr ⟨t, h1, h2, h3⟩
    | true =>
      simp only [if_true]
      rw [ht] at rep1
      have rep2 := rep1.putCached (v q) hqv
      obtain ⟨A', C', r', hA', hC1, hC2, hf', hn'⟩ := putCalculated_rep isT' isT v qs _ _ _ rep2 (by simpa using hf) hqs
      refine ⟨A', C', r', ?_, ?_, ?_, hf', hn'⟩
      · intro x
        rw [hA' x]
        by_cases hx : x ∈ qs
        · simp [hx]
        · by_cases hxq : x = q
          · subst hxq; simp [hx, ht]
          · simp [hx, hxq, upd_ne]
      · intro x t h
        rcases hC1 x t h with h | ⟨h1, h2, h3⟩
        · rw [upd_apply] at h
          split at h
          · rename_i hx
            simp only [Option.some.injEq] at h
            subst h
            exact Or.inr ⟨List.mem_cons_self, ht, hx.symm⟩
          · exact Or.inl h
        · exact Or.inr ⟨List.mem_cons_of_mem _ h1, h2, h3⟩
      · intro x
        rw [hC2 x, upd_apply]
        constructor
        · rintro (h | ⟨t, h1, h2, h3⟩)
          · split at h
            · rename_i hx
              exact Or.inr ⟨q, List.mem_cons_self, ht, hx.symm⟩
            · exact Or.inl h
          · exact Or.inr ⟨t, List.mem_cons_of_mem _ h1, h2, h3⟩
        · rintro (h | ⟨t, h1, h2, h3⟩)
          · split
            · exact Or.inl rfl
            · exact Or.inl h
          · rcases List.mem_cons.1 h1 with rfl | h1
            · left; rw [if_pos h3.symm]; rfl
            · exact Or.inr ⟨t, h1, h2, h3⟩

end layer1

/-! ## the specification side: path set, proof positions and targets of a canonical proof -/

section spec
open SpecPlan SpecSubs CalcPlan
variable {F : Forest H} {L : List H} {ts : List Pos} {ps : List H}

/-- the hash of the node at a position (zero where there is none) -/
def tvF (F : Forest H) (q : Pos) : H := (F.nodeAt q).getD zero

theorem ts_iff (nz : NZ H) (hn : F.numLeaves < 2 ^ 64) (hy : Hyg F) (hc : F.canon L = some (ts, ps)) (t : Pos) :
    t ∈ ts ↔ ∃ x, x ∈ L ∧ (t, x, true) ∈ F.nodes := by
  obtain ⟨ht, hp, _, _⟩ := canon_spec hc
  rw [ht, List.mem_map]
  constructor
  · rintro ⟨l, hl, rfl⟩
    obtain ⟨p, hpl⟩ := hp l hl
    rw [hpl]
    exact ⟨l, hl, posOf_mem hpl⟩
  · rintro ⟨x, hx, hm⟩
    have := (posOf_iff F hn hy nz).2 hm
    exact ⟨x, hx, by rw [this]; rfl⟩

theorem ps_node (hc : F.canon L = some (ts, ps)) {q : Pos} (hq : q ∈ pathSet F ts) :
    ∃ b, (q, tvF F q, b) ∈ F.nodes := by
  obtain ⟨h, t, s⟩ := pathSet_sub (canon_targetsOK hc) hq
  refine ⟨SpecNodes.isLeaf t, ?_⟩
  unfold tvF
  rw [s.nodeAt]
  exact s.node_mem

theorem ps_val (hc : F.canon L = some (ts, ps)) {q : Pos} (hq : q ∈ pathSet F ts) :
    valAt CTree.hash F q = tvF F q := by
  obtain ⟨h, t, s⟩ := pathSet_sub (canon_targetsOK hc) hq
  unfold tvF
  rw [s.nodeAt, valAt_of s]
  rfl

theorem ts_node (hc : F.canon L = some (ts, ps)) {t : Pos} (ht : t ∈ ts) : ∃ x, (t, x, true) ∈ F.nodes := by
  obtain ⟨h, l, s⟩ := canon_targetsOK hc t ht
  exact ⟨l, s.node_mem⟩

theorem mem_ps_iff (hc : F.canon L = some (ts, ps)) (q : Pos) :
    q ∈ pathSet F ts ↔ ∃ t ∈ ts, ∃ R, BelowRoot F.numLeaves t.1 t.2 R ∧ Anc q t ∧ q.1 ≤ R := by
  rw [mem_pathSet]
  constructor
  · rintro ⟨t, ht, hp⟩
    obtain ⟨x, hx⟩ := ts_node hc ht
    obtain ⟨R, hb⟩ := belowRoot_of_mem_nodes hx
    have hR := belowRoot_le_forestRows hb
    have := (mem_pathUp (R - t.1) t.1 t.2 (F.rows + 1) hb (by have := hb.1; simp only at this ⊢; omega)
      (by unfold Forest.rows; omega) q).1 hp
    exact ⟨t, ht, R, hb, this.1, this.2⟩
  · rintro ⟨t, ht, R, hb, ha, hp⟩
    have hR := belowRoot_le_forestRows hb
    exact ⟨t, ht, (mem_pathUp (R - t.1) t.1 t.2 (F.rows + 1) hb (by have := hb.1; omega)
      (by unfold Forest.rows; omega) q).2 ⟨ha, hp⟩⟩

theorem ps_anc (hc : F.canon L = some (ts, ps)) {q : Pos} (hq : q ∈ pathSet F ts) : ∃ t ∈ ts, Anc q t := by
  obtain ⟨t, ht, R, _, ha, _⟩ := (mem_ps_iff hc q).1 hq
  exact ⟨t, ht, ha⟩

theorem ps_of_anc (hc : F.canon L = some (ts, ps)) {q t : Pos} {h : H} {b : Bool} (hq : (q, h, b) ∈ F.nodes)
    (ht : t ∈ ts) (ha : Anc q t) : q ∈ pathSet F ts := by
  obtain ⟨R, hb⟩ := belowRoot_of_mem_nodes hq
  simp only at hb
  exact (mem_ps_iff hc q).2 ⟨t, ht, R, belowRoot_of_anc hb ha, ha, hb.1⟩

theorem pp_iff (q : Pos) : q ∈ F.proofPositions ts ↔
    q ∉ pathSet F ts ∧ ∃ x ∈ pathSet F ts, ¬ FRoot F x ∧ q = sib x := by
  rw [proofPositions_eq, List.mem_map]
  constructor
  · rintro ⟨x, hx, rfl⟩
    obtain ⟨h1, h2⟩ := List.mem_filter.1 hx
    simp only [needsProof, Bool.and_eq_true, Bool.not_eq_eq_eq_not, Bool.not_true,
      decide_eq_false_iff_not] at h2
    exact ⟨h2.2, x, h1, by unfold FRoot; rw [h2.1]; simp, rfl⟩
  · rintro ⟨h1, x, hx, hnr, rfl⟩
    refine ⟨x, List.mem_filter.2 ⟨hx, ?_⟩, rfl⟩
    simp only [needsProof, Bool.and_eq_true, Bool.not_eq_eq_eq_not, Bool.not_true,
      decide_eq_false_iff_not]
    exact ⟨not_froot_iff.1 hnr, h1⟩

theorem pp_node (hc : F.canon L = some (ts, ps)) {q : Pos} (hq : q ∈ F.proofPositions ts) :
    ∃ b, (q, tvF F q, b) ∈ F.nodes := by
  obtain ⟨_, _, _, h4⟩ := canon_spec hc
  obtain ⟨x, hx⟩ := h4 q hq
  unfold tvF
  rw [hx]
  exact SpecNodes.nodeAt_eq_some_iff.1 hx

theorem ps_hashes (hc : F.canon L = some (ts, ps)) : ps = (F.proofPositions ts).map (tvF F) :=
  (canon_spec hc).2.2.1

/-- the value of a target is its leaf, which belongs to `L` -/
theorem ts_val (nz : NZ H) (hn : F.numLeaves < 2 ^ 64) (hy : Hyg F) (hc : F.canon L = some (ts, ps))
    {t : Pos} (ht : t ∈ ts) : tvF F t ∈ L ∧ (t, tvF F t, true) ∈ F.nodes := by
  obtain ⟨x, hx, hm⟩ := (ts_iff nz hn hy hc t).1 ht
  have : tvF F t = x := by
    unfold tvF
    rw [SpecNodes.nodeAt_of_mem hm]; rfl
  rw [this]; exact ⟨hx, hm⟩

end spec

/-! ## the geometry of the call -/

section geo
open SpecPlan CalcGeo

theorem map_insertBy {α : Type} (key : α → U64) (x : α) : ∀ l : List α,
    (insertBy key x l).map key = insertBy id (key x) (l.map key)
  | [] => rfl
  | y :: ys => by
    unfold insertBy
    simp only [List.map_cons, id]
    split
    · rfl
    · rw [List.map_cons, map_insertBy key x ys]

theorem map_foldl_insertBy {α : Type} (key : α → U64) : ∀ (l acc : List α),
    (l.foldl (fun acc x => insertBy key x acc) acc).map key =
      (l.map key).foldl (fun acc x => insertBy id x acc) (acc.map key)
  | [], acc => rfl
  | x :: l, acc => by
    rw [List.foldl_cons, map_foldl_insertBy key l, map_insertBy, List.map_cons, List.foldl_cons]

theorem positions_sortHP (l : HP H) : (sortHP l).positions = sortU64 (l.map (·.1)) := by
  unfold sortHP HP.positions sortU64 sortBy
  exact map_foldl_insertBy _ l []

/-- (1) `toHashAndPos` of the canonical targets: the sorted targets -/
theorem toHashAndPos_canon {h : Nat} (h63 : h ≤ 63) (ts : List Pos) (L : List H)
    (hv : ∀ t ∈ ts, MapInv.Valid h t) (hlen : ts.length = L.length) :
    ∃ hnp, toHashAndPos (ts.map (encP h)) L = .ok hnp ∧ hnp.positions = (sortPos ts).map (encP h) := by
  refine ⟨sortHP ((ts.map (encP h)).zip L), ?_, ?_⟩
  · unfold toHashAndPos
    rw [if_pos (by rw [List.length_map]; exact hlen)]
  · rw [positions_sortHP]
    have : ((ts.map (encP h)).zip L).map (·.1) = ts.map (encP h) := by
      apply List.map_fst_zip
      rw [List.length_map]; omega
    rw [this]
    exact sortU64_encP h63 ts hv

variable {F : Forest H} {m : MapPollard H}

/-- (2) the sorted targets in storage coordinates -/
theorem hnpPos_eq (I : Inv m F) (ts : List Pos) (hv : ∀ t ∈ ts, MapInv.Valid F.rows t) (hnd : ts.Nodup) :
    (if m.totalRows ≠ TreeRows m.numLeaves then
      sortU64 (translatePositions ((sortPos ts).map (encP F.rows)) (TreeRows m.numLeaves) m.totalRows)
     else (sortPos ts).map (encP F.rows)) = (sortPos ts).map (encP m.totalRows.toNat) := by
  have hvs : ∀ t ∈ sortPos ts, MapInv.Valid F.rows t := fun t ht => hv t (mem_sortPos.1 ht)
  by_cases hc : m.totalRows ≠ TreeRows m.numLeaves
  · rw [if_pos hc]
    unfold translatePositions
    rw [List.map_map]
    have : (sortPos ts).map ((fun p => translatePos p (TreeRows m.numLeaves) m.totalRows) ∘ encP F.rows) =
        (sortPos ts).map (encP m.totalRows.toNat) := by
      apply List.map_congr_left
      intro t ht
      have := toStorage I (hvs t ht)
      rw [if_pos hc] at this
      exact this
    rw [this, sortU64_encP I.total_le _ (fun t ht => (hvs t ht).mono I.rows_le),
      sortPos_of_ssorted (sortPos_ssorted hnd)]
  · rw [if_neg hc]
    apply List.map_congr_left
    intro t ht
    have := toStorage I (hvs t ht)
    rw [if_neg hc] at this
    exact this

theorem takeWhile_all {α : Type} (p : α → Bool) : ∀ (l : List α), (∀ x ∈ l, p x = true) → l.takeWhile p = l
  | [], _ => rfl
  | a :: l, h => by
    rw [List.takeWhile_cons, h a List.mem_cons_self]
    simp only [if_true]
    rw [takeWhile_all p l (fun x hx => h x (List.mem_cons_of_mem _ hx))]

/-- (4) the surplus-trimming branch keeps every position of the forest -/
theorem trim_eq (I : Inv m F) (PP : List Pos) (hv : ∀ q ∈ PP, ∃ R, BelowRoot F.numLeaves q.1 q.2 R) (b : Bool) :
    (if (decide (TreeRows m.numLeaves ≠ m.totalRows) && b) = true then
      translatePositions (MapPollard.trimProofPos
        (translatePositions (PP.map (encP m.totalRows.toNat)) m.totalRows (TreeRows m.numLeaves)) m.numLeaves)
        (TreeRows m.numLeaves) m.totalRows
     else PP.map (encP m.totalRows.toNat)) = PP.map (encP m.totalRows.toNat) := by
  by_cases hc : (decide (TreeRows m.numLeaves ≠ m.totalRows) && b) = true
  · rw [if_pos hc]
    simp only [Bool.and_eq_true, decide_eq_true_eq] at hc
    have hne : m.totalRows ≠ TreeRows m.numLeaves := fun e => hc.1 e.symm
    have hvF : ∀ q ∈ PP, MapInv.Valid F.rows q := fun q hq => by
      obtain ⟨R, hb⟩ := hv q hq
      exact belowRoot_valid' (Nat.le_refl _) hb
    have e1 : translatePositions (PP.map (encP m.totalRows.toNat)) m.totalRows (TreeRows m.numLeaves) =
        PP.map (encP F.rows) := by
      unfold translatePositions
      rw [List.map_map]
      apply List.map_congr_left
      intro q hq
      have := toApi I (hvF q hq)
      rw [if_pos hne] at this
      exact this
    have e2 : MapPollard.trimProofPos (PP.map (encP F.rows)) m.numLeaves = PP.map (encP F.rows) := by
      unfold MapPollard.trimProofPos
      apply takeWhile_all
      intro x hx
      obtain ⟨q, hq, rfl⟩ := List.mem_map.1 hx
      obtain ⟨R, hb⟩ := hv q hq
      have hvq := hvF q hq
      rw [treeRows_numLeaves I]
      apply (Props.C16.inForest_iff_below_root (MapInv.rows_le_63 I) hvq.1 hvq.2 m.numLeaves).2
      have hn : m.numLeaves.toNat = F.numLeaves := by
        rw [I.n_eq]; exact toNat_ofNat64_of_lt (by have := I.n_lt; omega)
      rw [hn]
      exact ⟨R, hb⟩
    have e3 : translatePositions (PP.map (encP F.rows)) (TreeRows m.numLeaves) m.totalRows =
        PP.map (encP m.totalRows.toNat) := by
      unfold translatePositions
      rw [List.map_map]
      apply List.map_congr_left
      intro q hq
      have := toStorage I (hvF q hq)
      rw [if_pos hne] at this
      exact this
    rw [e1, e2, e3]
  · rw [if_neg hc]

/-- (6) the calculated nodes in storage coordinates -/
theorem inter_eq (I : Inv m F) (tr' : U8) (hTR : tr' = m.totalRows) (PS : List Pos) (hs : PS.Pairwise Sorted.PLt)
    (hv : ∀ q ∈ PS, MapInv.Valid F.rows q) (v : Pos → H) :
    (if tr' ≠ TreeRows m.numLeaves then
      sortHP ((PS.map (fun p => (encP F.rows p, v p))).map
        (fun x => (translatePos x.1 (TreeRows m.numLeaves) tr', x.2)))
     else PS.map (fun p => (encP F.rows p, v p))) = PS.map (fun p => (encP m.totalRows.toNat p, v p)) := by
  subst hTR
  by_cases hc : m.totalRows ≠ TreeRows m.numLeaves
  · rw [if_pos hc, List.map_map]
    have : PS.map ((fun x : U64 × H => (translatePos x.1 (TreeRows m.numLeaves) m.totalRows, x.2)) ∘
        (fun p => (encP F.rows p, v p))) = PS.map (fun p => (encP m.totalRows.toNat p, v p)) := by
      apply List.map_congr_left
      intro q hq
      have := toStorage I (hv q hq)
      rw [if_pos hc] at this
      simp only [Function.comp, this]
    rw [this]
    have hsorted : (PS.map (fun p => (encP m.totalRows.toNat p, v p))).Pairwise (fun a b => a.1 < b.1) := by
      rw [List.pairwise_map]
      apply List.Pairwise.imp_of_mem _ hs
      intro a b ha hb hab
      exact (E_lt_iff I.total_le ((hv a ha).mono I.rows_le) ((hv b hb).mono I.rows_le)).2 hab
    apply Sorted.eq_of_keysorted
    · apply Sorted.sortBy_sorted
      apply List.Pairwise.imp _ hsorted
      intro a b hab e
      rw [e] at hab
      exact BitVec.lt_irrefl _ hab
    · exact hsorted
    · intro x
      unfold sortHP
      exact Sorted.mem_sortBy _ _ _
  · rw [if_neg hc]
    apply List.map_congr_left
    intro q hq
    have := toStorage I (hv q hq)
    rw [if_neg hc] at this
    rw [this]

/-- (7) the target test of `putCalculated` -/
theorem contains_eq {T : Nat} (hT : T ≤ 63) (ts : List Pos) (hv : ∀ t ∈ ts, MapInv.Valid T t) {p : Pos}
    (hp : MapInv.Valid T p) : ((sortPos ts).map (encP T)).contains (encP T p) = decide (p ∈ ts) := by
  rw [List.contains_eq_mem]
  congr 1
  apply propext
  rw [List.mem_map]
  constructor
  · rintro ⟨t, ht, e⟩
    have ht' := mem_sortPos.1 ht
    rw [← encP_inj' hT (hv t ht') hp e]; exact ht'
  · intro h
    exact ⟨p, mem_sortPos.2 h, rfl⟩

/-- unfolding `ingest` along a successful run -/
theorem ingest_eq {m m1 : MapPollard H} {L : List H} {tg : List U64} {pr : List H} {hnp : HP H}
    {X PPe : List U64} {r : CalcResult H} {Y : HP H}
    (h1 : toHashAndPos tg L = .ok hnp)
    (h2 : (if m.totalRows ≠ TreeRows m.numLeaves then
        sortU64 (translatePositions hnp.positions (TreeRows m.numLeaves) m.totalRows) else hnp.positions) = X)
    (h3 : (if (decide (TreeRows m.numLeaves ≠ m.totalRows) &&
          decide ((ProofPositions X m.numLeaves m.totalRows).1.length ≠ pr.length)) = true then
        translatePositions (MapPollard.trimProofPos
          (translatePositions (ProofPositions X m.numLeaves m.totalRows).1 m.totalRows (TreeRows m.numLeaves))
          m.numLeaves) (TreeRows m.numLeaves) m.totalRows
       else (ProofPositions X m.numLeaves m.totalRows).1) = PPe)
    (h4 : MapPollard.ingest.store pr PPe 0 m = (m1, .ok ()))
    (h5 : calculateHashes m1.numLeaves (some L) tg pr = .ok r)
    (h6 : (if m1.totalRows ≠ TreeRows m.numLeaves then
        sortHP (r.nodes.map (fun x => (translatePos x.1 (TreeRows m.numLeaves) m1.totalRows, x.2)))
       else r.nodes) = Y) :
    MapPollard.ingest L tg pr m = (MapPollard.putCalculated (fun p => X.contains p) Y m1, .ok ()) := by
  unfold MapPollard.ingest
  rw [h1]
  simp only
  rw [h2, h3, h4]
  simp only
  rw [h5]
  simp only
  rw [h6]

end geo

/-! ## `ingest` -/

section main
open SpecPlan CalcGeo CalcComplete

/-- **`ingest` of the canonical proof of a duplicate-free list of live leaves** (with arbitrary
surplus hashes appended) succeeds, preserves the strong invariant for the same forest, and adds
exactly the leaves of `L` to the cache. -/
theorem sinv_ingest (nz : NZ H) {m : MapPollard H} {F : Forest H} (s : SInv m F)
    (L : List H) (ts : List Pos) (ps junk : List H) (hnd : L.Nodup) (hc : F.canon L = some (ts, ps)) :
    ∃ m', MapPollard.ingest L (ts.map (encP F.rows)) (ps ++ junk) m = (m', .ok ()) ∧ SInv m' F ∧
      (∀ y, m'.hasCached y = true ↔ (m.hasCached y = true ∨ y ∈ L)) := by
  have I := s.inv nz
  have Lw := s.laws nz
  have hn64 := s.n_lt64
  obtain ⟨A, C, rep, inv⟩ := s.abs
  have hT := s.total_le
  have h63 : F.rows ≤ 63 := MapInv.rows_le_63 I
  have tok := canon_targetsOK hc
  -- nodes of the forest are valid positions
  have tsB : ∀ t ∈ ts, ∃ R, BelowRoot F.numLeaves t.1 t.2 R := by
    intro t ht
    obtain ⟨x, hx⟩ := ts_node hc ht
    exact belowRoot_of_mem_nodes hx
  have psB : ∀ q ∈ pathSet F ts, ∃ R, BelowRoot F.numLeaves q.1 q.2 R := by
    intro q hq
    obtain ⟨b, hb⟩ := ps_node hc hq
    exact belowRoot_of_mem_nodes hb
  have ppB : ∀ q ∈ F.proofPositions ts, ∃ R, BelowRoot F.numLeaves q.1 q.2 R := by
    intro q hq
    obtain ⟨b, hb⟩ := pp_node hc hq
    exact belowRoot_of_mem_nodes hb
  have vF : ∀ {q : Pos}, (∃ R, BelowRoot F.numLeaves q.1 q.2 R) → MapInv.Valid F.rows q :=
    fun ⟨R, hb⟩ => belowRoot_valid' (Nat.le_refl _) hb
  have vT : ∀ {q : Pos}, (∃ R, BelowRoot F.numLeaves q.1 q.2 R) → MapInv.Valid m.totalRows.toNat q :=
    fun ⟨R, hb⟩ => belowRoot_valid' s.rows_le hb
  have tsnd : ts.Nodup := canon_targets_nodup hc hnd
  -- (1) the sorted targets
  obtain ⟨hnp, h1, hpos⟩ := toHashAndPos_canon h63 ts L (fun t ht => vF (tsB t ht)) (canon_targets_length hc)
  -- (2) … in storage coordinates
  have h2 := hnpPos_eq I ts (fun t ht => vF (tsB t ht)) tsnd
  rw [← hpos] at h2
  -- (3) `ProofPositions`
  have hyp : PPHyp F.numLeaves (sortPos ts) := {
    inForest := fun t ht => tsB t (mem_sortPos.1 ht)
    sorted := sortPos_ssorted tsnd
    anti := by
      intro a ha b hb hab
      obtain ⟨x, hx⟩ := ts_node hc (mem_sortPos.1 ha)
      obtain ⟨y, hy⟩ := ts_node hc (mem_sortPos.1 hb)
      exact (Lw.leaf_below a x b y true hx hy hab).symm }
  have hPP : ProofPositions ((sortPos ts).map (encP m.totalRows.toNat)) m.numLeaves m.totalRows =
      ((F.proofPositions ts).map (encP m.totalRows.toNat), (F.computable (sortPos ts)).map (encP m.totalRows.toNat)) := by
    have := Props.C16.proofPositions_spec F (H := m.totalRows.toNat) (h := F.rows)
      (BitVec.ofNat 64 F.numLeaves) (toNat_ofNat64_of_lt hn64) (SpecView.treeRows_eq s.n_lt) hT s.rows_le
      (sortPos ts) hyp
    rw [MapProve.proofPositions_congr (F := F) (fun t => mem_sortPos (l := ts))] at this
    rw [s.n_eq]
    have hm := totalRows_eq_H8 m
    rw [← hm] at this
    exact this
  -- (4) the trimming branch
  have h3 : (if (decide (TreeRows m.numLeaves ≠ m.totalRows) &&
          decide ((ProofPositions ((sortPos ts).map (encP m.totalRows.toNat)) m.numLeaves m.totalRows).1.length ≠
            (ps ++ junk).length)) = true then
        translatePositions (MapPollard.trimProofPos
          (translatePositions (ProofPositions ((sortPos ts).map (encP m.totalRows.toNat)) m.numLeaves m.totalRows).1
            m.totalRows (TreeRows m.numLeaves))
          m.numLeaves) (TreeRows m.numLeaves) m.totalRows
       else (ProofPositions ((sortPos ts).map (encP m.totalRows.toNat)) m.numLeaves m.totalRows).1) =
      (F.proofPositions ts).map (encP m.totalRows.toNat) := by
    rw [hPP]
    exact trim_eq I (F.proofPositions ts) ppB _
  -- (5) the proof-storing loop
  have hprf : ∀ j (hj : j < (F.proofPositions ts).length),
      (ps ++ junk)[0 + j]? = some (tvF F (F.proofPositions ts)[j]) := by
    intro j hj
    have hps := ps_hashes hc
    have hlen : j < ps.length := by rw [hps, List.length_map]; exact hj
    rw [Nat.zero_add, List.getElem?_append_left hlen]
    subst hps
    rw [List.getElem?_map, List.getElem?_eq_getElem hj]
    rfl
  obtain ⟨m1, h4, rep1, hf1, hn1⟩ := store_rep (ps ++ junk) (tvF F) (F.proofPositions ts) 0 m A C rep s.full
    (fun q hq => vT (ppB q hq)) hprf
  have hTR : m1.totalRows = m.totalRows := rep1.rows.trans rep.rows.symm
  -- (6) `calculateHashes`
  have hdh : (match (some L : Option (List H)) with
      | some hs => hs
      | none => (ts.map (E F.rows)).map (fun _ => zero)) = ts.map (valAt CTree.hash F) := by
    rw [canon_target_vals hc]
    simp [CTree.hash]
  obtain ⟨r, h5, _, _, hnodes⟩ := calc_generic (Nat.le_of_lt s.n_lt) nz.nonzero s.hyg.nz hnd hc CTree.hash
    (fun a b ga gb => hash_node_comb nz.nonzero ga gb) (fun _ _ _ _ _ _ _ => rfl) (some L) hdh junk
  have h5' : calculateHashes m1.numLeaves (some L) (ts.map (encP F.rows)) (ps ++ junk) = .ok r := by
    rw [hn1, s.n_eq]; exact h5
  -- (7) the calculated nodes in storage coordinates
  have h6 : (if m1.totalRows ≠ TreeRows m.numLeaves then
        sortHP (r.nodes.map (fun x => (translatePos x.1 (TreeRows m.numLeaves) m1.totalRows, x.2)))
       else r.nodes) = (pathSet F ts).map (fun p => (encP m.totalRows.toNat p, tvF F p)) := by
    rw [hnodes]
    have := inter_eq I m1.totalRows hTR (pathSet F ts) (pathSet_sorted F ts) (fun q hq => vF (psB q hq))
      (valAt CTree.hash F)
    refine Eq.trans this ?_
    apply List.map_congr_left
    intro q hq
    rw [ps_val hc hq]
  have hrun := ingest_eq h1 h2 h3 h4 h5' h6
  -- (8) `putCalculated`
  obtain ⟨A', C', rep2, hA', hC1, hC2, hf2, hn2⟩ := putCalculated_rep
    (fun p => ((sortPos ts).map (encP m.totalRows.toNat)).contains p) (fun p => decide (p ∈ ts)) (tvF F)
    (pathSet F ts) m1 _ C rep1 hf1
    (fun q hq => ⟨vT (psB q hq), contains_eq hT ts (fun t ht => vT (tsB t ht)) (vT (psB q hq))⟩)
  refine ⟨_, hrun, ?_, ?_⟩
  · -- the invariant
    have hTR2 := rep2.rows.trans rep.rows.symm
    refine { n_lt := s.n_lt, n_eq := by rw [hn2, hn1, s.n_eq], rows_le := by rw [hTR2]; exact s.rows_le,
             total_le := by rw [hTR2]; exact hT, full := hf2, hyg := s.hyg, abs := ⟨A', C', ?_, ?_⟩ }
    · rw [hTR2]; exact rep2
    · have key := ainv_ingest Lw inv (PS := pathSet F ts) (PP := F.proofPositions ts) (ts := ts)
        (tv := tvF F) (KL := fun x => x ∈ L) (C2 := C')
        (ts_iff nz hn64 s.hyg hc)
        (fun q hq => ps_node hc hq)
        (fun q hq => ps_anc hc hq)
        (fun t ht => targets_sub_pathSet tok ht)
        (fun q h b t hq ht ha => ps_of_anc hc hq ht ha)
        pp_iff
        (fun q hq => pp_node hc hq)
        (by
          intro x t h
          rcases hC1 x t h with h | ⟨h1, h2, h3⟩
          · exact Or.inl h
          · have := ts_val nz hn64 s.hyg hc (of_decide_eq_true h2)
            rw [h3] at this
            exact Or.inr this)
        (by
          intro x
          rw [hC2 x]
          constructor
          · rintro (h | ⟨t, h1, h2, h3⟩)
            · exact Or.inl h
            · have := ts_val nz hn64 s.hyg hc (of_decide_eq_true h2)
              rw [h3] at this
              exact Or.inr this.1
          · rintro (h | h)
            · exact Or.inl h
            · obtain ⟨_, hp, _, _⟩ := canon_spec hc
              obtain ⟨p, hpl⟩ := hp x h
              have hm := posOf_mem hpl
              have hpts : p ∈ ts := (ts_iff nz hn64 s.hyg hc p).2 ⟨x, h, hm⟩
              refine Or.inr ⟨p, targets_sub_pathSet tok hpts, decide_eq_true hpts, ?_⟩
              unfold tvF
              rw [SpecNodes.nodeAt_of_mem hm]; rfl)
      refine key.congr_AC (fun q => ?_) (fun _ => rfl)
      rw [hA' q]
      rfl
  · intro y
    have e1 := rep2.hasCached y
    rw [e1, rep.hasCached y, hC2 y]
    constructor
    · rintro (h | ⟨t, h1, h2, h3⟩)
      · exact Or.inl h
      · have := ts_val nz hn64 s.hyg hc (of_decide_eq_true h2)
        rw [h3] at this
        exact Or.inr this.1
    · rintro (h | h)
      · exact Or.inl h
      · obtain ⟨_, hp, _, _⟩ := canon_spec hc
        obtain ⟨p, hpl⟩ := hp y h
        have hm := posOf_mem hpl
        have hpts : p ∈ ts := (ts_iff nz hn64 s.hyg hc p).2 ⟨y, h, hm⟩
        refine Or.inr ⟨p, targets_sub_pathSet tok hpts, decide_eq_true hpts, ?_⟩
        unfold tvF
        rw [SpecNodes.nodeAt_of_mem hm]; rfl

end main

/-! ## `Verify(.., remember)` -/

section verify
open SpecPlan CalcGeo CalcComplete

/-- a position `< 2^T` is a row-0 position of the `T`-row geometry: `translatePos` leaves it alone -/
theorem translatePos_small {h T : Nat} (hT : T ≤ 63) (hlt : h < T) {q : Pos} (hq : MapInv.Valid h q) (to : U8) :
    translatePos (encP h q) (H8 T) to = encP h q := by
  have hx : Spec.enc h (q.1, q.2) < 2 ^ (h + 1) - 1 := Props.C16.enc_lt hq.1 hq.2
  have hpow : 2 ^ (h + 1) ≤ 2 ^ T := Nat.pow_le_pow_right (by decide) (by omega)
  have hx' : Spec.enc h (q.1, q.2) < 2 ^ (T - 0) := by rw [Nat.sub_zero]; omega
  have e : encP h q = encU T 0 (Spec.enc h (q.1, q.2)) := by
    unfold encP encU
    congr 1
    show _ = 2 ^ (T + 1) - 2 ^ (T + 1 - 0) + Spec.enc h (q.1, q.2)
    rw [Nat.sub_zero, Nat.sub_self, Nat.zero_add]
  rw [e]
  unfold translatePos
  rw [Props.C16.detectRow_enc hT (Nat.zero_le _) hx']
  simp

/-- **`Verify(delHashes, proof, remember)` on the canonical proof of a duplicate-free list of live
leaves** (with arbitrary surplus hashes appended) succeeds, preserves the strong invariant, and
caches the leaves of `L` iff `remember` is set. -/
theorem sinv_verifyM (nz : NZ H) {m : MapPollard H} {F : Forest H} (s : SInv m F)
    (L : List H) (ts : List Pos) (ps junk : List H) (hnd : L.Nodup) (hc : F.canon L = some (ts, ps))
    (remember : Bool) :
    ∃ m', MapPollard.verifyM L (ts.map (encP F.rows)) (ps ++ junk) remember m = (m', .ok ()) ∧ SInv m' F ∧
      (∀ y, m'.hasCached y = true ↔ (m.hasCached y = true ∨ (remember = true ∧ y ∈ L))) := by
  have I := s.inv nz
  have h63 : F.rows ≤ 63 := MapInv.rows_le_63 I
  have tsV : ∀ t ∈ ts, MapInv.Valid F.rows t := by
    intro t ht
    obtain ⟨x, hx⟩ := ts_node hc ht
    obtain ⟨R, hb⟩ := belowRoot_of_mem_nodes hx
    exact belowRoot_valid' (Nat.le_refl _) hb
  -- the translation of the targets is the identity
  have htg : (if TreeRows m.numLeaves ≠ m.totalRows then
      translatePositions (ts.map (encP F.rows)) m.totalRows (TreeRows m.numLeaves) else ts.map (encP F.rows)) =
      ts.map (encP F.rows) := by
    by_cases hne : TreeRows m.numLeaves ≠ m.totalRows
    · rw [if_pos hne]
      have hlt : F.rows < m.totalRows.toNat := by
        have := s.rows_le
        rcases Nat.lt_or_ge F.rows m.totalRows.toNat with h | h
        · exact h
        · exfalso
          apply hne
          rw [treeRows_numLeaves I, totalRows_eq_H8 m]
          congr 1
          omega
      unfold translatePositions
      rw [List.map_map]
      apply List.map_congr_left
      intro t ht
      simp only [Function.comp]
      have := translatePos_small s.total_le hlt (tsV t ht) (TreeRows m.numLeaves)
      rw [← totalRows_eq_H8 m] at this
      exact this
    · rw [if_neg hne]
  -- `Verify` accepts
  have hroots : m.getRoots.1 = F.roots := Props.C09.roots_eq I
  have hver := Props.C02.honest_proof_verifies F (Nat.le_of_lt s.n_lt) nz.nonzero s.hyg.nz L ts ps junk hnd hc
  have hver' : verify m.numLeaves m.getRoots.1 L (ts.map (encP F.rows)) (ps ++ junk) =
      .ok (touchedIdx F.numLeaves ts) := by
    rw [hroots, s.n_eq]; exact hver
  unfold MapPollard.verifyM
  simp only
  rw [htg, hver']
  simp only
  cases remember with
  | false =>
    refine ⟨m, by simp, s, ?_⟩
    intro y; simp
  | true =>
    obtain ⟨m', hrun, s', hcache⟩ := sinv_ingest nz s L ts ps junk hnd hc
    refine ⟨m', ?_, s', ?_⟩
    · simp only [if_true]
      rw [hrun]
    · intro y
      rw [hcache y]; simp

end verify

/-! ## non-vacuity

`m5` / `F5` of `Props/C09.lean`: five live leaves, leaves 0, 2, 4 cached, allocation
`TotalRows = 63 ≠ TreeRows = 3` (so the coordinate translations and, with a surplus hash, the
trimming branch are exercised).  `m5p`: the same forest after `Prune [leaf 0, leaf 2]`, which
stores the two roots only — there the ingest has to store proof hashes. -/

namespace Example
open Props.C09.Example MapSInv.Example

/-- the canonical proof of leaves 1 and 3: their siblings, leaves 0 and 2 -/
theorem canon13 : F5.canon [T.leaf 1, .leaf 3] = some ([(0, 1), (0, 3)], [T.leaf 0, .leaf 2]) := by
  decide +kernel

/-- `sinv_verifyM`: its hypotheses hold for `m5`, `L = [leaf 1, leaf 3]` and the canonical proof
with one surplus hash -/
example : ∃ m', MapPollard.verifyM [T.leaf 1, .leaf 3] (([(0, 1), (0, 3)] : List Pos).map (encP F5.rows))
      ([T.leaf 0, .leaf 2] ++ [T.leaf 77]) true m5 = (m', .ok ()) ∧ SInv m' F5 ∧
    (∀ y, m'.hasCached y = true ↔ (m5.hasCached y = true ∨ (true = true ∧ y ∈ [T.leaf 1, .leaf 3]))) :=
  sinv_verifyM crT.toNZ m5_sinv [T.leaf 1, .leaf 3] _ _ [T.leaf 77] (by decide) canon13 true

/-- … with the canonical proof obtained from `Props.C02.canon_defined` -/
example : ∃ ts ps, F5.canon [T.leaf 1, .leaf 3] = some (ts, ps) ∧
    ∃ m', MapPollard.verifyM [T.leaf 1, .leaf 3] (ts.map (encP F5.rows)) (ps ++ []) true m5 = (m', .ok ()) ∧
      SInv m' F5 := by
  obtain ⟨ts, ps, hc⟩ := Props.C02.canon_defined (F := F5) (by decide) (L := [T.leaf 1, .leaf 3])
    (by decide +kernel)
  obtain ⟨m', h1, h2, _⟩ := sinv_verifyM crT.toNZ m5_sinv [T.leaf 1, .leaf 3] ts ps [] (by decide) hc true
  exact ⟨ts, ps, hc, m', h1, h2⟩

/-- `sinv_ingest` likewise -/
example : ∃ m', MapPollard.ingest [T.leaf 1, .leaf 3] (([(0, 1), (0, 3)] : List Pos).map (encP F5.rows))
      ([T.leaf 0, .leaf 2] ++ []) m5 = (m', .ok ()) ∧ SInv m' F5 ∧
    (∀ y, m'.hasCached y = true ↔ (m5.hasCached y = true ∨ y ∈ [T.leaf 1, .leaf 3])) :=
  sinv_ingest crT.toNZ m5_sinv [T.leaf 1, .leaf 3] _ _ [] (by decide) canon13

/-- the concrete call: targets 1 and 3 in API coordinates; afterwards all five leaves are cached
(at their positions in storage coordinates) and nothing else changed in size -/
example : ([(0, 1), (0, 3)] : List Pos).map (encP F5.rows) = [1#64, 3#64] ∧
    (MapPollard.verifyM [T.leaf 1, .leaf 3] [1#64, 3#64] [T.leaf 0, .leaf 2, .leaf 77] true m5).2.isOk = true ∧
    (MapPollard.verifyM [T.leaf 1, .leaf 3] [1#64, 3#64] [T.leaf 0, .leaf 2, .leaf 77] true m5).1.cached =
      [(.leaf 3, 3#64), (.leaf 1, 1#64), (.leaf 4, 4#64), (.leaf 2, 2#64), (.leaf 0, 0#64)] ∧
    (MapPollard.verifyM [T.leaf 1, .leaf 3] [1#64, 3#64] [T.leaf 0, .leaf 2, .leaf 77] true m5).1.nodes.length = 8 ∧
    (MapPollard.verifyM [T.leaf 1, .leaf 3] [1#64, 3#64] [T.leaf 0, .leaf 2, .leaf 77] false m5).1.cached = m5.cached := by
  decide +kernel

/-- `m5` after `Prune [leaf 0, leaf 2]`: only the two roots are stored, leaf 4 is cached -/
def m5p : MapPollard T := (MapPollard.prune [T.leaf 0, T.leaf 2] m5).1

theorem m5p_sinv : SInv m5p F5 :=
  SInv.of_inv crT.toNZ (Props.C09.invCheck_sound (by decide +kernel)) (by decide +kernel) F5_hyg
    (rootFlagsCheck_sound (by decide +kernel) (by decide +kernel))

/-- `sinv_verifyM` on the pruned state (here the two proof hashes and three path nodes are new) -/
example : ∃ m', MapPollard.verifyM [T.leaf 1, .leaf 3] (([(0, 1), (0, 3)] : List Pos).map (encP F5.rows))
      ([T.leaf 0, .leaf 2] ++ [T.leaf 77]) true m5p = (m', .ok ()) ∧ SInv m' F5 ∧
    (∀ y, m'.hasCached y = true ↔ (m5p.hasCached y = true ∨ (true = true ∧ y ∈ [T.leaf 1, .leaf 3]))) :=
  sinv_verifyM crT.toNZ m5p_sinv [T.leaf 1, .leaf 3] _ _ [T.leaf 77] (by decide) canon13 true

example : m5p.nodes.length = 2 ∧ m5p.cached = [(.leaf 4, 4#64)] ∧
    (MapPollard.verifyM [T.leaf 1, .leaf 3] [1#64, 3#64] [T.leaf 0, .leaf 2, .leaf 77] true m5p).2.isOk = true ∧
    (MapPollard.verifyM [T.leaf 1, .leaf 3] [1#64, 3#64] [T.leaf 0, .leaf 2, .leaf 77] true m5p).1.cached =
      [(.leaf 3, 3#64), (.leaf 1, 1#64), (.leaf 4, 4#64)] ∧
    (MapPollard.verifyM [T.leaf 1, .leaf 3] [1#64, 3#64] [T.leaf 0, .leaf 2, .leaf 77] true m5p).1.nodes.length = 8 ∧
    -- the stored proof hashes carry no flag, the targets do
    ((MapPollard.verifyM [T.leaf 1, .leaf 3] [1#64, 3#64] [T.leaf 0, .leaf 2, .leaf 77] true m5p).1.getNode 0#64).map
      (·.remember) = some false ∧
    ((MapPollard.verifyM [T.leaf 1, .leaf 3] [1#64, 3#64] [T.leaf 0, .leaf 2, .leaf 77] true m5p).1.getNode 1#64).map
      (·.remember) = some true := by
  decide +kernel

end Example

end UtreexoVerif.Proofs.MapIngest
