/-
  `Pollard.WriteTo` / `writeOne` ON THE HEAP (`Model/PollardHeapSerial.lean`: `writeToH`,
  `writeRootsH`, `writeOneH`) refine the shape-level writer of `Model/Serial.lean`
  (`writeTo`, `writeRoots`, `writeOne` on `PState.ofForest F`): on a heap representing `F`
  (`ReprRoots`, no node reachable twice) they return the same `Res` and leave the same sink,
  for EVERY sink.
-/
import UtreexoVerif.Proofs.PollardHeapDelHash
import UtreexoVerif.Proofs.Serial
import UtreexoVerif.Model.PollardHeapSerial
set_option linter.unusedSectionVars false
set_option linter.unusedVariables false
set_option linter.unusedSimpArgs false

namespace UtreexoVerif.Proofs.PollardHeapSerial
open UtreexoVerif UtreexoVerif.Model UtreexoVerif.Model.PollardHeap UtreexoVerif.Spec Hasher
open UtreexoVerif.Model.Serial UtreexoVerif.Proofs.PollardHeap

variable {H : Type} [DecidableEq H] [Hasher H] [HashBytes H]

theorem deadEnd_fork (d : H) (l r : PNode H) : (PNode.fork d l r).deadEnd = false := rfl
theorem deadEnd_dead (d : H) : (PNode.dead d).deadEnd = true := rfl

/-- height of a collapsed tree -/
def ht : CTree H → Nat
  | .leaf _ => 0
  | .node a b => max (ht a) (ht b) + 1

/-- a tree is not higher than its footprint is long -/
theorem sub_ht_le {hp : Heap H} {n holder : Nat} {t : CTree H} {fp : List Nat}
    {lv : List (H × Nat)} (h : Sub hp n holder t fp lv) : ht t ≤ fp.length := by
  induction h with
  | leaf => simp [ht]
  | node _ _ _ _ _ _ _ _ _ _ _ iha ihb =>
    simp only [ht, List.length_cons, List.length_append]
    omega

/-- `n` and `s` are the two nieces of one node, and `n` points back to it -/
def Sibs (hp : Heap H) (n s : Nat) : Prop :=
  ∃ au aun nn, hp[n]? = some nn ∧ nn.aunt = some au ∧ hp[au]? = some aun ∧
    ((aun.lNiece = some n ∧ aun.rNiece = some s) ∨ (aun.lNiece = some s ∧ aun.rNiece = some n))

/-- `getChildren` of a non-root node: the nieces of its sibling -/
theorem childrenOf_sibs {hp : Heap H} {n s : Nat} {sn : PolNode H} (h : Sibs hp n s)
    (hs : hp[s]? = some sn) : childrenOf hp n = .ok (sn.lNiece, sn.rNiece) := by
  obtain ⟨au, aun, nn, h1, h2, h3, h4⟩ := h
  unfold childrenOf getChildren rd getSibling rd
  rcases h4 with ⟨h4, h5⟩ | ⟨h4, h5⟩
  · simp [h1, h2, h3, h4, h5, hs]
  · by_cases e : s = n
    · subst e
      rw [h1] at hs; cases hs
      simp [h1, h2, h3, h4, h5]
    · simp [h1, h2, h3, h4, h5, hs, e, PM.pure]

/-- `getChildren` of a root: its own nieces -/
theorem childrenOf_root {hp : Heap H} {n : Nat} {nn : PolNode H} (h1 : hp[n]? = some nn)
    (h2 : nn.aunt = none) : childrenOf hp n = .ok (nn.lNiece, nn.rNiece) := by
  unfold childrenOf getChildren rd
  simp [h1, h2]

/-- the holder of a node has both nieces or none, according to the node's tree -/
theorem sub_holder_nieces {hp : Heap H} {n holder : Nat} {t : CTree H} {fp : List Nat}
    {lv : List (H × Nat)} (h : Sub hp n holder t fp lv) :
    ∃ hn, hp[holder]? = some hn ∧ (hn.lNiece.isNone && hn.rNiece.isNone) = isLeafT t := by
  cases h with
  | leaf h1 h2 h3 h4 h5 => exact ⟨_, h3, by simp [h4, h5, isLeafT]⟩
  | node h1 h2 h3 h4 h5 => exact ⟨_, h3, by simp [h4, h5, isLeafT]⟩

/-- **`writeOne` on the heap = `writeOne` on the shape**, for a non-root node `n` (tree `tn`)
with sibling `s` (tree `ts`): `n`'s nieces are `s`'s children. -/
theorem writeOneH_pair {hp : Heap H} : ∀ (ts tn : CTree H) (n s : Nat) (fpn fps : List Nat)
    (lvn lvs : List (H × Nat)) (fuel : Nat) (w : Sink),
    Sub hp n s tn fpn lvn → Sub hp s n ts fps lvs → Sibs hp n s → ht ts < fuel →
    writeOneH hp fuel (some n) w = writeOne (PNode.ofNode tn ts) (isLeafT tn) w := by
  intro ts
  induction ts with
  | leaf x =>
    intro tn n s fpn fps lvn lvs fuel w hn hs hsib hf
    obtain ⟨f, rfl⟩ : ∃ f, fuel = f + 1 := ⟨fuel - 1, by omega⟩
    obtain ⟨nn, e1, e2⟩ := hn.hash
    obtain ⟨sn, e3, e4⟩ := sub_holder_nieces hn
    cases hs with
    | leaf h1 h2 h3 h4 h5 =>
      rw [e1] at h3; cases h3
      rw [writeOneH, writeOne]
      simp only [e1, e2, PNode.ofNode, PNode.data, childrenOf_sibs hsib e3, e4, h4, h5,
        Option.isSome_none, Bool.and_self, Bool.false_eq_true, if_false]
  | node a b iha ihb =>
    intro tn n s fpn fps lvn lvs fuel w hn hs hsib hf
    obtain ⟨f, rfl⟩ : ∃ f, fuel = f + 1 := ⟨fuel - 1, by omega⟩
    obtain ⟨nn, e1, e2⟩ := hn.hash
    obtain ⟨sn, e3, e4⟩ := sub_holder_nieces hn
    simp only [ht] at hf
    cases hs with
    | node h1 h2 h3 h4 h5 h6 h7 h8 h9 sa sb =>
      rename_i l r sn' hn0 ln rn fa fb la lb
      rw [e1] at h3; cases h3
      have sibl : Sibs hp l r := ⟨n, nn, ln, h6, h8, e1, Or.inl ⟨h4, h5⟩⟩
      have sibr : Sibs hp r l := ⟨n, nn, rn, h7, h9, e1, Or.inr ⟨h4, h5⟩⟩
      have el := ihb a l r fa fb la lb f
      have er := iha b r l fb fa lb la f
      rw [writeOneH, PNode.ofNode, writeOne]
      simp only [e1, e2, PNode.data, childrenOf_sibs hsib e3, e4, h4, h5,
        Option.isSome_some, Bool.and_self, if_true, Proofs.Serial.deadEnd_ofNode]
      congr 1; funext total w1
      congr 1; funext total w2
      congr 1; funext total w3
      rw [el w3 sa sb sibl (by omega)]
      rcases writeOne (PNode.ofNode a b) (isLeafT a) w3 with ⟨⟨lb', o⟩, w4⟩
      cases o with
      | ok u =>
        simp only []
        rw [er w4 sb sa sibr (by omega)]
        rfl
      | err => rfl
      | panic => rfl
      | hang => rfl

/-- an empty root or a one-leaf root on the heap is written like its shape -/
theorem writeOneH_root {hp : Heap H} {r : Nat} {t : Option (CTree H)} {fp : List Nat}
    {lv : List (H × Nat)} (h : ReprRoot hp r t fp lv) (nd : fp.Nodup) (w : Sink) :
    writeOneH hp (hp.size + 1) (some r) w =
      writeOne (PNode.ofRoot t) (PNode.ofRoot t).deadEnd w := by
  match t, h with
  | none, h =>
    obtain ⟨⟨rn, h1, h2, h3, h4, h5⟩, _, _⟩ := h
    rw [writeOneH, PNode.ofRoot, writeOne]
    simp [h1, h3, PNode.data, childrenOf_root h1 h2, h4, h5, PNode.deadEnd, flag]
  | some (.leaf x), h =>
    obtain ⟨⟨rn, h1, h2⟩, hs⟩ := h
    cases hs with
    | leaf g1 g2 g3 g4 g5 =>
      rw [h1] at g1 g3; cases g1; cases g3
      rw [writeOneH, PNode.ofRoot, writeOne]
      simp [h1, g2, PNode.data, childrenOf_root h1 h2, g4, g5, PNode.deadEnd, flag]
  | some (.node a b), h =>
    obtain ⟨⟨rn, h1, h2⟩, hs⟩ := h
    have hfp := hs.fp_lt
    have hlen := nodup_length_le nd hfp
    cases hs with
    | node g1 g2 g3 g4 g5 g6 g7 g8 g9 sa sb =>
      rename_i l r' nn0 hn0 ln rn' fa fb la lb
      rw [h1] at g1 g3; cases g1; cases g3
      have sibl : Sibs hp l r' := ⟨r, rn, ln, g6, g8, h1, Or.inl ⟨g4, g5⟩⟩
      have sibr : Sibs hp r' l := ⟨r, rn, rn', g7, g9, h1, Or.inr ⟨g4, g5⟩⟩
      have ha := sub_ht_le sa
      have hb := sub_ht_le sb
      simp only [List.length_cons, List.length_append] at hlen
      rw [writeOneH, PNode.ofRoot, writeOne]
      simp only [h1, g2, PNode.data, childrenOf_root h1 h2, g4, g5, deadEnd_fork, CTree.hash,
        Option.isNone_some, Option.isSome_some, Bool.and_self, if_true,
        Proofs.Serial.deadEnd_ofNode]
      congr 1; funext total w1
      congr 1; funext total w2
      congr 1; funext total w3
      rw [writeOneH_pair b a l r' _ _ _ _ hp.size w3 sa sb sibl (by omega)]
      rcases writeOne (PNode.ofNode a b) (isLeafT a) w3 with ⟨⟨lb', o⟩, w4⟩
      cases o with
      | ok u =>
        simp only []
        rw [writeOneH_pair a b r' l _ _ _ _ hp.size w4 sb sa sibr (by omega)]
        rfl
      | err => rfl
      | panic => rfl
      | hang => rfl

/-- **the root loop of `WriteTo` on the heap = the loop on the shapes** -/
theorem writeRootsH_repr {hp : Heap H} {rs : List Nat} {ts : List (Option (CTree H))}
    {owned : List Nat} {lv : List (H × Nat)} (h : ReprRoots hp rs ts owned lv) (nd : owned.Nodup) :
    ∀ (total : Nat) (w : Sink),
      writeRootsH hp rs total w = writeRoots (ts.map PNode.ofRoot) total w := by
  induction h with
  | nil => intro total w; rfl
  | @cons r t fp lv rs ts owned lvs h1 h2 ih =>
    intro total w
    have ndfp : fp.Nodup := by
      have := nd
      simp only [List.cons_append, List.nodup_cons, List.nodup_append] at this
      exact this.2.1
    have ndo : owned.Nodup := by
      have := nd
      simp only [List.cons_append, List.nodup_cons, List.nodup_append] at this
      exact this.2.2.1
    rw [writeRootsH, List.map_cons, writeRoots, writeOneH_root h1 ndfp w]
    rcases writeOne (PNode.ofRoot t) (PNode.ofRoot t).deadEnd w with ⟨⟨b, o⟩, w'⟩
    cases o with
    | ok u => exact ih ndo _ _
    | err => rfl
    | panic => rfl
    | hang => rfl

/-- **`WriteTo` on a heap representing `F` = `WriteTo` on the shape of `F`**, for every sink -/
theorem writeToH_abs {p : Pollard H} {F : Forest H} (a : Abs p F)
    (hd : p.numDels = BitVec.ofNat 64 (numDead F)) (w : Sink) :
    writeToH p w = writeTo (PState.ofForest F) w := by
  obtain ⟨owned, lv, h1, h2, _⟩ := a.repr
  have hN : p.numLeaves = BitVec.ofNat 64 F.numLeaves := by rw [← a.numLeaves]; simp
  have hroots : (PState.ofForest F).roots = (F.trees.map (·.2)).map PNode.ofRoot := by
    simp [PState.ofForest, List.map_map]
  unfold writeToH writeTo
  rw [hroots]
  simp only [PState.ofForest, hN, hd]
  congr 1; funext total w1
  congr 1; funext total w2
  exact writeRootsH_repr h1 h2 total w2

end UtreexoVerif.Proofs.PollardHeapSerial
