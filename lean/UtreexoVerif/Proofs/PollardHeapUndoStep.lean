/-
  Pointer forest, heap model, `Undo`, third phase: ONE re-insertion at forest level.

  `AbsP p G pend`: the heap represents the forest `G` and, detached from it, the trees `pend`
  (allocated by `undoDelsAlloc`, merged by `deTwinPolNode`) that are still to be re-inserted;
  `NodeMap` = the leaves of both.

  * `undoSingleDel_absP`: `undoSingleDel` of a detached tree `a` at the position `q` where `a`
    sits in `G`, on a heap representing `G.delLeaves a.leaves`, yields a heap representing `G`
    (both branches: the parent of `q` is a root / has an aunt);
  * `undoRootSet_absP`: the same for a root position (`p.Roots[tree] = node`).
-/
import UtreexoVerif.Proofs.PollardHeapUndoDelRoot
set_option linter.unusedSectionVars false
set_option linter.unusedVariables false
set_option linter.unusedSimpArgs false

namespace UtreexoVerif.Proofs.PollardHeap
open UtreexoVerif UtreexoVerif.GoInt UtreexoVerif.Model UtreexoVerif.Model.PollardHeap UtreexoVerif.Spec Hasher
open UtreexoVerif.Model.PollardAbs UtreexoVerif.Proofs.SpecNodes UtreexoVerif.Proofs.SpecSubs
open UtreexoVerif.Proofs.PollardLookup UtreexoVerif.Proofs.SpecView UtreexoVerif.Proofs.CalcGeo

variable {H : Type} [DecidableEq H] [Hasher H]

/-! ### contexts and child paths, specification level -/

/-- a child path splits a tree into a context and the sub-tree -/
theorem childPath_zoom : ∀ (π : List Bool) (ctx0 : CCtx H) (t s : CTree H),
    childPath t π = some s →
    ∃ ctx : CCtx H, ctx.plug s = ctx0.plug t ∧ ctx.revPath = π.reverse ++ ctx0.revPath ∧
      ctx.depth = ctx0.depth + π.length := by
  intro π
  induction π with
  | nil =>
    intro ctx0 t s h
    simp only [childPath, Option.some.injEq] at h
    subst h
    exact ⟨ctx0, rfl, by simp, by simp⟩
  | cons d π ih =>
    intro ctx0 t s h
    cases t with
    | leaf x => simp [childPath, child] at h
    | node a b =>
      cases d with
      | false =>
        simp only [childPath, child] at h
        obtain ⟨ctx, e1, e2, e3⟩ := ih (.left ctx0 b) a s h
        exact ⟨ctx, by rw [e1]; rfl, by rw [e2]; simp [CCtx.revPath], by rw [e3]; simp [CCtx.depth]; omega⟩
      | true =>
        simp only [childPath, child] at h
        obtain ⟨ctx, e1, e2, e3⟩ := ih (.right a ctx0) b s h
        exact ⟨ctx, by rw [e1]; rfl, by rw [e2]; simp [CCtx.revPath], by rw [e3]; simp [CCtx.depth]; omega⟩

/-- the hole of a context is reached by the path of the context -/
theorem childPath_plug : ∀ (ctx : CCtx H) (s : CTree H) (π : List Bool) (u : CTree H),
    childPath s π = some u → childPath (ctx.plug s) (ctx.revPath.reverse ++ π) = some u := by
  intro ctx
  induction ctx with
  | top => intro s π u h; simpa [CCtx.plug, CCtx.revPath] using h
  | left up sib ih =>
    intro s π u h
    have := ih (.node s sib) (false :: π) u (by simpa [childPath, child] using h)
    simpa [CCtx.plug, CCtx.revPath, List.append_assoc] using this
  | right sib up ih =>
    intro s π u h
    have := ih (.node sib s) (true :: π) u (by simpa [childPath, child] using h)
    simpa [CCtx.plug, CCtx.revPath, List.append_assoc] using this

/-- a tree and a path determine the context and the sub-tree -/
theorem plug_inj : ∀ (ctx ctx' : CCtx H) (x y : CTree H), ctx.revPath = ctx'.revPath →
    ctx.plug x = ctx'.plug y → ctx = ctx' ∧ x = y := by
  intro ctx
  induction ctx with
  | top =>
    intro ctx' x y hp he
    cases ctx' with
    | top => exact ⟨rfl, he⟩
    | left up s => simp [CCtx.revPath] at hp
    | right s up => simp [CCtx.revPath] at hp
  | left up s ih =>
    intro ctx' x y hp he
    cases ctx' with
    | top => simp [CCtx.revPath] at hp
    | left up' s' =>
      simp only [CCtx.revPath, List.cons.injEq, true_and] at hp
      obtain ⟨e1, e2⟩ := ih up' (.node x s) (.node y s') hp he
      injection e2 with e3 e4
      subst e1 e3 e4
      exact ⟨rfl, rfl⟩
    | right s' up' => simp [CCtx.revPath] at hp
  | right s up ih =>
    intro ctx' x y hp he
    cases ctx' with
    | top => simp [CCtx.revPath] at hp
    | left up' s' => simp [CCtx.revPath] at hp
    | right s' up' =>
      simp only [CCtx.revPath, List.cons.injEq, true_and] at hp
      obtain ⟨e1, e2⟩ := ih up' (.node s x) (.node s' y) hp he
      injection e2 with e3 e4
      subst e1 e3 e4
      exact ⟨rfl, rfl⟩

/-- the last step of a walk the other way round reaches the sibling -/
theorem walkChild_flip {hp : Heap H} (π : List Bool) (d : Bool) (n h x y : Nat)
    (hw : walkChild hp n h (π ++ [d]) = some (x, y)) :
    walkChild hp n h (π ++ [!d]) = some (y, x) := by
  rw [walkChild_append] at hw ⊢
  cases hπ : walkChild hp n h π with
  | none => rw [hπ] at hw; simp at hw
  | some q =>
    rw [hπ] at hw
    simp only [Option.bind_some] at hw ⊢
    simp only [walkChild] at hw ⊢
    cases hq : hp[q.2]? with
    | none => rw [hq] at hw; simp at hw
    | some hn =>
      rw [hq] at hw
      simp only at hw ⊢
      cases hl : hn.lNiece with
      | none => rw [hl] at hw; simp at hw
      | some l =>
        cases hr : hn.rNiece with
        | none => rw [hl, hr] at hw; simp at hw
        | some r =>
          rw [hl, hr] at hw
          simp only at hw ⊢
          cases d
          · simp only [Bool.false_eq_true, if_false, Option.some.injEq, Prod.mk.injEq] at hw
            simp [hw.1, hw.2]
          · simp only [if_true, Option.some.injEq, Prod.mk.injEq] at hw
            simp [hw.1, hw.2]

/-! ### `undoSingleDel_tree_aunt`, with the path of the context -/

/-- **`undoSingleDel`, the original parent is not a root** (collapsed-tree level): the node at
the non-empty child path `π1` of a represented tree carries `b` (it moved up when its sibling
died); `nd` is the root of a detached represented tree `a`.  `undoSingleDel` allocates the
parent, puts `a` and `b` below it (left / right as the position says) and re-hashes up to the
root. -/
theorem undoSingleDel_tree_aunt' {hp : Heap H} {nm : List (H × Nat)} {rs : List Nat} {nl ndl : U64}
    {full : Bool} {r : Nat} {t : CTree H} {fp : List Nat} {lv : List (H × Nat)} (π1 : List Bool)
    {b : CTree H} {nd : Nat} {a : CTree H} {fa : List Nat} {la : List (H × Nat)}
    (hR : RootRepr hp r t fp lv) (hRn : RootRepr hp nd a fa la)
    (ndp : (r :: fp ++ nd :: fa).Nodup) (hne : π1 ≠ [])
    (hpath : childPath t π1 = some b) (pos : U64)
    (hget : ∀ B S, walkChild hp r r π1 = some (B, S) →
      ∃ par, getNode (Parent pos (TreeRows nl)) ⟨hp, nm, rs, nl, ndl, full⟩ =
        (.ok (some B, some S, par), ⟨hp, nm, rs, nl, ndl, full⟩)) :
    ∃ (hp' : Heap H) (ctx : CCtx H) (fp' : List Nat) (pre lb post : List (H × Nat)),
      t = ctx.plug b ∧ ctx.depth = π1.length ∧ ctx.revPath = π1.reverse ∧ lv = pre ++ lb ++ post ∧
      undoSingleDel nd pos ⟨hp, nm, rs, nl, ndl, full⟩ = (.ok (), ⟨hp', nm, rs, nl, ndl, full⟩) ∧
      RootRepr hp' r (ctx.plug (if isLeftNiece pos then .node a b else .node b a)) fp'
        (pre ++ (if isLeftNiece pos then la ++ lb else lb ++ la) ++ post) ∧
      fp'.Perm (hp.size :: nd :: (fa ++ fp)) ∧
      (∀ j, j ∉ r :: fp ++ nd :: fa → j ≠ hp.size → hp'[j]? = hp[j]?) ∧
      hp'.size = hp.size + 1 := by
  obtain ⟨⟨rn, hr, ar⟩, hs⟩ := hR
  obtain ⟨⟨ndn, hnd, aN⟩, subA⟩ := hRn
  obtain ⟨ctxB, B, S, fb, lb, fpcB, l1, l2, hctx, subB, eplug, hperm, elv, hwalk, hdepth, hrevB⟩ :=
    Sub.zoom π1 .top r r t fp lv [] [] [] b (CtxRepr.top hr ar) hs hpath
  simp only [CCtx.plug, List.nil_append, List.append_nil, CCtx.depth, Nat.zero_add, CCtx.revPath] at eplug hperm elv hdepth hrevB
  obtain ⟨par, hget'⟩ := hget B S hwalk
  cases hctx with
  | top h1 h2 =>
    simp only [CCtx.depth] at hdepth
    exact absurd (List.length_eq_zero_iff.mp hdepth.symm) hne
  | left hu h1 h2 h3 h4 h5 h6 h7 hsS =>
    rename_i up G HG hgn bn sn ts fs fpu ls l2u
    have ndc : (r :: (fpu ++ (nd :: B :: S :: (fa ++ fb ++ fs)))).Nodup := by
      rw [List.nodup_iff_count] at ndp ⊢
      intro z
      have c1 := ndp z
      have c2 := List.perm_iff_count.1 hperm z
      simp only [List.count_cons, List.count_append, List.cons_append] at c1 c2 ⊢
      omega
    obtain ⟨hp', fp', g1, g2, g3, g4, g5⟩ := undoSingleDel_aunt_core (a := a) (b := b) true hu hnd h4 h5 h1
      aN h6 h7 (by simp only [if_true]; exact ⟨h2, h3⟩) subA subB hsS ndc pos par hget'
    simp only [if_true] at g2
    refine ⟨hp', .left up ts, fp', l1, lb, ls ++ l2u, eplug.symm, ?_, hrevB, ?_, g1, ?_, ?_, ?_, g5⟩
    · simp only [CCtx.depth] at hdepth; simp [CCtx.depth, hdepth]
    · rw [← elv]
    · simpa [CCtx.plug, List.append_assoc] using g2
    · refine g3.trans ?_
      rw [List.perm_iff_count]
      intro z
      have c2 := List.perm_iff_count.1 hperm z
      simp only [List.count_cons, List.count_append] at c2 ⊢
      omega
    · intro j hj hjP
      apply g4 j _ hjP
      intro hm
      apply hj
      have c2 := List.perm_iff_count.1 hperm j
      have : 0 < List.count j (r :: (fpu ++ (nd :: B :: S :: (fa ++ fb ++ fs)))) :=
        List.count_pos_iff.2 hm
      apply List.count_pos_iff.1
      simp only [List.count_cons, List.count_append, List.cons_append] at c2 this ⊢
      omega
  | right hu h1 h2 h3 h4 h5 h6 h7 hsS =>
    rename_i up G HG hgn bn sn ts fs fpu ls l1u
    have ndc : (r :: (fpu ++ (nd :: B :: S :: (fa ++ fb ++ fs)))).Nodup := by
      rw [List.nodup_iff_count] at ndp ⊢
      intro z
      have c1 := ndp z
      have c2 := List.perm_iff_count.1 hperm z
      simp only [List.count_cons, List.count_append, List.cons_append] at c1 c2 ⊢
      omega
    obtain ⟨hp', fp', g1, g2, g3, g4, g5⟩ := undoSingleDel_aunt_core (a := a) (b := b) false hu hnd h4 h5 h1
      aN h6 h7 (by simp only [Bool.false_eq_true, if_false]; exact ⟨h2, h3⟩) subA subB hsS ndc pos par hget'
    simp only [Bool.false_eq_true, if_false] at g2
    refine ⟨hp', .right ts up, fp', l1u ++ ls, lb, l2, eplug.symm, ?_, hrevB, ?_, g1, ?_, ?_, ?_, g5⟩
    · simp only [CCtx.depth] at hdepth; simp [CCtx.depth, hdepth]
    · rw [← elv]
    · simpa [CCtx.plug, List.append_assoc] using g2
    · refine g3.trans ?_
      rw [List.perm_iff_count]
      intro z
      have c2 := List.perm_iff_count.1 hperm z
      simp only [List.count_cons, List.count_append] at c2 ⊢
      omega
    · intro j hj hjP
      apply g4 j _ hjP
      intro hm
      apply hj
      have c2 := List.perm_iff_count.1 hperm j
      have : 0 < List.count j (r :: (fpu ++ (nd :: B :: S :: (fa ++ fb ++ fs)))) :=
        List.count_pos_iff.2 hm
      apply List.count_pos_iff.1
      simp only [List.count_cons, List.count_append, List.cons_append] at c2 this ⊢
      omega

/-! ### the abstraction relation during `undoDels` -/

/-- the heap represents the forest `G` and, detached from it, the trees `pend`; `NodeMap` = the
leaves of both -/
structure AbsP (p : Pollard H) (G : Forest H) (pend : List (PItem H)) : Prop where
  numLeaves : p.numLeaves.toNat = G.numLeaves
  repr : ∃ owned lv, ReprRoots p.heap p.roots (G.trees.map (·.2)) owned lv ∧ Pend p.heap pend ∧
    (owned ++ pendOwned pend).Nodup ∧ (p.nodeMap.map (·.1)).Nodup ∧
    ((lv ++ pendLeaves pend).map (·.1)).Nodup ∧ ∀ e, e ∈ p.nodeMap ↔ e ∈ lv ++ pendLeaves pend

theorem AbsP.toAbs {p : Pollard H} {G : Forest H} (a : AbsP p G []) : Abs p G := by
  obtain ⟨h1, owned, lv, h2, _, h3, h4, h5, h6⟩ := a
  refine ⟨h1, owned, lv, h2, by simpa [pendOwned] using h3, h4, fun e => ?_⟩
  simpa [pendLeaves] using h6 e

/-- the trees of `G` around the tree on row `R`, before and after leaves of that tree die -/
theorem trees_split_del {G : Forest H} (hn : G.numLeaves < 2 ^ 64) (hGnd : G.liveLeaves.Nodup)
    {R : Nat} (hR : R ∈ treeRows G.numLeaves) {t0 : CTree H} (ht0 : PollardLookup.treeOf G R = some t0)
    (L : List H) (hL : ∀ x ∈ L, x ∈ t0.leaves) :
    ∃ A B, G.trees.map (·.2) = A ++ some t0 :: B ∧ A.length = (treeRows G.numLeaves).idxOf R ∧
      (G.delLeaves L).trees.map (·.2) = A ++ pruneO L (some t0) :: B := by
  have hidx := trees_getElem G hR
  rw [ht0] at hidx
  obtain ⟨ts, hts⟩ : ∃ ts, ts = G.trees.map (·.2) := ⟨_, rfl⟩
  obtain ⟨k, hk⟩ : ∃ k, k = (treeRows G.numLeaves).idxOf R := ⟨_, rfl⟩
  rw [← hk] at hidx
  have hk' : ts[k]? = some (some t0) := by rw [hts, List.getElem?_map, hidx]; rfl
  have hlt : k < ts.length := by
    rcases Nat.lt_or_ge k ts.length with h' | h'
    · exact h'
    · rw [List.getElem?_eq_none h'] at hk'; cases hk'
  have e : ts = ts.take k ++ some t0 :: ts.drop (k + 1) := by
    have h1 : ts.drop k = some t0 :: ts.drop (k + 1) := by
      rw [List.drop_eq_getElem_cons hlt]
      congr 1
      rw [List.getElem?_eq_getElem hlt] at hk'
      exact Option.some.inj hk'
    rw [← h1, List.take_append_drop]
  have hlv : ts.flatMap optLeaves = G.liveLeaves := by
    rw [hts, List.flatMap_map]; exact trees_leaves G hn
  have hndl : ((ts.take k).flatMap optLeaves ++ (t0.leaves ++ (ts.drop (k + 1)).flatMap optLeaves)).Nodup := by
    have : ts.flatMap optLeaves = (ts.take k).flatMap optLeaves ++
        (t0.leaves ++ (ts.drop (k + 1)).flatMap optLeaves) := by
      conv => lhs; rw [e]
      simp [optLeaves]
    rw [← this, hlv]; exact hGnd
  simp only [List.nodup_append, List.mem_append] at hndl
  obtain ⟨n1, ⟨n2, n3, n4⟩, n5⟩ := hndl
  refine ⟨ts.take k, ts.drop (k + 1), by rw [← hts]; exact e, by rw [List.length_take]; omega, ?_⟩
  rw [trees_delLeaves, List.map_map]
  have : ((fun p : Nat × Option (CTree H) => p.2) ∘
      fun p : Nat × Option (CTree H) => (p.1, pruneO L p.2)) =
      (pruneO L) ∘ (fun p : Nat × Option (CTree H) => p.2) := rfl
  rw [this, ← List.map_map, ← hts]
  conv => lhs; rw [e]
  rw [List.map_append, List.map_cons, map_pruneO_eq_self _ (ts.take k), map_pruneO_eq_self _ (ts.drop (k + 1))]
  · intro x hx hxL
    exact n4 x (hL x hxL) x hx rfl
  · intro x hx hxL
    exact n5 x hx x (Or.inl (hL x hxL)) rfl

/-- list bookkeeping of a re-insertion: the root's footprint absorbs the item and a fresh node -/
theorem nodup_reinsert {o1 fp o2 po fa fp' : List Nat} {root nd sz : Nat}
    (h : ((o1 ++ (root :: fp ++ o2)) ++ (po ++ nd :: fa)).Nodup)
    (hlt : ∀ i ∈ (o1 ++ (root :: fp ++ o2)) ++ (po ++ nd :: fa), i < sz)
    (hp : fp'.Perm (sz :: nd :: (fa ++ fp))) : ((o1 ++ (root :: fp' ++ o2)) ++ po).Nodup := by
  have hcount : List.count sz ((o1 ++ (root :: fp ++ o2)) ++ (po ++ nd :: fa)) = 0 := by
    rw [List.count_eq_zero]
    intro hm
    exact absurd (hlt _ hm) (by omega)
  rw [List.nodup_iff_count] at h ⊢
  intro z
  have h1 := h z
  have c2 := List.perm_iff_count.1 hp z
  by_cases hz : z = sz
  · subst hz
    simp only [List.count_cons, List.count_append, List.cons_append] at hcount h1 c2 ⊢
    simp only [beq_self_eq_true, if_true] at c2
    omega
  · have : (sz == z) = false := by simpa [beq_eq_false_iff_ne] using Ne.symm hz
    simp only [List.count_cons, List.count_append, List.cons_append, this] at h1 c2 ⊢
    simp only [Bool.false_eq_true, if_false] at c2
    omega

/-! ### `undoSingleDel` on one root among others -/

theorem mapMoveTo_keys (nm : List (H × Nat)) (k : H) (v : Nat) :
    (mapMoveTo nm k v).map (·.1) = nm.map (·.1) := by
  unfold mapMoveTo
  split
  · rename_i h
    exact mapSet_keys (mapGet_isSome_iff.1 h)
  · rfl

/-- **`undoSingleDel` on one represented root** (both branches), `NodeMap` clause included:
the root `root` represents `ctx.plug b`, `nd` is the root of the detached tree `a`; `d` tells on
which side `a` is to be re-inserted (`true` = right) -/
theorem undoSingleDel_mid {hp : Heap H} {nm : List (H × Nat)} {rs : List Nat} {nl ndl : U64}
    {full : Bool} {root : Nat} (ctx : CCtx H) {b : CTree H} {fp : List Nat} {lk : List (H × Nat)}
    {nd : Nat} {a : CTree H} {fa : List Nat} {la : List (H × Nat)} (d : Bool) (pos : U64)
    (hR : RootRepr hp root (ctx.plug b) fp lk) (hRn : RootRepr hp nd a fa la)
    (ndp : (root :: fp ++ nd :: fa).Nodup) (hleft : isLeftNiece pos = !d)
    (hget : ∀ B S, walkChild hp root root ctx.revPath.reverse = some (B, S) →
      ∃ par, getNode (Parent pos (TreeRows nl)) ⟨hp, nm, rs, nl, ndl, full⟩ =
        (.ok (some B, some S, par), ⟨hp, nm, rs, nl, ndl, full⟩))
    (Z : List (H × Nat)) (hmm : ∀ e, e ∈ nm ↔ e ∈ lk ++ la ++ Z) (hmk : (nm.map (·.1)).Nodup)
    (hlk : ((lk ++ la ++ Z).map (·.1)).Nodup) (hsep : ∀ e ∈ nm, ∀ u v : H, e.1 ≠ ph u v) :
    ∃ (hp' : Heap H) (nm' : List (H × Nat)) (fp' : List Nat) (lk' : List (H × Nat)),
      undoSingleDel nd pos ⟨hp, nm, rs, nl, ndl, full⟩ = (.ok (), ⟨hp', nm', rs, nl, ndl, full⟩) ∧
      RootRepr hp' root (ctx.plug (if d then .node b a else .node a b)) fp' lk' ∧
      fp'.Perm (hp.size :: nd :: (fa ++ fp)) ∧
      (∀ j, j ∉ root :: fp ++ nd :: fa → j ≠ hp.size → hp'[j]? = hp[j]?) ∧
      hp'.size = hp.size + 1 ∧
      (∀ e, e ∈ nm' ↔ e ∈ lk' ++ Z) ∧ (nm'.map (·.1)).Nodup ∧ ((lk' ++ Z).map (·.1)).Nodup ∧
      nm'.map (·.1) = nm.map (·.1) := by
  have hplug : (if isLeftNiece pos then CTree.node a b else CTree.node b a) =
      (if d then CTree.node b a else CTree.node a b) := by
    rw [hleft]; cases d <;> rfl
  cases ctx with
  | top =>
    -- the parent is the root
    simp only [CCtx.plug, CCtx.revPath, List.reverse_nil] at hR hget ⊢
    obtain ⟨par, hget'⟩ := hget root root (by simp [walkChild])
    obtain ⟨hp', hex, hroot', hframe, hsz⟩ := undoSingleDel_tree_root hR hRn ndp pos par hget'
    rw [hplug] at hroot'
    obtain ⟨m1, m2, m3⟩ := mapInv_move (r := hp.size) (D := []) (X := []) (lb := lk) (Y := la ++ Z)
      (lv := lk ++ la ++ Z) (b := b)
      (fun e => by rw [hmm e]; simp) hmk hlk (by simp) (sub_shape hR.2)
      (fun e he => hsep e ((hmm e).2 he))
    refine ⟨hp', mapMoveTo nm b.hash hp.size, _, _, hex, hroot', ?_, hframe, hsz, ?_, m2, ?_,
      mapMoveTo_keys _ _ _⟩
    · cases isLeftNiece pos
      · simp only [Bool.false_eq_true, if_false]; perm_count
      · simp only [if_true]; perm_count
    · intro e
      rw [m1 e]
      simp only [List.nil_append, List.not_mem_nil, not_false_eq_true, and_true, List.mem_append]
      cases isLeftNiece pos
      · simp only [Bool.false_eq_true, if_false, List.mem_append]
        constructor
        · rintro (h | h | h)
          · exact Or.inl (Or.inl h)
          · exact Or.inl (Or.inr h)
          · exact Or.inr h
        · rintro ((h | h) | h)
          · exact Or.inl h
          · exact Or.inr (Or.inl h)
          · exact Or.inr (Or.inr h)
      · simp only [if_true, List.mem_append]
        constructor
        · rintro (h | h | h)
          · exact Or.inl (Or.inr h)
          · exact Or.inl (Or.inl h)
          · exact Or.inr h
        · rintro ((h | h) | h)
          · exact Or.inr (Or.inl h)
          · exact Or.inl h
          · exact Or.inr (Or.inr h)
    · have hk : (([] : List (H × Nat)) ++ (relabelTop b hp.size lk ++ (la ++ Z))).map (·.1) =
          (lk ++ la ++ Z).map (·.1) := m3
      have hnd' : ((relabelTop b hp.size lk ++ (la ++ Z)).map (·.1)).Nodup := by
        have := hlk; rw [← hk] at this; simpa using this
      refine (List.Perm.nodup_iff (List.Perm.map _ ?_)).1 hnd'
      cases isLeftNiece pos
      · simp only [Bool.false_eq_true, if_false]
        simp [List.append_assoc]
      · simp only [if_true]; perm_count
  | left up s =>
    have hne : (CCtx.left up s).revPath.reverse ≠ [] := by simp [CCtx.revPath]
    have hpath : childPath ((CCtx.left up s).plug b) (CCtx.left up s).revPath.reverse = some b := by
      have := childPath_plug (CCtx.left up s) b [] b rfl
      simpa using this
    obtain ⟨hp', ctx', fp', pre, lb, post, e1, e2, e3, e4, hex, hroot', hperm, hframe, hsz⟩ :=
      undoSingleDel_tree_aunt' _ hR hRn ndp hne hpath pos hget
    rw [List.reverse_reverse] at e3
    obtain ⟨ec, _⟩ := plug_inj _ _ b b e3.symm e1
    rw [← ec, hplug] at hroot'
    have hP : (pre ++ (if isLeftNiece pos then la ++ lb else lb ++ la) ++ post ++ Z).Perm (lk ++ la ++ Z) := by
      rw [e4]
      cases isLeftNiece pos
      · simp only [Bool.false_eq_true, if_false]; perm_count
      · simp only [if_true]; perm_count
    refine ⟨hp', nm, fp', _, hex, hroot', hperm, hframe, hsz, ?_, hmk, ?_, rfl⟩
    · intro e; rw [hmm e]; exact (hP.mem_iff).symm
    · exact (List.Perm.nodup_iff (hP.map _)).2 hlk
  | right s up =>
    have hne : (CCtx.right s up).revPath.reverse ≠ [] := by simp [CCtx.revPath]
    have hpath : childPath ((CCtx.right s up).plug b) (CCtx.right s up).revPath.reverse = some b := by
      have := childPath_plug (CCtx.right s up) b [] b rfl
      simpa using this
    obtain ⟨hp', ctx', fp', pre, lb, post, e1, e2, e3, e4, hex, hroot', hperm, hframe, hsz⟩ :=
      undoSingleDel_tree_aunt' _ hR hRn ndp hne hpath pos hget
    rw [List.reverse_reverse] at e3
    obtain ⟨ec, _⟩ := plug_inj _ _ b b e3.symm e1
    rw [← ec, hplug] at hroot'
    have hP : (pre ++ (if isLeftNiece pos then la ++ lb else lb ++ la) ++ post ++ Z).Perm (lk ++ la ++ Z) := by
      rw [e4]
      cases isLeftNiece pos
      · simp only [Bool.false_eq_true, if_false]; perm_count
      · simp only [if_true]; perm_count
    refine ⟨hp', nm, fp', _, hex, hroot', hperm, hframe, hsz, ?_, hmk, ?_, rfl⟩
    · intro e; rw [hmm e]; exact (hP.mem_iff).symm
    · exact (List.Perm.nodup_iff (hP.map _)).2 hlk

/-! ### `undoSingleDel` at forest level -/

theorem testBit_xor_one_zero (x : Nat) : (x ^^^ 1).testBit 0 = !x.testBit 0 := by
  rw [Nat.testBit_xor]
  simp

theorem pendOwned_snoc (others : List (PItem H)) (it : PItem H) :
    pendOwned (others ++ [it]) = pendOwned others ++ it.nd :: it.fp := by
  rw [pendOwned_append, pendOwned_cons]; simp [pendOwned]

theorem pendLeaves_snoc (others : List (PItem H)) (it : PItem H) :
    pendLeaves (others ++ [it]) = pendLeaves others ++ it.lv := by
  rw [pendLeaves_append, pendLeaves_cons]; simp [pendLeaves]

/-- **`undoSingleDel` at forest level**: the heap represents `G.delLeaves a.leaves` and, detached,
the tree `a` (item `it`) among other pending items; `it.pos` is the position of the non-root node
of `G` that carries `a`.  Then `undoSingleDel` succeeds — no error, no panic, no fuel exhaustion —
and the heap represents `G` (the other pending items untouched). -/
theorem undoSingleDel_absP {p : Pollard H} {G : Forest H} {others : List (PItem H)} {it : PItem H}
    (hA : AbsP p (G.delLeaves it.t.leaves) (others ++ [it])) (hn : G.numLeaves < 2 ^ 63)
    (hGnd : G.liveLeaves.Nodup) {R : Nat} (hs : SubAtT G R it.pos it.t)
    (hnr : isRootPos G.numLeaves it.pos = false)
    (hsep : ∀ e ∈ p.nodeMap, ∀ u v : H, e.1 ≠ ph u v) :
    ∃ hp' nm', undoSingleDel it.nd (E G.rows it.pos) p =
        (.ok (), { p with heap := hp', nodeMap := nm' }) ∧
      AbsP { p with heap := hp', nodeMap := nm' } G others ∧
      nm'.map (·.1) = p.nodeMap.map (·.1) ∧ p.heap.size ≤ hp'.size := by
  obtain ⟨hp, nm, rs, nl, ndl, full⟩ := p
  obtain ⟨nd, ⟨r, o⟩, a, fa, la⟩ := it
  obtain ⟨hnl, owned, lv, hroots, hpend, hnd, hmk, hlk, hmm⟩ := hA
  simp only at hnl hroots hpend hnd hmk hlk hmm hsep hs hnr ⊢
  rw [numLeaves_delLeaves] at hnl
  -- the tree and the walk
  obtain ⟨t0, ht0, hd0, hm0⟩ := hs.tree
  obtain ⟨hrR, hroot_off⟩ := hs.under
  simp only at hrR hroot_off
  obtain ⟨hlt, s', hpar, hsib⟩ := hs.parent hnr
  simp only at hlt
  have hR := hs.1
  have hb := hs.bit
  have hw : childWalk t0 (R - r) o = some a := subs_walk t0 R _ hd0 ((r, o), a) hm0
  obtain ⟨k, hk⟩ : ∃ k, R - r = k + 1 := ⟨R - r - 1, by omega⟩
  rw [hk, PollardCalcPos.childWalk_eq_childPath, pathBits_succ_last, childPath_append] at hw
  cases hπ : childPath t0 (pathBits k (o / 2)) with
  | none => rw [hπ] at hw; simp at hw
  | some tp =>
    rw [hπ] at hw
    simp only [Option.bind_some] at hw
    obtain ⟨ctx, ec1, ec2, ec3⟩ := childPath_zoom _ .top t0 tp hπ
    simp only [CCtx.plug, CCtx.revPath, List.append_nil] at ec1 ec2
    obtain ⟨b, etp⟩ : ∃ b, tp = if o.testBit 0 then CTree.node b a else CTree.node a b := by
      cases tp with
      | leaf x => simp [childPath, child] at hw
      | node x y =>
        cases hd : o.testBit 0
        · rw [hd] at hw
          simp only [childPath, child, Option.some.injEq] at hw
          exact ⟨y, by simp [hw]⟩
        · rw [hd] at hw
          simp only [childPath, child, Option.some.injEq] at hw
          exact ⟨x, by simp [hw]⟩
    have ht0nd : t0.leaves.Nodup := ProofUpdateDeTwin.tree_leaves_nodup hGnd ht0
    have hprune : Spec.prune a.leaves t0 = some (ctx.plug b) := by
      rw [← ec1, etp]
      exact prune_plug ctx a b (o.testBit 0) (by rw [← etp, ec1]; exact ht0nd)
    obtain ⟨A, B, eA, lenA, eG'⟩ := trees_split_del (by omega) hGnd hR ht0 a.leaves
      (fun x hx => subs_leaves t0 R _ _ hm0 x hx)
    rw [eG'] at hroots
    simp only [pruneO, Option.bind_some, hprune] at hroots
    obtain ⟨rs1, root, rs2, ts1, ts2, o1, fp, o2, l1, lk, l2, ers, ets, eo, elv, hl1, hl2, hr1, hrr', hr2⟩ :=
      hroots.split A.length (some (ctx.plug b)) (by simp)
    obtain ⟨eA1, eB1⟩ := List.append_inj ets hl2.symm
    have eB2 : B = ts2 := by injection eB1
    subst eA1 eB2
    have hRootRepr : RootRepr hp root (ctx.plug b) fp lk := hrr'
    have hRn : RootRepr hp nd a fa la := hpend ⟨nd, (r, o), a, fa, la⟩ (by simp)
    have hpo : Pend hp others := fun it' hit' => hpend it' (by simp [hit'])
    rw [eo, pendOwned_snoc] at hnd
    rw [elv, pendLeaves_snoc] at hlk hmm
    simp only at hnd hlk hmm
    -- geometry
    have htr : G.rows ≤ 63 := forestRows_le_63 hn
    obtain ⟨hrr, hoo⟩ : r ≤ G.rows ∧ o < 2 ^ (G.rows - r) := under_valid hb hrR hroot_off
    have hRrows : R ≤ G.rows := testBit_le_forestRows hb
    have hN : nl = BitVec.ofNat 64 G.numLeaves := by rw [← hnl]; simp
    have hT : TreeRows nl = H8 G.rows := by rw [hN]; exact treeRows_eq hn
    have hrootget : rs[(treeRows G.numLeaves).idxOf R]? = some root := by
      rw [ers, ← lenA, ← hl1]; simp
    have hLen : rs.length ≤ 255 := by
      have h1 : (A ++ some (ctx.plug b) :: B).length = (G.trees.map (·.2)).length := by rw [eA]; simp
      rw [hroots.length_eq, h1]
      simp only [List.length_map, Forest.trees]
      exact Nat.le_trans (treeRowsFrom_length_le 64 _) (by omega)
    have hparent : Parent (E G.rows (r, o)) (TreeRows nl) = encU G.rows (r + 1) (o / 2) := by
      rw [hT]; exact Props.C16.parent_enc htr (by omega) hoo
    have hleft : isLeftNiece (E G.rows (r, o)) = !(o.testBit 0) := by
      have := Props.C16.isLeftNiece_enc htr hrr hoo
      show isLeftNiece (encU G.rows r o) = _
      rw [this, Nat.testBit_zero]
      rcases Nat.mod_two_eq_zero_or_one o with h | h <;> simp [h]
    have ho2 : o / 2 / 2 ^ (R - (r + 1)) = 2 * (G.numLeaves >>> (R + 1)) := by
      rw [show R - (r + 1) = k by omega, Nat.div_div_eq_div_mul, ← hroot_off, hk, Nat.pow_succ,
        Nat.mul_comm]
    have hget : ∀ B' S, walkChild hp root root ctx.revPath.reverse = some (B', S) →
        ∃ par, getNode (Parent (E G.rows (r, o)) (TreeRows nl)) ⟨hp, nm, rs, nl, ndl, full⟩ =
          (.ok (some B', some S, par), ⟨hp, nm, rs, nl, ndl, full⟩) := by
      intro B' S hwBS
      rw [ec2, List.reverse_reverse] at hwBS
      rw [hparent]
      apply getNode_pos (p := ⟨hp, nm, rs, nl, ndl, full⟩) hnl hn hR (by omega) ho2 hrootget hLen
      have hkk : R - (r + 1) = k := by omega
      rw [hkk]
      cases k with
      | zero =>
        simp only [pathBits, walkChild, Option.some.injEq, Prod.mk.injEq] at hwBS ⊢
        exact ⟨hwBS.2, hwBS.1⟩
      | succ k' =>
        rw [pathBits_succ_last] at hwBS ⊢
        rw [xor_one_div_two, testBit_xor_one_zero]
        exact walkChild_flip _ _ _ _ _ _ hwBS
    -- distinctness
    have ndp : (root :: fp ++ nd :: fa).Nodup := by
      rw [List.nodup_iff_count] at hnd ⊢
      intro z
      have := hnd z
      simp only [List.count_cons, List.count_append, List.cons_append] at this ⊢
      omega
    have hmm' : ∀ e, e ∈ nm ↔ e ∈ lk ++ la ++ (l1 ++ l2 ++ pendLeaves others) := by
      intro e
      rw [hmm e]
      apply List.Perm.mem_iff
      perm_count
    have hlk' : ((lk ++ la ++ (l1 ++ l2 ++ pendLeaves others)).map (·.1)).Nodup := by
      refine (List.Perm.nodup_iff (List.Perm.map _ ?_)).1 hlk
      perm_count
    obtain ⟨hp', nm', fp', lk', hex, hroot', hperm, hframe, hsz, m1, m2, m3, m4⟩ :=
      undoSingleDel_mid ctx (o.testBit 0) (E G.rows (r, o)) hRootRepr hRn ndp hleft hget _ hmm' hmk hlk'
        hsep
    refine ⟨hp', nm', hex, ?_, m4, by omega⟩
    -- the abstraction relation
    have hlt1 : ∀ i ∈ (o1 ++ (root :: fp ++ o2)) ++ (pendOwned others ++ nd :: fa), i < hp.size := by
      intro i hi
      rw [List.mem_append] at hi
      rcases hi with hi | hi
      · exact hroots.lt i (by rw [eo]; exact hi)
      · exact hpend.lt i (by rw [pendOwned_snoc]; exact hi)
    have hfr : ∀ i, i ∈ o1 ∨ i ∈ o2 ∨ i ∈ pendOwned others → hp'[i]? = hp[i]? := by
      intro i hi
      have hlt' : i < hp.size := by
        apply hlt1 i
        simp only [List.mem_append, List.mem_cons]
        rcases hi with h | h | h <;> simp [h]
      apply hframe i _ (by omega)
      intro hm
      rw [List.nodup_iff_count] at hnd
      have c := hnd i
      have c1 : 0 < List.count i (root :: fp ++ nd :: fa) := List.count_pos_iff.2 hm
      have c2 : 0 < List.count i o1 + List.count i o2 + List.count i (pendOwned others) := by
        rcases hi with h | h | h
        · have := List.count_pos_iff.2 h; omega
        · have := List.count_pos_iff.2 h; omega
        · have := List.count_pos_iff.2 h; omega
      simp only [List.count_cons, List.count_append, List.cons_append] at c c1 c2
      omega
    have hroot'' : RootRepr hp' root t0 fp' lk' := by
      rw [← ec1, etp]; exact hroot'
    refine ⟨by simpa using hnl, o1 ++ (root :: fp' ++ o2), l1 ++ (lk' ++ l2), ?_, ?_, ?_, m2, ?_, ?_⟩
    · show ReprRoots hp' rs (G.trees.map (·.2)) _ _
      rw [eA, ers]
      apply ReprRoots.append
      · exact hr1.frame (fun i hi => hfr i (Or.inl hi))
      · exact ReprRoots.cons (t := some t0) hroot'' (hr2.frame (fun i hi => hfr i (Or.inr (Or.inl hi))))
    · exact hpo.frame (fun i hi => hfr i (Or.inr (Or.inr hi)))
    · exact nodup_reinsert hnd hlt1 hperm
    · refine (List.Perm.nodup_iff (List.Perm.map _ ?_)).1 m3
      perm_count
    · intro e
      rw [m1 e]
      apply List.Perm.mem_iff
      perm_count

/-! ### one iteration of the loop of `undoDels` -/

theorem undoDelsLoop_cons_nonroot (nd : Nat) (pos : U64) (rest : List NP) (p p' : Pollard H)
    (h : isRootPosition pos p.numLeaves = false) (hex : undoSingleDel nd pos p = (.ok (), p')) :
    undoDelsLoop ((nd, pos) :: rest) p = undoDelsLoop rest p' := by
  rw [undoDelsLoop]
  simp only [bind_apply, getNumLeaves_apply, h, Bool.false_eq_true, if_false, hex]

theorem undoDelsLoop_cons_root (nd : Nat) (pos : U64) (rest : List NP) (p : Pollard H)
    (tree : U8) (x : U8) (y : U64)
    (h : isRootPosition pos p.numLeaves = true) (hdo : DetectOffset pos p.numLeaves = (tree, x, y, false))
    (hlt : tree.toNat < p.roots.length) :
    undoDelsLoop ((nd, pos) :: rest) p = undoDelsLoop rest { p with roots := p.roots.set tree.toNat nd } := by
  rw [undoDelsLoop]
  simp only [bind_apply, getNumLeaves_apply, h, if_true, hdo, Bool.false_eq_true, if_false, getRoots_apply, hlt,
    setRoots_apply]

/-- **one iteration of the second loop of `undoDels`** (root position: `p.Roots[tree] = node`;
otherwise `undoSingleDel`): the heap represents `G.delLeaves a.leaves` and, detached, the tree `a`
(item `it`, the LAST pending one); `it.pos` is the position of the node of `G` carrying `a`.  The
iteration succeeds and the heap represents `G`, the other pending items untouched. -/
theorem undoDelsLoop_cons_absP {p : Pollard H} {G : Forest H} {others : List (PItem H)} {it : PItem H}
    (hA : AbsP p (G.delLeaves it.t.leaves) (others ++ [it])) (hn : G.numLeaves < 2 ^ 63)
    (hGnd : G.liveLeaves.Nodup) {R : Nat} (hs : SubAtT G R it.pos it.t)
    (hsep : ∀ e ∈ p.nodeMap, ∀ u v : H, e.1 ≠ ph u v) (rest : List NP) :
    ∃ hp' nm' rs', undoDelsLoop (it.np G.rows :: rest) p =
        undoDelsLoop rest ⟨hp', nm', rs', p.numLeaves, p.numDels, p.full⟩ ∧
      AbsP ⟨hp', nm', rs', p.numLeaves, p.numDels, p.full⟩ G others ∧
      nm'.map (·.1) = p.nodeMap.map (·.1) := by
  have hnl0 := hA.numLeaves
  rw [numLeaves_delLeaves] at hnl0
  have htr : G.rows ≤ 63 := forestRows_le_63 hn
  have hb := hs.bit
  obtain ⟨hrR, hoff⟩ := hs.under
  obtain ⟨hrr, hoo⟩ : it.pos.1 ≤ G.rows ∧ it.pos.2 < 2 ^ (G.rows - it.pos.1) := under_valid hb hrR hoff
  have hN : p.numLeaves = BitVec.ofNat 64 G.numLeaves := by rw [← hnl0]; simp
  have hT : TreeRows p.numLeaves = H8 G.rows := by rw [hN]; exact treeRows_eq hn
  have hisroot : isRootPosition (E G.rows it.pos) p.numLeaves = isRootPos G.numLeaves it.pos := by
    show isRootPosition (encU G.rows it.pos.1 it.pos.2) p.numLeaves = _
    rw [Props.C16.isRootPosition_enc p.numLeaves hT htr hrr hoo, hnl0]
  cases hroot : isRootPos G.numLeaves it.pos with
  | false =>
    obtain ⟨hp', nm', hex, hA', hk, _⟩ := undoSingleDel_absP hA hn hGnd hs hroot hsep
    refine ⟨hp', nm', p.roots, ?_, hA', hk⟩
    exact undoDelsLoop_cons_nonroot _ _ rest p _ (by rw [hisroot, hroot]) hex
  | true =>
    obtain ⟨hp, nm, rs, nl, ndl, full⟩ := p
    obtain ⟨nd, q, a, fa, la⟩ := it
    obtain ⟨hnl, owned, lv, hroots, hpend, hnd, hmk, hlk, hmm⟩ := hA
    simp only at hnl hroots hpend hnd hmk hlk hmm hsep hs hroot hisroot hnl0 hN hT hrR hoff hrr hoo ⊢
    have hq1 : q.1 = R := hs.root_iff.1 hroot
    have hq : q = rootPos G.numLeaves R := by
      rw [hq1, Nat.sub_self, Nat.pow_zero, Nat.div_one] at hoff
      rw [show q = (q.1, q.2) from rfl, hq1, hoff]; rfl
    subst hq
    have hR := hs.1
    obtain ⟨t1, ht1, hd1, hm1⟩ := hs.tree
    have et : t1 = a := ((SubAtT.root hR ht1).unique hs).2
    subst et
    obtain ⟨A, B, eA, lenA, eG'⟩ := trees_split_del (by omega) hGnd hR ht1 t1.leaves (fun x hx => hx)
    have hpr : pruneO t1.leaves (some t1) = none := (prune_eq_none_iff _ t1).2 (fun x hx => hx)
    rw [eG', hpr] at hroots
    obtain ⟨rs1, root, rs2, ts1, ts2, o1, fp, o2, l1, lk, l2, ers, ets, eo, elv, hl1, hl2, hr1, hrr', hr2⟩ :=
      hroots.split A.length none (by simp)
    obtain ⟨eA1, eB1⟩ := List.append_inj ets hl2.symm
    have eB2 : B = ts2 := by injection eB1
    subst eA1 eB2
    obtain ⟨hempty, efp, elk⟩ : EmptyRoot hp root ∧ fp = [] ∧ lk = [] := hrr'
    subst efp elk
    have hRn : RootRepr hp nd t1 fa la := hpend ⟨nd, rootPos G.numLeaves R, t1, fa, la⟩ (by simp)
    have hpo : Pend hp others := fun it' hit' => hpend it' (by simp [hit'])
    rw [eo, pendOwned_snoc] at hnd
    rw [elv, pendLeaves_snoc] at hlk hmm
    simp only at hnd hlk hmm
    have hdo := Props.C16.detectOffset_enc (R := R) nl hT htr (Nat.le_refl R) hoo (by rw [hnl0]; exact hb)
      (by rw [hnl0]; simp [rootPos])
    rw [hnl0] at hdo
    have hlenrs : A.length < rs.length := by rw [ers, ← hl1]; simp
    have hLen : rs.length ≤ 65 := by
      have h1 : (A ++ none :: B).length = (G.trees.map (·.2)).length := by rw [eA]; simp
      rw [hroots.length_eq, h1]
      simp only [List.length_map, Forest.trees]
      exact treeRowsFrom_length_le 64 _
    have hidxN : (BitVec.ofNat 8 ((treeRows G.numLeaves).idxOf R)).toNat = A.length := by
      rw [BitVec.toNat_ofNat, ← lenA]; omega
    have hset : rs.set A.length nd = rs1 ++ nd :: rs2 := by
      rw [ers, ← hl1]; simp
    refine ⟨hp, nm, rs1 ++ nd :: rs2, ?_, ?_, rfl⟩
    · have hdo' : DetectOffset (E G.rows (rootPos G.numLeaves R)) nl = _ := hdo
      have := undoDelsLoop_cons_root nd (E G.rows (rootPos G.numLeaves R)) rest
        (⟨hp, nm, rs, nl, ndl, full⟩ : Pollard H) _ _ _ (by rw [hisroot, hroot]) hdo'
        (by rw [hidxN]; exact hlenrs)
      simp only [hidxN, hset] at this
      exact this
    · refine ⟨by simpa using hnl0, o1 ++ (nd :: fa ++ o2), l1 ++ (la ++ l2), ?_, hpo, ?_, hmk, ?_, ?_⟩
      · show ReprRoots hp (rs1 ++ nd :: rs2) (G.trees.map (·.2)) _ _
        rw [eA]
        exact ReprRoots.append hr1 (ReprRoots.cons (t := some t1) hRn hr2)
      · rw [List.nodup_iff_count] at hnd ⊢
        intro z
        have := hnd z
        simp only [List.count_cons, List.count_append, List.cons_append, List.count_nil] at this ⊢
        omega
      · refine (List.Perm.nodup_iff (List.Perm.map _ ?_)).1 hlk
        perm_count
      · intro e
        rw [hmm e]
        apply List.Perm.mem_iff
        perm_count

end UtreexoVerif.Proofs.PollardHeap
