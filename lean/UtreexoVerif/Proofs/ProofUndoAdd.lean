/-
  `proofUndoAddOld` is the inverse of the addition step (property C08, level 1), when the
  additions destroyed no empty root (`ToDestroy = ∅`) and the forest before the block was not
  empty.

  `F` = forest before the additions (after the deletions of the block), `G = F.addMany adds`.
-/
import UtreexoVerif.Proofs.ProofUndoLists
import UtreexoVerif.Proofs.ProofUpdateAdd

namespace UtreexoVerif.Proofs.ProofUndoAdd
open UtreexoVerif Spec Hasher Model
open UtreexoVerif.Proofs UtreexoVerif.Proofs.SpecNodes UtreexoVerif.Proofs.SpecSubs
open UtreexoVerif.Proofs.SpecPlan UtreexoVerif.Proofs.CalcComplete
open UtreexoVerif.Proofs.CalcGeo UtreexoVerif.Proofs.Movement UtreexoVerif.Proofs.CalcPlan
open UtreexoVerif.Proofs.Sorted UtreexoVerif.Proofs.MovePP UtreexoVerif.Proofs.ProofUpdateHelpers
open UtreexoVerif.Proofs.ProofUpdateLists UtreexoVerif.Proofs.ProofUpdateGnp
open UtreexoVerif.Proofs.MoveFold UtreexoVerif.Proofs.ProofUpdateRemove
open UtreexoVerif.Proofs.AddMove UtreexoVerif.Proofs.AddPP UtreexoVerif.Proofs.FinalPos
open UtreexoVerif.Proofs.ProofUpdateRemap UtreexoVerif.Proofs.ProofUpdateAdd
open UtreexoVerif.Proofs.ProofUndoLists UtreexoVerif.Proofs.StumpAddPos
open UtreexoVerif.Proofs.ChunkBridge

/-! ### bit level: the test of `pruneEdges` -/

/-- **`pruneEdges` keeps exactly the positions that exist in the previous forest** (`n ≠ 0`
leaves): `(r, o)` with `r ≤ TreeRows n` and `o < n / 2^r` -/
theorem pruneKeep_enc {n a : Nat} (hN : n + a ≤ 2 ^ 63) (hn0 : n ≠ 0) {p : Pos}
    (hp : Valid (forestRows (n + a)) p) :
    pruneKeep (BitVec.ofNat 64 a) (BitVec.ofNat 64 (n + a)) (H8 (forestRows (n + a)))
        (H8 (forestRows n)) (E (forestRows (n + a)) p) =
      decide (p.1 ≤ forestRows n ∧ p.2 < n / 2 ^ p.1) := by
  have hn : n ≤ 2 ^ 63 := by omega
  have h63 : forestRows n ≤ 63 := rows_le_63 hn
  have h63' : forestRows (n + a) ≤ 63 := rows_le_63 hN
  have hmono : forestRows n ≤ forestRows (n + a) := forestRows_mono (by omega)
  obtain ⟨hp1, hp2⟩ := hp
  have hsub : BitVec.ofNat 64 (n + a) - BitVec.ofNat 64 a = BitVec.ofNat 64 n := by
    rw [BitVec.ofNat_add, BitVec.add_sub_cancel]
  unfold pruneKeep E
  simp only [Props.C16.detectRow_enc h63' hp1 hp2, hsub]
  by_cases hr : p.1 ≤ forestRows n
  · have hgt : ¬ H8 p.1 > H8 (forestRows n) := by
      show ¬ H8 (forestRows n) < H8 p.1
      rw [BitVec.lt_def, toNat_H8 h63, toNat_H8 (by omega)]
      omega
    rw [if_neg hgt]
    have hnlt : (BitVec.ofNat 64 n).toNat < 2 ^ (forestRows n + 1) := by
      rw [N_toNat hn]
      have := SpecView.le_two_pow_forestRows n
      have : 2 ^ forestRows n < 2 ^ (forestRows n + 1) :=
        Nat.pow_lt_pow_right (by decide) (by omega)
      omega
    rw [Props.C16.maxPositionAtRow_enc h63 hr _ hnlt, N_toNat hn,
      Props.C16.startPositionAtRow_enc h63 hr, Props.C16.startPositionAtRow_enc h63' hp1]
    simp only
    -- everything on `Nat`
    have f := enc_facts hr
    have f' := enc_facts hp1
    have hE : encU (forestRows (n + a)) p.1 p.2 - encU (forestRows (n + a)) p.1 0 =
        BitVec.ofNat 64 p.2 := by
      unfold encU
      rw [enc_add (forestRows (n + a)) p.1 p.2, BitVec.ofNat_add, BitVec.add_comm,
        BitVec.add_sub_cancel]
    rw [hE]
    have hp2' : p.2 < 2 ^ 63 := by
      have : 2 ^ (forestRows (n + a) - p.1) ≤ 2 ^ 63 := Nat.pow_le_pow_right (by decide) (by omega)
      omega
    have hq : n / 2 ^ p.1 < 2 ^ (forestRows n + 1 - p.1) := by
      rw [Nat.div_lt_iff_lt_mul (Nat.two_pow_pos _), ← Nat.pow_add,
        show forestRows n + 1 - p.1 + p.1 = forestRows n + 1 by omega]
      rw [N_toNat hn] at hnlt
      exact hnlt
    have h64 : 2 ^ (forestRows n + 1) ≤ 2 ^ 64 := Nat.pow_le_pow_right (by decide) (by omega)
    have hq1 : p.1 = 0 → 1 ≤ n / 2 ^ p.1 := by
      intro h0; rw [h0]; simp; omega
    generalize n / 2 ^ p.1 = q at hq hq1 ⊢
    have hsum : Spec.enc (forestRows n) (p.1, 0) + p.2 < 2 ^ 64 := by
      rw [enc_val]
      rcases Nat.lt_or_ge (forestRows n) (forestRows (n + a)) with hlt | hge
      · have : 2 ^ (forestRows n + 1) ≤ 2 ^ 63 := Nat.pow_le_pow_right (by decide) (by omega)
        omega
      · have e : forestRows (n + a) = forestRows n := by omega
        rw [e] at hp2
        omega
    have hmaxlt : Spec.enc (forestRows n) (p.1, q) - 1 < 2 ^ 64 := by
      rw [enc_val]; omega
    -- the previous forest is not empty: the subtraction does not truncate
    have hpos : 1 ≤ Spec.enc (forestRows n) (p.1, q) := by
      rw [enc_val]
      by_cases h0 : p.1 = 0
      · have := hq1 h0; omega
      · have : 2 ^ (forestRows n + 1 - p.1) < 2 ^ (forestRows n + 1) :=
          Nat.pow_lt_pow_right (by decide) (by omega)
        omega
    unfold encU
    rw [← BitVec.ofNat_add]
    apply decide_eq_decide.2
    rw [BitVec.le_def, toNat_ofNat64_of_lt hsum, toNat_ofNat64_of_lt hmaxlt]
    rw [enc_val, enc_val] at *
    constructor
    · intro h; exact ⟨hr, by omega⟩
    · rintro ⟨_, h⟩; omega
  · have hgt : H8 p.1 > H8 (forestRows n) := by
      show H8 (forestRows n) < H8 p.1
      rw [BitVec.lt_def, toNat_H8 h63, toNat_H8 (by omega)]
      omega
    rw [if_pos hgt]
    symm
    rw [decide_eq_false_iff_not]
    exact fun h => hr h.1

section
set_option linter.unusedSectionVars false
variable {H : Type} [DecidableEq H] [Hasher H]

/-! ### specification level: where the added leaves sit when no empty root is destroyed -/

theorem addMove_nil (n k : Nat) (p : Pos) : addMove n k [] p = p := rfl

/-- with no destroyed root there is no dead level above an added slot -/
theorem new_slot_no_dead (S' : List (Option H)) (adds : List H)
    (hL : DestroySpec S' adds.length []) {T i : Nat} (_hi : i < adds.length)
    (hin : Spec.inTree (S'.length + adds.length) T 0 (S'.length + i)) :
    deadLevels (chunkAlive (S' ++ adds.map some)) T 0 (S'.length + i) = [] := by
  apply List.eq_nil_iff_forall_not_mem.2
  intro j hj
  rw [mem_deadLevels] at hj
  obtain ⟨_, hjT, hdead⟩ := hj
  simp only [Nat.zero_add, Nat.sub_zero] at hjT hdead
  have hinj := inTree_anc hin (m := j) (by omega)
  rw [Nat.zero_add] at hinj
  have hsib := inTree_sib hinj hjT
  have hle := inTree_le hsib
  have hpos := Nat.two_pow_pos j
  have hc1 : (S'.length + i) / 2 ^ j * 2 ^ j ≤ S'.length + i := Nat.div_mul_le_self _ _
  have hc2 := lt_succ_div_mul (S'.length + i) (2 ^ j) hpos
  generalize hc : (S'.length + i) / 2 ^ j = c at *
  rcases Nat.lt_or_ge S'.length ((sibIdx c + 1) * 2 ^ j) with hA | hB
  · -- the sibling chunk contains an added slot
    rw [Nat.add_mul, Nat.one_mul] at hA hle
    obtain ⟨m, hm1, hm2, hm3⟩ : ∃ m, S'.length ≤ m ∧ sibIdx c * 2 ^ j ≤ m ∧
        m < sibIdx c * 2 ^ j + 2 ^ j := by
      rcases Nat.le_total S'.length (sibIdx c * 2 ^ j) with h | h
      · exact ⟨sibIdx c * 2 ^ j, h, Nat.le_refl _, by omega⟩
      · exact ⟨S'.length, Nat.le_refl _, h, hA⟩
    obtain ⟨x, hx⟩ := slot_new S' adds hm1 (by omega)
    rw [chunkAlive_of_slot _ j _ m x hx hm2 (by rw [Nat.add_mul, Nat.one_mul]; exact hm3)] at hdead
    cases hdead
  · -- the sibling chunk is an old root
    have hsc : sibIdx c + 1 = c := by
      rw [Nat.add_mul, Nat.one_mul] at hc2 hB
      have h1 : sibIdx c * 2 ^ j < (c + 1) * 2 ^ j := by
        rw [Nat.add_mul, Nat.one_mul]; omega
      have h2 : sibIdx c < c + 1 := Nat.lt_of_mul_lt_mul_right h1
      unfold sibIdx at h2 ⊢
      by_cases hc0 : c % 2 = 0
      · rw [if_pos hc0] at h2; omega
      · rw [if_neg hc0]; omega
    have hodd : c % 2 = 1 := by
      unfold sibIdx at hsc
      split at hsc <;> omega
    have hnc : S'.length / 2 ^ j = c := by
      apply Nat.div_eq_of_lt_le
      · rw [← hsc]; exact hB
      · rw [Nat.add_mul, Nat.one_mul] at hc2 ⊢; omega
    have hbit : S'.length.testBit j = true := testBit_div_odd.mpr (by rw [hnc]; exact hodd)
    have hroot : sibIdx c = 2 * (S'.length / 2 ^ (j + 1)) := by
      rw [half_pow, hnc]; omega
    rw [chunkAlive_append_left _ _ _ _ hB, hroot] at hdead
    have hpar := inTree_le (inTree_parent hinj hjT)
    have : j ∈ ([] : List Nat) := (hL.mem j).mpr ⟨hbit, hdead, by
      rw [half_pow, hnc]; exact hpar⟩
    cases this

theorem chunk_zero_of_slot (S : List (Option H)) {b : Nat} {x : H} (h : S[b]? = some (some x)) :
    chunk S 0 b = some (.leaf x) := by
  unfold chunk
  rw [Nat.pow_zero, Nat.mul_one]
  have hlt : b < S.length := by
    rcases Nat.lt_or_ge b S.length with h' | h'
    · exact h'
    · rw [List.getElem?_eq_none h'] at h; cases h
  rw [List.drop_eq_getElem_cons hlt]
  have e : S[b] = some x := by
    rw [List.getElem?_eq_getElem hlt] at h
    injection h
  rw [e]
  rfl

section ctx
variable {F : Forest H} {adds : List H} (nz : NZ H)
  (hN : F.numLeaves + adds.length ≤ 2 ^ 63)
  (hndG : (F.addMany adds).liveLeaves.Nodup)
  (hleaf : ∀ x ∈ (F.addMany adds).liveLeaves, x ≠ (zero : H) ∧ ∀ a b : H, x ≠ ph a b)
  (hL : DestroySpec F.slots adds.length [])
include nz hN hndG hleaf hL

/-- **an added leaf sits at its insertion slot** when the additions destroy no empty root -/
theorem added_leaf_pos {x : H} (hx : x ∈ adds) :
    ∃ i, i < adds.length ∧ (F.addMany adds).posOf x = some (0, F.numLeaves + i) := by
  obtain ⟨i, hi, hslot⟩ := added_slot (F := F) hx
  refine ⟨i, hi, ?_⟩
  have hlen : (F.slots ++ adds.map some).length = F.numLeaves + adds.length := by
    simp [Forest.numLeaves]
  have hS64 : (F.slots ++ adds.map some).length < 2 ^ 64 := by rw [hlen]; omega
  have hnl : F.slots.length = F.numLeaves := rfl
  obtain ⟨T, hin⟩ := exists_tree_of_chunk (N := F.numLeaves + adds.length) (l := 0)
    (b := F.numLeaves + i) (by simp; omega)
  have hch := chunk_zero_of_slot (F.slots ++ adds.map some) hslot
  have hin2 : Spec.inTree (F.slots ++ adds.map some).length T 0 (F.numLeaves + i) := by
    rw [hlen]; exact hin
  have sG := subAtT_of_chunk (F.slots ++ adds.map some) hS64 hin2 hch
  have hpos : nodePos (F.slots ++ adds.map some) T 0 (F.numLeaves + i) = (0, F.numLeaves + i) := by
    unfold nodePos
    have hdl := new_slot_no_dead F.slots adds hL hi (by rw [hnl]; exact hin)
    rw [hnl] at hdl
    have h3 := hin.2.2
    rw [Nat.sub_zero] at h3 ⊢
    rw [hlen, ← h3]
    have := fpos_eq_liftFold (chunkAlive (F.slots ++ adds.map some)) T 0 (F.numLeaves + i)
    rw [Nat.zero_add, hdl] at this
    rw [this]
    rfl
  rw [hpos] at sG
  rw [Spec.posOf_eq_some_iff (by rw [numLeaves_G nz hN hndG hleaf]; omega) hndG]
  exact sG.node_mem

/-- an old leaf keeps its position -/
theorem old_leaf_pos' {x : H} {p : Pos} (hp : F.posOf x = some p) :
    (F.addMany adds).posOf x = some p := by
  have := old_leaf_pos nz hN hndG hleaf hL hp
  rwa [addMove_nil] at this

/-- an old node is a node of the new forest at the same position -/
theorem old_sub {h0 : Nat} {p : Pos} {t : CTree H} (s : SubAtT F h0 p t) :
    ∃ T, h0 ≤ T ∧ SubAtT (F.addMany adds) T p t := by
  obtain ⟨T, _, hu, _, g⟩ := add_sub hN hL s
  rw [addMove_nil] at g
  refine ⟨T, ?_, g⟩
  -- the old tree lies inside the new one
  rcases Nat.lt_or_ge T h0 with hlt | hge
  · exfalso
    -- the root of the old tree is a node of the new forest on row `h0 > T`
    obtain ⟨t0, ht0, _, _⟩ := s.tree
    have sr := SubAtT.root s.1 ht0
    obtain ⟨T', _, _, _, g'⟩ := add_sub hN hL sr
    rw [addMove_nil] at g'
    -- `p` lies below the old root, so both are in the same new tree
    have hsub := (s.tree)
    obtain ⟨t0', ht0', _, hm⟩ := hsub
    rw [ht0] at ht0'
    injection ht0' with e
    subst e
    have gp := g'.sub (by
      have := sr
      exact hm)
    have := (gp.unique g).1
    subst this
    have := g'.row_le
    simp only [rootPos] at this
    omega
  · exact hge

/-- an old leaf is not an added leaf -/
theorem old_not_added {x : H} (hx : x ∈ F.liveLeaves) (ha : x ∈ adds) : False :=
  old_not_new nz hN hndG hleaf hx ha

/-- a live leaf of the new forest that was not added is an old leaf -/
theorem live_old {x : H} (hx : x ∈ (F.addMany adds).liveLeaves) (ha : x ∉ adds) :
    x ∈ F.liveLeaves := by
  rw [LiveLeaves.liveLeaves_addMany_eq, List.mem_append] at hx
  rcases hx with h | h
  · exact h
  · exact absurd h ha

/-- **the canonical proof positions of the old forest are canonical proof positions of the new
forest, with the same hash** (for the cached leaves that are not additions) -/
theorem pp_undo_add {K C' : List H} {tgK tgG : List Pos} {hsK hsG : List H}
    (hcF : F.canon K = some (tgK, hsK)) (hcG : (F.addMany adds).canon C' = some (tgG, hsG))
    (hK : ∀ x, x ∈ K ↔ x ∈ C' ∧ x ∉ adds) {q : Pos} (hq : q ∈ F.proofPositions tgK) :
    q ∈ (F.addMany adds).proofPositions tgG ∧ (F.addMany adds).nodeAt q = F.nodeAt q := by
  have hndF : F.liveLeaves.Nodup := by
    have := hndG
    rw [LiveLeaves.liveLeaves_addMany_eq] at this
    exact (List.nodup_append.1 this).1
  have hdF := LeafDistinct.leafDistinct_of_nodup hndF
  have hdG := LeafDistinct.leafDistinct_of_nodup hndG
  obtain ⟨c, hcP, hcr, hcs, rfl⟩ := mem_proofPositions.1 hq
  obtain ⟨h0, tc, sc, l, hl, hlt⟩ := (pathSet_iff_leaf hcF hdF c).1 hcP
  obtain ⟨hrow, ts, _, ss⟩ := sc.parent hcr
  obtain ⟨T, hT, gc⟩ := old_sub nz hN hndG hleaf hL sc
  obtain ⟨T', _, gs⟩ := old_sub nz hN hndG hleaf hL ss
  refine ⟨?_, by rw [gs.nodeAt, ss.nodeAt]⟩
  rw [mem_proofPositions]
  refine ⟨c, ?_, ?_, ?_, rfl⟩
  · rw [pathSet_iff_leaf hcG hdG]
    exact ⟨T, tc, gc, l, ((hK l).1 hl).1, hlt⟩
  · cases hr : isRootPos (F.addMany adds).numLeaves c with
    | false => rfl
    | true => have := (gc.root_iff).1 hr; omega
  · intro hP
    obtain ⟨T2, ts2, gs2, l', hl', hlt'⟩ := (pathSet_iff_leaf hcG hdG _).1 hP
    obtain ⟨_, e⟩ := gs2.unique gs
    subst e
    apply hcs
    rw [pathSet_iff_leaf hcF hdF]
    refine ⟨h0, ts2, ss, l', (hK l').2 ⟨hl', ?_⟩, hlt'⟩
    intro ha
    exact old_not_added nz hN hndG hleaf hL (ss.leaves_live l' hlt') ha

end ctx

/-! ### the re-encoding for the previous number of rows -/

/-- the last position-moving stage of `proofUndoAddOld`: positions that exist in the previous forest
are re-encoded for its number of rows -/
theorem remapBack_enc {n a : Nat} (hN : n + a ≤ 2 ^ 63) (L : List (Pos × H))
    (hL : ∀ x ∈ L, Valid (forestRows n) x.1) :
    (if H8 (forestRows n) < H8 (forestRows (n + a)) then
        (L.map (enc2 (forestRows (n + a)))).map (fun (x : U64 × H) =>
          (x.1 - startPositionAtRow (DetectRow x.1 (H8 (forestRows (n + a)))) (H8 (forestRows (n + a))) +
            startPositionAtRow (DetectRow x.1 (H8 (forestRows (n + a)))) (H8 (forestRows n)), x.2))
      else L.map (enc2 (forestRows (n + a)))) = L.map (enc2 (forestRows n)) := by
  have hn : n ≤ 2 ^ 63 := by omega
  have h63 : forestRows n ≤ 63 := rows_le_63 hn
  have h63' : forestRows (n + a) ≤ 63 := rows_le_63 hN
  have hmono : forestRows n ≤ forestRows (n + a) := forestRows_mono (by omega)
  by_cases hlt : forestRows n < forestRows (n + a)
  · have hc : H8 (forestRows n) < H8 (forestRows (n + a)) := by
      rw [BitVec.lt_def, toNat_H8 h63, toNat_H8 h63']
      exact hlt
    rw [if_pos hc, List.map_map]
    apply List.map_congr_left
    intro x hx
    obtain ⟨hv1, hv2⟩ := hL x hx
    have hpow : 2 ^ (forestRows n - x.1.1) ≤ 2 ^ (forestRows (n + a) - x.1.1) :=
      Nat.pow_le_pow_right (by omega) (by omega)
    simp only [Function.comp, enc2]
    rw [remapFn_eq]
    unfold E
    rw [Props.C16.translatePos_enc h63' (by omega) (by omega) h63 hv1 hv2]
  · have he : forestRows (n + a) = forestRows n := by omega
    have hc : ¬ H8 (forestRows n) < H8 (forestRows (n + a)) := by
      rw [he]
      exact BitVec.lt_irrefl _
    rw [if_neg hc, he]

/-! ### `proofUndoAddOld` -/

/-- the cached leaves that are not additions, with their positions, by position -/
def keptOld (F : Forest H) (adds C' : List H) : List (Pos × H) :=
  (sortedPairs (F.addMany adds) C').filter (fun z => decide (z.2 ∉ adds))

/-- **`proofUndoAddOld` is the inverse of the addition step.**  `F`: the forest after the block's
deletions (not empty); the additions destroy no empty root (`DestroySpec … []`, i.e. `ToDestroy =
∅`); the cached proof is the canonical proof in `F.addMany adds` of a duplicate-free list `C'`
(any order).  The result is the canonical proof in `F` of the leaves of `C'` that are not
additions, targets ascending. -/
theorem proofUndoAdd_canonical {F : Forest H} {adds : List H} (nz : NZ H)
    (hN : F.numLeaves + adds.length ≤ 2 ^ 63)
    (hndG : (F.addMany adds).liveLeaves.Nodup)
    (hleaf : ∀ x ∈ (F.addMany adds).liveLeaves, x ≠ (zero : H) ∧ ∀ a b : H, x ≠ ph a b)
    (hL : DestroySpec F.slots adds.length []) (hn0 : F.numLeaves ≠ 0)
    {C' : List H} {tgG : List Pos} {hsG : List H} (hC' : C'.Nodup)
    (hcG : (F.addMany adds).canon C' = some (tgG, hsG)) :
    ∃ K tgK hsK, K.Perm (C'.filter (fun x => decide (x ∉ adds))) ∧
      F.canon K = some (tgK, hsK) ∧ tgK.Pairwise Sorted.PLt ∧
      proofUndoAddOld ⟨tgG.map (E (F.addMany adds).rows), hsG⟩ (BitVec.ofNat 64 adds.length)
          (BitVec.ofNat 64 (F.addMany adds).numLeaves) C' [] =
        .ok (⟨tgK.map (E F.rows), hsK⟩, K) := by
  have hn : F.numLeaves ≤ 2 ^ 63 := by omega
  have hnumG := numLeaves_G nz hN hndG hleaf
  have hG : (F.addMany adds).numLeaves ≤ 2 ^ 63 := by rw [hnumG]; exact hN
  have hR : (F.addMany adds).rows = forestRows (F.numLeaves + adds.length) := by
    unfold Forest.rows; rw [hnumG]
  have hndF : F.liveLeaves.Nodup := by
    have := hndG
    rw [LiveLeaves.liveLeaves_addMany_eq] at this
    exact (List.nodup_append.1 this).1
  let KP := keptOld F adds C'
  -- the members of `KP`
  have hKPmem : ∀ z ∈ KP, z.2 ∈ C' ∧ z.2 ∉ adds ∧ z.2 ∈ F.liveLeaves ∧
      z.1 = posD F z.2 ∧ ∃ h, SubAtT F h z.1 (.leaf z.2) := by
    intro z hz
    obtain ⟨hz1, hz2⟩ := List.mem_filter.1 hz
    have hz2' : z.2 ∉ adds := by simpa using hz2
    obtain ⟨hC, hpos, hG', sG⟩ := sortedPairs_mem hG hcG hC' hz1
    have hlive := live_old nz hN hndG hleaf hL (sG.leaves_live z.2 (by simp [CTree.leaves])) hz2'
    obtain ⟨p, hp⟩ := Spec.posOf_isSome_of_live (by omega) hlive
    have hpG := old_leaf_pos' nz hN hndG hleaf hL hp
    have e : z.1 = p := by rw [hpos]; unfold posD; rw [hpG]; rfl
    refine ⟨hC, hz2', hlive, ?_, ?_⟩
    · rw [e]; unfold posD; rw [hp]; rfl
    · rw [e]; exact posOf_sub hp
  -- the new cached list and its canonical proof
  have hliveK : ∀ x ∈ KP.map (·.2), x ∈ F.liveLeaves := by
    intro x hx
    obtain ⟨z, hz, rfl⟩ := List.mem_map.1 hx
    exact (hKPmem z hz).2.2.1
  obtain ⟨tgK, hsK, hcK⟩ := CanonTotal.canon_total hn hliveK
  have htgK : tgK = KP.map (·.1) := by
    rw [canon_targets_eq hcK, List.map_map]
    apply List.map_congr_left
    intro z hz
    exact (hKPmem z hz).2.2.2.1.symm
  have hsortedK : tgK.Pairwise Sorted.PLt := by
    rw [htgK]
    exact (sortedPairs_sorted hG hcG hC').sublist (List.Sublist.map _ List.filter_sublist)
  have hperm : (KP.map (·.2)).Perm (C'.filter (fun x => decide (x ∉ adds))) := by
    have h1 := ((sortedPairs_perm hG hcG hC').filter (fun z => decide (z.2 ∉ adds))).map (·.2)
    refine h1.trans ?_
    rw [List.filter_map, List.map_map]
    have e : ((fun z : Pos × H => z.2) ∘ fun x => (posD (F.addMany adds) x, x)) = id := rfl
    rw [e, List.map_id]
    exact List.Perm.of_eq (List.filter_congr (fun x _ => rfl))
  refine ⟨KP.map (·.2), tgK, hsK, hperm, hcK, hsortedK, ?_⟩
  have hsub : BitVec.ofNat 64 (F.numLeaves + adds.length) - BitVec.ofNat 64 adds.length =
      BitVec.ofNat 64 F.numLeaves := by
    rw [BitVec.ofNat_add, BitVec.add_sub_cancel]
  have hTRG : TreeRows (BitVec.ofNat 64 (F.numLeaves + adds.length)) =
      H8 (forestRows (F.numLeaves + adds.length)) := treeRows_eq' hN
  have hTRF : TreeRows (BitVec.ofNat 64 F.numLeaves) = H8 (forestRows F.numLeaves) := treeRows_eq' hn
  unfold proofUndoAddOld
  rw [hnumG, hR]
  simp only [hsub, hTRG, hTRF, List.foldl_nil, foldl_const]
  -- the abbreviations
  have hRF : F.rows = forestRows F.numLeaves := rfl
  have h63 : forestRows F.numLeaves ≤ 63 := rows_le_63 hn
  have h63' : forestRows (F.numLeaves + adds.length) ≤ 63 := rows_le_63 hN
  have tokG := canon_targetsOK hcG
  have tokK := canon_targetsOK hcK
  -- 1. the cached targets and proof with positions
  have e1 := toHashAndPos_cached hG hcG hC'
  rw [hR] at e1
  have e2 : (ProofPositions (((sortedPairs (F.addMany adds) C').map (·.1)).map
      (E (forestRows (F.numLeaves + adds.length))))
      (BitVec.ofNat 64 (F.numLeaves + adds.length)) (H8 (forestRows (F.numLeaves + adds.length)))).1 =
      ((F.addMany adds).proofPositions tgG).map (E (forestRows (F.numLeaves + adds.length))) := by
    have := proofPositions_model hG (sortedPairs_targetsOK hG hcG hC') (sortedPairs_sorted hG hcG hC')
    rw [hnumG, hR] at this
    rw [this, proofPositions_congr _ (sortedPairs_fst_mem hG hcG hC')]
  have e3 := oldProofs_eq hG hcG hC'
  rw [hR] at e3
  -- 2. `pruneEdges`
  have hnoerr : ∀ (l : HP H), ∀ x ∈ l,
      ¬ DetectRow x.1 (H8 (forestRows (F.numLeaves + adds.length))) > H8 (forestRows F.numLeaves) →
      (maxPositionAtRow (DetectRow x.1 (H8 (forestRows (F.numLeaves + adds.length))))
        (H8 (forestRows F.numLeaves)) (BitVec.ofNat 64 (F.numLeaves + adds.length) -
          BitVec.ofNat 64 adds.length)).2 = false := by
    intro l x _ hrow
    cases hm : (maxPositionAtRow (DetectRow x.1 (H8 (forestRows (F.numLeaves + adds.length))))
        (H8 (forestRows F.numLeaves)) (BitVec.ofNat 64 (F.numLeaves + adds.length) -
          BitVec.ofNat 64 adds.length)).2 with
    | false => rfl
    | true => exact absurd ((Props.C16.maxPositionAtRow_error_iff _ _ _).1 hm) hrow
  have hkeepT : (sortedPairs (F.addMany adds) C').filter
      ((fun x : U64 × H => pruneKeep (BitVec.ofNat 64 adds.length)
        (BitVec.ofNat 64 (F.numLeaves + adds.length)) (H8 (forestRows (F.numLeaves + adds.length)))
        (H8 (forestRows F.numLeaves)) x.1) ∘ enc2 (forestRows (F.numLeaves + adds.length))) = KP := by
    apply List.filter_congr
    intro z hz
    obtain ⟨hC, hpos, hG', sG⟩ := sortedPairs_mem hG hcG hC' hz
    have hv := sG.inF.valid
    rw [show forestRows (F.addMany adds).numLeaves = forestRows (F.numLeaves + adds.length) by
      rw [hnumG]] at hv
    simp only [Function.comp, enc2]
    rw [pruneKeep_enc hN hn0 hv]
    apply decide_eq_decide.2
    constructor
    · rintro ⟨h1, h2⟩ ha
      obtain ⟨i, hi, hp⟩ := added_leaf_pos nz hN hndG hleaf hL ha
      rw [hpos] at h1 h2
      unfold posD at h1 h2
      rw [hp] at h1 h2
      simp only [Option.getD_some, Nat.pow_zero, Nat.div_one] at h2
      omega
    · intro ha
      have hlive := live_old nz hN hndG hleaf hL (sG.leaves_live z.2 (by simp [CTree.leaves])) ha
      obtain ⟨p, hp⟩ := Spec.posOf_isSome_of_live (by omega) hlive
      have hpG := old_leaf_pos' nz hN hndG hleaf hL hp
      have e : z.1 = p := by rw [hpos]; unfold posD; rw [hpG]; rfl
      obtain ⟨h0, s0⟩ := posOf_sub hp
      have := s0.inF
      rw [e]
      exact ⟨this.1, by rw [← Nat.shiftRight_eq_div_pow]; exact this.2⟩
  -- the kept proof entries
  let inPrev : Pos → Bool := fun q =>
    decide (q.1 ≤ forestRows F.numLeaves ∧ q.2 < F.numLeaves / 2 ^ q.1)
  let PP1 := (ppPairs (F.addMany adds) tgG).filter (fun z => inPrev z.1)
  have hkeepP : (ppPairs (F.addMany adds) tgG).filter
      ((fun x : U64 × H => pruneKeep (BitVec.ofNat 64 adds.length)
        (BitVec.ofNat 64 (F.numLeaves + adds.length)) (H8 (forestRows (F.numLeaves + adds.length)))
        (H8 (forestRows F.numLeaves)) x.1) ∘ enc2 (forestRows (F.numLeaves + adds.length))) = PP1 := by
    apply List.filter_congr
    intro z hz
    unfold ppPairs at hz
    obtain ⟨q, hq, rfl⟩ := List.mem_map.1 hz
    have hv := pp_valid tokG hq
    rw [hR] at hv
    simp only [Function.comp, enc2]
    rw [pruneKeep_enc hN hn0 hv]
  -- 3. validity in the previous geometry
  have hvalid : ∀ q : Pos, inPrev q = true → Valid (forestRows F.numLeaves) q := by
    intro q hq
    simp only [inPrev, decide_eq_true_eq] at hq
    have : InF F.numLeaves q := ⟨hq.1, by rw [Nat.shiftRight_eq_div_pow]; exact hq.2⟩
    exact this.valid
  have hKPvalid : ∀ z ∈ KP, Valid (forestRows F.numLeaves) z.1 := by
    intro z hz
    obtain ⟨_, _, _, _, h0, s0⟩ := hKPmem z hz
    exact s0.inF.valid
  have hPP1valid : ∀ z ∈ PP1, Valid (forestRows F.numLeaves) z.1 := by
    intro z hz
    exact hvalid _ (List.mem_filter.1 hz).2
  have e5a := remapBack_enc hN KP hKPvalid
  have e5b := remapBack_enc hN PP1 hPP1valid
  -- 4. the needed positions
  have e6 : (ProofPositions ((KP.map (·.1)).map (E (forestRows F.numLeaves)))
      (BitVec.ofNat 64 F.numLeaves) (H8 (forestRows F.numLeaves))).1 =
      (F.proofPositions tgK).map (E (forestRows F.numLeaves)) := by
    have := proofPositions_model hn tokK hsortedK
    rw [htgK] at this ⊢
    exact this
  -- 5. the extraction
  have hPP1sorted : (PP1.map (enc2 (forestRows F.numLeaves))).Pairwise (fun a b => a.1 < b.1) := by
    rw [List.pairwise_map]
    have h1 : (ppPairs (F.addMany adds) tgG).Pairwise (fun a b => Sorted.PLt a.1 b.1) := by
      unfold ppPairs
      rw [List.pairwise_map]
      exact proofPositions_sorted _ _
    apply List.Pairwise.imp_of_mem _ (h1.sublist List.filter_sublist)
    intro a b ha hb hab
    exact (E_lt_iff h63 (hPP1valid a ha) (hPP1valid b hb)).2 hab
  have e7 : subsetHP (PP1.map (enc2 (forestRows F.numLeaves)))
      ((F.proofPositions tgK).map (E (forestRows F.numLeaves))) =
      (ppPairs F tgK).map (enc2 (forestRows F.numLeaves)) := by
    rw [subsetHP_eq_filterMap _ _ (pairwise_le_of_lt hPP1sorted) (by
      have := pp_keys hn tokK
      exact this), List.filterMap_map]
    unfold ppPairs
    rw [List.map_map]
    conv => rhs; rw [← List.filterMap_eq_map]
    apply filterMap_congr'
    intro q hq
    simp only [Function.comp]
    have hKiff : ∀ x, x ∈ KP.map (·.2) ↔ x ∈ C' ∧ x ∉ adds := by
      intro x
      constructor
      · intro hx
        obtain ⟨z, hz, rfl⟩ := List.mem_map.1 hx
        exact ⟨(hKPmem z hz).1, (hKPmem z hz).2.1⟩
      · rintro ⟨h1, h2⟩
        have := mem_sortedPairs hG hcG hC' h1
        exact List.mem_map.2 ⟨_, List.mem_filter.2 ⟨this, by simpa using h2⟩, rfl⟩
    obtain ⟨hqG, hhash⟩ := pp_undo_add nz hN hndG hleaf hL hcK hcG hKiff hq
    obtain ⟨h0, t0, s0⟩ := pp_node tokK hq
    have hin : (E (forestRows F.numLeaves) q, ((F.addMany adds).nodeAt q).getD zero) ∈
        PP1.map (enc2 (forestRows F.numLeaves)) := by
      refine List.mem_map.2 ⟨(q, ((F.addMany adds).nodeAt q).getD zero), ?_, rfl⟩
      refine List.mem_filter.2 ⟨List.mem_map.2 ⟨q, hqG, rfl⟩, ?_⟩
      simp only [inPrev, decide_eq_true_eq]
      have := s0.inF
      exact ⟨this.1, by rw [← Nat.shiftRight_eq_div_pow]; exact this.2⟩
    rw [lookupHP_of_mem hPP1sorted hin, hhash]
    rfl
  simp only [e1, ok_bind', positions_enc2, e2, e3, pruneEdges_eq _ _ _ _ _ _ (hnoerr _),
    List.nil_append, List.filter_map, hkeepT, hkeepP, e5a, e5b, e6, e7]
  show Out.ok _ = Out.ok _
  congr 2
  · congr 1
    · rw [htgK]; rfl
    · rw [(canon_spec hcK).2.2.1]
      simp [HP.hashes, ppPairs, enc2]
  · simp only [HP.hashes, List.map_map]
    rfl

end
end UtreexoVerif.Proofs.ProofUndoAdd
