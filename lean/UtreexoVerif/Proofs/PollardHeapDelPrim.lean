/-
  Pointer forest, heap model: the primitives of `deleteSingle` on heaps with known local shape:
  `transferNiece`, `transferAunt`, `delNode` (execution + the resulting heap, node by node).
-/
import UtreexoVerif.Proofs.PollardHeapDelHash
set_option linter.unusedSectionVars false
set_option linter.unusedVariables false
set_option linter.unusedSimpArgs false

namespace UtreexoVerif.Proofs.PollardHeap
open UtreexoVerif UtreexoVerif.Model UtreexoVerif.Model.PollardHeap UtreexoVerif.Spec Hasher
open UtreexoVerif.Model.PollardAbs

variable {H : Type} [DecidableEq H] [Hasher H]

/-! ### field setters -/

def setL (hp : Heap H) (i : Nat) (v : Ptr) : Heap H := hp.modify i (fun x => { x with lNiece := v })
def setR (hp : Heap H) (i : Nat) (v : Ptr) : Heap H := hp.modify i (fun x => { x with rNiece := v })
def setA (hp : Heap H) (i : Nat) (v : Ptr) : Heap H := hp.modify i (fun x => { x with aunt := v })

theorem getElem?_setL (hp : Heap H) (i j : Nat) (v : Ptr) :
    (setL hp i v)[j]? = if i = j then (hp[j]?).map (fun x => { x with lNiece := v }) else hp[j]? := by
  unfold setL; rw [Array.getElem?_modify]
theorem getElem?_setR (hp : Heap H) (i j : Nat) (v : Ptr) :
    (setR hp i v)[j]? = if i = j then (hp[j]?).map (fun x => { x with rNiece := v }) else hp[j]? := by
  unfold setR; rw [Array.getElem?_modify]
theorem getElem?_setA (hp : Heap H) (i j : Nat) (v : Ptr) :
    (setA hp i v)[j]? = if i = j then (hp[j]?).map (fun x => { x with aunt := v }) else hp[j]? := by
  unfold setA; rw [Array.getElem?_modify]
@[simp] theorem size_setL (hp : Heap H) (i : Nat) (v : Ptr) : (setL hp i v).size = hp.size := by
  unfold setL; simp
@[simp] theorem size_setR (hp : Heap H) (i : Nat) (v : Ptr) : (setR hp i v).size = hp.size := by
  unfold setR; simp
@[simp] theorem size_setA (hp : Heap H) (i : Nat) (v : Ptr) : (setA hp i v).size = hp.size := by
  unfold setA; simp

/-- the first niece `updateAunt` looks at already points back -/
def Settled (hp : Heap H) (n : Nat) : Prop :=
  ∃ nn, hp[n]? = some nn ∧
    (∀ l, nn.lNiece = some l → ∃ ln, hp[l]? = some ln ∧ ln.aunt = some n) ∧
    (nn.lNiece = none → ∀ r, nn.rNiece = some r → ∃ rn, hp[r]? = some rn ∧ rn.aunt = some n)

theorem updateAunt'_settled (n : Nat) (s : Pollard H) (h : Settled s.heap n) :
    updateAunt' (some n) s = (.ok (), s) := by
  obtain ⟨nn, h1, h2, h3⟩ := h
  unfold updateAunt'
  simp only [bind_apply, heapSize_apply]
  exact updateAunt_settled s.heap.size n nn s h1 h2 h3

theorem updateAunt'_unsettled (n : Nat) (s : Pollard H) (h : Unsettled s.heap n) :
    updateAunt' (some n) s = (.ok (), { s with heap := setAuntKids s.heap n }) := by
  obtain ⟨k, hk⟩ : ∃ k, s.heap.size = k + 1 := by
    obtain ⟨nn, hn, _⟩ := h
    exact ⟨s.heap.size - 1, by have := lt_of_get hn; omega⟩
  unfold updateAunt'
  simp only [bind_apply, heapSize_apply, hk]
  exact updateAunt_unsettled k n s h

/-! ### `transferNiece` -/

/-- the four assignments of `transferNiece(a, b)` -/
def tnRaw (hp : Heap H) (a b : Nat) (bn : PolNode H) : Heap H :=
  (((hp.modify a (fun x => { x with lNiece := bn.lNiece })).modify a
    (fun x => { x with rNiece := bn.rNiece })).modify b
    (fun x => { x with lNiece := none })).modify b (fun x => { x with rNiece := none })

theorem getElem?_tnRaw {hp : Heap H} {a b : Nat} {an bn : PolNode H} (hab : a ≠ b)
    (ha : hp[a]? = some an) (hb : hp[b]? = some bn) (j : Nat) :
    (tnRaw hp a b bn)[j]? =
      if j = a then some { an with lNiece := bn.lNiece, rNiece := bn.rNiece }
      else if j = b then some { bn with lNiece := none, rNiece := none }
      else hp[j]? := by
  unfold tnRaw
  simp only [Array.getElem?_modify]
  by_cases h1 : j = a
  · subst h1; simp [hab, Ne.symm hab, ha]
  · by_cases h2 : j = b
    · subst h2; simp [hab, Ne.symm hab, hb]
    · simp [h1, h2, Ne.symm h1, Ne.symm h2]

@[simp] theorem size_tnRaw (hp : Heap H) (a b : Nat) (bn : PolNode H) :
    (tnRaw hp a b bn).size = hp.size := by
  unfold tnRaw; simp

/-- the heap after `transferNiece(a, b)` -/
def tnHeap (hp : Heap H) (a b : Nat) (bn : PolNode H) : Heap H := setAuntKids (tnRaw hp a b bn) a

@[simp] theorem size_tnHeap (hp : Heap H) (a b : Nat) (bn : PolNode H) :
    (tnHeap hp a b bn).size = hp.size := by
  unfold tnHeap; simp

theorem transferNiece_exec (s : Pollard H) (a b : Nat) (bn : PolNode H)
    (hb : s.heap[b]? = some bn) (u : Unsettled (tnRaw s.heap a b bn) a) :
    transferNiece (some a) (some b) s = (.ok (), { s with heap := tnHeap s.heap a b bn }) := by
  have e := updateAunt'_unsettled a { s with heap := tnRaw s.heap a b bn } u
  unfold transferNiece
  simp only [bind_apply, deref_some, node_apply, hb, setNode_apply]
  unfold tnRaw at e
  simp only [] at e
  rw [e]
  rfl

theorem getElem?_tnHeap {hp : Heap H} {a b : Nat} {an bn : PolNode H} (hab : a ≠ b)
    (ha : hp[a]? = some an) (hb : hp[b]? = some bn)
    (kB : ∀ j, isKid bn j → j ≠ a ∧ j ≠ b) (j : Nat) :
    (tnHeap hp a b bn)[j]? =
      if j = a then some { an with lNiece := bn.lNiece, rNiece := bn.rNiece }
      else if j = b then some { bn with lNiece := none, rNiece := none }
      else if isKid bn j then (hp[j]?).map (fun x => { x with aunt := some a })
      else hp[j]? := by
  have eA := getElem?_tnRaw hab ha hb
  have kk : ∀ j, kidOf (tnRaw hp a b bn) a j = decide (isKid bn j) := by
    intro j
    rw [kidOf_eq (x := { an with lNiece := bn.lNiece, rNiece := bn.rNiece }) (by rw [eA]; simp)]
    simp [isKid]
  unfold tnHeap
  rw [getElem?_setAuntKids, kk, eA]
  by_cases h1 : j = a
  · subst h1
    have : ¬ isKid bn j := fun k => (kB j k).1 rfl
    simp [this]
  · by_cases h2 : j = b
    · subst h2
      have : ¬ isKid bn j := fun k => (kB j k).2 rfl
      simp [this, h1]
    · by_cases h3 : isKid bn j <;> simp [h1, h2, h3]

/-! ### `transferAunt` (both nodes have an aunt) -/

/-- forget niece `a` -/
def clearK (x : PolNode H) (a : Nat) : PolNode H :=
  if x.lNiece = some a then { x with lNiece := none } else { x with rNiece := none }

/-- niece `b` becomes `a` -/
def replK (x : PolNode H) (b a : Nat) : PolNode H :=
  if x.lNiece = some b then { x with lNiece := some a } else { x with rNiece := some a }

/-- the heap after `transferAunt(a, b)`: `aa` = aunt of `a`, `ba` = aunt of `b` -/
def taHeap (hp : Heap H) (a aa b ba : Nat) (aan ban : PolNode H) : Heap H :=
  let hp1 := if aan.lNiece = some a then hp.modify aa (fun x => { x with lNiece := none })
    else hp.modify aa (fun x => { x with rNiece := none })
  let hp2 := if ban.lNiece = some b then hp1.modify ba (fun x => { x with lNiece := some a })
    else hp1.modify ba (fun x => { x with rNiece := some a })
  hp2.modify a (fun x => { x with aunt := some ba })

@[simp] theorem size_taHeap (hp : Heap H) (a aa b ba : Nat) (aan ban : PolNode H) :
    (taHeap hp a aa b ba aan ban).size = hp.size := by
  unfold taHeap; simp only []; split <;> split <;> simp

theorem getElem?_taHeap {hp : Heap H} {a aa b ba : Nat} {an aan ban : PolNode H}
    (h1 : a ≠ aa) (h2 : a ≠ ba) (h3 : aa ≠ ba)
    (ha : hp[a]? = some an) (haa : hp[aa]? = some aan) (hba : hp[ba]? = some ban) (j : Nat) :
    (taHeap hp a aa b ba aan ban)[j]? =
      if j = a then some { an with aunt := some ba }
      else if j = aa then some (clearK aan a)
      else if j = ba then some (replK ban b a)
      else hp[j]? := by
  unfold taHeap clearK replK
  simp only []
  by_cases c1 : aan.lNiece = some a <;> by_cases c2 : ban.lNiece = some b <;>
    simp only [c1, c2, if_true, if_false, Array.getElem?_modify] <;>
    (by_cases e1 : j = a
     · subst e1; simp [h1, h2, Ne.symm h1, Ne.symm h2, ha]
     · by_cases e2 : j = aa
       · subst e2; simp [e1, Ne.symm e1, h3, Ne.symm h3, haa]
       · by_cases e3 : j = ba
         · subst e3; simp [e1, Ne.symm e1, e2, Ne.symm e2, hba]
         · simp [e1, e2, e3, Ne.symm e1, Ne.symm e2, Ne.symm e3])

theorem transferAunt_exec (s : Pollard H) (a aa b ba : Nat) (an aan bn ban : PolNode H)
    (ha : s.heap[a]? = some an) (haa : s.heap[aa]? = some aan)
    (hb : s.heap[b]? = some bn) (hba : s.heap[ba]? = some ban)
    (aunt_a : an.aunt = some aa) (aunt_b : bn.aunt = some ba)
    (ka : isKid aan a) (kb : isKid ban b)
    (d1 : a ≠ aa) (d2 : a ≠ b) (d3 : a ≠ ba) (d4 : aa ≠ b) (d5 : aa ≠ ba) (d6 : b ≠ ba)
    (hset : Settled (taHeap s.heap a aa b ba aan ban) ba) :
    transferAunt (some a) (some b) s =
      (.ok (), { s with heap := taHeap s.heap a aa b ba aan ban }) := by
  have eU := updateAunt'_settled ba { s with heap := taHeap s.heap a aa b ba aan ban } hset
  unfold taHeap at eU ⊢
  simp only [] at eU ⊢
  by_cases c1 : aan.lNiece = some a
  · by_cases c2 : ban.lNiece = some b
    · simp only [c1, c2, if_true] at eU ⊢
      unfold transferAunt
      simp only [bind_apply, deref_some, node_apply, ha, aunt_a, haa, c1, if_true, setNode_apply,
        Array.getElem?_modify, d4, if_false, hb, aunt_b, d5, hba, c2, Ne.symm d6, Ne.symm d3,
        Ne.symm d1, Option.map_some]
      exact eU
    · have c2' : ban.rNiece = some b := by rcases kb with k | k; exact absurd k c2; exact k
      simp only [c1, c2, if_true, if_false] at eU ⊢
      unfold transferAunt
      simp only [bind_apply, deref_some, node_apply, ha, aunt_a, haa, c1, if_true, setNode_apply,
        Array.getElem?_modify, d4, if_false, hb, aunt_b, d5, hba, c2, c2', Ne.symm d6, Ne.symm d3,
        Ne.symm d1, Option.map_some]
      exact eU
  · have c1' : aan.rNiece = some a := by rcases ka with k | k; exact absurd k c1; exact k
    by_cases c2 : ban.lNiece = some b
    · simp only [c1, c2, if_true, if_false] at eU ⊢
      unfold transferAunt
      simp only [bind_apply, deref_some, node_apply, ha, aunt_a, haa, c1, c1', if_true, setNode_apply,
        Array.getElem?_modify, d4, if_false, hb, aunt_b, d5, hba, c2, Ne.symm d6, Ne.symm d3,
        Ne.symm d1, Option.map_some]
      exact eU
    · have c2' : ban.rNiece = some b := by rcases kb with k | k; exact absurd k c2; exact k
      simp only [c1, c2, if_true, if_false] at eU ⊢
      unfold transferAunt
      simp only [bind_apply, deref_some, node_apply, ha, aunt_a, haa, c1, c1', if_true, setNode_apply,
        Array.getElem?_modify, d4, if_false, hb, aunt_b, d5, hba, c2, c2', Ne.symm d6, Ne.symm d3,
        Ne.symm d1, Option.map_some]
      exact eU

/-! ### `delNode` (only a frame: the node and its nieces become garbage) -/

/-- the heap after `delNode(i)` when the aunt of `i` (if any) does not point to `i` -/
def dnHeap (hp : Heap H) (i : Nat) (n : PolNode H) : Heap H :=
  let hp1 := hp.modify i (fun x => { x with aunt := none })
  let hp2 := match n.lNiece with
    | some l => hp1.modify l (fun x => { x with aunt := none })
    | none => hp1
  let hp3 := hp2.modify i (fun x => { x with lNiece := none })
  let hp4 := match n.rNiece with
    | some r => hp3.modify r (fun x => { x with aunt := none })
    | none => hp3
  hp4.modify i (fun x => { x with rNiece := none })

@[simp] theorem size_dnHeap (hp : Heap H) (i : Nat) (n : PolNode H) :
    (dnHeap hp i n).size = hp.size := by
  unfold dnHeap; simp only []
  cases n.lNiece <;> cases n.rNiece <;> simp

theorem getElem?_dnHeap_frame (hp : Heap H) (i : Nat) (n : PolNode H) (j : Nat) (hj : j ≠ i)
    (hk : ¬ isKid n j) : (dnHeap hp i n)[j]? = hp[j]? := by
  have kl : n.lNiece ≠ some j := fun h => hk (Or.inl h)
  have kr : n.rNiece ≠ some j := fun h => hk (Or.inr h)
  unfold dnHeap; simp only []
  cases hL : n.lNiece with
  | none =>
    cases hR : n.rNiece with
    | none => simp [Array.getElem?_modify, Ne.symm hj]
    | some r =>
      have : r ≠ j := fun e => kr (by rw [hR, e])
      simp [Array.getElem?_modify, Ne.symm hj, this]
  | some l =>
    have hl : l ≠ j := fun e => kl (by rw [hL, e])
    cases hR : n.rNiece with
    | none => simp [Array.getElem?_modify, Ne.symm hj, hl]
    | some r =>
      have : r ≠ j := fun e => kr (by rw [hR, e])
      simp [Array.getElem?_modify, Ne.symm hj, this, hl]

theorem delNode_exec (s : Pollard H) (i : Nat) (n : PolNode H) (hi : s.heap[i]? = some n)
    (haunt : ∀ a, n.aunt = some a → ∃ an, s.heap[a]? = some an ∧ ¬ isKid an i)
    (hself : ¬ isKid n i) :
    delNode (some i) s = (.ok (), { s with heap := dnHeap s.heap i n }) := by
  have kl : n.lNiece ≠ some i := fun h => hself (Or.inl h)
  have kr : n.rNiece ≠ some i := fun h => hself (Or.inr h)
  unfold dnHeap delNode
  simp only []
  cases hA : n.aunt with
  | none =>
    cases hL : n.lNiece with
    | none =>
      cases hR : n.rNiece with
      | none => simp [hi, hA, hL, hR, Array.getElem?_modify]
      | some r =>
        have : r ≠ i := fun e => kr (by rw [hR, e])
        simp [hi, hA, hL, hR, Array.getElem?_modify, this]
    | some l =>
      have hl : l ≠ i := fun e => kl (by rw [hL, e])
      cases hR : n.rNiece with
      | none => simp [hi, hA, hL, hR, Array.getElem?_modify, hl]
      | some r =>
        have : r ≠ i := fun e => kr (by rw [hR, e])
        simp [hi, hA, hL, hR, Array.getElem?_modify, this, hl]
  | some a =>
    obtain ⟨an, e1, e2⟩ := haunt a hA
    have c1 : an.rNiece ≠ some i := fun h => e2 (Or.inr h)
    have c2 : an.lNiece ≠ some i := fun h => e2 (Or.inl h)
    cases hL : n.lNiece with
    | none =>
      cases hR : n.rNiece with
      | none => simp [hi, hA, hL, hR, Array.getElem?_modify, e1, c1, c2]
      | some r =>
        have : r ≠ i := fun e => kr (by rw [hR, e])
        simp [hi, hA, hL, hR, Array.getElem?_modify, this, e1, c1, c2]
    | some l =>
      have hl : l ≠ i := fun e => kl (by rw [hL, e])
      cases hR : n.rNiece with
      | none => simp [hi, hA, hL, hR, Array.getElem?_modify, hl, e1, c1, c2]
      | some r =>
        have : r ≠ i := fun e => kr (by rw [hR, e])
        simp [hi, hA, hL, hR, Array.getElem?_modify, this, hl, e1, c1, c2]

theorem getElem?_dnHeap_self (hp : Heap H) (i : Nat) (n : PolNode H) (hi : hp[i]? = some n)
    (hself : ¬ isKid n i) :
    (dnHeap hp i n)[i]? = some { n with aunt := none, lNiece := none, rNiece := none } := by
  have kl : n.lNiece ≠ some i := fun h => hself (Or.inl h)
  have kr : n.rNiece ≠ some i := fun h => hself (Or.inr h)
  unfold dnHeap; simp only []
  cases hL : n.lNiece with
  | none =>
    cases hR : n.rNiece with
    | none => simp [Array.getElem?_modify, hi]
    | some r =>
      have : r ≠ i := fun e => kr (by rw [hR, e])
      simp [Array.getElem?_modify, hi, this]
  | some l =>
    have hl : l ≠ i := fun e => kl (by rw [hL, e])
    cases hR : n.rNiece with
    | none => simp [Array.getElem?_modify, hi, hl]
    | some r =>
      have : r ≠ i := fun e => kr (by rw [hR, e])
      simp [Array.getElem?_modify, hi, this, hl]

/-! ### re-homing with a new top node -/

/-- the leaves of a sub-tree whose top node moved to `n'` -/
def relabelTop (t : CTree H) (n' : Nat) (lv : List (H × Nat)) : List (H × Nat) :=
  match t with
  | .leaf x => [(x, n')]
  | .node _ _ => lv

/-- `Sub.rehome` when the top node is replaced as well (`*toNode = *fromNode`) -/
theorem Sub.rehome' {hp hp' : Heap H} {n n' h h' : Nat} {t : CTree H} {fp : List Nat}
    {lv : List (H × Nat)} (hs : Sub hp n h t fp lv) (nd : fp.Nodup)
    (hn : ∀ nn, hp[n]? = some nn → ∃ nn', hp'[n']? = some nn' ∧ nn'.data = nn.data)
    (hh : ∀ hn, hp[h]? = some hn → ∃ hn', hp'[h']? = some hn' ∧
      hn'.lNiece = hn.lNiece ∧ hn'.rNiece = hn.rNiece)
    (htop : ∀ hn i old, hp[h]? = some hn → (hn.lNiece = some i ∨ hn.rNiece = some i) →
      hp[i]? = some old → hp'[i]? = some { old with aunt := some h' })
    (hrest : ∀ hn i, hp[h]? = some hn → i ∈ fp → hn.lNiece ≠ some i → hn.rNiece ≠ some i →
      hp'[i]? = hp[i]?) : Sub hp' n' h' t fp (relabelTop t n' lv) := by
  cases hs with
  | leaf h1 h2 h3 h4 h5 =>
    obtain ⟨nn', e1, e2⟩ := hn _ h1
    obtain ⟨hn', e3, e4, e5⟩ := hh _ h3
    exact Sub.leaf e1 (e2.trans h2) e3 (e4.trans h4) (e5.trans h5)
  | node h1 h2 h3 h4 h5 h6 h7 h8 h9 sa sb =>
    rename_i l r nn hn0 ln rn a b fa fb la lb
    obtain ⟨nn', e1, e2⟩ := hn _ h1
    obtain ⟨hn', e3, e4, e5⟩ := hh _ h3
    have el := htop hn0 l ln h3 (Or.inl h4) h6
    have er := htop hn0 r rn h3 (Or.inr h5) h7
    simp only [List.nodup_cons, List.mem_cons, List.mem_append, not_or, List.nodup_append] at nd
    obtain ⟨⟨hlr, hlfa, hlfb⟩, ⟨hrfa, hrfb⟩, nda, ndb, hdisj⟩ := nd
    have hother : ∀ i, i ∈ fa ∨ i ∈ fb → hp'[i]? = hp[i]? := by
      intro i hi
      apply hrest hn0 i h3 (by simp; rcases hi with hi | hi <;> simp [hi])
      · rw [h4]; intro e; cases e; rcases hi with hi | hi
        · exact hlfa hi
        · exact hlfb hi
      · rw [h5]; intro e; cases e; rcases hi with hi | hi
        · exact hrfa hi
        · exact hrfb hi
    refine Sub.node e1 (e2.trans h2) e3 (e4.trans h4) (e5.trans h5) el er rfl rfl ?_ ?_
    · apply sa.frame
      · intro x hx; rw [h6] at hx; cases hx; exact ⟨_, el, rfl⟩
      · intro x hx; rw [h7] at hx; cases hx; exact ⟨_, er, rfl, rfl⟩
      · intro i hi; exact hother i (Or.inl hi)
    · apply sb.frame
      · intro x hx; rw [h7] at hx; cases hx; exact ⟨_, er, rfl⟩
      · intro x hx; rw [h6] at hx; cases hx; exact ⟨_, el, rfl, rfl⟩
      · intro i hi; exact hother i (Or.inr hi)

end UtreexoVerif.Proofs.PollardHeap
