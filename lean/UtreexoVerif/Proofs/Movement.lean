/-
  Deletion movement on the specification (property C07, level 1).

  `F' = F.delLeaves D`.  Every tree of `F'` is `delT D` of the tree of `F` on the same row.  A
  node of `F` at position `p` whose subtree keeps a survivor is found in `F'` at `movePos F D p`:
  the position obtained from `p` by deleting, for every ancestor level at which the SIBLING
  subtree has no survivor, the corresponding path bit, moving up one row each time
  (`movePos_eq_liftFold`: the bottom-up reading, one `calcNextPosition` step per dead sibling;
  `movePosT`: the top-down reading, a walk from the root of the tree that skips the levels
  whose sibling died).

  * `move_sub`: the subtree at `p` (after the deletion) is the subtree of `F'` at `movePos F D p`;
  * `move_surj`: every node of `F'` arises this way, from a node that is a root or has a
    surviving sibling;
  * `move_posOf`, `move_nodeAt`: the statements on `posOf` / `nodeAt` (`hashAfter`);
  * `movePos_root`, `movePos_dead`, `movePos_alive`: the local description (root / dead sibling /
    surviving sibling).
-/
import UtreexoVerif.Proofs.CalcComplete
import UtreexoVerif.Proofs.FinalPos
import UtreexoVerif.Proofs.LeafDistinct
import UtreexoVerif.Proofs.SpecUndo
import UtreexoVerif.Proofs.LiveLeaves

namespace UtreexoVerif.Proofs.Movement
open UtreexoVerif Spec Hasher
open UtreexoVerif.Proofs UtreexoVerif.Proofs.SpecNodes UtreexoVerif.Proofs.SpecSubs
open UtreexoVerif.Proofs.SpecPlan UtreexoVerif.Proofs.CalcComplete UtreexoVerif.Proofs.FinalPos
open UtreexoVerif.Proofs.CalcGeo

section
set_option linter.unusedSectionVars false
variable {H : Type} [DecidableEq H] [Hasher H]

/-! ### `fpos`, read from the top -/

/-- the position of the child chunk `(lv, c)` of the chunk whose collapsed root sits at `top` -/
def childTop (al : Nat → Nat → Bool) (top : Pos) (lv c : Nat) : Pos :=
  if al lv (sibIdx c) then (top.1 - 1, 2 * top.2 + c % 2) else top

/-- the walk from `top` down to chunk `(l, b)`, `k + 1` levels below, starts with the step to
the child chunk on level `l + k` -/
theorem fpos_top (al : Nat → Nat → Bool) (top : Pos) : ∀ k l b,
    fpos al top (k + 1) l b = fpos al (childTop al top (l + k) (b / 2 ^ k)) k l b := by
  intro k
  induction k with
  | zero => intro l b; simp [fpos, childTop]
  | succ k ih =>
    intro l b
    have e : b / 2 / 2 ^ k = b / 2 ^ (k + 1) := by
      rw [Nat.div_div_eq_div_mul, ← Nat.pow_succ']
    have h1 : fpos al top (k + 1 + 1) l b =
        (let p := fpos al top (k + 1) (l + 1) (b / 2)
         if al l (sibIdx b) then (p.1 - 1, 2 * p.2 + b % 2) else p) := rfl
    have h2 : fpos al (childTop al top (l + (k + 1)) (b / 2 ^ (k + 1))) (k + 1) l b =
        (let p := fpos al (childTop al top (l + (k + 1)) (b / 2 ^ (k + 1))) k (l + 1) (b / 2)
         if al l (sibIdx b) then (p.1 - 1, 2 * p.2 + b % 2) else p) := rfl
    rw [h1, h2, ih (l + 1) (b / 2), e, show l + 1 + k = l + (k + 1) by omega]

/-- `fpos` only looks at `al` on the siblings of the ancestors -/
theorem fpos_congr {al al' : Nat → Nat → Bool} (top : Pos) : ∀ k l b,
    (∀ j, j < k → al (l + j) (sibIdx (b / 2 ^ j)) = al' (l + j) (sibIdx (b / 2 ^ j))) →
    fpos al top k l b = fpos al' top k l b := by
  intro k
  induction k with
  | zero => intro l b _; rfl
  | succ k ih =>
    intro l b h
    have h0 := h 0 (by omega)
    simp only [Nat.add_zero, Nat.pow_zero, Nat.div_one] at h0
    have hrec := ih (l + 1) (b / 2) (by
      intro j hj
      have := h (j + 1) (by omega)
      have e : b / 2 / 2 ^ j = b / 2 ^ (j + 1) := by
        rw [Nat.div_div_eq_div_mul, ← Nat.pow_succ']
      rw [e, show l + 1 + j = l + (j + 1) by omega]
      exact this)
    simp only [fpos, h0, hrec]

/-! ### movement inside one collapsed tree -/

/-- nothing survives below a node iff all its leaves are deleted -/
theorem delT_eq_none_iff' (L : List H) : ∀ t : CTree H, delT L t = none ↔ ∀ l ∈ t.leaves, l ∈ L := by
  intro t
  induction t with
  | leaf h =>
    simp only [delT, CTree.leaves, List.mem_singleton, forall_eq]
    split <;> simp_all
  | node a b iha ihb =>
    simp only [delT, CTree.leaves, List.mem_append]
    constructor
    · intro h
      cases ha : delT L a <;> cases hb : delT L b <;> rw [ha, hb] at h <;> simp [join] at h
      intro l hl
      rcases hl with hl | hl
      · exact (iha.1 ha) l hl
      · exact (ihb.1 hb) l hl
    · intro h
      rw [iha.2 (fun l hl => h l (Or.inl hl)), ihb.2 (fun l hl => h l (Or.inr hl))]
      rfl

/-- the survivors are the leaves that are not deleted -/
theorem delT_leaves_iff (L : List H) : ∀ (t t' : CTree H), delT L t = some t' →
    ∀ l, l ∈ t'.leaves ↔ l ∈ t.leaves ∧ l ∉ L := by
  intro t
  induction t with
  | leaf h =>
    intro t' ht' l
    simp only [delT] at ht'
    split at ht'
    · cases ht'
    · rename_i hn
      injection ht' with e
      subst e
      simp only [CTree.leaves, List.mem_singleton]
      constructor
      · rintro rfl; exact ⟨rfl, hn⟩
      · exact fun h => h.1
  | node a b iha ihb =>
    intro t' ht' l
    simp only [delT] at ht'
    simp only [CTree.leaves, List.mem_append]
    cases ha : delT L a with
    | none =>
      have hna := (delT_eq_none_iff' L a).1 ha
      cases hb : delT L b with
      | none => rw [ha, hb] at ht'; cases ht'
      | some b' =>
        rw [ha, hb] at ht'
        simp only [join] at ht'
        injection ht' with e
        subst e
        rw [ihb b' hb l]
        constructor
        · exact fun h => ⟨Or.inr h.1, h.2⟩
        · rintro ⟨h1 | h1, h2⟩
          · exact absurd (hna l h1) h2
          · exact ⟨h1, h2⟩
    | some a' =>
      cases hb : delT L b with
      | none =>
        have hnb := (delT_eq_none_iff' L b).1 hb
        rw [ha, hb] at ht'
        simp only [join] at ht'
        injection ht' with e
        subst e
        rw [iha a' ha l]
        constructor
        · exact fun h => ⟨Or.inl h.1, h.2⟩
        · rintro ⟨h1 | h1, h2⟩
          · exact ⟨h1, h2⟩
          · exact absurd (hnb l h1) h2
      | some b' =>
        rw [ha, hb] at ht'
        simp only [join] at ht'
        injection ht' with e
        subst e
        simp only [CTree.leaves, List.mem_append]
        rw [iha a' ha l, ihb b' hb l]
        constructor
        · rintro (h | h)
          · exact ⟨Or.inl h.1, h.2⟩
          · exact ⟨Or.inr h.1, h.2⟩
        · rintro ⟨h1 | h1, h2⟩
          · exact Or.inl ⟨h1, h2⟩
          · exact Or.inr ⟨h1, h2⟩

/-- `al` tells, on the nodes of `t` placed at `(r, o)`, whether the subtree keeps a survivor -/
def AlOK (D : List H) (al : Nat → Nat → Bool) (t : CTree H) (r o : Nat) : Prop :=
  ∀ x ∈ subs t r o, al x.1.1 x.1.2 = (delT D x.2).isSome

theorem AlOK.left {D : List H} {al : Nat → Nat → Bool} {a b : CTree H} {r o : Nat}
    (h : AlOK D al (.node a b) r o) : AlOK D al a (r - 1) (2 * o) := by
  intro x hx
  apply h
  simp only [subs, List.mem_cons, List.mem_append]
  exact Or.inr (Or.inl hx)

theorem AlOK.right {D : List H} {al : Nat → Nat → Bool} {a b : CTree H} {r o : Nat}
    (h : AlOK D al (.node a b) r o) : AlOK D al b (r - 1) (2 * o + 1) := by
  intro x hx
  apply h
  simp only [subs, List.mem_cons, List.mem_append]
  exact Or.inr (Or.inr hx)

theorem sibIdx_even (o : Nat) : sibIdx (2 * o) = 2 * o + 1 := by
  unfold sibIdx; rw [if_pos (by omega)]

theorem sibIdx_odd (o : Nat) : sibIdx (2 * o + 1) = 2 * o := by
  unfold sibIdx; rw [if_neg (by omega)]; omega

/-- **movement inside a tree, forward**: a subtree `s` of `t` (old root `(r, o)`) that keeps a
survivor sits, pruned, in `delT D t` (placed at `top`) at the position reached by the walk -/
theorem tree_move (D : List H) (al : Nat → Nat → Bool) : ∀ (t : CTree H) (r o : Nat),
    depth t ≤ r → AlOK D al t r o → ∀ (t' : CTree H), delT D t = some t' → ∀ (top : Pos),
    ∀ x ∈ subs t r o, ∀ s', delT D x.2 = some s' →
      (fpos al top (r - x.1.1) x.1.1 x.1.2, s') ∈ subs t' top.1 top.2 := by
  intro t
  induction t with
  | leaf h =>
    intro r o _ _ t' ht' top x hx s' hs'
    simp only [subs, List.mem_singleton] at hx
    subst hx
    simp only at hs' ⊢
    rw [ht'] at hs'
    injection hs' with e
    subst e
    simp only [Nat.sub_self, fpos]
    exact subs_head _ _ _
  | node a b iha ihb =>
    intro r o hd hal t' ht' top x hx s' hs'
    simp only [depth] at hd
    have hda : depth a ≤ r - 1 := by omega
    have hdb : depth b ≤ r - 1 := by omega
    simp only [subs, List.mem_cons, List.mem_append] at hx
    have hala : al (r - 1) (2 * o) = (delT D a).isSome :=
      hal ((r - 1, 2 * o), a) (by
        simp only [subs, List.mem_cons, List.mem_append]
        exact Or.inr (Or.inl (subs_head a _ _)))
    have halb : al (r - 1) (2 * o + 1) = (delT D b).isSome :=
      hal ((r - 1, 2 * o + 1), b) (by
        simp only [subs, List.mem_cons, List.mem_append]
        exact Or.inr (Or.inr (subs_head b _ _)))
    rcases hx with rfl | hx | hx
    · simp only at hs' ⊢
      rw [ht'] at hs'
      injection hs' with e
      subst e
      simp only [Nat.sub_self, fpos]
      exact subs_head _ _ _
    · -- below the left child
      have hu := subs_under a (r - 1) (2 * o) hda x hx
      have hk : r - x.1.1 = (r - 1 - x.1.1) + 1 := by have := hu.1; omega
      have hc : x.1.2 / 2 ^ (r - 1 - x.1.1) = 2 * o := hu.2
      have hlv : x.1.1 + (r - 1 - x.1.1) = r - 1 := by have := hu.1; omega
      rw [hk, fpos_top, hc, hlv]
      -- the left child keeps a survivor
      have hsa : ∃ a', delT D a = some a' := by
        cases hda' : delT D a with
        | some a' => exact ⟨a', rfl⟩
        | none =>
          exfalso
          have := (delT_eq_none_iff' D a).1 hda'
          have h2 := (delT_eq_none_iff' D x.2).2 (fun l hl => this l (subs_leaves a _ _ x hx l hl))
          rw [h2] at hs'
          cases hs'
      obtain ⟨a', ha'⟩ := hsa
      cases hb' : delT D b with
      | some b' =>
        have et : t' = .node a' b' := by
          simp only [delT, ha', hb', join] at ht'
          injection ht' with e
          exact e.symm
        subst et
        have hct : childTop al top (r - 1) (2 * o) = (top.1 - 1, 2 * top.2) := by
          unfold childTop
          rw [sibIdx_even, halb, hb']
          simp
        rw [hct]
        have := iha (r - 1) (2 * o) hda hal.left a' ha' (top.1 - 1, 2 * top.2) x hx s' hs'
        simp only [subs, List.mem_cons, List.mem_append]
        exact Or.inr (Or.inl this)
      | none =>
        have et : t' = a' := by
          simp only [delT, ha', hb', join] at ht'
          injection ht' with e
          exact e.symm
        subst et
        have hct : childTop al top (r - 1) (2 * o) = top := by
          unfold childTop
          rw [sibIdx_even, halb, hb']
          simp
        rw [hct]
        exact iha (r - 1) (2 * o) hda hal.left t' ha' top x hx s' hs'
    · -- below the right child
      have hu := subs_under b (r - 1) (2 * o + 1) hdb x hx
      have hk : r - x.1.1 = (r - 1 - x.1.1) + 1 := by have := hu.1; omega
      have hc : x.1.2 / 2 ^ (r - 1 - x.1.1) = 2 * o + 1 := hu.2
      have hlv : x.1.1 + (r - 1 - x.1.1) = r - 1 := by have := hu.1; omega
      rw [hk, fpos_top, hc, hlv]
      have hsb : ∃ b', delT D b = some b' := by
        cases hdb' : delT D b with
        | some b' => exact ⟨b', rfl⟩
        | none =>
          exfalso
          have := (delT_eq_none_iff' D b).1 hdb'
          have h2 := (delT_eq_none_iff' D x.2).2 (fun l hl => this l (subs_leaves b _ _ x hx l hl))
          rw [h2] at hs'
          cases hs'
      obtain ⟨b', hb'⟩ := hsb
      cases ha' : delT D a with
      | some a' =>
        have et : t' = .node a' b' := by
          simp only [delT, ha', hb', join] at ht'
          injection ht' with e
          exact e.symm
        subst et
        have hct : childTop al top (r - 1) (2 * o + 1) = (top.1 - 1, 2 * top.2 + 1) := by
          unfold childTop
          rw [sibIdx_odd, hala, ha']
          simp
        rw [hct]
        have := ihb (r - 1) (2 * o + 1) hdb hal.right b' hb' (top.1 - 1, 2 * top.2 + 1) x hx s' hs'
        simp only [subs, List.mem_cons, List.mem_append]
        exact Or.inr (Or.inr this)
      | none =>
        have et : t' = b' := by
          simp only [delT, ha', hb', join] at ht'
          injection ht' with e
          exact e.symm
        subst et
        have hct : childTop al top (r - 1) (2 * o + 1) = top := by
          unfold childTop
          rw [sibIdx_odd, hala, ha']
          simp
        rw [hct]
        exact ihb (r - 1) (2 * o + 1) hdb hal.right t' hb' top x hx s' hs'

/-- **movement inside a tree, backward**: every subtree of `delT D t` is the pruned image of a
subtree of `t` that is the root or whose sibling keeps a survivor -/
theorem tree_move_surj (D : List H) (al : Nat → Nat → Bool) : ∀ (t : CTree H) (r o : Nat),
    depth t ≤ r → AlOK D al t r o → ∀ (t' : CTree H), delT D t = some t' → ∀ (top : Pos),
    ∀ y ∈ subs t' top.1 top.2, ∃ x ∈ subs t r o, delT D x.2 = some y.2 ∧
      y.1 = fpos al top (r - x.1.1) x.1.1 x.1.2 ∧
      (x = ((r, o), t) ∨ al x.1.1 (sibIdx x.1.2) = true) := by
  intro t
  induction t with
  | leaf h =>
    intro r o _ _ t' ht' top y hy
    have e : t' = .leaf h := by
      simp only [delT] at ht'
      split at ht'
      · cases ht'
      · injection ht' with e; exact e.symm
    subst e
    simp only [subs, List.mem_singleton] at hy
    subst hy
    exact ⟨((r, o), .leaf h), by simp [subs], ht', by simp [fpos], Or.inl rfl⟩
  | node a b iha ihb =>
    intro r o hd hal t' ht' top y hy
    simp only [depth] at hd
    have hda : depth a ≤ r - 1 := by omega
    have hdb : depth b ≤ r - 1 := by omega
    have hala : al (r - 1) (2 * o) = (delT D a).isSome :=
      hal ((r - 1, 2 * o), a) (by
        simp only [subs, List.mem_cons, List.mem_append]
        exact Or.inr (Or.inl (subs_head a _ _)))
    have halb : al (r - 1) (2 * o + 1) = (delT D b).isSome :=
      hal ((r - 1, 2 * o + 1), b) (by
        simp only [subs, List.mem_cons, List.mem_append]
        exact Or.inr (Or.inr (subs_head b _ _)))
    have hroot : ∀ y, y = ((top.1, top.2), t') → ∃ x ∈ subs (CTree.node a b) r o,
        delT D x.2 = some y.2 ∧ y.1 = fpos al top (r - x.1.1) x.1.1 x.1.2 ∧
        (x = ((r, o), CTree.node a b) ∨ al x.1.1 (sibIdx x.1.2) = true) := by
      intro y hy
      subst hy
      exact ⟨((r, o), .node a b), subs_head _ _ _, ht', by simp [fpos], Or.inl rfl⟩
    -- lifting a witness from the left / right child
    have hleft : ∀ (topa : Pos), childTop al top (r - 1) (2 * o) = topa →
        ∀ x ∈ subs a (r - 1) (2 * o), fpos al topa (r - 1 - x.1.1) x.1.1 x.1.2 =
          fpos al top (r - x.1.1) x.1.1 x.1.2 := by
      intro topa htopa x hx
      have hu := subs_under a (r - 1) (2 * o) hda x hx
      have hk : r - x.1.1 = (r - 1 - x.1.1) + 1 := by have := hu.1; omega
      have hc : x.1.2 / 2 ^ (r - 1 - x.1.1) = 2 * o := hu.2
      have hlv : x.1.1 + (r - 1 - x.1.1) = r - 1 := by have := hu.1; omega
      rw [hk, fpos_top, hc, hlv, htopa]
    have hright : ∀ (topb : Pos), childTop al top (r - 1) (2 * o + 1) = topb →
        ∀ x ∈ subs b (r - 1) (2 * o + 1), fpos al topb (r - 1 - x.1.1) x.1.1 x.1.2 =
          fpos al top (r - x.1.1) x.1.1 x.1.2 := by
      intro topb htopb x hx
      have hu := subs_under b (r - 1) (2 * o + 1) hdb x hx
      have hk : r - x.1.1 = (r - 1 - x.1.1) + 1 := by have := hu.1; omega
      have hc : x.1.2 / 2 ^ (r - 1 - x.1.1) = 2 * o + 1 := hu.2
      have hlv : x.1.1 + (r - 1 - x.1.1) = r - 1 := by have := hu.1; omega
      rw [hk, fpos_top, hc, hlv, htopb]
    have hina : ∀ x ∈ subs a (r - 1) (2 * o), x ∈ subs (CTree.node a b) r o := by
      intro x hx
      simp only [subs, List.mem_cons, List.mem_append]
      exact Or.inr (Or.inl hx)
    have hinb : ∀ x ∈ subs b (r - 1) (2 * o + 1), x ∈ subs (CTree.node a b) r o := by
      intro x hx
      simp only [subs, List.mem_cons, List.mem_append]
      exact Or.inr (Or.inr hx)
    cases ha' : delT D a with
    | none =>
      cases hb' : delT D b with
      | none => simp only [delT, ha', hb', join] at ht'; cases ht'
      | some b' =>
        have et : t' = b' := by
          simp only [delT, ha', hb', join] at ht'
          injection ht' with e
          exact e.symm
        subst et
        have hct : childTop al top (r - 1) (2 * o + 1) = top := by
          unfold childTop
          rw [sibIdx_odd, hala, ha']
          simp
        obtain ⟨x, hx, h1, h2, h3⟩ := ihb (r - 1) (2 * o + 1) hdb hal.right t' hb' top y hy
        rcases h3 with h3 | h3
        · -- the witness is the root of `b`: take the root of `t` instead
          subst h3
          simp only [Nat.sub_self, fpos] at h2
          simp only at h1
          refine ⟨((r, o), .node a b), subs_head _ _ _, ?_, by simp [fpos, h2], Or.inl rfl⟩
          rw [ht', ← h1, hb']
        · exact ⟨x, hinb x hx, h1, by rw [h2, hright top hct x hx], Or.inr h3⟩
    | some a' =>
      cases hb' : delT D b with
      | none =>
        have et : t' = a' := by
          simp only [delT, ha', hb', join] at ht'
          injection ht' with e
          exact e.symm
        subst et
        have hct : childTop al top (r - 1) (2 * o) = top := by
          unfold childTop
          rw [sibIdx_even, halb, hb']
          simp
        obtain ⟨x, hx, h1, h2, h3⟩ := iha (r - 1) (2 * o) hda hal.left t' ha' top y hy
        rcases h3 with h3 | h3
        · subst h3
          simp only [Nat.sub_self, fpos] at h2
          simp only at h1
          refine ⟨((r, o), .node a b), subs_head _ _ _, ?_, by simp [fpos, h2], Or.inl rfl⟩
          rw [ht', ← h1, ha']
        · exact ⟨x, hina x hx, h1, by rw [h2, hleft top hct x hx], Or.inr h3⟩
      | some b' =>
        have et : t' = .node a' b' := by
          simp only [delT, ha', hb', join] at ht'
          injection ht' with e
          exact e.symm
        subst et
        have hcta : childTop al top (r - 1) (2 * o) = (top.1 - 1, 2 * top.2) := by
          unfold childTop
          rw [sibIdx_even, halb, hb']
          simp
        have hctb : childTop al top (r - 1) (2 * o + 1) = (top.1 - 1, 2 * top.2 + 1) := by
          unfold childTop
          rw [sibIdx_odd, hala, ha']
          simp
        simp only [subs, List.mem_cons, List.mem_append] at hy
        rcases hy with hy | hy | hy
        · exact hroot y hy
        · obtain ⟨x, hx, h1, h2, h3⟩ :=
            iha (r - 1) (2 * o) hda hal.left a' ha' (top.1 - 1, 2 * top.2) y hy
          refine ⟨x, hina x hx, h1, by rw [h2, hleft _ hcta x hx], Or.inr ?_⟩
          rcases h3 with h3 | h3
          · subst h3
            simp only
            rw [sibIdx_even, halb, hb']
            rfl
          · exact h3
        · obtain ⟨x, hx, h1, h2, h3⟩ :=
            ihb (r - 1) (2 * o + 1) hdb hal.right b' hb' (top.1 - 1, 2 * top.2 + 1) y hy
          refine ⟨x, hinb x hx, h1, by rw [h2, hright _ hctb x hx], Or.inr ?_⟩
          rcases h3 with h3 | h3
          · subst h3
            simp only
            rw [sibIdx_odd, hala, ha']
            rfl
          · exact h3

/-! ### movement in the forest -/

/-- does the subtree of `F` at position `(l, b)` keep a survivor when the leaves `D` are
deleted (`false` where `F` has no node) -/
def aliveAfter (F : Forest H) (D : List H) (l b : Nat) : Bool :=
  match subAt F (l, b) with
  | some t => (delT D t).isSome
  | none => false

theorem aliveAfter_of {F : Forest H} {D : List H} {h : Nat} {p : Pos} {t : CTree H}
    (s : SubAtT F h p t) : aliveAfter F D p.1 p.2 = (delT D t).isSome := by
  unfold aliveAfter
  rw [show (p.1, p.2) = p from rfl, subAt_of s]

/-- the row of the tree that contains position `p` -/
def treeRowOf (n : Nat) (p : Pos) : Nat := ((treeRows n).find? (fun h => inTree n h p)).getD p.1

theorem treeRowOf_of {F : Forest H} {h : Nat} {p : Pos} {t : CTree H} (s : SubAtT F h p t) :
    treeRowOf F.numLeaves p = h := by
  unfold treeRowOf
  cases hf : (treeRows F.numLeaves).find? (fun h => inTree F.numLeaves h p) with
  | none =>
    have := List.find?_eq_none.1 hf h s.1
    rw [(inTree_iff _ _ _).2 s.under] at this
    exact absurd rfl this
  | some h' =>
    have hm := List.mem_of_find?_eq_some hf
    have hp := List.find?_some hf
    have hu := (inTree_iff _ _ _).1 hp
    have hb' := (mem_treeRowsFrom _ _ hm).1
    simp only [Option.getD_some]
    rcases Nat.lt_trichotomy h h' with hlt | heq | hgt
    · exact (under_disjoint hlt hb' hu s.under).elim
    · exact heq.symm
    · exact (under_disjoint hgt s.bit s.under hu).elim

/-- top-down: walk from the root of the tree on row `h` down to `p`, skipping the levels whose
sibling has no survivor -/
def movePosT (F : Forest H) (D : List H) (h : Nat) (p : Pos) : Pos :=
  fpos (aliveAfter F D) (rootPos F.numLeaves h) (h - p.1) p.1 p.2

/-- the ancestor levels (rows `p.1 ≤ j < h`) at which the sibling subtree has no survivor -/
def deadLevelsOf (F : Forest H) (D : List H) (h : Nat) (p : Pos) : List Nat :=
  deadLevels (aliveAfter F D) (h - p.1) p.1 p.2

/-- **the movement of a position under the deletion of `D`**, bottom-up: for every ancestor
level at which the sibling subtree has no survivor, delete the corresponding path bit and move
up one row -/
def movePos (F : Forest H) (D : List H) (p : Pos) : Pos :=
  liftFold 0 p (deadLevelsOf F D (treeRowOf F.numLeaves p) p)

theorem liftFold_rows (hs : List Nat) : ∀ (r l o : Nat),
    liftFold l (r, o) hs = (r + (liftFold (l + r) (0, o) hs).1, (liftFold (l + r) (0, o) hs).2) := by
  intro r
  induction r with
  | zero => intro l o; simp
  | succ r ih =>
    intro l o
    rw [liftFold_shift, ih (l + 1) o, show l + 1 + r = l + (r + 1) by omega]
    ext
    · simp only; omega
    · rfl

theorem mem_deadLevelsOf {F : Forest H} {D : List H} {h : Nat} {p : Pos} {j : Nat} :
    j ∈ deadLevelsOf F D h p ↔
      p.1 ≤ j ∧ j < h ∧ aliveAfter F D j (sibIdx (p.2 / 2 ^ (j - p.1))) = false := by
  unfold deadLevelsOf
  rw [mem_deadLevels]
  constructor
  · rintro ⟨h1, h2, h3⟩; exact ⟨h1, by omega, h3⟩
  · rintro ⟨h1, h2, h3⟩; exact ⟨h1, by omega, h3⟩

theorem deadLevelsOf_asc (F : Forest H) (D : List H) (h : Nat) (p : Pos) :
    AscFrom p.1 (deadLevelsOf F D h p) := deadLevels_asc _ _ _ _

/-- bottom-up = top-down -/
theorem movePos_eq_T {F : Forest H} {D : List H} {h : Nat} {p : Pos} {t : CTree H}
    (s : SubAtT F h p t) : movePos F D p = movePosT F D h p := by
  unfold movePos movePosT
  rw [treeRowOf_of s]
  have hu := s.under
  have htop : rootPos F.numLeaves h = (p.1 + (h - p.1), p.2 / 2 ^ (h - p.1)) := by
    unfold rootPos
    rw [hu.2, show p.1 + (h - p.1) = h by have := hu.1; omega]
  rw [htop, fpos_eq_liftFold, show p = (p.1, p.2) from rfl, liftFold_rows]
  simp only [Nat.zero_add]
  rfl

theorem collapse_delLeaves (F : Forest H) (D : List H) (h a : Nat) :
    collapse h (((F.delLeaves D).slots.drop a).take (2 ^ h)) =
      (collapse h ((F.slots.drop a).take (2 ^ h))).bind (delT D) := by
  rw [CalcComplete.delLeaves_slots, ← List.map_drop, ← List.map_take, CalcComplete.collapse_kill]

theorem alOK_tree {F : Forest H} (D : List H) {h : Nat} {t0 : CTree H}
    (hh : h ∈ treeRows F.numLeaves)
    (ht0 : collapse h ((F.slots.drop (treeStart F.numLeaves h)).take (2 ^ h)) = some t0) :
    AlOK D (aliveAfter F D) t0 h (rootPos F.numLeaves h).2 := by
  intro x hx
  exact aliveAfter_of (SubAtT.of_tree hh ht0 hx)

/-- **movement, forward**: the subtree at `p`, pruned, is the subtree of `F.delLeaves D` at the
moved position -/
theorem move_subT {F : Forest H} {D : List H} {h : Nat} {p : Pos} {t t' : CTree H}
    (s : SubAtT F h p t) (hd : delT D t = some t') :
    SubAtT (F.delLeaves D) h (movePosT F D h p) t' := by
  obtain ⟨t0, ht0, hdep, hm⟩ := s.tree
  have hs0 : ∃ t0', delT D t0 = some t0' := by
    cases h0 : delT D t0 with
    | some t0' => exact ⟨t0', rfl⟩
    | none =>
      exfalso
      have h1 := (delT_eq_none_iff' D t0).1 h0
      have h2 := (delT_eq_none_iff' D t).2 (fun l hl => h1 l (subs_leaves t0 _ _ _ hm l hl))
      rw [h2] at hd
      cases hd
  obtain ⟨t0', ht0'⟩ := hs0
  have hmv := tree_move D (aliveAfter F D) t0 h _ hdep (alOK_tree D s.1 ht0) t0' ht0'
    (rootPos F.numLeaves h) (p, t) hm t' hd
  have hn := delLeaves_numLeaves F D
  refine SubAtT.of_tree (t0 := t0') (by rw [hn]; exact s.1) ?_ ?_
  · rw [hn, collapse_delLeaves, ht0]
    exact ht0'
  · rw [hn]
    exact hmv

theorem move_sub {F : Forest H} {D : List H} {h : Nat} {p : Pos} {t t' : CTree H}
    (s : SubAtT F h p t) (hd : delT D t = some t') :
    SubAtT (F.delLeaves D) h (movePos F D p) t' := by
  rw [movePos_eq_T s]
  exact move_subT s hd

/-- **movement, backward**: every node of `F.delLeaves D` is the moved image of a node of `F`
that keeps a survivor and is the root of its tree or has a sibling that keeps a survivor -/
theorem move_surj {F : Forest H} {D : List H} {h : Nat} {q : Pos} {s' : CTree H}
    (sq : SubAtT (F.delLeaves D) h q s') :
    ∃ p t, SubAtT F h p t ∧ delT D t = some s' ∧ q = movePos F D p ∧
      (p = rootPos F.numLeaves h ∨ aliveAfter F D p.1 (sibIdx p.2) = true) := by
  have hn := delLeaves_numLeaves F D
  obtain ⟨t0', ht0', _, hm'⟩ := sq.tree
  rw [hn, collapse_delLeaves] at ht0'
  have hh : h ∈ treeRows F.numLeaves := by rw [← hn]; exact sq.1
  cases ht0 : collapse h ((F.slots.drop (treeStart F.numLeaves h)).take (2 ^ h)) with
  | none => rw [ht0] at ht0'; cases ht0'
  | some t0 =>
    rw [ht0] at ht0'
    simp only [Option.bind_some] at ht0'
    rw [hn] at hm'
    obtain ⟨x, hx, h1, h2, h3⟩ := tree_move_surj D (aliveAfter F D) t0 h _
      (collapse_depth _ _ _ ht0) (alOK_tree D hh ht0) t0' ht0' (rootPos F.numLeaves h) (q, s') hm'
    have sx : SubAtT F h x.1 x.2 := SubAtT.of_tree hh ht0 hx
    refine ⟨x.1, x.2, sx, h1, ?_, ?_⟩
    · rw [movePos_eq_T sx]
      exact h2
    · rcases h3 with h3 | h3
      · left
        rw [h3]
        rfl
      · exact Or.inr h3

/-! ### the local description of the movement -/

theorem movePosT_root (F : Forest H) (D : List H) (h : Nat) :
    movePosT F D h (rootPos F.numLeaves h) = rootPos F.numLeaves h := by
  unfold movePosT
  simp [rootPos, fpos]

theorem sib_eq_sibIdx (p : Pos) : sib p = (p.1, sibIdx p.2) := rfl

/-- a node whose sibling has no survivor moves to where its parent moves -/
theorem movePosT_dead {F : Forest H} {D : List H} {h : Nat} {p : Pos} (hlt : p.1 < h)
    (hs : aliveAfter F D p.1 (sibIdx p.2) = false) :
    movePosT F D h p = movePosT F D h (parent p) := by
  unfold movePosT
  simp only [parent_fst, parent_snd]
  rw [show h - p.1 = (h - (p.1 + 1)) + 1 by omega]
  exact fpos_succ_dead hs

/-- a node whose sibling keeps a survivor stays a child (on the same side) of its parent -/
theorem movePosT_alive {F : Forest H} {D : List H} {h : Nat} {p : Pos} (hlt : p.1 < h)
    (hs : aliveAfter F D p.1 (sibIdx p.2) = true) :
    parent (movePosT F D h p) = movePosT F D h (parent p) ∧
    (movePosT F D h p).2 % 2 = p.2 % 2 ∧ (movePosT F D h p).1 < h := by
  unfold movePosT
  simp only [parent_fst, parent_snd]
  rw [show h - p.1 = (h - (p.1 + 1)) + 1 by omega]
  have hrow := fpos_row (aliveAfter F D) (rootPos F.numLeaves h) (h - (p.1 + 1)) (p.1 + 1) (p.2 / 2)
    (by simp only [rootPos]; omega)
  refine ⟨fpos_parent (by simp only [rootPos]; omega) hs, ?_, ?_⟩
  · rw [fpos_succ_alive hs]
    simp only
    omega
  · rw [fpos_succ_alive hs]
    simp only
    omega

/-! ### `posOf` / `nodeAt` after the deletion -/

/-- **a surviving leaf `x` at position `p` of `F` sits in `F.delLeaves D` at `movePos F D p`** -/
theorem move_posOf {F : Forest H} {D : List H} (hn : F.numLeaves < 2 ^ 64)
    (hnd : F.liveLeaves.Nodup) {x : H} {p : Pos} (hp : F.posOf x = some p) (hx : x ∉ D) :
    (F.delLeaves D).posOf x = some (movePos F D p) := by
  obtain ⟨h, s⟩ := posOf_sub hp
  have hd : delT D (.leaf x) = some (.leaf x) := by simp [delT, hx]
  have s' := move_sub s hd
  rw [Spec.posOf_eq_some_iff (by rw [delLeaves_numLeaves]; exact hn)
    (LiveLeaves.liveLeaves_delLeaves_nodup hnd D)]
  exact s'.node_mem

/-- a deleted leaf has no position afterwards -/
theorem posOf_deleted {F : Forest H} {D : List H} {x : H} (hx : x ∈ D) :
    (F.delLeaves D).posOf x = none := by
  cases hp : (F.delLeaves D).posOf x with
  | none => rfl
  | some q =>
    have := (LiveLeaves.mem_liveLeaves_delLeaves.1 (Spec.live_of_posOf hp)).2
    exact absurd hx this

/-- **the node at `p`, if a leaf below it survives, sits at `movePos F D p` with the hash its
subtree has after the deletion** -/
theorem move_nodeAt {F : Forest H} {D : List H} {h : Nat} {p : Pos} {t : CTree H}
    (s : SubAtT F h p t) (hd : delT D t ≠ none) :
    (F.delLeaves D).nodeAt (movePos F D p) = some (dhash D t) := by
  cases ht' : delT D t with
  | none => exact absurd ht' hd
  | some t' =>
    rw [(move_sub s ht').nodeAt]
    unfold dhash hashO
    rw [ht']

/-- every node of `F.delLeaves D` is a node of `F` with a survivor below it, moved, carrying
the hash of its pruned subtree -/
theorem nodeAt_delLeaves {F : Forest H} {D : List H} {h : Nat} {q : Pos} {s' : CTree H}
    (sq : SubAtT (F.delLeaves D) h q s') :
    ∃ p t, SubAtT F h p t ∧ delT D t = some s' ∧ q = movePos F D p ∧ s'.hash = dhash D t := by
  obtain ⟨p, t, s, hd, hq, _⟩ := move_surj sq
  refine ⟨p, t, s, hd, hq, ?_⟩
  unfold dhash hashO
  rw [hd]

/-! ### the maximal fully-deleted subtrees, ancestors -/

/-- `T` is the position of a maximal fully-deleted subtree of `F`: a node all of whose leaves
are in `D` and that is the root of its tree or has a sibling that keeps a survivor.  (This is
what `deTwin` computes from the sorted deletion targets.) -/
def IsDT (F : Forest H) (D : List H) (T : Pos) : Prop :=
  ∃ h t, SubAtT F h T t ∧ delT D t = none ∧
    (T.1 = h ∨ aliveAfter F D T.1 (sibIdx T.2) = true)

theorem treeRowOf_under {n R : Nat} {p : Pos} (hR : R ∈ treeRows n)
    (hu : Under R (2 * (n >>> (R + 1))) p) : treeRowOf n p = R := by
  unfold treeRowOf
  have hb := (mem_treeRowsFrom _ _ hR).1
  cases hf : (treeRows n).find? (fun h => inTree n h p) with
  | none =>
    have := List.find?_eq_none.1 hf R hR
    rw [(inTree_iff _ _ _).2 hu] at this
    exact absurd rfl this
  | some h' =>
    have hm := List.mem_of_find?_eq_some hf
    have hp := List.find?_some hf
    have hu' := (inTree_iff _ _ _).1 hp
    have hb' := (mem_treeRowsFrom _ _ hm).1
    simp only [Option.getD_some]
    rcases Nat.lt_trichotomy R h' with hlt | heq | hgt
    · exact (under_disjoint hlt hb' hu' hu).elim
    · exact heq.symm
    · exact (under_disjoint hgt hb hu hu').elim

/-- the ancestors of a node inside its tree are nodes, and contain its leaves -/
theorem anc_node {F : Forest H} {h : Nat} {p : Pos} {t : CTree H} (s : SubAtT F h p t) :
    ∀ d, p.1 + d ≤ h → ∃ ta, SubAtT F h (p.1 + d, p.2 / 2 ^ d) ta ∧
      ∀ l ∈ t.leaves, l ∈ ta.leaves := by
  intro d
  induction d with
  | zero => intro _; exact ⟨t, by simpa using s, fun l hl => hl⟩
  | succ d ih =>
    intro hd
    obtain ⟨ta, sa, hl⟩ := ih (by omega)
    have hnr : isRootPos F.numLeaves (p.1 + d, p.2 / 2 ^ d) = false := by
      cases hr : isRootPos F.numLeaves (p.1 + d, p.2 / 2 ^ d) with
      | false => rfl
      | true => have := (sa.root_iff).1 hr; simp only at this; omega
    obtain ⟨_, s', hpar, _⟩ := sa.parent hnr
    have e : Spec.parent (p.1 + d, p.2 / 2 ^ d) = (p.1 + (d + 1), p.2 / 2 ^ (d + 1)) := by
      simp only [Spec.parent, Prod.mk.injEq]
      refine ⟨by omega, ?_⟩
      rw [Nat.div_div_eq_div_mul, ← Nat.pow_succ]
    rw [e] at hpar
    refine ⟨_, hpar, ?_⟩
    intro l hl'
    have := hl l hl'
    split <;> simp [CTree.leaves, this]

/-- a node with a survivor below it: all its ancestors keep a survivor -/
theorem anc_alive {F : Forest H} {D : List H} {h : Nat} {p : Pos} {t : CTree H}
    (s : SubAtT F h p t) (hal : delT D t ≠ none) {d : Nat} (hd : p.1 + d ≤ h) :
    ∃ ta, SubAtT F h (p.1 + d, p.2 / 2 ^ d) ta ∧ delT D ta ≠ none := by
  obtain ⟨ta, sa, hl⟩ := anc_node s d hd
  refine ⟨ta, sa, ?_⟩
  intro hn
  apply hal
  rw [delT_eq_none_iff'] at hn ⊢
  exact fun l hl' => hn l (hl l hl')

end
end UtreexoVerif.Proofs.Movement
