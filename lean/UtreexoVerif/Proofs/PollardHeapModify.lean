/-
  Pointer forest, heap model: `remove` and `Modify` on a represented forest.
-/
import UtreexoVerif.Proofs.PollardHeapDelSeq
import UtreexoVerif.Proofs.PollardHeapAdd
import UtreexoVerif.Proofs.LiveLeaves
set_option linter.unusedSectionVars false
set_option linter.unusedVariables false
set_option linter.unusedSimpArgs false

namespace UtreexoVerif.Proofs.PollardHeap
open UtreexoVerif UtreexoVerif.GoInt UtreexoVerif.Model UtreexoVerif.Model.PollardHeap UtreexoVerif.Spec Hasher
open UtreexoVerif.Proofs.SpecNodes UtreexoVerif.Proofs.SpecSubs UtreexoVerif.Proofs.CalcComplete
open UtreexoVerif.Proofs.FinalPos UtreexoVerif.Proofs.CalcGeo UtreexoVerif.Proofs.Sorted
open UtreexoVerif.Proofs.Movement UtreexoVerif.Proofs.ProofUpdateDeTwin UtreexoVerif.Proofs.SpecView

variable {H : Type} [DecidableEq H] [Hasher H]

/-- `deTwin_spec` together with the loop invariant it is proved from -/
theorem deTwin_spec_inv {F : Forest H} (hn : F.numLeaves ≤ 2 ^ 63) (hnd : F.liveLeaves.Nodup)
    {D : List H} (hD : D.Nodup) (hlive : ∀ x ∈ D, x ∈ F.liveLeaves) :
    ∃ dtp : List Pos,
      Model.deTwin (Model.sortU64 ((D.map (fun l => (F.posOf l).getD (0, 0))).map (E F.rows)))
        (H8 F.rows) = dtp.map (E F.rows) ∧
      Inv F D dtp ∧ ∀ T, T ∈ dtp ↔ IsDT F D T := by
  have hr : F.rows ≤ 63 := rows_le_63 hn
  have hsort := sortU64_map_E hr (leafPositions F D) (leafPositions_valid hn hlive)
    (leafPositions_nodup hn hD hlive)
  have inv0 := Inv.init (F := F) hn hlive
  obtain ⟨dtp, h1, h2, h3⟩ := ProofUpdateDeTwin.loop_spec (F := F) (D := D) hr
    (2 * (Forest.sortDedup (leafPositions F D)).length + 1) []
    (Forest.sortDedup (leafPositions F D)) inv0 (by simp) (by omega)
  refine ⟨dtp, ?_, h2, h2.final hnd h3⟩
  show Model.deTwin (Model.sortU64 ((leafPositions F D).map (E F.rows))) (H8 F.rows) = _
  rw [hsort]
  unfold Model.deTwin
  rw [List.length_map]
  exact h1

/-- the targets with their trees -/
theorem ds_of_dt {F : Forest H} {D : List H} : ∀ (dtp : List Pos), (∀ T ∈ dtp, IsDT F D T) →
    ∃ ds : List (Pos × Nat × CTree H), ds.map (·.1) = dtp ∧ ∀ e ∈ ds, DTE F D e := by
  intro dtp
  induction dtp with
  | nil => intro _; exact ⟨[], rfl, by simp⟩
  | cons T dtp ih =>
    intro h
    obtain ⟨ds, e1, e2⟩ := ih (fun T' hT' => h T' (by simp [hT']))
    obtain ⟨hh, t, s, hd, htop⟩ := h T (by simp)
    refine ⟨(T, hh, t) :: ds, by simp [e1], ?_⟩
    intro e he
    simp only [List.mem_cons] at he
    rcases he with rfl | he
    · exact ⟨s, (delT_eq_none_iff' D t).1 hd, htop⟩
    · exact e2 e he

/-- **the sorted de-twinned targets of a block are a deletable sequence ending in
`F.delLeaves D`** -/
theorem delSeq_targets {F : Forest H} (hn : F.numLeaves ≤ 2 ^ 63) (hnd : F.liveLeaves.Nodup)
    {D : List H} (hD : D.Nodup) (hlive : ∀ x ∈ D, x ∈ F.liveLeaves) :
    DelSeq D F
      (Model.deTwin (Model.sortU64 ((D.map (fun l => (F.posOf l).getD (0, 0))).map (E F.rows)))
        (H8 F.rows)) (F.delLeaves D) := by
  obtain ⟨dtp, e1, inv, hdt⟩ := deTwin_spec_inv hn hnd hD hlive
  obtain ⟨ds, e2, hds⟩ := ds_of_dt dtp (fun T hT => (hdt T).1 hT)
  have hs : ds.Pairwise (fun x y => PLt x.1 y.1) := by
    have := inv.sorted
    rw [← e2, List.pairwise_map] at this
    exact this
  have hdj : ds.Pairwise (fun x y => ∀ l ∈ x.2.2.leaves, l ∉ y.2.2.leaves) := by
    refine hs.imp_of_mem ?_
    intro x y hx hy hlt l hl1 hl2
    have hxm : x.1 ∈ dtp := by rw [← e2]; exact List.mem_map_of_mem hx
    have hym : y.1 ∈ dtp := by rw [← e2]; exact List.mem_map_of_mem hy
    have := inv.disj x.1 hxm y.1 hym _ _ _ _ l (hds x hx).sub (hds y hy).sub hl1 hl2
    rw [this] at hlt
    exact PLt.irrefl _ hlt
  have hseq := delSeq_of_inv ds F hds hs hdj hnd
  have emap : ds.map (fun e => E F.rows e.1) = dtp.map (E F.rows) := by
    rw [← e2, List.map_map]; rfl
  rw [emap, ← e1] at hseq
  have hL : ∀ x, x ∈ ds.flatMap (fun e => e.2.2.leaves) ↔ x ∈ D := by
    intro x
    rw [List.mem_flatMap]
    constructor
    · rintro ⟨e, he, hx⟩
      exact (hds e he).dead x hx
    · intro hx
      obtain ⟨T, hT, h, t, s, hxt⟩ := inv.cov x hx
      rw [← e2] at hT
      obtain ⟨e, he, rfl⟩ := List.mem_map.1 hT
      have := ((hds e he).sub.unique s).2
      exact ⟨e, he, by rw [this]; exact hxt⟩
  rw [delLeaves_congr F hL] at hseq
  exact hseq

/-- **`remove`** with the positions of the leaves of `D` as targets -/
theorem remove_absD {p : Pollard H} {F : Forest H} {D : List H} (hA : AbsD p F D)
    (hn : F.numLeaves < 2 ^ 63) (hsep : ∀ x ∈ F.liveLeaves, ∀ u v : H, x ≠ ph u v)
    (hD : D.Nodup) (hlive : ∀ x ∈ D, x ∈ F.liveLeaves) :
    ∃ hp' nm', remove ((D.map (fun l => (F.posOf l).getD (0, 0))).map (E F.rows)) p =
        (.ok (), { p with heap := hp', nodeMap := nm' }) ∧
      AbsD { p with heap := hp', nodeMap := nm' } (F.delLeaves D) D := by
  have hnl := hA.numLeaves
  have hN : p.numLeaves = BitVec.ofNat 64 F.numLeaves := by rw [← hnl]; simp
  have hT : TreeRows p.numLeaves = H8 F.rows := by rw [hN]; exact treeRows_eq hn
  have hnd : F.liveLeaves.Nodup := by
    obtain ⟨owned, lv, h1, _, _, h4, _⟩ := hA.repr
    rw [← h1.liveLeaves (by omega)]; exact h4
  have hseq := delSeq_targets (by omega) hnd hD hlive
  obtain ⟨hp', nm', e1, a1⟩ := removeLoop_absD _ p F _ hA hn hsep hseq
  refine ⟨hp', nm', ?_, a1⟩
  unfold remove
  simp only [bind_apply, getNumLeaves_apply, hT]
  exact e1

/-- no live leaf is the all-zero hash or a parent hash -/
def LeavesOK (F : Forest H) : Prop :=
  ∀ x ∈ F.liveLeaves, x ≠ (zero : H) ∧ ∀ u v : H, x ≠ ph u v

theorem LeavesOK.treesNZ (hph : ∀ a b : H, ph a b ≠ (zero : H)) {F : Forest H} (h : LeavesOK F)
    (hn : F.numLeaves < 2 ^ 64) : TreesNZ F := by
  intro q hq t' ht'
  apply Spec.CTree.hash_ne_zero hph
  intro x hx
  apply (h x _).1
  rw [← trees_leaves F hn, List.mem_flatMap]
  exact ⟨q, hq, by rw [ht']; exact hx⟩

theorem LeavesOK.delLeaves {F : Forest H} (h : LeavesOK F) (D : List H) : LeavesOK (F.delLeaves D) :=
  fun x hx => h x (LiveLeaves.mem_liveLeaves_delLeaves.1 hx).1

/-- **`Modify`** of a valid block on a represented forest -/
theorem modify_abs (hph : ∀ a b : H, ph a b ≠ (zero : H)) {p : Pollard H} {F : Forest H}
    (a : Abs p F) (hfull : p.full = true) (hok : LeavesOK F)
    (D : List H) (adds : List (H × Bool))
    (hn : F.numLeaves + adds.length < 2 ^ 63)
    (hD : D.Nodup) (hlive : ∀ x ∈ D, x ∈ F.liveLeaves)
    (hadd : (adds.map (·.1)).Nodup) (hfresh : ∀ e ∈ adds, e.1 ∉ F.liveLeaves ∧ e.1 ≠ zero) :
    ∃ p', PollardHeap.modify adds D ((D.map (fun l => (F.posOf l).getD (0, 0))).map (E F.rows)) p = (.ok (), p') ∧
      Abs p' (F.modify D (adds.map (·.1))) ∧ p'.full = true ∧
      p'.numDels = p.numDels + BitVec.ofNat 64 D.length := by
  have hsep : ∀ x ∈ F.liveLeaves, ∀ u v : H, x ≠ ph u v := fun x hx => (hok x hx).2
  obtain ⟨nm1, e1, a1⟩ := deleteFromMap_absD D [] p a.toAbsD
  simp only [List.nil_append] at a1
  obtain ⟨hp2, nm2, e2, a2⟩ := remove_absD a1 (by omega) hsep hD hlive
  simp only at e2 a2
  have a3 : Abs { p with heap := hp2, nodeMap := nm2 } (F.delLeaves D) :=
    a2.toAbs (by rw [numLeaves_delLeaves]; omega)
      (fun x hx => (LiveLeaves.mem_liveLeaves_delLeaves.1 hx).2)
  obtain ⟨p3, hp3⟩ : ∃ p3 : Pollard H,
      p3 = ⟨hp2, nm2, p.roots, p.numLeaves, p.numDels + BitVec.ofNat 64 D.length, p.full⟩ := ⟨_, rfl⟩
  have a4 : Abs p3 (F.delLeaves D) := by
    rw [hp3]
    exact ⟨a3.numLeaves, a3.repr⟩
  have hkeys : ∀ x, x ∈ p3.nodeMap.map (·.1) → x ∈ F.liveLeaves := by
    intro x hx
    obtain ⟨owned, lv, h1, h2, h3, h4⟩ := a4.repr
    obtain ⟨e, he, rfl⟩ := List.mem_map.1 hx
    have := (h4 e).1 he
    have hl := h1.liveLeaves (by rw [numLeaves_delLeaves]; omega)
    have : e.1 ∈ (F.delLeaves D).liveLeaves := by rw [← hl]; exact List.mem_map_of_mem this
    exact (LiveLeaves.mem_liveLeaves_delLeaves.1 this).1
  obtain ⟨p', e4, a5, f5, _, d5⟩ := add_abs_full hph adds a4 (by rw [hp3]; exact hfull)
    (by rw [numLeaves_delLeaves]; omega) hadd
    (fun e he => ⟨fun hc => (hfresh e he).1 (hkeys _ hc), (hfresh e he).2⟩)
    ((hok.delLeaves D).treesNZ hph (by rw [numLeaves_delLeaves]; omega))
  refine ⟨p', ?_, a5, f5, by rw [d5, hp3]⟩
  unfold PollardHeap.modify
  simp only [bind_apply, e1, e2, modifyS_apply, List.length_map]
  rw [← hp3]
  exact e4

end UtreexoVerif.Proofs.PollardHeap
