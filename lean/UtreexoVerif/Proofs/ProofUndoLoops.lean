/-
  The inner loops of `proofUndoDel` (property C08, level 2b): `udTargets` and `udProofs` on
  position-sorted lists, independent of the geometry.

  Both loops walk over a list that they re-sort in place after every hit.  On a strictly sorted
  list, when every hit moves the entry to a SMALLER position, the walk visits every original
  entry exactly once:

  * `udTargets_spec`: the cached targets end as the sorted list of the mapped entries;
  * `udProofs_spec`: the proof pile ends strictly sorted, contains every mapped entry, and
    contains nothing else except possibly one entry at the sibling position.
-/
import UtreexoVerif.Proofs.ProofUndoLists

namespace UtreexoVerif.Proofs.ProofUndoLoops
open UtreexoVerif Model Hasher
open UtreexoVerif.Proofs.ProofUpdateLists UtreexoVerif.Proofs.ProofUndoLists

section
variable {H : Type}

/-- the test both loops apply to a position -/
def udCond (nl : U64) (rows : U8) (bt sib target : U64) : Bool :=
  !((DetectOffset target nl).1 != (DetectOffset bt nl).1) &&
    (isAncestor sib target rows || sib == target)

/-- what both loops do to an entry -/
def udMap (nl : U64) (rows : U8) (bt sib : U64) (x : U64 × H) : U64 × H :=
  if udCond nl rows bt sib x.1 then (calcPrevPosition x.1 bt rows, x.2) else x

/-! ### sorting a list with a sorted prefix -/

theorem sortBy_append_of_sorted {α : Type} (key : α → U64) (A rest : List α)
    (hA : A.Pairwise (fun a b => key a ≤ key b)) :
    sortBy key (A ++ rest) = rest.foldl (fun acc x => insertBy key x acc) A := by
  unfold sortBy
  rw [List.foldl_append, foldl_insertBy_eq_append key A [] (by simpa using hA)]
  rfl

/-- re-sorting after one entry of a sorted list moved to a smaller key -/
theorem sortBy_set_prefix {α : Type} (key : α → U64) (A B : List α) (x' : α)
    (hA : A.Pairwise (fun a b => key a ≤ key b))
    (hB : B.Pairwise (fun a b => key a ≤ key b))
    (hAB : ∀ a ∈ A, ∀ b ∈ B, key a ≤ key b) (hx : ∀ b ∈ B, key x' ≤ key b) :
    sortBy key (A ++ x' :: B) = insertBy key x' A ++ B := by
  rw [sortBy_append_of_sorted key A _ hA, List.foldl_cons]
  apply foldl_insertBy_eq_append
  rw [List.pairwise_append]
  refine ⟨ProofOps.sorted_insertBy key x' A hA, hB, ?_⟩
  intro a ha b hb
  rcases (ProofOps.mem_insertBy key x' a A).1 ha with rfl | ha
  · exact hx b hb
  · exact hAB a ha b hb

theorem set_append_length {α : Type} (A : List α) (x x' : α) (B : List α) :
    (A ++ x :: B).set A.length x' = A ++ x' :: B := by
  induction A with
  | nil => rfl
  | cons a t ih => simp [ih]

theorem getElem?_append_length {α : Type} (A : List α) (x : α) (B : List α) :
    (A ++ x :: B)[A.length]? = some x := by
  simp

/-! ### `udTargets` -/

theorem udTargets_skip (nl : U64) (rows : U8) (bt : U64) (bh : H) (sib : U64) (fuel i : Nat)
    (tw np : HP H) (x : U64 × H) (hx : tw[i]? = some x) (hc : udCond nl rows bt sib x.1 = false) :
    udTargets nl rows bt bh sib (fuel + 1) i tw np = udTargets nl rows bt bh sib fuel (i + 1) tw np := by
  obtain ⟨t, h⟩ := x
  rw [udTargets, hx]
  simp only
  unfold udCond at hc
  by_cases h1 : ((DetectOffset t nl).1 != (DetectOffset bt nl).1) = true
  · rw [if_pos h1]
  · rw [if_neg h1]
    have h1' : ((DetectOffset t nl).1 != (DetectOffset bt nl).1) = false := by simpa using h1
    rw [h1'] at hc
    simp only [Bool.not_false, Bool.true_and] at hc
    rw [hc]
    simp

theorem udTargets_hit (nl : U64) (rows : U8) (bt : U64) (bh : H) (sib : U64) (fuel i : Nat)
    (tw np : HP H) (x : U64 × H) (hx : tw[i]? = some x) (hc : udCond nl rows bt sib x.1 = true) :
    udTargets nl rows bt bh sib (fuel + 1) i tw np =
      udTargets nl rows bt bh sib fuel (i + 1)
        (sortHP (tw.set i (calcPrevPosition x.1 bt rows, x.2))) (sortHP (np ++ [(bt, bh)])) := by
  obtain ⟨t, h⟩ := x
  rw [udTargets, hx]
  simp only
  unfold udCond at hc
  simp only [Bool.and_eq_true, Bool.not_eq_true'] at hc
  obtain ⟨h1, h2⟩ := hc
  rw [if_neg (by rw [h1]; simp), if_pos h2]

/-- **the target loop**: on a strictly sorted list whose hits move to smaller positions, the
result is the sorted list of the mapped entries -/
theorem udTargets_fst (nl : U64) (rows : U8) (bt : U64) (bh : H) (sib : U64) :
    ∀ (B A np : HP H) (fuel : Nat), B.length < fuel →
      A.Pairwise (fun a b => a.1 ≤ b.1) → B.Pairwise (fun a b => a.1 < b.1) →
      (∀ a ∈ A, ∀ b ∈ B, a.1 < b.1) →
      (∀ x ∈ B, udCond nl rows bt sib x.1 = true → calcPrevPosition x.1 bt rows < x.1) →
      (udTargets nl rows bt bh sib fuel A.length (A ++ B) np).1 =
        (B.map (udMap nl rows bt sib)).foldl (fun acc x => insertBy (·.1) x acc) A := by
  intro B
  induction B with
  | nil =>
    intro A np fuel hf _ _ _ _
    obtain ⟨f, rfl⟩ : ∃ f, fuel = f + 1 := ⟨fuel - 1, by simp at hf; omega⟩
    rw [udTargets]
    simp
  | cons x B' ih =>
    intro A np fuel hf hA hB hAB hprev
    obtain ⟨f, rfl⟩ : ∃ f, fuel = f + 1 := ⟨fuel - 1, by simp at hf; omega⟩
    rw [List.pairwise_cons] at hB
    have hget := getElem?_append_length A x B'
    have hB'le : B'.Pairwise (fun a b => a.1 ≤ b.1) := hB.2.imp (fun h => by bv_omega)
    rw [List.map_cons, List.foldl_cons]
    cases hc : udCond nl rows bt sib x.1 with
    | false =>
      rw [udTargets_skip nl rows bt bh sib f A.length _ np x hget hc]
      have e : udMap nl rows bt sib x = x := by unfold udMap; rw [hc]; rfl
      rw [e, insertBy_eq_append (·.1) x A (fun y hy => by
        have := hAB y hy x List.mem_cons_self; bv_omega)]
      have e2 : A ++ x :: B' = (A ++ [x]) ++ B' := by simp
      have e3 : A.length + 1 = (A ++ [x]).length := by simp
      rw [e2, e3]
      apply ih (A ++ [x]) np f (by simp at hf; omega)
      · rw [List.pairwise_append]
        refine ⟨hA, by simp, ?_⟩
        intro a ha b hb
        simp only [List.mem_singleton] at hb
        subst hb
        have := hAB a ha b List.mem_cons_self
        bv_omega
      · exact hB.2
      · intro a ha b hb
        rcases List.mem_append.1 ha with ha | ha
        · exact hAB a ha b (List.mem_cons_of_mem _ hb)
        · simp only [List.mem_singleton] at ha
          subst ha
          exact hB.1 b hb
      · exact fun y hy => hprev y (List.mem_cons_of_mem _ hy)
    | true =>
      rw [udTargets_hit nl rows bt bh sib f A.length _ np x hget hc]
      have hlt := hprev x List.mem_cons_self hc
      have e : udMap nl rows bt sib x = (calcPrevPosition x.1 bt rows, x.2) := by
        unfold udMap; rw [hc]; rfl
      rw [e, set_append_length]
      have hsort : sortHP (A ++ (calcPrevPosition x.1 bt rows, x.2) :: B') =
          insertBy (·.1) (calcPrevPosition x.1 bt rows, x.2) A ++ B' := by
        apply sortBy_set_prefix (fun z : U64 × H => z.1) A B' _ hA hB'le
        · intro a ha b hb
          have := hAB a ha b (List.mem_cons_of_mem _ hb)
          bv_omega
        · intro b hb
          have := hB.1 b hb
          show calcPrevPosition x.1 bt rows ≤ b.1
          bv_omega
      rw [hsort]
      have e3 : A.length + 1 = (insertBy (·.1) (calcPrevPosition x.1 bt rows, x.2) A).length := by
        rw [(ProofOps.perm_insertBy _ _ _).length_eq]; simp
      rw [e3]
      apply ih _ _ f (by simp at hf; omega)
      · exact ProofOps.sorted_insertBy _ _ _ hA
      · exact hB.2
      · intro a ha b hb
        rcases (ProofOps.mem_insertBy _ _ a A).1 ha with rfl | ha
        · have := hB.1 b hb
          show calcPrevPosition x.1 bt rows < b.1
          bv_omega
        · exact hAB a ha b (List.mem_cons_of_mem _ hb)
      · exact fun y hy => hprev y (List.mem_cons_of_mem _ hy)

theorem udTargets_spec (nl : U64) (rows : U8) (bt : U64) (bh : H) (sib : U64) (tw np : HP H)
    (hs : tw.Pairwise (fun a b => a.1 < b.1))
    (hprev : ∀ x ∈ tw, udCond nl rows bt sib x.1 = true → calcPrevPosition x.1 bt rows < x.1) :
    (udTargets nl rows bt bh sib (tw.length + 1) 0 tw np).1 =
      sortHP (tw.map (udMap nl rows bt sib)) := by
  have := udTargets_fst nl rows bt bh sib tw [] np (tw.length + 1) (by omega) List.Pairwise.nil hs
    (by simp) hprev
  simpa [sortHP, sortBy] using this

/-- the second component: sorted, and every new entry is the block target -/
theorem udTargets_snd (nl : U64) (rows : U8) (bt : U64) (bh : H) (sib : U64) :
    ∀ (fuel i : Nat) (tw np : HP H), np.Pairwise (fun a b => a.1 ≤ b.1) →
      ((udTargets nl rows bt bh sib fuel i tw np).2).Pairwise (fun a b => a.1 ≤ b.1) ∧
      ∀ z ∈ (udTargets nl rows bt bh sib fuel i tw np).2, z ∈ np ∨ z = (bt, bh) := by
  intro fuel
  induction fuel with
  | zero => intro i tw np hnp; exact ⟨hnp, fun z hz => Or.inl hz⟩
  | succ f ih =>
    intro i tw np hnp
    cases hx : tw[i]? with
    | none =>
      rw [udTargets, hx]
      exact ⟨hnp, fun z hz => Or.inl hz⟩
    | some x =>
      cases hc : udCond nl rows bt sib x.1 with
      | false =>
        rw [udTargets_skip nl rows bt bh sib f i tw np x hx hc]
        exact ih _ _ _ hnp
      | true =>
        rw [udTargets_hit nl rows bt bh sib f i tw np x hx hc]
        obtain ⟨h1, h2⟩ := ih (i + 1) (sortHP (tw.set i (calcPrevPosition x.1 bt rows, x.2)))
          (sortHP (np ++ [(bt, bh)])) (ProofOps.sorted_sortBy _ _)
        refine ⟨h1, ?_⟩
        intro z hz
        rcases h2 z hz with h | h
        · have := (ProofOps.mem_sortBy _ z _).1 h
          rcases List.mem_append.1 this with h' | h'
          · exact Or.inl h'
          · right; simpa using h'
        · exact Or.inr h

/-! ### merging one entry into a sorted list -/

theorem mergeHP_cons_single_lt (x y : U64 × H) (xs : HP H) (h : x.1 < y.1) :
    mergeHP (x :: xs) [y] = x :: mergeHP xs [y] := by
  rw [mergeHP, if_pos h]

theorem mergeHP_cons_single_eq (x y : U64 × H) (xs : HP H) (h : x.1 = y.1) :
    mergeHP (x :: xs) [y] = x :: xs := by
  rw [mergeHP, if_neg (by rw [h]; exact BitVec.lt_irrefl _), if_neg (by rw [h]; exact BitVec.lt_irrefl _)]
  cases xs <;> simp [mergeHP]

theorem mergeHP_cons_single_gt (x y : U64 × H) (xs : HP H) (h : y.1 < x.1) :
    mergeHP (x :: xs) [y] = y :: x :: xs := by
  rw [mergeHP, if_neg (by bv_omega), if_pos h]
  simp [mergeHP]

theorem mergeHP_nil_single (y : U64 × H) : mergeHP ([] : HP H) [y] = [y] := by
  simp [mergeHP]

theorem mergeHP_append_single (A B : HP H) (y : U64 × H) (h : ∀ a ∈ A, a.1 < y.1) :
    mergeHP (A ++ B) [y] = A ++ mergeHP B [y] := by
  induction A with
  | nil => rfl
  | cons a t ih =>
    rw [List.cons_append, mergeHP_cons_single_lt _ _ _ (h a List.mem_cons_self),
      ih (fun z hz => h z (List.mem_cons_of_mem _ hz))]
    rfl

/-- merging an entry whose position is already present changes nothing -/
theorem mergeHP_absorb : ∀ (L : HP H) (y : U64 × H), L.Pairwise (fun a b => a.1 ≤ b.1) →
    (∃ z ∈ L, z.1 = y.1) → mergeHP L [y] = L := by
  intro L
  induction L with
  | nil => intro y _ h; obtain ⟨z, hz, _⟩ := h; cases hz
  | cons x xs ih =>
    intro y hs hex
    rw [List.pairwise_cons] at hs
    by_cases h1 : x.1 < y.1
    · rw [mergeHP_cons_single_lt _ _ _ h1, ih y hs.2]
      obtain ⟨z, hz, hzy⟩ := hex
      rcases List.mem_cons.1 hz with rfl | hz
      · exfalso; rw [hzy] at h1; exact BitVec.lt_irrefl _ h1
      · exact ⟨z, hz, hzy⟩
    · by_cases h2 : x.1 = y.1
      · exact mergeHP_cons_single_eq _ _ _ h2
      · exfalso
        obtain ⟨z, hz, hzy⟩ := hex
        rcases List.mem_cons.1 hz with rfl | hz
        · exact h2 hzy
        · have := hs.1 z hz
          bv_omega

theorem mem_keys_mergeHP_single (L : HP H) (y : U64 × H) : ∃ z ∈ mergeHP L [y], z.1 = y.1 := by
  have : y.1 ∈ (mergeHP L [y]).positions := by
    rw [ProofOps.mergeHP_positions, ProofOps.mem_mergeU64]
    right
    simp [HP.positions]
  obtain ⟨z, hz, e⟩ := mem_positions.1 this
  exact ⟨z, hz, e⟩

/-- a sorted list with pairwise different keys is strictly sorted -/
theorem strict_of_sorted_nodup {l : HP H} (hs : l.Pairwise (fun a b => a.1 ≤ b.1))
    (hnd : (l.map (·.1)).Nodup) : l.Pairwise (fun a b => a.1 < b.1) := by
  have := ProofOps.strict_of_sorted_nodup (l.map (·.1)) (by rw [List.pairwise_map]; exact hs) hnd
  rw [List.pairwise_map] at this
  exact this

/-! ### `udProofs` -/

section proofs
variable [Hasher H]

/-- the position the loop reads at index `i` -/
def udRead (frozen : Option (List U64)) (pw : HP H) (i : Nat) : Option U64 :=
  match frozen with
  | some arr => arr[i]?
  | none => (pw[i]?).map (·.1)

/-- the recomputed parent hash -/
def udParentH (bt : U64) (bh sh : H) : H := if isLeftNiece bt then ph bh sh else ph sh bh

theorem udProofs_skip (nl : U64) (rows : U8) (bt : U64) (bh : H) (sib : U64) (fuel i n : Nat)
    (frozen : Option (List U64)) (pw : HP H) (hi : i < n) (t : U64)
    (hr : udRead frozen pw i = some t) (hc : udCond nl rows bt sib t = false) :
    udProofs nl rows bt bh sib (fuel + 1) i n frozen pw =
      udProofs nl rows bt bh sib fuel (i + 1) n frozen pw := by
  unfold udCond at hc
  cases frozen with
  | none =>
    rw [udProofs, if_neg (by omega)]
    unfold udRead at hr
    simp only at hr ⊢
    rw [hr]
    simp only
    by_cases h1 : ((DetectOffset t nl).1 != (DetectOffset bt nl).1) = true
    · rw [if_pos h1]
    · rw [if_neg h1]
      have h1' : ((DetectOffset t nl).1 != (DetectOffset bt nl).1) = false := by simpa using h1
      rw [h1'] at hc
      simp only [Bool.not_false, Bool.true_and] at hc
      rw [hc]
      simp
  | some arr =>
    rw [udProofs, if_neg (by omega)]
    unfold udRead at hr
    simp only at hr ⊢
    rw [hr]
    simp only
    by_cases h1 : ((DetectOffset t nl).1 != (DetectOffset bt nl).1) = true
    · rw [if_pos h1]
    · rw [if_neg h1]
      have h1' : ((DetectOffset t nl).1 != (DetectOffset bt nl).1) = false := by simpa using h1
      rw [h1'] at hc
      simp only [Bool.not_false, Bool.true_and] at hc
      rw [hc]
      simp

theorem udProofs_hit (nl : U64) (rows : U8) (bt : U64) (bh : H) (sib : U64) (fuel i n : Nat)
    (frozen : Option (List U64)) (pw : HP H) (hi : i < n) (t : U64)
    (hr : udRead frozen pw i = some t) (hc : udCond nl rows bt sib t = true) (x : U64 × H)
    (hx : pw[i]? = some x) :
    udProofs nl rows bt bh sib (fuel + 1) i n frozen pw =
      udProofs nl rows bt bh sib fuel (i + 1) n
        (some (frozen.getD (sortHP (pw.set i (calcPrevPosition t bt rows, x.2))).positions))
        (mergeHP (sortHP (pw.set i (calcPrevPosition t bt rows, x.2)))
          [(sib, udParentH bt bh x.2)]) := by
  obtain ⟨xp, xh⟩ := x
  unfold udCond at hc
  simp only [Bool.and_eq_true, Bool.not_eq_true'] at hc
  obtain ⟨h1, h2⟩ := hc
  cases frozen with
  | none =>
    rw [udProofs, if_neg (by omega)]
    unfold udRead at hr
    simp only at hr ⊢
    rw [hr]
    simp only
    rw [if_neg (by rw [h1]; simp), if_pos h2, hx]
    rfl
  | some arr =>
    rw [udProofs, if_neg (by omega)]
    unfold udRead at hr
    simp only at hr ⊢
    rw [hr]
    simp only
    rw [if_neg (by rw [h1]; simp), if_pos h2, hx]
    rfl

/-- once no remaining position passes the test the loop returns its pile -/
theorem udProofs_done (nl : U64) (rows : U8) (bt : U64) (bh : H) (sib : U64) (n : Nat)
    (frozen : Option (List U64)) (pw : HP H) : ∀ (fuel i : Nat),
    (∀ j, i ≤ j → j < n → ∃ t, udRead frozen pw j = some t ∧ udCond nl rows bt sib t = false) →
    udProofs nl rows bt bh sib fuel i n frozen pw = .ok pw := by
  intro fuel
  induction fuel with
  | zero => intro i _; rfl
  | succ f ih =>
    intro i h
    by_cases hi : i < n
    · obtain ⟨t, hr, hc⟩ := h i (Nat.le_refl _) hi
      rw [udProofs_skip nl rows bt bh sib f i n frozen pw hi t hr hc]
      exact ih (i + 1) (fun j hj hjn => h j (by omega) hjn)
    · cases frozen <;> rw [udProofs, if_pos (by omega)]

end proofs

/-- postcondition of the proof loop: strictly sorted, contains every mapped entry, and nothing
else except possibly entries at the sibling position -/
structure UdPost (f : U64 × H → U64 × H) (c : U64 → Bool) (sib : U64) (orig pw : HP H) : Prop where
  sorted : pw.Pairwise (fun a b => a.1 < b.1)
  mapped : ∀ x ∈ orig, f x ∈ pw
  only : ∀ z ∈ pw, (∃ x ∈ orig, z = f x) ∨ (z.1 = sib ∧ ∃ x ∈ orig, c x.1 = true)

theorem single_sorted {E : HP H} {sib : U64} (hE : E = [] ∨ ∃ g, E = [(sib, g)]) :
    E.Pairwise (fun a b => a.1 < b.1) := by
  rcases hE with rfl | ⟨g, rfl⟩ <;> simp

/-- the state of the loop once no remaining entry passes the test satisfies the postcondition -/
theorem post_of_state (f : U64 × H → U64 × H) (c : U64 → Bool) (sib : U64) (O1 O2 A E : HP H)
    (hs : (O1 ++ O2).Pairwise (fun a b => a.1 < b.1))
    (hnd : (((O1 ++ O2).map f).map (·.1)).Nodup)
    (hA : A.Pairwise (fun a b => a.1 ≤ b.1)) (hperm : A.Perm (O1.map f))
    (hAP : ∀ a ∈ A, a.1 < sib) (hAB : ∀ a ∈ A, ∀ b ∈ O2, a.1 < b.1)
    (hE : E = [] ∨ ∃ g, E = [(sib, g)]) (hEw : E ≠ [] → ∃ x ∈ O1, c x.1 = true)
    (hid : ∀ x ∈ O2, f x = x) :
    UdPost f c sib (O1 ++ O2) (A ++ mergeHP O2 E) := by
  have hO2 : O2.Pairwise (fun a b => a.1 < b.1) := (List.pairwise_append.1 hs).2.1
  have hEs := single_sorted hE
  have hmem : ∀ z, z ∈ mergeHP O2 E → z ∈ O2 ∨ z ∈ E := fun z => ProofOps.mem_mergeHP _ _ z
  have hkeys : (A.map (·.1)).Nodup := by
    have h1 : ((O1.map f).map (·.1)).Nodup := by
      rw [List.map_append, List.map_append] at hnd
      exact (List.nodup_append.1 hnd).1
    exact ((hperm.map (·.1)).nodup_iff).2 h1
  refine ⟨?_, ?_, ?_⟩
  · rw [List.pairwise_append]
    refine ⟨strict_of_sorted_nodup hA hkeys, mergeHP_sorted _ _ hO2 hEs, ?_⟩
    intro a ha b hb
    rcases hmem b hb with h | h
    · exact hAB a ha b h
    · rcases hE with rfl | ⟨g, rfl⟩
      · cases h
      · simp only [List.mem_singleton] at h
        subst h
        exact hAP a ha
  · intro x hx
    rcases List.mem_append.1 hx with h | h
    · exact List.mem_append_left _ (hperm.mem_iff.2 (List.mem_map_of_mem h))
    · rw [hid x h]
      exact List.mem_append_right _ ((mem_mergeHP_iff _ _ hO2 hEs x).2 (Or.inl h))
  · intro z hz
    rcases List.mem_append.1 hz with h | h
    · obtain ⟨x, hx, e⟩ := List.mem_map.1 (hperm.mem_iff.1 h)
      exact Or.inl ⟨x, List.mem_append_left _ hx, e.symm⟩
    · rcases hmem z h with h' | h'
      · exact Or.inl ⟨z, List.mem_append_right _ h', (hid z h').symm⟩
      · rcases hE with rfl | ⟨g, rfl⟩
        · cases h'
        · simp only [List.mem_singleton] at h'
          subst h'
          obtain ⟨x, hx, hcx⟩ := hEw (by simp)
          exact Or.inr ⟨rfl, x, List.mem_append_left _ hx, hcx⟩

section proofs2
variable [Hasher H]

/-- **the proof loop**, by induction on the part of the original list that is still to be
visited (`O2`); `A` is the re-sorted image of the visited part `O1`, `E` the entry inserted at the
sibling position (if any) -/
theorem udProofs_main (nl : U64) (rows : U8) (bt : U64) (bh : H) (sib : U64) :
    ∀ (O2 O1 A E : HP H) (frozen : Option (List U64)) (fuel : Nat),
    O2.length < fuel →
    (O1 ++ O2).Pairwise (fun a b => a.1 < b.1) →
    (∀ x ∈ O1 ++ O2, udCond nl rows bt sib x.1 = true →
      calcPrevPosition x.1 bt rows < x.1 ∧ x.1 ≤ sib) →
    (((O1 ++ O2).map (udMap nl rows bt sib)).map (·.1)).Nodup →
    A.length = O1.length →
    A.Pairwise (fun a b => a.1 ≤ b.1) →
    A.Perm (O1.map (udMap nl rows bt sib)) →
    (∀ a ∈ A, a.1 < sib) →
    (∀ a ∈ A, ∀ b ∈ O2, a.1 < b.1) →
    (E = [] ∨ ∃ g, E = [(sib, g)]) →
    (E ≠ [] → ∃ x ∈ O1, udCond nl rows bt sib x.1 = true) →
    (frozen = none → A = O1 ∧ E = []) →
    (∀ arr, frozen = some arr → ∀ j, O1.length ≤ j → j < (O1 ++ O2).length →
      arr[j]? = ((O1 ++ O2)[j]?).map (·.1)) →
    ∃ pwf, udProofs nl rows bt bh sib fuel O1.length (O1 ++ O2).length frozen
        (A ++ mergeHP O2 E) = .ok pwf ∧
      UdPost (udMap nl rows bt sib) (udCond nl rows bt sib) sib (O1 ++ O2) pwf := by
  intro O2
  induction O2 with
  | nil =>
    intro O1 A E frozen fuel _ hs _ hnd _ hA hperm hAP hAB hE hEw _ _
    refine ⟨A ++ mergeHP [] E, ?_, post_of_state _ _ sib O1 [] A E hs hnd hA hperm hAP hAB hE hEw
      (fun x hx => by cases hx)⟩
    apply udProofs_done
    intro j hj hjn
    simp at hjn
    omega
  | cons x O2' ih =>
    intro O1 A E frozen fuel hf hs hprev hnd hlen hA hperm hAP hAB hE hEw hfz1 hfz2
    obtain ⟨f, rfl⟩ : ∃ f, fuel = f + 1 := ⟨fuel - 1, by simp at hf; omega⟩
    have hO2 : (x :: O2').Pairwise (fun a b => a.1 < b.1) := (List.pairwise_append.1 hs).2.1
    have hO2' := (List.pairwise_cons.1 hO2).2
    have hxlt : ∀ b ∈ O2', x.1 < b.1 := (List.pairwise_cons.1 hO2).1
    have hi : O1.length < (O1 ++ x :: O2').length := by simp
    have hEs := single_sorted hE
    -- the loop reads the position of `x`
    have hread : udRead frozen (A ++ mergeHP (x :: O2') E) O1.length = some x.1 := by
      unfold udRead
      cases hfr : frozen with
      | none =>
        obtain ⟨e1, e2⟩ := hfz1 hfr
        subst e1 e2
        rw [ProofOps.mergeHP_nil_right]
        simp
      | some arr =>
        simp only
        rw [hfz2 arr hfr O1.length (Nat.le_refl _) hi]
        simp
    have e2 : O1 ++ x :: O2' = (O1 ++ [x]) ++ O2' := by simp
    have e3 : O1.length + 1 = (O1 ++ [x]).length := by simp
    cases hc : udCond nl rows bt sib x.1 with
    | false =>
      have hfx : udMap nl rows bt sib x = x := by unfold udMap; rw [hc]; rfl
      by_cases hlt : x.1 < sib
      · -- not a hit, below the sibling position: move on
        rw [udProofs_skip nl rows bt bh sib f O1.length _ frozen _ hi x.1 hread hc]
        have hdec : A ++ mergeHP (x :: O2') E = (A ++ [x]) ++ mergeHP O2' E := by
          rcases hE with rfl | ⟨g, rfl⟩
          · rw [ProofOps.mergeHP_nil_right, ProofOps.mergeHP_nil_right]; simp
          · rw [mergeHP_cons_single_lt _ _ _ hlt]; simp
        rw [hdec, e3]
        have := ih (O1 ++ [x]) (A ++ [x]) E frozen f (by simp at hf; omega) (by rw [← e2]; exact hs)
          (by rw [← e2]; exact hprev) (by rw [← e2]; exact hnd)
          (by simp [hlen])
          (by
            rw [List.pairwise_append]
            refine ⟨hA, by simp, ?_⟩
            intro a ha b hb
            simp only [List.mem_singleton] at hb
            subst hb
            have := hAB a ha b List.mem_cons_self
            bv_omega)
          (by
            rw [List.map_append, List.map_cons, List.map_nil, hfx]
            exact hperm.append_right _)
          (by
            intro a ha
            rcases List.mem_append.1 ha with h | h
            · exact hAP a h
            · simp only [List.mem_singleton] at h; subst h; exact hlt)
          (by
            intro a ha b hb
            rcases List.mem_append.1 ha with h | h
            · exact hAB a h b (List.mem_cons_of_mem _ hb)
            · simp only [List.mem_singleton] at h; subst h; exact hxlt b hb)
          hE
          (by
            intro hne
            obtain ⟨y, hy, hcy⟩ := hEw hne
            exact ⟨y, List.mem_append_left _ hy, hcy⟩)
          (by
            intro hfr
            obtain ⟨h1, h2⟩ := hfz1 hfr
            exact ⟨by rw [h1], h2⟩)
          (by
            intro arr hfr j hj hjn
            rw [← e2]
            exact hfz2 arr hfr j (by simp at hj; omega) (by rw [e2]; exact hjn))
        rw [← e2] at this
        exact this
      · -- beyond the sibling position: nothing passes the test any more
        have hge : ∀ y ∈ x :: O2', udCond nl rows bt sib y.1 = false := by
          intro y hy
          cases hcy : udCond nl rows bt sib y.1 with
          | false => rfl
          | true =>
            exfalso
            have h1 := (hprev y (List.mem_append_right _ hy) hcy).2
            rcases List.mem_cons.1 hy with rfl | hy'
            · rw [hcy] at hc; cases hc
            · have := hxlt y hy'
              bv_omega
        refine ⟨A ++ mergeHP (x :: O2') E, ?_, post_of_state _ _ sib O1 (x :: O2') A E hs hnd hA hperm
          hAP hAB hE hEw (fun y hy => by unfold udMap; rw [hge y hy]; rfl)⟩
        apply udProofs_done
        intro j hj hjn
        have hjO : (O1 ++ x :: O2')[j]? = (x :: O2')[j - O1.length]? :=
          List.getElem?_append_right hj
        obtain ⟨y, hy⟩ : ∃ y, (x :: O2')[j - O1.length]? = some y := by
          have : j - O1.length < (x :: O2').length := by simp at hjn ⊢; omega
          exact ⟨_, List.getElem?_eq_getElem this⟩
        have hym : y ∈ x :: O2' := List.mem_of_getElem? hy
        refine ⟨y.1, ?_, hge y hym⟩
        unfold udRead
        cases hfr : frozen with
        | none =>
          obtain ⟨h1, h2⟩ := hfz1 hfr
          subst h1 h2
          simp only
          rw [ProofOps.mergeHP_nil_right, hjO, hy]
          rfl
        | some arr =>
          simp only
          rw [hfz2 arr hfr j hj hjn, hjO, hy]
          rfl
    | true =>
      obtain ⟨hplt, hxle⟩ := hprev x (by simp) hc
      have hfx : udMap nl rows bt sib x = (calcPrevPosition x.1 bt rows, x.2) := by
        unfold udMap; rw [hc]; rfl
      -- the pile has `x` at index `O1.length`
      obtain ⟨E', hE', hdec⟩ : ∃ E', (E' = [] ∨ ∃ g, E' = [(sib, g)]) ∧
          mergeHP (x :: O2') E = x :: mergeHP O2' E' ∧ (E = [] → E' = []) := by
        rcases hE with rfl | ⟨g, rfl⟩
        · exact ⟨[], Or.inl rfl, by rw [ProofOps.mergeHP_nil_right, ProofOps.mergeHP_nil_right],
            fun _ => rfl⟩
        · by_cases hlt : x.1 < sib
          · exact ⟨[(sib, g)], Or.inr ⟨g, rfl⟩, mergeHP_cons_single_lt _ _ _ hlt, fun h => by cases h⟩
          · have heq : x.1 = sib := by bv_omega
            exact ⟨[], Or.inl rfl, by
              rw [mergeHP_cons_single_eq _ _ _ heq, ProofOps.mergeHP_nil_right], fun h => by cases h⟩
      obtain ⟨hdec, hE0⟩ := hdec
      have hpile : A ++ mergeHP (x :: O2') E = A ++ x :: mergeHP O2' E' := by rw [hdec]
      have hgetx : (A ++ mergeHP (x :: O2') E)[O1.length]? = some x := by
        rw [hpile, ← hlen]; exact getElem?_append_length _ _ _
      rw [udProofs_hit nl rows bt bh sib f O1.length _ frozen _ hi x.1 hread hc x hgetx]
      have hE's := single_sorted hE'
      have hM'sorted : (mergeHP O2' E').Pairwise (fun a b => a.1 < b.1) := mergeHP_sorted _ _ hO2' hE's
      have hM'mem : ∀ z ∈ mergeHP O2' E', x.1 < z.1 ∨ z.1 = sib := by
        intro z hz
        rcases ProofOps.mem_mergeHP _ _ z hz with h | h
        · exact Or.inl (hxlt z h)
        · rcases hE' with rfl | ⟨g, rfl⟩
          · cases h
          · simp only [List.mem_singleton] at h; subst h; exact Or.inr rfl
      -- re-sorting
      have hset : (A ++ mergeHP (x :: O2') E).set O1.length (calcPrevPosition x.1 bt rows, x.2) =
          A ++ (calcPrevPosition x.1 bt rows, x.2) :: mergeHP O2' E' := by
        rw [hpile, ← hlen]; exact set_append_length _ _ _ _
      have hsort : sortHP (A ++ (calcPrevPosition x.1 bt rows, x.2) :: mergeHP O2' E') =
          insertBy (·.1) (calcPrevPosition x.1 bt rows, x.2) A ++ mergeHP O2' E' := by
        apply sortBy_set_prefix (fun z : U64 × H => z.1) A _ _ hA (pairwise_le_of_lt hM'sorted)
        · intro a ha b hb
          rcases hM'mem b hb with h | h
          · have := hAB a ha x List.mem_cons_self; bv_omega
          · have := hAP a ha; rw [h]; bv_omega
        · intro b hb
          show calcPrevPosition x.1 bt rows ≤ b.1
          rcases hM'mem b hb with h | h
          · bv_omega
          · rw [h]; bv_omega
      rw [hset, hsort]
      -- merging the recomputed parent
      have hA'lt : ∀ a ∈ insertBy (·.1) (calcPrevPosition x.1 bt rows, x.2) A, a.1 < sib := by
        intro a ha
        rcases (ProofOps.mem_insertBy _ _ a A).1 ha with rfl | ha
        · show calcPrevPosition x.1 bt rows < sib
          bv_omega
        · exact hAP a ha
      obtain ⟨E'', hE'', hmerge⟩ : ∃ E'', (E'' = [] ∨ ∃ g, E'' = [(sib, g)]) ∧
          mergeHP (mergeHP O2' E') [(sib, udParentH bt bh x.2)] = mergeHP O2' E'' := by
        rcases hE' with rfl | ⟨g, rfl⟩
        · exact ⟨[(sib, udParentH bt bh x.2)], Or.inr ⟨_, rfl⟩, by
            rw [ProofOps.mergeHP_nil_right]⟩
        · refine ⟨[(sib, g)], Or.inr ⟨g, rfl⟩, ?_⟩
          apply mergeHP_absorb _ _ (pairwise_le_of_lt hM'sorted)
          exact mem_keys_mergeHP_single O2' (sib, g)
      rw [mergeHP_append_single _ _ _ hA'lt, hmerge, e3]
      have hlenA' : (insertBy (·.1) (calcPrevPosition x.1 bt rows, x.2) A).length =
          (O1 ++ [x]).length := by
        rw [(ProofOps.perm_insertBy _ _ _).length_eq]; simp [hlen]
      have := ih (O1 ++ [x]) (insertBy (·.1) (calcPrevPosition x.1 bt rows, x.2) A) E''
        (some (frozen.getD (HP.positions (insertBy (·.1) (calcPrevPosition x.1 bt rows, x.2) A ++
          mergeHP O2' E')))) f (by simp at hf; omega) (by rw [← e2]; exact hs)
        (by rw [← e2]; exact hprev) (by rw [← e2]; exact hnd)
        hlenA' (ProofOps.sorted_insertBy _ _ _ hA)
        (by
          rw [List.map_append, List.map_cons, List.map_nil, hfx]
          refine (ProofOps.perm_insertBy _ _ _).trans ?_
          refine (List.Perm.cons _ hperm).trans ?_
          exact (List.perm_append_singleton _ _).symm)
        hA'lt
        (by
          intro a ha b hb
          rcases (ProofOps.mem_insertBy _ _ a A).1 ha with rfl | ha
          · have := hxlt b hb
            show calcPrevPosition x.1 bt rows < b.1
            bv_omega
          · exact hAB a ha b (List.mem_cons_of_mem _ hb))
        hE'' (fun _ => ⟨x, by simp, hc⟩) (by intro h; cases h)
        (by
          intro arr harr j hj hjn
          rw [← e2]
          simp only [List.length_append, List.length_cons, List.length_nil] at hj
          cases hfr : frozen with
          | some arr0 =>
            rw [hfr] at harr
            simp only [Option.getD_some, Option.some.injEq] at harr
            subst harr
            exact hfz2 arr0 hfr j (by omega) (by rw [e2]; exact hjn)
          | none =>
            rw [hfr] at harr
            simp only [Option.getD_none, Option.some.injEq] at harr
            subst harr
            obtain ⟨h1, h2⟩ := hfz1 hfr
            have hE'0 : E' = [] := hE0 h2
            subst hE'0
            rw [ProofOps.mergeHP_nil_right]
            unfold HP.positions
            rw [List.getElem?_map, List.getElem?_append_right (by rw [hlenA']; simp; omega),
              List.getElem?_append_right (by omega), hlenA']
            simp only [List.length_append, List.length_cons, List.length_nil]
            rw [show j - O1.length = (j - (O1.length + 0 + 1)) + 1 by omega, List.getElem?_cons_succ])
      rw [← e2] at this
      exact this

/-- **the proof loop on a strictly sorted pile** -/
theorem udProofs_spec (nl : U64) (rows : U8) (bt : U64) (bh : H) (sib : U64) (pw : HP H)
    (hs : pw.Pairwise (fun a b => a.1 < b.1))
    (hprev : ∀ x ∈ pw, udCond nl rows bt sib x.1 = true →
      calcPrevPosition x.1 bt rows < x.1 ∧ x.1 ≤ sib)
    (hnd : ((pw.map (udMap nl rows bt sib)).map (·.1)).Nodup) :
    ∃ pwf, udProofs nl rows bt bh sib (pw.length + 1) 0 pw.length none pw = .ok pwf ∧
      UdPost (udMap nl rows bt sib) (udCond nl rows bt sib) sib pw pwf := by
  have := udProofs_main nl rows bt bh sib pw [] [] [] none (pw.length + 1) (by omega)
    (by simpa using hs) (by simpa using hprev) (by simpa using hnd) rfl
    List.Pairwise.nil (by simp) (by simp) (by simp) (Or.inl rfl) (fun h => absurd rfl h)
    (fun _ => ⟨rfl, rfl⟩)
    (by intro arr h; cases h)
  rw [ProofOps.mergeHP_nil_right] at this
  simpa using this

end proofs2

end
end UtreexoVerif.Proofs.ProofUndoLoops
