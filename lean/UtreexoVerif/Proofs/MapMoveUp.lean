/-
  `moveUpDescendants` of the map-forest model on the abstract state `(A, C)` of `MapRep`.

  The walk is described by the set `M` of positions strictly below `σ` that have already been
  moved: `AM σ A M` / `CM σ C M` are the two maps after exactly the nodes of `M` have moved.
  One `moveUpChild` inserts one position into `M`; a level inserts a whole row; after the
  last level `M` is everything strictly below `σ`, and `AM`/`CM` are `liftA`/`liftC`.
-/
import UtreexoVerif.Proofs.MapRep
import UtreexoVerif.Props.C16b
import UtreexoVerif.Proofs.ProofOps

namespace UtreexoVerif.Proofs.MapMoveUp
open UtreexoVerif Model Spec Spec.Forest Proofs MapAL MapInv MapPrune MapRep
set_option linter.unusedSectionVars false

variable {H : Type} [DecidableEq H] [Hasher H]

/-! ### geometry of `liftP` / `unliftP` -/

theorem pow_split {a b : Nat} (h : b ≤ a) : 2 ^ a = 2 ^ (a - b) * 2 ^ b := by
  rw [← Nat.pow_add]; congr 1; omega

theorem removeBitNat_div (v k : Nat) : removeBitNat v k / 2 ^ k = v / 2 ^ k / 2 := by
  unfold removeBitNat
  rw [Nat.mul_add_div (Nat.two_pow_pos k), Nat.div_eq_of_lt (Nat.mod_lt _ (Nat.two_pow_pos k)),
    Nat.add_zero, Nat.pow_succ, Nat.div_div_eq_div_mul]

theorem addBitNat_div (v k : Nat) (b : Bool) : addBitNat v k b / 2 ^ k = 2 * (v / 2 ^ k) + b.toNat := by
  unfold addBitNat
  rw [Nat.mul_add_div (Nat.two_pow_pos k), Nat.div_eq_of_lt (Nat.mod_lt _ (Nat.two_pow_pos k)),
    Nat.add_zero]

theorem testBit_of_div {v k a : Nat} (h : a = v / 2 ^ k) : v.testBit k = decide (a % 2 = 1) := by
  rw [Nat.testBit_eq_decide_div_mod_eq, h]

/-- a node strictly below `σ` comes back from its lifted position -/
theorem unlift_lift {σ c : Pos} (h : SUnder σ c) : unliftP σ (liftP σ c) = c := by
  obtain ⟨⟨h1, h2⟩, h3⟩ := h
  unfold unliftP liftP
  simp only
  rw [show σ.1 + 1 - (c.1 + 1) = σ.1 - c.1 by omega, ← testBit_of_div h2, addBitNat_removeBitNat]
  rfl

/-- lifting undoes unlifting (on rows `≥ 1`) -/
theorem lift_unlift {σ q : Pos} (h1 : 1 ≤ q.1) : liftP σ (unliftP σ q) = q := by
  unfold unliftP liftP
  simp only
  rw [show σ.1 - (q.1 - 1) = σ.1 + 1 - q.1 by omega, removeBitNat_addBitNat,
    show q.1 - 1 + 1 = q.1 by omega]

theorem lift_sunder {σ c : Pos} (h : SUnder σ c) : SUnder (parent σ) (liftP σ c) := by
  obtain ⟨⟨h1, h2⟩, h3⟩ := h
  refine ⟨⟨?_, ?_⟩, ?_⟩
  · show c.1 + 1 ≤ σ.1 + 1; omega
  · show σ.2 / 2 = removeBitNat c.2 (σ.1 - c.1) / 2 ^ (σ.1 + 1 - (c.1 + 1))
    rw [show σ.1 + 1 - (c.1 + 1) = σ.1 - c.1 by omega, removeBitNat_div, h2]
  · show c.1 + 1 < σ.1 + 1; omega

theorem unlift_sunder {σ q : Pos} (h : SUnder (parent σ) q) (h1 : 1 ≤ q.1) : SUnder σ (unliftP σ q) := by
  obtain ⟨⟨ha, hb⟩, hc⟩ := h
  rw [parent_fst] at ha hc
  rw [parent_fst, parent_snd] at hb
  refine ⟨⟨?_, ?_⟩, ?_⟩
  · show q.1 - 1 ≤ σ.1; omega
  · show σ.2 = addBitNat q.2 (σ.1 + 1 - q.1) (decide (σ.2 % 2 = 1)) / 2 ^ (σ.1 - (q.1 - 1))
    rw [show σ.1 - (q.1 - 1) = σ.1 + 1 - q.1 by omega, addBitNat_div, ← hb]
    by_cases h : σ.2 % 2 = 1 <;> simp [h, Bool.toNat] <;> omega
  · show q.1 - 1 < σ.1; omega

theorem lift_valid {T : Nat} {σ c : Pos} (hlt : σ.1 < T) (hc : Valid T c) (hle : c.1 ≤ σ.1) :
    Valid T (liftP σ c) := by
  refine ⟨by show c.1 + 1 ≤ T; omega, ?_⟩
  show removeBitNat c.2 (σ.1 - c.1) < 2 ^ (T - (c.1 + 1))
  apply removeBitNat_lt (by omega)
  rw [show T - (c.1 + 1) + 1 = T - c.1 by omega]
  exact hc.2

theorem sunder_parent_iff {σ q : Pos} :
    SUnder (parent σ) q ↔ (q = σ ∨ q = sib σ ∨ SUnder σ q ∨ SUnder (sib σ) q) := by
  constructor
  · rintro ⟨ha, hl⟩
    rw [parent_fst] at hl
    rcases (anc_parent_cases (show q.1 ≤ σ.1 by omega)).1 ha with h | h
    · by_cases e : σ.1 = q.1
      · exact Or.inl (h.eq_of_row e).symm
      · exact Or.inr (Or.inr (Or.inl ⟨h, by have := h.1; omega⟩))
    · by_cases e : σ.1 = q.1
      · exact Or.inr (Or.inl (h.eq_of_row (by rw [sib_fst]; exact e)).symm)
      · exact Or.inr (Or.inr (Or.inr ⟨h, by have := h.1; rw [sib_fst] at this ⊢; omega⟩))
  · rintro (rfl | rfl | h | h)
    · exact ⟨(Anc.refl _).parent, by rw [parent_fst]; omega⟩
    · refine ⟨(anc_parent_cases (by rw [sib_fst]; omega)).2 (Or.inr (Anc.refl _)), ?_⟩
      rw [parent_fst, sib_fst]; omega
    · exact ⟨h.1.parent, by have := h.2; rw [parent_fst]; omega⟩
    · refine ⟨(anc_parent_cases (by have := h.1.1; rw [sib_fst] at this; exact this)).2 (Or.inr h.1), ?_⟩
      have := h.2; rw [sib_fst] at this; rw [parent_fst]; omega

/-- a child of a node at or below `σ` lies strictly below `σ` -/
theorem child_sunder {σ p : Pos} (h : Anc σ p) (h1 : 1 ≤ p.1) (b : Nat) (hb : b < 2) :
    SUnder σ (p.1 - 1, 2 * p.2 + b) := by
  obtain ⟨ha, hb'⟩ := h
  refine ⟨⟨by show p.1 - 1 ≤ σ.1; omega, ?_⟩, by show p.1 - 1 < σ.1; omega⟩
  show σ.2 = (2 * p.2 + b) / 2 ^ (σ.1 - (p.1 - 1))
  have e : 2 ^ ((σ.1 - p.1) + 1) = 2 * 2 ^ (σ.1 - p.1) := by rw [Nat.pow_succ, Nat.mul_comm]
  rw [show σ.1 - (p.1 - 1) = (σ.1 - p.1) + 1 by omega, e,
    ← Nat.div_div_eq_div_mul, show (2 * p.2 + b) / 2 = p.2 by omega]
  exact hb'

/-- the parent of a node strictly below `σ` is at or below `σ` -/
theorem parent_anc {σ q : Pos} (h : SUnder σ q) : Anc σ (parent q) := by
  obtain ⟨⟨ha, hb⟩, hc⟩ := h
  refine ⟨by show q.1 + 1 ≤ σ.1; omega, ?_⟩
  show σ.2 = q.2 / 2 / 2 ^ (σ.1 - (q.1 + 1))
  rw [Nat.div_div_eq_div_mul, Nat.mul_comm, ← Nat.pow_succ,
    show (σ.1 - (q.1 + 1)).succ = σ.1 - q.1 by omega]
  exact hb

theorem child_of_parent (q : Pos) : q = ((parent q).1 - 1, 2 * (parent q).2 + q.2 % 2) := by
  obtain ⟨r, o⟩ := q
  show (r, o) = (r + 1 - 1, 2 * (o / 2) + o % 2)
  congr 1 <;> omega

/-! ### one `moveUpChild` on a represented state -/

/-- child `b` of `p` -/
def kid (p : Pos) (left : Bool) : Pos := (p.1 - 1, 2 * p.2 + (if left then 0 else 1))

theorem kid_valid {T : Nat} {p : Pos} (hp : Valid T p) (h1 : 1 ≤ p.1) (left : Bool) : Valid T (kid p left) := by
  unfold kid
  cases left
  · exact valid_child hp h1 1 (by omega)
  · exact valid_child hp h1 0 (by omega)

theorem moveUpChild_rep {m : MapPollard H} {T : Nat} {A : Pos → Option (Leaf H)} {C : H → Option Pos}
    (rep : Rep m T A C) {σ p : Pos} (hσ : Valid T σ) (hlt : σ.1 < T) (hp : Valid T p) (h1 : 1 ≤ p.1)
    (hle : p.1 ≤ σ.1) (left : Bool) :
    ∃ m', MapPollard.moveUpChild (sibling (encP T p)) (encP T (sib σ)) left m = (m', .ok (encP T (kid p left))) ∧
      m'.numLeaves = m.numLeaves ∧ m'.full = m.full ∧
      Rep m' T
        (match A (kid p left) with
          | some v => upd (upd A (kid p left) none) (liftP σ (kid p left)) (some v)
          | none => A)
        (match A (kid p left) with
          | some v => if (C v.hash).isSome then upd C v.hash (some (liftP σ (kid p left))) else C
          | none => C) := by
  have hT := rep.T_le
  have hsp := valid_sib hp (by omega)
  have e1 : sibling (sibling (encP T p)) = encP T p := by
    rw [sibling_encP hT hp, sibling_encP hT hsp, sib_sib]
  have hcv : Valid T (kid p left) := kid_valid hp h1 left
  have hdv : Valid T (liftP σ (kid p left)) := lift_valid hlt hcv (by show p.1 - 1 ≤ σ.1; omega)
  have ec : (if left = true then LeftChild (encP T p) (H8 T) else RightChild (encP T p) (H8 T))
      = encP T (kid p left) := by
    cases left
    · simp only [Bool.false_eq_true, if_false]; exact rightChild_encP hT hp h1
    · simp only [if_true]; rw [leftChild_encP hT hp h1]; rfl
  have hsσ := valid_sib hσ hlt
  have en : calcNextPosition (encP T (kid p left)) (encP T (sib σ)) (H8 T)
      = (encP T (liftP σ (kid p left)), false) :=
    Props.C16.calcNextPosition_enc hT (show (kid p left).1 ≤ (sib σ).1 by show p.1 - 1 ≤ σ.1; omega)
      (show (sib σ).1 < T from hlt) hcv.2 hsσ.2
  unfold MapPollard.moveUpChild
  simp only [rep.rows, e1, ec, en]
  rw [rep.node _ hcv]
  cases hA : A (kid p left) with
  | none => exact ⟨m, rfl, rfl, rfl, rep⟩
  | some v =>
    have r2 := (rep.delNode hcv).putNode hdv v
    simp only [Bool.false_eq_true, if_false]
    rw [r2.hasCached]
    cases hC : (C v.hash).isSome with
    | false => exact ⟨_, rfl, rfl, rfl, by simpa using r2⟩
    | true => exact ⟨_, rfl, rfl, rfl, by simpa using r2.putCached v.hash hdv⟩

/-! ### the state after the positions of `M` have moved -/

/-- add one position to the set of moved positions -/
def ins (M : Pos → Bool) (c : Pos) : Pos → Bool := fun t => M t || decide (t = c)

/-- `Nodes` after exactly the positions of `M` (strictly below `σ`) have moved -/
def AM (σ : Pos) (A : Pos → Option (Leaf H)) (M : Pos → Bool) : Pos → Option (Leaf H) := fun q =>
  if SUnder (parent σ) q ∧ 1 ≤ q.1 ∧ M (unliftP σ q) = true then A (unliftP σ q)
  else if M q = true then none else A q

/-- `CachedLeaves` after exactly the positions of `M` have moved -/
def CM (σ : Pos) (C : H → Option Pos) (M : Pos → Bool) : H → Option Pos := fun x =>
  (C x).map (fun t => if M t = true then liftP σ t else t)

/-- the facts about the start state that the walk relies on -/
structure Ctx (σ : Pos) (A : Pos → Option (Leaf H)) (C : H → Option Pos) : Prop where
  h1 : A σ = none
  h2 : A (sib σ) = none
  h3 : ∀ q, SUnder (sib σ) q → A q = none
  hc : ∀ c v, SUnder σ c → A c = some v → ∀ t, C v.hash = some t → t = c
  hc2 : ∀ x t, C x = some t → SUnder σ t → ∃ v, A t = some v ∧ v.hash = x

theorem ins_of_mem {M : Pos → Bool} {c : Pos} (h : M c = true) : ins M c = M := by
  funext t
  unfold ins
  by_cases e : t = c
  · subst e; simp [h]
  · simp [e]

theorem ins_self (M : Pos → Bool) (c : Pos) : ins M c c = true := by simp [ins]

theorem ins_ne (M : Pos → Bool) {c t : Pos} (h : t ≠ c) : ins M c t = M t := by simp [ins, h]

theorem ins_mono (M : Pos → Bool) (c t : Pos) (h : M t = true) : ins M c t = true := by simp [ins, h]

section step
variable {σ : Pos} {A : Pos → Option (Leaf H)} {C : H → Option Pos} {M : Pos → Bool} {c : Pos}

theorem lift_ne_self (σ c : Pos) : liftP σ c ≠ c := by
  intro e
  have : (liftP σ c).1 = c.1 := by rw [e]
  have h2 : (liftP σ c).1 = c.1 + 1 := rfl
  omega

theorem AM_self (ha : 1 ≤ c.1 → M (unliftP σ c) = false) :
    AM σ A M c = if M c = true then none else A c := by
  unfold AM
  rw [if_neg]
  rintro ⟨_, h1, h2⟩
  rw [ha h1] at h2; cases h2

theorem AM_ins_other {q : Pos} (h1 : q ≠ c) (h2 : q ≠ liftP σ c) : AM σ A (ins M c) q = AM σ A M q := by
  unfold AM
  rw [ins_ne M h1]
  by_cases hq : 1 ≤ q.1
  · have : unliftP σ q ≠ c := by
      intro e
      apply h2
      rw [← e, lift_unlift hq]
    rw [ins_ne M this]
  · simp [hq]

theorem AM_ins_self (ha : 1 ≤ c.1 → M (unliftP σ c) = false) : AM σ A (ins M c) c = none := by
  rw [AM_self, ins_self]; simp
  intro h1
  rw [ins_ne M, ha h1]
  intro e
  have : (unliftP σ c).1 = c.1 := by rw [e]
  have h2 : (unliftP σ c).1 = c.1 - 1 := rfl
  omega

theorem AM_ins_dest (hc : SUnder σ c) : AM σ A (ins M c) (liftP σ c) = A c := by
  unfold AM
  rw [unlift_lift hc, ins_self, if_pos ⟨lift_sunder hc, by show 1 ≤ c.1 + 1; omega, rfl⟩]

theorem AM_dest (hc : SUnder σ c) (hM : M c = false) :
    AM σ A M (liftP σ c) = if M (liftP σ c) = true then none else A (liftP σ c) := by
  unfold AM
  rw [unlift_lift hc, hM]
  simp

/-- the effect of one `moveUpChild` on `Nodes`, in terms of the moved set -/
theorem step_A (hc : SUnder σ c) (ha : 1 ≤ c.1 → M (unliftP σ c) = false)
    (hd : M (liftP σ c) = true ∨ A (liftP σ c) = none) (q : Pos) :
    (match AM σ A M c with
      | some v => upd (upd (AM σ A M) c none) (liftP σ c) (some v)
      | none => AM σ A M) q = AM σ A (ins M c) q := by
  have hself := AM_self (A := A) ha
  cases hM : M c with
  | true =>
    rw [hM] at hself
    simp only [if_true] at hself
    rw [hself, ins_of_mem hM]
  | false =>
    rw [hM] at hself
    simp only [Bool.false_eq_true, if_false] at hself
    have hdest : AM σ A M (liftP σ c) = none := by
      rw [AM_dest hc hM]
      rcases hd with h | h
      · simp [h]
      · simp [h]
    rw [hself]
    cases hAc : A c with
    | none =>
      simp only
      by_cases e1 : q = c
      · subst e1; rw [AM_ins_self ha, hself, hAc]
      · by_cases e2 : q = liftP σ c
        · subst e2; rw [AM_ins_dest hc, hdest, hAc]
        · rw [AM_ins_other e1 e2]
    | some v =>
      simp only
      by_cases e2 : q = liftP σ c
      · subst e2; rw [upd_self, AM_ins_dest hc, hAc]
      · rw [upd_ne _ _ e2]
        by_cases e1 : q = c
        · subst e1; rw [upd_self, AM_ins_self ha]
        · rw [upd_ne _ _ e1, AM_ins_other e1 e2]

theorem CM_ins_ne {x : H} (h : C x ≠ some c) : CM σ C (ins M c) x = CM σ C M x := by
  unfold CM
  cases hx : C x with
  | none => rfl
  | some t =>
    have : t ≠ c := by rintro rfl; exact h hx
    simp only [Option.map_some, ins_ne M this]

/-- the effect of one `moveUpChild` on `CachedLeaves`, in terms of the moved set -/
theorem step_C (ctx : Ctx σ A C) (hc : SUnder σ c) (ha : 1 ≤ c.1 → M (unliftP σ c) = false) (x : H) :
    (match AM σ A M c with
      | some v => if (CM σ C M v.hash).isSome then upd (CM σ C M) v.hash (some (liftP σ c)) else CM σ C M
      | none => CM σ C M) x = CM σ C (ins M c) x := by
  have hself := AM_self (A := A) ha
  cases hM : M c with
  | true =>
    rw [hM] at hself
    simp only [if_true] at hself
    rw [hself, ins_of_mem hM]
  | false =>
    rw [hM] at hself
    simp only [Bool.false_eq_true, if_false] at hself
    rw [hself]
    cases hAc : A c with
    | none =>
      simp only
      rw [CM_ins_ne]
      intro e
      obtain ⟨v, hv, _⟩ := ctx.hc2 x c e hc
      rw [hAc] at hv; cases hv
    | some v =>
      simp only
      cases hCv : C v.hash with
      | none =>
        have e0 : CM σ C M v.hash = none := by unfold CM; rw [hCv]; rfl
        rw [e0]
        simp only [Option.isSome_none, Bool.false_eq_true, if_false]
        rw [CM_ins_ne]
        intro e
        obtain ⟨v', hv', hx'⟩ := ctx.hc2 x c e hc
        rw [hAc] at hv'
        simp only [Option.some.injEq] at hv'
        subst hv'
        rw [hx', e] at hCv; cases hCv
      | some t =>
        have ht := ctx.hc c v hc hAc t hCv
        subst ht
        have e0 : CM σ C M v.hash = some t := by unfold CM; rw [hCv]; simp [hM]
        rw [e0]
        simp only [Option.isSome_some, if_true]
        by_cases ex : x = v.hash
        · subst ex
          rw [upd_self]
          unfold CM
          rw [hCv]
          simp [ins_self]
        · rw [upd_ne _ _ ex, CM_ins_ne]
          intro e
          obtain ⟨v', hv', hx'⟩ := ctx.hc2 x t e hc
          rw [hAc] at hv'
          simp only [Option.some.injEq] at hv'
          subst hv'
          exact ex hx'.symm

end step

theorem Ctx.hA {σ : Pos} {A : Pos → Option (Leaf H)} {C : H → Option Pos} (ctx : Ctx σ A C)
    (q : Pos) (hq : SUnder (parent σ) q) (hn : ¬ SUnder σ q) : A q = none := by
  rcases sunder_parent_iff.1 hq with rfl | rfl | h | h
  · exact ctx.h1
  · exact ctx.h2
  · exact absurd h hn
  · exact ctx.h3 q h

theorem valid_of_anc {T : Nat} {σ t : Pos} (hσ : Valid T σ) (h : Anc σ t) : Valid T t := by
  obtain ⟨h1, h2⟩ := h
  refine ⟨by have := hσ.1; omega, ?_⟩
  have := hσ.2
  rw [h2, Nat.div_lt_iff_lt_mul (Nat.two_pow_pos _), ← Nat.pow_add] at this
  rw [show T - t.1 = T - σ.1 + (σ.1 - t.1) by have := hσ.1; omega]
  exact this

/-! ### the levels -/

/-- invariant of the moved set while the parents on row `ρ` are visited -/
structure LI (σ : Pos) (ρ : Nat) (M : Pos → Bool) : Prop where
  sub : ∀ t, M t = true → SUnder σ t ∧ ρ ≤ t.1 + 1
  sup : ∀ t, SUnder σ t → ρ ≤ t.1 → M t = true

/-- at or below `σ` or its sibling -/
def Fam (σ p : Pos) : Prop := Anc σ p ∨ Anc (sib σ) p

section levels
variable {T : Nat} {σ : Pos} {A : Pos → Option (Leaf H)} {C : H → Option Pos}

theorem kid_sunder {σ p : Pos} (h : Anc σ p) (h1 : 1 ≤ p.1) (left : Bool) : SUnder σ (kid p left) := by
  unfold kid
  cases left
  · exact child_sunder h h1 1 (by omega)
  · exact child_sunder h h1 0 (by omega)

theorem child_step (ctx : Ctx σ A C) {m : MapPollard H} {M : Pos → Bool} {ρ : Nat} {p : Pos}
    (rep : Rep m T (AM σ A M) (CM σ C M)) (li : LI σ ρ M)
    (hσ : Valid T σ) (hlt : σ.1 < T) (hp : Valid T p) (hpρ : p.1 = ρ) (h1 : 1 ≤ ρ) (hρ : ρ ≤ σ.1)
    (hfam : Fam σ p) (left : Bool) :
    ∃ m' M', MapPollard.moveUpChild (sibling (encP T p)) (encP T (sib σ)) left m
        = (m', .ok (encP T (kid p left))) ∧
      m'.numLeaves = m.numLeaves ∧ m'.full = m.full ∧
      Rep m' T (AM σ A M') (CM σ C M') ∧ LI σ ρ M' ∧ (∀ t, M t = true → M' t = true) ∧
      (Anc σ p → M' (kid p left) = true) := by
  obtain ⟨m', hm, hn, hf, rep'⟩ := moveUpChild_rep rep hσ hlt hp (by omega) (by omega) left
  have hrow : (kid p left).1 = ρ - 1 := by show p.1 - 1 = ρ - 1; rw [hpρ]
  have ha : 1 ≤ (kid p left).1 → M (unliftP σ (kid p left)) = false := by
    intro _
    cases hM : M (unliftP σ (kid p left)) with
    | false => rfl
    | true =>
      have := (li.sub _ hM).2
      have e : (unliftP σ (kid p left)).1 = (kid p left).1 - 1 := rfl
      omega
  rcases hfam with hanc | hanc
  · have hc := kid_sunder hanc (by omega) left
    have hd : M (liftP σ (kid p left)) = true ∨ A (liftP σ (kid p left)) = none := by
      by_cases hs : SUnder σ (liftP σ (kid p left))
      · left
        apply li.sup _ hs
        show ρ ≤ (kid p left).1 + 1
        omega
      · right; exact ctx.hA _ (lift_sunder hc) hs
    refine ⟨m', ins M (kid p left), hm, hn, hf, ?_, ?_, ins_mono M _, fun _ => ins_self _ _⟩
    · exact rep'.congr (fun q => (step_A hc ha hd q).symm) (fun x => (step_C ctx hc ha x).symm)
    · constructor
      · intro t ht
        by_cases e : t = kid p left
        · subst e; exact ⟨hc, by omega⟩
        · rw [ins_ne M e] at ht; exact li.sub t ht
      · intro t h1 h2
        exact ins_mono M _ t (li.sup t h1 h2)
  · have hc := kid_sunder hanc (by omega) left
    have hnone : AM σ A M (kid p left) = none := by
      rw [AM_self ha]
      split
      · rfl
      · exact ctx.h3 _ hc
    rw [hnone] at rep'
    refine ⟨m', M, hm, hn, hf, rep', li, fun _ h => h, ?_⟩
    intro h
    -- `p` cannot be below both `σ` and its sibling
    exfalso
    have e1 := h.2
    have e2 := hanc.2
    rw [sib_fst] at e2
    rw [← e2] at e1
    exact sib_ne σ (Prod.ext (sib_fst σ) e1.symm)

/-- the children positions a visit of `p` (row `ρ`) reports -/
def kidsEnc (T : Nat) (ρ : Nat) (p : Pos) : List U64 :=
  if ρ = 0 then [] else [encP T (kid p true), encP T (kid p false)]

theorem nieces_step (ctx : Ctx σ A C) {m : MapPollard H} {M : Pos → Bool} {ρ : Nat} {p : Pos}
    (rep : Rep m T (AM σ A M) (CM σ C M)) (li : LI σ ρ M)
    (hσ : Valid T σ) (hlt : σ.1 < T) (hp : Valid T p) (hpρ : p.1 = ρ) (hρ : ρ ≤ σ.1)
    (hfam : Fam σ p) :
    ∃ m' M', MapPollard.moveUpNieces (encP T p) (encP T (sib σ)) m = (m', .ok (kidsEnc T ρ p)) ∧
      m'.numLeaves = m.numLeaves ∧ m'.full = m.full ∧
      Rep m' T (AM σ A M') (CM σ C M') ∧ LI σ ρ M' ∧ (∀ t, M t = true → M' t = true) ∧
      (Anc σ p → 1 ≤ ρ → ∀ left, M' (kid p left) = true) := by
  have hT := rep.T_le
  unfold MapPollard.moveUpNieces kidsEnc
  rw [rep.rows, detectRow_encP hT hp, hpρ]
  by_cases h0 : ρ = 0
  · rw [if_pos ((H8_beq_zero (by omega)).2 h0), if_pos h0]
    exact ⟨m, M, rfl, rfl, rfl, rep, li, fun _ h => h, fun _ h => by omega⟩
  · have hne : ¬ ((H8 ρ == 0#8) = true) := fun h => h0 ((H8_beq_zero (by omega)).1 h)
    rw [if_neg hne, if_neg h0]
    obtain ⟨m1, M1, e1, n1, f1, rep1, li1, mono1, k1⟩ :=
      child_step ctx rep li hσ hlt hp hpρ (by omega) hρ hfam true
    obtain ⟨m2, M2, e2, n2, f2, rep2, li2, mono2, k2⟩ :=
      child_step ctx rep1 li1 hσ hlt hp hpρ (by omega) hρ hfam false
    simp only [e1, e2]
    refine ⟨m2, M2, rfl, n2.trans n1, f2.trans f1, rep2, li2, fun t h => mono2 t (mono1 t h), ?_⟩
    intro ha _ left
    cases left
    · exact k2 ha
    · exact mono2 _ (k1 ha)

/-- the members of a level list: encodings of valid positions on row `ρ` at or below `σ` / its sibling -/
def LevelOK (T : Nat) (σ : Pos) (ρ : Nat) (L : List U64) : Prop :=
  ∀ x ∈ L, ∃ p, Valid T p ∧ p.1 = ρ ∧ Fam σ p ∧ x = encP T p

theorem level_rep (ctx : Ctx σ A C) (hσ : Valid T σ) (hlt : σ.1 < T) {ρ : Nat} (hρ : ρ ≤ σ.1) :
    ∀ (L acc : List U64) (m : MapPollard H) (M : Pos → Bool),
      Rep m T (AM σ A M) (CM σ C M) → LI σ ρ M → LevelOK T σ ρ L →
      ∃ m' M' out, MapPollard.moveUpLevel (encP T (sib σ)) L acc m = (m', .ok out) ∧
        m'.numLeaves = m.numLeaves ∧ m'.full = m.full ∧
        Rep m' T (AM σ A M') (CM σ C M') ∧ LI σ ρ M' ∧ (∀ t, M t = true → M' t = true) ∧
        (∀ p, Valid T p → p.1 = ρ → Anc σ p → 1 ≤ ρ → encP T p ∈ L → ∀ left, M' (kid p left) = true) ∧
        (∀ x, x ∈ out ↔ x ∈ acc ∨ ∃ p, Valid T p ∧ p.1 = ρ ∧ Fam σ p ∧ encP T p ∈ L ∧ x ∈ kidsEnc T ρ p) := by
  intro L
  induction L with
  | nil =>
    intro acc m M rep li _
    refine ⟨m, M, acc, rfl, rfl, rfl, rep, li, fun _ h => h, ?_, ?_⟩
    · intro p _ _ _ _ h; cases h
    · intro x
      constructor
      · exact Or.inl
      · rintro (h | ⟨p, _, _, _, h, _⟩)
        · exact h
        · cases h
  | cons x L ih =>
    intro acc m M rep li hL
    obtain ⟨p, hp, hpρ, hfam, rfl⟩ := hL x List.mem_cons_self
    obtain ⟨m1, M1, e1, n1, f1, rep1, li1, mono1, k1⟩ := nieces_step ctx rep li hσ hlt hp hpρ hρ hfam
    obtain ⟨m2, M2, out, e2, n2, f2, rep2, li2, mono2, k2, ho⟩ :=
      ih (acc ++ kidsEnc T ρ p) m1 M1 rep1 li1 (fun y hy => hL y (List.mem_cons_of_mem _ hy))
    refine ⟨m2, M2, out, ?_, n2.trans n1, f2.trans f1, rep2, li2, fun t h => mono2 t (mono1 t h), ?_, ?_⟩
    · unfold MapPollard.moveUpLevel
      simp only [e1]
      exact e2
    · intro p' hp' hp'ρ ha h1 hmem left
      rcases List.mem_cons.1 hmem with h | h
      · have := encP_inj' rep.T_le hp' hp h
        subst this
        exact mono2 _ (k1 ha h1 left)
      · exact k2 p' hp' hp'ρ ha h1 h left
    · intro y
      rw [ho y, List.mem_append]
      constructor
      · rintro ((h | h) | ⟨p', a, b, c, d, e⟩)
        · exact Or.inl h
        · exact Or.inr ⟨p, hp, hpρ, hfam, List.mem_cons_self, h⟩
        · exact Or.inr ⟨p', a, b, c, List.mem_cons_of_mem _ d, e⟩
      · rintro (h | ⟨p', a, b, c, d, e⟩)
        · exact Or.inl (Or.inl h)
        · rcases List.mem_cons.1 d with h | h
          · have := encP_inj' rep.T_le a hp h
            subst this
            exact Or.inl (Or.inr e)
          · exact Or.inr ⟨p', a, b, c, h, e⟩

theorem mem_dedupSorted (x : U64) : ∀ l : List U64, x ∈ MapPollard.dedupSorted l ↔ x ∈ l := by
  intro l
  fun_induction MapPollard.dedupSorted l with
  | case1 a t ih => rw [ih]; simp
  | case2 a b t hne ih => rw [List.mem_cons, ih]; simp
  | case3 l h => rfl

/-- every position of the row is in the level list -/
def LevelAll (T : Nat) (σ : Pos) (ρ : Nat) (L : List U64) : Prop :=
  ∀ p, Valid T p → p.1 = ρ → Fam σ p → encP T p ∈ L

theorem rep_orderDep {m : MapPollard H} {A' : Pos → Option (Leaf H)} {C' : H → Option Pos}
    (rep : Rep m T A' C') (b : Bool) :
    Rep (if b = true then { m with orderDep := m.orderDep + 1 } else m) T A' C' ∧
    (if b = true then { m with orderDep := m.orderDep + 1 } else m).numLeaves = m.numLeaves ∧
    (if b = true then { m with orderDep := m.orderDep + 1 } else m).full = m.full := by
  cases b
  · exact ⟨rep, rfl, rfl⟩
  · exact ⟨rep.of_same rfl (fun _ => rfl) (fun _ => rfl), rfl, rfl⟩

theorem kid_of_parent (q : Pos) : q = kid (parent q) (decide (q.2 % 2 = 0)) := by
  obtain ⟨r, o⟩ := q
  unfold kid
  show (r, o) = (r + 1 - 1, 2 * (o / 2) + _)
  by_cases h : o % 2 = 0
  · simp [h]; omega
  · simp [h]; omega

theorem fam_kid {p : Pos} (h : Fam σ p) (h1 : 1 ≤ p.1) (left : Bool) : Fam σ (kid p left) := by
  rcases h with h | h
  · exact Or.inl (kid_sunder h h1 left).1
  · exact Or.inr (kid_sunder h h1 left).1

theorem fam_parent {q : Pos} (h : Fam σ q) (hl : q.1 < σ.1) : Fam σ (parent q) := by
  rcases h with h | h
  · exact Or.inl (parent_anc ⟨h, hl⟩)
  · exact Or.inr (parent_anc ⟨h, by rw [sib_fst]; exact hl⟩)

theorem levels_rep (ctx : Ctx σ A C) (hσ : Valid T σ) (hlt : σ.1 < T) :
    ∀ (ρ : Nat) (L : List U64) (m : MapPollard H) (M : Pos → Bool), ρ ≤ σ.1 →
      Rep m T (AM σ A M) (CM σ C M) → LI σ ρ M → LevelOK T σ ρ L → LevelAll T σ ρ L →
      ∃ m' M', MapPollard.moveUpLevels (encP T (sib σ)) (ρ + 1) L m = (m', .ok ()) ∧
        m'.numLeaves = m.numLeaves ∧ m'.full = m.full ∧
        Rep m' T (AM σ A M') (CM σ C M') ∧ LI σ 0 M' := by
  intro ρ
  induction ρ with
  | zero =>
    intro L m M hρ rep li hL _
    obtain ⟨rep0, n0, f0⟩ := rep_orderDep rep (MapPollard.levelOrderSensitive m (encP T (sib σ)) L)
    obtain ⟨m1, M1, out, e1, n1, f1, rep1, li1, _, _, _⟩ :=
      level_rep ctx hσ hlt hρ L [] _ M rep0 li hL
    refine ⟨m1, M1, ?_, n1.trans n0, f1.trans f0, rep1, li1⟩
    unfold MapPollard.moveUpLevels
    simp only [e1]
    rfl
  | succ ρ ih =>
    intro L m M hρ rep li hL hall
    obtain ⟨rep0, n0, f0⟩ := rep_orderDep rep (MapPollard.levelOrderSensitive m (encP T (sib σ)) L)
    obtain ⟨m1, M1, out, e1, n1, f1, rep1, li1, _, k1, ho⟩ :=
      level_rep ctx hσ hlt hρ L [] _ M rep0 li hL
    have hmem : ∀ x, x ∈ MapPollard.dedupSorted (sortU64 out) ↔
        ∃ p, Valid T p ∧ p.1 = ρ + 1 ∧ Fam σ p ∧ encP T p ∈ L ∧ x ∈ kidsEnc T (ρ + 1) p := by
      intro x
      rw [mem_dedupSorted, ProofOps.mem_sortU64, ho x]
      simp
    have li' : LI σ ρ M1 := by
      constructor
      · intro t ht
        have := li1.sub t ht
        exact ⟨this.1, by omega⟩
      · intro t hs hr
        by_cases e : ρ + 1 ≤ t.1
        · exact li1.sup t hs e
        · have hr' : t.1 = ρ := by omega
          have hv := valid_of_anc hσ hs.1
          have hpv := valid_parent hv (by have := hs.2; omega)
          have hpa := parent_anc hs
          have := k1 (parent t) hpv (by rw [parent_fst]; omega) hpa (by omega)
            (hall _ hpv (by rw [parent_fst]; omega) (Or.inl hpa)) (decide (t.2 % 2 = 0))
          rw [← kid_of_parent] at this
          exact this
    have hL' : LevelOK T σ ρ (MapPollard.dedupSorted (sortU64 out)) := by
      intro x hx
      obtain ⟨p, hp, hpρ, hfam, _, hk⟩ := (hmem x).1 hx
      unfold kidsEnc at hk
      rw [if_neg (by omega)] at hk
      have : ∃ left, x = encP T (kid p left) := by
        rcases List.mem_cons.1 hk with h | h
        · exact ⟨true, h⟩
        · exact ⟨false, by simpa using h⟩
      obtain ⟨left, rfl⟩ := this
      exact ⟨kid p left, kid_valid hp (by omega) left, by show p.1 - 1 = ρ; omega,
        fam_kid hfam (by omega) left, rfl⟩
    have hall' : LevelAll T σ ρ (MapPollard.dedupSorted (sortU64 out)) := by
      intro q hq hqρ hfam
      have hpv := valid_parent hq (by omega)
      have hpf := fam_parent hfam (by omega)
      rw [hmem]
      refine ⟨parent q, hpv, by rw [parent_fst]; omega, hpf,
        hall _ hpv (by rw [parent_fst]; omega) hpf, ?_⟩
      unfold kidsEnc
      rw [if_neg (by omega)]
      have e := kid_of_parent q
      by_cases h : q.2 % 2 = 0
      · simp only [h, decide_true] at e
        rw [← e]; exact List.mem_cons_self
      · simp only [h, decide_false] at e
        rw [← e]; exact List.mem_cons_of_mem _ List.mem_cons_self
    obtain ⟨m2, M2, e2, n2, f2, rep2, li2⟩ :=
      ih (MapPollard.dedupSorted (sortU64 out)) m1 M1 (by omega) rep1 li' hL' hall'
    refine ⟨m2, M2, ?_, n2.trans (n1.trans n0), f2.trans (f1.trans f0), rep2, li2⟩
    rw [MapPollard.moveUpLevels]
    simp only [e1]
    exact e2

end levels

/-! ### `moveUpDescendants` -/

theorem AM_empty (σ : Pos) (A : Pos → Option (Leaf H)) (q : Pos) : AM σ A (fun _ => false) q = A q := by
  simp [AM]

theorem CM_empty (σ : Pos) (C : H → Option Pos) (x : H) : CM σ C (fun _ => false) x = C x := by
  unfold CM
  cases C x <;> simp

theorem AM_full {σ : Pos} {A : Pos → Option (Leaf H)} {C : H → Option Pos} (ctx : Ctx σ A C)
    {M : Pos → Bool} (li : LI σ 0 M) (q : Pos) : liftA σ A q = AM σ A M q := by
  have hM : ∀ t, M t = true ↔ SUnder σ t := fun t => ⟨fun h => (li.sub t h).1, fun h => li.sup t h (by omega)⟩
  unfold liftA AM
  by_cases hq : SUnder (parent σ) q
  · rw [if_pos hq]
    by_cases h0 : q.1 = 0
    · rw [if_pos h0, if_neg (by omega)]
      split
      · rfl
      · rename_i h
        exact (ctx.hA q hq (fun hs => h ((hM q).2 hs))).symm
    · rw [if_neg h0, if_pos ⟨hq, by omega, (hM _).2 (unlift_sunder hq (by omega))⟩]
  · rw [if_neg hq, if_neg (fun h => hq h.1)]
    have : ¬ M q = true := by
      intro h
      have hs := (hM q).1 h
      exact hq (sunder_parent_iff.2 (Or.inr (Or.inr (Or.inl hs))))
    rw [if_neg this]

theorem CM_full {σ : Pos} (C : H → Option Pos) {M : Pos → Bool} (li : LI σ 0 M) (x : H) :
    liftC σ C x = CM σ C M x := by
  have hM : ∀ t, M t = true ↔ SUnder σ t := fun t => ⟨fun h => (li.sub t h).1, fun h => li.sup t h (by omega)⟩
  unfold liftC CM
  cases C x with
  | none => rfl
  | some t =>
    simp only [Option.map_some]
    by_cases h : SUnder σ t
    · rw [if_pos h, if_pos ((hM t).2 h)]
    · rw [if_neg h, if_neg (fun h' => h ((hM t).1 h'))]

theorem moveUpDescendants_rep {m : MapPollard H} {T : Nat} {A : Pos → Option (Leaf H)} {C : H → Option Pos}
    (rep : Rep m T A C) {σ : Pos} (hσ : Valid T σ) (hlt : σ.1 < T)
    (h1 : A σ = none) (h2 : A (sib σ) = none) (h3 : ∀ q, SUnder (sib σ) q → A q = none)
    -- a stored node below σ whose hash is cached is cached at its own position
    (hc : ∀ c v, SUnder σ c → A c = some v → ∀ t, C v.hash = some t → t = c)
    -- a cached position below σ is stored with that hash
    (hc2 : ∀ x t, C x = some t → SUnder σ t → ∃ v, A t = some v ∧ v.hash = x) :
    ∃ m', MapPollard.moveUpDescendants (encP T σ) (encP T (sib σ)) m = (m', .ok ()) ∧
      Rep m' T (liftA σ A) (liftC σ C) ∧ m'.numLeaves = m.numLeaves ∧ m'.full = m.full := by
  have hT := rep.T_le
  have ctx : Ctx σ A C := ⟨h1, h2, h3, hc, hc2⟩
  unfold MapPollard.moveUpDescendants
  simp only [rep.rows, detectRow_encP hT hσ, toNat_H8 (show σ.1 ≤ 63 by omega)]
  by_cases h0 : σ.1 = 0
  · rw [if_pos h0]
    refine ⟨m, rfl, rep.congr ?_ ?_, rfl, rfl⟩
    · intro q
      unfold liftA
      split
      · rename_i hq
        have : q.1 = 0 := by have := hq.2; rw [parent_fst] at this; omega
        rw [if_pos this]
        refine (ctx.hA q hq ?_).symm
        intro hs; have := hs.2; omega
      · rfl
    · intro x
      unfold liftC
      cases C x with
      | none => rfl
      | some t =>
        simp only [Option.map_some]
        rw [if_neg]
        intro hs; have := hs.2; omega
  · rw [if_neg h0, sibling_encP hT hσ]
    have hsσ := valid_sib hσ hlt
    have rep0 : Rep m T (AM σ A (fun _ => false)) (CM σ C (fun _ => false)) :=
      rep.congr (AM_empty σ A) (CM_empty σ C)
    have li0 : LI σ σ.1 (fun _ => false) := by
      constructor
      · intro t h; cases h
      · intro t hs hr; have := hs.2; omega
    have hL : LevelOK T σ σ.1 (sortU64 [encP T σ, encP T (sib σ)]) := by
      intro x hx
      rw [ProofOps.mem_sortU64] at hx
      rcases List.mem_cons.1 hx with h | h
      · exact ⟨σ, hσ, rfl, Or.inl (Anc.refl _), h⟩
      · exact ⟨sib σ, hsσ, sib_fst σ, Or.inr (Anc.refl _), by simpa using h⟩
    have hall : LevelAll T σ σ.1 (sortU64 [encP T σ, encP T (sib σ)]) := by
      intro p _ hpρ hfam
      rw [ProofOps.mem_sortU64]
      rcases hfam with h | h
      · rw [← h.eq_of_row hpρ.symm]; exact List.mem_cons_self
      · rw [← h.eq_of_row (by rw [sib_fst]; exact hpρ.symm)]
        exact List.mem_cons_of_mem _ List.mem_cons_self
    obtain ⟨m', M', e, n, f, rep', li'⟩ :=
      levels_rep ctx hσ hlt σ.1 _ m _ (Nat.le_refl _) rep0 li0 hL hall
    exact ⟨m', e, rep'.congr (AM_full ctx li') (CM_full C li'), n, f⟩

/-! ### non-vacuity: a 4-slot forest storing the cached leaf `(0,1)` below `σ = (1,0)`; it moves to `(1,1)` -/

section example_
local instance exHasher : Hasher Nat := ⟨fun a b => a + b + 1, 0⟩

def exM : MapPollard Nat :=
  { nodes := [(encP 2 (0, 1), ⟨7, true⟩)], cached := [(7, encP 2 (0, 1))], numLeaves := 2#64,
    totalRows := H8 2, full := false }

def exA : Pos → Option (Leaf Nat) := fun q => if q = (0, 1) then some ⟨7, true⟩ else none
def exC : Nat → Option Pos := fun x => if x = 7 then some (0, 1) else none

theorem ex_rep : Rep exM 2 exA exC where
  T_le := by decide
  rows := rfl
  keys := by
    intro p l h
    unfold MapPollard.getNode exM at h
    simp only [AL.get?] at h
    split at h
    · rename_i e; exact ⟨(0, 1), by decide, e.symm⟩
    · cases h
  node := by
    intro q hq
    unfold MapPollard.getNode exM exA
    simp only [AL.get?]
    by_cases e : q = (0, 1)
    · subst e; simp
    · have : encP 2 (0, 1) ≠ encP 2 q := fun h => e (encP_inj' (by decide) (by decide) hq h).symm
      rw [if_neg this, if_neg e]
  dom := by
    intro q l h
    unfold exA at h
    split at h
    · rename_i e; subst e; decide
    · cases h
  cache := by
    intro x
    unfold MapPollard.getCached exM exC
    simp only [AL.get?]
    by_cases e : x = 7
    · subst e; simp
    · have : ¬ (7 = x) := fun h => e h.symm
      rw [if_neg this, if_neg e]; rfl
  cdom := by
    intro x t h
    unfold exC at h
    split at h
    · simp only [Option.some.injEq] at h; subst h; decide
    · cases h

example : ∃ m', MapPollard.moveUpDescendants (encP 2 (1, 0)) (encP 2 (sib (1, 0))) exM = (m', .ok ()) ∧
    Rep m' 2 (liftA (1, 0) exA) (liftC (1, 0) exC) ∧ m'.numLeaves = exM.numLeaves ∧ m'.full = exM.full := by
  refine moveUpDescendants_rep ex_rep (σ := (1, 0)) (by decide) (by decide) (by decide) (by decide) ?_ ?_ ?_
  · intro q hq
    unfold exA
    split
    · rename_i e; subst e; revert hq; decide
    · rfl
  · intro c v _ hA t hC
    unfold exA at hA
    split at hA
    · rename_i e
      simp only [Option.some.injEq] at hA
      subst hA e
      unfold exC at hC
      simpa using hC.symm
    · cases hA
  · intro x t hC _
    unfold exC at hC
    split at hC
    · rename_i e
      simp only [Option.some.injEq] at hC
      subst hC e
      exact ⟨⟨7, true⟩, by simp [exA], rfl⟩
    · cases hC

/-- and the example is not trivial: the stored, cached leaf really moves -/
example : SUnder (1, 0) (0, 1) ∧ exA (0, 1) = some ⟨7, true⟩ ∧ exC 7 = some (0, 1) ∧
    liftA (1, 0) exA (1, 1) = some ⟨7, true⟩ ∧ liftA (1, 0) exA (0, 1) = none ∧
    liftC (1, 0) exC 7 = some (1, 1) := by
  refine ⟨by decide, by decide, by decide, by decide, by decide, by decide⟩

end example_

end UtreexoVerif.Proofs.MapMoveUp

#print axioms UtreexoVerif.Proofs.MapMoveUp.moveUpDescendants_rep
