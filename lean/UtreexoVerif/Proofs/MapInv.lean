/-
  The storage invariant of a map forest (property C09) and its basic consequences.

  `Inv m F`: the model state `m` (Model/MapPollard.lean) is a correct partial view of the
  specification forest `F`:
    (i)   every stored hash is the hash of the node of `F` at that position,
    (ii)  `CachedLeaves` maps every cached hash to the position of that live leaf,
    (iii) required ⊆ stored ⊆ allowed for the cached set `K = dom CachedLeaves`,
    (iv)  (non-full forests) a stored non-root node carries the remember flag iff it is the
          position of a cached leaf.
-/
import UtreexoVerif.Proofs.MapAL
import UtreexoVerif.Proofs.ProofPosSem
import UtreexoVerif.Proofs.SpecView
import UtreexoVerif.Props.C11

namespace UtreexoVerif.Proofs.MapInv
open UtreexoVerif Model Spec Spec.Forest Proofs MapAL
set_option linter.unusedSectionVars false

variable {H : Type} [DecidableEq H] [Hasher H]

/-- `(row, offset)` is a position of the geometry with `T` rows -/
def Valid (T : Nat) (q : Pos) : Prop := q.1 ≤ T ∧ q.2 < 2 ^ (T - q.1)

/-- `q` lies on the path from the node `t` up to (and including) the root of its tree -/
def OnPath (n : Nat) (t q : Pos) : Prop := ∃ R, BelowRoot n t.1 t.2 R ∧ Anc q t ∧ q.1 ≤ R

/-- `q` is the sibling of a non-root node of the path of `t`: a position of the canonical
single-leaf proof of `t` -/
def ProofSib (n : Nat) (t q : Pos) : Prop := ∃ x, OnPath n t x ∧ isRootPos n x = false ∧ q = sib x

/-- what a forest caching the leaves `K` may store -/
def Allowed (F : Forest H) (K : H → Prop) (q : Pos) : Prop :=
  isRootPos F.numLeaves q = true ∨
    ∃ x t, K x ∧ F.posOf x = some t ∧ (OnPath F.numLeaves t q ∨ ProofSib F.numLeaves t q)

/-- what a forest caching the leaves `K` must store (so that `Prove` of every subset works) -/
def Required (F : Forest H) (K : H → Prop) (q : Pos) : Prop :=
  isRootPos F.numLeaves q = true ∨
    ∃ x t, K x ∧ F.posOf x = some t ∧ (q = t ∨ ProofSib F.numLeaves t q)

theorem Required.allowed {F : Forest H} {K : H → Prop} {q : Pos}
    (hnode : ∀ x t, F.posOf x = some t → ∃ R, BelowRoot F.numLeaves t.1 t.2 R)
    (h : Required F K q) : Allowed F K q := by
  rcases h with h | ⟨x, t, hk, hp, h⟩
  · exact Or.inl h
  · refine Or.inr ⟨x, t, hk, hp, ?_⟩
    rcases h with rfl | h
    · obtain ⟨R, hb⟩ := hnode x q hp
      exact Or.inl ⟨R, hb, Anc.refl _, hb.1⟩
    · exact Or.inr h

/-- the storage invariant -/
structure Inv (m : MapPollard H) (F : Forest H) : Prop where
  n_lt : F.numLeaves < 2 ^ 63
  n_eq : m.numLeaves = BitVec.ofNat 64 F.numLeaves
  rows_le : F.rows ≤ m.totalRows.toNat
  total_le : m.totalRows.toNat ≤ 63
  /-- (i) every stored hash is true -/
  true_hash : ∀ p l, m.getNode p = some l →
    ∃ q, Valid m.totalRows.toNat q ∧ p = encP m.totalRows.toNat q ∧ F.nodeAt q = some l.hash
  /-- (ii) the cache maps live leaves to their positions -/
  cached_pos : ∀ x p, m.getCached x = some p →
    ∃ t, F.posOf x = some t ∧ p = encP m.totalRows.toNat t
  /-- (iii) nothing beyond the roots, the cached leaves and their proof paths -/
  only_needed : ∀ q l, Valid m.totalRows.toNat q → m.getNode (encP m.totalRows.toNat q) = some l →
    Allowed F (fun x => m.hasCached x = true) q
  /-- (iii) everything `Prove` needs -/
  has_needed : ∀ q, Required F (fun x => m.hasCached x = true) q →
    m.hasNode (encP m.totalRows.toNat q) = true
  /-- (iv) remember flags of a non-full forest -/
  flags : m.full = false → ∀ q l, Valid m.totalRows.toNat q → isRootPos F.numLeaves q = false →
    m.getNode (encP m.totalRows.toNat q) = some l →
    (l.remember = true ↔ ∃ x, m.getCached x = some (encP m.totalRows.toNat q))

-- ---------- geometry glue ----------

theorem totalRows_eq_H8 (m : MapPollard H) : m.totalRows = H8 m.totalRows.toNat := by
  unfold H8; rw [BitVec.ofNat_toNat, BitVec.setWidth_eq]

theorem Valid.mono {T T' : Nat} {q : Pos} (h : Valid T q) (hT : T ≤ T') : Valid T' q :=
  ⟨Nat.le_trans h.1 hT, Nat.lt_of_lt_of_le h.2 (two_pow_le_of_le (by omega))⟩

theorem encP_inj' {T : Nat} (hT : T ≤ 63) {p q : Pos} (hp : Valid T p) (hq : Valid T q)
    (h : encP T p = encP T q) : p = q := Props.C11.encP_inj hT hp hq h

/-- a node of the forest lies below a root -/
theorem belowRoot_of_mem_nodes {F : Forest H} {x : Pos × H × Bool} (hx : x ∈ F.nodes) :
    ∃ R, BelowRoot F.numLeaves x.1.1 x.1.2 R := by
  obtain ⟨h, hh, hx⟩ := SpecNodes.mem_nodes.1 hx
  have hu := SpecNodes.treeNodes_under F h x hx
  refine ⟨h, hu.1, hh.1, ?_⟩
  rw [hu.2]; rfl

theorem mem_nodes_of_nodeAt {F : Forest H} {q : Pos} {h : H} (hq : F.nodeAt q = some h) :
    ∃ b, (q, h, b) ∈ F.nodes := SpecNodes.nodeAt_eq_some_iff.1 hq

theorem belowRoot_of_nodeAt {F : Forest H} {q : Pos} {h : H} (hq : F.nodeAt q = some h) :
    ∃ R, BelowRoot F.numLeaves q.1 q.2 R := by
  obtain ⟨b, hb⟩ := mem_nodes_of_nodeAt hq
  exact belowRoot_of_mem_nodes hb

/-- `posOf` finds a leaf node carrying the hash -/
theorem posOf_mem {F : Forest H} {x : H} {t : Pos} (h : F.posOf x = some t) : (t, x, true) ∈ F.nodes := by
  unfold Forest.posOf at h
  cases hf : F.nodes.find? (fun e => e.2.2 && e.2.1 == x) with
  | none => rw [hf] at h; simp at h
  | some e =>
    rw [hf] at h
    simp only [Option.map_some, Option.some.injEq] at h
    have hp := List.find?_some hf
    have hm := List.mem_of_find?_eq_some hf
    simp only [Bool.and_eq_true, beq_iff_eq] at hp
    obtain ⟨⟨a, b⟩, c, d⟩ := e
    simp only at hp h
    obtain ⟨hd, hc⟩ := hp
    subst hd hc h
    exact hm

theorem posOf_nodeAt {F : Forest H} {x : H} {t : Pos} (h : F.posOf x = some t) : F.nodeAt t = some x :=
  SpecNodes.nodeAt_of_mem (posOf_mem h)

theorem posOf_belowRoot {F : Forest H} {x : H} {t : Pos} (h : F.posOf x = some t) :
    ∃ R, BelowRoot F.numLeaves t.1 t.2 R := belowRoot_of_mem_nodes (posOf_mem h)

theorem numLeaves_le_pow_rows (F : Forest H) : F.numLeaves ≤ 2 ^ F.rows := SpecView.le_two_pow_forestRows _

theorem belowRoot_valid' {F : Forest H} {T : Nat} (hT : F.rows ≤ T) {q : Pos} {R : Nat}
    (hb : BelowRoot F.numLeaves q.1 q.2 R) : Valid T q := by
  have hn : F.numLeaves ≤ 2 ^ T := Nat.le_trans (numLeaves_le_pow_rows F) (two_pow_le_of_le hT)
  have := belowRoot_valid hn hb
  exact ⟨this.2.1, this.2.2⟩

theorem isRootPos_rootPos {n r : Nat} (hb : n.testBit r = true) : isRootPos n (rootPos n r) = true := by
  simp [isRootPos, rootPos, hb]

theorem eq_rootPos_of_isRootPos {n : Nat} {q : Pos} (h : isRootPos n q = true) :
    n.testBit q.1 = true ∧ q = rootPos n q.1 := by
  simp only [isRootPos, Bool.and_eq_true, beq_iff_eq] at h
  exact ⟨h.1, Prod.ext rfl h.2⟩

theorem testBit_lt_of_lt {n r k : Nat} (hn : n < 2 ^ k) (hb : n.testBit r = true) : r < k := by
  by_cases h : r < k
  · exact h
  · have : n < 2 ^ r := Nat.lt_of_lt_of_le hn (two_pow_le_of_le (by omega))
    rw [Nat.testBit_lt_two_pow this] at hb
    cases hb


-- ---------- coordinates ----------

theorem treeRows_numLeaves {m : MapPollard H} {F : Forest H} (inv : Inv m F) :
    TreeRows m.numLeaves = H8 F.rows := by
  rw [inv.n_eq]; exact SpecView.treeRows_eq inv.n_lt

theorem rows_le_63 {m : MapPollard H} {F : Forest H} (inv : Inv m F) : F.rows ≤ 63 :=
  Nat.le_trans inv.rows_le inv.total_le

/-- API coordinates (`TreeRows`) → storage coordinates (`TotalRows`), as every look-up does -/
theorem toStorage {m : MapPollard H} {F : Forest H} (inv : Inv m F) {q : Pos} (hq : Valid F.rows q) :
    (if m.totalRows ≠ TreeRows m.numLeaves then translatePos (encP F.rows q) (TreeRows m.numLeaves) m.totalRows
      else encP F.rows q) = encP m.totalRows.toNat q := by
  have hq' := hq.mono inv.rows_le
  rw [treeRows_numLeaves inv]
  split
  · have e : translatePos (encP F.rows q) (H8 F.rows) m.totalRows =
        translatePos (encP F.rows q) (H8 F.rows) (H8 m.totalRows.toNat) := by
      rw [← totalRows_eq_H8 m]
    rw [e]
    exact Props.C16.translatePos_enc (rows_le_63 inv) hq.1 hq.2 inv.total_le hq'.1 hq'.2
  · rename_i h
    have h' : m.totalRows = H8 F.rows := by simpa using h
    have : m.totalRows.toNat = F.rows := by rw [h']; exact toNat_H8 (rows_le_63 inv)
    rw [this]

/-- storage coordinates → API coordinates -/
theorem toApi {m : MapPollard H} {F : Forest H} (inv : Inv m F) {q : Pos} (hq : Valid F.rows q) :
    (if m.totalRows ≠ TreeRows m.numLeaves then translatePos (encP m.totalRows.toNat q) m.totalRows (TreeRows m.numLeaves)
      else encP m.totalRows.toNat q) = encP F.rows q := by
  have hq' := hq.mono inv.rows_le
  rw [treeRows_numLeaves inv]
  split
  · have e : translatePos (encP m.totalRows.toNat q) m.totalRows (H8 F.rows) =
        translatePos (encP m.totalRows.toNat q) (H8 m.totalRows.toNat) (H8 F.rows) := by
      rw [← totalRows_eq_H8 m]
    rw [e]
    exact Props.C16.translatePos_enc inv.total_le hq'.1 hq'.2 (rows_le_63 inv) hq.1 hq.2
  · rename_i h
    have h' : m.totalRows = H8 F.rows := by simpa using h
    have : m.totalRows.toNat = F.rows := by rw [h']; exact toNat_H8 (rows_le_63 inv)
    rw [this]

/-- a stored node at a valid position carries the hash of the node of `F` there -/
theorem getNode_true {m : MapPollard H} {F : Forest H} (inv : Inv m F) {q : Pos}
    (hq : Valid m.totalRows.toNat q) {l : Leaf H} (h : m.getNode (encP m.totalRows.toNat q) = some l) :
    F.nodeAt q = some l.hash := by
  obtain ⟨q', hv, he, hn⟩ := inv.true_hash _ l h
  rw [encP_inj' inv.total_le hq hv he]
  exact hn


end UtreexoVerif.Proofs.MapInv
