/-
  Bridge between the wire-format model of `MapPollard.Write` / `Read` (`Model/Serial.lean`, over
  `MapSt`) and the state machine model of mappollard.go (`Model/MapPollard.lean`), and the
  transport of the storage invariants across a `Write ; Read` (property C13 joined with C09).

  * `Equiv m m'`: the two model states denote the same Go state — the same FINITE MAPS
    (`Nodes`, `CachedLeaves` as look-up functions), the same `NumLeaves`, `TotalRows`, `Full`;
    the order of the association lists (= Go's map iteration order, which is random) is free.
    `Inv_congr`, `SInv_congr`, `FInv_congr`, `Rep_congr`: the invariants of C09 only depend on
    the state up to `Equiv`.
  * `toSt m`: what `Write` serialises (one record per KEY: `AL.norm` drops entries shadowed by an
    earlier entry with the same key — there are none in a list built by `AL.put`, `norm_of_nodup`);
    `Walk m st`: `st` is `toSt m` with the two maps walked in ANY order (Go's `ForEach` order);
    `ofSt full st` / `restore m0 st`: the instance `Read` leaves behind.
  * `write`, `read`: Go's `(m *MapPollard) Write` / `Read` on the model state: `Read` overwrites
    `TotalRows`, `NumLeaves`, puts the records of the stream into the receiver's two maps WITHOUT
    clearing them, and does not touch `Full` (checked against /repo/mappollard.go l.1376–1571).
  * `read_write`: reading the bytes written for any walk of `m`, through any chunking, into a
    receiver with empty maps, succeeds and yields `restore m0 st`, which is `Equiv` to `m` when the
    receiver has `m`'s `Full` flag (`restore_equiv`).
-/
import UtreexoVerif.Proofs.SerialMap
import UtreexoVerif.Proofs.MapSInv
import UtreexoVerif.Proofs.MapFull

namespace UtreexoVerif.Proofs.SerialMapInv
open UtreexoVerif Model Model.Serial Spec Spec.Forest Proofs MapAL MapInv MapRep MapSInv MapFull Hasher Proofs.Serial
set_option linter.unusedSectionVars false

/-! ### association lists as finite maps -/

section AL
variable {κ ν : Type} [DecidableEq κ]

/-- the two look-up functions (of `Model/Serial.lean` and of `Model/MapPollard.lean`) coincide -/
theorem assocGet_eq_get? : ∀ (l : List (κ × ν)) (k : κ), assocGet l k = AL.get? l k
  | [], _ => rfl
  | (k', v) :: t, k => by
    simp only [assocGet, get?_cons]
    split
    · rfl
    · exact assocGet_eq_get? t k

theorem keys_del (l : List (κ × ν)) (k : κ) : (AL.del l k).map (·.1) = (l.map (·.1)).filter (fun a => a ≠ k) := by
  unfold AL.del
  rw [List.filter_map]
  rfl

theorem nodup_keys_del {l : List (κ × ν)} (h : (l.map (·.1)).Nodup) (k : κ) : ((AL.del l k).map (·.1)).Nodup := by
  rw [keys_del]; exact h.filter _

theorem not_mem_keys_del (l : List (κ × ν)) (k : κ) : k ∉ (AL.del l k).map (·.1) := by
  rw [keys_del]; simp

theorem nodup_keys_put {l : List (κ × ν)} (h : (l.map (·.1)).Nodup) (k : κ) (v : ν) :
    ((AL.put l k v).map (·.1)).Nodup := by
  unfold AL.put
  rw [List.map_cons, List.nodup_cons]
  exact ⟨not_mem_keys_del l k, nodup_keys_del h k⟩

theorem del_of_not_mem {l : List (κ × ν)} {k : κ} (h : k ∉ l.map (·.1)) : AL.del l k = l := by
  unfold AL.del
  rw [List.filter_eq_self]
  intro e he
  have : e.1 ≠ k := fun hk => h (hk ▸ List.mem_map_of_mem he)
  simpa using this

/-- with distinct keys, `get?` is membership -/
theorem get?_eq_some_iff_mem {l : List (κ × ν)} (hnd : (l.map (·.1)).Nodup) {k : κ} {v : ν} :
    AL.get? l k = some v ↔ (k, v) ∈ l := by
  refine ⟨get?_some_mem, ?_⟩
  induction l with
  | nil => intro h; cases h
  | cons e t ih =>
    obtain ⟨k', v'⟩ := e
    rw [List.map_cons, List.nodup_cons] at hnd
    intro h
    rw [get?_cons]
    rcases List.mem_cons.1 h with h | h
    · cases h; simp
    · have : k' ≠ k := by
        intro hk
        exact hnd.1 (hk ▸ List.mem_map_of_mem (f := (·.1)) h)
      rw [if_neg this]
      exact ih hnd.2 h

/-- **the finite map denoted by an association list with distinct keys does not depend on the
order of the entries** -/
theorem get?_perm {l l' : List (κ × ν)} (hp : l.Perm l') (hnd : (l.map (·.1)).Nodup) (k : κ) :
    AL.get? l k = AL.get? l' k := by
  have hnd' : (l'.map (·.1)).Nodup := (hp.map _).nodup_iff.1 hnd
  cases h : AL.get? l k with
  | none =>
    symm
    rw [get?_eq_none_iff] at h ⊢
    intro e he
    exact h e (hp.mem_iff.2 he)
  | some v =>
    symm
    rw [get?_eq_some_iff_mem hnd] at h
    rw [get?_eq_some_iff_mem hnd']
    exact hp.mem_iff.1 h

/-- one entry per key: the entries that `get?` can see, in their order -/
def norm (l : List (κ × ν)) : List (κ × ν) := l.foldr (fun e acc => AL.put acc e.1 e.2) []

theorem norm_cons (e : κ × ν) (t : List (κ × ν)) : norm (e :: t) = AL.put (norm t) e.1 e.2 := rfl

theorem get?_norm (l : List (κ × ν)) (k : κ) : AL.get? (norm l) k = AL.get? l k := by
  induction l with
  | nil => rfl
  | cons e t ih =>
    obtain ⟨k', v⟩ := e
    rw [norm_cons, get?_put, get?_cons, ih]
    by_cases h : k = k'
    · subst h; simp
    · have : ¬ k' = k := fun h' => h h'.symm
      simp [h, this]

theorem nodup_keys_norm (l : List (κ × ν)) : ((norm l).map (·.1)).Nodup := by
  induction l with
  | nil => exact List.nodup_nil
  | cons e t ih => rw [norm_cons]; exact nodup_keys_put ih _ _

theorem norm_of_nodup {l : List (κ × ν)} (h : (l.map (·.1)).Nodup) : norm l = l := by
  induction l with
  | nil => rfl
  | cons e t ih =>
    rw [List.map_cons, List.nodup_cons] at h
    rw [norm_cons, ih h.2]
    unfold AL.put
    rw [del_of_not_mem h.1]

theorem mem_norm_iff {l : List (κ × ν)} {k : κ} {v : ν} : (k, v) ∈ norm l ↔ AL.get? l k = some v := by
  rw [← get?_norm, get?_eq_some_iff_mem (nodup_keys_norm l)]

/-- `m[k] = v` in place / appended (`Model/Serial.lean`) as a finite map -/
theorem get?_assocPut (l : List (κ × ν)) (k k' : κ) (v : ν) :
    AL.get? (assocPut l k v) k' = if k' = k then some v else AL.get? l k' := by
  induction l with
  | nil =>
    simp only [assocPut, get?_cons, get?_nil]
    by_cases h : k' = k
    · subst h; simp
    · have : ¬ k = k' := fun h' => h h'.symm
      simp [h, this]
  | cons e t ih =>
    obtain ⟨a, b⟩ := e
    simp only [assocPut]
    by_cases ha : a = k
    · subst ha
      simp only [if_true, get?_cons]
      by_cases h : k' = a
      · subst h; simp
      · have : ¬ a = k' := fun h' => h h'.symm
        simp [h, this]
    · simp only [if_neg ha, get?_cons, ih]
      by_cases h : a = k'
      · subst h; simp [ha]
      · simp [h]

/-- the records of a stream put over the entries of a receiver, as a finite map: the LAST
record with the key wins, a key not in the stream keeps the receiver's entry -/
theorem get?_putRecs (recs l : List (κ × ν)) (k : κ) :
    AL.get? (putRecs l recs) k = (AL.get? recs.reverse k).orElse (fun _ => AL.get? l k) := by
  induction recs generalizing l with
  | nil => simp [putRecs, get?_nil]
  | cons e t ih =>
    have e1 : putRecs l (e :: t) = putRecs (assocPut l e.1 e.2) t := rfl
    rw [e1, ih, get?_assocPut, List.reverse_cons]
    have happ : ∀ (a b : List (κ × ν)), AL.get? (a ++ b) k = (AL.get? a k).orElse (fun _ => AL.get? b k) := by
      intro a b
      induction a with
      | nil => simp [get?_nil]
      | cons x a iha =>
        obtain ⟨x1, x2⟩ := x
        simp only [List.cons_append, get?_cons, iha]
        split <;> simp
    rw [happ]
    obtain ⟨k1, v1⟩ := e
    cases AL.get? t.reverse k with
    | some v => simp
    | none =>
      simp only [Option.orElse_none, get?_cons, get?_nil]
      by_cases h : k = k1
      · subst h; simp
      · have : ¬ k1 = k := fun h' => h h'.symm
        simp [h, this]

end AL

/-! ### states up to the order of the association lists -/

section Equiv
variable {H : Type} [DecidableEq H]

/-- `m` and `m'` denote the same Go state: the same two finite maps and the same scalars.  (The
ghost counter `orderDep` is not part of the Go state.) -/
structure Equiv (m m' : MapPollard H) : Prop where
  node : ∀ p, m.getNode p = m'.getNode p
  cache : ∀ x, m.getCached x = m'.getCached x
  numLeaves : m.numLeaves = m'.numLeaves
  totalRows : m.totalRows = m'.totalRows
  full : m.full = m'.full

theorem Equiv.refl (m : MapPollard H) : Equiv m m := ⟨fun _ => rfl, fun _ => rfl, rfl, rfl, rfl⟩

theorem Equiv.symm {m m' : MapPollard H} (e : Equiv m m') : Equiv m' m :=
  ⟨fun p => (e.node p).symm, fun x => (e.cache x).symm, e.numLeaves.symm, e.totalRows.symm, e.full.symm⟩

theorem Equiv.trans {m m' m'' : MapPollard H} (e : Equiv m m') (e' : Equiv m' m'') : Equiv m m'' :=
  ⟨fun p => (e.node p).trans (e'.node p), fun x => (e.cache x).trans (e'.cache x),
    e.numLeaves.trans e'.numLeaves, e.totalRows.trans e'.totalRows, e.full.trans e'.full⟩

theorem Equiv.hasNode {m m' : MapPollard H} (e : Equiv m m') (p : U64) : m.hasNode p = m'.hasNode p := by
  unfold MapPollard.hasNode; rw [e.node]

theorem Equiv.hasCached {m m' : MapPollard H} (e : Equiv m m') (x : H) : m.hasCached x = m'.hasCached x := by
  unfold MapPollard.hasCached; rw [e.cache]

/-- two states with the same scalars whose lists are permutations of each other (distinct
keys) are equivalent -/
theorem Equiv.of_perm {m m' : MapPollard H} (hn : m.nodes.Perm m'.nodes) (hnd : (m.nodes.map (·.1)).Nodup)
    (hc : m.cached.Perm m'.cached) (hcd : (m.cached.map (·.1)).Nodup) (h1 : m.numLeaves = m'.numLeaves)
    (h2 : m.totalRows = m'.totalRows) (h3 : m.full = m'.full) : Equiv m m' :=
  ⟨fun p => get?_perm hn hnd p, fun x => get?_perm hc hcd x, h1, h2, h3⟩

theorem Rep_congr {m m' : MapPollard H} (e : Equiv m m') {T : Nat} {A : Pos → Option (Leaf H)} {C : H → Option Pos}
    (rep : Rep m T A C) : Rep m' T A C where
  T_le := rep.T_le
  rows := by rw [← e.totalRows]; exact rep.rows
  keys := by intro p l h; rw [← e.node] at h; exact rep.keys p l h
  node := by intro q hq; rw [← e.node]; exact rep.node q hq
  dom := rep.dom
  cache := by intro x; rw [← e.cache]; exact rep.cache x
  cdom := rep.cdom

variable [Hasher H]

/-- **the storage invariant of a partial map forest depends on the state only as a pair of
finite maps**: any state with the same look-ups and scalars satisfies it too -/
theorem Inv_congr {m m' : MapPollard H} {F : Forest H} (e : Equiv m m') (inv : Inv m F) : Inv m' F := by
  have hn : ∀ p, m'.getNode p = m.getNode p := fun p => (e.node p).symm
  have hc : ∀ x, m'.getCached x = m.getCached x := fun x => (e.cache x).symm
  have hhn : ∀ p, m'.hasNode p = m.hasNode p := fun p => (e.hasNode p).symm
  have hhc : ∀ x, m'.hasCached x = m.hasCached x := fun x => (e.hasCached x).symm
  refine { n_lt := inv.n_lt, n_eq := by rw [← e.numLeaves]; exact inv.n_eq,
           rows_le := by rw [← e.totalRows]; exact inv.rows_le,
           total_le := by rw [← e.totalRows]; exact inv.total_le,
           true_hash := ?_, cached_pos := ?_, only_needed := ?_, has_needed := ?_, flags := ?_ }
  · simp only [hn, ← e.totalRows]; exact inv.true_hash
  · simp only [hc, ← e.totalRows]; exact inv.cached_pos
  · simp only [hn, hhc, ← e.totalRows]; exact inv.only_needed
  · simp only [hhn, hhc, ← e.totalRows]; exact inv.has_needed
  · simp only [hn, hc, ← e.totalRows, ← e.full]; exact inv.flags

/-- the strong invariant of `Props/C09b.lean` likewise -/
theorem SInv_congr {m m' : MapPollard H} {F : Forest H} (e : Equiv m m') (s : SInv m F) : SInv m' F := by
  obtain ⟨A, C, rep, ainv⟩ := s.abs
  exact { n_lt := s.n_lt, n_eq := by rw [← e.numLeaves]; exact s.n_eq,
          rows_le := by rw [← e.totalRows]; exact s.rows_le,
          total_le := by rw [← e.totalRows]; exact s.total_le,
          full := by rw [← e.full]; exact s.full, hyg := s.hyg,
          abs := ⟨A, C, by rw [← e.totalRows]; exact Rep_congr e rep, ainv⟩ }

/-- the invariant of a full map forest likewise -/
theorem FInv_congr {m m' : MapPollard H} {F : Forest H} (e : Equiv m m') (s : FInv m F) : FInv m' F := by
  have hn : ∀ p, m'.getNode p = m.getNode p := fun p => (e.node p).symm
  have hc : ∀ x, m'.getCached x = m.getCached x := fun x => (e.cache x).symm
  refine { n_lt := s.n_lt, n_eq := by rw [← e.numLeaves]; exact s.n_eq,
           rows_le := by rw [← e.totalRows]; exact s.rows_le,
           total_le := by rw [← e.totalRows]; exact s.total_le,
           full := by rw [← e.full]; exact s.full, hyg := s.hyg, nodes := ?_, cached := ?_ }
  · simp only [hn, ← e.totalRows]; exact s.nodes
  · simp only [hc, ← e.totalRows]; exact s.cached

theorem RootFlags_congr {m m' : MapPollard H} {F : Forest H} (e : Equiv m m') (h : RootFlags m F) :
    RootFlags m' F := by
  have hn : ∀ p, m'.getNode p = m.getNode p := fun p => (e.node p).symm
  have hc : ∀ x, m'.getCached x = m.getCached x := fun x => (e.cache x).symm
  unfold RootFlags at h ⊢
  simp only [hn, hc, ← e.totalRows]; exact h

end Equiv

/-! ### the bridge between `Model.MapPollard` and the serialised state `MapSt` -/

section Bridge
variable {H : Type} [DecidableEq H]

/-- a `Nodes` entry as a record of the stream: `Leaf{Hash, Remember}` ↦ `(hash, remember)` -/
def recOf (e : U64 × Leaf H) : U64 × H × Bool := (e.1, e.2.hash, e.2.remember)
/-- … and back -/
def leafOf (e : U64 × H × Bool) : U64 × Leaf H := (e.1, ⟨e.2.1, e.2.2⟩)

theorem leafOf_recOf (e : U64 × Leaf H) : leafOf (recOf e) = e := rfl
theorem recOf_leafOf (e : U64 × H × Bool) : recOf (leafOf e) = e := rfl

theorem map_leafOf_recOf (l : List (U64 × Leaf H)) : (l.map recOf).map leafOf = l := by
  rw [List.map_map]; exact List.map_id'' (fun e => leafOf_recOf e) l

theorem keys_map_recOf (l : List (U64 × Leaf H)) : (l.map recOf).map (·.1) = l.map (·.1) := by
  rw [List.map_map]; rfl

theorem keys_map_leafOf (l : List (U64 × H × Bool)) : (l.map leafOf).map (·.1) = l.map (·.1) := by
  rw [List.map_map]; rfl

theorem get?_map_recOf (l : List (U64 × Leaf H)) (k : U64) :
    AL.get? (l.map recOf) k = (AL.get? l k).map (fun lf => (lf.hash, lf.remember)) := by
  induction l with
  | nil => rfl
  | cons e t ih =>
    obtain ⟨a, b⟩ := e
    simp only [List.map_cons, recOf, get?_cons, ih]
    split <;> rfl

/-- **the serialised part of a model state**: `TotalRows`, `NumLeaves` and the two maps, one record
per key (`Full` is NOT serialised; neither is the ghost counter) -/
def toSt (m : MapPollard H) : MapSt H :=
  { totalRows := m.totalRows, numLeaves := m.numLeaves, cached := norm m.cached, nodes := (norm m.nodes).map recOf }

/-- the instance holding exactly the serialised state `st`, with the given `Full` flag -/
def ofSt (full : Bool) (st : MapSt H) : MapPollard H :=
  { nodes := st.nodes.map leafOf, cached := st.cached, numLeaves := st.numLeaves, totalRows := st.totalRows,
    full := full }

/-- what a successful `Read` leaves in the receiver `m0` when its maps end up as in `st`: the four
serialised fields are `st`'s, `Full` (and the ghost counter) are the RECEIVER's -/
def restore (m0 : MapPollard H) (st : MapSt H) : MapPollard H := { ofSt m0.full st with orderDep := m0.orderDep }

/-- `toSt` is field-by-field on a state whose lists have distinct keys (every list built by
`AL.put` / `AL.del` from the empty one) -/
theorem toSt_of_nodup {m : MapPollard H} (hn : (m.nodes.map (·.1)).Nodup) (hc : (m.cached.map (·.1)).Nodup) :
    toSt m = ⟨m.totalRows, m.numLeaves, m.cached, m.nodes.map recOf⟩ := by
  unfold toSt; rw [norm_of_nodup hn, norm_of_nodup hc]

/-- **`st` is what `Write` sees of `m`** when Go's `ForEach` walks the two maps in some order (the
order is unspecified in Go: any permutation of the entries) -/
structure Walk (m : MapPollard H) (st : MapSt H) : Prop where
  totalRows : st.totalRows = m.totalRows
  numLeaves : st.numLeaves = m.numLeaves
  cached : st.cached.Perm (toSt m).cached
  nodes : st.nodes.Perm (toSt m).nodes

theorem Walk.self (m : MapPollard H) : Walk m (toSt m) := ⟨rfl, rfl, List.Perm.refl _, List.Perm.refl _⟩

/-- Go's `int` holds the two map sizes (true of every Go state: `Length()` returns an `int`; a
count ≥ 2^63 would make `Read` loop zero times) -/
def Fits (m : MapPollard H) : Prop := (toSt m).cached.length < 2 ^ 63 ∧ (toSt m).nodes.length < 2 ^ 63

/-- every cached leaf has its node, with its hash (the condition `Read` re-checks) -/
def Sane (m : MapPollard H) : Prop := ∀ x p, m.getCached x = some p → ∃ l, m.getNode p = some l ∧ l.hash = x

theorem Walk.cachedKeys {m : MapPollard H} {st : MapSt H} (w : Walk m st) : (st.cached.map (·.1)).Nodup :=
  (w.cached.map _).nodup_iff.2 (nodup_keys_norm _)

theorem Walk.nodeKeys {m : MapPollard H} {st : MapSt H} (w : Walk m st) : (st.nodes.map (·.1)).Nodup := by
  refine (w.nodes.map _).nodup_iff.2 ?_
  show (((norm m.nodes).map recOf).map (·.1)).Nodup
  rw [keys_map_recOf]; exact nodup_keys_norm _

theorem Walk.getCached {m : MapPollard H} {st : MapSt H} (w : Walk m st) (x : H) :
    AL.get? st.cached x = m.getCached x := by
  rw [get?_perm w.cached w.cachedKeys]
  exact get?_norm _ _

theorem Walk.getNode {m : MapPollard H} {st : MapSt H} (w : Walk m st) (p : U64) :
    AL.get? st.nodes p = (m.getNode p).map (fun lf => (lf.hash, lf.remember)) := by
  rw [get?_perm w.nodes w.nodeKeys]
  show AL.get? ((norm m.nodes).map recOf) p = _
  rw [get?_map_recOf, get?_norm]; rfl

/-- a walk of a sane state that fits Go's `int` satisfies the hypotheses of the round-trip theorem
`Props.C13.map_roundtrip` -/
theorem mapOK_of_walk {m : MapPollard H} {st : MapSt H} (w : Walk m st) (hs : Sane m) (hf : Fits m) :
    MapOK st where
  cachedKeys := w.cachedKeys
  nodeKeys := w.nodeKeys
  cachedSmall := by rw [w.cached.length_eq]; exact hf.1
  nodesSmall := by rw [w.nodes.length_eq]; exact hf.2
  sane := by
    unfold sanityOk
    rw [List.all_eq_true]
    rintro ⟨k, v⟩ hmem
    have hc : m.getCached k = some v := by
      rw [← w.getCached, get?_eq_some_iff_mem w.cachedKeys]; exact hmem
    obtain ⟨l, hl, hh⟩ := hs k v hc
    simp only [assocGet_eq_get?, w.getNode, hl, Option.map_some]
    simpa using hh.symm

/-- **the restored instance denotes the written state**: whatever the order in which `Write`
walked the maps, the instance holding the stream's records has the same two finite maps, the same
`NumLeaves` and `TotalRows` as `m`; its `Full` flag is the receiver's -/
theorem restore_equiv {m m0 : MapPollard H} {st : MapSt H} (w : Walk m st) (hfull : m0.full = m.full) :
    Equiv m (restore m0 st) where
  node := by
    intro p
    show m.getNode p = AL.get? (st.nodes.map leafOf) p
    have hp : (st.nodes.map leafOf).Perm (norm m.nodes) := by
      have := w.nodes.map leafOf
      rwa [show (toSt m).nodes = (norm m.nodes).map recOf from rfl, map_leafOf_recOf] at this
    rw [get?_perm hp (by rw [keys_map_leafOf]; exact w.nodeKeys), get?_norm]; rfl
  cache := by intro x; exact (w.getCached x).symm
  numLeaves := w.numLeaves.symm
  totalRows := w.totalRows.symm
  full := hfull.symm

variable [HashBytes H]

/-- Go `(m *MapPollard) Write(w)` on the model state, the maps walked in list order -/
def write (m : MapPollard H) (w : Sink) : Res Unit × Sink := mapWrite (toSt m) w

/-- Go `(m0 *MapPollard) Read(r)` on the model state: the byte count and, when it succeeds, the
receiver afterwards -/
def read (m0 : MapPollard H) (r : Reader) : Res (MapPollard H) :=
  match mapRead (toSt m0) r with
  | ⟨n, .ok st⟩ => ⟨n, .ok (restore m0 st)⟩
  | ⟨n, .err⟩ => ⟨n, .err⟩
  | ⟨n, .panic⟩ => ⟨n, .panic⟩
  | ⟨n, .hang⟩ => ⟨n, .hang⟩

/-- whatever `Read` accepts passes its sanity check: every cached leaf of the restored state has
its node, with its hash -/
theorem mapRead_ok_sane {m0 : MapSt H} {r : Reader} {n : Nat} {st : MapSt H} (h : mapRead m0 r = ⟨n, .ok st⟩) :
    sanityOk st.cached st.nodes = true := by
  unfold mapRead at h
  rcases h1 : readFull r 1 with ⟨rf1, r1⟩
  rw [h1] at h
  cases rf1 with
  | eof => simp at h
  | unexpected k => simp at h
  | full b0 =>
    dsimp only at h
    rcases h2 : readFull r1 8 with ⟨rf2, r2⟩
    rw [h2] at h
    cases rf2 with
    | eof => simp at h
    | unexpected k => simp at h
    | full b1 =>
      dsimp only at h
      rcases h3 : readFull r2 8 with ⟨rf3, r3⟩
      rw [h3] at h
      cases rf3 with
      | eof => simp at h
      | unexpected k => simp at h
      | full b2 =>
        dsimp only at h
        rcases h4 : readCached (loopCount (unle64 b2)) r3 m0.cached (1 + 8 + 8) with ⟨t1, o1⟩
        rw [h4] at h
        cases o1 with
        | err => simp [failAs] at h
        | panic => simp [failAs] at h
        | hang => simp [failAs] at h
        | ok p =>
          obtain ⟨c, r4⟩ := p
          dsimp only at h
          rcases h5 : readFull r4 8 with ⟨rf5, r5⟩
          rw [h5] at h
          cases rf5 with
          | eof => simp at h
          | unexpected k => simp at h
          | full b3 =>
            dsimp only at h
            rcases h6 : readNodes (loopCount (unle64 b3)) r5 m0.nodes (t1 + 8) with ⟨t2, o2⟩
            rw [h6] at h
            cases o2 with
            | err => simp [failAs] at h
            | panic => simp [failAs] at h
            | hang => simp [failAs] at h
            | ok q =>
              obtain ⟨ns, r6⟩ := q
              dsimp only at h
              split at h
              · simp at h
              · rename_i hsan
                simp only [Res.mk.injEq, Out.ok.injEq] at h
                rw [← h.2]
                simpa using hsan

/-- a writer with enough room receives exactly `encodeMap (toSt m)` -/
theorem write_ok (ok : HashBytesOK H) (m : MapPollard H) (k : Nat) (hk : (encodeMap (toSt m)).length ≤ k) :
    write m ⟨[], k⟩ = (⟨(encodeMap (toSt m)).length, .ok ()⟩,
      ⟨encodeMap (toSt m), k - (encodeMap (toSt m)).length⟩) := by
  have := (mapWrite_spec ok (toSt m) ⟨[], k⟩).1 hk
  simpa [write] using this

/-- **`Write ; Read`**: the bytes written for ANY walk `st` of a sane state `m`, read through ANY
chunking into a receiver whose maps are empty, are accepted, the count is the length of the
stream, and the receiver then holds exactly the records of `st` -/
theorem read_write (ok : HashBytesOK H) {m : MapPollard H} {st : MapSt H} (w : Walk m st) (hs : Sane m)
    (hf : Fits m) (m0 : MapPollard H) (hn0 : m0.nodes = []) (hc0 : m0.cached = []) (r : Reader)
    (hd : r.data = encodeMap st) :
    read m0 r = ⟨(encodeMap st).length, .ok (restore m0 st)⟩ := by
  have h := mapRead_encode ok st (mapOK_of_walk w hs hf) (toSt m0) (by simp [toSt, hc0, norm])
    (by simp [toSt, hn0, norm]) r hd
  unfold read
  rw [h]

/-! #### reading into a receiver that is NOT empty (outside the property: C13 restores into a fresh
instance).  `Read` does not clear the receiver's maps: the records of the stream are put over the
receiver's entries, and entries of the receiver under keys the stream does not mention SURVIVE. -/

/-- the serialised state after `Read` put the records of `st` over the receiver's entries -/
def overlay (m0 : MapPollard H) (st : MapSt H) : MapSt H :=
  ⟨st.totalRows, st.numLeaves, putRecs (toSt m0).cached st.cached, putRecs (toSt m0).nodes st.nodes⟩

theorem read_into_used (ok : HashBytesOK H) {m : MapPollard H} {st : MapSt H} (w : Walk m st) (hf : Fits m)
    (m0 : MapPollard H) (r : Reader) (hd : r.data = encodeMap st) :
    read m0 r =
      if sanityOk (overlay m0 st).cached (overlay m0 st).nodes then
        ⟨(encodeMap st).length, .ok (restore m0 (overlay m0 st))⟩
      else ⟨8, .err⟩ := by
  have h := mapRead_encode_into ok st (by rw [w.cached.length_eq]; exact hf.1) (by rw [w.nodes.length_eq]; exact hf.2)
    (toSt m0) r hd
  unfold read
  rw [h]
  unfold overlay
  dsimp only
  by_cases hs : sanityOk (putRecs (toSt m0).cached st.cached) (putRecs (toSt m0).nodes st.nodes) = true
  · rw [if_pos hs, if_pos hs]
  · rw [if_neg hs, if_neg hs]

theorem get?_map_leafOf (l : List (U64 × H × Bool)) (k : U64) :
    AL.get? (l.map leafOf) k = (AL.get? l k).map (fun x => (⟨x.1, x.2⟩ : Leaf H)) := by
  induction l with
  | nil => rfl
  | cons e t ih =>
    obtain ⟨a, b, c⟩ := e
    simp only [List.map_cons, leafOf, get?_cons, ih]
    split <;> rfl

/-- the maps after a `Read` into a used receiver: the stream's entry where there is one, otherwise
the receiver's OLD entry -/
theorem overlay_getNode {m : MapPollard H} {st : MapSt H} (w : Walk m st) (m0 : MapPollard H) (p : U64) :
    (restore m0 (overlay m0 st)).getNode p = (m.getNode p).orElse (fun _ => m0.getNode p) := by
  show AL.get? ((putRecs ((norm m0.nodes).map recOf) st.nodes).map leafOf) p = _
  rw [get?_map_leafOf, get?_putRecs, get?_perm (List.reverse_perm st.nodes)
    (((List.reverse_perm st.nodes).map _).nodup_iff.2 w.nodeKeys), w.getNode, get?_map_recOf, get?_norm]
  show Option.map _ (Option.orElse (Option.map _ (m.getNode p)) fun _ => Option.map _ (m0.getNode p)) = _
  cases m.getNode p <;> cases m0.getNode p <;> rfl

theorem overlay_getCached {m : MapPollard H} {st : MapSt H} (w : Walk m st) (m0 : MapPollard H) (x : H) :
    (restore m0 (overlay m0 st)).getCached x = (m.getCached x).orElse (fun _ => m0.getCached x) := by
  show AL.get? (putRecs (norm m0.cached) st.cached) x = _
  rw [get?_putRecs, get?_perm (List.reverse_perm st.cached)
    (((List.reverse_perm st.cached).map _).nodup_iff.2 w.cachedKeys), w.getCached, get?_norm]
  rfl

end Bridge

/-! ### the storage invariants give `Sane` -/

section Sane
variable {H : Type} [DecidableEq H] [Hasher H]

theorem inv_sane {m : MapPollard H} {F : Forest H} (inv : Inv m F) : Sane m := by
  intro x p hc
  obtain ⟨t, ht, hp⟩ := inv.cached_pos x p hc
  obtain ⟨R, hb⟩ := posOf_belowRoot ht
  have hv : Valid m.totalRows.toNat t := belowRoot_valid' inv.rows_le hb
  have hk : m.hasCached x = true := by rw [hasCached_eq, hc]; rfl
  have hst := inv.has_needed t (Or.inr ⟨x, t, hk, ht, Or.inl rfl⟩)
  rw [hasNode_eq] at hst
  cases hg : m.getNode (encP m.totalRows.toNat t) with
  | none => rw [hg] at hst; cases hst
  | some l =>
    have h1 := getNode_true inv hv hg
    rw [posOf_nodeAt ht] at h1
    exact ⟨l, by rw [hp]; exact hg, (Option.some.inj h1).symm⟩

theorem Sane_congr {m m' : MapPollard H} (e : Equiv m m') (hs : Sane m) : Sane m' := by
  intro x p hc
  rw [← e.cache] at hc
  obtain ⟨l, hl, hh⟩ := hs x p hc
  exact ⟨l, by rw [← e.node]; exact hl, hh⟩

end Sane

end UtreexoVerif.Proofs.SerialMapInv
