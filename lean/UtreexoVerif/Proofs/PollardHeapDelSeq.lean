/-
  Specification level: the maximal fully-deleted sub-trees of a block can be deleted one after
  the other, in ascending order of their positions, WITHOUT their positions changing:

  when the sub-tree at `T0` dies, only the nodes strictly below `sib T0` move (they go up one
  row); a later target `T` (on a row `≥` that of `T0`, not the surviving `sib T0`, sharing no
  leaf with `T0`) keeps its position, its sub-tree and the fact that it is the root of its
  tree or has a surviving sibling.

  `delSeq_of_dt`: the resulting `DelSeq` (see `PollardHeapDelLoop.lean`), ending in
  `F.delLeaves D`.
-/
import UtreexoVerif.Proofs.PollardHeapDelLoop
import UtreexoVerif.Proofs.ProofUpdateDeTwin
import UtreexoVerif.Proofs.MoveDT
set_option linter.unusedSectionVars false
set_option linter.unusedVariables false
set_option linter.unusedSimpArgs false

namespace UtreexoVerif.Proofs.PollardHeap
open UtreexoVerif UtreexoVerif.GoInt UtreexoVerif.Model UtreexoVerif.Spec Hasher
open UtreexoVerif.Proofs.SpecNodes UtreexoVerif.Proofs.SpecSubs UtreexoVerif.Proofs.CalcComplete
open UtreexoVerif.Proofs.FinalPos UtreexoVerif.Proofs.CalcGeo UtreexoVerif.Proofs.Sorted
open UtreexoVerif.Proofs.Movement UtreexoVerif.Proofs.ProofUpdateDeTwin UtreexoVerif.Proofs.SpecPlan

variable {H : Type} [DecidableEq H] [Hasher H]

theorem delT_eq_prune (L : List H) : ∀ t : CTree H, delT L t = Spec.prune L t := by
  intro t
  induction t with
  | leaf h => rfl
  | node a b iha ihb => simp only [delT, Spec.prune, iha, ihb]

theorem delLeaves_congr (F : Forest H) {A B : List H} (h : ∀ x, x ∈ A ↔ x ∈ B) :
    F.delLeaves A = F.delLeaves B := by
  unfold Forest.delLeaves
  congr 1
  apply List.map_congr_left
  intro s _
  cases s with
  | none => rfl
  | some x => simp only [h x]

theorem delLeaves_delLeaves (F : Forest H) (A B : List H) :
    (F.delLeaves A).delLeaves B = F.delLeaves (A ++ B) := by
  unfold Forest.delLeaves
  simp only [List.map_map]
  congr 1
  apply List.map_congr_left
  intro s _
  cases s with
  | none => rfl
  | some x =>
    simp only [Function.comp, List.mem_append]
    by_cases hA : x ∈ A
    · simp [hA]
    · simp [hA]

theorem delT_eq_self (L : List H) (t : CTree H) (h : ∀ x ∈ t.leaves, x ∉ L) : delT L t = some t := by
  rw [delT_eq_prune]; exact prune_eq_self L t h

/-- a node all of whose ancestors have a surviving sibling stays where it is -/
theorem move_stay {G : Forest H} {A : List H} {h : Nat} {T : Pos} {t t' : CTree H}
    (s : SubAtT G h T t) (hd : delT A t = some t')
    (hal : ∀ j, T.1 ≤ j → j < h → aliveAfter G A j (sibIdx (T.2 / 2 ^ (j - T.1))) = true) :
    SubAtT (G.delLeaves A) h T t' := by
  have := move_sub s hd
  have e : movePos G A T = T := by
    unfold movePos
    rw [treeRowOf_of s]
    have : deadLevelsOf G A h T = [] := by
      apply List.eq_nil_iff_forall_not_mem.2
      intro j hj
      obtain ⟨h1, h2, h3⟩ := mem_deadLevelsOf.1 hj
      rw [hal j h1 h2] at h3
      cases h3
    rw [this]
    rfl
  rwa [e] at this

/-- a sub-node on the row of the top is the top -/
theorem sub_same_row {G : Forest H} {hU : Nat} {U T : Pos} {tU tT : CTree H} (sU : SubAtT G hU U tU)
    (hm : (T, tT) ∈ subs tU U.1 U.2) (hrow : U.1 ≤ T.1) : U = T := by
  apply Classical.byContradiction
  intro hne
  have := (strict_sub sU hm hne).1
  omega

/-- **the siblings of the ancestors of `T` survive the death of `T0`**: `T` lies on a row not
below that of `T0`, shares no leaf with it and is not its sibling -/
theorem anc_sib_alive {G : Forest H} (hnd : G.liveLeaves.Nodup) {h0 h : Nat} {T0 T : Pos}
    {a t : CTree H} (s0 : SubAtT G h0 T0 a) (s : SubAtT G h T t)
    (hrow : T0.1 ≤ T.1) (hsib : T ≠ sib T0) (hdisj : ∀ x ∈ t.leaves, x ∉ a.leaves) :
    ∀ j, T.1 ≤ j → j < h → aliveAfter G a.leaves j (sibIdx (T.2 / 2 ^ (j - T.1))) = true := by
  intro j hj1 hj2
  obtain ⟨ta, sa, hta⟩ := anc_node s (j - T.1) (by omega)
  rw [show T.1 + (j - T.1) = j by omega] at sa
  have hnr : isRootPos G.numLeaves (j, T.2 / 2 ^ (j - T.1)) = false := by
    cases hr : isRootPos G.numLeaves (j, T.2 / 2 ^ (j - T.1)) with
    | false => rfl
    | true => have := sa.root_iff.1 hr; simp only at this; omega
  obtain ⟨_, s', _, ssib⟩ := sa.parent hnr
  rw [sib_eq_sibIdx] at ssib
  simp only at ssib
  have hal := aliveAfter_of (D := a.leaves) ssib
  simp only at hal
  rw [hal]
  cases hd : delT a.leaves s' with
  | some _ => rfl
  | none =>
    exfalso
    have hall := (delT_eq_none_iff' a.leaves s').1 hd
    obtain ⟨x, hx⟩ : ∃ x, x ∈ s'.leaves := by
      cases hl : s'.leaves with
      | nil => exact absurd hl (Spec.CTree.leaves_ne_nil s')
      | cons x _ => exact ⟨x, by simp⟩
    have hxa := hall x hx
    -- `S` and `T0` share a leaf: nested
    rcases laminar hnd s0 ssib hxa hx with hin | hin
    · -- `S` inside `a`: same row, so `S = T0`
      have hrowS : T0.1 ≤ j := by omega
      have e := sub_same_row s0 hin (by simpa using hrowS)
      -- then `T` is the sibling of `T0`
      have hjT : j = T.1 := by
        have := congrArg Prod.fst e
        simp only at this
        omega
      apply hsib
      rw [e, hjT, Nat.sub_self, Nat.pow_zero, Nat.div_one, ← sib_eq_sibIdx, sib_sib]
    · -- `a` inside `s'`
      by_cases heq : ((j, sibIdx (T.2 / 2 ^ (j - T.1))) : Pos) = T0
      · have hjT : j = T.1 := by
          have := congrArg Prod.fst heq
          simp only at this
          omega
        apply hsib
        rw [← heq, hjT, Nat.sub_self, Nat.pow_zero, Nat.div_one, ← sib_eq_sibIdx, sib_sib]
      · obtain ⟨_, s'', ss'', hin'', _⟩ := strict_sub ssib hin heq
        -- the sibling of `T0` lies inside `s'`, all of whose leaves are leaves of `a`
        obtain ⟨y, hy⟩ : ∃ y, y ∈ s''.leaves := by
          cases hl : s''.leaves with
          | nil => exact absurd hl (Spec.CTree.leaves_ne_nil s'')
          | cons y _ => exact ⟨y, by simp⟩
        have hya : y ∈ a.leaves := hall y (subs_leaves s' _ _ _ hin'' y hy)
        rcases laminar hnd s0 ss'' hya hy with h1 | h1
        · have := sub_same_row s0 h1 (by simp [sib])
          exact sib_ne T0 this.symm
        · have := sub_same_row ss'' h1 (by simp [sib])
          exact sib_ne T0 this

/-! ### the invariant along the sequence -/

/-- `e = (T, h, t)`: `t` is the sub-tree at `T` in the tree on row `h`, all its leaves are to be
deleted, and `T` is the root of that tree or its sibling keeps a survivor -/
structure DTE (G : Forest H) (D : List H) (e : Pos × Nat × CTree H) : Prop where
  sub : SubAtT G e.2.1 e.1 e.2.2
  dead : ∀ x ∈ e.2.2.leaves, x ∈ D
  top : e.1.1 = e.2.1 ∨ aliveAfter G D e.1.1 (sibIdx e.1.2) = true

theorem subAt_some {F : Forest H} {p : Pos} {t : CTree H} (h : subAt F p = some t) :
    ∃ hh, SubAtT F hh p t := by
  unfold subAt at h
  cases hf : ((treeRows F.numLeaves).flatMap (treeSubs F)).find? (fun x => x.1 == p) with
  | none => rw [hf] at h; cases h
  | some y =>
    rw [hf] at h
    simp only [Option.map_some, Option.some.injEq] at h
    have hy := List.mem_of_find?_eq_some hf
    have hp := List.find?_some hf
    simp only [beq_iff_eq] at hp
    obtain ⟨h', hh', hy'⟩ := List.mem_flatMap.1 hy
    exact ⟨h', hh', by rw [← hp, ← h]; exact hy'⟩

theorem sibIdx_sibIdx (b : Nat) : sibIdx (sibIdx b) = b := by
  unfold sibIdx; split <;> split <;> omega

theorem sibIdx_div_pow (b k : Nat) (hk : 1 ≤ k) : sibIdx b / 2 ^ k = b / 2 ^ k := by
  obtain ⟨j, rfl⟩ : ∃ j, k = j + 1 := ⟨k - 1, by omega⟩
  have : sibIdx b / 2 = b / 2 := by unfold sibIdx; split <;> omega
  rw [Nat.pow_succ, Nat.mul_comm, ← Nat.div_div_eq_div_mul, ← Nat.div_div_eq_div_mul, this]

/-- **one step**: a later target survives the deletion of an earlier one unchanged -/
theorem DTE.step {G : Forest H} {D : List H} (hnd : G.liveLeaves.Nodup)
    {e0 e : Pos × Nat × CTree H} (d0 : DTE G D e0) (d : DTE G D e) (hlt : PLt e0.1 e.1)
    (hdisj : ∀ l ∈ e0.2.2.leaves, l ∉ e.2.2.leaves) :
    DTE (G.delLeaves e0.2.2.leaves) D e := by
  obtain ⟨T0, h0, a⟩ := e0
  obtain ⟨T, h, t⟩ := e
  obtain ⟨s0, dead0, top0⟩ := d0
  obtain ⟨s, dead, top⟩ := d
  simp only at s0 dead0 top0 s dead top hlt hdisj ⊢
  have hrow : T0.1 ≤ T.1 := by unfold PLt at hlt; omega
  have htdead : delT D t = none := (delT_eq_none_iff' D t).2 dead
  -- `T` is not the sibling of `T0`
  have hsib : T ≠ sib T0 := by
    intro e
    rcases top0 with hr | hal
    · have hroot : isRootPos G.numLeaves T0 = true := s0.root_iff.2 hr
      exact sib_root_not_inF hroot s.inF (by rw [e, sib_sib])
    · rw [sib_eq_sibIdx] at e
      have := aliveAfter_of (D := D) s
      rw [e] at this
      simp only at this
      rw [this, htdead] at hal
      cases hal
  have hdisj' : ∀ x ∈ t.leaves, x ∉ a.leaves := fun x hx hxa => hdisj x hxa hx
  have hal := anc_sib_alive hnd s0 s hrow hsib hdisj'
  have hta : delT a.leaves t = some t := delT_eq_self _ t hdisj'
  have s' : SubAtT (G.delLeaves a.leaves) h T t := move_stay s hta hal
  refine ⟨s', dead, ?_⟩
  rcases top with hr | halT
  · exact Or.inl hr
  · right
    have hlth : T.1 < h := by
      rcases Nat.lt_or_ge T.1 h with hl | hg
      · exact hl
      · -- the root of a tree has no sibling inside the forest
        exfalso
        have hr : T.1 = h := by have := s.row_le; omega
        have hroot : isRootPos G.numLeaves T = true := s.root_iff.2 hr
        unfold aliveAfter at halT
        cases hsa : subAt G (T.1, sibIdx T.2) with
        | none => rw [hsa] at halT; cases halT
        | some st =>
          obtain ⟨hh, sst⟩ := subAt_some hsa
          exact sib_root_not_inF hroot sst.inF (by rw [← sib_eq_sibIdx, sib_sib])
    have hnr : isRootPos G.numLeaves T = false := by
      cases hq : isRootPos G.numLeaves T with
      | false => rfl
      | true => have := s.root_iff.1 hq; omega
    obtain ⟨_, st, _, sst⟩ := s.parent hnr
    have hst := aliveAfter_of (D := D) sst
    rw [sib_eq_sibIdx] at hst sst
    simp only at hst
    rw [halT] at hst
    -- a survivor below the sibling
    have hne : delT D st ≠ none := by
      intro hc; rw [hc] at hst; cases hst
    have hy : ∃ y ∈ st.leaves, y ∉ D := by
      apply Classical.byContradiction
      intro hc
      apply hne
      rw [delT_eq_none_iff']
      intro l hl
      apply Classical.byContradiction
      intro hlD
      exact hc ⟨l, hl, hlD⟩
    obtain ⟨y, hy1, hy2⟩ := hy
    have hya : y ∉ a.leaves := fun hc => hy2 (dead0 y hc)
    cases hsta : delT a.leaves st with
    | none =>
      exact absurd ((delT_eq_none_iff' a.leaves st).1 hsta y hy1) hya
    | some st' =>
      -- the sibling stays where it is
      have halS : ∀ j, T.1 ≤ j → j < h →
          aliveAfter G a.leaves j (sibIdx (sibIdx T.2 / 2 ^ (j - T.1))) = true := by
        intro j hj1 hj2
        by_cases hj : j = T.1
        · subst hj
          rw [Nat.sub_self, Nat.pow_zero, Nat.div_one, sibIdx_sibIdx]
          have := aliveAfter_of (D := a.leaves) s
          rw [this, hta]; rfl
        · rw [sibIdx_div_pow _ _ (by omega)]
          exact hal j hj1 hj2
      have sst' : SubAtT (G.delLeaves a.leaves) h (T.1, sibIdx T.2) st' :=
        move_stay sst hsta halS
      have := aliveAfter_of (D := D) sst'
      simp only at this
      rw [this]
      cases hd : delT D st' with
      | some _ => rfl
      | none =>
        exfalso
        have hyin : y ∈ st'.leaves := (delT_leaves_iff a.leaves st st' hsta y).2 ⟨hy1, hya⟩
        exact hy2 ((delT_eq_none_iff' D st').1 hd y hyin)

theorem delLeaves_nil (F : Forest H) : F.delLeaves [] = F := by
  unfold Forest.delLeaves
  cases F with
  | mk slots =>
    congr 1
    conv => rhs; rw [← List.map_id slots]
    apply List.map_congr_left
    intro s _
    cases s <;> simp

theorem rows_delLeaves (F : Forest H) (A : List H) : (F.delLeaves A).rows = F.rows := by
  unfold Forest.rows; rw [numLeaves_delLeaves]

theorem liveLeaves_delLeaves_nodup {F : Forest H} (A : List H) (h : F.liveLeaves.Nodup) :
    (F.delLeaves A).liveLeaves.Nodup := by
  unfold Forest.liveLeaves at h ⊢
  rw [Spec.delLeaves_slots]
  -- killing slots keeps a sub-list of the live leaves
  have : ∀ l : List (Option H), ((l.map (Spec.kill A)).filterMap id).Sublist (l.filterMap id) := by
    intro l
    induction l with
    | nil => simp
    | cons s l ih =>
      cases s with
      | none => simpa [Spec.kill] using ih
      | some x =>
        by_cases hx : x ∈ A
        · simp only [List.map_cons, Spec.kill, hx, if_true, List.filterMap_cons, id]
          exact List.Sublist.cons _ ih
        · simp only [List.map_cons, Spec.kill, hx, if_false, List.filterMap_cons, id]
          exact List.Sublist.cons₂ _ ih
  exact h.sublist (this _)

/-- **the sequence**: targets that are maximal fully-deleted sub-trees, ascending, pairwise
leaf-disjoint, can be deleted one after the other at their ORIGINAL positions -/
theorem delSeq_of_inv {D : List H} : ∀ (ds : List (Pos × Nat × CTree H)) (G : Forest H),
    (∀ e ∈ ds, DTE G D e) → ds.Pairwise (fun x y => PLt x.1 y.1) →
    ds.Pairwise (fun x y => ∀ l ∈ x.2.2.leaves, l ∉ y.2.2.leaves) → G.liveLeaves.Nodup →
    DelSeq D G (ds.map (fun e => E G.rows e.1)) (G.delLeaves (ds.flatMap (fun e => e.2.2.leaves))) := by
  intro ds
  induction ds with
  | nil =>
    intro G _ _ _ _
    simp only [List.map_nil, List.flatMap_nil, delLeaves_nil]
    exact DelSeq.nil G
  | cons e0 rest ih =>
    intro G hall hs hd hnd
    rw [List.pairwise_cons] at hs hd
    have d0 := hall e0 (by simp)
    have hstep : ∀ e ∈ rest, DTE (G.delLeaves e0.2.2.leaves) D e := fun e he =>
      DTE.step hnd d0 (hall e (by simp [he])) (hs.1 e he) (hd.1 e he)
    have := ih (G.delLeaves e0.2.2.leaves) hstep hs.2 hd.2 (liveLeaves_delLeaves_nodup _ hnd)
    rw [rows_delLeaves, delLeaves_delLeaves] at this
    simp only [List.map_cons, List.flatMap_cons]
    exact DelSeq.cons d0.sub d0.dead this

end UtreexoVerif.Proofs.PollardHeap
