/-
  `ProofPositions`, step 3 (end): the row loop reaches the specification's canonical lists.
-/
import UtreexoVerif.Proofs.ProofPosSem

namespace UtreexoVerif.Proofs
open UtreexoVerif Spec Spec.Forest

/-! ### all rows -/

theorem PPInv.outer {n : Nat} {Tg : List Pos} (hyp : PPHyp0 n Tg) :
    ∀ (fuel ρ : Nat) (s : List Pos × List Pos × List Pos), PPInv n Tg ρ s →
      PPInv n Tg (ρ + fuel) (outerPos n fuel ρ s)
  | 0, _, _, h => h
  | fuel + 1, ρ, s, h => by
    rw [outerPos, show ρ + (fuel + 1) = (ρ + 1) + fuel by omega]
    exact PPInv.outer hyp fuel (ρ + 1) _ (h.step hyp)

/-! ### `sortDedup` of the specification -/

theorem mem_insertSorted {p x : Pos} : ∀ {l : List Pos}, x ∈ insertSorted p l ↔ x = p ∨ x ∈ l
  | [] => by simp [insertSorted]
  | q :: qs => by
    rw [insertSorted]
    split
    · simp
    · split
      · rename_i h1 h2
        have : p = q := by simpa using h2
        subst this
        simp
      · rw [List.mem_cons, mem_insertSorted (l := qs), List.mem_cons]
        constructor
        · rintro (h | h | h)
          · exact Or.inr (Or.inl h)
          · exact Or.inl h
          · exact Or.inr (Or.inr h)
        · rintro (h | h | h)
          · exact Or.inr (Or.inl h)
          · exact Or.inl h
          · exact Or.inr (Or.inr h)

theorem insertSorted_ssorted {p : Pos} : ∀ {l : List Pos}, SSorted l → SSorted (insertSorted p l)
  | [], _ => by simp [insertSorted, SSorted]
  | q :: qs, hl => by
    have hl' := List.pairwise_cons.1 hl
    rw [insertSorted]
    split
    · rename_i hlt
      refine List.pairwise_cons.2 ⟨?_, hl⟩
      intro z hz
      rcases List.mem_cons.1 hz with rfl | hz
      · exact hlt
      · exact PLt_trans hlt (hl'.1 z hz)
    · split
      · exact hl
      · rename_i h1 h2
        have hne : p ≠ q := by simpa using h2
        have hqp : PLt q p := by
          rcases PLt_total p q with h | h | h
          · exact absurd h h1
          · exact absurd h hne
          · exact h
        refine List.pairwise_cons.2 ⟨?_, insertSorted_ssorted hl'.2⟩
        intro z hz
        rcases mem_insertSorted.1 hz with rfl | hz
        · exact hqp
        · exact hl'.1 z hz

theorem mem_sortDedup {x : Pos} : ∀ {l : List Pos}, x ∈ sortDedup l ↔ x ∈ l
  | [] => by simp [sortDedup]
  | p :: l => by
    have ih := mem_sortDedup (x := x) (l := l)
    unfold sortDedup at ih ⊢
    rw [List.foldr_cons, mem_insertSorted, ih, List.mem_cons]

theorem sortDedup_ssorted : ∀ (l : List Pos), SSorted (sortDedup l)
  | [] => List.Pairwise.nil
  | p :: l => by
    have ih := sortDedup_ssorted l
    unfold sortDedup at ih ⊢
    rw [List.foldr_cons]
    exact insertSorted_ssorted ih


/-! ### the specification's lists in terms of paths -/

theorem belowRoot_le_forestRows {n r o R : Nat} (hb : BelowRoot n r o R) : R ≤ forestRows n :=
  (Props.C16.rootPos_valid (forestRows_spec_le n) hb.2.1).1

section
variable {H : Type} (F : Forest H) {Tg : List Pos}

theorem mem_paths_of (hin : ∀ t ∈ Tg, ∃ R, BelowRoot F.numLeaves t.1 t.2 R) (p : Pos) :
    p ∈ sortDedup (Tg.flatMap (pathUp F.numLeaves (F.rows + 1))) ↔ InP F.numLeaves Tg p := by
  rw [mem_sortDedup, List.mem_flatMap]
  constructor
  · rintro ⟨t, ht, hp⟩
    obtain ⟨R, hb⟩ := hin t ht
    have hR := belowRoot_le_forestRows hb
    have := (mem_pathUp (R - t.1) t.1 t.2 (F.rows + 1) hb (by have := hb.1; omega)
      (by unfold Forest.rows; omega) p).1 hp
    exact ⟨t, ht, R, hb, this.1, this.2⟩
  · rintro ⟨t, ht, R, hb, ha, hp⟩
    have hR := belowRoot_le_forestRows hb
    exact ⟨t, ht, (mem_pathUp (R - t.1) t.1 t.2 (F.rows + 1) hb (by have := hb.1; omega)
      (by unfold Forest.rows; omega) p).2 ⟨ha, hp⟩⟩

theorem mem_paths (hyp : PPHyp F.numLeaves Tg) (p : Pos) :
    p ∈ sortDedup (Tg.flatMap (pathUp F.numLeaves (F.rows + 1))) ↔ InP F.numLeaves Tg p :=
  mem_paths_of F hyp.inForest p

/-- the specification's proof positions, in terms of the paths — for ANY list of forest nodes -/
theorem mem_spec_proofPositions_of (hin : ∀ t ∈ Tg, ∃ R, BelowRoot F.numLeaves t.1 t.2 R) (q : Pos) :
    q ∈ F.proofPositions Tg ↔ IsProof F.numLeaves Tg q := by
  unfold Forest.proofPositions
  simp only [mem_sortDedup, List.mem_filter, List.mem_map, Bool.not_eq_true', List.contains_eq_mem,
    decide_eq_false_iff_not, mem_paths_of F hin]
  constructor
  · rintro ⟨⟨x, ⟨hx, hr⟩, rfl⟩, hq⟩
    exact ⟨x, hx, hr, rfl, hq⟩
  · rintro ⟨x, hx, hr, rfl, hq⟩
    exact ⟨⟨x, ⟨hx, hr⟩, rfl⟩, hq⟩

theorem mem_spec_proofPositions (hyp : PPHyp F.numLeaves Tg) (q : Pos) :
    q ∈ F.proofPositions Tg ↔ IsProof F.numLeaves Tg q :=
  mem_spec_proofPositions_of F hyp.inForest q

theorem anc_parent_iff {q t : Pos} : Anc q (parent t) ↔ Anc q t ∧ t.1 < q.1 := by
  constructor
  · rintro ⟨a1, a2⟩
    have a1' : t.1 + 1 ≤ q.1 := a1
    have a2' : q.2 = t.2 / 2 / 2 ^ (q.1 - (t.1 + 1)) := a2
    refine ⟨⟨by omega, ?_⟩, by omega⟩
    rw [a2', Nat.div_div_eq_div_mul, ← Nat.pow_succ', show (q.1 - (t.1 + 1)).succ = q.1 - t.1 by omega]
  · rintro ⟨⟨a1, a2⟩, hlt⟩
    refine ⟨by show t.1 + 1 ≤ q.1; omega, ?_⟩
    show q.2 = t.2 / 2 / 2 ^ (q.1 - (t.1 + 1))
    rw [a2, Nat.div_div_eq_div_mul, ← Nat.pow_succ', show (q.1 - (t.1 + 1)).succ = q.1 - t.1 by omega]

theorem mem_pathUp_drop {n R : Nat} {t : Pos} {fuel : Nat} (hb : BelowRoot n t.1 t.2 R)
    (hf : R - t.1 ≤ fuel) (q : Pos) :
    q ∈ (pathUp n fuel t).drop 1 ↔ Anc q t ∧ t.1 < q.1 ∧ q.1 ≤ R := by
  have hr := hb.1
  by_cases hroot : t.1 = R
  · have hr' : isRootPos n t = true := by
      rw [show t = (t.1, t.2) from rfl, belowRoot_isRootPos hb]; simp [hroot]
    have e : pathUp n fuel t = [t] := by cases fuel <;> simp [pathUp, hr']
    rw [e]
    simp only [List.drop_succ_cons, List.drop_nil, List.not_mem_nil, false_iff]
    rintro ⟨_, h1, h2⟩; omega
  · have hr' : isRootPos n t = false := by
      rw [show t = (t.1, t.2) from rfl, belowRoot_isRootPos hb]; simp [hroot]
    obtain ⟨g, rfl⟩ : ∃ g, fuel = g + 1 := ⟨fuel - 1, by omega⟩
    have hb' := belowRoot_parent hb hroot
    rw [pathUp, hr']
    simp only [Bool.false_eq_true, if_false, List.drop_succ_cons, List.drop_zero]
    rw [show parent t = (t.1 + 1, t.2 / 2) from rfl,
      mem_pathUp (R - (t.1 + 1)) (t.1 + 1) (t.2 / 2) g hb' (by omega) (by omega) q,
      show ((t.1 + 1, t.2 / 2) : Pos) = parent t from rfl, anc_parent_iff]
    constructor
    · rintro ⟨⟨h1, h2⟩, h3⟩; exact ⟨h1, h2, h3⟩
    · rintro ⟨h1, h2, h3⟩; exact ⟨⟨h1, h2⟩, h3⟩

/-- computable = strict ancestor of a target, up to the root — for ANY target list (a strict
ancestor `q` of target `t` is the parent of the node of `t`'s path one row below `q`) -/
theorem isComp_iff_all (q : Pos) :
    IsComp F.numLeaves Tg q ↔
      ∃ t ∈ Tg, ∃ R, BelowRoot F.numLeaves t.1 t.2 R ∧ Anc q t ∧ t.1 < q.1 ∧ q.1 ≤ R := by
  constructor
  · rintro ⟨x, ⟨t, ht, R, hb, ha, hp⟩, hr, rfl⟩
    have hbx := belowRoot_anc hb ha hp
    have hne : x.1 ≠ R := by
      intro e
      have := belowRoot_isRootPos hbx
      rw [show (x.1, x.2) = x from rfl, hr] at this
      simp [e] at this
    have h1 := ha.1
    exact ⟨t, ht, R, hb, ha.parent, by show t.1 < x.1 + 1; omega, by show x.1 + 1 ≤ R; omega⟩
  · rintro ⟨t, ht, R, hb, ha, h1, h2⟩
    obtain ⟨ρ, hρ⟩ : ∃ ρ, q.1 = ρ + 1 := ⟨q.1 - 1, by omega⟩
    have hx : Anc (ρ, t.2 / 2 ^ (ρ - t.1)) t := ⟨by show t.1 ≤ ρ; omega, rfl⟩
    have hbx := belowRoot_anc hb hx (by show ρ ≤ R; omega)
    refine ⟨(ρ, t.2 / 2 ^ (ρ - t.1)), ⟨t, ht, R, hb, hx, by show ρ ≤ R; omega⟩, ?_, ?_⟩
    · rw [belowRoot_isRootPos hbx]; simp; omega
    · obtain ⟨a, b⟩ := q
      simp only at hρ h1 ⊢
      show (a, b) = (ρ + 1, t.2 / 2 ^ (ρ - t.1) / 2)
      have h3 : b = t.2 / 2 ^ (a - t.1) := ha.2
      subst hρ
      rw [h3, Nat.div_div_eq_div_mul, ← Nat.pow_succ, show (ρ - t.1).succ = ρ + 1 - t.1 by omega]

theorem isComp_iff (_hyp : PPHyp F.numLeaves Tg) (q : Pos) :
    IsComp F.numLeaves Tg q ↔
      ∃ t ∈ Tg, ∃ R, BelowRoot F.numLeaves t.1 t.2 R ∧ Anc q t ∧ t.1 < q.1 ∧ q.1 ≤ R :=
  isComp_iff_all F q

theorem mem_spec_computable_of (hin : ∀ t ∈ Tg, ∃ R, BelowRoot F.numLeaves t.1 t.2 R) (q : Pos) :
    q ∈ F.computable Tg ↔ IsComp F.numLeaves Tg q := by
  unfold Forest.computable
  simp only [mem_sortDedup, List.mem_flatMap]
  rw [isComp_iff_all F]
  constructor
  · rintro ⟨t, ht, hq⟩
    obtain ⟨R, hb⟩ := hin t ht
    have hR := belowRoot_le_forestRows hb
    exact ⟨t, ht, R, hb, (mem_pathUp_drop hb (by unfold Forest.rows; omega) q).1 hq⟩
  · rintro ⟨t, ht, R, hb, h⟩
    have hR := belowRoot_le_forestRows hb
    exact ⟨t, ht, (mem_pathUp_drop hb (by unfold Forest.rows; omega) q).2 h⟩

theorem mem_spec_computable (hyp : PPHyp F.numLeaves Tg) (q : Pos) :
    q ∈ F.computable Tg ↔ IsComp F.numLeaves Tg q :=
  mem_spec_computable_of F hyp.inForest q

/-- **`refPP` computes the specification's canonical lists** when the targets are nodes of
the forest and strictly sorted — nested or not; any `H ≥ TreeRows`.  Literal equality of
lists: both sides are ordered by row, then position, without duplicates. -/
theorem refPP_eq_spec_all (hyp : PPHyp0 F.numLeaves Tg) {H : Nat} (hH : F.rows ≤ H) :
    refPP F.numLeaves H Tg = (F.proofPositions Tg, F.computable Tg) := by
  have inv := PPInv.outer hyp (H + 1) 0 (Tg, [], []) (PPInv.init hyp)
  rw [Nat.zero_add] at inv
  unfold refPP
  congr 1
  · apply eq_of_ssorted inv.pf_sorted
    · unfold Forest.proofPositions; exact sortDedup_ssorted _
    · intro q
      rw [inv.pf_mem, mem_spec_proofPositions_of F hyp.inForest]
      constructor
      · exact fun h => h.2
      · intro h
        refine ⟨?_, h⟩
        obtain ⟨x, hx, _, rfl, _⟩ := h
        obtain ⟨R, hbx⟩ := hx.belowRoot
        have := belowRoot_le_forestRows hbx
        have := hbx.1
        unfold Forest.rows at hH
        show x.1 < H + 1
        omega
  · apply eq_of_ssorted inv.nx_sorted
    · unfold Forest.computable; exact sortDedup_ssorted _
    · intro q
      rw [inv.nx_mem, mem_spec_computable_of F hyp.inForest]
      constructor
      · exact fun h => h.2
      · intro h
        refine ⟨?_, h⟩
        obtain ⟨t, _, R, hb, _, _, h2⟩ := (isComp_iff_all F q).1 h
        have := belowRoot_le_forestRows hb
        unfold Forest.rows at hH
        omega

/-- the un-nested special case (hypotheses `PPHyp`) -/
theorem refPP_eq_spec (hyp : PPHyp F.numLeaves Tg) {H : Nat} (hH : F.rows ≤ H) :
    refPP F.numLeaves H Tg = (F.proofPositions Tg, F.computable Tg) :=
  refPP_eq_spec_all F hyp.toHyp0 hH

end

end UtreexoVerif.Proofs
