/-
  Pointer forest, heap model, `Undo`, second phase: `undoEmptyRoots` brings back the EMPTY roots
  that `undoAdds` could not restore (`AbsE` ⟶ `Abs`).
-/
import UtreexoVerif.Proofs.PollardHeapUndoDefs
import UtreexoVerif.Proofs.PollardHeapCheck
import UtreexoVerif.Proofs.NodesUnique
set_option linter.unusedSectionVars false
set_option linter.unusedVariables false
set_option linter.unusedSimpArgs false

namespace UtreexoVerif.Proofs.PollardHeap
open UtreexoVerif UtreexoVerif.GoInt UtreexoVerif.Model UtreexoVerif.Model.PollardHeap UtreexoVerif.Spec Hasher
open UtreexoVerif.Model.PollardAbs UtreexoVerif.Proofs.CalcGeo
open UtreexoVerif.Proofs.SpecNodes UtreexoVerif.Proofs.SpecSubs UtreexoVerif.Proofs.CalcComplete
open UtreexoVerif.Proofs.FinalPos UtreexoVerif.Proofs.Sorted
open UtreexoVerif.Proofs.Movement UtreexoVerif.Proofs.ProofUpdateDeTwin UtreexoVerif.Proofs.SpecView
open UtreexoVerif.Proofs.PollardLookup

variable {H : Type} [DecidableEq H] [Hasher H]

/-! ### 1. `DropEmpty` -/

theorem DropEmpty.length_le {a b : List (Option (CTree H))} (h : DropEmpty a b) :
    b.length ≤ a.length ∧ (b.length = a.length → a = b) := by
  induction h with
  | nil => simp
  | keep t _ ih =>
    refine ⟨by simp; omega, ?_⟩
    intro e
    simp at e
    rw [ih.2 e]
  | drop _ ih =>
    refine ⟨by simp; omega, ?_⟩
    intro e
    simp at e
    omega

theorem DropEmpty.mem {a b : List (Option (CTree H))} (h : DropEmpty a b) : ∀ x ∈ b, x ∈ a := by
  induction h with
  | nil => simp
  | keep t _ ih =>
    intro x hx
    simp only [List.mem_cons] at hx ⊢
    rcases hx with rfl | hx
    · exact .inl rfl
    · exact .inr (ih x hx)
  | drop _ ih =>
    intro x hx
    exact List.mem_cons_of_mem _ (ih x hx)

theorem DropEmpty.nil_right_inv {a : List (Option (CTree H))} (h : DropEmpty a []) :
    ∀ x ∈ a, x = none := by
  generalize hb : ([] : List (Option (CTree H))) = b at h
  induction h with
  | nil => simp
  | keep t _ ih => cases hb
  | drop _ ih =>
    intro x hx
    simp only [List.mem_cons] at hx
    rcases hx with rfl | hx
    · rfl
    · exact ih hb x hx

/-- a kept empty root may as well be dropped -/
theorem DropEmpty.drop_none : ∀ {a r : List (Option (CTree H))}, DropEmpty a (none :: r) →
    DropEmpty a r := by
  intro a
  induction a with
  | nil => intro r h; cases h
  | cons t a ih =>
    intro r h
    cases h with
    | keep _ h' => exact .drop h'
    | drop h' => exact .drop (ih h')

theorem DropEmpty.cons_some_inv {a c : List (Option (CTree H))} {t : CTree H}
    (h : DropEmpty (some t :: a) c) : ∃ r, c = some t :: r ∧ DropEmpty a r := by
  cases h with
  | keep _ h' => exact ⟨_, rfl, h'⟩

theorem DropEmpty.cons_none_inv {a c : List (Option (CTree H))}
    (h : DropEmpty (none :: a) c) : DropEmpty a c ∨ ∃ r, c = none :: r ∧ DropEmpty a r := by
  cases h with
  | keep _ h' => exact .inr ⟨_, rfl, h'⟩
  | drop h' => exact .inl h'

/-! ### 2. the loop of `undoEmptyRoots` -/

theorem emptyRoot_push (hp : Heap H) (full : Bool) (d : H) (hd : d = zero) :
    EmptyRoot (hp.push { data := d, remember := full }) hp.size :=
  ⟨{ data := d, remember := full }, by simp, rfl, hd, rfl, rfl⟩

/-- `cr` carries the all-zero hash exactly at the empty roots of `ts` -/
def ZeroAt : List H → List (Option (CTree H)) → Prop
  | [], [] => True
  | c :: cr, t :: ts => (c = zero ↔ t = none) ∧ ZeroAt cr ts
  | _, _ => False

theorem ReprRoots.push {hp : Heap H} {rs : List Nat} {ts : List (Option (CTree H))}
    {owned : List Nat} {lv : List (H × Nat)} (h : ReprRoots hp rs ts owned lv) (n : PolNode H) :
    ReprRoots (hp.push n) rs ts owned lv := by
  apply h.frame
  intro i hi
  have := h.lt i hi
  rw [Array.getElem?_push]
  have : i ≠ hp.size := by omega
  simp [this]

theorem padRoots_zero (s : Pollard H) : padRoots 0 s = (.ok (), s) := rfl

theorem padRoots_one (s : Pollard H) : padRoots 1 s =
    (.ok (), { s with heap := s.heap.push { data := zero, remember := s.full },
                      roots := s.roots ++ [s.heap.size] }) := by
  unfold padRoots padRoots
  simp only [bind_apply, getFull_apply, alloc_apply, modifyS_apply, pure_apply]

/-- one root of a represented list -/
theorem ReprRoots.split_at {hp : Heap H} {pre rest : List (Option (CTree H))} {rs owned : List Nat}
    {lv : List (H × Nat)} (h : ReprRoots hp rs (pre ++ rest) owned lv) :
    ∃ rs1 rs2 o1 o2 l1 l2, rs = rs1 ++ rs2 ∧ owned = o1 ++ o2 ∧ lv = l1 ++ l2 ∧
      rs1.length = pre.length ∧ ReprRoots hp rs1 pre o1 l1 ∧ ReprRoots hp rs2 rest o2 l2 := by
  obtain ⟨rs1, rs2, o1, o2, l1, l2, e1, e2, e3, h1, h2⟩ := h.append_inv
  exact ⟨rs1, rs2, o1, o2, l1, l2, e1, e2, e3, h1.length_eq, h1, h2⟩

/-- **the `for i, prevRoot := range copyRoots` loop**: `cr` has the all-zero hash exactly where
the target list `ts` has an empty root; the current roots represent `pre ++ rest` where `rest`
is `ts` with some empty roots missing.  The loop re-inserts the missing empty roots. -/
theorem undoEmptyRootsLoop_spec (nm : List (H × Nat)) (nl ndl : U64) (full : Bool) :
    ∀ (cr : List H) (ts pre rest : List (Option (CTree H))) (hp : Heap H) (rs owned : List Nat)
      (lv : List (H × Nat)),
    ZeroAt cr ts →
    DropEmpty ts rest → (∀ t, some t ∈ rest → t.hash ≠ (zero : H)) →
    ReprRoots hp rs (pre ++ rest) owned lv → owned.Nodup →
    ∃ hp' rs' owned', undoEmptyRootsLoop pre.length cr ⟨hp, nm, rs, nl, ndl, full⟩ =
        (.ok (), ⟨hp', nm, rs', nl, ndl, full⟩) ∧
      ReprRoots hp' rs' (pre ++ ts) owned' lv ∧ owned'.Nodup := by
  intro cr
  induction cr with
  | nil =>
    intro ts pre rest hp rs owned lv hf hd hnz hr hnd
    cases ts with
    | cons _ _ => exact hf.elim
    | nil =>
    cases hd
    exact ⟨hp, rs, owned, by unfold undoEmptyRootsLoop; rfl, hr, hnd⟩
  | cons c cr ih =>
    intro ts pre rest hp rs owned lv hf hd hnz hr hnd
    cases ts with
    | nil => exact hf.elim
    | cons t ts =>
    obtain ⟨hct, hf⟩ := hf
    -- it suffices to reach a state representing `(pre ++ [t]) ++ rest₂`
    suffices hstep : ∃ hp1 rs1 owned1 rest1,
        (undoEmptyRootsLoop pre.length (c :: cr) ⟨hp, nm, rs, nl, ndl, full⟩ =
          undoEmptyRootsLoop (pre.length + 1) cr ⟨hp1, nm, rs1, nl, ndl, full⟩) ∧
        DropEmpty ts rest1 ∧ (∀ t, some t ∈ rest1 → t.hash ≠ (zero : H)) ∧
        ReprRoots hp1 rs1 ((pre ++ [t]) ++ rest1) owned1 lv ∧ owned1.Nodup by
      obtain ⟨hp1, rs1, owned1, rest1, e1, d1, z1, r1, n1⟩ := hstep
      obtain ⟨hp', rs', owned', e2, r2, n2⟩ := ih ts (pre ++ [t]) rest1 hp1 rs1 owned1 lv hf d1 z1 r1 n1
      refine ⟨hp', rs', owned', ?_, ?_, n2⟩
      · rw [e1]
        simpa using e2
      · simpa using r2
    cases t with
    | some tr =>
      have hc : c ≠ zero := by
        intro e; have := hct.1 e; cases this
      obtain ⟨r, er, dr⟩ := hd.cons_some_inv
      subst er
      refine ⟨hp, rs, owned, r, ?_, dr, fun t ht => hnz t (List.mem_cons_of_mem _ ht), ?_, hnd⟩
      · rw [undoEmptyRootsLoop]
        simp only [hc, if_false, bind_apply, pure_apply]
      · simpa using hr
    | none =>
      have hc : c = zero := hct.2 rfl
      subst hc
      obtain ⟨rs1, rs2, o1, o2, l1, l2, e1, e2, e3, hlen, h1, h2⟩ := hr.split_at
      subst e1 e2 e3
      have htake : (rs1 ++ rs2).take pre.length = rs1 := by rw [← hlen]; simp
      have hdrop : (rs1 ++ rs2).drop pre.length = rs2 := by rw [← hlen]; simp
      cases rest with
      | nil =>
        -- (α) the roots end here: `padRoots` appends one fresh empty root
        cases h2
        have dr : DropEmpty ts [] := by
          rcases hd.cons_none_inv with h | ⟨r, e, _⟩
          · exact h
          · cases e
        have hE := emptyRoot_push hp full (zero : H) rfl
        refine ⟨hp.push { data := zero, remember := full }, rs1 ++ [hp.size], o1 ++ [hp.size], [],
          ?_, dr, by simp, ?_, ?_⟩
        · rw [undoEmptyRootsLoop]
          have hpad : pre.length + 1 - (rs1 ++ []).length = 1 := by simp; omega
          simp only [if_true, bind_apply, getRoots_apply, hpad, padRoots_one]
          have hget : (rs1 ++ [hp.size])[pre.length]? = some hp.size := by
            rw [← hlen]; simp
          simp only [hget, node_apply, Array.getElem?_push_size, ne_eq, not_true_eq_false, if_false,
            pure_apply, List.append_nil]
          simp
        · have hs : ReprRoots (hp.push { data := zero, remember := full }) [hp.size] [none] [hp.size] [] :=
            ReprRoots.single (t := none) (fp := []) (lv := []) ⟨hE, rfl, rfl⟩
          have := ((h1.push { data := zero, remember := full }).append hs)
          simpa using this
        · have hlt := h1.lt
          simp only [List.append_nil] at hnd
          rw [List.nodup_append]
          refine ⟨hnd, by simp, ?_⟩
          intro a ha b hb
          simp only [List.mem_singleton] at hb
          subst hb
          have := hlt a ha
          omega
      | cons t0 r =>
        cases h2 with
        | @cons r0 _ fp0 lv0 rs2' _ o2' l2' hroot h2' =>
        have hpad : pre.length + 1 - (rs1 ++ r0 :: rs2').length = 0 := by simp; omega
        have hget : (rs1 ++ r0 :: rs2')[pre.length]? = some r0 := by rw [← hlen]; simp
        cases t0 with
        | none =>
          -- (β) the empty root is already there
          have dr : DropEmpty ts r := by
            rcases hd.cons_none_inv with h | ⟨r', e, h⟩
            · exact h.drop_none
            · cases e; exact h
          obtain ⟨⟨rn, g1, g2, g3, g4, g5⟩, g6, g7⟩ := hroot
          subst g6 g7
          refine ⟨hp, rs1 ++ r0 :: rs2', _, r, ?_, dr,
            fun t ht => hnz t (List.mem_cons_of_mem _ ht), ?_, hnd⟩
          · rw [undoEmptyRootsLoop]
            simp only [if_true, bind_apply, getRoots_apply, hpad, padRoots_zero, hget, node_apply, g1,
              g3, ne_eq, not_true_eq_false, if_false, pure_apply]
          · have := h1.append (ReprRoots.cons (t := none) ⟨⟨rn, g1, g2, g3, g4, g5⟩, rfl, rfl⟩ h2')
            simpa using this
        | some tr =>
          -- (γ) a live root sits at index `i`: a fresh empty root is inserted in front of it
          have dr : DropEmpty ts (some tr :: r) := by
            rcases hd.cons_none_inv with h | ⟨r', e, h⟩
            · exact h
            · cases e
          have hz : tr.hash ≠ zero := hnz tr (by simp)
          obtain ⟨rn, g1, g2⟩ := (hroot.2 : Sub hp r0 r0 tr fp0 lv0).hash
          have hE := emptyRoot_push hp full (zero : H) rfl
          refine ⟨hp.push { data := zero, remember := full }, (rs1 ++ [hp.size]) ++ r0 :: rs2',
            (o1 ++ [hp.size]) ++ (r0 :: fp0 ++ o2'), some tr :: r, ?_, dr, hnz, ?_, ?_⟩
          · rw [undoEmptyRootsLoop]
            have hd' : ¬ rn.data = zero := by rw [g2]; exact hz
            simp only [if_true, bind_apply, getRoots_apply, hpad, padRoots_zero, hget, node_apply, g1,
              ne_eq, hd', not_false_eq_true, getFull_apply, alloc_apply, modifyS_apply, htake, hdrop]
            simp
          · have hs : ReprRoots (hp.push { data := zero, remember := full }) [hp.size] [none] [hp.size] [] :=
              ReprRoots.single (t := none) (fp := []) (lv := []) ⟨hE, rfl, rfl⟩
            have := ((h1.push { data := zero, remember := full }).append hs).append
              ((ReprRoots.cons hroot h2').push { data := zero, remember := full })
            simpa using this
          · have hlt := (h1.append (ReprRoots.cons hroot h2')).lt
            have : (o1 ++ [hp.size] ++ (r0 :: fp0 ++ o2')).Perm (hp.size :: (o1 ++ (r0 :: fp0 ++ o2'))) := by
              simp only [List.append_assoc, List.singleton_append]
              exact List.perm_middle
            rw [this.nodup_iff, List.nodup_cons]
            refine ⟨?_, hnd⟩
            intro hm
            have := hlt _ hm
            omega

/-! ### 3. `numRoots` -/

theorem toInt_numRoots {n : Nat} (hn : n < 2 ^ 64) :
    toInt (numRoots (BitVec.ofNat 64 n)) = ((treeRows n).length : Int) := by
  have h1 : onesCount64 (BitVec.ofNat 64 n) = ((treeRows n).length : Int) := by
    rw [Spec.treeRows_length, GoInt.onesCount64,
      show List.range 65 = List.range 64 ++ [64] from List.range_succ, List.countP_append]
    have h64 : n.testBit 64 = false := Nat.testBit_lt_two_pow hn
    simp only [List.countP_singleton, h64, Bool.false_eq_true, if_false, Nat.add_zero]
    congr 1
    apply List.countP_congr
    intro j hj
    rw [List.mem_range] at hj
    rw [Proofs.getLsbD_ofNat64 hj]
  have hle : (treeRows n).length ≤ 65 := treeRowsFrom_length_le 64 _
  unfold numRoots toInt ofInt
  rw [h1, BitVec.ofInt_natCast, BitVec.toNat_ofNat]
  congr 1
  exact Nat.mod_eq_of_lt (by omega)

/-! ### 4. `markEmptied` -/

theorem map_set_idxOf {α β : Type} [DecidableEq α] (Rs : List α) (hnd : Rs.Nodup) (g : α → β) (R : α)
    (z : β) : (Rs.map g).set (Rs.idxOf R) z = Rs.map (fun x => if x = R then z else g x) := by
  induction Rs with
  | nil => simp
  | cons a Rs ih =>
    rw [List.nodup_cons] at hnd
    rw [List.idxOf_cons]
    by_cases e : a = R
    · subst e
      simp only [beq_self_eq_true, cond_true, List.map_cons, List.set_cons_zero, if_true]
      congr 1
      apply List.map_congr_left
      intro x hx
      have : x ≠ a := fun e => hnd.1 (e ▸ hx)
      simp [this]
    · have : (a == R) = false := by simpa using e
      simp only [this, cond_false, List.map_cons, List.set_cons_succ, e, if_false]
      rw [ih hnd.2]

/-- **`copyRoots`**: the roots of the trees whose root position is among the (de-twinned)
targets are overwritten with the all-zero hash -/
theorem markEmptied_spec {n rows : Nat} (nl : U64) (hnl : nl.toNat = n)
    (hT : TreeRows nl = H8 rows) (hrows : rows ≤ 63) (s : Pollard H) :
    ∀ (dtp : List Pos) (g : Nat → H), (∀ T ∈ dtp, Valid rows T) →
    markEmptied nl (dtp.map (E rows)) ((treeRows n).map g) s =
      (.ok ((treeRows n).map (fun R => if rootPos n R ∈ dtp then zero else g R)), s) := by
  intro dtp
  induction dtp with
  | nil =>
    intro g _
    simp [markEmptied]
  | cons T rest ih =>
    intro g hv
    have hvT : Valid rows T := hv T (by simp)
    have hvr : ∀ T ∈ rest, Valid rows T := fun T hT => hv T (by simp [hT])
    have hroot : isRootPosition (E rows T) nl = isRootPos n T := by
      have := Props.C16.isRootPosition_enc (h := rows) (r := T.1) (o := T.2) nl hT hrows hvT.1 hvT.2
      rw [hnl] at this
      exact this
    rw [List.map_cons, markEmptied, hroot]
    cases hr : isRootPos n T with
    | false =>
      simp only [Bool.false_eq_true, if_false]
      rw [ih g hvr]
      congr 2
      apply List.map_congr_left
      intro R hR
      have hne : rootPos n R ≠ T := by
        intro e
        rw [← e] at hr
        have hb := (mem_treeRows.1 hR).2
        simp [isRootPos, rootPos, hb] at hr
      simp [hne]
    | true =>
      simp only [isRootPos, Bool.and_eq_true, beq_iff_eq] at hr
      obtain ⟨hb, ho⟩ := hr
      have hR : T.1 ∈ treeRows n := mem_treeRows.2 ⟨by have := hvT.1; omega, hb⟩
      have eT : T = rootPos n T.1 := by
        unfold rootPos; rw [← ho]
      have hdo := Props.C16.detectOffset_enc (R := T.1) (r := T.1) (o := T.2) nl hT hrows
        (Nat.le_refl _) hvT.2 (by rw [hnl]; exact hb) (by rw [hnl]; simp [rootPos, ho])
      rw [hnl] at hdo
      have hidx := List.idxOf_lt_length_of_mem hR
      have hle : (treeRows n).length ≤ 65 := treeRowsFrom_length_le 64 _
      have hidxN : (BitVec.ofNat 8 ((treeRows n).idxOf T.1)).toNat = (treeRows n).idxOf T.1 := by
        rw [BitVec.toNat_ofNat]; omega
      have hE : E rows T = encU rows T.1 T.2 := rfl
      rw [hE, hdo]
      simp only [if_true, Bool.false_eq_true, if_false, hidxN, List.length_map, hidx]
      rw [map_set_idxOf _ (CalcComplete.treeRows_nodup n), ih _ hvr]
      congr 2
      apply List.map_congr_left
      intro R hR'
      by_cases e : R = T.1
      · subst e
        rw [← eT]
        simp
      · have : rootPos n R ≠ T := by
          intro e'; apply e; rw [← e']; rfl
        simp [e, this]

theorem zeroAt_map {α : Type} (Rs : List α) (c : α → H) (t : α → Option (CTree H))
    (h : ∀ R ∈ Rs, c R = zero ↔ t R = none) : ZeroAt (Rs.map c) (Rs.map t) := by
  induction Rs with
  | nil => trivial
  | cons a Rs ih =>
    exact ⟨h a (by simp), ih (fun R hR => h R (by simp [hR]))⟩

/-! ### 5. `undoEmptyRoots` -/

theorem trees_map_snd (F : Forest H) :
    F.trees.map (·.2) = (treeRows F.numLeaves).map (PollardLookup.treeOf F) := by
  unfold Forest.trees PollardLookup.treeOf
  rw [List.map_map]
  rfl

theorem roots_eq_map (F : Forest H) :
    F.roots = (treeRows F.numLeaves).map (fun R => rootHash (PollardLookup.treeOf F R)) := by
  rw [Spec.roots_eq]
  unfold Forest.trees PollardLookup.treeOf
  rw [List.map_map]
  rfl

theorem trees_delLeaves_map_snd (F : Forest H) (D : List H) :
    (F.delLeaves D).trees.map (·.2) = (treeRows F.numLeaves).map (fun R => pruneO D (PollardLookup.treeOf F R)) := by
  rw [trees_delLeaves, List.map_map]
  unfold Forest.trees PollardLookup.treeOf
  rw [List.map_map]
  rfl

/-- a copied root is the all-zero hash iff the tree is empty after the deletion -/
theorem copyRoot_zero_iff {F : Forest H} {D : List H} (hnz : TreesNZ F) {dtp : List Pos}
    (hdt : ∀ T, T ∈ dtp ↔ IsDT F D T) {R : Nat} (hR : R ∈ treeRows F.numLeaves) :
    (if rootPos F.numLeaves R ∈ dtp then (zero : H) else rootHash (PollardLookup.treeOf F R)) = zero ↔
      pruneO D (PollardLookup.treeOf F R) = none := by
  have hb := (mem_treeRows.1 hR).2
  by_cases hm : rootPos F.numLeaves R ∈ dtp
  · simp only [hm, if_true, true_iff]
    obtain ⟨h, t, s, hd, _⟩ := (hdt _).1 hm
    obtain ⟨t0, ht0, _, _⟩ := s.tree
    have hh : R = h := by
      have := s.root_iff.1 (by simp [isRootPos, rootPos, hb])
      simpa [rootPos] using this
    subst hh
    have e : t0 = t := ((SubAtT.root hR ht0).unique s).2
    subst e
    have : PollardLookup.treeOf F R = some t0 := ht0
    rw [this]
    exact (prune_eq_none_iff D t0).2 ((delT_eq_none_iff' D t0).1 hd)
  · simp only [hm, if_false]
    cases ht : PollardLookup.treeOf F R with
    | none => simp [rootHash, pruneO]
    | some t =>
      have hmem : (R, some t) ∈ F.trees := by
        have := trees_getElem F hR
        rw [ht] at this
        exact List.mem_of_getElem? this
      have hz : t.hash ≠ zero := hnz _ hmem t rfl
      constructor
      · intro e; exact (hz e).elim
      · intro e
        exfalso
        apply hm
        rw [hdt]
        have e' : prune D t = none := e
        exact ⟨R, t, SubAtT.root hR ht, (delT_eq_none_iff' D t).2 ((prune_eq_none_iff D t).1 e'),
          .inl rfl⟩

/-- **`undoEmptyRoots`**: after `undoAdds` the heap represents the forest before the additions
(`F.delLeaves D`, `F` = the forest before the block) up to missing empty roots; `undoEmptyRoots`
with the targets of the block and the roots of `F` re-creates the missing empty roots. -/
theorem undoEmptyRoots_abs (hph : ∀ a b : H, ph a b ≠ (zero : H)) {p : Pollard H} {F : Forest H}
    {D : List H} (a : AbsE p (F.delLeaves D)) (hok : LeavesOK F) (hn : F.numLeaves < 2 ^ 63)
    (hnd : F.liveLeaves.Nodup) (hD : D.Nodup) (hlive : ∀ d ∈ D, d ∈ F.liveLeaves) :
    ∃ hp' rs', undoEmptyRoots ((D.map (fun l => (F.posOf l).getD (0, 0))).map (E F.rows)) F.roots p =
        (.ok (), ⟨hp', p.nodeMap, rs', p.numLeaves, p.numDels, p.full⟩) ∧
      Abs ⟨hp', p.nodeMap, rs', p.numLeaves, p.numDels, p.full⟩ (F.delLeaves D) := by
  obtain ⟨hp, nm, rs, nl, ndl, full⟩ := p
  obtain ⟨hnl, ts', owned, lv, hdrop, hrepr, hndo, hmk⟩ := a
  simp only at hnl hrepr hmk
  rw [numLeaves_delLeaves] at hnl
  have hN : nl = BitVec.ofNat 64 F.numLeaves := by rw [← hnl]; simp
  have hT : TreeRows nl = H8 F.rows := by rw [hN]; exact treeRows_eq hn
  have htr : F.rows ≤ 63 := forestRows_le_63 hn
  have hnr : toInt (numRoots nl) = ((treeRows F.numLeaves).length : Int) := by
    rw [hN]; exact toInt_numRoots (by omega)
  have hlen : rs.length = ts'.length := hrepr.length_eq
  have htsl : ((F.delLeaves D).trees.map (·.2)).length = (treeRows F.numLeaves).length := by
    rw [trees_delLeaves_map_snd, List.length_map]
  show ∃ hp' rs', undoEmptyRoots _ F.roots ⟨hp, nm, rs, nl, ndl, full⟩ =
      (.ok (), ⟨hp', nm, rs', nl, ndl, full⟩) ∧ Abs ⟨hp', nm, rs', nl, ndl, full⟩ (F.delLeaves D)
  by_cases hge : (treeRows F.numLeaves).length ≤ rs.length
  · -- nothing is missing
    have e : (F.delLeaves D).trees.map (·.2) = ts' :=
      hdrop.length_le.2 (by have := hdrop.length_le.1; omega)
    refine ⟨hp, rs, ?_, ⟨by simpa [numLeaves_delLeaves] using hnl, owned, lv, ?_, hndo, hmk⟩⟩
    · unfold undoEmptyRoots
      simp only [bind_apply, getNumLeaves_apply, getRoots_apply, hnr]
      have : ((rs.length : Nat) : Int) ≥ ((treeRows F.numLeaves).length : Int) := by omega
      simp only [this, if_true, pure_apply]
    · rw [e]; exact hrepr
  · obtain ⟨dtp, e1, inv, hdt⟩ := deTwin_spec_inv (F := F) (by omega) hnd hD hlive
    have hnzF : TreesNZ F := hok.treesNZ hph (by omega)
    have hnzG : TreesNZ (F.delLeaves D) :=
      (hok.delLeaves D).treesNZ hph (by rw [numLeaves_delLeaves]; omega)
    have hmark := markEmptied_spec (rows := F.rows) nl hnl hT htr ⟨hp, nm, rs, nl, ndl, full⟩ dtp
      (fun R => rootHash (PollardLookup.treeOf F R)) (fun T hT => inv.valid hT)
    rw [← roots_eq_map, ← e1, ← hT] at hmark
    have hz : ZeroAt ((treeRows F.numLeaves).map
          (fun R => if rootPos F.numLeaves R ∈ dtp then (zero : H) else rootHash (PollardLookup.treeOf F R)))
        ((F.delLeaves D).trees.map (·.2)) := by
      rw [trees_delLeaves_map_snd]
      exact zeroAt_map _ _ _ (fun R hR => copyRoot_zero_iff hnzF hdt hR)
    have hnz' : ∀ t, some t ∈ ts' → t.hash ≠ (zero : H) := by
      intro t ht
      have := hdrop.mem _ ht
      obtain ⟨q, hq, e⟩ := List.mem_map.1 this
      exact hnzG q hq t e
    obtain ⟨hp', rs', owned', e2, r2, n2⟩ := undoEmptyRootsLoop_spec nm nl ndl full _ _ [] ts' hp rs
      owned lv hz hdrop hnz' (by simpa using hrepr) hndo
    refine ⟨hp', rs', ?_, ⟨by simpa [numLeaves_delLeaves] using hnl, owned', lv, by simpa using r2,
      n2, hmk⟩⟩
    unfold undoEmptyRoots
    simp only [bind_apply, getNumLeaves_apply, getRoots_apply, hnr]
    have : ¬ ((rs.length : Nat) : Int) ≥ ((treeRows F.numLeaves).length : Int) := by omega
    simp only [this, if_false, bind_apply, hmark]
    exact e2

/-! ### non-vacuity: a block that deletes a whole tree and adds one leaf

Five leaves (trees on rows 2 and 0); the block deletes leaf 5 (the whole tree on row 0, target
position 4) and adds leaf 9, which is merged with the empty root into a tree on row 1.
`undoAdds 1` splits that tree again but cannot bring the empty root back: one root is left
where `numRoots 5 = 2`; `undoEmptyRoots` re-creates it. -/

namespace UndoRootsExample
open UtreexoVerif.Spec.NodesUniqueExample

def leaves5 : List (Term × Bool) :=
  [(.atom 1, true), (.atom 2, true), (.atom 3, true), (.atom 4, true), (.atom 5, true)]
def p5 : Pollard Term := (PollardHeap.add leaves5 newAccumulator).2
def F5 : Forest Term := Forest.empty.addMany (leaves5.map (·.1))
def dels : List Term := [.atom 5]
/-- the heap after the block `Modify([leaf 9], [leaf 5], targets [4])` -/
def p6 : Pollard Term := (PollardHeap.modify [(.atom 9, true)] dels [4#64] p5).2

theorem hphT : ∀ a b : Term, ph a b ≠ (zero : Term) := termCR.nonzero

theorem abs6 : Abs p6 ((F5.delLeaves dels).addMany [.atom 9]) :=
  abs_of_check _ _ (by decide +kernel) (by decide +kernel) (by decide +kernel) (by decide +kernel)

theorem live5 : F5.liveLeaves = [.atom 1, .atom 2, .atom 3, .atom 4, .atom 5] := by decide +kernel

/-- after `undoAdds` a root is missing (`numRoots 5 = 2`): the loop of `undoEmptyRoots` runs -/
example : (undoAdds 1 p6).1 = .ok () ∧ (undoAdds 1 p6).2.roots.length = 1 ∧
    (undoAdds 1 p6).2.numLeaves = 5#64 := by decide +kernel

/-- the two `Undo` phases on that block: `undoEmptyRoots_abs` applies to the state `undoAdds`
leaves behind, and the empty root is back -/
example : ∃ p', (do undoAdds 1; undoEmptyRoots [4#64] F5.roots) p6 = (.ok (), p') ∧
    Abs p' (F5.delLeaves dels) ∧ p'.roots.length = 2 := by
  obtain ⟨hp1, nm1, rs1, e1, a1, _⟩ := undoAdds_absE 1 [.atom 9] (F5.delLeaves dels) p6 rfl
    abs6.toAbsE (by decide +kernel)
    (by
      have : p6.nodeMap.map (·.1) = [.atom 9, .atom 4, .atom 3, .atom 2, .atom 1] := by decide +kernel
      intro e he u v h
      have hm : e.1 ∈ p6.nodeMap.map (·.1) := List.mem_map_of_mem he
      rw [this] at hm
      simp only [List.mem_cons, List.not_mem_nil, or_false] at hm
      rcases hm with h' | h' | h' | h' | h' <;> rw [h'] at h <;> cases h)
  have hok : LeavesOK F5 := by
    intro x hx
    rw [live5] at hx
    simp only [List.mem_cons, List.not_mem_nil, or_false] at hx
    rcases hx with rfl | rfl | rfl | rfl | rfl <;>
      exact ⟨fun h => (by cases h), fun a b h => (by cases h)⟩
  obtain ⟨hp2, rs2, e2, a2⟩ := undoEmptyRoots_abs hphT a1 hok (by decide +kernel)
    (by rw [live5]; decide) (by decide) (by rw [live5]; decide)
  have et : (dels.map (fun l => (F5.posOf l).getD (0, 0))).map (E F5.rows) = [4#64] := by
    decide +kernel
  rw [et] at e2
  simp only at e2 a2
  refine ⟨_, ?_, a2, ?_⟩
  · simp only [bind_apply, e1]
    exact e2
  · obtain ⟨_, _, h, _⟩ := a2.repr
    rw [h.length_eq, List.length_map, trees_length, numLeaves_delLeaves]
    decide +kernel

end UndoRootsExample

end UtreexoVerif.Proofs.PollardHeap
