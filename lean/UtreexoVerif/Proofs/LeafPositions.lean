/-
  Leaf positions of the specification forest satisfy the hypotheses `PPHyp` of
  `proofPositions_spec` (C16c): they are nodes of the forest, and no leaf position is an ancestor
  of another (a leaf of a collapsed tree has nothing below it: every strict ancestor of a node
  inside its tree is an internal node).

  * `SubAtT.belowRoot`       — a subtree position lies below the root of its tree (`BelowRoot`);
  * `anc_is_node`            — every strict ancestor (inside the tree) of a node is internal;
  * `leaf_anti`              — a leaf position that is an ancestor of a leaf position is that position;
  * `leaf_PPHyp_of_ssorted`  — `PPHyp` for every strictly sorted list of leaf positions;
  * `leaf_PPHyp_sortPos`, `leaf_PPHyp_sortDedup`, `PPHyp.filter` — the forms used by C14;
  * `targetsOK_of_mapM`, `nodup_of_mapM` — positions of (distinct) live leaves.
-/
import UtreexoVerif.Proofs.SpecPlan
import UtreexoVerif.Proofs.ProofPosFinal

namespace UtreexoVerif.Proofs.LeafPositions
open UtreexoVerif Spec Spec.Forest Hasher
open UtreexoVerif.Proofs UtreexoVerif.Proofs.SpecNodes UtreexoVerif.Proofs.SpecSubs
open UtreexoVerif.Proofs.SpecPlan

section
set_option linter.unusedSectionVars false
variable {H : Type} [DecidableEq H] [Hasher H]

/-- a subtree position lies below the root of its tree -/
theorem SubAtT.belowRoot {F : Forest H} {h : Nat} {p : Pos} {t : CTree H} (s : SubAtT F h p t) :
    BelowRoot F.numLeaves p.1 p.2 h :=
  ⟨s.under.1, s.bit, s.under.2⟩

/-- inside its tree every strict ancestor of a node is an internal node -/
theorem anc_is_node {F : Forest H} {h : Nat} {b : Pos} {t : CTree H} (s : SubAtT F h b t) :
    ∀ d, b.1 + (d + 1) ≤ h → ∃ x y, SubAtT F h (b.1 + (d + 1), b.2 / 2 ^ (d + 1)) (.node x y) := by
  intro d
  induction d with
  | zero =>
    intro hd
    have hr : isRootPos F.numLeaves b = false := by
      cases hr : isRootPos F.numLeaves b with
      | false => rfl
      | true => have := (s.root_iff).1 hr; omega
    obtain ⟨_, s', hpar, _⟩ := s.parent hr
    have e : Spec.parent b = (b.1 + (0 + 1), b.2 / 2 ^ (0 + 1)) := by
      simp [Spec.parent]
    rw [e] at hpar
    split at hpar
    · exact ⟨_, _, hpar⟩
    · exact ⟨_, _, hpar⟩
  | succ d ih =>
    intro hd
    obtain ⟨x, y, sxy⟩ := ih (by omega)
    have hr : isRootPos F.numLeaves (b.1 + (d + 1), b.2 / 2 ^ (d + 1)) = false := by
      cases hr : isRootPos F.numLeaves (b.1 + (d + 1), b.2 / 2 ^ (d + 1)) with
      | false => rfl
      | true => have := (sxy.root_iff).1 hr; simp only at this; omega
    obtain ⟨_, s', hpar, _⟩ := sxy.parent hr
    have e : Spec.parent (b.1 + (d + 1), b.2 / 2 ^ (d + 1)) =
        (b.1 + (d + 1 + 1), b.2 / 2 ^ (d + 1 + 1)) := by
      simp only [Spec.parent, Prod.mk.injEq]
      refine ⟨by omega, ?_⟩
      rw [Nat.div_div_eq_div_mul, ← Nat.pow_succ]
    rw [e] at hpar
    split at hpar
    · exact ⟨_, _, hpar⟩
    · exact ⟨_, _, hpar⟩

/-- **a leaf position is never a strict ancestor of a leaf position** -/
theorem leaf_anti {F : Forest H} {a b : Pos} {ha hb : Nat} {la lb : H}
    (sa : SubAtT F ha a (.leaf la)) (sb : SubAtT F hb b (.leaf lb)) (hanc : Anc a b) : a = b := by
  by_cases hrow : a.1 = b.1
  · exact hanc.eq_of_row hrow
  · exfalso
    obtain ⟨h1, h2⟩ := hanc
    have hlt : b.1 < a.1 := by omega
    -- `b` lies under the root of `a`'s tree
    have ua := sa.under
    have ub : Under ha (2 * (F.numLeaves >>> (ha + 1))) b := by
      refine ⟨by have := ua.1; omega, ?_⟩
      have := ua.2
      rw [h2, Nat.div_div_eq_div_mul, ← Nat.pow_add] at this
      rw [← this]
      congr 2
      have := ua.1
      omega
    have hh : ha = hb := by
      rcases Nat.lt_trichotomy ha hb with hl | he | hg
      · exact (under_disjoint hl sb.bit sb.under ub).elim
      · exact he
      · exact (under_disjoint hg sa.bit ub sb.under).elim
    subst hh
    obtain ⟨x, y, sxy⟩ := anc_is_node sb (a.1 - b.1 - 1) (by have := ua.1; omega)
    have e : (b.1 + (a.1 - b.1 - 1 + 1), b.2 / 2 ^ (a.1 - b.1 - 1 + 1)) = a := by
      obtain ⟨a1, a2⟩ := a
      simp only at h1 h2 hlt ⊢
      rw [show a1 - b.1 - 1 + 1 = a1 - b.1 by omega, ← h2, show b.1 + (a1 - b.1) = a1 by omega]
    rw [e] at sxy
    have := (sa.unique sxy).2
    cases this

/-- **`PPHyp` for leaf positions**: a strictly sorted list of leaf positions of the forest -/
theorem leaf_PPHyp_of_ssorted {F : Forest H} {Tg : List Pos} (tok : TargetsOK F Tg)
    (hs : SSorted Tg) : PPHyp F.numLeaves Tg where
  inForest := by
    intro t ht
    obtain ⟨h, l, s⟩ := tok t ht
    exact ⟨h, SubAtT.belowRoot s⟩
  sorted := hs
  anti := by
    intro a ha b hb hab
    obtain ⟨h1, l1, s1⟩ := tok a ha
    obtain ⟨h2, l2, s2⟩ := tok b hb
    exact leaf_anti s1 s2 hab

/-- the sorted positions of a duplicate-free list of leaf positions -/
theorem leaf_PPHyp_sortPos {F : Forest H} {ps : List Pos} (tok : TargetsOK F ps) (hnd : ps.Nodup) :
    PPHyp F.numLeaves (sortPos ps) :=
  leaf_PPHyp_of_ssorted (fun t ht => tok t (mem_sortPos.1 ht)) (sortPos_ssorted hnd)

/-- the sorted, de-duplicated positions of any list of leaf positions -/
theorem leaf_PPHyp_sortDedup {F : Forest H} {ps : List Pos} (tok : TargetsOK F ps) :
    PPHyp F.numLeaves (sortDedup ps) :=
  leaf_PPHyp_of_ssorted (fun t ht => tok t (Proofs.mem_sortDedup.1 ht)) (sortDedup_ssorted ps)

/-- `PPHyp` passes to sub-lists -/
theorem PPHyp.sublist {n : Nat} {Tg Tg' : List Pos} (hyp : PPHyp n Tg) (hsub : Tg'.Sublist Tg) :
    PPHyp n Tg' where
  inForest := fun t ht => hyp.inForest t (hsub.subset ht)
  sorted := hyp.sorted.sublist hsub
  anti := fun a ha b hb hab => hyp.anti a (hsub.subset ha) b (hsub.subset hb) hab

theorem PPHyp.filter {n : Nat} {Tg : List Pos} (hyp : PPHyp n Tg) (f : Pos → Bool) :
    PPHyp n (Tg.filter f) :=
  PPHyp.sublist hyp List.filter_sublist

/-! ### positions of live leaves -/

theorem mapM_posOf {F : Forest H} {L : List H} {ps : List Pos} (h : L.mapM F.posOf = some ps) :
    ps = L.map (fun l => (F.posOf l).getD (0, 0)) ∧ ∀ l ∈ L, ∃ p, F.posOf l = some p :=
  mapM_some F.posOf (0, 0) L ps h

/-- the positions of live leaves are leaf positions -/
theorem targetsOK_of_mapM {F : Forest H} {L : List H} {ps : List Pos}
    (h : L.mapM F.posOf = some ps) : TargetsOK F ps := by
  obtain ⟨e, hp⟩ := mapM_posOf h
  intro t ht
  rw [e] at ht
  obtain ⟨l, hl, rfl⟩ := List.mem_map.1 ht
  obtain ⟨p, hpl⟩ := hp l hl
  obtain ⟨hh, s⟩ := posOf_sub hpl
  exact ⟨hh, l, by rw [hpl]; exact s⟩

/-- the leaf at the position of a live leaf -/
theorem posOf_getD_sub {F : Forest H} {l : H} (h : ∃ p, F.posOf l = some p) :
    ∃ hh, SubAtT F hh ((F.posOf l).getD (0, 0)) (.leaf l) := by
  obtain ⟨p, hpl⟩ := h
  obtain ⟨hh, s⟩ := posOf_sub hpl
  exact ⟨hh, by rw [hpl]; exact s⟩

/-- different live leaves sit at different positions -/
theorem nodup_of_mapM {F : Forest H} {L : List H} {ps : List Pos}
    (h : L.mapM F.posOf = some ps) (hnd : L.Nodup) : ps.Nodup := by
  obtain ⟨e, hp⟩ := mapM_posOf h
  rw [e]
  unfold List.Nodup
  rw [List.pairwise_map]
  apply List.Pairwise.imp_of_mem _ hnd
  intro a b ha hb hab e'
  obtain ⟨h1, s1⟩ := posOf_getD_sub (hp a ha)
  obtain ⟨h2, s2⟩ := posOf_getD_sub (hp b hb)
  rw [e'] at s1
  have := (s1.unique s2).2
  injection this with this
  exact hab this

/-- **Goal 1**: the sorted positions of a duplicate-free list of live leaves satisfy `PPHyp` -/
theorem leaf_positions_PPHyp {F : Forest H} {L : List H} {ps : List Pos} (hnd : L.Nodup)
    (h : L.mapM F.posOf = some ps) : PPHyp F.numLeaves (sortPos ps) :=
  leaf_PPHyp_sortPos (targetsOK_of_mapM h) (nodup_of_mapM h hnd)

end

end UtreexoVerif.Proofs.LeafPositions
