/-
  Bridge between the two descriptions of the nodes of the specification forest:

  * tree view: `SubAtT F h p t` (Proofs/SpecSubs) — `t` is the subtree at position `p` of the
    collapsed tree on row `h`;
  * chunk view: `chunk S l b` / `Spec.inTree` / `nodePos` (Proofs/Chunks, Proofs/NewAddSpec) —
    the collapsed tree of the aligned chunk `(l, b)` of the slot list and its final position.

  Main results: `subAtT_of_chunk` (a live chunk of a tree is the subtree at its `nodePos`),
  `chunk_of_subAtT` (every subtree is a chunk, which is the root chunk or has a live sibling),
  `chunk_leaf_slot` / `chunk_slot_leaf` (leaves of a chunk = live slots of the chunk),
  `exists_tree_of_chunk` / `inTree_chunk_unique` (a chunk lies in exactly one tree).
-/
import UtreexoVerif.Proofs.NodeCred
import UtreexoVerif.Proofs.Movement
import UtreexoVerif.Proofs.StumpAddPos
set_option linter.unusedSectionVars false

namespace UtreexoVerif.Proofs.ChunkBridge
open UtreexoVerif Spec Hasher
open UtreexoVerif.Proofs UtreexoVerif.Proofs.SpecNodes UtreexoVerif.Proofs.SpecSubs
open UtreexoVerif.Proofs.FinalPos UtreexoVerif.Proofs.Movement
open UtreexoVerif.Proofs.StumpAddPos

variable {H : Type} [DecidableEq H] [Hasher H]

/-! ### 1. the subtrees of a chunk are subtrees of the enclosing chunk -/

/-- `subs` version of `chunk_nodes_sub` -/
theorem chunk_subs_sub (S : List (Option H)) (T ro : Nat) : ∀ (k l b : Nat) (t : CTree H),
    l + k = T → b / 2 ^ k = ro → chunk S l b = some t →
    ∃ tT, chunk S T ro = some tT ∧
      ∀ e ∈ subs t (fpos (chunkAlive S) (T, ro) k l b).1 (fpos (chunkAlive S) (T, ro) k l b).2,
        e ∈ subs tT T ro := by
  intro k
  induction k with
  | zero =>
    intro l b t hl hb ht
    simp only [Nat.pow_zero, Nat.div_one] at hb
    have : l = T := by omega
    subst this; subst hb
    exact ⟨t, ht, fun e he => by simpa [fpos] using he⟩
  | succ k ih =>
    intro l b t hl hb ht
    have hb' : b / 2 / 2 ^ k = ro := by
      rw [Nat.div_div_eq_div_mul, ← Nat.pow_succ']; exact hb
    have hpar := chunk_succ S l (b / 2)
    by_cases hodd : b % 2 = 1
    · -- our chunk is the right child
      have e1 : 2 * (b / 2) + 1 = b := by omega
      have e2 : sibIdx b = 2 * (b / 2) := by unfold sibIdx; rw [if_neg (by omega)]; omega
      rw [e1, ht] at hpar
      cases hs : chunk S l (2 * (b / 2)) with
      | none =>
        rw [hs] at hpar
        obtain ⟨tT, h1, h2⟩ := ih (l + 1) (b / 2) t (by omega) hb' (by rw [hpar]; rfl)
        refine ⟨tT, h1, ?_⟩
        have hdead : chunkAlive S l (sibIdx b) = false := by rw [e2]; unfold chunkAlive; rw [hs]; rfl
        rw [fpos_succ_dead hdead]
        exact h2
      | some s =>
        rw [hs] at hpar
        obtain ⟨tT, h1, h2⟩ := ih (l + 1) (b / 2) (.node s t) (by omega) hb' (by rw [hpar]; rfl)
        refine ⟨tT, h1, ?_⟩
        have hal : chunkAlive S l (sibIdx b) = true := by rw [e2]; unfold chunkAlive; rw [hs]; rfl
        rw [fpos_succ_alive hal, hodd]
        intro e he
        apply h2
        simp only [subs, List.mem_cons, List.mem_append]
        right; right
        exact he
    · -- our chunk is the left child
      have e1 : 2 * (b / 2) = b := by omega
      have e2 : sibIdx b = 2 * (b / 2) + 1 := by unfold sibIdx; rw [if_pos (by omega)]; omega
      rw [e1, ht] at hpar
      have e3 : b + 1 = 2 * (b / 2) + 1 := by omega
      cases hs : chunk S l (b + 1) with
      | none =>
        rw [hs] at hpar
        obtain ⟨tT, h1, h2⟩ := ih (l + 1) (b / 2) t (by omega) hb' (by rw [hpar]; rfl)
        refine ⟨tT, h1, ?_⟩
        have hdead : chunkAlive S l (sibIdx b) = false := by
          rw [e2, ← e3]; unfold chunkAlive; rw [hs]; rfl
        rw [fpos_succ_dead hdead]
        exact h2
      | some s =>
        rw [hs] at hpar
        obtain ⟨tT, h1, h2⟩ := ih (l + 1) (b / 2) (.node t s) (by omega) hb' (by rw [hpar]; rfl)
        refine ⟨tT, h1, ?_⟩
        have hal : chunkAlive S l (sibIdx b) = true := by
          rw [e2, ← e3]; unfold chunkAlive; rw [hs]; rfl
        rw [fpos_succ_alive hal, show b % 2 = 0 by omega]
        intro e he
        apply h2
        simp only [subs, List.mem_cons, List.mem_append]
        right; left
        exact he

/-! ### the tree of the forest on row `T` is the root chunk -/

/-- the collapsed tree on row `T` of `Forest.mk S` is the chunk `(T, 2 * (|S| / 2^(T+1)))` -/
theorem tree_eq_chunk (S : List (Option H)) (T : Nat) :
    collapse T (((Forest.mk S).slots.drop (treeStart (Forest.mk S).numLeaves T)).take (2 ^ T)) =
      chunk S T (2 * (S.length / 2 ^ (T + 1))) := by
  simp only [Forest.numLeaves]
  rw [collapse_take_self, Spec.treeStart_eq]
  unfold chunk
  congr 2
  rw [Nat.pow_succ]; ac_rfl

theorem rootPos_eq (n T : Nat) : rootPos n T = (T, 2 * (n / 2 ^ (T + 1))) := by
  simp only [rootPos, Nat.shiftRight_eq_div_pow]

theorem mem_treeRows_of_bit {n T : Nat} (hn : n < 2 ^ 64) (hb : n.testBit T = true) :
    T ∈ treeRows n := by
  refine Spec.mem_treeRows.mpr ⟨?_, hb⟩
  apply Classical.byContradiction
  intro hc
  have : n < 2 ^ T := Nat.lt_of_lt_of_le hn (Nat.pow_le_pow_right (by decide) (by omega))
  rw [Nat.testBit_lt_two_pow this] at hb
  cases hb

/-! ### 2. chunk ⇒ subtree -/

/-- a live chunk of a tree is the subtree at its `nodePos` -/
theorem subAtT_of_chunk (S : List (Option H)) (hS : S.length < 2 ^ 64) {T l b : Nat} {t : CTree H}
    (hin : Spec.inTree S.length T l b) (ht : chunk S l b = some t) :
    SubAtT (Forest.mk S) T (nodePos S T l b) t := by
  obtain ⟨h1, h2, h3⟩ := hin
  obtain ⟨tT, hT1, hT2⟩ := chunk_subs_sub S T (2 * (S.length / 2 ^ (T + 1))) (T - l) l b t
    (by omega) h3 ht
  have hmem := hT2 _ (subs_head t _ _)
  refine SubAtT.of_tree (t0 := tT) (mem_treeRows_of_bit hS h1) ?_ ?_
  · rw [tree_eq_chunk]; exact hT1
  · rw [rootPos_eq]
    exact hmem

/-! ### 3. subtree ⇒ chunk -/

theorem chunk_zero_leaf (S : List (Option H)) {B : Nat} {t : CTree H} (ht : chunk S 0 B = some t) :
    ∃ h, t = .leaf h := by
  rw [chunk_zero] at ht
  split at ht
  · injection ht with e; exact ⟨_, e.symm⟩
  · cases ht

theorem div_pow_succ_of {b k c : Nat} (h : b / 2 ^ k = c) : b / 2 ^ (k + 1) = c / 2 := by
  rw [Nat.pow_succ, ← Nat.div_div_eq_div_mul, h]

/-- every subtree of a chunk's tree (placed at `top`) is the tree of a sub-chunk, sitting at the
sub-chunk's `fpos` position; the sub-chunk is the chunk itself or has a live sibling -/
theorem chunk_subs_surj (S : List (Option H)) : ∀ (L B : Nat) (t : CTree H),
    chunk S L B = some t → ∀ top : Pos, ∀ e ∈ subs t top.1 top.2,
      ∃ l b k, l + k = L ∧ b / 2 ^ k = B ∧ chunk S l b = some e.2 ∧
        e.1 = fpos (chunkAlive S) top k l b ∧ (k = 0 ∨ chunkAlive S l (sibIdx b) = true) := by
  intro L
  induction L with
  | zero =>
    intro B t ht top e he
    obtain ⟨h, rfl⟩ := chunk_zero_leaf S ht
    simp only [subs, List.mem_singleton] at he
    subst he
    exact ⟨0, B, 0, rfl, by simp, ht, by simp [fpos], Or.inl rfl⟩
  | succ L ih =>
    intro B t ht top e he
    have hsucc := chunk_succ S L B
    rw [ht] at hsucc
    have hroot : ∀ e : Pos × CTree H, e = ((top.1, top.2), t) →
        ∃ l b k, l + k = L + 1 ∧ b / 2 ^ k = B ∧ chunk S l b = some e.2 ∧
          e.1 = fpos (chunkAlive S) top k l b ∧ (k = 0 ∨ chunkAlive S l (sibIdx b) = true) := by
      intro e he
      subst he
      exact ⟨L + 1, B, 0, rfl, by simp, ht, by simp [fpos], Or.inl rfl⟩
    -- lifting a witness of a half to the chunk
    have hlift : ∀ (c : Nat) (top' : Pos), c / 2 = B → childTop (chunkAlive S) top L c = top' →
        ∀ l b k, l + k = L → b / 2 ^ k = c →
          fpos (chunkAlive S) top' k l b = fpos (chunkAlive S) top (k + 1) l b := by
      intro c top' _ hct l b k hlk hbk
      rw [fpos_top, hlk, hbk, hct]
    cases ha : chunk S L (2 * B) with
    | none =>
      cases hb : chunk S L (2 * B + 1) with
      | none => rw [ha, hb] at hsucc; cases hsucc
      | some b' =>
        rw [ha, hb] at hsucc
        have et : t = b' := by simp only [join] at hsucc; injection hsucc
        subst et
        have hct : childTop (chunkAlive S) top L (2 * B + 1) = top := by
          unfold childTop
          rw [sibIdx_odd]; unfold chunkAlive; rw [ha]; rfl
        obtain ⟨l, b, k, h1, h2, h3, h4, h5⟩ := ih (2 * B + 1) t hb top e he
        by_cases hk : k = 0
        · subst hk
          simp only [Nat.pow_zero, Nat.div_one, Nat.add_zero] at h1 h2
          subst h1; subst h2
          rw [hb] at h3
          injection h3 with h3
          refine ⟨l + 1, B, 0, rfl, by simp, by rw [ht, h3], ?_, Or.inl rfl⟩
          simpa [fpos] using h4
        · have h5' : chunkAlive S l (sibIdx b) = true := by
            rcases h5 with h5 | h5
            · exact absurd h5 hk
            · exact h5
          refine ⟨l, b, k + 1, by omega, ?_, h3, ?_, Or.inr h5'⟩
          · rw [div_pow_succ_of h2]; omega
          · rw [h4, hlift (2 * B + 1) top (by omega) hct l b k h1 h2]
    | some a' =>
      cases hb : chunk S L (2 * B + 1) with
      | none =>
        rw [ha, hb] at hsucc
        have et : t = a' := by simp only [join] at hsucc; injection hsucc
        subst et
        have hct : childTop (chunkAlive S) top L (2 * B) = top := by
          unfold childTop
          rw [sibIdx_even]; unfold chunkAlive; rw [hb]; rfl
        obtain ⟨l, b, k, h1, h2, h3, h4, h5⟩ := ih (2 * B) t ha top e he
        by_cases hk : k = 0
        · subst hk
          simp only [Nat.pow_zero, Nat.div_one, Nat.add_zero] at h1 h2
          subst h1; subst h2
          rw [ha] at h3
          injection h3 with h3
          refine ⟨l + 1, B, 0, rfl, by simp, by rw [ht, h3], ?_, Or.inl rfl⟩
          simpa [fpos] using h4
        · have h5' : chunkAlive S l (sibIdx b) = true := by
            rcases h5 with h5 | h5
            · exact absurd h5 hk
            · exact h5
          refine ⟨l, b, k + 1, by omega, ?_, h3, ?_, Or.inr h5'⟩
          · rw [div_pow_succ_of h2]; omega
          · rw [h4, hlift (2 * B) top (by omega) hct l b k h1 h2]
      | some b' =>
        rw [ha, hb] at hsucc
        have et : t = .node a' b' := by simp only [join] at hsucc; injection hsucc
        subst et
        have hala : chunkAlive S L (2 * B) = true := by unfold chunkAlive; rw [ha]; rfl
        have halb : chunkAlive S L (2 * B + 1) = true := by unfold chunkAlive; rw [hb]; rfl
        have hcta : childTop (chunkAlive S) top L (2 * B) = (top.1 - 1, 2 * top.2) := by
          unfold childTop
          rw [sibIdx_even, halb]
          simp
        have hctb : childTop (chunkAlive S) top L (2 * B + 1) = (top.1 - 1, 2 * top.2 + 1) := by
          unfold childTop
          rw [sibIdx_odd, hala]
          simp
        simp only [subs, List.mem_cons, List.mem_append] at he
        rcases he with he | he | he
        · exact hroot e he
        · obtain ⟨l, b, k, h1, h2, h3, h4, h5⟩ := ih (2 * B) a' ha (top.1 - 1, 2 * top.2) e he
          refine ⟨l, b, k + 1, by omega, ?_, h3, ?_, Or.inr ?_⟩
          · rw [div_pow_succ_of h2]; omega
          · rw [h4, hlift (2 * B) _ (by omega) hcta l b k h1 h2]
          · rcases h5 with h5 | h5
            · subst h5
              simp only [Nat.pow_zero, Nat.div_one, Nat.add_zero] at h1 h2
              subst h1; subst h2
              rw [sibIdx_even]; exact halb
            · exact h5
        · obtain ⟨l, b, k, h1, h2, h3, h4, h5⟩ :=
            ih (2 * B + 1) b' hb (top.1 - 1, 2 * top.2 + 1) e he
          refine ⟨l, b, k + 1, by omega, ?_, h3, ?_, Or.inr ?_⟩
          · rw [div_pow_succ_of h2]; omega
          · rw [h4, hlift (2 * B + 1) _ (by omega) hctb l b k h1 h2]
          · rcases h5 with h5 | h5
            · subst h5
              simp only [Nat.pow_zero, Nat.div_one, Nat.add_zero] at h1 h2
              subst h1; subst h2
              rw [sibIdx_odd]; exact hala
            · exact h5

/-- every node is the collapsed root of a chunk; the chunk can be chosen to be the root chunk of
the tree or to have a live sibling chunk (no bound on `S.length` needed: `SubAtT` already says
that row `T` is a tree row) -/
theorem chunk_of_subAtT' (S : List (Option H)) {T : Nat} {q : Pos}
    {s : CTree H} (sq : SubAtT (Forest.mk S) T q s) :
    ∃ l b, Spec.inTree S.length T l b ∧ chunk S l b = some s ∧ q = nodePos S T l b ∧
      (l = T ∨ (l < T ∧ chunkAlive S l (sibIdx b) = true)) := by
  obtain ⟨t0, ht0, _, hm⟩ := sq.tree
  rw [tree_eq_chunk] at ht0
  rw [rootPos_eq] at hm
  obtain ⟨l, b, k, h1, h2, h3, h4, h5⟩ :=
    chunk_subs_surj S T _ t0 ht0 (T, 2 * (S.length / 2 ^ (T + 1))) (q, s) hm
  have hk : T - l = k := by omega
  refine ⟨l, b, ⟨sq.bit, by omega, by rw [hk]; exact h2⟩, h3, ?_, ?_⟩
  · unfold nodePos; rw [hk]; exact h4
  · rcases h5 with h5 | h5
    · left; omega
    · by_cases hk0 : k = 0
      · left; omega
      · right; exact ⟨by omega, h5⟩

/-- the statement with the (unneeded) length bound, for uniformity with `subAtT_of_chunk` -/
theorem chunk_of_subAtT (S : List (Option H)) (_hS : S.length < 2 ^ 64) {T : Nat} {q : Pos}
    {s : CTree H} (sq : SubAtT (Forest.mk S) T q s) :
    ∃ l b, Spec.inTree S.length T l b ∧ chunk S l b = some s ∧ q = nodePos S T l b ∧
      (l = T ∨ (l < T ∧ chunkAlive S l (sibIdx b) = true)) :=
  chunk_of_subAtT' S sq

/-! ### 4. leaves of a chunk = live slots of the chunk -/

theorem chunk_leaves_eq (S : List (Option H)) (l b : Nat) :
    LeafDistinct.leavesO (chunk S l b) = ((S.drop (b * 2 ^ l)).take (2 ^ l)).filterMap id := by
  unfold chunk
  exact LeafDistinct.collapse_leaves_eq l _

theorem mem_chunk_slots (S : List (Option H)) (l b : Nat) (x : H) :
    x ∈ ((S.drop (b * 2 ^ l)).take (2 ^ l)).filterMap id ↔
      ∃ i, b * 2 ^ l ≤ i ∧ i < (b + 1) * 2 ^ l ∧ S[i]? = some (some x) := by
  rw [List.mem_filterMap]
  constructor
  · rintro ⟨a, ha, hax⟩
    simp only [id] at hax
    subst hax
    rw [List.mem_iff_getElem?] at ha
    obtain ⟨j, hj⟩ := ha
    rw [List.getElem?_take] at hj
    split at hj
    · rw [List.getElem?_drop] at hj
      refine ⟨b * 2 ^ l + j, by omega, ?_, hj⟩
      rw [Nat.add_mul, Nat.one_mul]; omega
    · cases hj
  · rintro ⟨i, h1, h2, h3⟩
    rw [Nat.add_mul, Nat.one_mul] at h2
    refine ⟨some x, ?_, rfl⟩
    rw [List.mem_iff_getElem?]
    refine ⟨i - b * 2 ^ l, ?_⟩
    rw [List.getElem?_take, if_pos (by omega), List.getElem?_drop,
      show b * 2 ^ l + (i - b * 2 ^ l) = i by omega]
    exact h3

/-- the leaves of a chunk's tree are live slots of the chunk -/
theorem chunk_leaf_slot (S : List (Option H)) {l b : Nat} {t : CTree H} {x : H}
    (ht : chunk S l b = some t) (hx : x ∈ t.leaves) :
    ∃ i, b * 2 ^ l ≤ i ∧ i < (b + 1) * 2 ^ l ∧ S[i]? = some (some x) := by
  rw [← mem_chunk_slots, ← chunk_leaves_eq, ht]
  exact hx

/-- … and conversely a live slot of the chunk is a leaf of its tree -/
theorem chunk_slot_leaf (S : List (Option H)) {l b i : Nat} {x : H}
    (h1 : b * 2 ^ l ≤ i) (h2 : i < (b + 1) * 2 ^ l) (hx : S[i]? = some (some x)) :
    ∃ t, chunk S l b = some t ∧ x ∈ t.leaves := by
  have hm := (mem_chunk_slots S l b x).2 ⟨i, h1, h2, hx⟩
  rw [← chunk_leaves_eq] at hm
  cases hc : chunk S l b with
  | none => rw [hc] at hm; simp [LeafDistinct.leavesO] at hm
  | some t => rw [hc] at hm; exact ⟨t, rfl, hm⟩

/-- the leaves of a chunk's tree are exactly the live slots of the chunk -/
theorem chunk_leaves_iff (S : List (Option H)) {l b : Nat} {t : CTree H} (ht : chunk S l b = some t)
    (x : H) : x ∈ t.leaves ↔ ∃ i, b * 2 ^ l ≤ i ∧ i < (b + 1) * 2 ^ l ∧ S[i]? = some (some x) := by
  constructor
  · exact chunk_leaf_slot S ht
  · rintro ⟨i, h1, h2, h3⟩
    obtain ⟨t', ht', hx⟩ := chunk_slot_leaf S h1 h2 h3
    rw [ht] at ht'
    injection ht' with e
    rw [e]; exact hx

/-! ### 5. an aligned chunk inside the slot list lies in exactly one tree -/

theorem mul_pow_div_pow {b l T : Nat} (h : l ≤ T) : b * 2 ^ l / 2 ^ T = b / 2 ^ (T - l) := by
  have e : 2 ^ T = 2 ^ (T - l) * 2 ^ l := by rw [← Nat.pow_add]; congr 1; omega
  rw [e, Nat.mul_div_mul_right _ _ (Nat.two_pow_pos l)]

/-- chunk `(l, b)` lies in tree `T` iff its first slot does (and the chunk is not bigger than the
tree) -/
theorem inTree_iff_slot {N T l b : Nat} (hl : l ≤ T) :
    Spec.inTree N T l b ↔ Spec.inTree N T 0 (b * 2 ^ l) := by
  unfold Spec.inTree
  rw [Nat.sub_zero, mul_pow_div_pow hl]
  constructor
  · rintro ⟨h1, _, h3⟩; exact ⟨h1, Nat.zero_le _, h3⟩
  · rintro ⟨h1, _, h3⟩; exact ⟨h1, hl, h3⟩

theorem exists_tree_of_chunk {N l b : Nat} (h : (b + 1) * 2 ^ l ≤ N) : ∃ T, Spec.inTree N T l b := by
  have hpos := Nat.two_pow_pos l
  rw [Nat.add_mul, Nat.one_mul] at h
  obtain ⟨T, h1, h2, h3⟩ := exists_tree_of_lt N (b * 2 ^ l) (by omega)
  have hl : l ≤ T := by
    apply Classical.byContradiction
    intro hc
    have hlt := lt_succ_div_mul N (2 ^ (T + 1)) (Nat.two_pow_pos _)
    have e : 2 ^ l = 2 ^ (l - (T + 1)) * 2 ^ (T + 1) := by rw [← Nat.pow_add]; congr 1; omega
    have e2 : b * 2 ^ l / 2 ^ (T + 1) * 2 ^ (T + 1) = b * 2 ^ l := by
      rw [e, ← Nat.mul_assoc, Nat.mul_div_cancel _ (Nat.two_pow_pos _)]
    rw [h3, Nat.add_mul, Nat.one_mul, e2] at hlt
    have hle : 2 ^ (T + 1) ≤ 2 ^ l := Nat.pow_le_pow_right (by decide) (by omega)
    omega
  have := inTree_of_slot h1 h2 h3 hl
  rw [Nat.mul_div_cancel _ hpos] at this
  exact ⟨T, this⟩

theorem inTree_chunk_unique {N T T' l b : Nat} (h : Spec.inTree N T l b)
    (h' : Spec.inTree N T' l b) : T = T' :=
  inTree_unique ((inTree_iff_slot h.2.1).1 h) ((inTree_iff_slot h'.2.1).1 h')

/-! ### both views describe the same nodes -/

/-- the subtrees of the tree on row `T` are exactly the live chunks of that tree, at their
`nodePos` -/
theorem subAtT_iff_chunk (S : List (Option H)) (hS : S.length < 2 ^ 64) {T : Nat} {q : Pos}
    {s : CTree H} :
    SubAtT (Forest.mk S) T q s ↔
      ∃ l b, Spec.inTree S.length T l b ∧ chunk S l b = some s ∧ q = nodePos S T l b := by
  constructor
  · intro sq
    obtain ⟨l, b, h1, h2, h3, _⟩ := chunk_of_subAtT' S sq
    exact ⟨l, b, h1, h2, h3⟩
  · rintro ⟨l, b, h1, h2, h3⟩
    rw [h3]
    exact subAtT_of_chunk S hS h1 h2

/-- the leaves below a node of the forest are the live slots of a chunk of its tree -/
theorem subAtT_leaves_slots (S : List (Option H)) {T : Nat} {q : Pos} {s : CTree H}
    (sq : SubAtT (Forest.mk S) T q s) :
    ∃ l b, Spec.inTree S.length T l b ∧ q = nodePos S T l b ∧
      ∀ x, x ∈ s.leaves ↔ ∃ i, b * 2 ^ l ≤ i ∧ i < (b + 1) * 2 ^ l ∧ S[i]? = some (some x) := by
  obtain ⟨l, b, h1, h2, h3, _⟩ := chunk_of_subAtT' S sq
  exact ⟨l, b, h1, h3, chunk_leaves_iff S h2⟩

/-! ### non-vacuity -/

section Example

private instance exHasher : Hasher Nat := ⟨fun a b => 100 * a + b, 0⟩

/-- five slots, slot 1 dead: the tree on row 2 is `node (leaf 1) (node (leaf 3) (leaf 4))`, the
tree on row 0 is `leaf 5` -/
private def exS : List (Option Nat) := [some 1, none, some 3, some 4, some 5]

private theorem exIn : Spec.inTree exS.length 2 1 0 := by unfold Spec.inTree; decide
private theorem exChunk : chunk exS 1 0 = some (.leaf 1) := by decide

/-- `chunk_subs_sub`: chunk `(1, 0)` (slots 0, 1 → `leaf 1`) inside chunk `(2, 0)` -/
example : ∃ tT, chunk exS 2 0 = some tT ∧
    ∀ e ∈ subs (CTree.leaf 1) (fpos (chunkAlive exS) (2, 0) 1 1 0).1
        (fpos (chunkAlive exS) (2, 0) 1 1 0).2, e ∈ subs tT 2 0 :=
  chunk_subs_sub exS 2 0 1 1 0 (.leaf 1) rfl (by decide) exChunk

/-- `subAtT_of_chunk`: the lone survivor of chunk `(1, 0)` sits at `(1, 0)` -/
example : SubAtT (Forest.mk exS) 2 (1, 0) (.leaf 1) := by
  have := subAtT_of_chunk exS (by decide) exIn exChunk
  have e : nodePos exS 2 1 0 = (1, 0) := by decide
  rwa [e] at this

/-- `chunk_of_subAtT`: its hypotheses hold for that node -/
example : ∃ l b, Spec.inTree exS.length 2 l b ∧ chunk exS l b = some (.leaf 1) ∧
    (1, 0) = nodePos exS 2 l b ∧ (l = 2 ∨ (l < 2 ∧ chunkAlive exS l (sibIdx b) = true)) := by
  have h := subAtT_of_chunk exS (by decide) exIn exChunk
  have e : nodePos exS 2 1 0 = (1, 0) := by decide
  rw [e] at h
  exact chunk_of_subAtT exS (by decide) h

/-- `chunk_leaf_slot` / `chunk_slot_leaf` on chunk `(1, 1)` (slots 2, 3) -/
example : ∃ i, 1 * 2 ^ 1 ≤ i ∧ i < (1 + 1) * 2 ^ 1 ∧ exS[i]? = some (some 4) :=
  chunk_leaf_slot exS (l := 1) (b := 1) (t := .node (.leaf 3) (.leaf 4)) (by decide) (by decide)

example : ∃ t, chunk exS 1 1 = some t ∧ 4 ∈ t.leaves :=
  chunk_slot_leaf exS (i := 3) (by decide) (by decide) (by decide)

/-- `exists_tree_of_chunk` / `inTree_chunk_unique`: chunk `(1, 1)` of five slots -/
example : ∃ T, Spec.inTree 5 T 1 1 := exists_tree_of_chunk (by decide)
example (T : Nat) (h : Spec.inTree 5 T 1 1) : T = 2 :=
  inTree_chunk_unique h (by unfold Spec.inTree; decide)

end Example

end UtreexoVerif.Proofs.ChunkBridge
