/-
  Lemmas about the slot specification `Spec.Forest` (property C01):
  histories (`run`), batching independence, tree rows vs. binary digits, the collapse
  clauses, and the decomposition of the forest along the binary digits of the leaf count
  that drives the `Stump.add` refinement.
-/
import UtreexoVerif.Spec.Forest
set_option linter.unusedSectionVars false

namespace UtreexoVerif.Spec
open Hasher

variable {H : Type} [DecidableEq H] [Hasher H]

namespace Forest

/-! ### A. histories -/

/-- a block: (deletions, additions) -/
abbrev Block (H : Type) := List H × List H

/-- apply a history of blocks -/
def run (F : Forest H) : List (Block H) → Forest H
  | [] => F
  | b :: rest => run (F.modify b.1 b.2) rest

/-- all additions of a history, in order -/
def allAdds (hist : List (Block H)) : List H := hist.flatMap (·.2)
/-- all deletions of a history -/
def allDels (hist : List (Block H)) : List H := hist.flatMap (·.1)

/-- every block deletes only leaves that are live at that point -/
def LiveDels (F : Forest H) : List (Block H) → Prop
  | [] => True
  | b :: rest => (∀ x ∈ b.1, x ∈ F.liveLeaves) ∧ LiveDels (F.modify b.1 b.2) rest

/-- slot content of an added leaf given the set of deleted leaves -/
def mark (D : List H) (h : H) : Option H := if h ∈ D then none else some h

@[simp] theorem allAdds_nil : allAdds ([] : List (Block H)) = [] := rfl
@[simp] theorem allDels_nil : allDels ([] : List (Block H)) = [] := rfl
@[simp] theorem allAdds_cons (b : Block H) (r : List (Block H)) :
    allAdds (b :: r) = b.2 ++ allAdds r := by simp [allAdds]
@[simp] theorem allDels_cons (b : Block H) (r : List (Block H)) :
    allDels (b :: r) = b.1 ++ allDels r := by simp [allDels]

theorem allAdds_append (h1 h2 : List (Block H)) : allAdds (h1 ++ h2) = allAdds h1 ++ allAdds h2 := by
  simp [allAdds]
theorem allDels_append (h1 h2 : List (Block H)) : allDels (h1 ++ h2) = allDels h1 ++ allDels h2 := by
  simp [allDels]

theorem run_append (F : Forest H) (h1 h2 : List (Block H)) :
    run F (h1 ++ h2) = run (run F h1) h2 := by
  induction h1 generalizing F with
  | nil => rfl
  | cons b r ih => simp [run, ih]

theorem mem_liveLeaves {F : Forest H} {x : H} : x ∈ F.liveLeaves ↔ some x ∈ F.slots := by
  simp [liveLeaves]

theorem run_slots_gen (hist : List (Block H)) :
    ∀ (L D : List H) (F : Forest H), F.slots = L.map (mark D) → (∀ x ∈ D, x ∈ L) →
      (L ++ allAdds hist).Nodup → LiveDels F hist →
      (run F hist).slots = (L ++ allAdds hist).map (mark (D ++ allDels hist)) := by
  induction hist with
  | nil => intro L D F hF _ _ _; simpa [run] using hF
  | cons b rest ih =>
    intro L D F hF hD hnd hlive
    obtain ⟨d, a⟩ := b
    simp only [allAdds_cons, allDels_cons] at hnd ⊢
    obtain ⟨hl1, hl2⟩ := hlive
    simp only at hl1 hl2
    have hsub : ∀ x ∈ d, x ∈ L := by
      intro x hx
      have := hl1 x hx
      rw [mem_liveLeaves, hF] at this
      simp only [List.mem_map] at this
      obtain ⟨y, hy, hm⟩ := this
      unfold mark at hm
      split at hm
      · cases hm
      · cases hm; exact hy
    rw [← List.append_assoc] at hnd
    have hnd' : (L ++ a).Nodup := (List.nodup_append.mp hnd).1
    have hdisj : ∀ x ∈ a, x ∉ L := by
      intro x hx hxL
      exact (List.nodup_append.mp hnd').2.2 x hxL x hx rfl
    have key : (F.modify d a).slots = (L ++ a).map (mark (D ++ d)) := by
      simp only [modify, delLeaves, addMany, hF, List.map_map, List.map_append]
      congr 1
      · apply List.map_congr_left
        intro x _
        simp only [Function.comp, mark, List.mem_append]
        by_cases h1 : x ∈ D <;> by_cases h2 : x ∈ d <;> simp [h1, h2]
      · apply List.map_congr_left
        intro x hx
        have h1 : x ∉ D := fun h => hdisj x hx (hD x h)
        have h2 : x ∉ d := fun h => hdisj x hx (hsub x h)
        simp [mark, h1, h2]
    have := ih (L ++ a) (D ++ d) (F.modify d a) key
      (by intro x hx; rcases List.mem_append.mp hx with h | h
          · exact List.mem_append_left _ (hD x h)
          · exact List.mem_append_left _ (hsub x h))
      hnd hl2
    simpa [run, List.append_assoc] using this

end Forest

/-! ### tree rows and binary digits -/

theorem mem_treeRowsFrom {h n j : Nat} : j ∈ treeRowsFrom h n ↔ j ≤ h ∧ n.testBit j = true := by
  induction h with
  | zero =>
    unfold treeRowsFrom
    split <;> rename_i hb
    · simp only [List.mem_singleton]
      constructor
      · rintro rfl; exact ⟨Nat.le_refl _, hb⟩
      · rintro ⟨h1, _⟩; omega
    · simp only [List.not_mem_nil, false_iff]
      rintro ⟨h1, h2⟩
      have : j = 0 := by omega
      subst this; exact hb h2
  | succ h ih =>
    unfold treeRowsFrom
    split <;> rename_i hb
    · simp only [List.mem_cons, ih]
      constructor
      · rintro (rfl | ⟨h1, h2⟩)
        · exact ⟨Nat.le_refl _, hb⟩
        · exact ⟨by omega, h2⟩
      · rintro ⟨h1, h2⟩
        by_cases hj : j = h + 1
        · exact Or.inl hj
        · exact Or.inr ⟨by omega, h2⟩
    · rw [ih]
      constructor
      · rintro ⟨h1, h2⟩; exact ⟨by omega, h2⟩
      · rintro ⟨h1, h2⟩
        have : j ≠ h + 1 := by rintro rfl; exact hb h2
        exact ⟨by omega, h2⟩

theorem mem_treeRows {n j : Nat} : j ∈ treeRows n ↔ j ≤ 64 ∧ n.testBit j = true := mem_treeRowsFrom

/-- `treeRowsFrom h n` lists the set bits of `n` among `h, h-1, …, 0` in that order -/
theorem treeRowsFrom_eq_filter (h n : Nat) :
    treeRowsFrom h n = ((List.range (h + 1)).reverse).filter (fun j => n.testBit j) := by
  induction h with
  | zero =>
    unfold treeRowsFrom
    cases hb : n.testBit 0 <;> simp [List.range_succ, hb]
  | succ h ih =>
    unfold treeRowsFrom
    rw [List.range_succ (n := h + 1), List.reverse_append, List.reverse_singleton,
      List.singleton_append, List.filter_cons, ih]

/-- number of trees = number of set binary digits of the leaf count -/
theorem treeRows_length (n : Nat) :
    (treeRows n).length = (List.range 65).countP (fun j => n.testBit j) := by
  unfold treeRows
  rw [treeRowsFrom_eq_filter, ← List.countP_eq_length_filter, List.countP_reverse]

theorem treeRowsFrom_zero (h : Nat) : treeRowsFrom h 0 = [] := by
  induction h with
  | zero => simp [treeRowsFrom]
  | succ h ih => simp [treeRowsFrom, ih]

/-- a multiple of `2^k` has no tree below row `k` -/
theorem treeRowsFrom_mul_low {k c h : Nat} (hk : h < k) : treeRowsFrom h (2 ^ k * c) = [] := by
  induction h with
  | zero =>
    unfold treeRowsFrom
    rw [Nat.testBit_two_pow_mul]
    simp; omega
  | succ h ih =>
    unfold treeRowsFrom
    rw [Nat.testBit_two_pow_mul, ih (by omega)]
    have : ¬ (h + 1 ≥ k) := by omega
    simp [this]

theorem testBit_add_low {k c b j : Nat} (hb : b < 2 ^ k) (hj : j < k) :
    (2 ^ k * c + b).testBit j = b.testBit j := by
  rw [Nat.testBit_two_pow_mul_add _ hb, if_pos hj]

theorem testBit_add_high {k c b j : Nat} (hb : b < 2 ^ k) (hj : k ≤ j) :
    (2 ^ k * c + b).testBit j = (2 ^ k * c).testBit j := by
  rw [Nat.testBit_two_pow_mul_add _ hb, if_neg (by omega), Nat.testBit_two_pow_mul]
  simp [hj]

theorem testBit_low_of_lt {k b j : Nat} (hb : b < 2 ^ k) (hj : k ≤ j) : b.testBit j = false :=
  Nat.testBit_lt_two_pow (Nat.lt_of_lt_of_le hb (Nat.pow_le_pow_right (by decide) hj))

/-- the tree rows of `2^k * c + b` (`b < 2^k`) are those of the high part followed by those
of the low part -/
theorem treeRowsFrom_add {k c b : Nat} (hb : b < 2 ^ k) (h : Nat) :
    treeRowsFrom h (2 ^ k * c + b) = treeRowsFrom h (2 ^ k * c) ++ treeRowsFrom h b := by
  induction h with
  | zero =>
    unfold treeRowsFrom
    by_cases hk : 0 < k
    · rw [testBit_add_low hb hk, Nat.testBit_two_pow_mul]
      have : ¬ (0 ≥ k) := by omega
      simp [this]
    · have hk0 : k = 0 := by omega
      subst hk0
      have : b = 0 := by simpa using hb
      subst this
      simp
  | succ h ih =>
    unfold treeRowsFrom
    by_cases hk : h + 1 < k
    · rw [testBit_add_low hb hk, ih, treeRowsFrom_mul_low (show h < k by omega)]
      have h1 : (2 ^ k * c).testBit (h + 1) = false := by
        rw [Nat.testBit_two_pow_mul]
        have : ¬ (h + 1 ≥ k) := by omega
        simp [this]
      simp [h1]
    · rw [testBit_add_high hb (by omega), ih, testBit_low_of_lt hb (show k ≤ h + 1 by omega)]
      split <;> simp

theorem treeRows_add {k c b : Nat} (hb : b < 2 ^ k) :
    treeRows (2 ^ k * c + b) = treeRows (2 ^ k * c) ++ treeRows b := treeRowsFrom_add hb 64

theorem treeRowsFrom_two_pow (h t : Nat) : treeRowsFrom h (2 ^ t) = if t ≤ h then [t] else [] := by
  induction h with
  | zero =>
    unfold treeRowsFrom
    rw [Nat.testBit_two_pow]
    by_cases ht : t = 0
    · subst ht; simp
    · have : ¬ t ≤ 0 := by omega
      simp [ht, this]
  | succ h ih =>
    unfold treeRowsFrom
    rw [Nat.testBit_two_pow, ih]
    by_cases ht : t = h + 1
    · subst ht
      have : ¬ (h + 1 ≤ h) := by omega
      simp [this]
    · simp only [ht, decide_false, Bool.false_eq_true, if_false]
      by_cases h1 : t ≤ h
      · simp [h1, show t ≤ h + 1 by omega]
      · simp [h1, show ¬ t ≤ h + 1 by omega]

/-! ### `treeStart` -/

theorem treeStart_eq (n h : Nat) : treeStart n h = n / 2 ^ (h + 1) * 2 ^ (h + 1) := by
  unfold treeStart
  rw [Nat.shiftLeft_eq, Nat.shiftRight_eq_div_pow]

theorem treeStart_eq_sub (n h : Nat) : treeStart n h = n - n % 2 ^ (h + 1) := by
  rw [treeStart_eq]
  have := Nat.div_add_mod n (2 ^ (h + 1))
  rw [Nat.mul_comm] at this
  omega

/-- a tree on row `h` lies inside the slot list -/
theorem treeStart_add_le {n h : Nat} (hb : n.testBit h = true) : treeStart n h + 2 ^ h ≤ n := by
  rw [treeStart_eq_sub]
  have h1 : n % 2 ^ (h + 1) = n % 2 ^ h + 2 ^ h * (n / 2 ^ h % 2) := Nat.mod_pow_succ
  have h2 : n / 2 ^ h % 2 = 1 := by
    have := Nat.testBit_eq_decide_div_mod_eq (x := n) (i := h)
    rw [hb] at this
    simpa using this.symm
  rw [h2, Nat.mul_one] at h1
  have h3 := Nat.mod_le n (2 ^ (h + 1))
  omega

theorem treeStart_add_high {k c b h : Nat} (hb : b < 2 ^ k) (hk : k ≤ h) :
    treeStart (2 ^ k * c + b) h = treeStart (2 ^ k * c) h := by
  rw [treeStart_eq, treeStart_eq]
  congr 1
  have e : 2 ^ (h + 1) = 2 ^ k * 2 ^ (h + 1 - k) := by
    rw [← Nat.pow_add]; congr 1; omega
  rw [e, ← Nat.div_div_eq_div_mul, ← Nat.div_div_eq_div_mul, Nat.mul_add_div (Nat.two_pow_pos k),
    Nat.div_eq_of_lt hb, Nat.add_zero, Nat.mul_div_cancel_left _ (Nat.two_pow_pos k)]

theorem treeStart_add_low {k c b h : Nat} (hk : h < k) :
    treeStart (2 ^ k * c + b) h = 2 ^ k * c + treeStart b h := by
  rw [treeStart_eq_sub, treeStart_eq_sub]
  have e : 2 ^ k = 2 ^ (h + 1) * 2 ^ (k - (h + 1)) := by
    rw [← Nat.pow_add]; congr 1; omega
  have : (2 ^ k * c + b) % 2 ^ (h + 1) = b % 2 ^ (h + 1) := by
    rw [e, Nat.mul_assoc, Nat.mul_add_mod]
  rw [this]
  have := Nat.mod_le b (2 ^ (h + 1))
  omega

/-! ### `collapse` -/

/-- `collapse k` only looks at the first `2^k` slots -/
theorem collapse_take (k : Nat) : ∀ (m : Nat) (l : List (Option H)), 2 ^ k ≤ m →
    collapse k (l.take m) = collapse k l := by
  induction k with
  | zero =>
    intro m l hm
    obtain ⟨m', rfl⟩ : ∃ m', m = m' + 1 := ⟨m - 1, by simp at hm; omega⟩
    match l with
    | [] => simp [collapse]
    | none :: _ => simp [collapse]
    | some _ :: _ => simp [collapse]
  | succ k ih =>
    intro m l hm
    have hp : 2 ^ (k + 1) = 2 ^ k + 2 ^ k := by rw [Nat.pow_succ]; omega
    simp only [collapse]
    rw [List.take_take, Nat.min_eq_left (by omega), List.drop_take, ih (m - 2 ^ k) _ (by omega)]

theorem collapse_take_self (k : Nat) (l : List (Option H)) :
    collapse k (l.take (2 ^ k)) = collapse k l := collapse_take k _ l (Nat.le_refl _)

theorem collapse_append_of_le (k : Nat) (l l' : List (Option H)) (h : 2 ^ k ≤ l.length) :
    collapse k (l ++ l') = collapse k l := by
  rw [← collapse_take_self k (l ++ l'), List.take_append_of_le_length h, collapse_take_self]

/-- the live leaves of a collapsed chunk are exactly the surviving slots, in order -/
def optLeaves : Option (CTree H) → List H
  | some t => t.leaves
  | none => []

theorem optLeaves_join (a b : Option (CTree H)) :
    optLeaves (join a b) = optLeaves a ++ optLeaves b := by
  cases a <;> cases b <;> simp [join, optLeaves, CTree.leaves]

theorem CTree.leaves_ne_nil (t : CTree H) : t.leaves ≠ [] := by
  induction t with
  | leaf h => simp [CTree.leaves]
  | node l r ihl _ => simp [CTree.leaves, ihl]

theorem optLeaves_eq_nil {a : Option (CTree H)} : optLeaves a = [] ↔ a = none := by
  cases a with
  | none => simp [optLeaves]
  | some t => simp [optLeaves, CTree.leaves_ne_nil]

theorem optLeaves_collapse (k : Nat) : ∀ l : List (Option H),
    optLeaves (collapse k l) = (l.take (2 ^ k)).filterMap id := by
  induction k with
  | zero =>
    intro l
    match l with
    | [] => simp [collapse, optLeaves]
    | none :: _ => simp [collapse, optLeaves]
    | some h :: _ => simp [collapse, optLeaves, CTree.leaves]
  | succ k ih =>
    intro l
    have hp : 2 ^ (k + 1) = 2 ^ k + 2 ^ k := by rw [Nat.pow_succ]; omega
    simp only [collapse, optLeaves_join, ih]
    rw [List.take_take, Nat.min_self, hp, List.take_add, List.filterMap_append]

/-- clause 1: a subtree without survivors contributes nothing (and only then) -/
theorem collapse_eq_none_iff (k : Nat) (l : List (Option H)) :
    collapse k l = none ↔ ∀ h : H, some h ∉ l.take (2 ^ k) := by
  rw [← optLeaves_eq_nil, optLeaves_collapse, List.filterMap_eq_nil_iff]
  constructor
  · intro h x hx; simpa using h (some x) hx
  · intro h a ha
    cases a with
    | none => rfl
    | some x => exact absurd ha (h x)

/-- clause 2 (right half dead): the left half stands in for the parent -/
theorem collapse_succ_right_dead (k : Nat) (l : List (Option H))
    (hd : ∀ h : H, some h ∉ (l.drop (2 ^ k)).take (2 ^ k)) :
    collapse (k + 1) l = collapse k (l.take (2 ^ k)) := by
  have : collapse k (l.drop (2 ^ k)) = none := (collapse_eq_none_iff k _).mpr hd
  simp only [collapse, this]
  cases collapse k (l.take (2 ^ k)) <;> rfl

/-- clause 2 (left half dead): the right half stands in for the parent -/
theorem collapse_succ_left_dead (k : Nat) (l : List (Option H))
    (hd : ∀ h : H, some h ∉ l.take (2 ^ k)) :
    collapse (k + 1) l = collapse k (l.drop (2 ^ k)) := by
  have : collapse k (l.take (2 ^ k)) = none := by
    rw [collapse_take_self]; exact (collapse_eq_none_iff k _).mpr hd
  simp only [collapse, this]
  cases collapse k (l.drop (2 ^ k)) <;> rfl

/-- clause 3: if both halves have survivors the root is the parent of the two halves -/
theorem collapse_succ_both (k : Nat) (l : List (Option H)) (a b : CTree H)
    (ha : collapse k (l.take (2 ^ k)) = some a) (hb : collapse k (l.drop (2 ^ k)) = some b) :
    collapse (k + 1) l = some (.node a b) ∧ (CTree.node a b).hash = ph a.hash b.hash := by
  simp only [collapse, ha, hb, join, CTree.hash, and_self]

/-- root hash of an optional collapsed tree: a tree without survivors has the all-zero root -/
def rootHash : Option (CTree H) → H
  | some t => t.hash
  | none => zero

theorem roots_eq (F : Forest H) : F.roots = F.trees.map (fun p => rootHash p.2) := by
  unfold Forest.roots
  apply List.map_congr_left
  rintro ⟨h, t⟩ _
  cases t <;> rfl

theorem trees_length (F : Forest H) : F.trees.length = (treeRows F.numLeaves).length := by
  simp [Forest.trees]

theorem roots_length (F : Forest H) : F.roots.length = (treeRows F.numLeaves).length := by
  rw [roots_eq, List.length_map, trees_length]

/-- a collapsed tree whose leaves are non-zero has a non-zero hash, provided `ph` never
returns zero -/
theorem CTree.hash_ne_zero (hph : ∀ a b : H, ph a b ≠ (zero : H)) (t : CTree H)
    (hl : ∀ x ∈ t.leaves, x ≠ (zero : H)) : t.hash ≠ zero := by
  cases t with
  | leaf h => exact hl h (by simp [CTree.leaves])
  | node l r => exact hph _ _

/-! ### decomposition of the forest along the binary digits of the leaf count -/

/-- trees of a slot list -/
def treesL (l : List (Option H)) : List (Nat × Option (CTree H)) := (Forest.mk l).trees

theorem treesL_def (l : List (Option H)) : treesL l =
    (treeRows l.length).map fun h => (h, collapse h ((l.drop (treeStart l.length h)).take (2 ^ h))) := rfl

/-- a forest whose first `2^k * c` slots are followed by fewer than `2^k` slots is the
forest of the first part followed by the forest of the rest -/
theorem treesL_append {k c : Nat} (A B : List (Option H)) (hA : A.length = 2 ^ k * c)
    (hB : B.length < 2 ^ k) : treesL (A ++ B) = treesL A ++ treesL B := by
  rw [treesL_def, treesL_def, treesL_def, List.length_append, hA, treeRows_add hB, List.map_append]
  congr 1
  · apply List.map_congr_left
    intro h hh
    rw [mem_treeRows] at hh
    have hk : k ≤ h := by
      have := hh.2
      rw [Nat.testBit_two_pow_mul] at this
      simp at this
      exact this.1
    rw [treeStart_add_high hB hk]
    have hle := treeStart_add_le hh.2
    have hle' : treeStart (2 ^ k * c) h ≤ A.length := by
      rw [hA]; exact Nat.le_trans (Nat.le_add_right _ _) hle
    congr 2
    rw [List.drop_append_of_le_length hle', List.take_append_of_le_length]
    rw [List.length_drop]; omega
  · apply List.map_congr_left
    intro h hh
    rw [mem_treeRows] at hh
    have hk : h < k := by
      apply Classical.byContradiction
      intro hn
      have := testBit_low_of_lt hB (show k ≤ h by omega)
      rw [this] at hh
      exact absurd hh.2 (by simp)
    rw [treeStart_add_low hk, ← hA, List.drop_length_add_append]

/-- a slot list of length `2^t` is one tree -/
theorem treesL_two_pow {t : Nat} (ht : t ≤ 64) (l : List (Option H)) (hl : l.length = 2 ^ t) :
    treesL l = [(t, collapse t l)] := by
  rw [treesL_def, hl]
  unfold treeRows
  rw [treeRowsFrom_two_pow, if_pos ht]
  have : treeStart (2 ^ t) t = 0 := by
    rw [treeStart_eq, Nat.div_eq_of_lt (Nat.pow_lt_pow_right (by decide) (by omega)), Nat.zero_mul]
  simp [this, collapse_take_self]

theorem treesL_nil : treesL ([] : List (Option H)) = [] := by
  rw [treesL_def]; simp [treeRows, treeRowsFrom_zero]

/-- the trees of a slot list of length `2^t - 1`: rows `t-1, …, 0` -/
def onesTrees : Nat → List (Option H) → List (Nat × Option (CTree H))
  | 0, _ => []
  | t+1, l => (t, collapse t (l.take (2 ^ t))) :: onesTrees t (l.drop (2 ^ t))

theorem onesTrees_length (t : Nat) (l : List (Option H)) : (onesTrees t l).length = t := by
  induction t generalizing l with
  | zero => rfl
  | succ t ih => simp [onesTrees, ih]

theorem treesL_ones (t : Nat) : ∀ (l : List (Option H)), t ≤ 65 → l.length = 2 ^ t - 1 →
    treesL l = onesTrees t l := by
  induction t with
  | zero =>
    intro l _ hl
    have : l = [] := by simpa using hl
    subst this
    simp [treesL_nil, onesTrees]
  | succ t ih =>
    intro l ht hl
    have hp : 2 ^ (t + 1) = 2 ^ t + 2 ^ t := by rw [Nat.pow_succ]; omega
    have hpos := Nat.two_pow_pos t
    have h1 : (l.take (2 ^ t)).length = 2 ^ t * 1 := by rw [List.length_take]; omega
    have h2 : (l.drop (2 ^ t)).length = 2 ^ t - 1 := by rw [List.length_drop]; omega
    have := treesL_append (k := t) (c := 1) (l.take (2 ^ t)) (l.drop (2 ^ t)) h1 (by omega)
    rw [List.take_append_drop] at this
    rw [this, treesL_two_pow (t := t) (by omega) _ (by omega), ih _ (by omega) h2]
    simp [onesTrees, collapse_take_self]

/-- merging the trees on rows `t-1, …, 0` with a new subtree, from the right -/
def mergeTrees (ts : List (Nat × Option (CTree H))) (x : Option (CTree H)) : Option (CTree H) :=
  ts.foldr (fun p acc => join p.2 acc) x

/-- appending one slot to `2^t - 1` slots: the new tree on row `t` is the merge -/
theorem collapse_ones_append (t : Nat) : ∀ (l : List (Option H)) (s : Option H),
    l.length = 2 ^ t - 1 →
    collapse t (l ++ [s]) = mergeTrees (onesTrees t l) (collapse 0 [s]) := by
  induction t with
  | zero =>
    intro l s hl
    have : l = [] := by simpa using hl
    subst this
    simp [mergeTrees, onesTrees]
  | succ t ih =>
    intro l s hl
    have hp : 2 ^ (t + 1) = 2 ^ t + 2 ^ t := by rw [Nat.pow_succ]; omega
    have hpos := Nat.two_pow_pos t
    have h2 : (l.drop (2 ^ t)).length = 2 ^ t - 1 := by rw [List.length_drop]; omega
    simp only [collapse, onesTrees, mergeTrees, List.foldr_cons]
    rw [List.take_append_of_le_length (by omega), List.drop_append_of_le_length (by omega),
      ih _ s h2]
    rfl

/-- every leaf count is `2^(t+1) * c + (2^t - 1)`: `t` trailing one digits, then a zero -/
theorem exists_trailing_ones (n : Nat) : ∃ t c, n = 2 ^ (t + 1) * c + (2 ^ t - 1) := by
  induction n using Nat.strongRecOn with
  | _ n ih =>
    by_cases hn : n % 2 = 0
    · exact ⟨0, n / 2, by simp; omega⟩
    · obtain ⟨t, c, h⟩ := ih (n / 2) (by omega)
      refine ⟨t + 1, c, ?_⟩
      have hpos := Nat.two_pow_pos t
      have e1 : 2 ^ (t + 1 + 1) = 2 * 2 ^ (t + 1) := by rw [Nat.pow_succ]; omega
      have e2 : 2 ^ (t + 1) = 2 * 2 ^ t := by rw [Nat.pow_succ]; omega
      rw [e1, Nat.mul_assoc]
      omega

theorem ones_lt (t : Nat) : 2 ^ t - 1 < 2 ^ (t + 1) := by
  have := Nat.two_pow_pos t
  rw [Nat.pow_succ]; omega

theorem testBit_trailing_low {t c j : Nat} (hj : j < t) :
    (2 ^ (t + 1) * c + (2 ^ t - 1)).testBit j = true := by
  rw [testBit_add_low (ones_lt t) (by omega), Nat.testBit_two_pow_sub_one]
  simp [hj]

theorem testBit_trailing_at {t c : Nat} :
    (2 ^ (t + 1) * c + (2 ^ t - 1)).testBit t = false := by
  rw [testBit_add_low (ones_lt t) (by omega), Nat.testBit_two_pow_sub_one]
  simp

/-- the trees of a forest with `2^(t+1) * c + (2^t - 1)` slots -/
theorem trees_decomp {t c : Nat} (F : Forest H) (hn : F.numLeaves = 2 ^ (t + 1) * c + (2 ^ t - 1))
    (ht : t ≤ 65) :
    F.trees = treesL (F.slots.take (2 ^ (t + 1) * c)) ++ onesTrees t (F.slots.drop (2 ^ (t + 1) * c)) := by
  have hlen : F.slots.length = 2 ^ (t + 1) * c + (2 ^ t - 1) := hn
  have h1 : (F.slots.take (2 ^ (t + 1) * c)).length = 2 ^ (t + 1) * c := by
    rw [List.length_take]; omega
  have h2 : (F.slots.drop (2 ^ (t + 1) * c)).length = 2 ^ t - 1 := by
    rw [List.length_drop]; omega
  have := treesL_append _ _ h1 (by rw [h2]; exact ones_lt t)
  rw [List.take_append_drop] at this
  rw [← treesL_ones t _ ht h2, ← this]
  rfl

/-- the trees after one addition: the low `t` trees are merged with the new leaf into one
tree on row `t`, the others are unchanged -/
theorem trees_add_decomp {t c : Nat} (F : Forest H) (x : H)
    (hn : F.numLeaves = 2 ^ (t + 1) * c + (2 ^ t - 1)) (ht : t ≤ 64) :
    (F.add x).trees = treesL (F.slots.take (2 ^ (t + 1) * c)) ++
      [(t, mergeTrees (onesTrees t (F.slots.drop (2 ^ (t + 1) * c))) (some (.leaf x)))] := by
  have hlen : F.slots.length = 2 ^ (t + 1) * c + (2 ^ t - 1) := hn
  have hpos := Nat.two_pow_pos t
  have hp : 2 ^ (t + 1) = 2 ^ t + 2 ^ t := by rw [Nat.pow_succ]; omega
  have h1 : (F.slots.take (2 ^ (t + 1) * c)).length = 2 ^ (t + 1) * c := by
    rw [List.length_take]; omega
  have h2 : (F.slots.drop (2 ^ (t + 1) * c)).length = 2 ^ t - 1 := by
    rw [List.length_drop]; omega
  have h3 : (F.slots.drop (2 ^ (t + 1) * c) ++ [some x]).length = 2 ^ t := by
    rw [List.length_append, h2]; simp; omega
  have := treesL_append (F.slots.take (2 ^ (t + 1) * c)) (F.slots.drop (2 ^ (t + 1) * c) ++ [some x])
    h1 (by omega)
  rw [← List.append_assoc, List.take_append_drop] at this
  show treesL (F.slots ++ [some x]) = _
  rw [this, treesL_two_pow ht _ h3, collapse_ones_append t _ _ h2]
  rfl

theorem treeRows_ones_length {t : Nat} (ht : t ≤ 65) : (treeRows (2 ^ t - 1)).length = t := by
  letI : Hasher Unit := ⟨fun _ _ => (), ()⟩
  have h := treesL_ones (H := Unit) t (List.replicate (2 ^ t - 1) none) ht (by simp)
  have h2 := congrArg List.length h
  rw [onesTrees_length, treesL_def, List.length_map, List.length_replicate] at h2
  exact h2

/-- number of trees before and after one addition -/
theorem treeRows_length_trailing {t c : Nat} (ht : t ≤ 64) :
    (treeRows (2 ^ (t + 1) * c + (2 ^ t - 1))).length = (treeRows (2 ^ (t + 1) * c)).length + t ∧
    (treeRows (2 ^ (t + 1) * c + (2 ^ t - 1) + 1)).length = (treeRows (2 ^ (t + 1) * c)).length + 1 := by
  have hpos := Nat.two_pow_pos t
  have hp : 2 ^ (t + 1) = 2 ^ t + 2 ^ t := by rw [Nat.pow_succ]; omega
  constructor
  · rw [treeRows_add (ones_lt t), List.length_append, treeRows_ones_length (t := t) (by omega)]
  · have e : 2 ^ (t + 1) * c + (2 ^ t - 1) + 1 = 2 ^ (t + 1) * c + 2 ^ t := by omega
    rw [e, treeRows_add (by omega), List.length_append]
    unfold treeRows
    rw [treeRowsFrom_two_pow (t := t), if_pos ht]
    rfl

/-! ### one addition, on root hashes -/

/-- merge a new root hash with the roots on the rows below, from the right; a zero root
(tree without survivors) is skipped -/
def mergeHash (rs : List H) (x : H) : H :=
  rs.foldr (fun r acc => if r ≠ zero then ph r acc else acc) x

theorem mem_optLeaves_collapse {k : Nat} {l : List (Option H)} {y : H}
    (hy : y ∈ optLeaves (collapse k l)) : some y ∈ l := by
  rw [optLeaves_collapse] at hy
  simp only [List.mem_filterMap, id] at hy
  obtain ⟨a, ha, rfl⟩ := hy
  exact List.mem_of_mem_take ha

theorem mem_onesTrees_leaves (t : Nat) : ∀ (l : List (Option H)) (p : Nat × Option (CTree H)),
    p ∈ onesTrees t l → ∀ y ∈ optLeaves p.2, some y ∈ l := by
  induction t with
  | zero => intro l p hp; simp [onesTrees] at hp
  | succ t ih =>
    intro l p hp y hy
    simp only [onesTrees, List.mem_cons] at hp
    rcases hp with rfl | hp
    · exact List.mem_of_mem_take (mem_optLeaves_collapse hy)
    · exact List.mem_of_mem_drop (ih _ p hp y hy)

theorem mergeTrees_hash (ts : List (Nat × Option (CTree H))) (a : CTree H)
    (hnz : ∀ p ∈ ts, ∀ tr, p.2 = some tr → tr.hash ≠ (zero : H)) :
    ∃ tr, mergeTrees ts (some a) = some tr ∧
      tr.hash = mergeHash (ts.map (fun p => rootHash p.2)) a.hash := by
  induction ts with
  | nil => exact ⟨a, rfl, rfl⟩
  | cons p rest ih =>
    obtain ⟨tr', h1, h2⟩ := ih (fun q hq => hnz q (List.mem_cons_of_mem _ hq))
    simp only [mergeTrees, List.foldr_cons, List.map_cons, mergeHash] at h1 h2 ⊢
    rw [h1]
    cases hp : p.2 with
    | none =>
      refine ⟨tr', rfl, ?_⟩
      simp [rootHash, h2]
    | some tp =>
      refine ⟨.node tp tr', rfl, ?_⟩
      have := hnz p (List.mem_cons_self) tp hp
      simp [rootHash, CTree.hash, h2, this]

/-- **one addition on roots**: with `t` the number of trailing one digits of the leaf count,
the last `t` roots are merged from the right with the new leaf (skipping roots of trees
without survivors); the other roots are unchanged. -/
theorem roots_add {t c : Nat} (F : Forest H) (x : H)
    (hn : F.numLeaves = 2 ^ (t + 1) * c + (2 ^ t - 1)) (ht : t ≤ 64)
    (hph : ∀ a b : H, ph a b ≠ (zero : H)) (hlive : ∀ y ∈ F.liveLeaves, y ≠ (zero : H)) :
    ∃ hi lo : List H, F.roots = hi ++ lo ∧ lo.length = t ∧
      (F.add x).roots = hi ++ [mergeHash lo x] := by
  refine ⟨(treesL (F.slots.take (2 ^ (t + 1) * c))).map (fun p => rootHash p.2),
    (onesTrees t (F.slots.drop (2 ^ (t + 1) * c))).map (fun p => rootHash p.2), ?_, ?_, ?_⟩
  · rw [roots_eq, trees_decomp F hn (by omega), List.map_append]
  · rw [List.length_map, onesTrees_length]
  · rw [roots_eq, trees_add_decomp F x hn ht, List.map_append]
    congr 1
    have hnz : ∀ p ∈ onesTrees t (F.slots.drop (2 ^ (t + 1) * c)), ∀ tr, p.2 = some tr →
        tr.hash ≠ (zero : H) := by
      intro p hp tr htr
      apply CTree.hash_ne_zero hph
      intro y hy
      apply hlive
      rw [Forest.mem_liveLeaves]
      apply List.mem_of_mem_drop
      apply mem_onesTrees_leaves t _ p hp y
      rw [htr]; exact hy
    obtain ⟨tr, h1, h2⟩ := mergeTrees_hash _ (.leaf x) hnz
    simp only [List.map_cons, List.map_nil, h1, rootHash, h2, CTree.hash]

end UtreexoVerif.Spec
