/-
  `Undo` of the map forest: assembly of the three phases
  (`undoAdd`, `undoDeletion`, `restoreRoots`) into the preservation of the strong invariant.
-/
import UtreexoVerif.Proofs.MapUndoAdd
import UtreexoVerif.Proofs.MapUndoChain
import UtreexoVerif.Proofs.MapUndoDel
import UtreexoVerif.Proofs.MapUndoFillP
import UtreexoVerif.Proofs.MapSInv

namespace UtreexoVerif.Proofs.MapUndoAll
open UtreexoVerif Model Spec Spec.Forest Proofs MapAL MapInv MapPrune MapRep MapLiftGeo PForest MapAInv MapLiftCore
open MapUndoDefs MapUndoSteps PForestSpec PForestAdd MapUndoRep MapUndoOrder MapAddMerge Hasher
open MapUndoAdd MapUndoChain MapUndoRoots MapRemoveAll MapDeTwin PForestDel MapSInv

set_option linter.unusedVariables false
set_option linter.unusedSectionVars false

variable {H : Type} [DecidableEq H] [Hasher H]

/-! ### small helpers -/

theorem sorted_ext : ∀ {l1 l2 : List Nat}, l1.Pairwise (fun a b => a > b) → l2.Pairwise (fun a b => a > b) →
    (∀ a, a ∈ l1 ↔ a ∈ l2) → l1 = l2
  | [], [], _, _, _ => rfl
  | [], b :: r2, _, _, h => by have := (h b).2 List.mem_cons_self; cases this
  | a :: r, [], _, _, h => by have := (h a).1 List.mem_cons_self; cases this
  | a :: r, b :: r2, h1, h2, h => by
    rw [List.pairwise_cons] at h1 h2
    have hab : a = b := by
      rcases List.mem_cons.1 ((h a).1 List.mem_cons_self) with e | ha
      · exact e
      · rcases List.mem_cons.1 ((h b).2 List.mem_cons_self) with e | hb
        · exact e.symm
        · have := h1.1 b hb; have := h2.1 a ha; omega
    subst hab
    congr 1
    apply sorted_ext h1.2 h2.2
    intro x
    constructor
    · intro hx
      rcases List.mem_cons.1 ((h x).1 (List.mem_cons_of_mem _ hx)) with e | hx'
      · have := h1.1 x hx; omega
      · exact hx'
    · intro hx
      rcases List.mem_cons.1 ((h x).2 (List.mem_cons_of_mem _ hx)) with e | hx'
      · have := h2.1 x hx; omega
      · exact hx'

theorem HInvP.congr_K {A : Pos → Option (Leaf H)} {C : H → Option Pos} {N : List (Pos × H × Bool)}
    {R : Pos → Prop} {K K' Kp : H → Prop} {Hole : Pos → Prop} (inv : HInvP A C N R K Kp Hole)
    (h : ∀ x, K' x ↔ K x) : HInvP A C N R K' Kp Hole := by
  have : K' = K := funext (fun x => propext (h x))
  rw [this]; exact inv

/-! ### phase 1: `undoAdd` -/

theorem undoAdd_spec (nz : NZ H) {m : MapPollard H} {T : Nat} {F : Forest H} {dels adds : List H}
    {ts : List Pos} {ps : List H} (hyF : Hyg F) (hnd : dels.Nodup) (hc : F.canon dels = some (ts, ps))
    (hyp : Hyg ((F.delLeaves dels).addMany adds))
    {A : Pos → Option (Leaf H)} {C : H → Option Pos} (rep : Rep m T A C) (hfull : m.full = false)
    (hnl : m.numLeaves = BitVec.ofNat 64 (F.numLeaves + adds.length))
    (hn63 : F.numLeaves + adds.length < 2 ^ 63) (hfit : forestRows (F.numLeaves + adds.length) ≤ T)
    (Kp : H → Prop)
    (inv : HInvP A C ((F.delLeaves dels).addMany adds).nodes (FRoot ((F.delLeaves dels).addMany adds))
      (fun y => (C y).isSome = true) Kp (fun _ => False))
    (nonZero : H) (hnz : nonZero ≠ (zero : H)) :
    ∃ m' A' C', MapPollard.undoAdd nonZero (BitVec.ofNat 64 adds.length) (ts.map (encP F.rows)) F.roots m = (m', .ok ()) ∧
      Rep m' T A' C' ∧ m'.numLeaves = BitVec.ofNat 64 F.numLeaves ∧ m'.full = false ∧
      HInvP A' C' (F.delLeaves dels).nodes (FRoot F) (fun y => (C' y).isSome = true) Kp (fun _ => False) ∧
      (∀ y, (C' y).isSome = true ↔ ((C y).isSome = true ∧ y ∉ adds)) := by
  have hT := rep.T_le
  have hG : (F.delLeaves dels).numLeaves = F.numLeaves := numLeaves_delLeaves F dels
  have hyG : Hyg (F.delLeaves dels) := hyg_delLeaves hyF dels
  obtain ⟨E, hgw, hEs, hEm⟩ := gwoer_spec nz rep.rows hT F hyF hnd hc adds.length hnl hn63 hfit nonZero hnz
  have hE : E = destroyed (F.delLeaves dels) adds.length := by
    apply sorted_ext hEs (destroyed_sorted _ _)
    intro h
    rw [hEm]
    unfold destroyed
    rw [List.mem_filter, Bool.and_eq_true, decide_eq_true_eq, hG]
    constructor
    · rintro ⟨hb, hd, hr⟩
      exact ⟨CalcComplete.mem_treeRows (by omega) hb,
        (deadB_iff nz _ (by rw [hG]; omega) hyG (by rw [hG]; exact hb)).2 hd, hr⟩
    · rintro ⟨hrow, hd, hr⟩
      have hb := (mem_treeRows.1 hrow).2
      refine ⟨hb, ?_, hr⟩
      exact (deadB_iff nz _ (by rw [hG]; omega) hyG (by rw [hG]; exact hb)).1 hd
  obtain ⟨m', A', C', hrun, rep', hnl', hfl', inv', hdom'⟩ := unadd_loop nz (T := T) (F.delLeaves dels) Kp adds
    (by rw [hG]; exact hn63) (by rw [hG]; exact hfit) hyp rep hfull (by rw [hG]; exact hnl) inv
  rw [hG] at hnl'
  rw [froot_del] at inv'
  refine ⟨m', A', C', ?_, rep', hnl', hfl', inv', hdom'⟩
  unfold MapPollard.undoAdd
  rw [hgw]
  simp only
  have hk : (BitVec.ofNat 64 adds.length).toNat = adds.length := by
    rw [BitVec.toNat_ofNat]; exact Nat.mod_eq_of_lt (by omega)
  rw [hk, hE]
  have : (fun h => encP T (rootPos F.numLeaves h)) = encE T (F.delLeaves dels) := by
    funext h; unfold encE; rw [hG]
  rw [this]
  exact hrun

/-! ### phase 2: `undoDeletion` -/

theorem moveBackAll_dom (n : Nat) : ∀ (ds : List Pos) (A : Pos → Option (Leaf H)) (C : H → Option Pos) (x : H),
    ((moveBackAll n ds (A, C)).2 x).isSome = (C x).isSome
  | [], A, C, x => rfl
  | d :: ds, A, C, x => by
    show ((stepBack n d (moveBackAll n ds (A, C))).2 x).isSome = _
    unfold stepBack
    split
    · exact moveBackAll_dom n ds A C x
    · show (unliftCAll (sib d) (moveBackAll n ds (A, C)).2 x).isSome = _
      unfold unliftCAll
      rw [Option.isSome_map]
      exact moveBackAll_dom n ds A C x

open MapIngest SpecPlan in
theorem undoDeletion_spec (nz : NZ H) {m : MapPollard H} {T : Nat} {F : Forest H} {dels : List H}
    {ts : List Pos} {ps : List H} (hyF : Hyg F) (hnd : dels.Nodup) (hc : F.canon dels = some (ts, ps))
    (hn63 : F.numLeaves < 2 ^ 63) (hfit : F.rows ≤ T)
    {A : Pos → Option (Leaf H)} {C : H → Option Pos} (rep : Rep m T A C) (hfull : m.full = false)
    (hnl : m.numLeaves = BitVec.ofNat 64 F.numLeaves)
    (Kp : H → Prop) (hKp1 : ∀ x ∈ dels, Kp x)
    (hKp2 : ∀ t x, Kp x → (t, x, true) ∈ F.nodes → ((C x).isSome = true ∨ x ∈ dels))
    (hCd : ∀ x, (C x).isSome = true → x ∉ dels)
    (inv : HInvP A C (F.delLeaves dels).nodes (FRoot F) (fun y => (C y).isSome = true) Kp (fun _ => False)) :
    ∃ m' A' C', MapPollard.undoDeletion (ts.map (encP F.rows)) ps dels m = (m', .ok ()) ∧
      Rep m' T A' C' ∧ m'.numLeaves = m.numLeaves ∧ m'.full = false ∧
      HInv A' C' F.nodes (FRoot F) (fun y => (C' y).isSome = true) (fun _ => False) ∧
      (∀ y, (C' y).isSome = true ↔ ((C y).isSome = true ∨ y ∈ dels)) := by
  have hT := rep.T_le
  have hn64 : F.numLeaves < 2 ^ 64 := by omega
  have Lw := laws_forest nz F hn64 hyF
  obtain ⟨ds, hDT, hlive, hvalid, hdt⟩ := deTwin_spec_live nz F hn63 hyF hnd hc hT hfit
  have hmem : ∀ x, x ∈ ds.flatMap (leavesUnder F) ↔ x ∈ dels := by
    intro x
    simp only [List.mem_flatMap, mem_leavesUnder]
    constructor
    · rintro ⟨d, hd, t, ht, ha⟩; exact hDT.sub d hd t x ht ha
    · intro hx
      obtain ⟨d, hd, t, ht, ha⟩ := hDT.cover x hx
      exact ⟨d, hd, t, ht, ha⟩
  have inv0 : HInvP A C (F.delLeaves (ds.flatMap (leavesUnder F))).nodes (FRoot F) (fun y => (C y).isSome = true) Kp
      (fun _ => False) := HInvP.congr_N inv (congrArg Forest.nodes (delLeaves_congr' F hmem))
  have hKd : ∀ d ∈ ds, ∀ t x, (t, x, true) ∈ F.nodes → Anc d t → ¬ (C x).isSome = true :=
    fun d hd t x ht ha hC => hCd x hC (hDT.sub d hd t x ht ha)
  have hKpd : ∀ d ∈ ds, isRootPos F.numLeaves d = false → ∃ t x, (t, x, true) ∈ F.nodes ∧ Anc d t ∧ Kp x := by
    intro d hd _
    obtain ⟨t, x, ht, ha⟩ := hlive d hd
    exact ⟨t, x, ht, ha, hKp1 x (hDT.sub d hd t x ht ha)⟩
  obtain ⟨m2, hmd, rep2, hnl2, hfull2⟩ := unremove_rep nz ds F hn63 hyF hDT.node hDT.sep _ Kp hKd hKpd m T A C rep hnl
    hfit hfull inv0
  have inv2 := unremove_chain nz ds F hn64 hyF hDT.node hDT.sep _ Kp hKd hKpd A C inv0
  -- the targets
  have hts : ∀ t x, (t, x, true) ∈ F.nodes → x ∈ dels → t ∈ ts :=
    fun t x ht hx => (ts_iff nz hn64 hyF hc t).2 ⟨x, hx, ht⟩
  -- the hole lies in the path set
  have hole_incl : ∀ q, (∃ d ∈ ds, holeOf F.nodes d q) → q ∈ pathSet F ts := by
    rintro q ⟨d, hd, hq, h0, f0, hm⟩
    obtain ⟨t0, x0, ht0, ha0⟩ := hlive d hd
    have ht0' := hts t0 x0 ht0 (hDT.sub d hd t0 x0 ht0 ha0)
    rcases hq with hq | hq
    · by_cases hz : h0 = zero
      · exfalso
        subst hz
        obtain ⟨hRq, hf, hbelow⟩ := Lw.zero_root q f0 hm
        obtain ⟨hd1, bd, hdm⟩ := hDT.node d hd
        obtain ⟨ρ, hρ, haρ⟩ := Lw.under_root d _ _ hdm
        have := Lw.root_disj ρ q q hρ hRq (Anc.trans haρ hq) (Anc.refl q)
        subst this
        have := hbelow t0 x0 true ht0 (Anc.trans haρ ha0)
        subst this
        have := (Lw.func _ _ _ _ _ ht0 hm).2
        rw [hf] at this
        cases this
      · obtain ⟨t1, x1, ht1, ha1⟩ := Lw.has_leaf q h0 f0 hm hz
        exact ps_of_anc hc hm (hts t1 x1 ht1 (hDT.sub d hd t1 x1 ht1 (Anc.trans hq ha1))) ha1
    · exact ps_of_anc hc hm ht0' (Anc.trans hq (Anc.trans (anc_parent_self d) ha0))
  -- cached leaves are outside the path set
  have hk : ∀ t, KLeaf F.nodes (fun y => (C y).isSome = true) t → ¬ t ∈ pathSet F ts := by
    rintro t ⟨x, hx, hm⟩ hps
    obtain ⟨t', ht', ha⟩ := ps_anc hc hps
    obtain ⟨x', hx', hm'⟩ := (ts_iff nz hn64 hyF hc t').1 ht'
    have := Lw.leaf_below t x t' x' true hm hm' ha
    subst this
    have := (Lw.func _ _ _ _ _ hm hm').1
    subst this
    exact hCd x hx hx'
  have inv3 : HInvP (moveBackAll F.numLeaves ds (A, C)).1 (moveBackAll F.numLeaves ds (A, C)).2 F.nodes (FRoot F)
      (fun y => ((moveBackAll F.numLeaves ds (A, C)).2 y).isSome = true) Kp (fun q => q ∈ pathSet F ts) :=
    HInvP.congr_K (inv2.mono_hole hole_incl hk) (fun y => by rw [moveBackAll_dom])
  -- the model
  have hpp : ∀ q ∈ F.proofPositions ts, ∀ l, (moveBackAll F.numLeaves ds (A, C)).1 q = some l → l.hash = tvF F q := by
    intro q hq l hl
    obtain ⟨b, hb⟩ := inv3.true_hash q l hl ((pp_iff q).1 hq).1
    obtain ⟨b', hb'⟩ := pp_node hc hq
    exact (Lw.func _ _ _ _ _ hb hb').1
  obtain ⟨m', hrun, rep', hnl', hfl'⟩ := MapUndoDel.undoDeletion_rep nz rep.rows hT hnl hn63 hfit hyF hnd hc hdt hmd rep2
    hnl2 hfull2 hpp
  obtain ⟨_, hpos, _, _⟩ := SpecPlan.canon_spec hc
  refine ⟨m', _, _, hrun, rep', hnl', hfl', ?_, ?_⟩
  · apply hinv_fillP Lw inv3 (KL := fun x => x ∈ dels)
    · rintro t ⟨x, hx, hm⟩
      refine ⟨x, ?_, hm⟩
      show (if x ∈ dels then F.posOf x else _).isSome = true
      rcases hKp2 t x hx hm with h | h
      · by_cases hxd : x ∈ dels
        · exact absurd hxd (hCd x h)
        · rw [if_neg hxd, moveBackAll_dom]; exact h
      · rw [if_pos h]
        obtain ⟨p, hp⟩ := hpos x h
        rw [hp]; rfl
    · exact ts_iff nz hn64 hyF hc
    · exact fun q hq => ps_node hc hq
    · exact fun q hq => ps_anc hc hq
    · exact fun t ht => SpecPlan.targets_sub_pathSet (canon_targetsOK hc) ht
    · exact fun q h b t hq ht ha => ps_of_anc hc hq ht ha
    · exact pp_iff
    · exact fun q hq => pp_node hc hq
    · intro x t h
      by_cases hxd : x ∈ dels
      · rw [if_pos hxd] at h
        exact Or.inr ⟨hxd, posOf_mem h⟩
      · rw [if_neg hxd] at h
        exact Or.inl h
    · intro x
      by_cases hxd : x ∈ dels
      · rw [if_pos hxd]
        obtain ⟨p, hp⟩ := hpos x hxd
        rw [hp]; simp [hxd]
      · rw [if_neg hxd]; simp [hxd]
  · intro y
    by_cases hxd : y ∈ dels
    · rw [if_pos hxd]
      obtain ⟨p, hp⟩ := hpos y hxd
      rw [hp]; simp [hxd]
    · rw [if_neg hxd, moveBackAll_dom]; simp [hxd]

/-! ### phase 3: `restoreRoots` -/

theorem restoreA_cases (ps : List (Pos × H)) (A : Pos → Option (Leaf H)) (C : H → Option Pos) (q : Pos) :
    (∃ e ∈ ps, e.1 = q ∧ restoreA ps A C q = some ⟨e.2, (C e.2).isSome⟩) ∨ restoreA ps A C q = A q := by
  unfold restoreA
  cases hf : ps.find? (fun e => e.1 = q) with
  | none => exact Or.inr rfl
  | some e =>
    refine Or.inl ⟨e, List.mem_of_find?_eq_some hf, ?_, rfl⟩
    have := List.find?_some hf
    simpa using this

theorem hinv_restore {A : Pos → Option (Leaf H)} {C : H → Option Pos} {N : List (Pos × H × Bool)} {R : Pos → Prop}
    (L : Laws N R) (inv : HInv A C N R (fun x => (C x).isSome = true) (fun _ => False)) (ps : List (Pos × H))
    (hps : ∀ e ∈ ps, R e.1 ∧ ∃ b, (e.1, e.2, b) ∈ N) :
    HInv (restoreA ps A C) C N R (fun x => (C x).isSome = true) (fun _ => False) where
  true_hash := by
    intro q l hl hh
    rcases restoreA_cases ps A C q with ⟨e, he, rfl, h⟩ | h
    · rw [h] at hl; cases hl
      exact (hps e he).2
    · rw [h] at hl; exact inv.true_hash q l hl hh
  cache_sub := inv.cache_sub
  cached_pos := inv.cached_pos
  kleaf_out := inv.kleaf_out
  leaf_stored := by
    intro t hk
    rcases restoreA_cases ps A C t with ⟨e, he, rfl, h⟩ | h
    · rw [h]; simp
    · rw [h]; exact inv.leaf_stored t hk
  only_needed := by
    intro q l hl hh hr
    rcases restoreA_cases ps A C q with ⟨e, he, rfl, h⟩ | h
    · exact absurd (hps e he).1 hr
    · rw [h] at hl; exact inv.only_needed q l hl hh hr
  has_needed := by
    intro q h' b hm hh hr hreq
    rcases restoreA_cases ps A C q with ⟨e, he, rfl, h⟩ | h
    · rw [h]; simp
    · rw [h]; exact inv.has_needed q h' b hm hh hr hreq
  flags := by
    intro q l hl hh hz
    rcases restoreA_cases ps A C q with ⟨e, he, rfl, h⟩ | h
    · rw [h] at hl; cases hl
      obtain ⟨b, hb⟩ := (hps e he).2
      show (C e.2).isSome = true ↔ _
      constructor
      · intro hC
        cases hCx : C e.2 with
        | none => rw [hCx] at hC; cases hC
        | some t =>
          have hm := (inv.cached_pos _ t hCx).1
          have := L.leaf_hash t e.2 e.1 b hm hb
          rw [this]
          exact ⟨e.2, hC, hm⟩
      · rintro ⟨x, hx, hm⟩
        have := (L.func _ _ _ _ _ hm hb).1
        rw [← this]; exact hx
    · rw [h] at hl; exact inv.flags q l hl hh hz

/-! ### the whole of `Undo` -/

theorem liveLeaves_addMany (G : Forest H) (adds : List H) : (G.addMany adds).liveLeaves = G.liveLeaves ++ adds := by
  simp only [Forest.addMany, Forest.liveLeaves, List.filterMap_append]
  congr 1
  induction adds with
  | nil => rfl
  | cons a r ih => simp [ih]

/-- **`Undo` restores the strong invariant of the forest before the `Modify`**: `m` tracks
`F.modify dels adds`; undoing the additions `adds` and the deletions `dels` (with the canonical proof
of `dels` in `F` and the roots of `F`) gives a state that tracks `F`, and the cache is
`(K \ adds) ∪ dels`. -/
theorem sinv_undo (nz : NZ H) {m : MapPollard H} {F : Forest H} {dels adds : List H} {ts : List Pos} {ps : List H}
    (s : SInv m (F.modify dels adds)) (hyF : Hyg F) (hnd : dels.Nodup) (hc : F.canon dels = some (ts, ps))
    (nonZero : H) (hnz : nonZero ≠ (zero : H)) :
    ∃ m', MapPollard.undo nonZero (BitVec.ofNat 64 adds.length) (ts.map (encP F.rows)) ps dels F.roots m = (m', .ok ()) ∧
      SInv m' F ∧
      (∀ y, m'.hasCached y = true ↔ ((m.hasCached y = true ∧ y ∉ adds) ∨ y ∈ dels)) := by
  obtain ⟨A, C, rep, ainv⟩ := s.abs
  have hT := rep.T_le
  have hG : (F.delLeaves dels).numLeaves = F.numLeaves := numLeaves_delLeaves F dels
  have hFm : (F.modify dels adds).numLeaves = F.numLeaves + adds.length := by
    show ((F.delLeaves dels).addMany adds).numLeaves = _
    rw [numLeaves_addMany', hG]
  have hn63 : F.numLeaves + adds.length < 2 ^ 63 := by rw [← hFm]; exact s.n_lt
  have hn64 : F.numLeaves < 2 ^ 64 := by omega
  have hfit : forestRows (F.numLeaves + adds.length) ≤ m.totalRows.toNat := by rw [← hFm]; exact s.rows_le
  have hFrows : F.rows ≤ m.totalRows.toNat :=
    Nat.le_trans (SpecView.forestRows_le (Nat.le_trans (Nat.le_add_right _ _) (SpecView.le_two_pow_forestRows _))) hfit
  have hnl : m.numLeaves = BitVec.ofNat 64 (F.numLeaves + adds.length) := by rw [← hFm]; exact s.n_eq
  have Lw := laws_forest nz F hn64 hyF
  have hyG : Hyg (F.delLeaves dels) := hyg_delLeaves hyF dels
  -- live leaves
  have hllm : (F.modify dels adds).liveLeaves = (F.delLeaves dels).liveLeaves ++ adds := liveLeaves_addMany _ _
  have hllG : ∀ x, x ∈ (F.delLeaves dels).liveLeaves ↔ (x ∈ F.liveLeaves ∧ x ∉ dels) := by
    intro x
    rw [liveLeaves_delLeaves, List.mem_filter]
    simp
  have hleafF : ∀ t x, (t, x, true) ∈ F.nodes → x ∈ F.liveLeaves := by
    intro t x h
    rw [← leaves_ofForest F hn64]
    exact leaf_entry_mem (by rw [nodes_ofForest]; exact h)
  have hleafM : ∀ t x, (t, x, true) ∈ (F.modify dels adds).nodes → x ∈ (F.modify dels adds).liveLeaves := by
    intro t x h
    rw [← leaves_ofForest _ s.n_lt64]
    exact leaf_entry_mem (by rw [nodes_ofForest]; exact h)
  have hdisj : ∀ x, x ∈ (F.delLeaves dels).liveLeaves → x ∉ adds := by
    intro x h1 h2
    have := s.hyg.nodup
    rw [hllm] at this
    exact (List.nodup_append.1 this).2.2 x h1 x h2 rfl
  -- phase 1
  let Kp : H → Prop := fun x => (C x).isSome = true ∨ x ∈ dels
  have inv0 : HInvP A C ((F.delLeaves dels).addMany adds).nodes (FRoot ((F.delLeaves dels).addMany adds))
      (fun y => (C y).isSome = true) Kp (fun _ => False) :=
    HInvP.of_hinv (HInv.of_ainv ainv) (fun x h => Or.inl h)
  obtain ⟨m1, A1, C1, hrun1, rep1, hnl1, hfl1, inv1, hdom1⟩ := undoAdd_spec nz hyF hnd hc s.hyg rep s.full hnl hn63 hfit
    Kp inv0 nonZero hnz
  -- phase 2
  have hCd : ∀ x, (C1 x).isSome = true → x ∉ dels := by
    intro x hx hxd
    obtain ⟨hCx, hxa⟩ := (hdom1 x).1 hx
    cases hCt : C x with
    | none => rw [hCt] at hCx; cases hCx
    | some t =>
      have := hleafM t x (ainv.cached_pos x t hCt)
      rw [hllm] at this
      rcases List.mem_append.1 this with h | h
      · exact ((hllG x).1 h).2 hxd
      · exact hxa h
  have hKp2 : ∀ t x, Kp x → (t, x, true) ∈ F.nodes → ((C1 x).isSome = true ∨ x ∈ dels) := by
    intro t x hk hm
    by_cases hxd : x ∈ dels
    · exact Or.inr hxd
    · rcases hk with hk | hk
      · refine Or.inl ((hdom1 x).2 ⟨hk, hdisj x ((hllG x).2 ⟨hleafF t x hm, hxd⟩)⟩)
      · exact absurd hk hxd
  obtain ⟨m2, A2, C2, hrun2, rep2, hnl2, hfl2, inv2, hdom2⟩ := undoDeletion_spec nz hyF hnd hc (by omega) hFrows rep1 hfl1
    hnl1 Kp (fun x hx => Or.inr hx) hKp2 hCd inv1
  -- phase 3
  have hnT : F.numLeaves ≤ 2 ^ m.totalRows.toNat := by
    have h1 := SpecView.le_two_pow_forestRows F.numLeaves
    have h2 : 2 ^ forestRows F.numLeaves ≤ 2 ^ m.totalRows.toNat := Nat.pow_le_pow_right (by decide) hFrows
    omega
  have hrps : RootPositions m2.numLeaves m2.totalRows =
      ((treeRows F.numLeaves).map (rootPos F.numLeaves)).map (encP m.totalRows.toNat) := by
    rw [hnl2, hnl1, rep2.rows, Props.C16.rootPositions_spec hT _
      (by rw [BitVec.toNat_ofNat, Nat.mod_eq_of_lt hn64]; exact hnT), BitVec.toNat_ofNat, Nat.mod_eq_of_lt hn64,
      List.map_map]
    rfl
  have hv : ∀ q ∈ (treeRows F.numLeaves).map (rootPos F.numLeaves), Valid m.totalRows.toNat q := by
    intro q hq
    obtain ⟨h, hh, rfl⟩ := List.mem_map.1 hq
    have := MapUndoRoots.rootPos_valid hFrows hh
    exact ⟨this.1, this.2⟩
  have hndr : ((treeRows F.numLeaves).map (rootPos F.numLeaves)).Nodup := by
    apply List.Pairwise.map _ _ (CalcComplete.treeRows_sorted F.numLeaves)
    intro a b hab e
    have := congrArg Prod.fst e
    simp only [rootPos] at this
    omega
  obtain ⟨m3, hrun3, rep3, hnl3, hfl3⟩ := restoreRoots_gen F.roots ((treeRows F.numLeaves).map (rootPos F.numLeaves)) 0
    rep2 hfl2 hv hndr (by rw [SpecNodes.roots_eq]; simp)
  rw [List.drop_zero, SpecNodes.roots_eq, List.zip_map'] at rep3
  have hpsR : ∀ e ∈ (treeRows F.numLeaves).map (fun a => (rootPos F.numLeaves a, SpecNodes.treeRoot F a)),
      FRoot F e.1 ∧ ∃ b, (e.1, e.2, b) ∈ F.nodes := by
    intro e he
    obtain ⟨h, hh, rfl⟩ := List.mem_map.1 he
    exact ⟨isRootPos_rootPos (mem_treeRows.1 hh).2, rootNode_mem_nodes F hh⟩
  have inv3 := hinv_restore Lw inv2 _ hpsR
  have hroots : ∀ ρ, FRoot F ρ → restoreA ((treeRows F.numLeaves).map
      (fun a => (rootPos F.numLeaves a, SpecNodes.treeRoot F a))) A2 C2 ρ ≠ none := by
    intro ρ hr
    obtain ⟨hb, hq⟩ := eq_rootPos_of_isRootPos hr
    have hrow : ρ.1 ∈ treeRows F.numLeaves := CalcComplete.mem_treeRows hn64 hb
    unfold restoreA
    cases hf : List.find? (fun e => decide (e.1 = ρ)) ((treeRows F.numLeaves).map
        (fun a => (rootPos F.numLeaves a, SpecNodes.treeRoot F a))) with
    | some e => simp
    | none =>
      exfalso
      rw [List.find?_eq_none] at hf
      have := hf (rootPos F.numLeaves ρ.1, SpecNodes.treeRoot F ρ.1) (List.mem_map.2 ⟨ρ.1, hrow, rfl⟩)
      simp only [decide_eq_true_eq] at this
      exact this hq.symm
  have ainv3 := inv3.to_ainv hroots
  have hrows3 : m3.totalRows = m.totalRows := rep3.rows.trans rep.rows.symm
  refine ⟨m3, ?_, ?_, ?_⟩
  · unfold MapPollard.undo
    rw [hrun1]
    simp only
    rw [hrun2]
    simp only
    show MapPollard.restoreRoots F.roots (RootPositions m2.numLeaves m2.totalRows) 0 m2 = _
    rw [hrps]
    exact hrun3
  · exact { n_lt := by omega, n_eq := by rw [hnl3, hnl2, hnl1], rows_le := by rw [hrows3]; exact hFrows,
            total_le := by rw [hrows3]; exact hT, full := hfl3.trans hfl2, hyg := hyF,
            abs := ⟨_, C2, by rw [hrows3]; exact rep3, ainv3⟩ }
  · intro y
    rw [rep3.hasCached, rep.hasCached, hdom2, hdom1]

end UtreexoVerif.Proofs.MapUndoAll
